import Brax.Lemmas.C05Spring
import Brax.Lemmas.C04Pos
/-!
# C05, dynamics part: one `positional.pipeline.step` commutes with a rigid transform of the scene

Stage lemmas and their composition, as `Lemmas/C05Spring.lean` does for the spring pipeline; the action
of `g` on the system (`gSys`), on anchors and joint coordinates (`gAp`, `gJ`, `gJd`) is the same.

**What is different, and is a finding about the real code.**  `joints._translation_update` and
`joints._rotation_update` normalise a *world-frame* displacement with `math.normalize`, whose
`math.safe_norm` tests `jp.allclose(x, 0.0)`: *every coordinate* `≤ 1e-8` in absolute value.  That
test is a cube, not a ball, so it is not invariant under rotations: a displacement of length between
`1e-8` and `√3·1e-8` is "zero" (no correction at all) in one frame and non-zero (full correction) in
another (`safeNorm3_not_rotation_invariant`, `translationUpdate_not_equivariant` below; confirmed on
the real `brax.positional.pipeline.step`, see `notes/C05-deepen-positional.md`).  The step is
therefore equivariant exactly when no joint displacement falls into that shell: `VClear`
(`v = 0` or `|v|² > 3e-16`, a frame-independent condition).  The same cube is used by the quaternion
normalisations (`integrate_xdd`, `resolve_position`); there the argument is of length `≥ 1` when the
state's rotations are unit quaternions (`UnitRot`), which the step preserves.
-/
set_option linter.unusedSectionVars false
set_option linter.unusedSimpArgs false
set_option linter.unusedVariables false
namespace Brax.C05P
open Brax MC C04L KinEquiv C05L

/-! ## 0. algebra -/

theorem doTf_rot (g t : Tf ℝ) : (Tf.doTf g t).rot = quatMul g.rot t.rot := rfl

theorem vecQuatMul_eq (v : V3 ℝ) (q : Q4 ℝ) : vecQuatMul v q = quatMul (angToQuat v) q := by
  simp only [vecQuatMul, quatMul, angToQuat]; congr 1 <;> ring

/-- `(0, R_g v) ⊗ (g ⊗ q) = g ⊗ ((0, v) ⊗ q)` for a unit `g` -/
theorem vecQuatMul_equiv (g q : Q4 ℝ) (hg : g.IsUnit) (v : V3 ℝ) :
    vecQuatMul (rotate v g) (quatMul g q) = quatMul g (vecQuatMul v q) := by
  rw [vecQuatMul_eq, vecQuatMul_eq, ← quatMul_assoc, angToQuat_rotate_mul, hg, q4_smul_one,
    quatMul_assoc]

theorem q4smul_quatMul (s : ℝ) (g X : Q4 ℝ) : Q4.smul s (quatMul g X) = quatMul g (Q4.smul s X) := by
  simp only [Q4.smul, quatMul]; congr 1 <;> ring

theorem halfVq_equiv (g q : Q4 ℝ) (hg : g.IsUnit) (s : ℝ) (v : V3 ℝ) :
    Positional.halfVq s (rotate v g) (quatMul g q) = quatMul g (Positional.halfVq s v q) := by
  simp only [Positional.halfVq, vecQuatMul_equiv g q hg, q4smul_quatMul]

theorem quatMul_zero (g : Q4 ℝ) : quatMul g (0 : Q4 ℝ) = 0 := by
  show quatMul g ⟨0, 0, 0, 0⟩ = ⟨0, 0, 0, 0⟩
  simp only [quatMul]; congr 1 <;> ring

theorem quatMul_add (g a b : Q4 ℝ) : quatMul g (a + b) = quatMul g a + quatMul g b := by
  simp only [quatMul, q4_add_def]; congr 1 <;> ring

/-! ## the dead zone of `math.safe_norm` -/

/-- a 3-vector that `jp.allclose(·, 0)` classifies the same way in every rotated frame: exactly
zero, or longer than the diagonal `√3·1e-8` of the cube `|x_k| ≤ 1e-8` -/
def VClear (v : V3 ℝ) : Prop := v = 0 ∨ 3e-16 < V3.dot v v
/-- the same for a quaternion (diagonal `2e-8` of the 4-cube) -/
def QClear (q : Q4 ℝ) : Prop := q = 0 ∨ 4e-16 < Q4.normSq q

theorem sq_le_of_abs_le (a : ℝ) (ha : |a| ≤ 1e-8) : a * a ≤ 1e-16 := by
  have := abs_mul_abs_self a
  have h0 := abs_nonneg a
  nlinarith

theorem not_allClose3 {v : V3 ℝ} (h : 3e-16 < V3.dot v v) : allClose0 [v.x, v.y, v.z] = false := by
  by_contra hc
  rw [Bool.not_eq_false, allClose0_iff] at hc
  have hx := sq_le_of_abs_le _ (hc v.x (by simp))
  have hy := sq_le_of_abs_le _ (hc v.y (by simp))
  have hz := sq_le_of_abs_le _ (hc v.z (by simp))
  simp only [V3.dot] at h
  norm_num at *
  linarith

theorem not_allClose4 {q : Q4 ℝ} (h : 4e-16 < Q4.normSq q) :
    allClose0 [q.w, q.x, q.y, q.z] = false := by
  by_contra hc
  rw [Bool.not_eq_false, allClose0_iff] at hc
  have hw := sq_le_of_abs_le _ (hc q.w (by simp))
  have hx := sq_le_of_abs_le _ (hc q.x (by simp))
  have hy := sq_le_of_abs_le _ (hc q.y (by simp))
  have hz := sq_le_of_abs_le _ (hc q.z (by simp))
  simp only [Q4.normSq] at h
  norm_num at *
  linarith

theorem safeNorm3_of_clear {v : V3 ℝ} (h : 3e-16 < V3.dot v v) :
    safeNorm3 v = Real.sqrt (V3.dot v v) := by
  simp only [safeNorm3, safeNormL, not_allClose3 h, Bool.false_eq_true, if_false, List.foldl,
    HasSqrt.sqrt, V3.dot]
  congr 1; ring

theorem safeNorm4_of_clear {q : Q4 ℝ} (h : 4e-16 < Q4.normSq q) :
    safeNorm4 q = Real.sqrt (Q4.normSq q) := by
  simp only [safeNorm4, safeNormL, not_allClose4 h, Bool.false_eq_true, if_false, List.foldl,
    HasSqrt.sqrt, Q4.normSq]
  congr 1; ring

/-- `math.safe_norm` is rotation invariant outside the dead zone -/
theorem safeNorm3_rotate (g : Q4 ℝ) (hg : g.IsUnit) {v : V3 ℝ} (hv : VClear v) :
    safeNorm3 (rotate v g) = safeNorm3 v := by
  rcases hv with rfl | h
  · rw [rotate_zero0]
  · have h' : 3e-16 < V3.dot (rotate v g) (rotate v g) := by rw [rotate_dot_unit _ _ hg]; exact h
    rw [safeNorm3_of_clear h, safeNorm3_of_clear h', rotate_dot_unit _ _ hg]

/-- `math.normalize` of a 3-vector is rotation equivariant outside the dead zone -/
theorem normalize3_rotate (g : Q4 ℝ) (hg : g.IsUnit) {v : V3 ℝ} (hv : VClear v) :
    normalize3 (rotate v g) = rotate (normalize3 v) g := by
  unfold normalize3
  simp only [safeNorm3_rotate g hg hv]
  rw [rotate_div]

theorem safeNorm4_mul (g : Q4 ℝ) (hg : g.IsUnit) {q : Q4 ℝ} (hq : QClear q) :
    safeNorm4 (quatMul g q) = safeNorm4 q := by
  rcases hq with rfl | h
  · rw [quatMul_zero]
  · have hn : Q4.normSq (quatMul g q) = Q4.normSq q := by rw [normSq_quatMul, hg, one_mul]
    have h' : 4e-16 < Q4.normSq (quatMul g q) := by rw [hn]; exact h
    rw [safeNorm4_of_clear h, safeNorm4_of_clear h', hn]

/-- `math.normalize` of a quaternion commutes with the left multiplication by a unit quaternion,
outside the dead zone -/
theorem normalize4_equiv (g : Q4 ℝ) (hg : g.IsUnit) {q : Q4 ℝ} (hq : QClear q) :
    normalize4 (quatMul g q) = quatMul g (normalize4 q) := by
  unfold normalize4
  simp only [safeNorm4_mul g hg hq]
  rw [quatMul_div]

theorem VClear.neg {v : V3 ℝ} (h : VClear v) : VClear (-v) := by
  rcases h with rfl | h
  · left; exact v3_neg_zero
  · right
    have : V3.dot (-v) (-v) = V3.dot v v := by simp only [V3.dot, V3.neg_def]; ring
    rw [this]; exact h

theorem VClear.rotate {v : V3 ℝ} (h : VClear v) (g : Q4 ℝ) (hg : g.IsUnit) : VClear (rotate v g) := by
  rcases h with rfl | h
  · left; exact rotate_zero0 g
  · right; rw [rotate_dot_unit _ _ hg]; exact h

theorem VClear.zero : VClear (0 : V3 ℝ) := Or.inl rfl

/-! ### the finding, on the model: the `allclose` cube is not rotation invariant -/

/-- `(1e-8, 1e-8, 0)` has "norm" `0`; rotated by the unit quaternion `(3/5, 0, 0, 4/5)` it is
`(-1.24e-8, 0.68e-8, 0)` and has a non-zero norm -/
theorem safeNorm3_not_rotation_invariant :
    (⟨3/5, 0, 0, 4/5⟩ : Q4 ℝ).IsUnit
    ∧ safeNorm3 (⟨1e-8, 1e-8, 0⟩ : V3 ℝ) = 0
    ∧ safeNorm3 (rotate (⟨1e-8, 1e-8, 0⟩ : V3 ℝ) ⟨3/5, 0, 0, 4/5⟩) ≠ 0 := by
  refine ⟨by simp only [Q4.IsUnit, Q4.normSq]; norm_num, ?_, ?_⟩
  · have hc : allClose0 [(1e-8 : ℝ), 1e-8, 0] = true := by
      rw [allClose0_iff]; intro x hx
      simp only [List.mem_cons, List.mem_nil_iff, or_false] at hx
      rcases hx with rfl | rfl | rfl <;> norm_num [abs_of_pos]
    simp only [safeNorm3, safeNormL, hc, if_true]
  · have hr : rotate (⟨1e-8, 1e-8, 0⟩ : V3 ℝ) ⟨3/5, 0, 0, 4/5⟩ = ⟨-1.24e-8, 0.68e-8, 0⟩ := by
      simp only [rotate, V3.dot, V3.cross, Q4.vec]; congr 1 <;> norm_num
    rw [hr]
    have hnc : allClose0 [(-1.24e-8 : ℝ), 0.68e-8, 0] = false := by
      rw [Bool.eq_false_iff]; intro hcl; rw [allClose0_iff] at hcl
      have := hcl (-1.24e-8) (by simp)
      rw [abs_of_neg (by norm_num)] at this
      norm_num at this
    simp only [safeNorm3, safeNormL, hnc, Bool.false_eq_true, if_false, List.foldl, HasSqrt.sqrt]
    apply ne_of_gt
    apply Real.sqrt_pos.mpr
    norm_num

/-! ## 1. the PBD updates -/

/-- the action of `g` on a delta transform: the position delta is rotated, the (additive)
quaternion delta is multiplied on the left -/
def gD (g : Tf ℝ) (d : Positional.DTf ℝ) : Positional.DTf ℝ := ⟨rotate d.pos g.rot, quatMul g.rot d.rot⟩

theorem gD_zero (g : Tf ℝ) : gD g 0 = 0 := by
  show (⟨rotate (0 : V3 ℝ) g.rot, quatMul g.rot (0 : Q4 ℝ)⟩ : Positional.DTf ℝ) = ⟨0, 0⟩
  rw [rotate_zero0, quatMul_zero]

theorem gD_add (g : Tf ℝ) (a b : Positional.DTf ℝ) : gD g (a + b) = gD g a + gD g b := by
  simp only [gD, dtf_add_def, rotate_add, quatMul_add]

theorem gD_smul (g : Tf ℝ) (s : ℝ) (d : Positional.DTf ℝ) :
    Positional.DTf.smul s (gD g d) = gD g (Positional.DTf.smul s d) := by
  simp only [gD, Positional.DTf.smul]
  congr 1
  · simp only [rotate, V3.dot, V3.cross, Q4.vec]; congr 1 <;> ring
  · simp only [quatMul]; congr 1 <;> ring

theorem addDelta_equiv (g t : Tf ℝ) (d : Positional.DTf ℝ) :
    Positional.addDelta (Tf.doTf g t) (gD g d) = Tf.doTf g (Positional.addDelta t d) := by
  simp only [Positional.addDelta, gD, Tf.doTf, rotate_add, quatMul_add, V3.add_assoc']

theorem dtf_smul_zero (s : ℝ) : Positional.DTf.smul s (0 : Positional.DTf ℝ) = 0 := by
  show Positional.DTf.smul s ⟨⟨0, 0, 0⟩, ⟨0, 0, 0, 0⟩⟩ = ⟨⟨0, 0, 0⟩, ⟨0, 0, 0, 0⟩⟩
  simp only [Positional.DTf.smul, zero_mul]

theorem safeNorm3_zero : safeNorm3 (0 : V3 ℝ) = 0 := by
  have hc : allClose0 [(0 : ℝ), 0, 0] = true := by
    rw [allClose0_iff]; intro x hx
    simp only [List.mem_cons, List.mem_nil_iff, or_false] at hx
    rcases hx with rfl | rfl | rfl <;> norm_num
  show safeNormL [(0 : ℝ), 0, 0] = 0
  simp only [safeNormL, hc, if_true]

theorem cross_zero_right0 (v : V3 ℝ) : V3.cross v (0 : V3 ℝ) = 0 := by
  show V3.cross v ⟨0, 0, 0⟩ = ⟨0, 0, 0⟩
  simp only [V3.cross]; congr 1 <;> ring

theorem mulVec_zero0 (A : M3 ℝ) : M3.mulVec A (0 : V3 ℝ) = 0 := by
  show M3.mulVec A ⟨0, 0, 0⟩ = ⟨0, 0, 0⟩
  simp only [M3.mulVec, V3.dot]; congr 1 <;> ring

theorem halfVq_zero (s : ℝ) (q : Q4 ℝ) : Positional.halfVq s (0 : V3 ℝ) q = 0 := by
  show Positional.halfVq s ⟨0, 0, 0⟩ q = ⟨0, 0, 0, 0⟩
  simp only [Positional.halfVq, vecQuatMul, Q4.smul]; congr 1 <;> ring

/-- a zero displacement gives no correction at all (this is what a free root gets) -/
theorem translationUpdate_zero (a_p xi_p : Tf ℝ) (IP : M3 ℝ) (mP : ℝ) (a_c xi_c : Tf ℝ) (IC : M3 ℝ)
    (mC : ℝ) : Positional.translationUpdate a_p xi_p IP mP a_c xi_c IC mC 0 = (0, 0) := by
  unfold Positional.translationUpdate
  simp only [safeNorm3_zero, normalize3_zero, neg_zero, zero_div, zero_smul', cross_zero_right0,
    mulVec_zero0, halfVq_zero, v3_neg_zero, smul_zero']
  rfl

theorem rotationUpdate_zero (xi_p : Tf ℝ) (IP : M3 ℝ) (xi_c : Tf ℝ) (IC : M3 ℝ) :
    Positional.rotationUpdate xi_p IP xi_c IC 0 = (0, 0) := by
  unfold Positional.rotationUpdate
  simp only [safeNorm3_zero, normalize3_zero, neg_zero, zero_div, zero_smul', mulVec_zero0,
    halfVq_zero, smul_zero']
  rfl

/-- **`joints._translation_update` is equivariant** outside the dead zone of `safe_norm` -/
theorem translationUpdate_equiv (g : Tf ℝ) (hg : g.rot.IsUnit) (a_p xi_p : Tf ℝ) (IP : M3 ℝ) (mP : ℝ)
    (a_c xi_c : Tf ℝ) (IC : M3 ℝ) (mC : ℝ) (dx : V3 ℝ) (hdx : VClear dx) :
    Positional.translationUpdate (Tf.doTf g a_p) (Tf.doTf g xi_p) (conjM g.rot IP) mP
        (Tf.doTf g a_c) (Tf.doTf g xi_c) (conjM g.rot IC) mC (rotate dx g.rot)
      = (gD g (Positional.translationUpdate a_p xi_p IP mP a_c xi_c IC mC dx).1,
         gD g (Positional.translationUpdate a_p xi_p IP mP a_c xi_c IC mC dx).2) := by
  unfold Positional.translationUpdate
  simp only [doTf_pos_sub, doTf_rot, normalize3_rotate _ hg hdx, safeNorm3_rotate _ hg hdx,
    rotate_cross_unit _ _ hg, mulVec_conjM _ _ hg, rotate_dot_unit _ _ hg, ← rotate_smul,
    ← rotate_neg, halfVq_equiv _ _ hg, gD]

/-- **`joints._rotation_update` is equivariant** outside the dead zone of `safe_norm` -/
theorem rotationUpdate_equiv (g : Tf ℝ) (hg : g.rot.IsUnit) (xi_p : Tf ℝ) (IP : M3 ℝ)
    (xi_c : Tf ℝ) (IC : M3 ℝ) (dq : V3 ℝ) (hdq : VClear dq) :
    Positional.rotationUpdate (Tf.doTf g xi_p) (conjM g.rot IP) (Tf.doTf g xi_c) (conjM g.rot IC)
        (rotate dq g.rot)
      = (gD g (Positional.rotationUpdate xi_p IP xi_c IC dq).1,
         gD g (Positional.rotationUpdate xi_p IP xi_c IC dq).2) := by
  unfold Positional.rotationUpdate
  simp only [doTf_rot, normalize3_rotate _ hg hdq, safeNorm3_rotate _ hg hdq,
    mulVec_conjM _ _ hg, rotate_dot_unit _ _ hg, ← rotate_smul, halfVq_equiv _ _ hg, gD,
    rotate_zero0]

/-! ### the finding at stage level -/

theorem mulVec_M3zero (v : V3 ℝ) : M3.mulVec (M3.zero : M3 ℝ) v = 0 := by
  show _ = (⟨0, 0, 0⟩ : V3 ℝ)
  simp only [M3.mulVec, M3.zero, V3.zero, V3.dot]; congr 1 <;> ring

theorem dot_zero0 (v : V3 ℝ) : V3.dot v (0 : V3 ℝ) = 0 := by
  show V3.dot v ⟨0, 0, 0⟩ = 0
  simp only [V3.dot]; ring

theorem conjM_zero (q : Q4 ℝ) : conjM q (M3.zero : M3 ℝ) = M3.zero := by
  simp only [conjM, rowsRot, colsRot, M3.transpose, M3.zero, V3.zero, rotate, V3.dot, V3.cross, Q4.vec]
  congr 1 <;> congr 1 <;> ring

/-- the child position delta of `_translation_update` for point masses (`i_inv = 0`) -/
theorem translationUpdate_child_pos (a_p xi_p a_c xi_c : Tf ℝ) (mP mC : ℝ) (dx : V3 ℝ) :
    (Positional.translationUpdate a_p xi_p M3.zero mP a_c xi_c M3.zero mC dx).2.pos
      = V3.smul mC (V3.smul (-(safeNorm3 dx) / (mP + 0 + (mC + 0) + 1e-6)) (normalize3 dx)) := by
  unfold Positional.translationUpdate
  simp only [mulVec_M3zero, dot_zero0]

/-- **the finding at stage level**: two unit point masses, joint displacement `(1e-8, 1e-8, 0)`: no
correction in this frame, a correction in the frame rotated by the unit quaternion `(3/5, 0, 0, 4/5)` -/
theorem translationUpdate_not_equivariant :
    ∃ (g : Tf ℝ) (dx : V3 ℝ), g.rot.IsUnit
      ∧ Positional.translationUpdate Tf.id Tf.id M3.zero 1 Tf.id Tf.id M3.zero 1 dx = (0, 0)
      ∧ Positional.translationUpdate (Tf.doTf g Tf.id) (Tf.doTf g Tf.id) (conjM g.rot M3.zero) 1
          (Tf.doTf g Tf.id) (Tf.doTf g Tf.id) (conjM g.rot M3.zero) 1 (rotate dx g.rot)
        ≠ (gD g (0 : Positional.DTf ℝ), gD g (0 : Positional.DTf ℝ)) := by
  obtain ⟨hu, h0, hne⟩ := safeNorm3_not_rotation_invariant
  refine ⟨⟨V3.zero, ⟨3/5, 0, 0, 4/5⟩⟩, ⟨1e-8, 1e-8, 0⟩, hu, ?_, ?_⟩
  · unfold Positional.translationUpdate
    simp only [h0, neg_zero, zero_div, zero_smul', cross_zero_right0, mulVec_zero0, halfVq_zero,
      v3_neg_zero, smul_zero']
    rfl
  · intro heq
    have h2 := congrArg (fun p => p.2.pos.x) heq
    simp only [conjM_zero, translationUpdate_child_pos, gD_zero] at h2
    set v' := rotate (⟨1e-8, 1e-8, 0⟩ : V3 ℝ) (⟨3/5, 0, 0, 4/5⟩ : Q4 ℝ) with hv'
    have hr : v' = ⟨-1.24e-8, 0.68e-8, 0⟩ := by
      rw [hv']; simp only [rotate, V3.dot, V3.cross, Q4.vec]; congr 1 <;> norm_num
    have hc : safeNorm3 v' ≠ 0 := hne
    have hez : eqZero (safeNorm3 v') = false := by
      rw [Bool.eq_false_iff]; intro h; rw [eqZero_iff] at h; exact hc h
    have hnx : (normalize3 v').x = v'.x / safeNorm3 v' := by
      simp only [normalize3, hez, Bool.false_eq_true, if_false]
    have hz : (0 : Positional.DTf ℝ).pos.x = 0 := rfl
    simp only [V3.smul, hnx, hz] at h2
    have hvx : v'.x = -1.24e-8 := by rw [hr]
    rw [hvx] at h2
    have : (1 : ℝ) * (-safeNorm3 v' / (1 + 0 + (1 + 0) + 1e-6) * (-1.24e-8 / safeNorm3 v'))
        = 1.24e-8 / (2 + 1e-6) := by
      field_simp
      ring
    rw [this] at h2
    norm_num at h2

/-! ## 2. the assembly of `joints.position_update` -/

/-- rotate both parts of a per-link world displacement `(d_w.pos, d_w.rot)` -/
def rot2 (g : Tf ℝ) (d : V3 ℝ × V3 ℝ) : V3 ℝ × V3 ℝ := (rotate d.1 g.rot, rotate d.2 g.rot)

theorem rot2_default (g : Tf ℝ) : rot2 g default = default := by
  show ((rotate (0 : V3 ℝ) g.rot, rotate (0 : V3 ℝ) g.rot) : V3 ℝ × V3 ℝ) = (0, 0)
  rw [rotate_zero0]

/-- the `(parent delta, child delta)` of one link in `positionAssemble` -/
noncomputable def paUpd (parents : List Int) (sp sa : ℝ) (a_p a_c x_i : List (Tf ℝ)) (iInv : List (M3 ℝ))
    (massInv : List ℝ) (dw : List (V3 ℝ × V3 ℝ)) (i : Nat) : Positional.DTf ℝ × Positional.DTf ℝ :=
  let p := parents.getD i (-1)
  let inb := decide (-1 < p)
  let xiP := Kin.takeParent x_i default p
  let iInvP := maskM inb (takeWrap iInv p)
  let massInvP := maskS inb (massInv.getD (p % (massInv.length : Int)).toNat 0)
  let d := nth dw i
  let t := Positional.translationUpdate (nth a_p i) xiP iInvP massInvP (nth a_c i) (nth x_i i)
    (nth iInv i) (nthS massInv i) (-d.1)
  let r := Positional.rotationUpdate xiP iInvP (nth x_i i) (nth iInv i) d.2
  (Positional.DTf.smul sp t.1 + Positional.DTf.smul sa r.1,
   Positional.DTf.smul sp t.2 + Positional.DTf.smul sa r.2)

theorem positionAssemble_eq (parents : List Int) (sp sa : ℝ) (a_p a_c x_i : List (Tf ℝ))
    (iInv : List (M3 ℝ)) (massInv : List ℝ) (dw : List (V3 ℝ × V3 ℝ)) :
    Positional.positionAssemble parents sp sa a_p a_c x_i iInv massInv dw
      = tab parents.length fun i =>
          Positional.addDelta (Positional.addDelta (nth x_i i)
              (paUpd parents sp sa a_p a_c x_i iInv massInv dw i).2)
            (nth (segmentSum (tab parents.length fun i =>
              (paUpd parents sp sa a_p a_c x_i iInv massInv dw i).1) parents parents.length) i) := rfl

/-- a link whose displacement is zero (a free root) produces no delta -/
theorem paUpd_zero (parents : List Int) (sp sa : ℝ) (a_p a_c x_i : List (Tf ℝ)) (iInv : List (M3 ℝ))
    (massInv : List ℝ) (dw : List (V3 ℝ × V3 ℝ)) (i : Nat) (h : nth dw i = (0, 0)) :
    paUpd parents sp sa a_p a_c x_i iInv massInv dw i = (0, 0) := by
  unfold paUpd
  simp only [h, v3_neg_zero, translationUpdate_zero, rotationUpdate_zero, dtf_smul_zero,
    dtf_add_zero]

/-- one non-root row of the assembly -/
theorem paUpd_equiv (g : Tf ℝ) (hg : g.rot.IsUnit) (parents : List Int) (sp sa : ℝ)
    (a_p a_c x_i : List (Tf ℝ)) (iInv : List (M3 ℝ)) (massInv : List ℝ) (dw : List (V3 ℝ × V3 ℝ))
    (hxi : x_i.length = parents.length) (hac : a_c.length = parents.length)
    (hii : iInv.length = parents.length) {i : Nat} (hi : i < parents.length)
    (hp0 : 0 ≤ parentOf parents i) (hp1 : parentOf parents i < (i : Int))
    (hc1 : VClear (nth dw i).1) (hc2 : VClear (nth dw i).2) :
    paUpd parents sp sa (gAp g parents a_p) (a_c.map (Tf.doTf g)) (x_i.map (Tf.doTf g))
        (iInv.map (conjM g.rot)) massInv (dw.map (rot2 g)) i
      = (gD g (paUpd parents sp sa a_p a_c x_i iInv massInv dw i).1,
         gD g (paUpd parents sp sa a_p a_c x_i iInv massInv dw i).2) := by
  have hp0' : 0 ≤ parents.getD i (-1) := hp0
  have hp1' : parents.getD i (-1) < (i : Int) := hp1
  have hdec : decide (-1 < parents.getD i (-1)) = true := by
    simp only [decide_eq_true_eq]; omega
  have hnr : ¬ parentOf parents i < 0 := by omega
  have hA : nth (gAp g parents a_p) i = Tf.doTf g (nth a_p i) := by
    rw [gAp, nth_tab _ hi, if_neg hnr]
  have hX : Kin.takeParent (x_i.map (Tf.doTf g)) default (parents.getD i (-1))
      = Tf.doTf g (Kin.takeParent x_i default (parents.getD i (-1))) :=
    takeParent_map_lt x_i (Tf.doTf g) default default _ hp0' (by omega)
  have hI : takeWrap (iInv.map (conjM g.rot)) (parents.getD i (-1))
      = conjM g.rot (takeWrap iInv (parents.getD i (-1))) := takeWrap_map _ _ _ (by omega)
  have hD : nth (dw.map (rot2 g)) i = rot2 g (nth dw i) := nth_map_dflt _ _ _ (rot2_default g)
  unfold paUpd
  simp only [hdec, hA, hX, hI, hD, List.length_map, maskM, if_true,
    nth_map_lt a_c (Tf.doTf g) (show i < a_c.length by omega),
    nth_map_lt x_i (Tf.doTf g) (show i < x_i.length by omega),
    nth_map_lt iInv (conjM g.rot) (show i < iInv.length by omega),
    rot2, ← rotate_neg, translationUpdate_equiv g hg _ _ _ _ _ _ _ _ _ hc1.neg,
    rotationUpdate_equiv g hg _ _ _ _ _ hc2, gD_smul, gD_add]

/-- **the assembly of `joints.position_update` is equivariant**, for every per-link world
displacement that vanishes on the roots and stays out of the dead zone of `safe_norm` -/
theorem positionAssemble_equiv (g : Tf ℝ) (hg : g.rot.IsUnit) (parents : List Int) (sp sa : ℝ)
    (a_p a_c x_i : List (Tf ℝ)) (iInv : List (M3 ℝ)) (massInv : List ℝ) (dw : List (V3 ℝ × V3 ℝ))
    (hpar : ∀ i, i < parents.length → -1 ≤ parentOf parents i ∧ parentOf parents i < (i : Int))
    (hxi : x_i.length = parents.length) (hac : a_c.length = parents.length)
    (hii : iInv.length = parents.length)
    (hroot : ∀ i, i < parents.length → parentOf parents i < 0 → nth dw i = (0, 0))
    (hclear : ∀ i, i < parents.length → VClear (nth dw i).1 ∧ VClear (nth dw i).2) :
    Positional.positionAssemble parents sp sa (gAp g parents a_p) (a_c.map (Tf.doTf g))
        (x_i.map (Tf.doTf g)) (iInv.map (conjM g.rot)) massInv (dw.map (rot2 g))
      = (Positional.positionAssemble parents sp sa a_p a_c x_i iInv massInv dw).map (Tf.doTf g) := by
  rw [positionAssemble_eq, positionAssemble_eq, tab_map]
  set n := parents.length with hn
  have hrow : ∀ i, i < n →
      paUpd parents sp sa (gAp g parents a_p) (a_c.map (Tf.doTf g)) (x_i.map (Tf.doTf g))
          (iInv.map (conjM g.rot)) massInv (dw.map (rot2 g)) i
        = (gD g (paUpd parents sp sa a_p a_c x_i iInv massInv dw i).1,
           gD g (paUpd parents sp sa a_p a_c x_i iInv massInv dw i).2) := by
    intro i hi
    by_cases hr : parentOf parents i < 0
    · have h0 := hroot i hi hr
      have h0' : nth (dw.map (rot2 g)) i = (0, 0) := by
        rw [nth_map_dflt _ _ _ (rot2_default g), h0]; exact rot2_default g
      rw [paUpd_zero _ _ _ _ _ _ _ _ _ i h0, paUpd_zero _ _ _ _ _ _ _ _ _ i h0', gD_zero]
    · exact paUpd_equiv g hg parents sp sa a_p a_c x_i iInv massInv dw hxi hac hii hi (by omega)
        (hpar i hi).2 (hclear i hi).1 (hclear i hi).2
  have hseg : (tab n fun i => (paUpd parents sp sa (gAp g parents a_p) (a_c.map (Tf.doTf g))
        (x_i.map (Tf.doTf g)) (iInv.map (conjM g.rot)) massInv (dw.map (rot2 g)) i).1)
      = (tab n fun i => (paUpd parents sp sa a_p a_c x_i iInv massInv dw i).1).map (gD g) := by
    rw [tab_map]; apply tab_congr; intro i hi; rw [hrow i hi]
  rw [hseg, segmentSum_map (gD g) (gD_zero g) (gD_add g)]
  apply tab_congr
  intro i hi
  rw [hrow i hi, nth_map_lt x_i _ (show i < x_i.length by omega), nth_map_dflt _ _ _ (gD_zero g),
    addDelta_equiv, addDelta_equiv]

/-! ## 3. joint displacements: `j` of non-free links only, rotated by `a_p.rot` -/

theorem jointDisplacements_length (s : Sys ℝ) (j a_p : List (Tf ℝ)) :
    (Positional.jointDisplacements s j a_p).length = s.numLinks := by
  simp only [Positional.jointDisplacements, tab_length]

/-- a free link has no joint displacement (`free_mask`) -/
theorem jointDisplacements_free' (s : Sys ℝ) (j a_p : List (Tf ℝ)) {i : Nat}
    (hi : i < s.numLinks) (hfree : s.types[i]? = some .free) :
    nth (Positional.jointDisplacements s j a_p) i = (0, 0) := by
  unfold Positional.jointDisplacements
  rw [nth_tab _ hi]
  have hl := Kin.linkSlices_length s.types ([] : List ℝ) [] s.dofs
  have ht := Kin.linkSlices_typ s.types ([] : List ℝ) [] s.dofs
  have hi' : i < (Kin.linkSlices s.types ([] : List ℝ) [] s.dofs).length := by rw [hl]; exact hi
  simp only [List.getElem?_eq_getElem hi']
  have : (Kin.linkSlices s.types ([] : List ℝ) [] s.dofs)[i].typ = .free := by
    have h1 : ((Kin.linkSlices s.types ([] : List ℝ) [] s.dofs).map (·.typ))[i]? = some .free := by
      rw [ht]; exact hfree
    rw [List.getElem?_map, List.getElem?_eq_getElem hi'] at h1
    simpa using h1
  simp only [this, bne_self_eq_false, maskV]
  exact Prod.ext (rotate_zero _) (rotate_zero _)

/-- **the per-link world displacement of `joints.position_update` is rotated by `g`**: the joint
frame displacement `d_j` is computed from `j` (unchanged on non-root links, masked on the free
roots) and rotated by `a_p.rot ↦ g.rot ⊗ a_p.rot` -/
theorem jointDisplacements_equiv (g : Tf ℝ) (s : Sys ℝ) (hfr : FreeRooted s) (j a_p a_c : List (Tf ℝ)) :
    Positional.jointDisplacements (gSys g s) (gJ g s.parents a_p a_c j) (gAp g s.parents a_p)
      = (Positional.jointDisplacements s j a_p).map (rot2 g) := by
  show Positional.jointDisplacements s _ _ = _
  rw [eq_tab_of_length (jointDisplacements_length s (gJ g s.parents a_p a_c j) (gAp g s.parents a_p)),
    map_eq_tab _ _ (jointDisplacements_length s j a_p)]
  apply tab_congr
  intro i hi
  have hi' : i < s.parents.length := by rw [hfr.hlen]; exact hi
  by_cases hr : parentOf s.parents i < 0
  · have hf := hfr.hroot i hi (by have := (hfr.hpar i hi).1; omega)
    rw [jointDisplacements_free' s _ _ hi hf, jointDisplacements_free' s _ _ hi hf]
    exact (rot2_default g).symm
  · have hj : nth (gJ g s.parents a_p a_c j) i = nth j i := gJ_nonroot g _ _ _ _ hi' hr
    have ha : nth (gAp g s.parents a_p) i = Tf.doTf g (nth a_p i) := by
      rw [gAp, nth_tab _ hi', if_neg hr]
    simp only [Positional.jointDisplacements, nth_tab _ hi, hj, ha]
    generalize (Kin.linkSlices s.types ([] : List ℝ) [] s.dofs)[i]? = o
    cases o with
    | none => exact (rot2_default g).symm
    | some l => simp only [rot2, doTf_rot, rotate_quatMul]

/-! ## 4. acceleration level -/

/-- `Positional.jointForces` is unchanged when `jd` is changed on free links only -/
theorem posJointForces_congr (s : Sys ℝ) (jd jd' : List (Motion ℝ)) (tau : List ℝ)
    (h : ∀ i, i < s.numLinks → s.types[i]? ≠ some .free → nth jd' i = nth jd i) :
    Positional.jointForces s jd' tau = Positional.jointForces s jd tau := by
  rw [eq_tab_of_length (l := Positional.jointForces s jd' tau) (n := s.numLinks)
      (by simp [Positional.jointForces, tab_length]),
    eq_tab_of_length (l := Positional.jointForces s jd tau) (n := s.numLinks)
      (by simp [Positional.jointForces, tab_length])]
  apply tab_congr
  intro i hi
  by_cases hf : s.types[i]? = some .free
  · rw [posJointForces_free s jd' tau hi hf, posJointForces_free s jd tau hi hf]
  · have h1 := h i hi hf
    simp only [Positional.jointForces, nth_tab _ hi, h1]

/-- `xdd_i = gravity + (I⁻¹ f.ang, f.vel / m)` is equivariant when gravity is rotated and the
inverse inertias are conjugated -/
theorem acceleration_equiv (g : Tf ℝ) (hg : g.rot.IsUnit) (s : Sys ℝ) (iInv iInv' : List (M3 ℝ))
    (mass : List ℝ) (xf : List (Force ℝ))
    (hI : ∀ i, i < s.numLinks → nth iInv' i = conjM g.rot (nth iInv i)) :
    Positional.acceleration (gSys g s) iInv' mass (xf.map (rotF g))
      = (Positional.acceleration s iInv mass xf).map (rotM g) := by
  unfold Positional.acceleration
  rw [tab_map]
  apply tab_congr
  intro i hi
  simp only [gSys_numLinks, gSys_gravity]
  rw [nth_map_dflt _ _ _ (rotF_zero g), hI i hi]
  simp only [rotM, rotF, mulVec_conjM _ _ hg, rotate_smul, rotate_add, rotate_zero0]

/-! ## 5. integrator -/

theorem integrateXddLink_eq (s : Sys ℝ) (x : Tf ℝ) (xd xdd : Motion ℝ) :
    Positional.integrateXddLink s x xd xdd
      = (⟨x.pos + V3.smul s.dt (V3.smul (HasExp.exp (s.velDamping * s.dt))
              (xd.vel + V3.smul s.dt xdd.vel)),
          normalize4 (qstep x.rot (V3.smul (HasExp.exp (s.angDamping * s.dt))
              (xd.ang + V3.smul s.dt xdd.ang)) 0.5 s.dt)⟩,
         ⟨V3.smul (HasExp.exp (s.angDamping * s.dt)) (xd.ang + V3.smul s.dt xdd.ang),
          V3.smul (HasExp.exp (s.velDamping * s.dt)) (xd.vel + V3.smul s.dt xdd.vel)⟩) := rfl

theorem dot_self_nonneg (w : V3 ℝ) : 0 ≤ V3.dot w w := by
  simp only [V3.dot]; nlinarith [mul_self_nonneg w.x, mul_self_nonneg w.y, mul_self_nonneg w.z]

/-- `|(1 + ½ dt (0, ω)) ⊗ r|² = (1 + |½ dt ω|²) |r|²`: the quaternion update never shortens -/
theorem normSq_qstep (r : Q4 ℝ) (w : V3 ℝ) (h dt : ℝ) :
    Q4.normSq (qstep r w h dt) = Q4.normSq r * (1 + (h * dt) ^ 2 * V3.dot w w) := by
  simp only [qstep, angToQuat, quatMul, q4_add_def, Q4.normSq, V3.dot]; ring

theorem qstep_clear {r : Q4 ℝ} (hr : r.IsUnit) (w : V3 ℝ) (h dt : ℝ) : QClear (qstep r w h dt) := by
  right
  rw [normSq_qstep, hr]
  have := mul_nonneg (sq_nonneg (h * dt)) (dot_self_nonneg w)
  norm_num
  linarith

theorem qclear_of_unit {q : Q4 ℝ} (h : q.IsUnit) : QClear q := by
  right; rw [h]; norm_num

/-- **`integrator.integrate_xdd` is equivariant**, link by link, for a unit link rotation -/
theorem integrateXddLink_equiv (g : Tf ℝ) (hg : g.rot.IsUnit) (s : Sys ℝ) (x : Tf ℝ)
    (xd xdd : Motion ℝ) (hx : x.rot.IsUnit) :
    Positional.integrateXddLink (gSys g s) (Tf.doTf g x) (rotM g xd) (rotM g xdd)
      = (Tf.doTf g (Positional.integrateXddLink s x xd xdd).1,
         rotM g (Positional.integrateXddLink s x xd xdd).2) := by
  rw [integrateXddLink_eq, integrateXddLink_eq]
  simp only [rotM, gSys_velDamping, gSys_angDamping, gSys_dt, ← rotate_smul, ← rotate_add, doTf_rot,
    qstep_equiv _ _ hg, normalize4_equiv _ hg (qstep_clear hx _ _ _)]
  refine Prod.ext ?_ rfl
  apply Tf.ext'
  · simp only [Tf.doTf, rotate_add, rotate_smul, V3.add_assoc']
  · rfl

theorem integrateXdd_equiv (g : Tf ℝ) (hg : g.rot.IsUnit) (s : Sys ℝ) (x_i : List (Tf ℝ))
    (xd_i xdd_i : List (Motion ℝ)) (hx : x_i.length = s.numLinks)
    (hu : ∀ i, i < s.numLinks → (nth x_i i).rot.IsUnit) :
    Positional.integrateXdd (gSys g s) (x_i.map (Tf.doTf g)) (xd_i.map (rotM g)) (xdd_i.map (rotM g))
      = ((Positional.integrateXdd s x_i xd_i xdd_i).1.map (Tf.doTf g),
         (Positional.integrateXdd s x_i xd_i xdd_i).2.map (rotM g)) := by
  unfold Positional.integrateXdd
  simp only [gSys_numLinks, tab_map]
  have hrow : ∀ i, i < s.numLinks →
      Positional.integrateXddLink (gSys g s) (nth (x_i.map (Tf.doTf g)) i) (nth (xd_i.map (rotM g)) i)
        (nth (xdd_i.map (rotM g)) i)
      = (Tf.doTf g (Positional.integrateXddLink s (nth x_i i) (nth xd_i i) (nth xdd_i i)).1,
         rotM g (Positional.integrateXddLink s (nth x_i i) (nth xd_i i) (nth xdd_i i)).2) := by
    intro i hi
    rw [nth_map_lt _ _ (by omega), nth_map_dflt _ _ _ (rotM_zero g), nth_map_dflt _ _ _ (rotM_zero g),
      integrateXddLink_equiv g hg s _ _ _ (hu i hi)]
  refine Prod.ext ?_ ?_
  · apply tab_congr; intro i hi; simp only [hrow i hi]
  · apply tab_congr; intro i hi; simp only [hrow i hi]

/-- **`integrator.integrate_xdv` is equivariant** (scalar damping, linear) -/
theorem integrateXdv_equiv (g : Tf ℝ) (s : Sys ℝ) (xd xdv : List (Motion ℝ)) :
    Positional.integrateXdv (gSys g s) (xd.map (rotM g)) (xdv.map (rotM g))
      = (Positional.integrateXdv s xd xdv).map (rotM g) := by
  unfold Positional.integrateXdv
  simp only [gSys_numLinks, gSys_velDamping, gSys_angDamping, gSys_dt, tab_map]
  apply tab_congr
  intro i hi
  rw [nth_map_dflt _ _ _ (rotM_zero g), nth_map_dflt _ _ _ (rotM_zero g)]
  simp only [rotM, rotate_add, rotate_smul]

/-! ## 6. velocity projection -/

/-- one link of `integrator.project_xd` -/
noncomputable def projLink (dt : ℝ) (a b : Tf ℝ) : Motion ℝ :=
  let d := a.pos - b.pos
  let dq := relativeQuat b.rot a.rot
  let two : ℝ := 2.0
  let sc : ℝ := if 0 ≤ dq.w then 1 else -1
  ⟨⟨sc * (two * dq.x / dt), sc * (two * dq.y / dt), sc * (two * dq.z / dt)⟩,
   ⟨d.x / dt, d.y / dt, d.z / dt⟩⟩

theorem projectXd_eq (s : Sys ℝ) (x xPrev : List (Tf ℝ)) :
    Positional.projectXd s x xPrev = tab s.numLinks fun i => projLink s.dt (nth x i) (nth xPrev i) := rfl

/-- `q₂ ⊗ q₁*` for both rotations multiplied by `g` on the left is conjugated by `g`: same scalar
part (for a unit `g`), rotated vector part -/
theorem relativeQuat_mul_w (g a b : Q4 ℝ) :
    (relativeQuat (quatMul g b) (quatMul g a)).w = Q4.normSq g * (relativeQuat b a).w := by
  simp only [relativeQuat, quatMul, quatInv, Q4.normSq]; ring

theorem relativeQuat_mul_vec (g a b : Q4 ℝ) :
    (relativeQuat (quatMul g b) (quatMul g a)).vec = rotate (relativeQuat b a).vec g := by
  simp only [relativeQuat, quatMul, quatInv, Q4.vec, rotate, V3.dot, V3.cross]; congr 1 <;> ring

theorem rotate_scale (v : V3 ℝ) (q : Q4 ℝ) (sc two dt : ℝ) :
    (⟨sc * (two * (rotate v q).x / dt), sc * (two * (rotate v q).y / dt),
        sc * (two * (rotate v q).z / dt)⟩ : V3 ℝ)
      = rotate ⟨sc * (two * v.x / dt), sc * (two * v.y / dt), sc * (two * v.z / dt)⟩ q := by
  simp only [rotate, V3.dot, V3.cross, Q4.vec, div_eq_mul_inv]; congr 1 <;> ring

/-- **`integrator.project_xd` is equivariant**, link by link -/
theorem projLink_equiv (g : Tf ℝ) (hg : g.rot.IsUnit) (dt : ℝ) (a b : Tf ℝ) :
    projLink dt (Tf.doTf g a) (Tf.doTf g b) = rotM g (projLink dt a b) := by
  have hw := relativeQuat_mul_w g.rot a.rot b.rot
  rw [hg, one_mul] at hw
  have hv := relativeQuat_mul_vec g.rot a.rot b.rot
  have hx : (relativeQuat (quatMul g.rot b.rot) (quatMul g.rot a.rot)).x
      = (rotate (relativeQuat b.rot a.rot).vec g.rot).x := by rw [← hv]; rfl
  have hy : (relativeQuat (quatMul g.rot b.rot) (quatMul g.rot a.rot)).y
      = (rotate (relativeQuat b.rot a.rot).vec g.rot).y := by rw [← hv]; rfl
  have hz : (relativeQuat (quatMul g.rot b.rot) (quatMul g.rot a.rot)).z
      = (rotate (relativeQuat b.rot a.rot).vec g.rot).z := by rw [← hv]; rfl
  unfold projLink
  simp only [doTf_rot, doTf_pos_sub, hw, hx, hy, hz, rotM, rotate_scale, ← rotate_div]
  rfl

theorem projectXd_equiv (g : Tf ℝ) (hg : g.rot.IsUnit) (s : Sys ℝ) (x xPrev : List (Tf ℝ))
    (hx : x.length = s.numLinks) (hp : xPrev.length = s.numLinks) :
    Positional.projectXd (gSys g s) (x.map (Tf.doTf g)) (xPrev.map (Tf.doTf g))
      = (Positional.projectXd s x xPrev).map (rotM g) := by
  rw [projectXd_eq, projectXd_eq, tab_map]
  apply tab_congr
  intro i hi
  have hi' : i < s.numLinks := hi
  rw [nth_map_lt _ _ (by omega), nth_map_lt _ _ (by omega), gSys_dt, projLink_equiv g hg]

/-! ## 7. collisions without contacts -/

/-- `x_i.rot ↦ normalize(x_i.rot)` of the contact-free `resolve_position` -/
noncomputable def normTf (t : Tf ℝ) : Tf ℝ := ⟨t.pos, normalize4 t.rot⟩

theorem resolvePosition_nil (s : Sys ℝ) (x_i xPrev : List (Tf ℝ)) (ii : List (M3 ℝ)) (im : List ℝ) :
    Positional.resolvePosition s x_i xPrev ii im [] = (x_i.map normTf, [0]) := by
  simp only [Positional.resolvePosition, List.isEmpty_nil, if_true]; rfl

theorem normTf_equiv (g : Tf ℝ) (hg : g.rot.IsUnit) (t : Tf ℝ) (ht : QClear t.rot) :
    normTf (Tf.doTf g t) = Tf.doTf g (normTf t) := by
  simp only [normTf, Tf.doTf, normalize4_equiv _ hg ht]

theorem resolveVelocity_nil (s : Sys ℝ) (x_i : List (Tf ℝ)) (xd_i xdPrev : List (Motion ℝ))
    (ii : List (M3 ℝ)) (im : List ℝ) (dl : List ℝ) :
    Positional.resolveVelocity s x_i xd_i xdPrev ii im [] dl = tab s.numLinks fun _ => (0 : Motion ℝ) := by
  simp only [Positional.resolveVelocity, List.isEmpty_nil, if_true]; rfl

/-! ## 8. the position update never shortens a rotation

Every quaternion delta that `position_update` adds to `x_i[k].rot` has the form `(0, v) ⊗ x_i[k].rot`
(the child delta of link `k` and the parent deltas that `segment_sum` sends to `k`), so the updated
rotation is `(1 + (0, V)) ⊗ x_i[k].rot`, of squared length `(1 + |V|²)·|x_i[k].rot|²`. -/

/-- `d = (0, v) ⊗ q` for some vector `v` -/
def IsVQ (q d : Q4 ℝ) : Prop := ∃ v : V3 ℝ, d = vecQuatMul v q

theorem IsVQ.zero (q : Q4 ℝ) : IsVQ q 0 :=
  ⟨0, by show (⟨0, 0, 0, 0⟩ : Q4 ℝ) = vecQuatMul ⟨0, 0, 0⟩ q; simp only [vecQuatMul]; congr 1 <;> ring⟩

theorem IsVQ.add {q a b : Q4 ℝ} (h1 : IsVQ q a) (h2 : IsVQ q b) : IsVQ q (a + b) := by
  obtain ⟨v, rfl⟩ := h1
  obtain ⟨w, rfl⟩ := h2
  exact ⟨v + w, by simp only [vecQuatMul, q4_add_def, V3.add_def]; congr 1 <;> ring⟩

theorem IsVQ.smulR {q a : Q4 ℝ} (h : IsVQ q a) (s : ℝ) :
    IsVQ q ⟨a.w * s, a.x * s, a.y * s, a.z * s⟩ := by
  obtain ⟨v, rfl⟩ := h
  exact ⟨V3.smul s v, by simp only [vecQuatMul, V3.smul]; congr 1 <;> ring⟩

theorem IsVQ.halfVq (s : ℝ) (v : V3 ℝ) (q : Q4 ℝ) : IsVQ q (Positional.halfVq s v q) :=
  ⟨V3.smul s v, by simp only [Positional.halfVq, Q4.smul, vecQuatMul, V3.smul]; congr 1 <;> ring⟩

theorem normSq_add_vq (q : Q4 ℝ) (v : V3 ℝ) :
    Q4.normSq (q + vecQuatMul v q) = Q4.normSq q * (1 + V3.dot v v) := by
  simp only [vecQuatMul, q4_add_def, Q4.normSq, V3.dot]; ring

theorem translationUpdate_rot (a_p xi_p : Tf ℝ) (IP : M3 ℝ) (mP : ℝ) (a_c xi_c : Tf ℝ) (IC : M3 ℝ)
    (mC : ℝ) (dx : V3 ℝ) :
    IsVQ xi_p.rot (Positional.translationUpdate a_p xi_p IP mP a_c xi_c IC mC dx).1.rot
    ∧ IsVQ xi_c.rot (Positional.translationUpdate a_p xi_p IP mP a_c xi_c IC mC dx).2.rot :=
  ⟨IsVQ.halfVq _ _ _, IsVQ.halfVq _ _ _⟩

theorem rotationUpdate_rot (xi_p : Tf ℝ) (IP : M3 ℝ) (xi_c : Tf ℝ) (IC : M3 ℝ) (dq : V3 ℝ) :
    IsVQ xi_p.rot (Positional.rotationUpdate xi_p IP xi_c IC dq).1.rot
    ∧ IsVQ xi_c.rot (Positional.rotationUpdate xi_p IP xi_c IC dq).2.rot :=
  ⟨IsVQ.halfVq _ _ _, IsVQ.halfVq _ _ _⟩

theorem paUpd_rot (parents : List Int) (sp sa : ℝ) (a_p a_c x_i : List (Tf ℝ)) (iInv : List (M3 ℝ))
    (massInv : List ℝ) (dw : List (V3 ℝ × V3 ℝ)) (i : Nat) :
    IsVQ (Kin.takeParent x_i default (parents.getD i (-1))).rot
        (paUpd parents sp sa a_p a_c x_i iInv massInv dw i).1.rot
    ∧ IsVQ (nth x_i i).rot (paUpd parents sp sa a_p a_c x_i iInv massInv dw i).2.rot :=
  ⟨IsVQ.add (IsVQ.smulR (translationUpdate_rot _ _ _ _ _ _ _ _ _).1 sp)
      (IsVQ.smulR (rotationUpdate_rot _ _ _ _ _).1 sa),
   IsVQ.add (IsVQ.smulR (translationUpdate_rot _ _ _ _ _ _ _ _ _).2 sp)
      (IsVQ.smulR (rotationUpdate_rot _ _ _ _ _).2 sa)⟩

theorem segAt_isVQ (q : Q4 ℝ) (l : List (Positional.DTf ℝ × Int)) (k : Nat)
    (h : ∀ p ∈ l, p.2 = (k : Int) → IsVQ q p.1.rot) : IsVQ q (segAt l k).rot := by
  induction l with
  | nil => rw [segAt_nil]; exact IsVQ.zero q
  | cons p l ih =>
    rw [segAt_cons]
    have hs : ((if p.2 = (k : Int) then p.1 else 0) + segAt l k).rot
        = (if p.2 = (k : Int) then p.1 else 0).rot + (segAt l k).rot := rfl
    rw [hs]
    apply IsVQ.add
    · by_cases hk : p.2 = (k : Int)
      · rw [if_pos hk]; exact h p (by simp) hk
      · rw [if_neg hk]; exact IsVQ.zero q
    · exact ih (fun p' hp' => h p' (by simp [hp']))

theorem takeParent_nat {β : Type} [Inhabited β] (xs : List β) (d : β) {m : Nat} (hm : m < xs.length) :
    Kin.takeParent xs d (m : Int) = nth xs m := by
  unfold Kin.takeParent
  have h : ((m : Int) % ((xs.length : Int) + 1)).toNat = m := by
    rw [Int.emod_eq_of_lt (by omega) (by omega)]; simp
  simp only [h, nth, List.getD_eq_getElem?_getD]
  rw [List.getElem?_append_left hm, List.getElem?_eq_getElem hm]
  simp

theorem mem_nth_of_length {β : Type} [Inhabited β] {l : List β} {n : Nat} (h : l.length = n) {t : β}
    (ht : t ∈ l) : ∃ i, i < n ∧ t = nth l i := by
  rw [eq_tab_of_length h] at ht
  simp only [tab, List.mem_map, List.mem_range] at ht
  obtain ⟨i, hi, rfl⟩ := ht
  exact ⟨i, hi, rfl⟩

/-- the rotation of every link after the assembly is `(1 + (0, V)) ⊗` the rotation before -/
theorem positionAssemble_rot (parents : List Int) (sp sa : ℝ) (a_p a_c x_i : List (Tf ℝ))
    (iInv : List (M3 ℝ)) (massInv : List ℝ) (dw : List (V3 ℝ × V3 ℝ))
    (hxi : x_i.length = parents.length) {i : Nat} (hi : i < parents.length) :
    ∃ v : V3 ℝ, (nth (Positional.positionAssemble parents sp sa a_p a_c x_i iInv massInv dw) i).rot
      = (nth x_i i).rot + vecQuatMul v (nth x_i i).rot := by
  rw [positionAssemble_eq, nth_tab _ hi]
  obtain ⟨v1, h1⟩ := (paUpd_rot parents sp sa a_p a_c x_i iInv massInv dw i).2
  have h2 : IsVQ (nth x_i i).rot (nth (segmentSum (tab parents.length fun c =>
      (paUpd parents sp sa a_p a_c x_i iInv massInv dw c).1) parents parents.length) i).rot := by
    rw [nth_segmentSum_eq _ _ hi, zip_tab _ _ rfl]
    apply segAt_isVQ
    intro p hp hk
    simp only [tab, List.mem_map, List.mem_range] at hp
    obtain ⟨c, hc, rfl⟩ := hp
    have h3 := (paUpd_rot parents sp sa a_p a_c x_i iInv massInv dw c).1
    have hpc : parents.getD c (-1) = (i : Int) := by
      rw [← hk]
      simp only [nth, List.getD_eq_getElem?_getD, List.getElem?_eq_getElem hc, Option.getD_some]
    rw [hpc, takeParent_nat x_i default (by omega)] at h3
    exact h3
  obtain ⟨v2, h2'⟩ := h2
  refine ⟨v1 + v2, ?_⟩
  show (nth x_i i).rot + _ + _ = _
  rw [h1, h2']
  simp only [vecQuatMul, q4_add_def, V3.add_def]; congr 1 <;> ring

/-! ## the action of `g` on a positional state -/

/-- **the rigid transform `g` acting on a positional state** (as `C05L.gState`, without `i_inv`) -/
noncomputable def gStateP (g : Tf ℝ) (s : Sys ℝ) (st : Positional.State ℝ) (q' qd' : List ℝ) :
    Positional.State ℝ :=
  { q := q', qd := qd',
    x := st.x.map (Tf.doTf g), xd := st.xd.map (rotM g),
    x_i := st.x_i.map (Tf.doTf g), xd_i := st.xd_i.map (rotM g),
    j := gJ g s.parents st.a_p st.a_c st.j,
    jd := gJd g s.parents st.a_p st.xd st.jd,
    a_p := gAp g s.parents st.a_p,
    a_c := st.a_c.map (Tf.doTf g),
    mass := st.mass }

/-! ## the contact-free step, stage by stage -/

/-- `(x_i, xd_i)` after the acceleration update and `integrate_xdd` -/
noncomputable def pXi1 (s : Sys ℝ) (st : Positional.State ℝ) (act : List ℝ) :
    List (Tf ℝ) × List (Motion ℝ) :=
  Positional.integrateXdd s st.x_i st.xd_i
    (Positional.acceleration s (Com.invInertia s st.x) st.mass
      (Positional.accelerationUpdate s st (toTau s act st.q st.qd)))
/-- `(x, xd)` after `integrate_xdd` -/
noncomputable def pXw1 (s : Sys ℝ) (st : Positional.State ℝ) (act : List ℝ) :
    List (Tf ℝ) × List (Motion ℝ) :=
  Com.toWorld s (pXi1 s st act).1 (pXi1 s st act).2
/-- `(j, jd, a_p, a_c)` recomputed by `position_update` -/
noncomputable def pW1 (s : Sys ℝ) (st : Positional.State ℝ) (act : List ℝ) :
    List (Tf ℝ × Motion ℝ × Tf ℝ × Tf ℝ) :=
  Kin.worldToJoint s (pXw1 s st act).1 (pXw1 s st act).2
/-- **the per-link world displacement `d_w` of the step's `position_update`** (position part,
rotation part) — the quantity `_translation_update` / `_rotation_update` feed to `math.normalize` -/
noncomputable def pDisp (s : Sys ℝ) (st : Positional.State ℝ) (act : List ℝ) : List (V3 ℝ × V3 ℝ) :=
  Positional.jointDisplacements s ((pW1 s st act).map (·.1)) ((pW1 s st act).map (·.2.2.1))
/-- `x_i` after `position_update` (rotations changed additively, not yet normalised) -/
noncomputable def pXi2 (s : Sys ℝ) (st : Positional.State ℝ) (act : List ℝ) : List (Tf ℝ) :=
  Positional.positionAssemble s.parents s.jointScalePos s.jointScaleAng
    ((pW1 s st act).map (·.2.2.1)) ((pW1 s st act).map (·.2.2.2)) (pXi1 s st act).1
    (Com.invInertia s (pXw1 s st act).1) (Positional.massInv s) (pDisp s st act)
/-- `x_i` after the contact-free `resolve_position` -/
noncomputable def pXi3 (s : Sys ℝ) (st : Positional.State ℝ) (act : List ℝ) : List (Tf ℝ) :=
  (pXi2 s st act).map normTf
/-- `xd_i` after `project_xd` and the contact-free `integrate_xdv` -/
noncomputable def pXd4 (s : Sys ℝ) (st : Positional.State ℝ) (act : List ℝ) : List (Motion ℝ) :=
  Positional.integrateXdv s (Positional.projectXd s (pXi3 s st act) st.x_i)
    (tab s.numLinks fun _ => (0 : Motion ℝ))
/-- `(x, xd)` after the step -/
noncomputable def pXw4 (s : Sys ℝ) (st : Positional.State ℝ) (act : List ℝ) :
    List (Tf ℝ) × List (Motion ℝ) :=
  Com.toWorld s (pXi3 s st act) (pXd4 s st act)
/-- `(j, jd, a_p, a_c)` after the step -/
noncomputable def pW4 (s : Sys ℝ) (st : Positional.State ℝ) (act : List ℝ) :
    List (Tf ℝ × Motion ℝ × Tf ℝ × Tf ℝ) :=
  Kin.worldToJoint s (pXw4 s st act).1 (pXw4 s st act).2

/-- `pipeline.step` without contacts, field by field -/
theorem pstep_nil_eq (inv : List (Tf ℝ) → List (Motion ℝ) → List ℝ × List ℝ) (s : Sys ℝ)
    (st : Positional.State ℝ) (act : List ℝ) :
    Positional.step inv (fun _ => []) s st act
      = { q := (inv ((pW4 s st act).map (·.1)) ((pW4 s st act).map (·.2.1))).1,
          qd := (inv ((pW4 s st act).map (·.1)) ((pW4 s st act).map (·.2.1))).2,
          x := (pXw4 s st act).1, xd := (pXw4 s st act).2,
          x_i := pXi3 s st act, xd_i := pXd4 s st act,
          j := (pW4 s st act).map (·.1), jd := (pW4 s st act).map (·.2.1),
          a_p := (pW4 s st act).map (·.2.2.1), a_c := (pW4 s st act).map (·.2.2.2),
          mass := st.mass } := by
  unfold Positional.step
  simp only [resolvePosition_nil, resolveVelocity_nil]
  rfl

theorem pstep_q (inv : List (Tf ℝ) → List (Motion ℝ) → List ℝ × List ℝ)
    (cf : List (Tf ℝ) → List (Contact ℝ)) (s : Sys ℝ) (st : Positional.State ℝ) (act : List ℝ) :
    (Positional.step inv cf s st act).q
      = (inv (Positional.step inv cf s st act).j (Positional.step inv cf s st act).jd).1 := rfl
theorem pstep_qd (inv : List (Tf ℝ) → List (Motion ℝ) → List ℝ × List ℝ)
    (cf : List (Tf ℝ) → List (Contact ℝ)) (s : Sys ℝ) (st : Positional.State ℝ) (act : List ℝ) :
    (Positional.step inv cf s st act).qd
      = (inv (Positional.step inv cf s st act).j (Positional.step inv cf s st act).jd).2 := rfl
theorem pstep_mass (inv : List (Tf ℝ) → List (Motion ℝ) → List ℝ × List ℝ)
    (cf : List (Tf ℝ) → List (Contact ℝ)) (s : Sys ℝ) (st : Positional.State ℝ) (act : List ℝ) :
    (Positional.step inv cf s st act).mass = st.mass := rfl

/-! ## hypotheses on the state -/

/-- the three array lengths the proof reads (a consequence of `State.WF`), as `C05L.LenOK` -/
structure PLenOK (s : Sys ℝ) (st : Positional.State ℝ) : Prop where
  x : st.x.length = s.numLinks
  x_i : st.x_i.length = s.numLinks
  a_c : st.a_c.length = s.numLinks

theorem PLenOK.of_wf {s : Sys ℝ} {st : Positional.State ℝ} (h : Positional.State.WF s st = true) :
    PLenOK s st := by
  simp only [Positional.State.WF, Bool.and_eq_true, beq_iff_eq] at h
  obtain ⟨⟨⟨⟨⟨⟨⟨⟨⟨⟨_, _⟩, h1⟩, h2⟩, h3⟩, h4⟩, h5⟩, h6⟩, h7⟩, h8⟩, _⟩ := h
  exact ⟨h1, h3, h8⟩

/-- the centre-of-mass rotations of the state are unit quaternions (true of every state brax
produces: `init` composes unit quaternions, `step` ends with a normalisation; needed because
`math.normalize` treats a quaternion inside the cube `|q_k| ≤ 1e-8` as zero, a frame-dependent test) -/
def UnitRot (s : Sys ℝ) (st : Positional.State ℝ) : Prop :=
  ∀ i, i < s.numLinks → (nth st.x_i i).rot.IsUnit

/-- **no joint displacement of this step lies in the dead zone of `math.safe_norm`**: the world
displacement `d_w` of every link (position part and rotation part) is exactly zero or longer than
`√3·1e-8`.  Frame independent (`pDisp_equiv`: `d_w` is rotated by `g`).  Without it the step is
*not* equivariant — see the header and `translationUpdate_not_equivariant`. -/
def DispClear (s : Sys ℝ) (st : Positional.State ℝ) (act : List ℝ) : Prop :=
  ∀ i, i < s.numLinks → VClear (nth (pDisp s st act) i).1 ∧ VClear (nth (pDisp s st act) i).2

/-- a system without joints (every link free) has no joint displacement at all -/
theorem dispClear_of_free (s : Sys ℝ) (st : Positional.State ℝ) (act : List ℝ)
    (h : ∀ i, i < s.numLinks → s.types[i]? = some .free) : DispClear s st act := by
  intro i hi
  have h0 : nth (pDisp s st act) i = (0, 0) := jointDisplacements_free' s _ _ hi (h i hi)
  rw [h0]
  exact ⟨VClear.zero, VClear.zero⟩

/-! ## composition -/
section compose
variable (g : Tf ℝ) (hg : g.rot.IsUnit) (s : Sys ℝ) (st : Positional.State ℝ) (act q' qd' : List ℝ)
  (hfr : FreeRooted s) (hlinks : s.links.length = s.numLinks) (hwf : PLenOK s st)
  (hact : ActAgree s st.q st.qd q' qd') (hu : UnitRot s st)
include hg hfr hlinks hwf hact hu

/-- `joints.acceleration_update` is equivariant -/
theorem accUpdate_equiv :
    Positional.accelerationUpdate (gSys g s) (gStateP g s st q' qd') (toTau (gSys g s) act q' qd')
      = (Positional.accelerationUpdate s st (toTau s act st.q st.qd)).map (rotF g) := by
  have hxi := hwf.x_i
  have hac := hwf.a_c
  rw [toTau_congr g s act _ _ _ _ hact]
  generalize toTau s act st.q st.qd = tau
  have hjf : Positional.jointForces (gSys g s) (gJd g s.parents st.a_p st.xd st.jd) tau
      = Positional.jointForces s st.jd tau := by
    show Positional.jointForces s _ tau = _
    apply posJointForces_congr
    intro i hi hnf
    have hnr : ¬ parentOf s.parents i < 0 := by
      intro hr
      have := (hfr.hpar i hi).1
      exact hnf (hfr.hroot i hi (by omega))
    have hi' : i < s.parents.length := by rw [hfr.hlen]; exact hi
    exact gJd_nonroot g _ _ _ _ hi' hnr
  show Spring.assemble s.parents (gAp g s.parents st.a_p) (st.a_c.map (Tf.doTf g))
      (st.x_i.map (Tf.doTf g)) (Positional.jointForces (gSys g s)
        (gJd g s.parents st.a_p st.xd st.jd) tau) = _
  rw [hjf]
  apply assemble_equiv g hg
  · intro i hi; exact hfr.hpar i (by rw [← hfr.hlen]; exact hi)
  · rw [hfr.hlen]; exact hxi
  · rw [hfr.hlen]; exact hac
  · intro i hi hr
    have hi' : i < s.numLinks := by rw [← hfr.hlen]; exact hi
    have := (hfr.hpar i hi').1
    exact posJointForces_free s st.jd tau hi' (hfr.hroot i hi' (by omega))

/-- acceleration update + `integrate_xdd` -/
theorem pXi1_equiv :
    pXi1 (gSys g s) (gStateP g s st q' qd') act
      = ((pXi1 s st act).1.map (Tf.doTf g), (pXi1 s st act).2.map (rotM g)) := by
  unfold pXi1
  show Positional.integrateXdd (gSys g s) (st.x_i.map (Tf.doTf g)) (st.xd_i.map (rotM g))
    (Positional.acceleration (gSys g s) (Com.invInertia (gSys g s) (st.x.map (Tf.doTf g))) st.mass
      (Positional.accelerationUpdate (gSys g s) (gStateP g s st q' qd')
        (toTau (gSys g s) act q' qd'))) = _
  rw [accUpdate_equiv g hg s st act q' qd' hfr hlinks hwf hact hu,
    acceleration_equiv g hg s _ _ st.mass _ (invInertia_equiv g s st.x hwf.x)]
  exact integrateXdd_equiv g hg s st.x_i st.xd_i _ hwf.x_i hu

theorem pXi1_length : (pXi1 s st act).1.length = s.numLinks ∧ (pXi1 s st act).2.length = s.numLinks := by
  simp [pXi1, Positional.integrateXdd, tab_length]

theorem pXw1_equiv :
    pXw1 (gSys g s) (gStateP g s st q' qd') act
      = ((pXw1 s st act).1.map (Tf.doTf g), (pXw1 s st act).2.map (rotM g)) := by
  unfold pXw1
  rw [pXi1_equiv g hg s st act q' qd' hfr hlinks hwf hact hu]
  exact toWorld_equiv g hg s _ _ (pXi1_length g hg s st act q' qd' hfr hlinks hwf hact hu).1

theorem pXw1_length : (pXw1 s st act).1.length = s.numLinks ∧ (pXw1 s st act).2.length = s.numLinks := by
  simp [pXw1, Com.toWorld, tab_length]

theorem pW1_length : (pW1 s st act).length = s.numLinks := by
  obtain ⟨h1, h2⟩ := pXw1_length g hg s st act q' qd' hfr hlinks hwf hact hu
  rw [pW1, worldToJoint_eq_tab s _ _ hlinks h1 h2, tab_length]

/-- the joint-frame quantities recomputed by `position_update` -/
theorem pW1_equiv :
    (pW1 (gSys g s) (gStateP g s st q' qd') act).map (·.1)
        = gJ g s.parents ((pW1 s st act).map (·.2.2.1)) ((pW1 s st act).map (·.2.2.2))
            ((pW1 s st act).map (·.1))
    ∧ (pW1 (gSys g s) (gStateP g s st q' qd') act).map (·.2.2.1)
        = gAp g s.parents ((pW1 s st act).map (·.2.2.1))
    ∧ (pW1 (gSys g s) (gStateP g s st q' qd') act).map (·.2.2.2)
        = ((pW1 s st act).map (·.2.2.2)).map (Tf.doTf g) := by
  obtain ⟨h1, h2⟩ := pXw1_length g hg s st act q' qd' hfr hlinks hwf hact hu
  obtain ⟨hJ, _, hAp, hAc⟩ := worldToJoint_equiv g hg s (pXw1 s st act).1 (pXw1 s st act).2
    hfr hlinks h1 h2
  unfold pW1
  rw [pXw1_equiv g hg s st act q' qd' hfr hlinks hwf hact hu]
  exact ⟨hJ, hAp, hAc⟩

/-- **the world displacement `d_w` of the step is rotated by `g`** -/
theorem pDisp_equiv :
    pDisp (gSys g s) (gStateP g s st q' qd') act = (pDisp s st act).map (rot2 g) := by
  obtain ⟨hJ, hAp, _⟩ := pW1_equiv g hg s st act q' qd' hfr hlinks hwf hact hu
  unfold pDisp
  rw [hJ, hAp]
  exact jointDisplacements_equiv g s hfr _ _ _

/-- the displacement of a root vanishes -/
theorem pDisp_root {i : Nat} (hi : i < s.numLinks) (hr : parentOf s.parents i < 0) :
    nth (pDisp s st act) i = (0, 0) := by
  have := (hfr.hpar i hi).1
  exact jointDisplacements_free' s _ _ hi (hfr.hroot i hi (by omega))

/-- **`joints.position_update` is equivariant** when no displacement is in the dead zone -/
theorem pXi2_equiv (hc : DispClear s st act) :
    pXi2 (gSys g s) (gStateP g s st q' qd') act = (pXi2 s st act).map (Tf.doTf g) := by
  obtain ⟨_, hAp, hAc⟩ := pW1_equiv g hg s st act q' qd' hfr hlinks hwf hact hu
  obtain ⟨hw1, _⟩ := pXw1_length g hg s st act q' qd' hfr hlinks hwf hact hu
  unfold pXi2
  rw [hAp, hAc, pXi1_equiv g hg s st act q' qd' hfr hlinks hwf hact hu,
    pDisp_equiv g hg s st act q' qd' hfr hlinks hwf hact hu,
    pXw1_equiv g hg s st act q' qd' hfr hlinks hwf hact hu, invInertia_equiv_list g s _ hw1]
  show Positional.positionAssemble s.parents s.jointScalePos s.jointScaleAng _ _ _ _
    (Positional.massInv s) _ = _
  apply positionAssemble_equiv g hg
  · intro i hi; exact hfr.hpar i (by rw [← hfr.hlen]; exact hi)
  · rw [hfr.hlen]; exact (pXi1_length g hg s st act q' qd' hfr hlinks hwf hact hu).1
  · rw [hfr.hlen, List.length_map]; exact pW1_length g hg s st act q' qd' hfr hlinks hwf hact hu
  · rw [hfr.hlen]; simp [Com.invInertia, tab_length]
  · intro i hi hr
    exact pDisp_root g hg s st act q' qd' hfr hlinks hwf hact hu (by rw [← hfr.hlen]; exact hi) hr
  · intro i hi; exact hc i (by rw [← hfr.hlen]; exact hi)

theorem pXi2_length : (pXi2 s st act).length = s.numLinks := by
  rw [pXi2, positionAssemble_eq, tab_length, hfr.hlen]

/-- contact-free `resolve_position` (normalisation), given the rotations to normalise are clear of
the quaternion dead zone (`pXi2_clear` below derives this from `UnitRot`) -/
theorem pXi3_equiv (hc : DispClear s st act) (hq : ∀ t ∈ pXi2 s st act, QClear t.rot) :
    pXi3 (gSys g s) (gStateP g s st q' qd') act = (pXi3 s st act).map (Tf.doTf g) := by
  unfold pXi3
  rw [pXi2_equiv g hg s st act q' qd' hfr hlinks hwf hact hu hc, List.map_map, List.map_map]
  apply List.map_congr_left
  intro t ht
  exact normTf_equiv g hg t (hq t ht)

theorem pXi3_length : (pXi3 s st act).length = s.numLinks := by
  rw [pXi3, List.length_map]; exact pXi2_length g hg s st act q' qd' hfr hlinks hwf hact hu

/-- `project_xd` + contact-free `resolve_velocity` + `integrate_xdv` -/
theorem pXd4_equiv (hc : DispClear s st act) (hq : ∀ t ∈ pXi2 s st act, QClear t.rot) :
    pXd4 (gSys g s) (gStateP g s st q' qd') act = (pXd4 s st act).map (rotM g) := by
  unfold pXd4
  rw [pXi3_equiv g hg s st act q' qd' hfr hlinks hwf hact hu hc hq]
  show Positional.integrateXdv (gSys g s)
    (Positional.projectXd (gSys g s) ((pXi3 s st act).map (Tf.doTf g)) (st.x_i.map (Tf.doTf g)))
    (tab s.numLinks fun _ => (0 : Motion ℝ)) = _
  rw [projectXd_equiv g hg s _ _ (pXi3_length g hg s st act q' qd' hfr hlinks hwf hact hu) hwf.x_i]
  have h := integrateXdv_equiv g s (Positional.projectXd s (pXi3 s st act) st.x_i)
    (tab s.numLinks fun _ => (0 : Motion ℝ))
  rw [tab_zero_map_rotM] at h
  exact h

theorem pXw4_equiv (hc : DispClear s st act) (hq : ∀ t ∈ pXi2 s st act, QClear t.rot) :
    pXw4 (gSys g s) (gStateP g s st q' qd') act
      = ((pXw4 s st act).1.map (Tf.doTf g), (pXw4 s st act).2.map (rotM g)) := by
  unfold pXw4
  rw [pXi3_equiv g hg s st act q' qd' hfr hlinks hwf hact hu hc hq,
    pXd4_equiv g hg s st act q' qd' hfr hlinks hwf hact hu hc hq]
  exact toWorld_equiv g hg s _ _ (pXi3_length g hg s st act q' qd' hfr hlinks hwf hact hu)

theorem pXw4_length : (pXw4 s st act).1.length = s.numLinks ∧ (pXw4 s st act).2.length = s.numLinks := by
  simp [pXw4, Com.toWorld, tab_length]

/-- whole-step equivariance, with the quaternion dead-zone condition still explicit -/
theorem positional_step_equivariant_aux (inv : List (Tf ℝ) → List (Motion ℝ) → List ℝ × List ℝ)
    (hc : DispClear s st act) (hq : ∀ t ∈ pXi2 s st act, QClear t.rot) :
    Positional.step inv (fun _ => []) (gSys g s) (gStateP g s st q' qd') act
      = gStateP g s (Positional.step inv (fun _ => []) s st act)
          (inv (gJ g s.parents (Positional.step inv (fun _ => []) s st act).a_p
                  (Positional.step inv (fun _ => []) s st act).a_c
                  (Positional.step inv (fun _ => []) s st act).j)
               (gJd g s.parents (Positional.step inv (fun _ => []) s st act).a_p
                  (Positional.step inv (fun _ => []) s st act).xd
                  (Positional.step inv (fun _ => []) s st act).jd)).1
          (inv (gJ g s.parents (Positional.step inv (fun _ => []) s st act).a_p
                  (Positional.step inv (fun _ => []) s st act).a_c
                  (Positional.step inv (fun _ => []) s st act).j)
               (gJd g s.parents (Positional.step inv (fun _ => []) s st act).a_p
                  (Positional.step inv (fun _ => []) s st act).xd
                  (Positional.step inv (fun _ => []) s st act).jd)).2 := by
  obtain ⟨hw1, hw2⟩ := pXw4_length g hg s st act q' qd' hfr hlinks hwf hact hu
  have hWW : pW4 (gSys g s) (gStateP g s st q' qd') act
      = Kin.worldToJoint (gSys g s) ((pXw4 s st act).1.map (Tf.doTf g))
          ((pXw4 s st act).2.map (rotM g)) := by
    unfold pW4
    rw [pXw4_equiv g hg s st act q' qd' hfr hlinks hwf hact hu hc hq]
  obtain ⟨hJ, hJd, hAp, hAc⟩ := worldToJoint_equiv g hg s (pXw4 s st act).1 (pXw4 s st act).2
    hfr hlinks hw1 hw2
  rw [← hWW] at hJ hJd hAp hAc
  change _ = gJ g s.parents ((pW4 s st act).map (·.2.2.1)) ((pW4 s st act).map (·.2.2.2))
    ((pW4 s st act).map (·.1)) at hJ
  change _ = gJd g s.parents ((pW4 s st act).map (·.2.2.1)) (pXw4 s st act).2
    ((pW4 s st act).map (·.2.1)) at hJd
  change _ = gAp g s.parents ((pW4 s st act).map (·.2.2.1)) at hAp
  change _ = ((pW4 s st act).map (·.2.2.2)).map (Tf.doTf g) at hAc
  rw [pstep_nil_eq, pstep_nil_eq]
  simp only [hJ, hJd, hAp, hAc, pXw4_equiv g hg s st act q' qd' hfr hlinks hwf hact hu hc hq,
    pXi3_equiv g hg s st act q' qd' hfr hlinks hwf hact hu hc hq,
    pXd4_equiv g hg s st act q' qd' hfr hlinks hwf hact hu hc hq]
  rfl

/-- after `integrate_xdd` the rotations are unit quaternions again -/
theorem pXi1_unit {i : Nat} (hi : i < s.numLinks) : (nth (pXi1 s st act).1 i).rot.IsUnit := by
  unfold pXi1 Positional.integrateXdd
  rw [nth_tab _ hi]
  simp only [integrateXddLink_eq]
  apply normalize4_isUnit
  apply not_allClose4
  rcases qstep_clear (hu i hi) _ _ _ with h | h
  · exfalso
    have hn := normSq_qstep (nth st.x_i i).rot
      (V3.smul (HasExp.exp (s.angDamping * s.dt))
        ((nth st.xd_i i).ang + V3.smul s.dt (nth (Positional.acceleration s (Com.invInertia s st.x)
          st.mass (Positional.accelerationUpdate s st (toTau s act st.q st.qd))) i).ang)) 0.5 s.dt
    rw [h, hu i hi] at hn
    have h0 : Q4.normSq (0 : Q4 ℝ) = 0 := by
      show Q4.normSq (⟨0, 0, 0, 0⟩ : Q4 ℝ) = 0
      simp [Q4.normSq]
    rw [h0] at hn
    have := mul_nonneg (sq_nonneg ((0.5 : ℝ) * s.dt)) (dot_self_nonneg
      (V3.smul (HasExp.exp (s.angDamping * s.dt))
        ((nth st.xd_i i).ang + V3.smul s.dt (nth (Positional.acceleration s (Com.invInertia s st.x)
          st.mass (Positional.accelerationUpdate s st (toTau s act st.q st.qd))) i).ang)))
    linarith
  · exact h

/-- after `position_update` every rotation has length `≥ 1` -/
theorem pXi2_normSq {i : Nat} (hi : i < s.numLinks) : 1 ≤ Q4.normSq (nth (pXi2 s st act) i).rot := by
  have hi' : i < s.parents.length := by rw [hfr.hlen]; exact hi
  obtain ⟨v, hv⟩ := positionAssemble_rot s.parents s.jointScalePos s.jointScaleAng
    ((pW1 s st act).map (·.2.2.1)) ((pW1 s st act).map (·.2.2.2)) (pXi1 s st act).1
    (Com.invInertia s (pXw1 s st act).1) (Positional.massInv s) (pDisp s st act)
    (by rw [hfr.hlen]; exact (pXi1_length g hg s st act q' qd' hfr hlinks hwf hact hu).1) hi'
  unfold pXi2
  rw [hv, normSq_add_vq, pXi1_unit g hg s st act q' qd' hfr hlinks hwf hact hu hi]
  have := dot_self_nonneg v
  linarith

/-- so the normalisation of the contact-free `resolve_position` is clear of the dead zone -/
theorem pXi2_clear : ∀ t ∈ pXi2 s st act, QClear t.rot := by
  intro t ht
  obtain ⟨i, hi, rfl⟩ := mem_nth_of_length (pXi2_length g hg s st act q' qd' hfr hlinks hwf hact hu) ht
  right
  have := pXi2_normSq g hg s st act q' qd' hfr hlinks hwf hact hu hi
  have h4 : (4e-16 : ℝ) < 1 := by norm_num
  linarith

/-- and the step ends with unit rotations -/
theorem pXi3_unit {i : Nat} (hi : i < s.numLinks) : (nth (pXi3 s st act) i).rot.IsUnit := by
  unfold pXi3
  rw [nth_map_lt _ _ (by rw [pXi2_length g hg s st act q' qd' hfr hlinks hwf hact hu]; exact hi)]
  show (normalize4 (nth (pXi2 s st act) i).rot).IsUnit
  apply normalize4_isUnit
  apply not_allClose4
  have := pXi2_normSq g hg s st act q' qd' hfr hlinks hwf hact hu hi
  have h4 : (4e-16 : ℝ) < 1 := by norm_num
  linarith

/-- **C05, whole-step equivariance of the positional pipeline (contact-free).**  Stepping the
transformed state in the transformed system gives the transform of the stepped state, field by
field; `q`, `qd` are `kinematics.inverse` (`inv`) of the transformed `j`, `jd`. -/
theorem positional_step_equivariant (inv : List (Tf ℝ) → List (Motion ℝ) → List ℝ × List ℝ)
    (hc : DispClear s st act) :
    Positional.step inv (fun _ => []) (gSys g s) (gStateP g s st q' qd') act
      = gStateP g s (Positional.step inv (fun _ => []) s st act)
          (inv (gJ g s.parents (Positional.step inv (fun _ => []) s st act).a_p
                  (Positional.step inv (fun _ => []) s st act).a_c
                  (Positional.step inv (fun _ => []) s st act).j)
               (gJd g s.parents (Positional.step inv (fun _ => []) s st act).a_p
                  (Positional.step inv (fun _ => []) s st act).xd
                  (Positional.step inv (fun _ => []) s st act).jd)).1
          (inv (gJ g s.parents (Positional.step inv (fun _ => []) s st act).a_p
                  (Positional.step inv (fun _ => []) s st act).a_c
                  (Positional.step inv (fun _ => []) s st act).j)
               (gJd g s.parents (Positional.step inv (fun _ => []) s st act).a_p
                  (Positional.step inv (fun _ => []) s st act).xd
                  (Positional.step inv (fun _ => []) s st act).jd)).2 :=
  positional_step_equivariant_aux g hg s st act q' qd' hfr hlinks hwf hact hu inv hc
    (pXi2_clear g hg s st act q' qd' hfr hlinks hwf hact hu)

/-- the step preserves the hypotheses on the state -/
theorem UnitRot.step (inv : List (Tf ℝ) → List (Motion ℝ) → List ℝ × List ℝ) :
    UnitRot s (Positional.step inv (fun _ => []) s st act) := by
  intro i hi
  rw [pstep_nil_eq]
  exact pXi3_unit g hg s st act q' qd' hfr hlinks hwf hact hu hi

theorem PLenOK.step (inv : List (Tf ℝ) → List (Motion ℝ) → List ℝ × List ℝ) :
    PLenOK s (Positional.step inv (fun _ => []) s st act) := by
  obtain ⟨h1, h2⟩ := pXw4_length g hg s st act q' qd' hfr hlinks hwf hact hu
  rw [pstep_nil_eq]
  refine ⟨h1, pXi3_length g hg s st act q' qd' hfr hlinks hwf hact hu, ?_⟩
  show ((pW4 s st act).map (·.2.2.2)).length = s.numLinks
  rw [pW4, worldToJoint_eq_tab s _ _ hlinks h1 h2, List.length_map, tab_length]

end compose

/-! ## several steps -/

/-- `act ↦ step` folded over a list of controls (contact-free) -/
noncomputable def psteps (inv : List (Tf ℝ) → List (Motion ℝ) → List ℝ × List ℝ) (s : Sys ℝ)
    (st : Positional.State ℝ) (acts : List (List ℝ)) : Positional.State ℝ :=
  acts.foldl (fun st a => Positional.step inv (fun _ => []) s st a) st

/-- no joint displacement of any step of the trajectory lies in the dead zone of `safe_norm` -/
def TrajClear (inv : List (Tf ℝ) → List (Motion ℝ) → List ℝ × List ℝ) (s : Sys ℝ) :
    Positional.State ℝ → List (List ℝ) → Prop
  | _, [] => True
  | st, a :: as => DispClear s st a ∧ TrajClear inv s (Positional.step inv (fun _ => []) s st a) as

/-- **C05, whole trajectories.**  Any number of contact-free positional steps commutes with the
rigid transform; the generalized coordinates of the two end states agree wherever an actuator
reads them. -/
theorem positional_steps_equivariant (g : Tf ℝ) (hg : g.rot.IsUnit) (s : Sys ℝ)
    (inv : List (Tf ℝ) → List (Motion ℝ) → List ℝ × List ℝ) (hfr : FreeRooted s)
    (hlinks : s.links.length = s.numLinks) (hinv : InvLocal s inv) (acts : List (List ℝ)) :
    ∀ (st : Positional.State ℝ) (q' qd' : List ℝ), PLenOK s st → UnitRot s st →
      ActAgree s st.q st.qd q' qd' → TrajClear inv s st acts →
      ∃ q'' qd'', psteps inv (gSys g s) (gStateP g s st q' qd') acts
          = gStateP g s (psteps inv s st acts) q'' qd''
        ∧ ActAgree s (psteps inv s st acts).q (psteps inv s st acts).qd q'' qd'' := by
  induction acts with
  | nil => intro st q' qd' _ _ hact _; exact ⟨q', qd', rfl, hact⟩
  | cons a as ih =>
    intro st q' qd' hlen hu hact hc
    simp only [psteps, List.foldl_cons]
    rw [positional_step_equivariant g hg s st a q' qd' hfr hlinks hlen hact hu inv hc.1]
    apply ih _ _ _ (PLenOK.step g hg s st a q' qd' hfr hlinks hlen hact hu inv)
      (UnitRot.step g hg s st a q' qd' hfr hlinks hlen hact hu inv)
    · apply hinv
      intro i hi hr
      have hi' : i < s.parents.length := by rw [hfr.hlen]; exact hi
      exact ⟨gJ_nonroot g _ _ _ _ hi' hr, gJd_nonroot g _ _ _ _ hi' hr⟩
    · exact hc.2

/-! ## `pipeline.init` -/

/-- **`pipeline.init` is equivariant**, given that forward kinematics is (`forward_equivariant` in
`Props/C05.lean`) -/
theorem pinit_equiv_of_forward (g : Tf ℝ) (hg : g.rot.IsUnit) (s : Sys ℝ) (q qd q' qd' : List ℝ)
    (hfr : FreeRooted s) (hlinks : s.links.length = s.numLinks)
    (hfwd : Kin.forward s q' qd' = (Kin.forward s q qd).map (fun x => (Tf.doTf g x.1, rotM g x.2))) :
    Positional.init (gSys g s) q' qd' = gStateP g s (Positional.init s q qd) q' qd' := by
  have hF := forward_length s q qd hlinks hfr.hlen
  have hx : ((Kin.forward s q qd).map (·.1)).length = s.numLinks := by simp [hF]
  have hxd : ((Kin.forward s q qd).map (·.2)).length = s.numLinks := by simp [hF]
  have h1 : (Kin.forward (gSys g s) q' qd').map (·.1) = ((Kin.forward s q qd).map (·.1)).map (Tf.doTf g) := by
    show (Kin.forward s q' qd').map (·.1) = _
    rw [hfwd, List.map_map, List.map_map]; rfl
  have h2 : (Kin.forward (gSys g s) q' qd').map (·.2) = ((Kin.forward s q qd).map (·.2)).map (rotM g) := by
    show (Kin.forward s q' qd').map (·.2) = _
    rw [hfwd, List.map_map, List.map_map]; rfl
  obtain ⟨hJ, hJd, hAp, hAc⟩ := worldToJoint_equiv g hg s _ _ hfr hlinks hx hxd
  unfold Positional.init
  simp only [h1, h2, hJ, hJd, hAp, hAc, fromWorld_equiv g hg s _ _ hx]
  rfl

theorem PLenOK.init (s : Sys ℝ) (q qd : List ℝ) (hlinks : s.links.length = s.numLinks)
    (hp : s.parents.length = s.numLinks) : PLenOK s (Positional.init s q qd) := by
  have hF := forward_length s q qd hlinks hp
  have hx : ((Kin.forward s q qd).map (·.1)).length = s.numLinks := by simp [hF]
  have hxd : ((Kin.forward s q qd).map (·.2)).length = s.numLinks := by simp [hF]
  refine ⟨hx, by simp [Positional.init, Com.fromWorld, tab_length], ?_⟩
  show ((Kin.worldToJoint s _ _).map (·.2.2.2)).length = s.numLinks
  rw [worldToJoint_eq_tab s _ _ hlinks hx hxd, List.length_map, tab_length]

end Brax.C05P
