import Brax.Model.Kinematics
import Mathlib.Tactic.Ring
import Mathlib.Tactic.LinearCombination
import Mathlib.Tactic.FieldSimp
/-!
# Algebra of the hand model (`Brax/Model/Math.lean`) over a commutative ring

Helper lemmas used by the physics properties.  The same laws are proved about the *generated*
definitions in `Props/C09.lean`; the bridge lemmas there show `Gen.f = f`.
-/
set_option linter.unusedSectionVars false
namespace Brax

section CommRing
variable {R : Type} [CommRing R]

theorem V3.ext' {a b : V3 R} (hx : a.x = b.x) (hy : a.y = b.y) (hz : a.z = b.z) : a = b := by
  cases a; cases b; simp_all
theorem Q4.ext' {a b : Q4 R} (hw : a.w = b.w) (hx : a.x = b.x) (hy : a.y = b.y) (hz : a.z = b.z) :
    a = b := by
  cases a; cases b; simp_all
theorem Tf.ext' {a b : Tf R} (hp : a.pos = b.pos) (hr : a.rot = b.rot) : a = b := by
  cases a; cases b; simp_all

/-- unit quaternion -/
def Q4.IsUnit (q : Q4 R) : Prop := Q4.normSq q = 1

theorem Q4.isUnit_one : Q4.IsUnit (Q4.one : Q4 R) := by
  simp [Q4.IsUnit, Q4.normSq, Q4.one]

theorem normSq_quatMul (p q : Q4 R) : Q4.normSq (quatMul p q) = Q4.normSq p * Q4.normSq q := by
  simp only [quatMul, Q4.normSq]; ring

theorem Q4.IsUnit.mul {p q : Q4 R} (hp : p.IsUnit) (hq : q.IsUnit) : (quatMul p q).IsUnit := by
  unfold Q4.IsUnit at *; rw [normSq_quatMul, hp, hq, one_mul]

theorem normSq_quatInv (q : Q4 R) : Q4.normSq (quatInv q) = Q4.normSq q := by
  simp only [quatInv, Q4.normSq]; ring

theorem Q4.IsUnit.inv {q : Q4 R} (hq : q.IsUnit) : (quatInv q).IsUnit := by
  unfold Q4.IsUnit at *; rw [normSq_quatInv, hq]

theorem quatMul_assoc (a b c : Q4 R) : quatMul (quatMul a b) c = quatMul a (quatMul b c) := by
  simp only [quatMul]; congr 1 <;> ring
theorem quatMul_one (q : Q4 R) : quatMul q Q4.one = q := by
  cases q; simp only [quatMul, Q4.one]; congr 1 <;> ring
theorem one_quatMul (q : Q4 R) : quatMul Q4.one q = q := by
  cases q; simp only [quatMul, Q4.one]; congr 1 <;> ring

theorem rotate_quatMul (v : V3 R) (p q : Q4 R) :
    rotate v (quatMul p q) = rotate (rotate v q) p := by
  simp only [rotate, quatMul, V3.dot, V3.cross, Q4.vec]; congr 1 <;> ring
theorem rotate_one (v : V3 R) : rotate v Q4.one = v := by
  cases v; simp only [rotate, Q4.one, V3.dot, V3.cross, Q4.vec]; congr 1 <;> ring
theorem rotate_add (u v : V3 R) (q : Q4 R) : rotate (u + v) q = rotate u q + rotate v q := by
  simp only [rotate, V3.dot, V3.cross, Q4.vec, V3.add_def]; congr 1 <;> ring
theorem rotate_sub (u v : V3 R) (q : Q4 R) : rotate (u - v) q = rotate u q - rotate v q := by
  simp only [rotate, V3.dot, V3.cross, Q4.vec, V3.sub_def]; congr 1 <;> ring
theorem rotate_neg (v : V3 R) (q : Q4 R) : rotate (-v) q = -rotate v q := by
  simp only [rotate, V3.dot, V3.cross, Q4.vec, V3.neg_def]; congr 1 <;> ring
theorem rotate_zero (q : Q4 R) : rotate (V3.zero : V3 R) q = V3.zero := by
  simp only [rotate, V3.dot, V3.cross, Q4.vec, V3.zero]; congr 1 <;> ring
theorem rotate_smul (s : R) (v : V3 R) (q : Q4 R) : rotate (V3.smul s v) q = V3.smul s (rotate v q) := by
  simp only [rotate, V3.dot, V3.cross, Q4.vec, V3.smul]; congr 1 <;> ring
theorem rotate_cross (u v : V3 R) (q : Q4 R) :
    V3.cross (rotate u q) (rotate v q) = V3.smul (Q4.normSq q) (rotate (V3.cross u v) q) := by
  simp only [rotate, V3.dot, V3.cross, Q4.vec, V3.smul, Q4.normSq]; congr 1 <;> ring
theorem rotate_dot (u v : V3 R) (q : Q4 R) :
    V3.dot (rotate u q) (rotate v q) = Q4.normSq q * Q4.normSq q * V3.dot u v := by
  simp only [rotate, V3.dot, V3.cross, Q4.vec, Q4.normSq]; ring
theorem rotate_inv_rotate (v : V3 R) (q : Q4 R) :
    rotate (rotate v q) (quatInv q) = V3.smul (Q4.normSq q * Q4.normSq q) v := by
  simp only [rotate, quatInv, V3.dot, V3.cross, Q4.vec, V3.smul, Q4.normSq]; congr 1 <;> ring
theorem rotate_rotate_inv (v : V3 R) (q : Q4 R) :
    rotate (rotate v (quatInv q)) q = V3.smul (Q4.normSq q * Q4.normSq q) v := by
  simp only [rotate, quatInv, V3.dot, V3.cross, Q4.vec, V3.smul, Q4.normSq]; congr 1 <;> ring

theorem V3.one_smul (v : V3 R) : V3.smul 1 v = v := by
  cases v; simp [V3.smul]

theorem rotate_inv_rotate_unit (v : V3 R) {q : Q4 R} (h : q.IsUnit) :
    rotate (rotate v q) (quatInv q) = v := by
  rw [rotate_inv_rotate, h, one_mul, V3.one_smul]
theorem rotate_rotate_inv_unit (v : V3 R) {q : Q4 R} (h : q.IsUnit) :
    rotate (rotate v (quatInv q)) q = v := by
  rw [rotate_rotate_inv, h, one_mul, V3.one_smul]
theorem rotate_cross_unit (u v : V3 R) {q : Q4 R} (h : q.IsUnit) :
    V3.cross (rotate u q) (rotate v q) = rotate (V3.cross u v) q := by
  rw [rotate_cross, h, V3.one_smul]
theorem rotate_dot_unit (u v : V3 R) {q : Q4 R} (h : q.IsUnit) :
    V3.dot (rotate u q) (rotate v q) = V3.dot u v := by
  rw [rotate_dot, h]; ring

theorem quatMul_inv_unit {q : Q4 R} (h : q.IsUnit) : quatMul q (quatInv q) = Q4.one := by
  have h' : q.w * q.w + q.x * q.x + q.y * q.y + q.z * q.z = 1 := h
  simp only [quatMul, quatInv, Q4.one]
  congr 1
  · linear_combination h'
  · ring
  · ring
  · ring
theorem quatInv_mul_unit {q : Q4 R} (h : q.IsUnit) : quatMul (quatInv q) q = Q4.one := by
  have h' : q.w * q.w + q.x * q.x + q.y * q.y + q.z * q.z = 1 := h
  simp only [quatMul, quatInv, Q4.one]
  congr 1
  · linear_combination h'
  · ring
  · ring
  · ring

/-! ### vectors -/
theorem V3.add_assoc' (a b c : V3 R) : a + b + c = a + (b + c) := by
  simp only [V3.add_def]; congr 1 <;> ring
theorem V3.add_comm' (a b : V3 R) : a + b = b + a := by
  simp only [V3.add_def]; congr 1 <;> ring
theorem V3.add_zero' (a : V3 R) : a + V3.zero = a := by
  cases a; simp [V3.add_def, V3.zero]
theorem V3.zero_add' (a : V3 R) : V3.zero + a = a := by
  cases a; simp [V3.add_def, V3.zero]
theorem V3.sub_self' (a : V3 R) : a - a = V3.zero := by
  simp [V3.sub_def, V3.zero]
theorem V3.add_sub_cancel' (a b : V3 R) : a + b - b = a := by
  cases a; cases b; simp [V3.add_def, V3.sub_def]

/-! ### transforms -/
theorem Tf.doTf_assoc (a b c : Tf R) : Tf.doTf (Tf.doTf a b) c = Tf.doTf a (Tf.doTf b c) := by
  simp only [Tf.doTf, rotate_add, rotate_quatMul, quatMul_assoc, V3.add_assoc']
theorem Tf.id_doTf (t : Tf R) : Tf.doTf Tf.id t = t := by
  cases t; simp only [Tf.doTf, Tf.id, rotate_one, one_quatMul, V3.zero_add']
theorem Tf.doTf_id (t : Tf R) : Tf.doTf t Tf.id = t := by
  cases t; simp only [Tf.doTf, Tf.id, rotate_zero, quatMul_one, V3.add_zero']

end CommRing
end Brax
