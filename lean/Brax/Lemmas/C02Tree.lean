import Brax.Lemmas.C02
/-!
# C02 helper lemmas: spatial bilinear form, the reverse accumulation `revAcc`, ancestors,
and the link-level kinetic-energy identity of the composite-rigid-body algorithm
-/
set_option linter.unusedSectionVars false
set_option linter.unusedSimpArgs false
namespace Brax.Gd
open Brax Kin

/-! ## sums over `0 … n-1` -/

/-- `Σ_{i<n} f i` -/
def rsum {M : Type} [Zero M] [Add M] : Nat → (Nat → M) → M
  | 0, _ => 0
  | n + 1, f => rsum n f + f n

section rsum
variable {R : Type} [CommRing R]

theorem rsum_congr {n : Nat} {f g : Nat → R} (h : ∀ i, i < n → f i = g i) : rsum n f = rsum n g := by
  induction n with
  | zero => rfl
  | succ n ih =>
    simp only [rsum]
    rw [ih (fun i hi => h i (Nat.lt_succ_of_lt hi)), h n (Nat.lt_succ_self n)]

theorem rsum_add (n : Nat) (f g : Nat → R) : rsum n (fun i => f i + g i) = rsum n f + rsum n g := by
  induction n with
  | zero => simp [rsum]
  | succ n ih => simp only [rsum, ih]; ring

theorem rsum_mul_left (n : Nat) (c : R) (f : Nat → R) : rsum n (fun i => c * f i) = c * rsum n f := by
  induction n with
  | zero => simp [rsum]
  | succ n ih => simp only [rsum, ih]; ring

theorem rsum_zero (n : Nat) : rsum n (fun _ => (0 : R)) = 0 := by
  induction n with
  | zero => rfl
  | succ n ih => simp only [rsum, ih]; ring

/-- a sum with a single non-zero term -/
theorem rsum_single (n : Nat) (k : Nat) (hk : k < n) (f : Nat → R) :
    rsum n (fun i => if i = k then f i else 0) = f k := by
  induction n with
  | zero => omega
  | succ n ih =>
    simp only [rsum]
    by_cases h : k = n
    · subst h
      have : rsum k (fun i => if i = k then f i else 0) = rsum k (fun _ => (0 : R)) :=
        rsum_congr (fun i hi => by simp [Nat.ne_of_lt hi])
      rw [this, rsum_zero]; simp
    · have hk' : k < n := by omega
      rw [ih hk']
      have : ¬ n = k := fun e => h e.symm
      simp [this]

theorem rsum_comm (n m : Nat) (f : Nat → Nat → R) :
    rsum n (fun i => rsum m (fun j => f i j)) = rsum m (fun j => rsum n (fun i => f i j)) := by
  induction n with
  | zero => simp [rsum, rsum_zero]
  | succ n ih => simp only [rsum, ih, rsum_add]

/-- `Σ_{i<n} f i` as a list sum -/
theorem sum_map_range (n : Nat) (f : Nat → R) : ((List.range n).map f).sum = rsum n f := by
  induction n with
  | zero => rfl
  | succ n ih => simp only [List.range_succ, List.map_append, List.sum_append, ih, rsum]; simp

end rsum

/-! ## spatial algebra: `Motion` sums and the bilinear form of an `Inertia` -/
section spatial
variable {R : Type} [CommRing R]

theorem Motion.ext' {a b : Motion R} (h1 : a.ang = b.ang) (h2 : a.vel = b.vel) : a = b := by
  cases a; cases b; simp_all

theorem madd_assoc (a b c : Motion R) : a + b + c = a + (b + c) := by
  simp only [Motion.add_def, V3.add_assoc']
theorem madd_comm (a b : Motion R) : a + b = b + a := by
  simp only [Motion.add_def]; rw [V3.add_comm' a.ang, V3.add_comm' a.vel]
theorem madd_zero (a : Motion R) : a + Motion.zero = a := by
  cases a; simp only [Motion.add_def, Motion.zero, V3.add_zero']
theorem zero_madd (a : Motion R) : Motion.zero + a = a := by
  cases a; simp only [Motion.add_def, Motion.zero, V3.zero_add']

/-- `Σ_{i<n} f i` for motions -/
def mrsum : Nat → (Nat → Motion R) → Motion R
  | 0, _ => Motion.zero
  | n + 1, f => mrsum n f + f n

/-- `aᵀ I b` -/
def bil (I : Inertia R) (a b : Motion R) : R := Motion.dotF a (Inertia.mul I b)
/-- `vᵀ I v` (twice the kinetic energy) -/
def ke (I : Inertia R) (v : Motion R) : R := bil I v v

/-- the rotational inertia matrix is symmetric -/
def SymmI (I : Inertia R) : Prop :=
  I.i.r0.y = I.i.r1.x ∧ I.i.r0.z = I.i.r2.x ∧ I.i.r1.z = I.i.r2.y

theorem bil_symm {I : Inertia R} (h : SymmI I) (a b : Motion R) : bil I a b = bil I b a := by
  obtain ⟨h1, h2, h3⟩ := h
  simp only [bil, Motion.dotF, Inertia.mul, M3.mulVec, V3.dot, V3.cross, V3.smul, V3.add_def, V3.sub_def]
  linear_combination (a.ang.x * b.ang.y - a.ang.y * b.ang.x) * h1
    + (a.ang.x * b.ang.z - a.ang.z * b.ang.x) * h2 + (a.ang.y * b.ang.z - a.ang.z * b.ang.y) * h3

theorem bil_add_left (I : Inertia R) (a b c : Motion R) : bil I (a + b) c = bil I a c + bil I b c := by
  simp only [bil, Motion.dotF, Inertia.mul, M3.mulVec, V3.dot, V3.cross, V3.smul, V3.add_def, V3.sub_def,
    Motion.add_def]; ring
theorem bil_add_right (I : Inertia R) (a b c : Motion R) : bil I a (b + c) = bil I a b + bil I a c := by
  simp only [bil, Motion.dotF, Inertia.mul, M3.mulVec, V3.dot, V3.cross, V3.smul, V3.add_def, V3.sub_def,
    Motion.add_def]; ring
theorem bil_zero_left (I : Inertia R) (c : Motion R) : bil I Motion.zero c = 0 := by
  simp only [bil, Motion.dotF, Inertia.mul, M3.mulVec, V3.dot, V3.cross, V3.smul, V3.add_def, V3.sub_def,
    Motion.zero, V3.zero]; ring
theorem bil_zero_right (I : Inertia R) (c : Motion R) : bil I c Motion.zero = 0 := by
  simp only [bil, Motion.dotF, Inertia.mul, M3.mulVec, V3.dot, V3.cross, V3.smul, V3.add_def, V3.sub_def,
    Motion.zero, V3.zero]; ring
theorem bil_mulr_left (I : Inertia R) (a c : Motion R) (x : R) : bil I (mulr a x) c = x * bil I a c := by
  simp only [bil, Motion.dotF, Inertia.mul, M3.mulVec, V3.dot, V3.cross, V3.smul, V3.add_def, V3.sub_def,
    mulr]; ring
theorem bil_mulr_right (I : Inertia R) (a c : Motion R) (x : R) : bil I a (mulr c x) = x * bil I a c := by
  simp only [bil, Motion.dotF, Inertia.mul, M3.mulVec, V3.dot, V3.cross, V3.smul, V3.add_def, V3.sub_def,
    mulr]; ring
theorem bil_inertiaAdd (I J : Inertia R) (a b : Motion R) :
    bil (inertiaAdd I J) a b = bil I a b + bil J a b := by
  simp only [bil, Motion.dotF, Inertia.mul, M3.mulVec, V3.dot, V3.cross, V3.smul, V3.add_def, V3.sub_def,
    inertiaAdd, M3.add]; ring

theorem SymmI.add {I J : Inertia R} (hI : SymmI I) (hJ : SymmI J) : SymmI (inertiaAdd I J) := by
  obtain ⟨a1, a2, a3⟩ := hI
  obtain ⟨b1, b2, b3⟩ := hJ
  simp only [SymmI, inertiaAdd, M3.add, V3.add_def]
  exact ⟨by rw [a1, b1], by rw [a2, b2], by rw [a3, b3]⟩

theorem ke_add {I : Inertia R} (h : SymmI I) (a b : Motion R) :
    ke I (a + b) = ke I a + ke I b + 2 * bil I b a := by
  simp only [ke, bil_add_left, bil_add_right]
  rw [bil_symm h a b]; ring

theorem bil_mrsum_left (I : Inertia R) (n : Nat) (f : Nat → Motion R) (c : Motion R) :
    bil I (mrsum n f) c = rsum n (fun i => bil I (f i) c) := by
  induction n with
  | zero => simp [mrsum, rsum, bil_zero_left]
  | succ n ih => simp only [mrsum, rsum, bil_add_left, ih]
theorem bil_mrsum_right (I : Inertia R) (n : Nat) (f : Nat → Motion R) (c : Motion R) :
    bil I c (mrsum n f) = rsum n (fun i => bil I c (f i)) := by
  induction n with
  | zero => simp [mrsum, rsum, bil_zero_right]
  | succ n ih => simp only [mrsum, rsum, bil_add_right, ih]

end spatial

/-! ## the reverse accumulation, peeled from the last link -/
section revacc
variable {β : Type}

theorem modify_append_left (f : β → β) : ∀ (l : List β) (k : Nat) (r : List β), k < l.length →
    (l ++ r).modify k f = l.modify k f ++ r
  | [], k, r, h => by simp at h
  | a :: l, 0, r, _ => by simp
  | a :: l, k + 1, r, h => by
    simp only [List.cons_append, List.modify_succ_cons]
    rw [modify_append_left f l k r (by simpa using h)]

theorem revStep_length (add : β → β → β) (acc : List β) (ip : Nat × Int) :
    (revStep add acc ip).length = acc.length := by
  unfold revStep
  split
  · rfl
  · split <;> simp

theorem revStep_append (add : β → β → β) (as : List β) (a : β) (ip : Nat × Int)
    (h1 : ip.1 < as.length) (h2 : ip.2 < (as.length : Int)) :
    revStep add (as ++ [a]) ip = revStep add as ip ++ [a] := by
  unfold revStep
  by_cases hneg : ip.2 < 0
  · simp [hneg]
  · simp only [hneg, if_false]
    rw [List.getElem?_append_left h1, List.getElem?_eq_getElem h1]
    simp only
    rw [modify_append_left _ _ _ _ (by omega)]

theorem foldl_revStep_append (add : β → β → β) (steps : List (Nat × Int)) :
    ∀ (as : List β) (a : β), (∀ ip ∈ steps, ip.1 < as.length ∧ ip.2 < (as.length : Int)) →
    steps.foldl (revStep add) (as ++ [a]) = steps.foldl (revStep add) as ++ [a] := by
  induction steps with
  | nil => intro as a _; rfl
  | cons ip rest ih =>
    intro as a h
    simp only [List.foldl]
    obtain ⟨h1, h2⟩ := h ip (by simp)
    rw [revStep_append add as a ip h1 h2]
    apply ih
    intro jp hjp
    rw [revStep_length]
    exact h jp (by simp [hjp])

theorem revAcc_length (add : β → β → β) (ps : List Int) (as : List β) :
    (revAcc add ps as).length = as.length := by
  unfold revAcc
  generalize ((List.range ps.length).zip ps).reverse = steps
  induction steps generalizing as with
  | nil => rfl
  | cons ip rest ih => simp only [List.foldl]; rw [ih, revStep_length]

/-- **peeling the last link**: its value is added to its parent first, and the last entry stays -/
theorem revAcc_snoc (add : β → β → β) (ps : List Int) (as : List β) (p : Int) (a : β)
    (hlen : ps.length = as.length) (hwf : ∀ i, ps.getD i (-1) < (i : Int)) (hp : p < (as.length : Int)) :
    revAcc add (ps ++ [p]) (as ++ [a])
      = revAcc add ps (if p < 0 then as else as.modify p.toNat (fun x => add x a)) ++ [a] := by
  unfold revAcc
  have hz : (List.range (ps ++ [p]).length).zip (ps ++ [p])
      = (List.range ps.length).zip ps ++ [(ps.length, p)] := by
    rw [List.length_append, List.length_singleton, List.range_succ,
      List.zip_append (by simp)]
    rfl
  rw [hz, List.reverse_append, List.reverse_singleton, List.singleton_append, List.foldl_cons]
  have hstep : revStep add (as ++ [a]) (ps.length, p)
      = (if p < 0 then as else as.modify p.toNat (fun x => add x a)) ++ [a] := by
    unfold revStep
    by_cases hneg : p < 0
    · simp [hneg]
    · simp only [hneg, if_false]
      rw [hlen, List.getElem?_append_right (Nat.le_refl _)]
      simp only [Nat.sub_self, List.getElem?_cons_zero]
      rw [modify_append_left _ _ _ _ (by omega)]
  rw [hstep]
  apply foldl_revStep_append
  intro ip hip
  rw [List.mem_reverse] at hip
  have hlen' : (if p < 0 then as else as.modify p.toNat (fun x => add x a)).length = as.length := by
    split <;> simp
  rw [hlen']
  obtain ⟨k, hk, rfl⟩ : ∃ k, k < ps.length ∧ ip = (k, ps.getD k (-1)) := by
    rw [List.mem_iff_getElem] at hip
    obtain ⟨k, hk, rfl⟩ := hip
    have hk' : k < ps.length := by simpa using hk
    refine ⟨k, hk', ?_⟩
    simp [List.getD_eq_getElem?_getD, List.getElem?_eq_getElem hk']
  refine ⟨by omega, ?_⟩
  have := hwf k
  simp only
  omega

end revacc

/-! ## link level: `Σ_k v_kᵀ I_k v_k` through the composite inertias -/
section crbke
variable {R : Type} [CommRing R]

/-- default inertia (the `getD` default used by `massEntry`) -/
def dI : Inertia R := ⟨Tf.id, M3.zero, 0⟩

/-- parents precede children (for indices past the end `getD` gives the world parent) -/
def PWF (ps : List Int) : Prop := ∀ i : Nat, ps.getD i (-1) < (i : Int)

theorem exists_snoc {γ : Type} {n : Nat} (l : List γ) (h : l.length = n + 1) :
    ∃ l' a, l = l' ++ [a] ∧ l'.length = n := by
  rcases List.eq_nil_or_concat l with rfl | ⟨l', a, rfl⟩
  · simp at h
  · refine ⟨l', a, by simp, ?_⟩
    simpa using h

theorem PWF.prefix {ps : List Int} {p : Int} (h : PWF (ps ++ [p])) : PWF ps := by
  intro i
  by_cases hi : i < ps.length
  · have := h i
    rwa [List.getD_eq_getElem?_getD, List.getElem?_append_left hi, ← List.getD_eq_getElem?_getD] at this
  · rw [List.getD_eq_getElem?_getD, List.getElem?_eq_none (by omega)]
    simp only [Option.getD_none]; omega

theorem PWF.last {ps : List Int} {p : Int} (h : PWF (ps ++ [p])) : p < (ps.length : Int) := by
  have := h ps.length
  rw [List.getD_eq_getElem?_getD, List.getElem?_append_right (Nat.le_refl _)] at this
  simpa using this

theorem getD_append_left' {γ : Type} (l r : List γ) (d : γ) (k : Nat) (h : k < l.length) :
    (l ++ r).getD k d = l.getD k d := by
  rw [List.getD_eq_getElem?_getD, List.getElem?_append_left h, ← List.getD_eq_getElem?_getD]

theorem getD_snoc_last {γ : Type} (l : List γ) (a d : γ) : (l ++ [a]).getD l.length d = a := by
  rw [List.getD_eq_getElem?_getD, List.getElem?_append_right (Nat.le_refl _)]; simp

theorem getD_modify {γ : Type} (l : List γ) (f : γ → γ) (d : γ) (p k : Nat) (hp : p < l.length) :
    (l.modify p f).getD k d = if k = p then f (l.getD p d) else l.getD k d := by
  rw [List.getD_eq_getElem?_getD, List.getElem?_modify]
  by_cases h : k = p
  · subst h
    simp [List.getD_eq_getElem?_getD, List.getElem?_eq_getElem hp]
  · have h' : ¬ p = k := fun e => h e.symm
    simp [h, h', List.getD_eq_getElem?_getD]

theorem ke_zero (I : Inertia R) : ke I Motion.zero = 0 := bil_zero_left I _

theorem ke_inertiaAdd (I J : Inertia R) (v : Motion R) : ke (inertiaAdd I J) v = ke I v + ke J v :=
  bil_inertiaAdd I J v v

/-- velocity of the parent of link `l` for a per-link velocity function -/
def vpar (ps : List Int) (vel : Nat → Motion R) (l : Nat) : Motion R :=
  if ps.getD l (-1) < 0 then Motion.zero else vel (ps.getD l (-1)).toNat

/-- **Composite-rigid-body identity, link level.**  With `C = revAcc (+) I` the composite
inertias, `vel l = vel (parent l) + U l` the link velocities generated by per-link joint
velocities `U`, and symmetric `I_k`:
`Σ_k vel_kᵀ I_k vel_k = Σ_l (U_lᵀ C_l U_l + 2 U_lᵀ C_l vel_{parent l})` — for every forest. -/
theorem crb_ke (n : Nat) : ∀ (ps : List Int) (I : List (Inertia R)), ps.length = n → I.length = n →
    PWF ps → (∀ x ∈ I, SymmI x) → ∀ (U vel : Nat → Motion R),
    (∀ l, l < n → vel l = vpar ps vel l + U l) →
    rsum n (fun k => ke (I.getD k dI) (vel k)) =
    rsum n (fun l => ke ((revAcc inertiaAdd ps I).getD l dI) (U l)
      + 2 * bil ((revAcc inertiaAdd ps I).getD l dI) (U l) (vpar ps vel l)) := by
  induction n with
  | zero => intros; rfl
  | succ n ih =>
    intro ps I hps hI hwf hsym U vel hvel
    obtain ⟨ps', p, rfl, hps'⟩ := exists_snoc ps hps
    obtain ⟨I', J, rfl, hI'⟩ := exists_snoc I hI
    have hwf' := hwf.prefix
    have hp : p < (n : Int) := by have := hwf.last; rwa [hps'] at this
    have hJ : SymmI J := hsym J (by simp)
    have hsym' : ∀ x ∈ I', SymmI x := fun x hx => hsym x (by simp [hx])
    -- the inertia list after the last link has been pushed onto its parent
    set I'' : List (Inertia R) := if p < 0 then I' else I'.modify p.toNat (fun x => inertiaAdd x J) with hI''def
    have hI''len : I''.length = n := by rw [hI''def]; split <;> simp [hI']
    have hsym'' : ∀ x ∈ I'', SymmI x := by
      rw [hI''def]
      split
      · exact hsym'
      · intro x hx
        rw [List.mem_iff_getElem?] at hx
        obtain ⟨k, hk⟩ := hx
        rw [List.getElem?_modify] at hk
        cases hkk : I'[k]? with
        | none => rw [hkk] at hk; simp at hk
        | some y =>
          rw [hkk] at hk
          have hy : SymmI y := hsym' y (List.mem_of_getElem? hkk)
          simp only [Option.map_eq_map, Option.map_some, Option.some.injEq] at hk
          rw [← hk]
          split
          · exact hy.add hJ
          · exact hy
    have hrev : revAcc inertiaAdd (ps' ++ [p]) (I' ++ [J]) = revAcc inertiaAdd ps' I'' ++ [J] :=
      revAcc_snoc inertiaAdd ps' I' p J (by rw [hps', hI']) hwf' (by rw [hI']; exact hp)
    have hClen : (revAcc inertiaAdd ps' I'').length = n := by rw [revAcc_length, hI''len]
    -- the velocity recursion restricted to the first n links
    have hvel' : ∀ l, l < n → vel l = vpar ps' vel l + U l := by
      intro l hl
      rw [hvel l (Nat.lt_succ_of_lt hl)]
      simp only [vpar, getD_append_left' ps' [p] (-1) l (by omega)]
    have hIH := ih ps' I'' hps' hI''len hwf' hsym'' U vel hvel'
    -- unfold both sums by their last term
    simp only [rsum]
    rw [hrev]
    have e1 : rsum n (fun k => ke ((I' ++ [J]).getD k dI) (vel k)) = rsum n (fun k => ke (I'.getD k dI) (vel k)) :=
      rsum_congr (fun k hk => by rw [getD_append_left' I' [J] dI k (by omega)])
    have e2 : rsum n (fun l => ke ((revAcc inertiaAdd ps' I'' ++ [J]).getD l dI) (U l)
          + 2 * bil ((revAcc inertiaAdd ps' I'' ++ [J]).getD l dI) (U l) (vpar (ps' ++ [p]) vel l))
        = rsum n (fun l => ke ((revAcc inertiaAdd ps' I'').getD l dI) (U l)
          + 2 * bil ((revAcc inertiaAdd ps' I'').getD l dI) (U l) (vpar ps' vel l)) :=
      rsum_congr (fun l hl => by
        rw [getD_append_left' _ [J] dI l (by omega)]
        simp only [vpar, getD_append_left' ps' [p] (-1) l (by omega)])
    rw [e1, e2, ← hIH]
    have e3 : (I' ++ [J]).getD n dI = J := by rw [← hI']; exact getD_snoc_last I' J dI
    have e4 : (revAcc inertiaAdd ps' I'' ++ [J]).getD n dI = J := by
      rw [← hClen]; exact getD_snoc_last _ J dI
    have e5 : vpar (ps' ++ [p]) vel n = if p < 0 then Motion.zero else vel p.toNat := by
      simp only [vpar]; rw [← hps', getD_snoc_last ps' p (-1)]
    rw [e3, e4, hvel n (Nat.lt_succ_self n), e5]
    by_cases hneg : p < 0
    · have hI''eq : I'' = I' := by rw [hI''def]; simp [hneg]
      rw [hI''eq]
      simp only [hneg, if_true, zero_madd, bil_zero_right]
      ring
    · have hpn : p.toNat < I'.length := by omega
      have e6 : rsum n (fun k => ke (I''.getD k dI) (vel k))
          = rsum n (fun k => ke (I'.getD k dI) (vel k)) + ke J (vel p.toNat) := by
        have : ∀ k, k < n → ke (I''.getD k dI) (vel k)
            = ke (I'.getD k dI) (vel k) + (if k = p.toNat then ke J (vel k) else 0) := by
          intro k _
          rw [hI''def]
          simp only [hneg, if_false]
          rw [getD_modify I' _ dI p.toNat k hpn]
          by_cases hk : k = p.toNat
          · subst hk; simp only [if_true, ke_inertiaAdd]
          · simp only [hk, if_false, add_zero]
        rw [rsum_congr this, rsum_add, rsum_single n p.toNat (by omega) (fun k => ke J (vel k))]
      rw [e6]
      simp only [hneg, if_false]
      rw [ke_add hJ]
      ring

end crbke
end Brax.Gd
