import Brax.Model.ScanLevels
import Brax.Lemmas.ScanSpec
/-!
# Layer B stage 2: the level-grouped `scan.tree` computes the per-link recursion
(core Lean + Batteries only)
-/
namespace Brax.Kin

theorem zipWith_map_map {α β γ δ : Type} (h : β → γ → δ) (g1 : α → β) (g2 : α → γ) (l : List α) :
    List.zipWith h (l.map g1) (l.map g2) = l.map fun x => h (g1 x) (g2 x) := by
  induction l with
  | nil => rfl
  | cons x xs ih => simp [ih]

theorem le_foldl_max (l : List Nat) (acc : Nat) : acc ≤ l.foldl max acc ∧ ∀ x ∈ l, x ≤ l.foldl max acc := by
  induction l generalizing acc with
  | nil => exact ⟨Nat.le_refl _, fun _ h => by simp at h⟩
  | cons y ys ih =>
    simp only [List.foldl]
    obtain ⟨h1, h2⟩ := ih (max acc y)
    refine ⟨Nat.le_trans (Nat.le_max_left _ _) h1, ?_⟩
    intro x hx
    rcases List.mem_cons.mp hx with rfl | hx
    · exact Nat.le_trans (Nat.le_max_right _ _) h1
    · exact h2 x hx

theorem depths_length (ps : List Int) : (depths ps).length = ps.length := by
  unfold depths; rw [scanFwd_length]; simp

/-- the depth function satisfies its recursion -/
theorem depths_getElem (ps : List Int) (hwf : ParentsWF ps) (i : Nat) (hi : i < ps.length) :
    (depths ps).getD i 0 = if ps[i] < 0 then 0 else (depths ps).getD (ps[i].toNat) 0 + 1 := by
  have h := scanFwd_getElem
    (fun (par : Option Nat) (_ : Unit) => match par with | none => 0 | some d => d + 1)
    ps (ps.map fun _ => ()) (by simp) hwf i hi
  have hd : depths ps = scanFwd (fun (par : Option Nat) (_ : Unit) => match par with | none => 0 | some d => d + 1)
      ps (ps.map fun _ => ()) := rfl
  rw [← hd] at h
  rw [List.getD_eq_getElem?_getD, h]
  simp only [Option.getD_some]
  by_cases hneg : ps[i] < 0
  · simp [hneg]
  · simp only [hneg, if_false]
    have hp := hwf i hi
    have hlt : ps[i].toNat < (depths ps).length := by rw [depths_length]; omega
    rw [List.getElem?_eq_getElem hlt, List.getD_eq_getElem?_getD, List.getElem?_eq_getElem hlt]
    simp

theorem mem_levelIdxs (ds : List Nat) (d i : Nat) :
    i ∈ levelIdxs ds d ↔ i < ds.length ∧ ds.getD i 0 = d := by
  simp [levelIdxs]

/-- looking an element up through its index -/
theorem getD_map_idxOf {β : Type} (l : List Nat) (g : Nat → β) (dflt : β) (p : Nat) (hp : p ∈ l) :
    (l.map g).getD (l.idxOf p) dflt = g p := by
  have hlt : l.idxOf p < l.length := List.idxOf_lt_length_iff.mpr hp
  rw [List.getD_eq_getElem?_getD, List.getElem?_eq_getElem (by simpa using hlt)]
  simp [List.getElem_idxOf]

section main
variable {β γ : Type} (f : Option β → γ → β) (ps : List Int) (as : List γ) (dflt : γ) (dfltY : β)

/-- result of the per-link recursion at link `i` (default outside the range) -/
def rget (i : Nat) : β := (scanFwd f ps as).getD i dfltY

theorem rget_spec (hlen : ps.length = as.length) (hwf : ParentsWF ps) (i : Nat) (hi : i < ps.length) :
    rget f ps as dfltY i
      = f (if ps[i] < 0 then none else some (rget f ps as dfltY (ps[i].toNat))) (as.getD i dflt) := by
  unfold rget
  rw [List.getD_eq_getElem?_getD, scanFwd_getElem f ps as hlen hwf i hi]
  simp only [Option.getD_some]
  have ha : as.getD i dflt = as[i]'(hlen ▸ hi) := by
    rw [List.getD_eq_getElem?_getD, List.getElem?_eq_getElem (hlen ▸ hi)]; rfl
  rw [ha]
  congr 1
  by_cases hneg : ps[i] < 0
  · simp [hneg]
  · simp only [hneg, if_false]
    have hp := hwf i hi
    have hlt : ps[i].toNat < (scanFwd f ps as).length := by rw [scanFwd_length]; omega
    rw [List.getElem?_eq_getElem hlt, List.getD_eq_getElem?_getD, List.getElem?_eq_getElem hlt]
    rfl

/-- **one level**: given the previous level's outputs (the recursion's results on the links of depth
`d − 1`), the level step returns the recursion's results on the links of depth `d` -/
theorem levelStep_spec (hlen : ps.length = as.length) (hwf : ParentsWF ps) (d : Nat) :
    levelStep f ps as dflt dfltY
        (if d = 0 then none else some (levelIdxs (depths ps) (d - 1),
          (levelIdxs (depths ps) (d - 1)).map (rget f ps as dfltY)))
        (levelIdxs (depths ps) d)
      = (levelIdxs (depths ps) d).map (rget f ps as dfltY) := by
  by_cases hd : d = 0
  · subst hd
    simp only [levelStep, if_true, List.map_map]
    apply List.map_congr_left
    intro i hi
    obtain ⟨hi1, hi2⟩ := (mem_levelIdxs _ _ _).mp hi
    rw [depths_length] at hi1
    have hrec := depths_getElem ps hwf i hi1
    rw [hi2] at hrec
    have hneg : ps[i] < 0 := by
      by_cases hc : ps[i] < 0
      · exact hc
      · simp only [hc, if_false] at hrec
        omega
    rw [rget_spec f ps as dflt dfltY hlen hwf i hi1]
    simp [hneg]
  · simp only [levelStep, hd, if_false, List.map_map]
    rw [zipWith_map_map]
    apply List.map_congr_left
    intro i hi
    obtain ⟨hi1, hi2⟩ := (mem_levelIdxs _ _ _).mp hi
    rw [depths_length] at hi1
    have hrec := depths_getElem ps hwf i hi1
    rw [hi2] at hrec
    have hnn : ¬ ps[i] < 0 := by
      intro hc
      simp only [hc, if_true] at hrec
      exact hd hrec
    simp only [hnn, if_false] at hrec
    have hp := hwf i hi1
    have hplt : ps[i].toNat < ps.length := by omega
    have hpmem : ps[i].toNat ∈ levelIdxs (depths ps) (d - 1) := by
      rw [mem_levelIdxs, depths_length]
      exact ⟨hplt, by omega⟩
    have hget : ps.getD i (-1) = ps[i] := by
      rw [List.getD_eq_getElem?_getD, List.getElem?_eq_getElem hi1]; rfl
    simp only [Function.comp, hget]
    rw [getD_map_idxOf _ _ _ _ hpmem, rget_spec f ps as dflt dfltY hlen hwf i hi1]
    simp [hnn]

/-- **all levels** from depth `d0` on -/
theorem levelLoop_spec (hlen : ps.length = as.length) (hwf : ParentsWF ps) (k d0 : Nat) :
    levelLoop f ps as dflt dfltY (depths ps) (List.range' d0 k)
        (if d0 = 0 then none else some (levelIdxs (depths ps) (d0 - 1),
          (levelIdxs (depths ps) (d0 - 1)).map (rget f ps as dfltY)))
      = (List.range' d0 k).map fun d => (levelIdxs (depths ps) d).map (rget f ps as dfltY) := by
  induction k generalizing d0 with
  | zero => rfl
  | succ k ih =>
    simp only [List.range'_succ, levelLoop, List.map_cons]
    rw [levelStep_spec f ps as dflt dfltY hlen hwf d0]
    congr 1
    have := ih (d0 + 1)
    simp only [Nat.add_one_ne_zero, if_false, Nat.add_sub_cancel] at this
    exact this

/-- **Layer B stage 2.**  The level-grouped algorithm of `scan.tree` (group by depth, re-index the
carry through `parent_map`, concatenate, reorder) computes exactly the per-link recursion, for
every forest whose parents precede their children — of any size and shape. -/
theorem scanTreeLevels_eq_scanFwd (hlen : ps.length = as.length) (hwf : ParentsWF ps) :
    scanTreeLevels f ps as dflt dfltY = scanFwd f ps as := by
  have hrlen : (scanFwd f ps as).length = ps.length := by rw [scanFwd_length]; omega
  unfold scanTreeLevels
  simp only
  generalize hnl : (if (depths ps).isEmpty then 0 else (depths ps).foldl max 0 + 1) = nLevels
  have hloop := levelLoop_spec f ps as dflt dfltY hlen hwf nLevels 0
  simp only [if_true] at hloop
  rw [List.range_eq_range', hloop]
  -- concatenation of the levels = the order list mapped through the recursion's results
  have hflat : ((List.range' 0 nLevels).map fun d => (levelIdxs (depths ps) d).map (rget f ps as dfltY)).flatten
      = (((List.range' 0 nLevels).map (levelIdxs (depths ps))).flatten).map (rget f ps as dfltY) := by
    rw [List.map_flatten, List.map_map]; rfl
  rw [hflat]
  apply List.ext_getElem
  · simp [hrlen]
  · intro i h1 h2
    simp only [List.getElem_map, List.getElem_range]
    have hi : i < ps.length := by simpa using h1
    -- link i occurs in the order list
    have hmem : i ∈ ((List.range' 0 nLevels).map (levelIdxs (depths ps))).flatten := by
      rw [List.mem_flatten]
      refine ⟨levelIdxs (depths ps) ((depths ps).getD i 0), ?_, ?_⟩
      · rw [List.mem_map]
        refine ⟨(depths ps).getD i 0, ?_, rfl⟩
        rw [List.mem_range'_1]
        refine ⟨Nat.zero_le _, ?_⟩
        have hne : (depths ps).isEmpty = false := by
          rw [List.isEmpty_eq_false_iff]; intro hc
          have := depths_length ps; rw [hc] at this; simp at this; omega
        rw [hne] at hnl
        simp only [Bool.false_eq_true, if_false] at hnl
        have hle : (depths ps).getD i 0 ≤ (depths ps).foldl max 0 := by
          have hlt : i < (depths ps).length := by rw [depths_length]; exact hi
          rw [List.getD_eq_getElem?_getD, List.getElem?_eq_getElem hlt]
          exact (le_foldl_max (depths ps) 0).2 _ (List.getElem_mem hlt)
        omega
      · rw [mem_levelIdxs, depths_length]; exact ⟨hi, rfl⟩
    rw [getD_map_idxOf _ _ _ _ hmem]
    unfold rget
    rw [List.getD_eq_getElem?_getD, List.getElem?_eq_getElem h2]; rfl

end main
end Brax.Kin
