import Brax.Lemmas.C02Root
/-!
# C02 helper lemmas: the block-form `mass.matrix` of the model equals the Spec's flat `fullM`
(MuJoCo's `mj_crb` over `dof_parentid` chains + armature), entry by entry

* `offs`, `flatten_getD_w`, `map_flat_dofIdx`: flat dof index `offs w l + r` ↔ (link `l`, row `r`);
* `revAcc_forall₂`: a relation compatible with the two additions is preserved by the backward
  accumulation (the representation change brax `Inertia` ↔ MuJoCo's 10 numbers commutes with `crb`);
* `dofBody_getD`, `dofParent_getD`, `pwf_dofParent`, `chain_mem`: the `dof_parentid` chain of dof
  `(l, r)` visits exactly the dofs `(l, s ≤ r)` and all dofs of the strict ancestors of `l`;
* `massMatrix_eq_fullM`: the two matrices are equal as lists of rows.
-/
set_option linter.unusedSectionVars false
set_option linter.unusedSimpArgs false
namespace Brax.Gd
open Brax Kin

/-! ## flat dof indices -/

/-- `Σ_{k<l} w k`: address of the first dof of link `l` -/
def offs (w : Nat → Nat) : Nat → Nat
  | 0 => 0
  | l + 1 => offs w l + w l

theorem offs_congr {w w' : Nat → Nat} : ∀ {l : Nat}, (∀ k, k < l → w k = w' k) → offs w l = offs w' l
  | 0, _ => rfl
  | l + 1, h => by
    simp only [offs]
    rw [offs_congr (fun k hk => h k (Nat.lt_succ_of_lt hk)), h l (Nat.lt_succ_self l)]

theorem offs_mono (w : Nat → Nat) {a b : Nat} (h : a ≤ b) : offs w a ≤ offs w b := by
  induction b with
  | zero => have : a = 0 := by omega
            subst this; exact Nat.le_refl _
  | succ b ih =>
    by_cases hab : a = b + 1
    · subst hab; exact Nat.le_refl _
    · have := ih (by omega)
      simp only [offs]; omega

theorem offs_succ_le (w : Nat → Nat) {a l : Nat} (h : a < l) : offs w a + w a ≤ offs w l :=
  offs_mono w (a := a + 1) h

theorem offs_shift (w : Nat → Nat) : ∀ l, offs w (l + 1) = w 0 + offs (fun i => w (i + 1)) l
  | 0 => by simp [offs]
  | l + 1 => by
    have ih := offs_shift w l
    simp only [offs] at ih ⊢
    omega

/-- order of flat indices = lexicographic order of (link, row) -/
theorem flat_le_iff (w : Nat → Nat) (l r a s : Nat) (hr : r < w l) (hs : s < w a) :
    offs w a + s ≤ offs w l + r ↔ a < l ∨ (a = l ∧ s ≤ r) := by
  rcases Nat.lt_trichotomy a l with h | h | h
  · have := offs_succ_le w h
    constructor
    · intro _; exact Or.inl h
    · intro _; omega
  · subst h
    constructor
    · intro h'; exact Or.inr ⟨rfl, by omega⟩
    · rintro (h' | ⟨_, h'⟩) <;> omega
  · have := offs_succ_le w h
    constructor
    · intro h'; omega
    · rintro (h' | ⟨h', _⟩) <;> omega

theorem flat_eq_iff (w : Nat → Nat) (l r a s : Nat) (hr : r < w l) (hs : s < w a) :
    offs w a + s = offs w l + r ↔ a = l ∧ s = r := by
  have h1 := flat_le_iff w l r a s hr hs
  have h2 := flat_le_iff w a s l r hs hr
  constructor
  · intro h
    have e1 := h1.mp (by omega)
    have e2 := h2.mp (by omega)
    omega
  · rintro ⟨rfl, rfl⟩; rfl

/-- every flat index below `offs w n` is some `(l, k)` -/
theorem flat_decomp (w : Nat → Nat) : ∀ (n i : Nat), i < offs w n → ∃ l k, l < n ∧ k < w l ∧ i = offs w l + k
  | 0, i, h => by simp [offs] at h
  | n + 1, i, h => by
    by_cases hi : i < offs w n
    · obtain ⟨l, k, hl, hk, e⟩ := flat_decomp w n i hi
      exact ⟨l, k, Nat.lt_succ_of_lt hl, hk, e⟩
    · simp only [offs] at h
      exact ⟨n, i - offs w n, Nat.lt_succ_self n, by omega, by omega⟩

theorem mem_dofIdx (n : Nat) (w : Nat → Nat) (l r : Nat) : (l, r) ∈ dofIdx n w ↔ l < n ∧ r < w l := by
  unfold dofIdx
  simp only [List.mem_flatMap, List.mem_map, List.mem_range, Prod.mk.injEq]
  constructor
  · rintro ⟨l', hl', r', hr', rfl, rfl⟩; exact ⟨hl', hr'⟩
  · rintro ⟨hl, hr⟩; exact ⟨l, hl, r, hr, rfl, rfl⟩

theorem dofIdx_succ (n : Nat) (w : Nat → Nat) :
    dofIdx (n + 1) w = dofIdx n w ++ (List.range (w n)).map fun r => (n, r) := by
  unfold dofIdx
  rw [List.range_succ, List.flatMap_append]
  simp

/-- the flat indices of the dof index list are `0, 1, …` -/
theorem map_flat_dofIdx (w : Nat → Nat) : ∀ n : Nat,
    (dofIdx n w).map (fun lr => offs w lr.1 + lr.2) = List.range (offs w n)
  | 0 => by simp [dofIdx, offs]
  | n + 1 => by
    rw [dofIdx_succ, List.map_append, map_flat_dofIdx w n, List.map_map]
    simp only [offs]
    rw [List.range_add]
    rfl

/-! ## flattening nested per-dof arrays -/
section flatten
variable {β : Type}

theorem flatten_length_w : ∀ (rows : List (List β)) (w : Nat → Nat),
    (∀ i, i < rows.length → (rows.getD i []).length = w i) → rows.flatten.length = offs w rows.length
  | [], _, _ => rfl
  | row :: rest, w, hw => by
    have h0 : row.length = w 0 := hw 0 (by simp)
    have ih := flatten_length_w rest (fun i => w (i + 1)) (fun i hi => by
      have := hw (i + 1) (by simpa using hi)
      simpa using this)
    rw [List.flatten_cons, List.length_append, ih, List.length_cons, offs_shift, h0]

/-- entry `offs w l + k` of the flattened array is entry `k` of row `l` -/
theorem flatten_getD_w : ∀ (rows : List (List β)) (w : Nat → Nat),
    (∀ i, i < rows.length → (rows.getD i []).length = w i) → ∀ (d : β) (l k : Nat),
    l < rows.length → k < w l → rows.flatten.getD (offs w l + k) d = (rows.getD l []).getD k d
  | [], _, _, _, l, _, hl, _ => by simp at hl
  | row :: rest, w, hw, d, 0, k, _, hk => by
    have h0 : row.length = w 0 := hw 0 (by simp)
    simp only [offs, Nat.zero_add, List.flatten_cons, List.getD_cons_zero]
    exact getD_append_left' row rest.flatten d k (by omega)
  | row :: rest, w, hw, d, l + 1, k, hl, hk => by
    have h0 : row.length = w 0 := hw 0 (by simp)
    have ih := flatten_getD_w rest (fun i => w (i + 1)) (fun i hi => by
      have := hw (i + 1) (by simpa using hi)
      simpa using this) d l k (by simpa using hl) hk
    rw [offs_shift, List.flatten_cons, List.getD_cons_succ, ← ih, ← h0]
    rw [List.getD_eq_getElem?_getD, List.getD_eq_getElem?_getD,
      List.getElem?_append_right (by omega)]
    congr 2
    omega

end flatten

/-! ## a relation compatible with the additions is preserved by the backward accumulation -/
section rel
variable {β γ : Type}

theorem forall₂_modify {Rel : β → γ → Prop} {f : β → β} {g : γ → γ}
    (hfg : ∀ x y, Rel x y → Rel (f x) (g y)) {as : List β} {bs : List γ}
    (h : List.Forall₂ Rel as bs) : ∀ k, List.Forall₂ Rel (as.modify k f) (bs.modify k g) := by
  induction h with
  | nil => intro k; simp
  | cons hab _ ih =>
    intro k
    cases k with
    | zero => simp only [List.modify_zero_cons]; exact List.Forall₂.cons (hfg _ _ hab) (by assumption)
    | succ k => simp only [List.modify_succ_cons]; exact List.Forall₂.cons hab (ih k)

theorem revAcc_forall₂ (Rel : β → γ → Prop) (add : β → β → β) (add' : γ → γ → γ)
    (hadd : ∀ x y x' y', Rel x x' → Rel y y' → Rel (add x y) (add' x' y'))
    (ps : List Int) (as : List β) (bs : List γ) (h : List.Forall₂ Rel as bs) :
    List.Forall₂ Rel (revAcc add ps as) (revAcc add' ps bs) := by
  unfold revAcc
  generalize ((List.range ps.length).zip ps).reverse = steps
  induction steps generalizing as bs with
  | nil => exact h
  | cons ip rest ih =>
    simp only [List.foldl]
    apply ih
    unfold revStep
    by_cases hneg : ip.2 < 0
    · simp only [hneg, if_true]; exact h
    · simp only [hneg, if_false]
      have hopt := getElem?_optRel h ip.1
      revert hopt
      generalize as[ip.1]? = oa
      generalize bs[ip.1]? = ob
      intro hopt
      cases hopt with
      | none => exact h
      | some hv => exact forall₂_modify (fun x y hxy => hadd _ _ _ _ hxy hv) h _

end rel

/-! ## the Spec's dof tables -/
section tables

/-- number of dofs of link `l` by its type -/
def Tw (ts : List LinkType) (l : Nat) : Nat := (ts.getD l .one).qdWidth

theorem Tw_pos (ts : List LinkType) (l : Nat) : 0 < Tw ts l := by
  unfold Tw; cases ts.getD l .one <;> simp [LinkType.qdWidth]

theorem Tw_cons (t : LinkType) (ts : List LinkType) (i : Nat) : Tw (t :: ts) (i + 1) = Tw ts i := by
  simp [Tw]

theorem foldl_qdStarts : ∀ (ts : List LinkType) (acc : List Nat) (o : Nat),
    (ts.foldl (fun (acc : List Nat × Nat) t => (acc.1 ++ [acc.2], acc.2 + t.qdWidth)) (acc, o)).1
      = acc ++ (List.range ts.length).map fun l => o + offs (Tw ts) l
  | [], acc, o => by simp
  | t :: ts, acc, o => by
    simp only [List.foldl]
    rw [foldl_qdStarts ts (acc ++ [o]) (o + t.qdWidth), List.length_cons, List.range_succ_eq_map,
      List.map_cons, List.map_map, List.append_assoc]
    congr 1
    simp only [offs, Nat.add_zero, List.singleton_append]
    congr 1
    apply List.map_congr_left
    intro l _
    simp only [Function.comp]
    rw [offs_shift]
    have h0 : Tw (t :: ts) 0 = t.qdWidth := by simp [Tw]
    have hs : (fun i => Tw (t :: ts) (i + 1)) = Tw ts := by funext i; exact Tw_cons t ts i
    rw [h0, hs]; omega

/-- `body_dofadr` -/
theorem dofAdr_getD (ts : List LinkType) (l : Nat) (hl : l < ts.length) :
    (MjD.dofAdr ts).getD l 0 = offs (Tw ts) l := by
  unfold MjD.dofAdr Sys.qdStarts
  rw [foldl_qdStarts ts [] 0, List.nil_append, List.getD_eq_getElem?_getD, List.getElem?_map,
    List.getElem?_range hl]
  simp

theorem getD_eq_getElem' {δ : Type} (l : List δ) (d : δ) (i : Nat) (h : i < l.length) : l.getD i d = l[i] := by
  rw [List.getD_eq_getElem?_getD, List.getElem?_eq_getElem h]; rfl

/-- `dof_bodyid` at flat index `(l, k)` is `l` -/
theorem dofBody_getD (ts : List LinkType) (l k : Nat) (hl : l < ts.length) (hk : k < Tw ts l) :
    (MjD.dofBody ts).getD (offs (Tw ts) l + k) 0 = l := by
  unfold MjD.dofBody
  rw [List.flatMap_def]
  set rows := (ts.zip (List.range ts.length)).map (fun ti => List.replicate ti.1.qdWidth ti.2) with hrows
  have hlen : rows.length = ts.length := by simp [hrows]
  have hrow : ∀ i, i < rows.length → rows.getD i [] = List.replicate (Tw ts i) i := by
    intro i hi
    rw [hlen] at hi
    rw [getD_eq_getElem' _ _ _ (by omega)]
    simp only [hrows, List.getElem_map, List.getElem_zip, List.getElem_range, Tw]
    rw [getD_eq_getElem' _ _ _ hi]
  rw [flatten_getD_w rows (Tw ts) (fun i hi => by rw [hrow i hi]; simp) 0 l k (by omega) hk,
    hrow l (by omega)]
  simp [List.getD_eq_getElem?_getD, List.getElem?_replicate, hk]

/-- `dof_parentid` at flat index `(l, k)`: the previous dof of the link, else the last dof of the
parent link, else −1 -/
theorem dofParent_getD (ts : List LinkType) (ps : List Int) (hps : ps.length = ts.length) (hwf : PWF ps)
    (l k : Nat) (hl : l < ts.length) (hk : k < Tw ts l) :
    (MjD.dofParent ts ps).getD (offs (Tw ts) l + k) (-1)
      = if k = 0 then
          (if ps.getD l (-1) < 0 then (-1 : Int)
           else ((offs (Tw ts) (ps.getD l (-1)).toNat + Tw ts (ps.getD l (-1)).toNat : Nat) : Int) - 1)
        else ((offs (Tw ts) l + k : Nat) : Int) - 1 := by
  unfold MjD.dofParent
  simp only
  rw [List.flatMap_def]
  set rows := (ts.zip (ps.zip (List.range ts.length))).map (fun tpi =>
    (List.range tpi.1.qdWidth).map fun k =>
      if k = 0 then
        (if tpi.2.1 < 0 then (-1 : Int)
         else (((MjD.dofAdr ts).getD tpi.2.1.toNat 0 + (ts.getD tpi.2.1.toNat .one).qdWidth : Nat) : Int) - 1)
      else (((MjD.dofAdr ts).getD tpi.2.2 0 + k : Nat) : Int) - 1) with hrows
  have hlen : rows.length = ts.length := by simp [hrows, hps]
  have hrow : ∀ i, i < rows.length → rows.getD i [] = (List.range (Tw ts i)).map fun k =>
      if k = 0 then
        (if ps.getD i (-1) < 0 then (-1 : Int)
         else (((MjD.dofAdr ts).getD (ps.getD i (-1)).toNat 0 + (ts.getD (ps.getD i (-1)).toNat .one).qdWidth : Nat) : Int) - 1)
      else (((MjD.dofAdr ts).getD i 0 + k : Nat) : Int) - 1 := by
    intro i hi
    rw [hlen] at hi
    rw [getD_eq_getElem' _ _ _ (by omega)]
    simp only [hrows, List.getElem_map, List.getElem_zip, List.getElem_range, Tw]
    rw [getD_eq_getElem' ts _ _ hi, getD_eq_getElem' ps _ _ (by omega)]
  rw [flatten_getD_w rows (Tw ts) (fun i hi => by rw [hrow i hi]; simp) (-1) l k (by omega) hk,
    hrow l (by omega)]
  rw [List.getD_eq_getElem?_getD, List.getElem?_map, List.getElem?_range hk]
  simp only [Option.map_some, Option.getD_some]
  by_cases hk0 : k = 0
  · simp only [hk0, if_true]
    by_cases hneg : ps.getD l (-1) < 0
    · simp only [hneg, if_true]
    · simp only [hneg, if_false]
      have hp := hwf l
      rw [dofAdr_getD ts _ (by omega)]
      rfl
  · simp only [hk0, if_false]
    rw [dofAdr_getD ts l hl]

theorem dofParent_length (ts : List LinkType) (ps : List Int) (hps : ps.length = ts.length) :
    (MjD.dofParent ts ps).length = offs (Tw ts) ts.length := by
  unfold MjD.dofParent
  simp only
  rw [List.flatMap_def]
  have := flatten_length_w ((ts.zip (ps.zip (List.range ts.length))).map (fun tpi =>
    (List.range tpi.1.qdWidth).map fun k =>
      if k = 0 then
        (if tpi.2.1 < 0 then (-1 : Int)
         else (((MjD.dofAdr ts).getD tpi.2.1.toNat 0 + (ts.getD tpi.2.1.toNat .one).qdWidth : Nat) : Int) - 1)
      else (((MjD.dofAdr ts).getD tpi.2.2 0 + k : Nat) : Int) - 1)) (Tw ts) (by
    intro i hi
    have hi' : i < ts.length := by simpa [hps] using hi
    rw [getD_eq_getElem' _ _ _ hi]
    simp only [List.getElem_map, List.getElem_zip, List.length_map, List.length_range, Tw]
    rw [getD_eq_getElem' ts _ _ hi'])
  rw [this]
  simp [hps]

/-- dof parents precede their children -/
theorem pwf_dofParent (ts : List LinkType) (ps : List Int) (hps : ps.length = ts.length) (hwf : PWF ps) :
    PWF (MjD.dofParent ts ps) := by
  intro i
  by_cases hi : i < (MjD.dofParent ts ps).length
  · rw [dofParent_length ts ps hps] at hi
    obtain ⟨l, k, hl, hk, rfl⟩ := flat_decomp (Tw ts) ts.length i hi
    rw [dofParent_getD ts ps hps hwf l k hl hk]
    by_cases hk0 : k = 0
    · simp only [hk0, if_true]
      by_cases hneg : ps.getD l (-1) < 0
      · simp only [hneg, if_true]; omega
      · simp only [hneg, if_false]
        have hp := hwf l
        have := offs_succ_le (Tw ts) (a := (ps.getD l (-1)).toNat) (l := l) (by omega)
        omega
    · simp only [hk0, if_false]; omega
  · rw [List.getD_eq_getElem?_getD, List.getElem?_eq_none (by omega)]
    simp only [Option.getD_none]; omega

theorem dofChain_eq_ancsFuel (dp : List Int) : ∀ (f i : Nat), MjD.dofChain dp f i = ancsFuel dp f i
  | 0, _ => rfl
  | f + 1, i => by
    simp only [MjD.dofChain, ancsFuel]
    split
    · rfl
    · rw [dofChain_eq_ancsFuel dp f]

theorem dofChain_eq_ancs (dp : List Int) (i : Nat) : MjD.dofChain dp (i + 1) i = ancs dp i :=
  dofChain_eq_ancsFuel dp (i + 1) i

end tables

/-! ## the `dof_parentid` chain of a dof visits its own link's earlier dofs and every dof of the ancestors -/
section chain

theorem chain_mem (ts : List LinkType) (ps : List Int) (hps : ps.length = ts.length) (hwf : PWF ps) :
    ∀ l, l < ts.length → ∀ r, r < Tw ts l → ∀ a s, a < ts.length → s < Tw ts a →
      (offs (Tw ts) a + s ∈ ancs (MjD.dofParent ts ps) (offs (Tw ts) l + r)
        ↔ (a = l ∧ s ≤ r) ∨ (a ≠ l ∧ a ∈ ancs ps l)) := by
  have hdp := pwf_dofParent ts ps hps hwf
  intro l
  induction l using Nat.strong_induction_on with
  | _ l ih =>
    intro hl r
    induction r with
    | zero =>
      intro hr a s ha hs
      rw [ancs_unfold hdp, dofParent_getD ts ps hps hwf l 0 hl hr, if_pos rfl, ancs_unfold hwf l]
      by_cases hneg : ps.getD l (-1) < 0
      · rw [if_pos hneg, if_pos hneg, if_pos (by omega)]
        simp only [List.mem_singleton]
        rw [flat_eq_iff (Tw ts) l 0 a s hr hs]
        constructor
        · rintro ⟨h1, h2⟩; exact Or.inl ⟨h1, by omega⟩
        · rintro (⟨h1, h2⟩ | ⟨h1, h2⟩)
          · exact ⟨h1, by omega⟩
          · exact absurd h2 h1
      · have hp := hwf l
        have hTp := Tw_pos ts (ps.getD l (-1)).toNat
        have hv0 : ¬ (((offs (Tw ts) (ps.getD l (-1)).toNat + Tw ts (ps.getD l (-1)).toNat : Nat) : Int) - 1 < 0) := by
          omega
        have hv : (((offs (Tw ts) (ps.getD l (-1)).toNat + Tw ts (ps.getD l (-1)).toNat : Nat) : Int) - 1).toNat
            = offs (Tw ts) (ps.getD l (-1)).toNat + (Tw ts (ps.getD l (-1)).toNat - 1) := by omega
        have hpl : (ps.getD l (-1)).toNat < l := by omega
        rw [if_neg hneg, if_neg hneg, if_neg hv0, hv, List.mem_cons, List.mem_cons,
          ih _ hpl (by omega) (Tw ts (ps.getD l (-1)).toNat - 1) (by omega) a s ha hs,
          flat_eq_iff (Tw ts) l 0 a s hr hs]
        generalize (ps.getD l (-1)).toNat = p at hpl hTp
        constructor
        · rintro (⟨h1, h2⟩ | ⟨h1, h2⟩ | ⟨h1, h2⟩)
          · exact Or.inl ⟨h1, by omega⟩
          · subst h1; exact Or.inr ⟨by omega, Or.inr (self_mem_ancs ps _)⟩
          · have := ancs_le hwf p a h2
            exact Or.inr ⟨by omega, Or.inr h2⟩
        · rintro (⟨h1, h2⟩ | ⟨h1, h2 | h2⟩)
          · exact Or.inl ⟨h1, by omega⟩
          · exact absurd h2 h1
          · by_cases hap : a = p
            · subst hap; exact Or.inr (Or.inl ⟨rfl, by omega⟩)
            · exact Or.inr (Or.inr ⟨hap, h2⟩)
    | succ r ihr =>
      intro hr a s ha hs
      have hv0 : ¬ (((offs (Tw ts) l + (r + 1) : Nat) : Int) - 1 < 0) := by omega
      have hv : (((offs (Tw ts) l + (r + 1) : Nat) : Int) - 1).toNat = offs (Tw ts) l + r := by omega
      rw [ancs_unfold hdp, dofParent_getD ts ps hps hwf l (r + 1) hl hr, if_neg (Nat.succ_ne_zero r),
        if_neg hv0, hv, List.mem_cons, ihr (by omega) a s ha hs, flat_eq_iff (Tw ts) l (r + 1) a s hr hs]
      constructor
      · rintro (⟨h1, h2⟩ | ⟨h1, h2⟩ | h)
        · exact Or.inl ⟨h1, by omega⟩
        · exact Or.inl ⟨h1, by omega⟩
        · exact Or.inr h
      · rintro (⟨h1, h2⟩ | h)
        · by_cases hs1 : s = r + 1
          · exact Or.inl ⟨h1, hs1⟩
          · exact Or.inr (Or.inl ⟨h1, by omega⟩)
        · exact Or.inr (Or.inr h)

end chain

/-! ## the two matrices, entry by entry -/
section main
variable {R : Type} [CommRing R]

/-- `lower i j` of `MjD.fullM` -/
def lowerE (ts : List LinkType) (ps : List Int) (crb : List (MjD.CInert R)) (cdofF : List (Motion R))
    (i j : Nat) : R :=
  if (MjD.dofChain (MjD.dofParent ts ps) (i + 1) i).contains j then
    Motion.dotF (cdofF.getD j Motion.zero)
      (MjD.CInert.mul (crb.getD ((MjD.dofBody ts).getD i 0) ⟨M3.zero, V3.zero, 0⟩) (cdofF.getD i Motion.zero))
  else 0

/-- entry `(i, j)` of `MjD.fullM` -/
def fullMEntry (ts : List LinkType) (ps : List Int) (crb : List (MjD.CInert R)) (cdofF : List (Motion R))
    (armF : List R) (i j : Nat) : R :=
  let v := if j ≤ i then lowerE ts ps crb cdofF i j else lowerE ts ps crb cdofF j i
  if i = j then v + armF.getD i 0 else v

theorem fullM_eq_tab (ts : List LinkType) (ps : List Int) (crb : List (MjD.CInert R))
    (cdofF : List (Motion R)) (armF : List R) :
    MjD.fullM ts ps crb cdofF armF
      = tab cdofF.length fun i => tab cdofF.length fun j => fullMEntry ts ps crb cdofF armF i j := rfl

/-- the row widths `w` (what the state actually has) agree with the type widths on every link up to
and including the last link that has a dof (the slicing `scan.link_types` can only run short at the
end of the dof array) -/
def WidthsOK (ts : List LinkType) (w : Nat → Nat) : Prop :=
  ∀ l, l < ts.length → 0 < w l → (∀ k, k < l → w k = Tw ts k) ∧ w l ≤ Tw ts l

theorem WidthsOK.flat {ts : List LinkType} {w : Nat → Nat} (h : WidthsOK ts w) (l r : Nat)
    (hl : l < ts.length) (hr : r < w l) : offs w l = offs (Tw ts) l ∧ r < Tw ts l := by
  obtain ⟨h1, h2⟩ := h l hl (by omega)
  exact ⟨offs_congr h1, by omega⟩

theorem sameInertia_add {x y : Inertia R} {x' y' : MjD.CInert R} (hx : SameInertia x x')
    (hy : SameInertia y y') : SameInertia (inertiaAdd x y) (MjD.CInert.add x' y') := by
  obtain ⟨a1, a2, a3⟩ := hx
  obtain ⟨b1, b2, b3⟩ := hy
  refine ⟨?_, ?_, ?_⟩
  · simp only [inertiaAdd, MjD.CInert.add, a1, b1]
  · simp only [inertiaAdd, MjD.CInert.add, a2, b2]
  · simp only [inertiaAdd, MjD.CInert.add, a3, b3]

/-- **the composite inertias agree**: brax's `crb` (sum of `Inertia` leaves) and MuJoCo's (sum of
the 10 numbers) describe the same form, link by link -/
theorem crb_same (ps : List Int) (cinr : List (Inertia R)) (cinert : List (MjD.CInert R))
    (hI : List.Forall₂ SameInertia cinr cinert) :
    List.Forall₂ SameInertia (crb ps cinr) (revAcc MjD.CInert.add ps cinert) :=
  revAcc_forall₂ SameInertia inertiaAdd MjD.CInert.add
    (fun _ _ _ _ hx hy => sameInertia_add hx hy) ps cinr cinert hI

theorem forall₂_length {β γ : Type} {P : β → γ → Prop} {l : List β} {l' : List γ}
    (h : List.Forall₂ P l l') : l.length = l'.length := by
  induction h with
  | nil => rfl
  | cons _ _ ih => simp [ih]

theorem massOff_low (ps : List Int) (C : List (Inertia R)) (cdof : List (List (Motion R)))
    (l r a s : Nat) (h : a < l ∨ (a = l ∧ s ≤ r)) :
    massOff ps C cdof l r a s
      = if (ancs ps l).contains a then mxRaw (C.getD l dI) (cAt cdof l r) (cAt cdof a s) else 0 := by
  unfold massOff
  simp only [h, if_true]

theorem massOff_high (ps : List Int) (C : List (Inertia R)) (cdof : List (List (Motion R)))
    (l r a s : Nat) (h : ¬ (a < l ∨ (a = l ∧ s ≤ r))) :
    massOff ps C cdof l r a s
      = if (ancs ps a).contains l then mxRaw (C.getD a dI) (cAt cdof a s) (cAt cdof l r) else 0 := by
  unfold massOff
  simp only [h, if_false]

/-- the lower-triangle entry of the Spec at flat indices `(l, r)`, `(a, s)` is the model's masked
raw product -/
theorem lowerE_eq (ts : List LinkType) (ps : List Int) (cinr : List (Inertia R))
    (cinert : List (MjD.CInert R)) (cdof : List (List (Motion R)))
    (hps : ps.length = cdof.length) (hts : ts.length = cdof.length) (hcinr : cinr.length = cdof.length)
    (hwf : PWF ps) (hI : List.Forall₂ SameInertia cinr cinert) (hW : WidthsOK ts (wAt cdof))
    (l r a s : Nat) (hl : l < cdof.length) (hr : r < wAt cdof l) (ha : a < cdof.length)
    (hs : s < wAt cdof a) (hlow : a < l ∨ (a = l ∧ s ≤ r)) :
    lowerE ts ps (revAcc MjD.CInert.add ps cinert) cdof.flatten
        (offs (wAt cdof) l + r) (offs (wAt cdof) a + s)
      = if (ancs ps l).contains a then
          mxRaw ((crb ps cinr).getD l dI) (cAt cdof l r) (cAt cdof a s) else 0 := by
  unfold lowerE
  rw [dofChain_eq_ancs]
  obtain ⟨hol, hrT⟩ := hW.flat l r (by omega) hr
  obtain ⟨hoa, hsT⟩ := hW.flat a s (by omega) hs
  have hmem := chain_mem ts ps (by omega) hwf l (by omega) r hrT a s (by omega) hsT
  have hcont : (ancs (MjD.dofParent ts ps) (offs (wAt cdof) l + r)).contains (offs (wAt cdof) a + s)
      = (ancs ps l).contains a := by
    rw [hol, hoa, Bool.eq_iff_iff]
    simp only [List.contains_iff_mem]
    rw [hmem]
    constructor
    · rintro (⟨h1, _⟩ | ⟨_, h2⟩)
      · rw [h1]; exact self_mem_ancs ps l
      · exact h2
    · intro h
      rcases hlow with h1 | ⟨h1, h2⟩
      · exact Or.inr ⟨by omega, h⟩
      · exact Or.inl ⟨h1, h2⟩
  rw [hcont]
  by_cases hc : (ancs ps l).contains a = true
  · rw [if_pos hc, if_pos hc]
    have hcl : cdof.flatten.getD (offs (wAt cdof) l + r) Motion.zero = cAt cdof l r :=
      flatten_getD_w cdof (wAt cdof) (fun _ _ => rfl) Motion.zero l r hl hr
    have hca : cdof.flatten.getD (offs (wAt cdof) a + s) Motion.zero = cAt cdof a s :=
      flatten_getD_w cdof (wAt cdof) (fun _ _ => rfl) Motion.zero a s ha hs
    have hdb : (MjD.dofBody ts).getD (offs (wAt cdof) l + r) 0 = l := by
      rw [hol]; exact dofBody_getD ts l r (by omega) hrT
    rw [hcl, hca, hdb]
    have hF := crb_same ps cinr cinert hI
    have hlen1 : (crb ps cinr).length = cdof.length := by unfold crb; rw [revAcc_length, hcinr]
    have hlen2 : (revAcc MjD.CInert.add ps cinert).length = cdof.length := by
      rw [← forall₂_length hF, hlen1]
    have hsame := forall₂_getElem hF l (by omega) (by omega)
    rw [getD_eq_getElem' _ _ l (by omega), getD_eq_getElem' _ _ l (by omega)]
    unfold mxRaw
    rw [hsame.mul]
  · rw [if_neg hc, if_neg hc]

/-- **entry by entry**: `massEntry` at `(l, r)`, `(a, s)` is `fullM` at the flat indices -/
theorem massEntry_eq_fullMEntry (ts : List LinkType) (ps : List Int) (cinr : List (Inertia R))
    (cinert : List (MjD.CInert R)) (cdof : List (List (Motion R))) (arm : List (List R)) (armF : List R)
    (hps : ps.length = cdof.length) (hts : ts.length = cdof.length) (hcinr : cinr.length = cdof.length)
    (hwf : PWF ps) (hI : List.Forall₂ SameInertia cinr cinert) (hW : WidthsOK ts (wAt cdof))
    (harm : ∀ l r, l < cdof.length → r < wAt cdof l → armAt arm l r = armF.getD (offs (wAt cdof) l + r) 0)
    (l r a s : Nat) (hl : l < cdof.length) (hr : r < wAt cdof l) (ha : a < cdof.length)
    (hs : s < wAt cdof a) :
    massEntry ps (crb ps cinr) cdof arm l r a s
      = fullMEntry ts ps (revAcc MjD.CInert.add ps cinert) cdof.flatten armF
          (offs (wAt cdof) l + r) (offs (wAt cdof) a + s) := by
  rw [massEntry_eq]
  unfold fullMEntry
  simp only
  have hle := flat_le_iff (wAt cdof) l r a s hr hs
  have heq := flat_eq_iff (wAt cdof) a s l r hs hr
  by_cases hlow : a < l ∨ (a = l ∧ s ≤ r)
  · rw [if_pos (hle.mpr hlow), massOff_low ps _ cdof l r a s hlow,
      lowerE_eq ts ps cinr cinert cdof hps hts hcinr hwf hI hW l r a s hl hr ha hs hlow]
    by_cases hd : a = l ∧ s = r
    · rw [if_pos hd, if_pos (heq.mpr ⟨hd.1.symm, hd.2.symm⟩), harm l r hl hr]
    · rw [if_neg hd, if_neg (fun h => hd ⟨(heq.mp h).1.symm, (heq.mp h).2.symm⟩), add_zero]
  · have hlow' : l < a ∨ (l = a ∧ r ≤ s) := by omega
    have hd : ¬ (a = l ∧ s = r) := fun h => hlow (Or.inr ⟨h.1, by omega⟩)
    rw [if_neg (fun h => hlow (hle.mp h)), massOff_high ps _ cdof l r a s hlow,
      lowerE_eq ts ps cinr cinert cdof hps hts hcinr hwf hI hW a s l r ha hs hl hr hlow',
      if_neg hd, if_neg (fun h => hd ⟨(heq.mp h).1.symm, (heq.mp h).2.symm⟩), add_zero]

/-- **`mass.matrix` equals MuJoCo's `mj_crb` + armature (dense `fullM`), as lists of rows** — for
every forest whose parents precede their children, every `cdof`, every pair of link-inertia lists
describing the same forms, every armature. -/
theorem massMatrix_eq_fullM (ts : List LinkType) (ps : List Int) (cinr : List (Inertia R))
    (cinert : List (MjD.CInert R)) (cdof : List (List (Motion R))) (arm : List (List R)) (armF : List R)
    (hps : ps.length = cdof.length) (hts : ts.length = cdof.length) (hcinr : cinr.length = cdof.length)
    (hwf : PWF ps) (hI : List.Forall₂ SameInertia cinr cinert) (hW : WidthsOK ts (wAt cdof))
    (harm : ∀ l r, l < cdof.length → r < wAt cdof l → armAt arm l r = armF.getD (offs (wAt cdof) l + r) 0) :
    massMatrix ps cinr cdof arm
      = MjD.fullM ts ps (revAcc MjD.CInert.add ps cinert) cdof.flatten armF := by
  have hM : massMatrix ps cinr cdof arm
      = (dofIdx cdof.length (wAt cdof)).map fun lr => (dofIdx cdof.length (wAt cdof)).map fun as =>
          massEntry ps (crb ps cinr) cdof arm lr.1 lr.2 as.1 as.2 := rfl
  have hnv : cdof.flatten.length = offs (wAt cdof) cdof.length :=
    flatten_length_w cdof (wAt cdof) (fun _ _ => rfl)
  rw [hM, fullM_eq_tab, hnv]
  unfold tab
  rw [← map_flat_dofIdx (wAt cdof) cdof.length, List.map_map]
  apply List.map_congr_left
  intro lr hlr
  simp only [Function.comp]
  rw [List.map_map]
  apply List.map_congr_left
  intro as has
  obtain ⟨l, r⟩ := lr
  obtain ⟨a, s⟩ := as
  rw [mem_dofIdx] at hlr has
  exact massEntry_eq_fullMEntry ts ps cinr cinert cdof arm armF hps hts hcinr hwf hI hW harm
    l r a s hlr.1 hlr.2 has.1 has.2

end main

/-! ## what the per-link slicing guarantees about the row widths and the armature -/
section slicing
variable {α : Type}

/-- number of dofs the slicing gave link `l` -/
def dlen (ins : List (LinkIn α)) (l : Nat) : Nat := (ins.map fun x => x.dofs.length).getD l 0

theorem dlen_pos_ds (ts : List LinkType) (q qd : List α) (ds : List (DofP α)) (l : Nat)
    (h : 0 < dlen (linkSlices ts q qd ds) l) : 0 < ds.length := by
  unfold dlen at h
  rw [List.getD_eq_getElem?_getD, List.getElem?_map] at h
  cases hx : (linkSlices ts q qd ds)[l]? with
  | none => rw [hx] at h; simp at h
  | some x =>
    rw [hx] at h
    simp only [Option.map_some, Option.getD_some] at h
    obtain ⟨d, hd⟩ := List.exists_mem_of_length_pos h
    exact List.length_pos_of_mem (linkSlices_dofs_mem ts q qd ds x (List.mem_of_getElem? hx) d hd)

/-- the slicing can only run short at the end of the dof array -/
theorem linkSlices_widthsOK : ∀ (ts : List LinkType) (q qd : List α) (ds : List (DofP α)),
    WidthsOK ts (dlen (linkSlices ts q qd ds))
  | [], _, _, _ => by intro l hl; simp at hl
  | t :: ts, q, qd, ds => by
    intro l hl hpos
    have ih := linkSlices_widthsOK ts (q.drop t.qWidth) (qd.drop t.qdWidth) (ds.drop t.qdWidth)
    have h0 : dlen (linkSlices (t :: ts) q qd ds) 0 = (ds.take t.qdWidth).length := by
      simp [dlen, linkSlices]
    have hsucc : ∀ k, dlen (linkSlices (t :: ts) q qd ds) (k + 1)
        = dlen (linkSlices ts (q.drop t.qWidth) (qd.drop t.qdWidth) (ds.drop t.qdWidth)) k := by
      intro k; simp [dlen, linkSlices]
    have hT0 : Tw (t :: ts) 0 = t.qdWidth := by simp [Tw]
    cases l with
    | zero =>
      refine ⟨fun k hk => absurd hk (Nat.not_lt_zero k), ?_⟩
      rw [h0, hT0, List.length_take]; omega
    | succ l =>
      rw [hsucc] at hpos
      obtain ⟨h1, h2⟩ := ih l (by simpa using hl) hpos
      have hds := dlen_pos_ds ts _ _ _ l hpos
      rw [List.length_drop] at hds
      refine ⟨fun k hk => ?_, ?_⟩
      · cases k with
        | zero => rw [h0, hT0, List.length_take]; omega
        | succ k => rw [hsucc, Tw_cons]; exact h1 k (by omega)
      · rw [hsucc, Tw_cons]; exact h2

theorem WidthsOK.congr {ts : List LinkType} {w w' : Nat → Nat} (h : WidthsOK ts w)
    (he : ∀ l, l < ts.length → w' l = w l) : WidthsOK ts w' := by
  intro l hl hpos
  rw [he l hl] at hpos ⊢
  obtain ⟨h1, h2⟩ := h l hl hpos
  exact ⟨fun k hk => by rw [he k (by omega)]; exact h1 k hk, h2⟩

/-- the dof slices partition the first `nv` entries of the per-dof array -/
theorem linkSlices_dofs_flatten (ts : List LinkType) (q qd : List α) (ds : List (DofP α)) :
    ((linkSlices ts q qd ds).map (·.dofs)).flatten = ds.take ((ts.map LinkType.qdWidth).sum) := by
  induction ts generalizing q qd ds with
  | nil => simp [linkSlices]
  | cons t ts ih =>
    simp only [linkSlices, List.map_cons, List.flatten_cons, ih, List.sum_cons]
    rw [List.take_add]

/-- the nested armature (as `pipeline.init` slices it) read at `(l, r)` is the flat `dof.armature`
at the flat index -/
theorem armAt_flat [Zero α] (ts : List LinkType) (q qd : List α) (ds : List (DofP α)) (w : Nat → Nat)
    (hw : ∀ l, l < ts.length → w l = dlen (linkSlices ts q qd ds) l) (l r : Nat)
    (hl : l < ts.length) (hr : r < w l) :
    ((((linkSlices ts q qd ds).map fun x => x.dofs.map (·.armature)).getD l []).getD r 0 : α)
      = (ds.map (·.armature)).getD (offs w l + r) 0 := by
  set arm : List (List α) := (linkSlices ts q qd ds).map fun x => x.dofs.map (·.armature) with harm
  have hlen : arm.length = ts.length := by rw [harm, List.length_map, linkSlices_length]
  have hrow : ∀ i, i < arm.length → (arm.getD i []).length = w i := by
    intro i hi
    rw [hlen] at hi
    rw [hw i hi]
    unfold dlen
    have hi' : i < (linkSlices ts q qd ds).length := by rw [linkSlices_length]; exact hi
    rw [getD_eq_getElem' _ _ _ (by omega), getD_eq_getElem' _ _ _ (by simpa using hi')]
    simp [harm]
  rw [← flatten_getD_w arm w hrow 0 l r (by omega) hr]
  have hflat : arm.flatten = (ds.map (·.armature)).take ((ts.map LinkType.qdWidth).sum) := by
    rw [harm, ← List.map_take, ← linkSlices_dofs_flatten ts q qd ds, List.map_flatten, List.map_map]
    rfl
  have hlt : offs w l + r < arm.flatten.length := by
    rw [flatten_length_w arm w hrow, hlen]
    have := offs_succ_le w (a := l) (l := ts.length) hl
    omega
  rw [List.getD_eq_getElem?_getD, List.getD_eq_getElem?_getD]
  rw [hflat] at hlt ⊢
  rw [List.length_take] at hlt
  rw [List.getElem?_take, if_pos (by omega)]

end slicing

/-! ## the rows `transform_com` produces -/

theorem cdofLink_length (l : LinkIn ℝ) (j : Tf ℝ) (c : V3 ℝ)
    (h : l.typ ≠ .free → l.q.length = l.dofs.length) : (cdofLink l j c).length = l.dofs.length := by
  unfold cdofLink cdofLocal
  cases ht : l.typ with
  | free => simp
  | one | two | three =>
    have := h (by rw [ht]; simp)
    simp [cdofStack_length, this]

/-- link `l` has as many `cdof` rows as the slicing gave it dofs -/
theorem transformCom_widths (s : Sys ℝ) (x : List (Tf ℝ)) (q qd : List ℝ)
    (hps : s.parents.length = s.types.length)
    (hlk : s.links.length = s.types.length)
    (hq : ∀ l ∈ linkSlices s.types q qd s.dofs, l.typ ≠ .free → l.q.length = l.dofs.length) :
    ∀ l, l < s.types.length →
      wAt (transformCom s x q qd).cdof l = dlen (linkSlices s.types q qd s.dofs) l := by
  intro l hl
  have hcdof : (transformCom s x q qd).cdof
      = List.zipWith (fun (li : LinkIn ℝ) (jc : Tf ℝ × V3 ℝ) => cdofLink li jc.1 jc.2)
        (linkSlices s.types q qd s.dofs)
        ((jointFrames s x).zip (rootCom s.parents (s.links.map (·.inertia.mass))
          (List.zipWith (fun (t : Tf ℝ) (lk : LinkP ℝ) => Tf.doTf t lk.inertia.tf) x s.links))) := rfl
  have hl1 : l < (linkSlices s.types q qd s.dofs).length := by rw [linkSlices_length]; exact hl
  have hl2 : l < ((jointFrames s x).zip (rootCom s.parents (s.links.map (·.inertia.mass))
      (List.zipWith (fun (t : Tf ℝ) (lk : LinkP ℝ) => Tf.doTf t lk.inertia.tf) x s.links))).length := by
    rw [List.length_zip, jointFrames_length s x hps hlk, rootCom_length, hps]; omega
  unfold wAt dlen
  rw [hcdof, getD_zipWith _ _ _ [] l hl1 hl2,
    cdofLink_length _ _ _ (hq _ (List.getElem_mem hl1)),
    getD_eq_getElem' _ _ _ (by simpa using hl1)]
  simp

end Brax.Gd
