import Brax.Lemmas.C04Init
/-!
# C08 for whole forests: `inverse ∘ world_to_joint ∘ forward` link by link, for EVERY `qd`

`Lemmas/C04Init.lean` lifted C08's per-link theorems to whole trees for states at rest (`qd = 0`).
Here the same is done for arbitrary joint velocities:

Part A (`forward_link`): `Kin.forward s q qd` over the whole tree, link by link: every world
quaternion is unit and the value at link `i` **is** C08's per-link
`Inv.fwdLink (value at parent i) (link i) (slice i)` — strong induction along `Kin.scanFwd_getElem`.

Part B (`w2j_link`): `Kin.worldToJoint` of that pose is, at every link, C08's `Inv.w2jLink` of the
parent's value (identity / zero for a root) and the link's own — exactly the expression C08's
per-link theorems speak about, with `parent := the scanned value of the parent`.

Part C (`inverseLink_fwdKind`): per link, `q_fn` of `kinematics.inverse` returns the link's slice of
`q`, and the link's slice of `qd` for single hinges (any parent) and for every link except stacked
hinges when the parent frame does not rotate (all roots).

Part D (`inverse_forward`): the `mapM`/`flatMap` assembly of `Inv.inverse`.

Part E: what `Spring.step` / `Positional.step` report.
-/
set_option linter.unusedSectionVars false
set_option linter.unusedSimpArgs false
set_option linter.unusedVariables false
namespace Brax.C08F
open Brax MC Kin C04L C04I

/-! ## A. `forward s q qd`, link by link -/

/-- the per-link inputs of `forward s q qd` -/
noncomputable def insV (s : Sys ℝ) (q qd : List ℝ) : List (LinkIn ℝ) :=
  linkSlices s.types q qd s.dofs

/-- the raw (not yet normalised) tree scan of `forward s q qd` -/
noncomputable def rawV (s : Sys ℝ) (q qd : List ℝ) : List (Tf ℝ × Motion ℝ) :=
  scanFwd world s.parents ((s.links.zip (insV s q qd)).map linkArg)

theorem insV_length (s : Sys ℝ) (q qd : List ℝ) : (insV s q qd).length = s.types.length :=
  linkSlices_length _ _ _ _

theorem argsV_length (s : Sys ℝ) (q qd : List ℝ) (h : TreeOK s) :
    ((s.links.zip (insV s q qd)).map linkArg).length = s.types.length := by
  simp [insV_length, h.hlinks]

theorem rawV_length (s : Sys ℝ) (q qd : List ℝ) (h : TreeOK s) :
    (rawV s q qd).length = s.types.length := by
  unfold rawV
  rw [scanFwd_length, argsV_length s q qd h, h.hpar, Nat.min_self]

/-- **the raw scan, link by link**: unit quaternion and the recursion it satisfies (any `qd`) -/
theorem rawV_spec (s : Sys ℝ) (q qd : List ℝ) (h : TreeOK s)
    (hj : ∀ l ∈ insV s q qd, Q4.normSq (jcalc l).1.rot = 1) :
    ∀ i, i < s.types.length → ∃ r lk l, (rawV s q qd)[i]? = some r ∧ s.links[i]? = some lk
      ∧ (insV s q qd)[i]? = some l ∧ r = world (parentVal s (rawV s q qd) i) (linkArg (lk, l))
      ∧ Q4.normSq r.1.rot = 1 := by
  intro i
  induction i using Nat.strongRecOn with
  | _ i ih =>
    intro hi
    have hlenA := argsV_length s q qd h
    have hi' : i < s.parents.length := by rw [h.hpar]; exact hi
    have hiL : i < s.links.length := by rw [h.hlinks]; exact hi
    have hiI : i < (insV s q qd).length := by rw [insV_length]; exact hi
    have hspec := scanFwd_getElem world s.parents ((s.links.zip (insV s q qd)).map linkArg)
      (by rw [h.hpar, hlenA]) h.hwf i hi'
    have hargs : ((s.links.zip (insV s q qd)).map linkArg)[i]'(by rw [hlenA]; exact hi)
        = linkArg (s.links[i], (insV s q qd)[i]) := by
      simp only [List.getElem_map, List.getElem_zip]
    have hpv : parentVal s (rawV s q qd) i
        = (if s.parents[i] < 0 then none else (rawV s q qd)[s.parents[i].toNat]?) := by
      unfold parentVal
      rw [List.getD_eq_getElem?_getD, List.getElem?_eq_getElem hi', Option.getD_some]
    rw [hargs] at hspec
    refine ⟨_, s.links[i], (insV s q qd)[i], hspec, List.getElem?_eq_getElem hiL,
      List.getElem?_eq_getElem hiI, ?_, ?_⟩
    · rw [hpv]; rfl
    · apply world_unit
      · intro p hp
        by_cases hneg : s.parents[i] < 0
        · simp [hneg] at hp
        · simp only [hneg, if_false] at hp
          have hlt : s.parents[i].toNat < i := by have := h.hwf i hi'; omega
          obtain ⟨r, _, _, hr, _, _, _, hu⟩ := ih _ hlt (by omega)
          have hr' : (rawV s q qd)[s.parents[i].toNat]? = some r := hr
          unfold rawV at hr'
          rw [hr'] at hp
          cases hp; exact hu
      · exact (h.hlk _ (List.getElem_mem hiL)).1
      · exact hj _ (List.getElem_mem hiI)

/-- with unit quaternions everywhere, the final normalisation of `forward` is the identity -/
theorem forward_eq_rawV (s : Sys ℝ) (q qd : List ℝ) (h : TreeOK s)
    (hj : ∀ l ∈ insV s q qd, Q4.normSq (jcalc l).1.rot = 1) :
    forward s q qd = rawV s q qd := by
  rw [forward_eq]
  show (rawV s q qd).map _ = rawV s q qd
  conv_rhs => rw [← List.map_id (rawV s q qd)]
  apply List.map_congr_left
  intro x hx
  obtain ⟨i, hi, rfl⟩ := List.mem_iff_getElem.mp hx
  obtain ⟨r, _, _, hr, _, _, _, hu⟩ := rawV_spec s q qd h hj i (by rw [← rawV_length s q qd h]; exact hi)
  rw [List.getElem?_eq_getElem hi] at hr
  cases hr
  simp only [id]
  rw [Inv.normalize4_unit _ hu]

theorem forward_lengthV (s : Sys ℝ) (q qd : List ℝ) (h : TreeOK s)
    (hj : ∀ l ∈ insV s q qd, Q4.normSq (jcalc l).1.rot = 1) :
    (forward s q qd).length = s.types.length := by
  rw [forward_eq_rawV s q qd h hj, rawV_length s q qd h]

/-- **`forward s q qd`, link by link** (Part A): for every link `i` the world pose has a unit
quaternion and the pose/motion pair is C08's `Inv.fwdLink` of the value at the parent (`none` for a
root), the link parameters and the link's slice of `(q, qd, dofs)` -/
theorem forward_link (s : Sys ℝ) (q qd : List ℝ) (h : TreeOK s)
    (hj : ∀ l ∈ insV s q qd, Q4.normSq (jcalc l).1.rot = 1) :
    ∀ i, i < s.types.length → ∃ r lk l,
      (forward s q qd)[i]? = some r ∧ s.links[i]? = some lk
      ∧ (insV s q qd)[i]? = some l ∧ Q4.normSq r.1.rot = 1
      ∧ r = Inv.fwdLink (parentVal s (forward s q qd) i) lk l := by
  intro i hi
  rw [forward_eq_rawV s q qd h hj]
  obtain ⟨r, lk, l, hr, hlk, hl, hrec, hu⟩ := rawV_spec s q qd h hj i hi
  refine ⟨r, lk, l, hr, hlk, hl, hu, ?_⟩
  have : Inv.fwdLink (parentVal s (rawV s q qd) i) lk l
      = (⟨(world (parentVal s (rawV s q qd) i) (linkArg (lk, l))).1.pos,
          normalize4 (world (parentVal s (rawV s q qd) i) (linkArg (lk, l))).1.rot⟩,
         (world (parentVal s (rawV s q qd) i) (linkArg (lk, l))).2) := rfl
  rw [this, ← hrec, Inv.normalize4_unit _ hu]

/-- the parent of every link is the identity root frame or an earlier link: unit quaternion -/
theorem parent_unit (s : Sys ℝ) (q qd : List ℝ) (h : TreeOK s)
    (hj : ∀ l ∈ insV s q qd, Q4.normSq (jcalc l).1.rot = 1) (i : Nat) (hi : i < s.types.length) :
    Q4.normSq (Inv.parentOr (parentVal s (forward s q qd) i)).1.rot = 1 := by
  have hi' : i < s.parents.length := by rw [h.hpar]; exact hi
  unfold parentVal
  rw [List.getD_eq_getElem?_getD, List.getElem?_eq_getElem hi', Option.getD_some]
  by_cases hneg : s.parents[i] < 0
  · simp only [hneg, if_true, Inv.parentOr, Option.getD_none]
    simp [Tf.id, Q4.one, Q4.normSq]
  · simp only [hneg, if_false]
    have hlt : s.parents[i].toNat < i := by have := h.hwf i hi'; omega
    obtain ⟨r, _, _, hx, _, _, hu, _⟩ := forward_link s q qd h hj _ (show s.parents[i].toNat < _ by omega)
    rw [hx]
    exact hu

/-- a root's parent frame is the identity at rest -/
theorem parent_root (s : Sys ℝ) (xs : List (Tf ℝ × Motion ℝ)) (i : Nat)
    (hroot : s.parents.getD i (-1) < 0) :
    Inv.parentOr (parentVal s xs i) = (Tf.id, Motion.zero) := by
  unfold parentVal
  rw [if_pos hroot]
  rfl

/-! ## B. `world_to_joint` of `forward s q qd`, link by link -/

/-- the world pose / motion lists of `forward s q qd` (= `pipeline.init(sys, q, qd).x / .xd`) -/
noncomputable def fwdX (s : Sys ℝ) (q qd : List ℝ) : List (Tf ℝ) := (forward s q qd).map (·.1)
noncomputable def fwdXd (s : Sys ℝ) (q qd : List ℝ) : List (Motion ℝ) := (forward s q qd).map (·.2)

/-- `world_to_joint(forward(q, qd))` -/
noncomputable def fwdW (s : Sys ℝ) (q qd : List ℝ) : List (Tf ℝ × Motion ℝ × Tf ℝ × Tf ℝ) :=
  worldToJoint s (fwdX s q qd) (fwdXd s q qd)

/-- **`world_to_joint(forward(q, qd))`, link by link** (Part B): one row per link, which is C08's
per-link body `Inv.w2jLink` applied to the (scanned) value of the parent — identity at rest for a
root — and to `Inv.fwdLink` of that parent value: exactly the expression of C08's per-link
theorems, with a unit parent quaternion. -/
theorem w2j_link (s : Sys ℝ) (q qd : List ℝ) (h : TreeOK s)
    (hj : ∀ l ∈ insV s q qd, Q4.normSq (jcalc l).1.rot = 1) :
    (fwdW s q qd).length = s.types.length
    ∧ ∀ i, i < s.types.length → ∃ lk l, s.links[i]? = some lk ∧ (insV s q qd)[i]? = some l
        ∧ Q4.normSq (Inv.parentOr (parentVal s (forward s q qd) i)).1.rot = 1
        ∧ (fwdW s q qd)[i]? = some
            (Inv.w2jLink lk (Inv.parentOr (parentVal s (forward s q qd) i)).1
              (Inv.parentOr (parentVal s (forward s q qd) i)).2
              (Inv.fwdLink (parentVal s (forward s q qd) i) lk l).1
              (Inv.fwdLink (parentVal s (forward s q qd) i) lk l).2) := by
  have hFlen := forward_lengthV s q qd h hj
  unfold fwdW
  set F := forward s q qd with hF
  have hXlen : (fwdX s q qd).length = s.types.length := by simp [fwdX, ← hF, hFlen]
  have hXdlen : (fwdXd s q qd).length = s.types.length := by simp [fwdXd, ← hF, hFlen]
  let f : Nat → Tf ℝ × Motion ℝ × Tf ℝ × Tf ℝ := fun i =>
    Inv.w2jLink (nth s.links i) (takeParent (fwdX s q qd) Tf.id (s.parents.getD i (-1)))
      (takeParent (fwdXd s q qd) Motion.zero (s.parents.getD i (-1))) (nth (fwdX s q qd) i)
      (nth (fwdXd s q qd) i)
  have hW : worldToJoint s (fwdX s q qd) (fwdXd s q qd) = (List.range s.links.length).map f := by
    rw [C08.worldToJoint_eq]
    apply filterMap_range_all
    intro i hi
    have h1 : s.links[i]? = some (nth s.links i) := by
      rw [List.getElem?_eq_getElem hi]; simp [nth, List.getD_eq_getElem?_getD, List.getElem?_eq_getElem hi]
    have hiX : i < (fwdX s q qd).length := by rw [hXlen, ← h.hlinks]; exact hi
    have hiXd : i < (fwdXd s q qd).length := by rw [hXdlen, ← h.hlinks]; exact hi
    have h2 : (fwdX s q qd)[i]? = some (nth (fwdX s q qd) i) := by
      rw [List.getElem?_eq_getElem hiX]; simp [nth, List.getD_eq_getElem?_getD, List.getElem?_eq_getElem hiX]
    have h3 : (fwdXd s q qd)[i]? = some (nth (fwdXd s q qd) i) := by
      rw [List.getElem?_eq_getElem hiXd]; simp [nth, List.getD_eq_getElem?_getD, List.getElem?_eq_getElem hiXd]
    simp only [h1, h2, h3, f]
    rfl
  refine ⟨by rw [hW]; simp [h.hlinks], ?_⟩
  intro i hi
  obtain ⟨r, lk, l, hx, hlk, hl, hu, hfw⟩ := forward_link s q qd h hj i hi
  have hpu := parent_unit s q qd h hj i hi
  rw [← hF] at hx hfw hpu
  have hiL : i < s.links.length := by rw [h.hlinks]; exact hi
  have hi' : i < s.parents.length := by rw [h.hpar]; exact hi
  have hpge : -1 ≤ s.parents.getD i (-1) := by
    rw [List.getD_eq_getElem?_getD, List.getElem?_eq_getElem hi', Option.getD_some]; exact h.hge i hi'
  have hplt : s.parents.getD i (-1) < (F.length : Int) := by
    rw [List.getD_eq_getElem?_getD, List.getElem?_eq_getElem hi', Option.getD_some, hFlen]
    have := h.hwf i hi'; omega
  have hnl : nth s.links i = lk := by
    simp [nth, List.getD_eq_getElem?_getD, hlk]
  have hnx : nth (fwdX s q qd) i = r.1 := by
    simp [nth, fwdX, ← hF, List.getD_eq_getElem?_getD, List.getElem?_map, hx]
  have hnxd : nth (fwdXd s q qd) i = r.2 := by
    simp [nth, fwdXd, ← hF, List.getD_eq_getElem?_getD, List.getElem?_map, hx]
  have htp : takeParent (fwdX s q qd) Tf.id (s.parents.getD i (-1)) = (Inv.parentOr (parentVal s F i)).1 := by
    unfold fwdX
    rw [← hF, takeParent_map F (·.1) Tf.id _ hpge hplt]
    unfold parentVal Inv.parentOr
    cases (if s.parents.getD i (-1) < 0 then none else F[(s.parents.getD i (-1)).toNat]?) <;> rfl
  have htpd : takeParent (fwdXd s q qd) Motion.zero (s.parents.getD i (-1))
      = (Inv.parentOr (parentVal s F i)).2 := by
    unfold fwdXd
    rw [← hF, takeParent_map F (·.2) Motion.zero _ hpge hplt]
    unfold parentVal Inv.parentOr
    cases (if s.parents.getD i (-1) < 0 then none else F[(s.parents.getD i (-1)).toNat]?) <;> rfl
  refine ⟨lk, l, hlk, hl, hpu, ?_⟩
  rw [hW, List.getElem?_map, List.getElem?_range hiL]
  simp only [Option.map_some]
  congr 1
  simp only [f, hnl, hnx, hnxd, htp, htpd, hfw]

/-! ## C. per link: the supported kinds, any `qd` -/

/-- a link's slice of `(q, qd, dofs)` inside C08's quantifier: a free link with a unit quaternion, a
1-dof link (`PureOne`: hinge about a unit axis at `q ∈ (−π, π]`, slide along a unit axis at `|q| ≤ 2`)
or one of the six 2- and 3-dof stack kinds (`PureStack`: hh, hhh, ss, sss, sh, ssh with orthonormal
axes, inside the chart of `axis_angle_ang`).  `qd` is arbitrary.  (The joint limits play no role
for C08: the predicates of C04 are used with `hasLimit := false`.) -/
inductive FwdKind (lq : LinkIn ℝ) : Prop
  | free (p0 p1 p2 r0 r1 r2 r3 v0 v1 v2 w0 w1 w2 : ℝ) (ds : List (DofP ℝ))
      (hlq : lq = ⟨.free, [p0, p1, p2, r0, r1, r2, r3], [v0, v1, v2, w0, w1, w2], ds⟩)
      (hu : r0 * r0 + r1 * r1 + r2 * r2 + r3 * r3 = 1) : FwdKind lq
  | one (h : PureOne false lq) : FwdKind lq
  | stack (h : PureStack false lq) : FwdKind lq

theorem pureOne_false {hl : Bool} {lq : LinkIn ℝ} (h : PureOne hl lq) : PureOne false lq := by
  cases h with
  | hinge d a q qd hlq hdm ha h1 h2 _ =>
    exact PureOne.hinge d a q qd hlq hdm ha h1 h2 (fun h => by cases h)
  | slide d e q qd hlq hdm he hq _ =>
    exact PureOne.slide d e q qd hlq hdm he hq (fun h => by cases h)

theorem pureStack_false {hl : Bool} {lq : LinkIn ℝ} (h : PureStack hl lq) : PureStack false lq := by
  cases h with
  | hh d0 d1 a0 a1 q0 q1 qd0 qd1 hlq hd0 hd1 h00 h11 h01 hq0 hq0' hq1 _ _ =>
    exact PureStack.hh d0 d1 a0 a1 q0 q1 qd0 qd1 hlq hd0 hd1 h00 h11 h01 hq0 hq0' hq1
      (fun h => by cases h) (fun h => by cases h)
  | hhh d0 d1 d2 a0 a1 a2 q0 q1 q2 qd0 qd1 qd2 hlq hd0 hd1 hd2 h00 h11 h01 h2 hq0 hq0' hq1 hq2 hq2'
      _ _ _ =>
    exact PureStack.hhh d0 d1 d2 a0 a1 a2 q0 q1 q2 qd0 qd1 qd2 hlq hd0 hd1 hd2 h00 h11 h01 h2 hq0 hq0'
      hq1 hq2 hq2' (fun h => by cases h) (fun h => by cases h) (fun h => by cases h)
  | ss d0 d1 e0 e1 q0 q1 qd0 qd1 hlq hd0 hd1 h00 h11 h01 hq0 hq1 _ _ =>
    exact PureStack.ss d0 d1 e0 e1 q0 q1 qd0 qd1 hlq hd0 hd1 h00 h11 h01 hq0 hq1
      (fun h => by cases h) (fun h => by cases h)
  | sss d0 d1 d2 e0 e1 e2 q0 q1 q2 qd0 qd1 qd2 hlq hd0 hd1 hd2 h00 h11 h22 h01 h02 h12 hq0 hq1 hq2
      _ _ _ =>
    exact PureStack.sss d0 d1 d2 e0 e1 e2 q0 q1 q2 qd0 qd1 qd2 hlq hd0 hd1 hd2 h00 h11 h22 h01 h02 h12
      hq0 hq1 hq2 (fun h => by cases h) (fun h => by cases h) (fun h => by cases h)
  | sh ds dh e a q0 q1 qd0 qd1 hlq hs hh hee haa hq0 hq1 _ _ =>
    exact PureStack.sh ds dh e a q0 q1 qd0 qd1 hlq hs hh hee haa hq0 hq1
      (fun h => by cases h) (fun h => by cases h)
  | ssh d0 d1 dh e0 e1 a q0 q1 q2 qd0 qd1 qd2 hlq h0 h1 hh h00 h11 h01 haa hq0 hq1 hq2 hq2' _ _ _ =>
    exact PureStack.ssh d0 d1 dh e0 e1 a q0 q1 q2 qd0 qd1 qd2 hlq h0 h1 hh h00 h11 h01 haa hq0 hq1
      hq2 hq2' (fun h => by cases h) (fun h => by cases h) (fun h => by cases h)

/-- the kinds of C04's rest theorems are instances (with `qd = 0`) -/
theorem FwdKind.of_restKind {hl : Bool} {lq : LinkIn ℝ} (h : RestKind hl lq) : FwdKind lq := by
  cases h with
  | free p0 p1 p2 r0 r1 r2 r3 ds hlq hu => exact FwdKind.free p0 p1 p2 r0 r1 r2 r3 0 0 0 0 0 0 ds hlq hu
  | one h => exact FwdKind.one (pureOne_false h)
  | stack h => exact FwdKind.stack (pureStack_false h)

theorem fwdKind_unit {lq : LinkIn ℝ} (h : FwdKind lq) : Q4.normSq (jcalc lq).1.rot = 1 := by
  cases h with
  | free p0 p1 p2 r0 r1 r2 r3 v0 v1 v2 w0 w1 w2 ds hlq hu =>
    subst hlq; simpa [jcalc, Q4.normSq] using hu
  | one h => exact pureOne_unit h
  | stack h => exact h.unit

/-- widths: the slice has as many velocities and dofs as `QD_WIDTHS` of its type -/
theorem fwdKind_shape {lq : LinkIn ℝ} (h : FwdKind lq) :
    lq.qd.length = lq.typ.qdWidth ∧ lq.dofs.length = lq.typ.qdWidth ∨ lq.typ = .free ∧ lq.qd.length = 6 := by
  cases h with
  | free p0 p1 p2 r0 r1 r2 r3 v0 v1 v2 w0 w1 w2 ds hlq hu => subst hlq; exact Or.inr ⟨rfl, rfl⟩
  | one h => cases h <;> (subst_vars; exact Or.inl ⟨rfl, rfl⟩)
  | stack h => cases h <;> (subst_vars; exact Or.inl ⟨rfl, rfl⟩)

theorem fwdKind_qd_length {lq : LinkIn ℝ} (h : FwdKind lq) : lq.qd.length = lq.typ.qdWidth := by
  rcases fwdKind_shape h with h | h
  · exact h.1
  · rw [h.2, h.1]; rfl

/-- **links whose velocity slice round-trips.**  `still` stands for "the parent frame does not
rotate" (`ω_parent = 0`; true of every root).  Either the link hangs on a single hinge (any parent,
moving in any way), or the parent does not rotate and the link is not a stack that begins with a
hinge (i.e. anything but hh / hhh: free, slide, ss, sss, sh, ssh). -/
inductive VelKind (still : Prop) (lq : LinkIn ℝ) : Prop
  | hinge (d : DofP ℝ) (a : V3 ℝ) (q qd : ℝ) (hlq : lq = ⟨.one, [q], [qd], [d]⟩)
      (hd : d.motion = ⟨a, ⟨0, 0, 0⟩⟩) : VelKind still lq
  | still (h : still)
      (hns : ∀ d0 d1 ds, lq.dofs = d0 :: d1 :: ds → lq.typ ≠ .free → d0.motion.ang = ⟨0, 0, 0⟩) :
      VelKind still lq

theorem linkToJointFrame_some_length (ms : List (Motion ℝ)) (r : M3 ℝ × M3 ℝ × ℝ)
    (h : Inv.linkToJointFrame ms = some r) : ms.length ≤ 3 := by
  match ms, h with
  | [_], _ => simp
  | [_, _], _ => simp
  | [_, _, _], _ => simp

/-- `x_dof` returns one position and one velocity per dof -/
theorem xDof_length (j : Tf ℝ) (jd : Motion ℝ) (p : Int) (ms : List (Motion ℝ)) (a b : List ℝ)
    (h : Inv.xDof j jd p ms = some (a, b)) : b.length = ms.length := by
  unfold Inv.xDof at h
  split at h
  · cases h
  · rename_i angF velF parity hfr
    have hle := linkToJointFrame_some_length ms _ hfr
    simp only [Option.some.injEq, Prod.mk.injEq] at h
    obtain ⟨-, rfl⟩ := h
    simp only [List.length_zipWith, List.length_zip, List.length_map, List.length_cons,
      List.length_nil]
    omega

theorem inverseLink_length (t : LinkType) (j : Tf ℝ) (jd : Motion ℝ) (p : Int)
    (ms : List (Motion ℝ)) (a b : List ℝ) (h : Inv.inverseLink t j jd p ms = some (a, b)) :
    b.length = t.qdWidth := by
  cases t with
  | free =>
    simp only [Inv.inverseLink, Inv.free, Option.some.injEq, Prod.mk.injEq] at h
    obtain ⟨-, rfl⟩ := h
    rfl
  | one | two | three =>
    simp only [Inv.inverseLink] at h
    split at h
    · rename_i hlen
      rw [xDof_length j jd p ms a b h, hlen]
    · cases h

/-- C08's per-link expression: `world_to_joint` of `forward` at one link under the parent value
`parent` (`none` = root) -/
noncomputable def wOf (parent : Option (Tf ℝ × Motion ℝ)) (lk : LinkP ℝ) (l : LinkIn ℝ) :
    Tf ℝ × Motion ℝ × Tf ℝ × Tf ℝ :=
  Inv.w2jLink lk (Inv.parentOr parent).1 (Inv.parentOr parent).2
    (Inv.fwdLink parent lk l).1 (Inv.fwdLink parent lk l).2

/-- "the parent frame does not rotate" -/
def Still (parent : Option (Tf ℝ × Motion ℝ)) : Prop := (Inv.parentOr parent).2.ang = ⟨0, 0, 0⟩

theorem still_none : Still none := rfl

theorem unit_ne_zero (a : V3 ℝ) (ha : V3.dot a a = 1) (h0 : a = ⟨0, 0, 0⟩) : False := by
  subst h0; simp [V3.dot] at ha

/-- **per link, any `qd`, any parent**: `q_fn` of `kinematics.inverse` applied to
`world_to_joint(forward(q, qd))` at this link returns the link's slice of `q`; and the link's slice
of `qd` for the `VelKind` links. -/
theorem inverseLink_fwdKind (parent : Option (Tf ℝ × Motion ℝ)) (lk : LinkP ℝ)
    (hp : Q4.normSq (Inv.parentOr parent).1.rot = 1) (hlk : Q4.normSq lk.tf.rot = 1)
    (hjr : lk.joint.rot = ⟨1, 0, 0, 0⟩) (lq : LinkIn ℝ) (h : FwdKind lq) (pidx : Int) :
    ∃ qd', Inv.inverseLink lq.typ (wOf parent lk lq).1 (wOf parent lk lq).2.1 pidx
        (lq.dofs.map (·.motion)) = some (lq.q, qd')
      ∧ (VelKind (Still parent) lq → qd' = lq.qd) := by
  unfold wOf Still
  cases h with
  | free p0 p1 p2 r0 r1 r2 r3 v0 v1 v2 w0 w1 w2 ds hlq hu =>
    subst hlq
    have hj : Q4.normSq (jcalc (⟨.free, [p0, p1, p2, r0, r1, r2, r3], [v0, v1, v2, w0, w1, w2], ds⟩ :
        LinkIn ℝ)).1.rot = 1 := by simpa [Q4.normSq, jcalc] using hu
    have h1 := C08.worldToJoint_forward_id parent lk _ hp hlk hjr hj
    set w := Inv.w2jLink lk (Inv.parentOr parent).1 (Inv.parentOr parent).2
      (Inv.fwdLink parent lk ⟨.free, [p0, p1, p2, r0, r1, r2, r3], [v0, v1, v2, w0, w1, w2], ds⟩).1
      (Inv.fwdLink parent lk ⟨.free, [p0, p1, p2, r0, r1, r2, r3], [v0, v1, v2, w0, w1, w2], ds⟩).2
      with hw
    refine ⟨(Inv.free w.1 w.2.1).2, ?_, ?_⟩
    · show some (Inv.free w.1 w.2.1) = some (_, (Inv.free w.1 w.2.1).2)
      congr 1
      refine Prod.ext ?_ rfl
      show (Inv.free w.1 w.2.1).1 = _
      simp only [Inv.free, h1]
      rfl
    · intro hv
      cases hv with
      | hinge d a q qd hlq' hd => simp at hlq'
      | still hs hns =>
        have := C08.inverse_free parent lk hp hs hlk hjr p0 p1 p2 r0 r1 r2 r3 v0 v1 v2 w0 w1 w2 hu ds pidx
        simp only [Inv.inverseLink, Option.some.injEq] at this
        rw [this]
  | one h =>
    cases h with
    | hinge d a q qd hlq hdm ha h1 h2 hl =>
      subst hlq
      exact ⟨[qd], C08.inverse_one_hinge parent lk hp hlk hjr d (by rw [hdm]; exact ha) (by rw [hdm])
        q qd h1 h2 pidx, fun _ => rfl⟩
    | slide d e q qd hlq hdm he hq hl =>
      subst hlq
      obtain ⟨qd', hx, hv⟩ := C08.inverse_slide_stack1 parent lk hp hlk hjr d e hdm he q qd hq pidx
      refine ⟨qd', hx, ?_⟩
      intro hk
      cases hk with
      | hinge d' a q' qd'' hlq' hd =>
        exfalso
        simp only [LinkIn.mk.injEq, List.cons.injEq, and_true, true_and] at hlq'
        obtain ⟨-, -, rfl⟩ := hlq'
        rw [hdm] at hd
        simp only [Motion.mk.injEq] at hd
        exact unit_ne_zero e he hd.2
      | still hs hns => exact hv hs
  | stack h =>
    cases h with
    | hh d0 d1 a0 a1 q0 q1 qd0 qd1 hlq hd0 hd1 h00 h11 h01 hq0 hq0' hq1 hl0 hl1 =>
      subst hlq
      obtain ⟨qd', hx⟩ := C08.inverse_two_hinges parent lk hp hlk hjr d0 d1 a0 a1
        hd0 hd1 h00 h11 h01 q0 q1 qd0 qd1 hq0 hq0' hq1 pidx
      refine ⟨qd', hx, ?_⟩
      intro hk
      exfalso
      cases hk with
      | hinge d' a q' qd'' hlq' hd => simp at hlq'
      | still hs hns =>
        have := hns d0 d1 [] rfl (by simp)
        rw [hd0] at this
        exact unit_ne_zero a0 h00 this
    | hhh d0 d1 d2 a0 a1 a2 q0 q1 q2 qd0 qd1 qd2 hlq hd0 hd1 hd2 h00 h11 h01 h2 hq0 hq0' hq1 hq2 hq2'
        hl0 hl1 hl2 =>
      subst hlq
      obtain ⟨qd', hx⟩ := C08.inverse_three_hinges parent lk hp hlk hjr d0 d1 d2
        a0 a1 a2 hd0 hd1 hd2 h00 h11 h01 h2 q0 q1 q2 qd0 qd1 qd2 hq0 hq0' hq1 hq2 hq2' pidx
      refine ⟨qd', hx, ?_⟩
      intro hk
      exfalso
      cases hk with
      | hinge d' a q' qd'' hlq' hd => simp at hlq'
      | still hs hns =>
        have := hns d0 d1 [d2] rfl (by simp)
        rw [hd0] at this
        exact unit_ne_zero a0 h00 this
    | ss d0 d1 e0 e1 q0 q1 qd0 qd1 hlq hd0 hd1 h00 h11 h01 hq0 hq1 hl0 hl1 =>
      subst hlq
      obtain ⟨qd', hx, hv⟩ := C08.inverse_slide_stack2 parent lk hp hlk hjr d0 d1
        e0 e1 hd0 hd1 h00 h11 h01 q0 q1 qd0 qd1 hq0 hq1 pidx
      refine ⟨qd', hx, ?_⟩
      intro hk
      cases hk with
      | hinge d' a q' qd'' hlq' hd => simp at hlq'
      | still hs hns => exact hv hs
    | sss d0 d1 d2 e0 e1 e2 q0 q1 q2 qd0 qd1 qd2 hlq hd0 hd1 hd2 h00 h11 h22 h01 h02 h12 hq0 hq1 hq2
        hl0 hl1 hl2 =>
      subst hlq
      obtain ⟨qd', hx, hv⟩ := C08.inverse_slide_stack3 parent lk hp hlk hjr d0 d1 d2
        e0 e1 e2 hd0 hd1 hd2 h00 h11 h22 h01 h02 h12 q0 q1 q2 qd0 qd1 qd2 hq0 hq1 hq2 pidx
      refine ⟨qd', hx, ?_⟩
      intro hk
      cases hk with
      | hinge d' a q' qd'' hlq' hd => simp at hlq'
      | still hs hns => exact hv hs
    | sh ds dh e a q0 q1 qd0 qd1 hlq hs hh hee haa hq0 hq1 hl0 hl1 =>
      subst hlq
      obtain ⟨v, hx, hv⟩ := C08.inverse_slide_then_hinge parent lk hp hlk hjr ds dh
        a e hs hh haa hee q0 q1 qd0 qd1 hq0 hq1 pidx
      refine ⟨[v, qd1], hx, ?_⟩
      intro hk
      cases hk with
      | hinge d' a q' qd'' hlq' hd => simp at hlq'
      | still hst hns => rw [hv hst]
    | ssh d0 d1 dh e0 e1 a q0 q1 q2 qd0 qd1 qd2 hlq h0 h1 hh h00 h11 h01 haa hq0 hq1 hq2 hq2'
        hl0 hl1 hl2 =>
      subst hlq
      obtain ⟨v0, v1, hx, hv⟩ := C08.inverse_slides_then_hinge parent lk hp hlk hjr
        d0 d1 dh a e0 e1 h0 h1 hh haa h00 h11 h01 q0 q1 q2 qd0 qd1 qd2 hq0 hq1 hq2 hq2' pidx
      refine ⟨[v0, v1, qd2], hx, ?_⟩
      intro hk
      cases hk with
      | hinge d' a q' qd'' hlq' hd => simp at hlq'
      | still hst hns => rw [(hv hst).1, (hv hst).2]

/-- the hinge velocity of a slide(s)-then-hinge stack round-trips under ANY parent (the last entry
of the returned velocity slice) -/
theorem inverseLink_sh_hinge_vel (parent : Option (Tf ℝ × Motion ℝ)) (lk : LinkP ℝ)
    (hp : Q4.normSq (Inv.parentOr parent).1.rot = 1) (hlk : Q4.normSq lk.tf.rot = 1)
    (hjr : lk.joint.rot = ⟨1, 0, 0, 0⟩) (lq : LinkIn ℝ) (h : PureStack false lq) (pidx : Int)
    (qq qd' : List ℝ)
    (hx : Inv.inverseLink lq.typ (wOf parent lk lq).1 (wOf parent lk lq).2.1 pidx
        (lq.dofs.map (·.motion)) = some (qq, qd')) :
    (∀ ds dh e a q0 q1 qd0 qd1, lq = ⟨.two, [q0, q1], [qd0, qd1], [ds, dh]⟩ →
        ds.motion = ⟨⟨0, 0, 0⟩, e⟩ → dh.motion = ⟨a, ⟨0, 0, 0⟩⟩ → V3.dot e e = 1 → V3.dot a a = 1 →
        |q0| ≤ 2 → |q1| ≤ 6 / 5 → qd'[1]? = some qd1) := by
  intro ds dh e a q0 q1 qd0 qd1 hlq hs hh hee haa hq0 hq1
  subst hlq
  obtain ⟨v, hx', _⟩ := C08.inverse_slide_then_hinge parent lk hp hlk hjr ds dh
    a e hs hh haa hee q0 q1 qd0 qd1 hq0 hq1 pidx
  unfold wOf at hx
  have := hx.symm.trans hx'
  simp only [Option.some.injEq, Prod.mk.injEq] at this
  rw [this.2]
  rfl

/-! ## D. the assembly of `kinematics.inverse` over the forest -/

theorem mapM_some_forall₂ {β γ : Type} (f : β → Option γ) (l : List β)
    (h : ∀ a ∈ l, ∃ b, f a = some b) :
    ∃ r, l.mapM f = some r ∧ List.Forall₂ (fun a b => f a = some b) l r := by
  induction l with
  | nil => exact ⟨[], rfl, List.Forall₂.nil⟩
  | cons a l ih =>
    obtain ⟨b, hb⟩ := h a (by simp)
    obtain ⟨r, hr, hf⟩ := ih (fun x hx => h x (by simp [hx]))
    exact ⟨b :: r, by simp [List.mapM_cons, hb, hr], List.Forall₂.cons hb hf⟩

/-- slicing a concatenation of pieces of the right widths returns the pieces -/
theorem linkSlices_flatten_qd (ts : List LinkType) (P : List (List ℝ))
    (hw : P.map List.length = ts.map LinkType.qdWidth) (q : List ℝ) (ds : List (DofP ℝ)) :
    (linkSlices ts q P.flatten ds).map (·.qd) = P := by
  induction ts generalizing P q ds with
  | nil =>
    cases P with
    | nil => rfl
    | cons _ _ => simp at hw
  | cons t ts ih =>
    cases P with
    | nil => simp at hw
    | cons p P =>
      simp only [List.map_cons, List.cons.injEq] at hw
      simp only [linkSlices, List.map_cons, List.flatten_cons]
      rw [← hw.1, List.take_left, List.drop_left, ih P hw.2]

theorem flatten_length_of_widths (ts : List LinkType) (P : List (List ℝ))
    (hw : P.map List.length = ts.map LinkType.qdWidth) :
    P.flatten.length = (ts.map LinkType.qdWidth).sum := by
  rw [List.length_flatten, hw]

/-- hypotheses on system and coordinates of the forest theorems: a well-formed tree with unit link
quaternions and identity joint orientation (`TreeOK`, from `Sys.WF`), every link's slice of
`(q, qd, dofs)` of a supported kind inside the chart (`FwdKind`) -/
structure FwdOK (s : Sys ℝ) (q qd : List ℝ) : Prop where
  tree : TreeOK s
  kind : ∀ l ∈ insV s q qd, FwdKind l

theorem FwdOK.unitJ {s : Sys ℝ} {q qd : List ℝ} (h : FwdOK s q qd) :
    ∀ l ∈ insV s q qd, Q4.normSq (jcalc l).1.rot = 1 := fun l hl => fwdKind_unit (h.kind l hl)

/-- the supported kinds do not depend on the velocities: C04's `InitOK` gives `FwdOK` for every `qd` -/
theorem insV_zero (s : Sys ℝ) (q : List ℝ) : insV s q (List.replicate s.nv 0) = ins s q := rfl

theorem FwdOK.of_initOK {s : Sys ℝ} {q : List ℝ} (h : InitOK s q) :
    FwdOK s q (List.replicate s.nv 0) :=
  ⟨h.tree, fun l hl => FwdKind.of_restKind (h.kind l hl)⟩

/-- **`kinematics.inverse(sys, *world_to_joint(forward(q, qd)))`, whole forest, any `qd`** (Part D):
the result is `some (q, qd')` with the SAME `q`, and the slice of `qd'` of every `VelKind` link equals
that link's slice of `qd`. -/
theorem inverse_forward (s : Sys ℝ) (q qd : List ℝ) (h : FwdOK s q qd) (hq : q.length = s.nq) :
    ∃ qd', Inv.inverse s ((fwdW s q qd).map (·.1)) ((fwdW s q qd).map (·.2.1)) = some (q, qd')
      ∧ qd'.length = s.nv
      ∧ ∀ i l l', (insV s q qd)[i]? = some l → (insV s q qd')[i]? = some l' →
          VelKind (Still (parentVal s (forward s q qd) i)) l → l'.qd = l.qd := by
  obtain ⟨hWlen, hW⟩ := w2j_link s q qd h.tree h.unitJ
  set W := fwdW s q qd with hWdef
  set F := forward s q qd with hF
  set L := (linkSlices s.types ([] : List ℝ) [] s.dofs).zip
      (s.parents.zip ((W.map (·.1)).zip (W.map (·.2.1)))) with hL
  let f : LinkIn ℝ × Int × Tf ℝ × Motion ℝ → Option (List ℝ × List ℝ) := fun a =>
    Inv.inverseLink a.1.typ a.2.2.1 a.2.2.2 a.2.1 (a.1.dofs.map (·.motion))
  have hLlen : L.length = s.types.length := by
    simp [hL, linkSlices_length, h.tree.hpar, hWlen]
  -- per index: what `q_fn` returns
  have hidx : ∀ i (hi : i < L.length), ∃ l qd'i, (insV s q qd)[i]? = some l
      ∧ f L[i] = some (l.q, qd'i)
      ∧ (VelKind (Still (parentVal s F i)) l → qd'i = l.qd) := by
    intro i hi
    have hi' : i < s.types.length := by rw [← hLlen]; exact hi
    obtain ⟨lk, l, hlk, hl, hpu, hw⟩ := hW i hi'
    have hi0 : i < (linkSlices s.types ([] : List ℝ) [] s.dofs).length := by
      rw [linkSlices_length]; exact hi'
    have hiW : i < W.length := by rw [hWlen]; exact hi'
    obtain ⟨ht, hd⟩ := linkSlices_same' s.types q [] qd [] s.dofs i l _ hl
      (List.getElem?_eq_getElem hi0)
    have hwi : W[i] = wOf (parentVal s F i) lk l := by
      rw [List.getElem?_eq_getElem hiW] at hw; exact Option.some.inj hw
    have hlkok := h.tree.hlk lk (List.mem_of_getElem? hlk)
    obtain ⟨qd'i, hx, hv⟩ := inverseLink_fwdKind (parentVal s F i) lk hpu hlkok.1 hlkok.2 l
      (h.kind l (List.mem_of_getElem? hl)) (s.parents[i]'(by rw [h.tree.hpar]; exact hi'))
    refine ⟨l, qd'i, hl, ?_, hv⟩
    simp only [f, hL, List.getElem_zip, List.getElem_map, hwi, ht, hd]
    exact hx
  obtain ⟨r, hr, hfr⟩ := mapM_some_forall₂ f L (by
    intro a ha
    obtain ⟨i, hi, rfl⟩ := List.mem_iff_getElem.mp ha
    obtain ⟨l, qd'i, _, hx, _⟩ := hidx i hi
    exact ⟨_, hx⟩)
  have hrlen : r.length = s.types.length := by rw [← forall₂_length hfr, hLlen]
  have hri : ∀ i (hi : i < r.length), ∃ l, (insV s q qd)[i]? = some l ∧ (r[i]).1 = l.q
      ∧ (r[i]).2.length = l.typ.qdWidth
      ∧ (VelKind (Still (parentVal s F i)) l → (r[i]).2 = l.qd) := by
    intro i hi
    have hiL : i < L.length := by rw [hLlen, ← hrlen]; exact hi
    obtain ⟨l, qd'i, hl, hx, hv⟩ := hidx i hiL
    have h2 : f L[i] = some r[i] := (List.forall₂_iff_get.mp hfr).2 i hiL hi
    have h3 : r[i] = (l.q, qd'i) := by rw [hx] at h2; exact (Option.some.inj h2).symm
    refine ⟨l, hl, by rw [h3], ?_, by rw [h3]; exact hv⟩
    have hi' : i < s.types.length := by rw [← hrlen]; exact hi
    have hi0 : i < (linkSlices s.types ([] : List ℝ) [] s.dofs).length := by
      rw [linkSlices_length]; exact hi'
    obtain ⟨ht, hd⟩ := linkSlices_same' s.types q [] qd [] s.dofs i l _ hl
      (List.getElem?_eq_getElem hi0)
    have h4 : f L[i] = some (r[i].1, r[i].2) := h2
    have := inverseLink_length _ _ _ _ _ _ _ h4
    simp only [hL, List.getElem_zip, ht] at this
    exact this
  -- the assembled result
  have hinv : Inv.inverse s (W.map (·.1)) (W.map (·.2.1))
      = some (r.flatMap (·.1), r.flatMap (·.2)) := by
    unfold Inv.inverse
    rw [if_neg (by simp [hWlen, h.tree.hpar])]
    show Option.map _ (L.mapM f) = _
    rw [hr]
    rfl
  have hq1 : r.flatMap (·.1) = q := by
    have : r.map (·.1) = (insV s q qd).map (·.q) := by
      apply List.ext_getElem
      · simp [hrlen, insV_length]
      · intro i h1 h2
        have hi : i < r.length := by simpa using h1
        obtain ⟨l, hl, hq', _⟩ := hri i hi
        have hiI : i < (insV s q qd).length := by simpa using h2
        rw [List.getElem?_eq_getElem hiI] at hl
        simp only [List.getElem_map, hq', ← Option.some.inj hl]
    rw [List.flatMap_def, this]
    unfold insV
    rw [linkSlices_q_flatten, List.take_of_length_le (by rw [hq]; exact le_refl _)]
  have hwid : (r.map (·.2)).map List.length = s.types.map LinkType.qdWidth := by
    apply List.ext_getElem
    · simp [hrlen]
    · intro i h1 h2
      have hi : i < r.length := by simpa using h1
      obtain ⟨l, hl, _, hlen, _⟩ := hri i hi
      have hiT : i < s.types.length := by simpa using h2
      have hty : l.typ = s.types[i] := by
        have := linkSlices_typ s.types q qd s.dofs
        have hiI : i < (insV s q qd).length := by rw [insV_length]; exact hiT
        rw [List.getElem?_eq_getElem hiI] at hl
        have h5 : ((linkSlices s.types q qd s.dofs).map (·.typ))[i]'(by simpa [linkSlices_length] using hiT)
            = s.types[i] := by simp only [this]
        rw [← h5, List.getElem_map, ← Option.some.inj hl]
        rfl
      simp only [List.getElem_map, hlen, hty]
  refine ⟨r.flatMap (·.2), ?_, ?_, ?_⟩
  · rw [hinv, hq1]
  · rw [List.flatMap_def, flatten_length_of_widths s.types _ hwid]; rfl
  · intro i l l' hl hl' hk
    have hsl := linkSlices_flatten_qd s.types (r.map (·.2)) hwid q s.dofs
    have hi : i < r.length := by
      rw [hrlen, ← insV_length s q qd]
      exact (List.getElem?_eq_some_iff.mp hl).1
    obtain ⟨l0, hl0, _, _, hv⟩ := hri i hi
    rw [hl] at hl0
    cases hl0
    rw [← hv hk]
    have hiI' : i < (insV s q (r.flatMap (·.2))).length := (List.getElem?_eq_some_iff.mp hl').1
    rw [List.getElem?_eq_getElem hiI'] at hl'
    have h6 : ((insV s q (r.flatMap (·.2))).map (·.qd))[i]'(by simpa using hiI') = (r.map (·.2))[i]'(by simpa using hi) := by
      unfold insV
      simp only [List.flatMap_def, hsl]
    rw [List.getElem_map, List.getElem_map] at h6
    rw [← Option.some.inj hl', h6]

/-- a root's parent frame does not rotate -/
theorem still_root (s : Sys ℝ) (xs : List (Tf ℝ × Motion ℝ)) (i : Nat)
    (hroot : s.parents.getD i (-1) < 0) : Still (parentVal s xs i) := by
  unfold Still
  rw [parent_root s xs i hroot]
  rfl

/-- **full round trip** when every link is a `VelKind` link: `(q, qd)` comes back exactly -/
theorem inverse_forward_all (s : Sys ℝ) (q qd : List ℝ) (h : FwdOK s q qd) (hq : q.length = s.nq)
    (hqd : qd.length = s.nv)
    (hv : ∀ i l, (insV s q qd)[i]? = some l → VelKind (Still (parentVal s (forward s q qd) i)) l) :
    Inv.inverse s ((fwdW s q qd).map (·.1)) ((fwdW s q qd).map (·.2.1)) = some (q, qd) := by
  obtain ⟨qd', hinv, hlen, hsl⟩ := inverse_forward s q qd h hq
  rw [hinv]
  congr 2
  have hmap : (insV s q qd').map (·.qd) = (insV s q qd).map (·.qd) := by
    apply List.ext_getElem
    · simp [insV_length]
    · intro i h1 h2
      have hi' : i < (insV s q qd').length := by simpa using h1
      have hi : i < (insV s q qd).length := by simpa using h2
      simp only [List.getElem_map]
      exact hsl i _ _ (List.getElem?_eq_getElem hi) (List.getElem?_eq_getElem hi')
        (hv i _ (List.getElem?_eq_getElem hi))
  have h1 := linkSlices_qd_flatten s.types q qd' s.dofs
  have h2 := linkSlices_qd_flatten s.types q qd s.dofs
  unfold insV at hmap
  rw [hmap, h2] at h1
  rw [List.take_of_length_le (by rw [hqd]; exact le_refl _),
    List.take_of_length_le (by rw [hlen]; exact le_refl _)] at h1
  exact h1.symm

/-! ## D'. frames that do not rotate: below chains of slide-only links -/

/-- the link's joint cannot turn its frame: not a free link, every dof a slide -/
def NoSpin (l : LinkIn ℝ) : Prop := l.typ ≠ .free ∧ ∀ d ∈ l.dofs, d.motion.ang = ⟨0, 0, 0⟩

theorem jcalcDof_ang_zero (d : DofP ℝ) (q qd : ℝ) (h : d.motion.ang = ⟨0, 0, 0⟩) :
    (jcalcDof d q qd).2.ang = ⟨0, 0, 0⟩ := by
  simp [jcalcDof, h]

theorem jcalcAcc_ang_zero (acc ji : Tf ℝ × Motion ℝ) (h1 : acc.2.ang = ⟨0, 0, 0⟩)
    (h2 : ji.2.ang = ⟨0, 0, 0⟩) : (jcalcAcc acc ji).2.ang = ⟨0, 0, 0⟩ := by
  simp only [jcalcAcc, Motion.add_def, h1, h2, Inv.rotate_zero]
  simp [V3.add_def]

theorem foldl_jcalcAcc_ang_zero (L : List (Tf ℝ × Motion ℝ)) (j0 : Tf ℝ × Motion ℝ)
    (h0 : j0.2.ang = ⟨0, 0, 0⟩) (hL : ∀ x ∈ L, x.2.ang = ⟨0, 0, 0⟩) :
    (L.foldl jcalcAcc j0).2.ang = ⟨0, 0, 0⟩ := by
  induction L generalizing j0 with
  | nil => exact h0
  | cons x xs ih =>
    simp only [List.foldl]
    exact ih _ (jcalcAcc_ang_zero j0 x h0 (hL x (by simp))) (fun y hy => hL y (by simp [hy]))

/-- a slide-only joint has no joint-frame angular velocity, whatever `qd` -/
theorem jcalc_ang_noSpin (l : LinkIn ℝ) (h : NoSpin l) : (jcalc l).2.ang = ⟨0, 0, 0⟩ := by
  have hall : ∀ x ∈ (l.dofs.zip (l.q.zip l.qd)).map
      (fun d : DofP ℝ × ℝ × ℝ => jcalcDof d.1 d.2.1 d.2.2), x.2.ang = ⟨0, 0, 0⟩ := by
    intro x hx
    simp only [List.mem_map] at hx
    obtain ⟨d, hd, rfl⟩ := hx
    exact jcalcDof_ang_zero _ _ _ (h.2 _ (List.of_mem_zip hd).1)
  unfold jcalc
  cases ht : l.typ with
  | free => exact absurd ht h.1
  | one | two | three =>
    simp only
    split
    · rfl
    · rename_i j0 rest hL
      rw [hL] at hall
      exact foldl_jcalcAcc_ang_zero rest j0 (hall j0 (by simp)) (fun y hy => hall y (by simp [hy]))

/-- below a frame that does not rotate, a slide-only link does not rotate either -/
theorem fwdLink_ang_noSpin (parent : Option (Tf ℝ × Motion ℝ)) (lk : LinkP ℝ) (l : LinkIn ℝ)
    (hs : Still parent) (hn : NoSpin l) : (Inv.fwdLink parent lk l).2.ang = ⟨0, 0, 0⟩ := by
  have h0 := jcalc_ang_noSpin l hn
  cases parent with
  | none => simp only [Inv.fwdLink, world, h0, Inv.rotate_zero]
  | some p =>
    obtain ⟨xp, xdp⟩ := p
    have hs' : xdp.ang = ⟨0, 0, 0⟩ := hs
    simp only [Inv.fwdLink, world, h0, hs', Inv.rotate_zero]
    simp [V3.add_def]

/-- **every proper ancestor of link `i` is a slide-only link** (roots qualify trivially) -/
inductive StillChain (s : Sys ℝ) (q qd : List ℝ) : Nat → Prop
  | root (i : Nat) (h : s.parents.getD i (-1) < 0) : StillChain s q qd i
  | child (i p : Nat) (l : LinkIn ℝ) (hp : s.parents.getD i (-1) = (p : Int))
      (hl : (insV s q qd)[p]? = some l) (hn : NoSpin l) (h : StillChain s q qd p) :
      StillChain s q qd i

/-- the parent frame of a link hanging below slide-only links does not rotate -/
theorem still_of_chain (s : Sys ℝ) (q qd : List ℝ) (h : TreeOK s)
    (hj : ∀ l ∈ insV s q qd, Q4.normSq (jcalc l).1.rot = 1) (i : Nat)
    (hc : StillChain s q qd i) : Still (parentVal s (forward s q qd) i) := by
  induction hc with
  | root i hr => exact still_root s _ i hr
  | child i p l hp hl hn _ ih =>
    have hpn : p < s.types.length := by
      rw [← insV_length s q qd]; exact (List.getElem?_eq_some_iff.mp hl).1
    obtain ⟨r, lk, l', hx, _, hl', _, hfw⟩ := forward_link s q qd h hj p hpn
    rw [hl] at hl'
    cases hl'
    have hpv : parentVal s (forward s q qd) i = some r := by
      unfold parentVal
      rw [hp, if_neg (by omega), Int.toNat_natCast, hx]
    unfold Still
    rw [hpv, hfw]
    exact fwdLink_ang_noSpin _ lk l ih hn

/-! ## E. what the maximal-coordinate pipelines report after a step -/

theorem worldToJoint_length (s : Sys ℝ) (x : List (Tf ℝ)) (xd : List (Motion ℝ))
    (hx : x.length = s.links.length) (hxd : xd.length = s.links.length) :
    (worldToJoint s x xd).length = s.links.length := by
  have : worldToJoint s x xd = (List.range s.links.length).map (fun i =>
      Inv.w2jLink (nth s.links i) (takeParent x Tf.id (s.parents.getD i (-1)))
        (takeParent xd Motion.zero (s.parents.getD i (-1))) (nth x i) (nth xd i)) := by
    rw [C08.worldToJoint_eq]
    apply filterMap_range_all
    intro i hi
    have h1 : s.links[i]? = some (nth s.links i) := by
      rw [List.getElem?_eq_getElem hi]; simp [nth, List.getD_eq_getElem?_getD, List.getElem?_eq_getElem hi]
    have hiX : i < x.length := by rw [hx]; exact hi
    have hiXd : i < xd.length := by rw [hxd]; exact hi
    have h2 : x[i]? = some (nth x i) := by
      rw [List.getElem?_eq_getElem hiX]; simp [nth, List.getD_eq_getElem?_getD, List.getElem?_eq_getElem hiX]
    have h3 : xd[i]? = some (nth xd i) := by
      rw [List.getElem?_eq_getElem hiXd]; simp [nth, List.getD_eq_getElem?_getD, List.getElem?_eq_getElem hiXd]
    simp only [h1, h2, h3]
    rfl
  rw [this]; simp

/-- with as many dofs as `QD_WIDTHS` asks for, every slice has exactly the width of its type -/
theorem linkSlices_dofs_width (ts : List LinkType) (q qd : List ℝ) (ds : List (DofP ℝ))
    (hds : ds.length = (ts.map LinkType.qdWidth).sum) :
    ∀ l ∈ linkSlices ts q qd ds, l.dofs.length = l.typ.qdWidth := by
  induction ts generalizing q qd ds with
  | nil => intro l hl; simp [linkSlices] at hl
  | cons t ts ih =>
    intro l hl
    simp only [List.map_cons, List.sum_cons] at hds
    simp only [linkSlices, List.mem_cons] at hl
    rcases hl with rfl | hl
    · simp only [List.length_take]; omega
    · exact ih _ _ _ (by rw [List.length_drop]; omega) l hl

theorem xDof_some (j : Tf ℝ) (jd : Motion ℝ) (p : Int) (ms : List (Motion ℝ))
    (h1 : 1 ≤ ms.length) (h3 : ms.length ≤ 3) : ∃ r, Inv.xDof j jd p ms = some r := by
  match ms, h1, h3 with
  | [m0], _, _ => exact ⟨_, rfl⟩
  | [m0, m1], _, _ => exact ⟨_, rfl⟩
  | [m0, m1, m2], _, _ => exact ⟨_, rfl⟩

theorem inverseLink_some (t : LinkType) (j : Tf ℝ) (jd : Motion ℝ) (p : Int) (ms : List (Motion ℝ))
    (h : ms.length = t.qdWidth) : ∃ r, Inv.inverseLink t j jd p ms = some r := by
  cases t with
  | free => exact ⟨_, rfl⟩
  | one =>
    simp only [Inv.inverseLink, h, if_true]
    exact xDof_some j jd p ms (by rw [h]; decide) (by rw [h]; decide)
  | two =>
    simp only [Inv.inverseLink, h, if_true]
    exact xDof_some j jd p ms (by rw [h]; decide) (by rw [h]; decide)
  | three =>
    simp only [Inv.inverseLink, h, if_true]
    exact xDof_some j jd p ms (by rw [h]; decide) (by rw [h]; decide)

/-- **`kinematics.inverse` is total** on a well-formed system (`Sys.WF`: one parent and one link
record per link type, `nv` dofs) for joint arrays with one row per link: the `AssertionError` of
`link_to_joint_frame` (0 or more than 3 dofs in a link) cannot happen. -/
theorem inverse_total (s : Sys ℝ) (hwf : s.WF = true) (j : List (Tf ℝ)) (jd : List (Motion ℝ))
    (hj : j.length = s.numLinks) (hjd : jd.length = s.numLinks) :
    ∃ qq, Inv.inverse s j jd = some qq := by
  simp only [Sys.WF, Bool.and_eq_true, beq_iff_eq] at hwf
  obtain ⟨⟨⟨⟨hp, _⟩, hd⟩, _⟩, _⟩ := hwf
  unfold Inv.inverse
  rw [if_neg (by simp [hj, hjd, hp, Sys.numLinks])]
  have hw := linkSlices_dofs_width s.types ([] : List ℝ) [] s.dofs hd
  obtain ⟨r, hr, _⟩ := mapM_some_forall₂
    (fun a : LinkIn ℝ × Int × Tf ℝ × Motion ℝ =>
      Inv.inverseLink a.1.typ a.2.2.1 a.2.2.2 a.2.1 (a.1.dofs.map (·.motion)))
    ((linkSlices s.types ([] : List ℝ) [] s.dofs).zip (s.parents.zip (j.zip jd))) (by
      intro a ha
      exact inverseLink_some _ _ _ _ _ (by
        rw [List.length_map]; exact hw a.1 (List.of_mem_zip ha).1))
  exact ⟨_, by simp only [hr]; rfl⟩

/-- `Inv.stepTail` (the last two lines of both maximal-coordinate `step` functions) on a
well-formed system, spelled out with `inv := invModel s` -/
theorem stepTail_of (s : Sys ℝ) (hwf : s.WF = true) (x : List (Tf ℝ)) (xd : List (Motion ℝ))
    (hx : x.length = s.numLinks) (hxd : xd.length = s.numLinks) :
    Inv.stepTail s x xd = some
      ⟨(invModel s ((worldToJoint s x xd).map (·.1)) ((worldToJoint s x xd).map (·.2.1))).1,
       (invModel s ((worldToJoint s x xd).map (·.1)) ((worldToJoint s x xd).map (·.2.1))).2,
       (worldToJoint s x xd).map (·.1), (worldToJoint s x xd).map (·.2.1),
       (worldToJoint s x xd).map (·.2.2.1), (worldToJoint s x xd).map (·.2.2.2)⟩ := by
  have hl : s.links.length = s.numLinks := by
    simp only [Sys.WF, Bool.and_eq_true, beq_iff_eq] at hwf
    exact hwf.1.1.1.2
  have hW := worldToJoint_length s x xd (by rw [hx, hl]) (by rw [hxd, hl])
  obtain ⟨qq, hqq⟩ := inverse_total s hwf ((worldToJoint s x xd).map (·.1))
    ((worldToJoint s x xd).map (·.2.1)) (by simp [hW, hl]) (by simp [hW, hl])
  unfold Inv.stepTail invModel
  simp only [hqq, Option.map_some, Option.getD_some]

/-- **spring pipeline, whole system**: for every well-formed system, every state, action and contact
function, the `q, qd, j, jd, a_p, a_c` that `spring.pipeline.step` reports are
`Inv.stepTail` of the `x, xd` it reports, i.e. `j, jd, a_p, a_c = world_to_joint(x, xd)` and
`kinematics.inverse(j, jd) = some (q, qd)` (no assertion failure). -/
theorem spring_step_reported (cf : List (Tf ℝ) → List (Contact ℝ)) (s : Sys ℝ) (hwf : s.WF = true)
    (st : Spring.State ℝ) (act : List ℝ) :
    Inv.stepTail s (Spring.step (invModel s) cf s st act).x (Spring.step (invModel s) cf s st act).xd
      = some ⟨(Spring.step (invModel s) cf s st act).q, (Spring.step (invModel s) cf s st act).qd,
          (Spring.step (invModel s) cf s st act).j, (Spring.step (invModel s) cf s st act).jd,
          (Spring.step (invModel s) cf s st act).a_p, (Spring.step (invModel s) cf s st act).a_c⟩ := by
  have hx : (Spring.step (invModel s) cf s st act).x.length = s.numLinks := by
    simp [Spring.step, Positional.step, Com.toWorld, tab_length]
  have hxd : (Spring.step (invModel s) cf s st act).xd.length = s.numLinks := by
    simp [Spring.step, Positional.step, Com.toWorld, tab_length]
  rw [stepTail_of s hwf _ _ hx hxd]
  rfl

/-- **positional pipeline, whole system**: the same for `positional.pipeline.step` -/
theorem positional_step_reported (cf : List (Tf ℝ) → List (Contact ℝ)) (s : Sys ℝ)
    (hwf : s.WF = true) (st : Positional.State ℝ) (act : List ℝ) :
    Inv.stepTail s (Positional.step (invModel s) cf s st act).x
        (Positional.step (invModel s) cf s st act).xd
      = some ⟨(Positional.step (invModel s) cf s st act).q,
          (Positional.step (invModel s) cf s st act).qd,
          (Positional.step (invModel s) cf s st act).j, (Positional.step (invModel s) cf s st act).jd,
          (Positional.step (invModel s) cf s st act).a_p,
          (Positional.step (invModel s) cf s st act).a_c⟩ := by
  have hx : (Positional.step (invModel s) cf s st act).x.length = s.numLinks := by
    simp [Spring.step, Positional.step, Com.toWorld, tab_length]
  have hxd : (Positional.step (invModel s) cf s st act).xd.length = s.numLinks := by
    simp [Spring.step, Positional.step, Com.toWorld, tab_length]
  rw [stepTail_of s hwf _ _ hx hxd]
  rfl

end Brax.C08F
