import Brax.Lemmas.Scan
/-!
# Layer B theorems: pointwise characterisation of the tree scan, independence of sibling order,
and disjoint unions (core Lean + Batteries only)
-/
namespace Brax.Kin

theorem foldl_scanStep_prefix {β γ : Type} (f : Option β → γ → β) (l : List (Int × γ)) (acc : List β) :
    ∃ t, l.foldl (scanStep f) acc = acc ++ t ∧ t.length = l.length := by
  induction l generalizing acc with
  | nil => exact ⟨[], by simp, rfl⟩
  | cons x xs ih =>
    obtain ⟨t, ht, hl⟩ := ih (scanStep f acc x)
    refine ⟨[f (if x.1 < 0 then none else acc[x.1.toNat]?) x.2] ++ t, ?_, by simp [hl]⟩
    simp only [List.foldl]
    rw [ht]
    simp only [scanStep, List.append_assoc]

theorem foldl_scanStep_append {β γ : Type} (f : Option β → γ → β) (l1 l2 : List (Int × γ)) (acc : List β) :
    (l1 ++ l2).foldl (scanStep f) acc = l2.foldl (scanStep f) (l1.foldl (scanStep f) acc) :=
  List.foldl_append

/-- parents precede children: `-1 ≤ p_i < i` -/
def ParentsWF (ps : List Int) : Prop := ∀ i (h : i < ps.length), ps[i] < (i : Int)

/-- **Pointwise characterisation of the forward tree scan** (`scanTree_spec`, forward part):
for parents preceding children, the result at link `i` is `f (result at parent i) (arg i)`,
roots get `none`.  In particular the result depends on the forest only through `parent`. -/
theorem scanFwd_getElem {β γ : Type} (f : Option β → γ → β) (ps : List Int) (as : List γ)
    (hlen : ps.length = as.length) (hwf : ParentsWF ps) (i : Nat) (hi : i < ps.length) :
    (scanFwd f ps as)[i]? =
      some (f (if ps[i] < 0 then none else (scanFwd f ps as)[ps[i].toNat]?) (as[i]'(hlen ▸ hi))) := by
  rw [scanFwd_eq]
  have hz : (ps.zip as).length = ps.length := by simp [hlen]
  have h1 : i < (ps.zip as).length := by omega
  have hdrop : (ps.zip as).drop i = (ps[i], as[i]'(hlen ▸ hi)) :: (ps.zip as).drop (i + 1) := by
    rw [List.drop_eq_getElem_cons h1]; simp
  have hsplit : ps.zip as = (ps.zip as).take i ++ (ps[i], as[i]'(hlen ▸ hi)) :: (ps.zip as).drop (i + 1) := by
    rw [← hdrop, List.take_append_drop]
  have hl1len : ((ps.zip as).take i).length = i := by simp; omega
  generalize (ps.zip as).take i = l1 at hsplit hl1len
  generalize (ps.zip as).drop (i + 1) = l2 at hsplit
  rw [hsplit, foldl_scanStep_append]
  simp only [List.foldl]
  obtain ⟨t1, ht1, ht1len⟩ := foldl_scanStep_prefix f l1 []
  simp only [List.nil_append] at ht1
  have hacclen : (l1.foldl (scanStep f) []).length = i := by rw [ht1, ht1len, hl1len]
  generalize l1.foldl (scanStep f) [] = acc at hacclen
  obtain ⟨t2, ht2, _⟩ := foldl_scanStep_prefix f l2 (scanStep f acc (ps[i], as[i]'(hlen ▸ hi)))
  rw [ht2]
  simp only [scanStep]
  rw [List.append_assoc, List.getElem?_append_right (by omega), hacclen, Nat.sub_self]
  simp only [List.cons_append, List.nil_append, List.getElem?_cons_zero]
  congr 2
  by_cases hneg : ps[i] < 0
  · simp [hneg]
  · simp only [hneg, if_false]
    have hp := hwf i hi
    have hk : ps[i].toNat < i := by omega
    rw [List.getElem?_append_left (by omega)]

theorem forall₂_length {β β' : Type} {R : β → β' → Prop} {l : List β} {l' : List β'}
    (h : List.Forall₂ R l l') : l.length = l'.length := by
  induction h with
  | nil => rfl
  | cons _ _ ih => simp [ih]

/-- **Simulation lemma, well-formed version**: as `scanFwd_rel`, but for parents preceding
children the step hypothesis may also assume that a link with a parent index `p ≥ 0` really
receives its parent's result (`par ≠ none`). -/
theorem scanFwd_rel_wf {β β' γ γ' : Type} (R : β → β' → Prop) (S : Int → γ → γ' → Prop)
    (f : Option β → γ → β) (g : Option β' → γ' → β')
    (hstep : ∀ p par par' a b, OptRel R par par' → S p a b → (p < 0 ↔ par = none) →
      R (f par a) (g par' b))
    (ps : List Int) (as : List γ) (bs : List γ') (hwf : ParentsWF ps)
    (hS : List.Forall₂ (fun (x : Int × γ) (y : Int × γ') => x.1 = y.1 ∧ S x.1 x.2 y.2)
      (ps.zip as) (ps.zip bs)) :
    List.Forall₂ R (scanFwd f ps as) (scanFwd g ps bs) := by
  rw [scanFwd_eq, scanFwd_eq]
  have hidx0 : ∀ (k : Nat) (hk : k < (ps.zip as).length), ((ps.zip as)[k]).1 < (([] : List β).length + k : Int) := by
    intro k hk
    have hk2 : k < ps.length := by simp at hk; omega
    have := hwf k hk2
    simp only [List.getElem_zip, List.length_nil]
    omega
  suffices H : ∀ (l : List (Int × γ)) (l' : List (Int × γ')) (acc : List β) (acc' : List β'),
      List.Forall₂ (fun (x : Int × γ) (y : Int × γ') => x.1 = y.1 ∧ S x.1 x.2 y.2) l l' →
      List.Forall₂ R acc acc' →
      (∀ (k : Nat) (hk : k < l.length), (l[k]).1 < (acc.length + k : Int)) →
      List.Forall₂ R (l.foldl (scanStep f) acc) (l'.foldl (scanStep g) acc') from
    H _ _ [] [] hS List.Forall₂.nil hidx0
  intro l l' acc acc' hl
  induction hl generalizing acc acc' with
  | nil => intro h _; simpa using h
  | @cons x y xs ys hxy _ ih =>
    intro hacc hidx
    simp only [List.foldl]
    obtain ⟨hp, hs⟩ := hxy
    have hx0 := hidx 0 (by simp)
    simp only [List.getElem_cons_zero] at hx0
    have hx0 : x.1 < (acc.length : Int) := by omega
    apply ih
    · unfold scanStep
      apply forall₂_append_singleton hacc
      rw [← hp]
      by_cases hneg : x.1 < 0
      · simp only [hneg, if_true]
        exact hstep x.1 none none x.2 y.2 OptRel.none hs ⟨fun _ => rfl, fun _ => hneg⟩
      · simp only [hneg, if_false]
        have hlt : x.1.toNat < acc.length := by omega
        have hsome : acc[x.1.toNat]? ≠ none := by
          rw [List.getElem?_eq_getElem hlt]; simp
        exact hstep x.1 _ _ x.2 y.2 (getElem?_optRel hacc _) hs
          ⟨fun h => absurd h hneg, fun h => absurd h hsome⟩
    · intro k hk
      have := hidx (k + 1) (by simp; omega)
      simp only [List.getElem_cons_succ] at this
      simp only [scanStep, List.length_append, List.length_cons, List.length_nil]
      omega

/-- results of the forward scan on a prefix do not depend on later links -/
theorem scanFwd_append {β γ : Type} (f : Option β → γ → β) (ps1 ps2 : List Int) (as1 as2 : List γ)
    (h1 : ps1.length = as1.length) :
    scanFwd f (ps1 ++ ps2) (as1 ++ as2)
      = (ps2.zip as2).foldl (scanStep f) (scanFwd f ps1 as1) := by
  rw [scanFwd_eq, scanFwd_eq, List.zip_append h1, foldl_scanStep_append]

/-- shift the non-negative parent indices of a second forest by the size of the first -/
def shiftParents (n : Nat) (ps : List Int) : List Int := ps.map fun p => if p < 0 then p else p + (n : Int)

/-- folding the shifted second forest on top of the first one's results never reads them -/
theorem foldl_shift {β γ : Type} (f : Option β → γ → β) (r1 : List β) (l : List (Int × γ))
    (acc : List β) (hwf : ∀ x ∈ l, x.1 < 0 ∨ True) (n : Nat) (hn : r1.length = n)
    (hidx : ∀ (k : Nat) (hk : k < l.length), l[k].1 < (acc.length + k : Int)) :
    (l.map fun (x : Int × γ) => ((if x.1 < 0 then x.1 else x.1 + (n : Int)), x.2)).foldl (scanStep f) (r1 ++ acc)
      = r1 ++ l.foldl (scanStep f) acc := by
  induction l generalizing acc with
  | nil => simp
  | cons x xs ih =>
    simp only [List.map_cons, List.foldl]
    have hx := hidx 0 (by simp)
    simp only [List.getElem_cons_zero] at hx
    have hx : x.1 < (acc.length : Int) := by omega
    have hstep : scanStep f (r1 ++ acc) ((if x.1 < 0 then x.1 else x.1 + (n : Int)), x.2)
        = r1 ++ scanStep f acc x := by
      unfold scanStep
      by_cases hneg : x.1 < 0
      · simp [hneg, List.append_assoc]
      · have h2 : ¬ (x.1 + (n : Int) < 0) := by omega
        simp only [hneg, if_false, h2, List.append_assoc]
        congr 3
        have : (x.1 + (n : Int)).toNat = n + x.1.toNat := by omega
        rw [this, List.getElem?_append_right (by omega), hn, Nat.add_sub_cancel_left]
    rw [hstep]
    apply ih
    · intro y hy; exact Or.inr trivial
    · intro k hk
      have := hidx (k + 1) (by simp; omega)
      simp only [List.getElem_cons_succ] at this
      simp only [scanStep, List.length_append, List.length_cons, List.length_nil]
      omega

/-- **Mechanically disconnected parts**: the scan over the disjoint union of two forests
(second forest's parent indices shifted) is the concatenation of the two scans — no result of
one part depends on the other. -/
theorem scanFwd_disjoint_union {β γ : Type} (f : Option β → γ → β) (ps1 ps2 : List Int)
    (as1 as2 : List γ) (h1 : ps1.length = as1.length) (h2 : ps2.length = as2.length)
    (hwf2 : ParentsWF ps2) :
    scanFwd f (ps1 ++ shiftParents ps1.length ps2) (as1 ++ as2)
      = scanFwd f ps1 as1 ++ scanFwd f ps2 as2 := by
  rw [scanFwd_append f ps1 _ as1 as2 h1]
  have hzip : (shiftParents ps1.length ps2).zip as2
      = (ps2.zip as2).map fun (x : Int × γ) => ((if x.1 < 0 then x.1 else x.1 + (ps1.length : Int)), x.2) := by
    unfold shiftParents
    rw [List.zip_map_left]
    rfl
  rw [hzip]
  have hr1 : (scanFwd f ps1 as1).length = ps1.length := by rw [scanFwd_length]; omega
  have := foldl_shift f (scanFwd f ps1 as1) (ps2.zip as2) [] (fun _ _ => Or.inr trivial) ps1.length hr1
    (by
      intro k hk
      have hk2 : k < ps2.length := by simp at hk; omega
      have := hwf2 k hk2
      simp only [List.getElem_zip, List.length_nil]
      omega)
  simp only [List.append_nil] at this
  rw [this, scanFwd_eq f ps2 as2]


/-- the system relabelled by `σ` (new index ↦ old index) with inverse `τ` -/
def permParents (n : Nat) (σ τ : Nat → Nat) (ps : List Int) : List Int :=
  (List.range n).map fun k => let p := ps.getD (σ k) (-1); if p < 0 then p else (τ p.toNat : Int)
def permArgs {γ : Type} (n : Nat) (σ : Nat → Nat) (as : List γ) (d : γ) : List γ :=
  (List.range n).map fun k => as.getD (σ k) d

/-- **Listing sibling bodies in a different order only permutes the per-link results.**
For any relabelling `σ` of the links (with inverse `τ`) under which parents still precede
children, the forward tree scan of the relabelled system is the relabelling of the scan. -/
theorem scanFwd_perm {β γ : Type} (f : Option β → γ → β) (ps : List Int) (as : List γ) (d : γ)
    (n : Nat) (hps : ps.length = n) (has : as.length = n) (σ τ : Nat → Nat)
    (hσ : ∀ k, k < n → σ k < n) (hτσ : ∀ k, k < n → τ (σ k) = k) (hστ : ∀ i, i < n → σ (τ i) = i)
    (hτ : ∀ i, i < n → τ i < n)
    (hwf : ParentsWF ps) (hwf' : ParentsWF (permParents n σ τ ps)) :
    ∀ k, k < n → (scanFwd f (permParents n σ τ ps) (permArgs n σ as d))[k]?
      = (scanFwd f ps as)[σ k]? := by
  have hlen' : (permParents n σ τ ps).length = n := by simp [permParents]
  have hlenA : (permArgs n σ as d).length = n := by simp [permArgs]
  intro k
  induction k using Nat.strongRecOn with
  | _ k ih =>
    intro hk
    have hσk := hσ k hk
    rw [scanFwd_getElem f _ _ (by rw [hlen', hlenA]) hwf' k (by rw [hlen']; exact hk)]
    rw [scanFwd_getElem f ps as (by rw [hps, has]) hwf (σ k) (by rw [hps]; exact hσk)]
    have hpk : (permParents n σ τ ps)[k]'(by rw [hlen']; exact hk)
        = (if ps[σ k]'(by rw [hps]; exact hσk) < 0 then ps[σ k]'(by rw [hps]; exact hσk)
            else ((τ (ps[σ k]'(by rw [hps]; exact hσk)).toNat : Nat) : Int)) := by
      simp only [permParents, List.getElem_map, List.getElem_range]
      simp [List.getD_eq_getElem?_getD, List.getElem?_eq_getElem (show σ k < ps.length by rw [hps]; exact hσk)]
    have hak : (permArgs n σ as d)[k]'(by rw [hlenA]; exact hk) = as[σ k]'(by rw [has]; exact hσk) := by
      simp only [permArgs, List.getElem_map, List.getElem_range]
      simp [List.getD_eq_getElem?_getD, List.getElem?_eq_getElem (show σ k < as.length by rw [has]; exact hσk)]
    rw [hpk, hak]
    congr 2
    by_cases hneg : ps[σ k]'(by rw [hps]; exact hσk) < 0
    · simp [hneg]
    · simp only [hneg, if_false]
      have hp := hwf (σ k) (by rw [hps]; exact hσk)
      have hpn : (ps[σ k]'(by rw [hps]; exact hσk)).toNat < n := by omega
      have hnn : ¬ (((τ (ps[σ k]'(by rw [hps]; exact hσk)).toNat : Nat) : Int) < 0) := by omega
      simp only [hnn, if_false, Int.toNat_natCast]
      -- the relabelled parent precedes k
      have hlt : τ (ps[σ k]'(by rw [hps]; exact hσk)).toNat < k := by
        have := hwf' k (by rw [hlen']; exact hk)
        rw [hpk] at this
        simp only [hneg, if_false] at this
        omega
      rw [ih _ hlt (hτ _ hpn), hστ _ hpn]

end Brax.Kin
