import Brax.Spec.C15
import Mathlib.Tactic.Ring
import Mathlib.Tactic.Linarith
import Mathlib.Algebra.Order.Ring.Defs
import Mathlib.Data.Nat.Cast.Order.Ring
import Mathlib.Algebra.BigOperators.Group.List.Basic
/-!
# C15 — helper lemmas (structure of the scan, folds, list plumbing)
-/
set_option linter.unusedSectionVars false
set_option linter.unusedVariables false
namespace Brax.C15
variable {K P O X R A : Type}

/-! ### the scan over `action_repeat` -/

theorem scanRepeat_fst (env : Env K P O X R A) (a : A) (n : Nat) (s : St P O X R) :
    (scanRepeat env a n s).1 = iter env a n s := by
  induction n generalizing s with
  | zero => rfl
  | succ n ih => simp only [scanRepeat, iter, ih]

theorem scanRepeat_snd (env : Env K P O X R A) (a : A) (n : Nat) (s : St P O X R) :
    (scanRepeat env a n s).2 = (List.range n).map fun i => (iter env a (i + 1) s).reward := by
  induction n generalizing s with
  | zero => rfl
  | succ n ih =>
    simp only [scanRepeat, ih, List.range_succ_eq_map, List.map_cons, List.map_map, iter]
    rfl

theorem foldl_add_eq [AddCommMonoid R] (l : List R) (x : R) :
    l.foldl (· + ·) x = x + l.sum := by
  induction l generalizing x with
  | nil => simp
  | cons y ys ih => simp only [List.foldl_cons, ih, List.sum_cons, add_assoc]

theorem sumList_eq_sum [AddCommMonoid R] (l : List R) : sumList l = l.sum := by
  simp only [sumList, foldl_add_eq, zero_add]


/-! ### one wrapped step, field by field -/
section ring
variable [CommRing R] [LinearOrder R] [IsStrictOrderedRing R]

theorem reward_eq (env : Env K P O X R A) (L r : Nat) (s : ArSt P O X R) (a : A) :
    (arStep env L r s a).reward
      = ((List.range r).map fun i => (iter env a (i + 1) s.inner).reward).sum := by
  simp only [arStep, epStep, ArSt.reward, scanRepeat_snd, sumList_eq_sum, ArSt.inner]

theorem done_eq (env : Env K P O X R A) (L r : Nat) (s : ArSt P O X R) (a : A) :
    (arStep env L r s a).done
      = if (L : R) ≤ (arStep env L r s a).steps then 1 else (iter env a r s.inner).done := by
  simp only [arStep, epStep, ArSt.done, ArSt.steps, scanRepeat_fst, ArSt.inner]

theorem truncation_eq (env : Env K P O X R A) (L r : Nat) (s : ArSt P O X R) (a : A) :
    (arStep env L r s a).truncation
      = if (L : R) ≤ (arStep env L r s a).steps then 1 - (iter env a r s.inner).done else 0 := by
  simp only [arStep, epStep, ArSt.truncation, ArSt.steps, scanRepeat_fst, ArSt.inner]

theorem steps_eq (env : Env K P O X R A) (L r : Nat) (s : ArSt P O X R) (a : A) :
    (arStep env L r s a).steps = (if s.done = 0 then s.steps else 0) + (r : R) := by
  simp only [arStep, epStep, ArSt.steps, arPre, whereNZ, ArSt.done]

theorem metrics_eq (env : Env K P O X R A) (L r : Nat) (s : ArSt P O X R) (a : A) :
    (arStep env L r s a).metrics = (iter env a r s.inner).metrics := by
  simp only [arStep, epStep, ArSt.metrics, scanRepeat_fst, ArSt.inner]

theorem ps_eq (env : Env K P O X R A) (L r : Nat) (s : ArSt P O X R) (a : A) :
    (arStep env L r s a).ps
      = if (arStep env L r s a).done = 0 then (iter env a r s.inner).ps else s.firstPs := by
  simp only [arStep, epStep, ArSt.ps, ArSt.done, scanRepeat_fst, ArSt.inner, whereNZ]

theorem obs_eq (env : Env K P O X R A) (L r : Nat) (s : ArSt P O X R) (a : A) :
    (arStep env L r s a).obs
      = if (arStep env L r s a).done = 0 then (iter env a r s.inner).obs else s.firstObs := by
  simp only [arStep, epStep, ArSt.obs, ArSt.done, scanRepeat_fst, ArSt.inner, whereNZ]

theorem first_eq (env : Env K P O X R A) (L r : Nat) (s : ArSt P O X R) (a : A) :
    (arStep env L r s a).firstPs = s.firstPs ∧ (arStep env L r s a).firstObs = s.firstObs :=
  ⟨rfl, rfl⟩

/-! ### histories -/

theorem run_snoc (env : Env K P O X R A) (L r : Nat) (k : K) (as : List A) (a : A) :
    run env L r k (as ++ [a]) = arStep env L r (run env L r k as) a := by
  simp only [run, List.foldl_append, List.foldl_cons, List.foldl_nil]

theorem runC_snoc (env : Env K P O X R A) (L r : Nat) (k : K) (as : List A) (a : A) :
    runC env L r k (as ++ [a]) = stepC env L r (runC env L r k as) a := by
  simp only [runC, List.foldl_append, List.foldl_cons, List.foldl_nil]

theorem foldl_stepC_fst (env : Env K P O X R A) (L r : Nat) (p : ArSt P O X R × Nat)
    (as : List A) :
    (as.foldl (stepC env L r) p).1 = as.foldl (arStep env L r) p.1 := by
  induction as generalizing p with
  | nil => rfl
  | cons a as ih => simp only [List.foldl_cons, ih, stepC]

theorem runC_fst (env : Env K P O X R A) (L r : Nat) (k : K) (as : List A) :
    (runC env L r k as).1 = run env L r k as := by
  simp only [runC, run, foldl_stepC_fst]

theorem count_snoc (env : Env K P O X R A) (L r : Nat) (k : K) (as : List A) (a : A) :
    count env L r k (as ++ [a])
      = (if (run env L r k as).done = 0 then count env L r k as else 0) + 1 := by
  simp only [count, runC_snoc, stepC, runC_fst]

theorem foldl_first (env : Env K P O X R A) (L r : Nat) (s : ArSt P O X R) (as : List A) :
    (as.foldl (arStep env L r) s).firstPs = s.firstPs ∧
    (as.foldl (arStep env L r) s).firstObs = s.firstObs := by
  induction as generalizing s with
  | nil => exact ⟨rfl, rfl⟩
  | cons a as ih => simp only [List.foldl_cons]; exact ih _

/-- invariant of `(wrapped state, position in the episode)` along every history -/
structure Inv (L r : Nat) (p : ArSt P O X R × Nat) : Prop where
  steps : p.1.steps = ((p.2 * r : Nat) : R)
  below : p.1.done = 0 → p.2 * r < L
  notLate : (p.2 - 1) * r < L

theorem inv_reset (env : Env K P O X R A) {L : Nat} (r : Nat) (hL : 1 ≤ L) (k : K) :
    Inv L r (arReset env k, 0) := by
  refine ⟨?_, ?_, ?_⟩ <;> simp [arReset, epReset, ArSt.steps] <;> omega

theorem inv_step (env : Env K P O X R A) {L r : Nat} (hL : 1 ≤ L) (p : ArSt P O X R × Nat)
    (h : Inv L r p) (a : A) : Inv L r (stepC env L r p a) := by
  obtain ⟨s, c⟩ := p
  obtain ⟨h1, h2, h3⟩ := h
  simp only at h1 h2 h3
  generalize hc' : (if s.done = 0 then c else 0) + 1 = c'
  have hs : (arStep env L r s a).steps = ((c' * r : Nat) : R) := by
    rw [steps_eq, ← hc']
    by_cases hd : s.done = 0
    · simp only [hd, if_true, h1]; push_cast; ring
    · simp only [hd, if_false]; push_cast; ring
  simp only [stepC, hc']
  refine ⟨hs, ?_, ?_⟩
  · intro hd
    simp only at hd
    rw [done_eq, hs] at hd
    by_cases hle : (L : R) ≤ ((c' * r : Nat) : R)
    · rw [if_pos hle] at hd; exact absurd hd one_ne_zero
    · have := not_le.mp hle
      exact_mod_cast this
  · simp only
    subst hc'
    by_cases hd : s.done = 0
    · simp only [hd, if_true, Nat.add_sub_cancel]; exact h2 hd
    · simp only [hd, if_false]; omega

theorem inv_foldl (env : Env K P O X R A) {L r : Nat} (hL : 1 ≤ L) (p : ArSt P O X R × Nat)
    (h : Inv L r p) (as : List A) : Inv L r (as.foldl (stepC env L r) p) := by
  induction as generalizing p with
  | nil => exact h
  | cons a as ih => exact ih _ (inv_step env hL p h a)

theorem inv_runC (env : Env K P O X R A) {L : Nat} (r : Nat) (hL : 1 ≤ L) (k : K) (as : List A) :
    Inv L r (runC env L r k as) :=
  inv_foldl env hL _ (inv_reset env r hL k) as

/-! ### replay of a fresh episode -/

/-- the part of an inner state that a Markov environment determines -/
def CoreEq (s s' : St P O X R) : Prop :=
  s.ps = s'.ps ∧ s.obs = s'.obs ∧ s.reward = s'.reward ∧ s.done = s'.done ∧ s.metrics = s'.metrics

theorem iter_core (env : Env K P O X R A) (hM : Markov env) (a : A) (i : Nat)
    (s s' : St P O X R) (h1 : s.ps = s'.ps) (h2 : s.obs = s'.obs) :
    CoreEq (iter env a (i + 1) s) (iter env a (i + 1) s') := by
  induction i generalizing s s' with
  | zero => exact hM s s' a h1 h2
  | succ i ih =>
    have h := hM s s' a h1 h2
    exact ih (env.step s a) (env.step s' a) h.1 h.2.1

/-- two wrapped states from which the future looks the same -/
structure Sim (s s' : ArSt P O X R) : Prop where
  ps : s.ps = s'.ps
  obs : s.obs = s'.obs
  firstPs : s.firstPs = s'.firstPs
  firstObs : s.firstObs = s'.firstObs
  steps : (arPre s).steps = (arPre s').steps

theorem sim_step (env : Env K P O X R A) (hM : Markov env) (L : Nat) {r : Nat} (hr : 1 ≤ r)
    (s s' : ArSt P O X R) (h : Sim s s') (a : A) :
    (arStep env L r s a).out = (arStep env L r s' a).out ∧
    Sim (arStep env L r s a) (arStep env L r s' a) := by
  have hcore : ∀ i, CoreEq (iter env a (i + 1) s.inner) (iter env a (i + 1) s'.inner) :=
    fun i => iter_core env hM a i _ _ h.ps h.obs
  obtain ⟨q, rfl⟩ : ∃ q, r = q + 1 := ⟨r - 1, by omega⟩
  have hlast := hcore q
  have hsteps : (arStep env L (q + 1) s a).steps = (arStep env L (q + 1) s' a).steps := by
    have := h.steps
    simp only [arStep, epStep, ArSt.steps] at this ⊢
    rw [this]
  have hrew : (arStep env L (q + 1) s a).reward = (arStep env L (q + 1) s' a).reward := by
    rw [reward_eq, reward_eq]
    congr 1
    apply List.map_congr_left
    intro i _
    exact (hcore i).2.2.1
  have hdone : (arStep env L (q + 1) s a).done = (arStep env L (q + 1) s' a).done := by
    rw [done_eq, done_eq, hsteps, hlast.2.2.2.1]
  have htr : (arStep env L (q + 1) s a).truncation = (arStep env L (q + 1) s' a).truncation := by
    rw [truncation_eq, truncation_eq, hsteps, hlast.2.2.2.1]
  have hmet : (arStep env L (q + 1) s a).metrics = (arStep env L (q + 1) s' a).metrics := by
    rw [metrics_eq, metrics_eq, hlast.2.2.2.2]
  have hps : (arStep env L (q + 1) s a).ps = (arStep env L (q + 1) s' a).ps := by
    rw [ps_eq, ps_eq, hdone, hlast.1, h.firstPs]
  have hobs : (arStep env L (q + 1) s a).obs = (arStep env L (q + 1) s' a).obs := by
    rw [obs_eq, obs_eq, hdone, hlast.2.1, h.firstObs]
  refine ⟨?_, ⟨hps, hobs, h.firstPs, h.firstObs, ?_⟩⟩
  · simp only [ArSt.out, hps, hobs, hrew, hdone, hmet, hsteps, htr]
  · have h1 : (arStep env L (q + 1) s a).ep.st.done = (arStep env L (q + 1) s' a).ep.st.done := hdone
    have h2 : (arStep env L (q + 1) s a).ep.steps = (arStep env L (q + 1) s' a).ep.steps := hsteps
    simp only [arPre, h1, h2]

theorem sim_foldl (env : Env K P O X R A) (hM : Markov env) (L : Nat) {r : Nat} (hr : 1 ≤ r)
    (s s' : ArSt P O X R) (h : Sim s s') (b : A) (bs : List A) :
    ((b :: bs).foldl (arStep env L r) s).out = ((b :: bs).foldl (arStep env L r) s').out := by
  induction bs generalizing s s' b with
  | nil => exact (sim_step env hM L hr s s' h b).1
  | cons c cs ih =>
    rw [List.foldl_cons, List.foldl_cons (l := c :: cs)]
    exact ih _ _ (sim_step env hM L hr s s' h b).2 c

/-! ### evaluation accumulators -/

theorem done_bool (env : Env K P O X R A)
    (hb : ∀ s a, (env.step s a).done = 0 ∨ (env.step s a).done = 1) (L r : Nat)
    (s : ArSt P O X R) (a : A) :
    (arStep env L r s a).done = 0 ∨ (arStep env L r s a).done = 1 := by
  rw [done_eq]
  split
  · exact Or.inr rfl
  · cases r with
    | zero => left; rfl
    | succ q =>
      have : ∀ (n : Nat) (t : St P O X R),
          (iter env a (n + 1) t).done = 0 ∨ (iter env a (n + 1) t).done = 1 := by
        intro n
        induction n with
        | zero => intro t; exact hb _ _
        | succ n ih => intro t; exact ih _
      exact this _ _

theorem evFold_ar (env : Env K P O X R A) (L r : Nat) (s : EvSt P O X R) (as : List A) :
    (as.foldl (evStep env L r) s).ar = as.foldl (arStep env L r) s.ar ∧
    (as ≠ [] → (as.foldl (evStep env L r) s).mReward = (as.foldl (arStep env L r) s.ar).reward) := by
  induction as generalizing s with
  | nil => exact ⟨rfl, fun h => absurd rfl h⟩
  | cons a as ih =>
    simp only [List.foldl_cons]
    refine ⟨(ih _).1, fun _ => ?_⟩
    rcases as with _ | ⟨b, bs⟩
    · rfl
    · exact (ih (evStep env L r s a)).2 (by simp)

theorem metrics_len (env : Env K P O X R A)
    (hm : ∀ s a, (env.step s a).metrics.length = s.metrics.length) (L r : Nat)
    (s : ArSt P O X R) (a : A) : (arStep env L r s a).metrics.length = s.metrics.length := by
  rw [metrics_eq]
  have : ∀ (n : Nat) (t : St P O X R), (iter env a n t).metrics.length = t.metrics.length := by
    intro n
    induction n with
    | zero => intro t; rfl
    | succ n ih => intro t; simp only [iter, ih, hm]
  rw [this]
  rfl

theorem zipWith_frozen (em m : List R) (h : em.length ≤ m.length) :
    List.zipWith (fun x y => x + y * (0 : R)) em m = em := by
  induction em generalizing m with
  | nil => simp
  | cons x xs ih =>
    cases m with
    | nil => simp at h
    | cons y ys =>
      simp only [List.zipWith_cons_cons, mul_zero, add_zero, List.cons.injEq, true_and]
      have := ih ys (by simpa using h)
      simpa only [mul_zero, add_zero] using this

/-- once `active_episodes` is 0 nothing is accumulated any more -/
theorem evFold_frozen (env : Env K P O X R A) (L r : Nat) (s : EvSt P O X R)
    (h0 : s.active = 0) (as : List A) :
    (as.foldl (evStep env L r) s).active = 0 ∧
    (as.foldl (evStep env L r) s).emReward = s.emReward ∧
    (as.foldl (evStep env L r) s).episodeSteps = s.episodeSteps := by
  induction as generalizing s with
  | nil => exact ⟨h0, rfl, rfl⟩
  | cons a as ih =>
    simp only [List.foldl_cons]
    have h := ih (evStep env L r s a) (by simp only [evStep, h0, zero_mul])
    refine ⟨h.1, ?_, ?_⟩
    · rw [h.2.1]; simp only [evStep, h0, mul_zero, add_zero]
    · rw [h.2.2]; simp only [evStep, h0, whereNZ, if_true]

theorem evFold_frozen_metrics (env : Env K P O X R A)
    (hm : ∀ s a, (env.step s a).metrics.length = s.metrics.length) (L r : Nat)
    (s : EvSt P O X R) (h0 : s.active = 0) (hl : s.emMetrics.length = s.ar.metrics.length)
    (as : List A) :
    (as.foldl (evStep env L r) s).emMetrics = s.emMetrics := by
  induction as generalizing s with
  | nil => rfl
  | cons a as ih =>
    simp only [List.foldl_cons]
    have hstep : (evStep env L r s a).emMetrics = s.emMetrics := by
      simp only [evStep, h0]
      exact zipWith_frozen _ _ (by rw [metrics_len env hm, hl])
    rw [ih (evStep env L r s a) (by simp only [evStep, h0, zero_mul])
      (by rw [hstep, hl]; exact (metrics_len env hm L r s.ar a).symm), hstep]

theorem getLast_cons_getD {α β : Type} (f : α → β) (x : α) (l : List α) (d : β) :
    (((x :: l).getLast?).map f).getD d = ((l.getLast?).map f).getD (f x) := by
  cases l with
  | nil => simp
  | cons y ys => rw [List.getLast?_cons_cons]; simp [List.getLast?_cons]

/-- while `active_episodes` is 1 the accumulators follow the first episode of the trace -/
theorem evFold_active (env : Env K P O X R A)
    (hb : ∀ s a, (env.step s a).done = 0 ∨ (env.step s a).done = 1) (L r : Nat)
    (s : EvSt P O X R) (h1 : s.active = 1) (as : List A) :
    (as.foldl (evStep env L r) s).emReward
      = s.emReward + ((firstEp (traceFrom env L r s.ar as)).map (·.reward)).sum ∧
    (as.foldl (evStep env L r) s).active
      = (if (traceFrom env L r s.ar as).any (fun t => decide (t.done ≠ 0)) then 0 else 1) ∧
    (as.foldl (evStep env L r) s).episodeSteps
      = (((firstEp (traceFrom env L r s.ar as)).getLast?).map (·.steps)).getD s.episodeSteps := by
  induction as generalizing s with
  | nil => simp [traceFrom, firstEp, takeThrough, h1]
  | cons a as ih =>
    simp only [List.foldl_cons, traceFrom]
    have hsr : (evStep env L r s a).emReward = s.emReward + (arStep env L r s.ar a).reward := by
      simp only [evStep, h1, mul_one]
    have hss : (evStep env L r s a).episodeSteps = (arStep env L r s.ar a).steps := by
      simp only [evStep, h1, whereNZ, one_ne_zero, if_false]
    have hsa : (evStep env L r s a).ar = arStep env L r s.ar a := rfl
    rcases done_bool env hb L r s.ar a with hd | hd
    · have hact : (evStep env L r s a).active = 1 := by
        simp only [evStep, h1, hd, sub_zero, mul_one]
      have h := ih (evStep env L r s a) hact
      rw [hsa] at h
      have hfe : firstEp (arStep env L r s.ar a :: traceFrom env L r (arStep env L r s.ar a) as)
          = arStep env L r s.ar a :: firstEp (traceFrom env L r (arStep env L r s.ar a) as) := by
        simp only [firstEp, takeThrough, hd, ne_eq, not_true_eq_false, decide_false,
          Bool.false_eq_true, if_false]
      refine ⟨?_, ?_, ?_⟩
      · rw [h.1, hfe, hsr, List.map_cons, List.sum_cons, add_assoc]
      · rw [h.2.1]
        simp only [List.any_cons, hd, ne_eq, not_true_eq_false, decide_false, Bool.false_or]
      · rw [h.2.2, hfe, getLast_cons_getD, hss]
    · have hact : (evStep env L r s a).active = 0 := by
        simp only [evStep, hd, sub_self, mul_zero]
      have h := evFold_frozen env L r (evStep env L r s a) hact as
      have hfe : firstEp (arStep env L r s.ar a :: traceFrom env L r (arStep env L r s.ar a) as)
          = [arStep env L r s.ar a] := by
        simp only [firstEp, takeThrough, hd, ne_eq, one_ne_zero, not_false_eq_true, decide_true,
          if_true]
      refine ⟨?_, ?_, ?_⟩
      · rw [h.2.1, hfe, hsr]; simp
      · rw [h.1]
        simp only [List.any_cons, hd, ne_eq, one_ne_zero, not_false_eq_true, decide_true,
          Bool.true_or, if_true]
      · rw [h.2.2, hfe, hss]; simp

theorem evFold_active_metrics (env : Env K P O X R A)
    (hb : ∀ s a, (env.step s a).done = 0 ∨ (env.step s a).done = 1)
    (hm : ∀ s a, (env.step s a).metrics.length = s.metrics.length) (L r : Nat)
    (s : EvSt P O X R) (h1 : s.active = 1) (hl : s.emMetrics.length = s.ar.metrics.length)
    (as : List A) :
    (as.foldl (evStep env L r) s).emMetrics
      = (firstEp (traceFrom env L r s.ar as)).foldl
          (fun acc t => List.zipWith (· + ·) acc t.metrics) s.emMetrics := by
  induction as generalizing s with
  | nil => simp [traceFrom, firstEp, takeThrough]
  | cons a as ih =>
    simp only [List.foldl_cons, traceFrom]
    have hsm : (evStep env L r s a).emMetrics
        = List.zipWith (· + ·) s.emMetrics (arStep env L r s.ar a).metrics := by
      simp only [evStep, h1, mul_one]
    have hsa : (evStep env L r s a).ar = arStep env L r s.ar a := rfl
    have hl' : (evStep env L r s a).emMetrics.length = (evStep env L r s a).ar.metrics.length := by
      rw [hsm, hsa, List.length_zipWith, hl, metrics_len env hm]; simp
    rcases done_bool env hb L r s.ar a with hd | hd
    · have hact : (evStep env L r s a).active = 1 := by
        simp only [evStep, h1, hd, sub_zero, mul_one]
      have h := ih (evStep env L r s a) hact hl'
      rw [hsa] at h
      have hfe : firstEp (arStep env L r s.ar a :: traceFrom env L r (arStep env L r s.ar a) as)
          = arStep env L r s.ar a :: firstEp (traceFrom env L r (arStep env L r s.ar a) as) := by
        simp only [firstEp, takeThrough, hd, ne_eq, not_true_eq_false, decide_false,
          Bool.false_eq_true, if_false]
      rw [h, hfe, List.foldl_cons, hsm]
    · have hact : (evStep env L r s a).active = 0 := by
        simp only [evStep, hd, sub_self, mul_zero]
      have h := evFold_frozen_metrics env hm L r (evStep env L r s a) hact hl' as
      have hfe : firstEp (arStep env L r s.ar a :: traceFrom env L r (arStep env L r s.ar a) as)
          = [arStep env L r s.ar a] := by
        simp only [firstEp, takeThrough, hd, ne_eq, one_ne_zero, not_false_eq_true, decide_true,
          if_true]
      rw [h, hfe, hsm]; rfl

end ring

section ring
variable [CommRing R] [LinearOrder R] [IsStrictOrderedRing R]

/-! ### episode log -/

theorem chunkOf_lastDone (env : Env K P O X R A) (a : A) (q : Nat) (s : St P O X R) :
    (chunkOf env a (q + 1) s).lastDone = (iter env a (q + 1) s).done := by
  simp only [chunkOf, Chunk.lastDone, List.range_succ, List.map_append, List.map_cons,
    List.map_nil, List.getLast?_append, List.getLast?_singleton, Option.some_or, Option.map_some,
    Option.getD_some]

theorem chunkOf_rewards (env : Env K P O X R A) (a : A) (r : Nat) (s : St P O X R) :
    (chunkOf env a r s).map (·.1) = (List.range r).map fun i => (iter env a (i + 1) s).reward := by
  simp only [chunkOf, List.map_map, Function.comp_def]


theorem trace_matches_spec (env : Env K P O X R A) {L r : Nat} (hL : 1 ≤ L) (hr : 1 ≤ r)
    (s : ArSt P O X R) (c : Nat) (hinv : Inv L r (s, c)) (as : List A) :
    (traceFrom env L r s as).map ArSt.report
      = (specSteps L r (if s.done = 0 then c else 0) (chunksFrom env L r s as)).map StepOut.toR := by
  induction as generalizing s c with
  | nil => rfl
  | cons a as ih =>
    obtain ⟨q, rfl⟩ : ∃ q, r = q + 1 := ⟨r - 1, by omega⟩
    have hinv' := inv_step env hL (s, c) hinv a
    simp only [stepC] at hinv'
    generalize hk : (if s.done = 0 then c else 0) = k at hinv'
    have hsteps : (arStep env L (q + 1) s a).steps = (((k + 1) * (q + 1) : Nat) : R) := hinv'.steps
    have hcut : ((L : R) ≤ (arStep env L (q + 1) s a).steps) ↔ L ≤ (k + 1) * (q + 1) := by
      rw [hsteps, Nat.cast_le]
    have hd : (arStep env L (q + 1) s a).done
        = if L ≤ (k + 1) * (q + 1) then 1 else (chunkOf env a (q + 1) s.inner).lastDone := by
      rw [done_eq, chunkOf_lastDone]; simp only [hcut]
    have ht : (arStep env L (q + 1) s a).truncation
        = if L ≤ (k + 1) * (q + 1) then 1 - (chunkOf env a (q + 1) s.inner).lastDone else 0 := by
      rw [truncation_eq, chunkOf_lastDone]; simp only [hcut]
    have hrw : (arStep env L (q + 1) s a).reward
        = sumList ((chunkOf env a (q + 1) s.inner).map (·.1)) := by
      rw [reward_eq, chunkOf_rewards, sumList_eq_sum]
    simp only [traceFrom, chunksFrom, specSteps, List.map_cons, decide_eq_true_eq]
    rw [ih (arStep env L (q + 1) s a) (k + 1) hinv', hd]
    congr 1
    simp only [ArSt.report, StepOut.toR, hrw, hsteps, hd, ht]

theorem splitByDone_spec (L r : Nat) (k : Nat) (cur : List R) (cs : List (Chunk R)) :
    splitByDone cur ((specSteps L r k cs).map (·.done)) cs = episodeLogAux L r k cur cs := by
  induction cs generalizing k cur with
  | nil => rfl
  | cons c cs ih =>
    simp only [specSteps, List.map_cons, splitByDone, episodeLogAux, decide_eq_true_eq]
    by_cases hcut : L ≤ (k + 1) * r
    · simp only [hcut, if_true, one_ne_zero, if_false, true_or, ih]
    · by_cases hl : c.lastDone = 0
      · simp only [hcut, if_false, hl, if_true, ne_eq, not_true_eq_false, or_self, ih]
      · simp only [hcut, if_false, hl, ne_eq, not_false_eq_true, or_true, if_true, ih]

end ring

/-! ### batched layout -/

theorem zw3_map {ι α β γ δ : Type} (f : α → β → γ → δ) (g₁ : ι → α) (g₂ : ι → β) (g₃ : ι → γ)
    (l : List ι) :
    zw3 f (l.map g₁) (l.map g₂) (l.map g₃) = l.map fun x => f (g₁ x) (g₂ x) (g₃ x) := by
  induction l with
  | nil => rfl
  | cons x xs ih => simp only [List.map_cons, zw3, ih]

theorem where3_map {ι α : Type} (c : ι → Bool) (g₂ g₃ : ι → α) (l : List ι) :
    where3 (l.map c) (l.map g₂) (l.map g₃) = l.map fun x => if c x then g₂ x else g₃ x :=
  zw3_map _ c g₂ g₃ l

theorem zipWith_map_map {ι α β γ : Type} (f : α → β → γ) (g₁ : ι → α) (g₂ : ι → β) (l : List ι) :
    List.zipWith f (l.map g₁) (l.map g₂) = l.map fun x => f (g₁ x) (g₂ x) := by
  induction l with
  | nil => rfl
  | cons x xs ih => simp only [List.map_cons, List.zipWith_cons_cons, ih]

theorem where3_replicate {α : Type} (c : Bool) (x y : List α) (h : x.length = y.length) :
    where3 (List.replicate x.length c) x y = if c then x else y := by
  induction x generalizing y with
  | nil =>
    cases y with
    | nil => cases c <;> rfl
    | cons _ _ => simp at h
  | cons a as ih =>
    cases y with
    | nil => simp at h
    | cons b bs =>
      have := ih bs (by simpa using h)
      simp only [where3] at this
      simp only [where3, List.length_cons, List.replicate_succ, zw3, this]
      cases c <;> rfl

theorem whereDoneRows_map {ι α : Type} (c : ι → Bool) (g₂ g₃ : ι → List α) (l : List ι)
    (h : ∀ x ∈ l, (g₂ x).length = (g₃ x).length) :
    whereDoneRows (l.map c) (l.map g₂) (l.map g₃) = l.map fun x => if c x then g₂ x else g₃ x := by
  simp only [whereDoneRows, zipWith_map_map, zw3_map]
  apply List.map_congr_left
  intro x hx
  exact where3_replicate _ _ _ (h x hx)

theorem members_stack (l : List (St P (List R) X R)) : (BSt.stack l).members = l := by
  induction l with
  | nil => rfl
  | cons x xs ih =>
    simp only [BSt.members, BSt.stack, List.map_cons, membersAux] at ih ⊢
    rw [ih]

theorem vmapStep_stack {ι : Type} (env : BEnv K P X R A) (l : List ι)
    (g : ι → St P (List R) X R) (h : ι → A) :
    vmapStep env (BSt.stack (l.map g)) (l.map h) = BSt.stack (l.map fun x => env.step (g x) (h x)) := by
  simp only [vmapStep, members_stack, zipWith_map_map]

section ring
variable [CommRing R] [LinearOrder R] [IsStrictOrderedRing R]

theorem bScan_map {ι : Type} (env : BEnv K P X R A) (n : Nat) (l : List ι) (acc : ι → R)
    (g : ι → St P (List R) X R) (h : ι → A) :
    (bScanRepeat env (l.map h) n (BSt.stack (l.map g))).1
      = BSt.stack (l.map fun x => (scanRepeat env (h x) n (g x)).1) ∧
    (bScanRepeat env (l.map h) n (BSt.stack (l.map g))).2.foldl (List.zipWith (· + ·)) (l.map acc)
      = l.map fun x => (scanRepeat env (h x) n (g x)).2.foldl (· + ·) (acc x) := by
  induction n generalizing acc g with
  | zero => exact ⟨rfl, rfl⟩
  | succ n ih =>
    simp only [bScanRepeat, scanRepeat, vmapStep_stack, List.foldl_cons]
    refine ⟨(ih acc _).1, ?_⟩
    have : (BSt.stack (l.map fun x => env.step (g x) (h x))).reward
        = l.map fun x => (env.step (g x) (h x)).reward := by
      simp only [BSt.stack, List.map_map, Function.comp_def]
    rw [this, zipWith_map_map]
    exact (ih _ _).2

theorem bEpStep_map {ι : Type} (env : BEnv K P X R A) (L r : Nat) (l : List ι)
    (g : ι → EpSt P (List R) X R) (h : ι → A) :
    bEpStep env L r (BEpSt.stack (l.map g)) (l.map h)
      = BEpSt.stack (l.map fun x => epStep env L r (g x) (h x)) := by
  have hs := bScan_map env r l (fun _ => (0 : R)) (fun x => (g x).st) h
  simp only [bEpStep, BEpSt.stack, List.map_map, Function.comp_def, hs.1, sumAxis0]
  have hB : (BSt.stack (l.map fun x => (g x).st)).reward.length = l.length := by
    simp only [BSt.stack, List.length_map]
  rw [hB, ← List.map_const', hs.2]
  simp only [BSt.stack, List.map_map, Function.comp_def, where3_map, epStep, sumList]
  simp only [decide_eq_true_eq]

theorem bArStep_map {ι : Type} (env : BEnv K P X R A) (L r : Nat) (l : List ι)
    (g : ι → ArSt P (List R) X R) (h : ι → A)
    (hlen : ∀ x ∈ l, (g x).firstObs.length = (epStep env L r (arPre (g x)) (h x)).st.obs.length) :
    bArStep env L r (BArSt.stack (l.map g)) (l.map h)
      = BArSt.stack (l.map fun x => arStep env L r (g x) (h x)) := by
  have hpre : ({ (BArSt.stack (l.map g)).ep with
        steps := where3 ((BArSt.stack (l.map g)).ep.st.done.map nz)
          ((BArSt.stack (l.map g)).ep.steps.map fun _ => (0 : R)) (BArSt.stack (l.map g)).ep.steps,
        st := { (BArSt.stack (l.map g)).ep.st with
          done := (BArSt.stack (l.map g)).ep.st.done.map fun _ => 0 } } : BEpSt P X R)
      = BEpSt.stack (l.map fun x => arPre (g x)) := by
    simp only [BArSt.stack, BEpSt.stack, BSt.stack, List.map_map, Function.comp_def, where3_map,
      arPre, whereNZ, nz]
    congr 1
    apply List.map_congr_left
    intro x _
    by_cases hd : (g x).ep.st.done = 0 <;> simp [hd]
  simp only [bArStep]
  rw [hpre, bEpStep_map]
  simp only [BArSt.stack, BEpSt.stack, BSt.stack, List.map_map, Function.comp_def, where3_map,
    arStep]
  rw [whereDoneRows_map _ _ _ l hlen]
  simp only [whereNZ, nz, ne_eq, decide_not, Bool.not_eq_eq_eq_not, Bool.not_true,
    decide_eq_false_iff_not, ite_not]

theorem bEvStep_map {ι : Type} (env : BEnv K P X R A) (L r : Nat) (l : List ι)
    (g : ι → EvSt P (List R) X R) (h : ι → A)
    (hlen : ∀ x ∈ l,
      (g x).ar.firstObs.length = (epStep env L r (arPre (g x).ar) (h x)).st.obs.length) :
    bEvStep env L r (BEvSt.stack (l.map g)) (l.map h)
      = BEvSt.stack (l.map fun x => evStep env L r (g x) (h x)) := by
  have har := bArStep_map env L r l (fun x => (g x).ar) h hlen
  simp only [bEvStep, BEvSt.stack, List.map_map, Function.comp_def, har]
  simp only [BArSt.stack, BEpSt.stack, BSt.stack, List.map_map, Function.comp_def, zw3_map,
    where3_map, zipWith_map_map, evStep, whereNZ, nz, ne_eq, decide_not, Bool.not_eq_eq_eq_not,
    Bool.not_true, decide_eq_false_iff_not, ite_not]

theorem bArReset_eq (env : BEnv K P X R A) (ks : List K) :
    bArReset env ks = BArSt.stack (ks.map (arReset env)) := by
  simp only [bArReset, bEpReset, vmapReset, BArSt.stack, BEpSt.stack, BSt.stack, List.map_map,
    Function.comp_def, arReset, epReset, List.map_const']

theorem bEvReset_eq (env : BEnv K P X R A) (ks : List K) :
    bEvReset env ks = BEvSt.stack (ks.map (evReset env)) := by
  simp only [bEvReset, bArReset_eq, BEvSt.stack, BArSt.stack, BEpSt.stack, BSt.stack,
    List.map_map, Function.comp_def, evReset, arReset, epReset, ArSt.reward, ArSt.metrics]

/-- member states whose observation rows have the environment's observation size -/
def WFm (n : Nat) (s : ArSt P (List R) X R) : Prop := s.firstObs.length = n ∧ s.obs.length = n

theorem iter_obs_len (env : BEnv K P X R A) (n : Nat)
    (hstep : ∀ s a, (env.step s a).obs.length = n) (a : A) (i : Nat) (s : St P (List R) X R)
    (hs : s.obs.length = n) : (iter env a i s).obs.length = n := by
  induction i generalizing s with
  | zero => exact hs
  | succ i ih => exact ih _ (hstep s a)

theorem wfm_inner (env : BEnv K P X R A) (n : Nat)
    (hstep : ∀ s a, (env.step s a).obs.length = n) (L r : Nat) (s : ArSt P (List R) X R)
    (hs : WFm n s) (a : A) : (epStep env L r (arPre s) a).st.obs.length = n := by
  simp only [epStep, scanRepeat_fst]
  exact iter_obs_len env n hstep a r _ hs.2

theorem wfm_step (env : BEnv K P X R A) (n : Nat)
    (hstep : ∀ s a, (env.step s a).obs.length = n) (L r : Nat) (s : ArSt P (List R) X R)
    (hs : WFm n s) (a : A) : WFm n (arStep env L r s a) := by
  refine ⟨hs.1, ?_⟩
  have := wfm_inner env n hstep L r s hs a
  simp only [arStep, ArSt.obs, whereNZ]
  split
  · exact this
  · exact hs.1

theorem zipWith_eq_map_zip' {α β γ : Type} (f : α → β → γ) (l : List α) (m : List β) :
    List.zipWith f l m = (l.zip m).map fun p => f p.1 p.2 := by
  induction l generalizing m with
  | nil => rfl
  | cons x xs ih => cases m with
    | nil => rfl
    | cons y ys => simp only [List.zipWith_cons_cons, List.zip_cons_cons, List.map_cons, ih]

theorem forall_mem_zipWith {α β γ : Type} (f : α → β → γ) (Q : γ → Prop) (l : List α)
    (m : List β) (h : ∀ x ∈ l, ∀ y, Q (f x y)) : ∀ z ∈ List.zipWith f l m, Q z := by
  induction l generalizing m with
  | nil => intro z hz; simp at hz
  | cons x xs ih => cases m with
    | nil => intro z hz; simp at hz
    | cons y ys =>
      intro z hz
      simp only [List.zipWith_cons_cons, List.mem_cons] at hz
      rcases hz with rfl | hz
      · exact h x List.mem_cons_self y
      · exact ih ys (fun x hx => h x (List.mem_cons_of_mem _ hx)) z hz

theorem bArStep_zip (env : BEnv K P X R A) (n : Nat)
    (hstep : ∀ s a, (env.step s a).obs.length = n) (L r : Nat) (l : List (ArSt P (List R) X R))
    (hl : ∀ s ∈ l, WFm n s) (as : List A) (hlen : as.length = l.length) :
    bArStep env L r (BArSt.stack l) as = BArSt.stack (List.zipWith (arStep env L r) l as) := by
  have h1 : l = (l.zip as).map (·.1) := (List.map_fst_zip (by omega)).symm
  have h2 : as = (l.zip as).map (·.2) := (List.map_snd_zip (by omega)).symm
  rw [zipWith_eq_map_zip']
  have key := bArStep_map env L r (l.zip as) (·.1) (·.2) ?_
  · rwa [← h1, ← h2] at key
  intro p hp
  have hw := hl p.1 (List.of_mem_zip hp).1
  rw [wfm_inner env n hstep L r p.1 hw]; exact hw.1

theorem bRun_foldl (env : BEnv K P X R A) (n : Nat)
    (hstep : ∀ s a, (env.step s a).obs.length = n) (L r : Nat) (hist : List (List A))
    (l : List (ArSt P (List R) X R)) (hl : ∀ s ∈ l, WFm n s)
    (hshape : ∀ as ∈ hist, as.length = l.length) :
    hist.foldl (bArStep env L r) (BArSt.stack l)
      = BArSt.stack (hist.foldl (fun l as => List.zipWith (arStep env L r) l as) l) := by
  induction hist generalizing l with
  | nil => rfl
  | cons as hist ih =>
    have hlen := hshape as List.mem_cons_self
    simp only [List.foldl_cons]
    rw [bArStep_zip env n hstep L r l hl as hlen]
    apply ih
    · exact forall_mem_zipWith _ _ _ _ (fun s hs a => wfm_step env n hstep L r s (hl s hs) a)
    · intro bs hbs
      rw [List.length_zipWith, hlen, Nat.min_self]
      exact hshape bs (List.mem_cons_of_mem _ hbs)

theorem bEvStep_zip (env : BEnv K P X R A) (n : Nat)
    (hstep : ∀ s a, (env.step s a).obs.length = n) (L r : Nat) (l : List (EvSt P (List R) X R))
    (hl : ∀ s ∈ l, WFm n s.ar) (as : List A) (hlen : as.length = l.length) :
    bEvStep env L r (BEvSt.stack l) as = BEvSt.stack (List.zipWith (evStep env L r) l as) := by
  have h1 : l = (l.zip as).map (·.1) := (List.map_fst_zip (by omega)).symm
  have h2 : as = (l.zip as).map (·.2) := (List.map_snd_zip (by omega)).symm
  rw [zipWith_eq_map_zip']
  have key := bEvStep_map env L r (l.zip as) (·.1) (·.2) ?_
  · rwa [← h1, ← h2] at key
  intro p hp
  have hw := hl p.1 (List.of_mem_zip hp).1
  rw [wfm_inner env n hstep L r p.1.ar hw]; exact hw.1

theorem bEvRun_foldl (env : BEnv K P X R A) (n : Nat)
    (hstep : ∀ s a, (env.step s a).obs.length = n) (L r : Nat) (hist : List (List A))
    (l : List (EvSt P (List R) X R)) (hl : ∀ s ∈ l, WFm n s.ar)
    (hshape : ∀ as ∈ hist, as.length = l.length) :
    hist.foldl (bEvStep env L r) (BEvSt.stack l)
      = BEvSt.stack (hist.foldl (fun l as => List.zipWith (evStep env L r) l as) l) := by
  induction hist generalizing l with
  | nil => rfl
  | cons as hist ih =>
    have hlen := hshape as List.mem_cons_self
    simp only [List.foldl_cons]
    rw [bEvStep_zip env n hstep L r l hl as hlen]
    apply ih
    · exact forall_mem_zipWith (evStep env L r) (fun (s : EvSt P (List R) X R) => WFm n s.ar) _ _
        (fun s hs a => wfm_step env n hstep L r s.ar (hl s hs) a)
    · intro bs hbs
      rw [List.length_zipWith, hlen, Nat.min_self]
      exact hshape bs (List.mem_cons_of_mem _ hbs)

/-- member `i` of member-wise runs is the run on column `i` of the history -/
theorem foldl_zipWith_getElem? {σ α : Type} (f : σ → α → σ) (hist : List (List α)) (l : List σ)
    (i : Nat) (s : σ) (col : List α) (hs : l[i]? = some s)
    (hcol : hist.map (·[i]?) = col.map some) :
    (hist.foldl (fun l as => List.zipWith f l as) l)[i]? = some (col.foldl f s) := by
  induction hist generalizing l s col with
  | nil =>
    cases col with
    | nil => exact hs
    | cons _ _ => simp at hcol
  | cons as hist ih =>
    cases col with
    | nil => simp at hcol
    | cons c cs =>
      simp only [List.map_cons, List.cons.injEq] at hcol
      simp only [List.foldl_cons]
      apply ih _ _ cs _ hcol.2
      rw [List.getElem?_zipWith, hs, hcol.1]

end ring
end Brax.C15

/-! # Deepening (round 2): whole `generate_unroll`, batched unroll = map, evaluation accumulators
without the global 0/1 assumption, counting lemmas for the `Evaluator` horizon -/
namespace Brax.C15
variable {K P O X R A : Type}

/-! ### `generate_unroll` as a whole (any view / step / policy / key splitting) -/
section unrollGen
variable {S Ky : Type} [One R] [Sub R]

/-- the key carried by `generate_unroll` after `t` iterations (`next_key` of every split) -/
def keyAt (split : Ky → Ky × Ky) : Nat → Ky → Ky
  | 0, key => key
  | t + 1, key => keyAt split t (split key).2

/-- result `(nstate, transition)` of the `t`-th (0-based) `actor_step` of `generate_unroll` -/
def unrollAt (v : View S O R) (step : S → A → S) (π : O → Ky → A) (split : Ky → Ky × Ky) :
    Nat → S → Ky → S × Transition O A R
  | 0, s, key => actorStep v step π s (split key).1
  | t + 1, s, key =>
    unrollAt v step π split t (actorStep v step π s (split key).1).1 (split key).2

/-- the actions the policy chose along an unroll of length `n` -/
def unrollActs (v : View S O R) (step : S → A → S) (π : O → Ky → A) (split : Ky → Ky × Ky)
    (n : Nat) (s : S) (key : Ky) : List A :=
  (unroll v step π split n s key).2.map (·.action)

variable (v : View S O R) (step : S → A → S) (π : O → Ky → A) (split : Ky → Ky × Ky)

theorem unroll_snd_eq_range (n : Nat) (s : S) (key : Ky) :
    (unroll v step π split n s key).2
      = (List.range n).map fun t => (unrollAt v step π split t s key).2 := by
  induction n generalizing s key with
  | zero => rfl
  | succ n ih =>
    simp only [unroll, List.range_succ_eq_map, List.map_cons, List.map_map, ih]
    rfl

theorem unroll_length (n : Nat) (s : S) (key : Ky) :
    (unroll v step π split n s key).2.length = n := by
  rw [unroll_snd_eq_range, List.length_map, List.length_range]

theorem unroll_fst_succ (t : Nat) (s : S) (key : Ky) :
    (unroll v step π split (t + 1) s key).1 = (unrollAt v step π split t s key).1 := by
  induction t generalizing s key with
  | zero => rfl
  | succ t ih =>
    show (unroll v step π split (t + 1) _ _).1 = _
    rw [ih]; rfl

/-- the `t`-th `actor_step` acts on the state reached by the unroll of length `t`, with the
first half of the split of the carried key -/
theorem unrollAt_eq (t : Nat) (s : S) (key : Ky) :
    unrollAt v step π split t s key
      = actorStep v step π (unroll v step π split t s key).1 (split (keyAt split t key)).1 := by
  induction t generalizing s key with
  | zero => rfl
  | succ t ih =>
    show unrollAt v step π split t _ _ = _
    rw [ih]; rfl

theorem unrollActs_succ (t : Nat) (s : S) (key : Ky) :
    unrollActs v step π split (t + 1) s key
      = unrollActs v step π split t s key ++ [(unrollAt v step π split t s key).2.action] := by
  simp only [unrollActs, unroll_snd_eq_range, List.range_succ, List.map_append, List.map_cons,
    List.map_nil]

theorem unrollActs_length (n : Nat) (s : S) (key : Ky) :
    (unrollActs v step π split n s key).length = n := by
  rw [unrollActs, List.length_map, unroll_length]

/-- the state returned by an unroll is the fold of the environment step over the chosen actions -/
theorem unroll_fst_foldl (n : Nat) (s : S) (key : Ky) :
    (unroll v step π split n s key).1 = (unrollActs v step π split n s key).foldl step s := by
  induction n with
  | zero => rfl
  | succ n ih =>
    rw [unrollActs_succ, List.foldl_append, ← ih, unroll_fst_succ, unrollAt_eq]
    rfl

theorem unroll_getElem? (n t : Nat) (ht : t < n) (s : S) (key : Ky) :
    (unroll v step π split n s key).2[t]? = some (unrollAt v step π split t s key).2 := by
  rw [unroll_snd_eq_range, List.getElem?_map, List.getElem?_range ht]; rfl

end unrollGen

/-! ### batched `generate_unroll` = map of the single-member unrolls (generic in the wrapper stack) -/
section bUnrollGen
variable {S BS ι Ky : Type}

/-- a policy acting member-wise with one (possibly different) member policy per batch row -/
def polZip (πs : List (List R → Ky → A)) : List (List R) → Ky → List A :=
  fun obs key => List.zipWith (fun π o => π o key) πs obs

variable [One R] [Sub R]

theorem bActorStep_map_gen (stack : List S → BS) (v : View S (List R) R) (bv : BView BS R)
    (step : S → A → S) (bstep : BS → List A → BS)
    (hobs : ∀ m, bv.obs (stack m) = m.map v.obs) (hrew : ∀ m, bv.reward (stack m) = m.map v.reward)
    (hdone : ∀ m, bv.done (stack m) = m.map v.done)
    (htr : ∀ m, bv.truncation (stack m) = m.map v.truncation)
    (l : List ι) (p : ι → List R → Ky → A) (pol : List (List R) → Ky → List A)
    (hpol : ∀ (f : ι → List R) key, pol (l.map f) key = l.map fun x => p x (f x) key)
    (g : ι → S) (key : Ky)
    (hstep : bstep (stack (l.map g)) (l.map fun x => p x (v.obs (g x)) key)
      = stack (l.map fun x => step (g x) (p x (v.obs (g x)) key))) :
    bActorStep bv bstep pol (stack (l.map g)) key
      = (stack (l.map fun x => (actorStep v step (p x) (g x) key).1),
         BTransition.stack (l.map fun x => (actorStep v step (p x) (g x) key).2)) := by
  have h1 : pol (l.map fun x => v.obs (g x)) key = l.map fun x => p x (v.obs (g x)) key :=
    hpol _ key
  simp only [bActorStep, hobs, List.map_map, Function.comp_def, h1, hstep, hrew, hdone, htr,
    actorStep, BTransition.stack]

theorem bUnroll_map_gen (stack : List S → BS) (v : View S (List R) R) (bv : BView BS R)
    (step : S → A → S) (bstep : BS → List A → BS) (Q : S → Prop)
    (hobs : ∀ m, bv.obs (stack m) = m.map v.obs) (hrew : ∀ m, bv.reward (stack m) = m.map v.reward)
    (hdone : ∀ m, bv.done (stack m) = m.map v.done)
    (htr : ∀ m, bv.truncation (stack m) = m.map v.truncation)
    (hQ : ∀ s a, Q s → Q (step s a))
    (l : List ι) (p : ι → List R → Ky → A) (pol : List (List R) → Ky → List A)
    (hpol : ∀ (f : ι → List R) key, pol (l.map f) key = l.map fun x => p x (f x) key)
    (hstep : ∀ (g : ι → S) (h : ι → A), (∀ x ∈ l, Q (g x)) →
      bstep (stack (l.map g)) (l.map h) = stack (l.map fun x => step (g x) (h x)))
    (split : Ky → Ky × Ky) (n : Nat) (g : ι → S) (hg : ∀ x ∈ l, Q (g x)) (key : Ky) :
    bUnroll bv bstep pol split n (stack (l.map g)) key
      = (stack (l.map fun x => (unroll v step (p x) split n (g x) key).1),
         (List.range n).map fun t =>
           BTransition.stack (l.map fun x => (unrollAt v step (p x) split t (g x) key).2)) := by
  induction n generalizing g key with
  | zero => rfl
  | succ n ih =>
    have hs := bActorStep_map_gen stack v bv step bstep hobs hrew hdone htr l p pol hpol g
      (split key).1 (hstep g _ hg)
    have hg' : ∀ x ∈ l, Q ((actorStep v step (p x) (g x) (split key).1).1) :=
      fun x hx => hQ _ _ (hg x hx)
    have := ih (fun x => (actorStep v step (p x) (g x) (split key).1).1) hg' (split key).2
    simp only [bUnroll, hs, this, List.range_succ_eq_map, List.map_cons, List.map_map]
    rfl

end bUnrollGen

/-! ### the two wrapper stacks as instances -/
section ring
variable [CommRing R] [LinearOrder R] [IsStrictOrderedRing R] {ι Ky : Type}

theorem bUnroll_ar_map (env : BEnv K P X R A) (n : Nat)
    (hstep : ∀ s a, (env.step s a).obs.length = n) (L r : Nat)
    (l : List ι) (p : ι → List R → Ky → A) (pol : List (List R) → Ky → List A)
    (hpol : ∀ (f : ι → List R) key, pol (l.map f) key = l.map fun x => p x (f x) key)
    (split : Ky → Ky × Ky) (N : Nat) (g : ι → ArSt P (List R) X R)
    (hg : ∀ x ∈ l, WFm n (g x)) (key : Ky) :
    bUnroll bArView (bArStep env L r) pol split N (BArSt.stack (l.map g)) key
      = (BArSt.stack (l.map fun x => (unroll arView (arStep env L r) (p x) split N (g x) key).1),
         (List.range N).map fun t => BTransition.stack
           (l.map fun x => (unrollAt arView (arStep env L r) (p x) split t (g x) key).2)) := by
  apply bUnroll_map_gen BArSt.stack arView bArView (arStep env L r) (bArStep env L r) (WFm n)
  · intro m; simp only [bArView, arView, BArSt.stack, BEpSt.stack, BSt.stack, List.map_map,
      Function.comp_def]
  · intro m; simp only [bArView, arView, BArSt.stack, BEpSt.stack, BSt.stack, List.map_map,
      Function.comp_def]
  · intro m; simp only [bArView, arView, BArSt.stack, BEpSt.stack, BSt.stack, List.map_map,
      Function.comp_def]
  · intro m; simp only [bArView, arView, BArSt.stack, BEpSt.stack, BSt.stack, List.map_map,
      Function.comp_def]
  · exact fun s a hs => wfm_step env n hstep L r s hs a
  · exact hpol
  · intro g h hg
    exact bArStep_map env L r l g h (fun x hx => by
      rw [wfm_inner env n hstep L r (g x) (hg x hx)]; exact (hg x hx).1)
  · exact hg

theorem bUnroll_ev_map (env : BEnv K P X R A) (n : Nat)
    (hstep : ∀ s a, (env.step s a).obs.length = n) (L r : Nat)
    (l : List ι) (p : ι → List R → Ky → A) (pol : List (List R) → Ky → List A)
    (hpol : ∀ (f : ι → List R) key, pol (l.map f) key = l.map fun x => p x (f x) key)
    (split : Ky → Ky × Ky) (N : Nat) (g : ι → EvSt P (List R) X R)
    (hg : ∀ x ∈ l, WFm n (g x).ar) (key : Ky) :
    bUnroll bEvView (bEvStep env L r) pol split N (BEvSt.stack (l.map g)) key
      = (BEvSt.stack (l.map fun x => (unroll evView (evStep env L r) (p x) split N (g x) key).1),
         (List.range N).map fun t => BTransition.stack
           (l.map fun x => (unrollAt evView (evStep env L r) (p x) split t (g x) key).2)) := by
  apply bUnroll_map_gen BEvSt.stack evView bEvView (evStep env L r) (bEvStep env L r)
    (fun s => WFm n s.ar)
  · intro m; simp only [bEvView, evView, BEvSt.stack, BArSt.stack, BEpSt.stack, BSt.stack,
      List.map_map, Function.comp_def]
  · intro m; simp only [bEvView, evView, BEvSt.stack, BArSt.stack, BEpSt.stack, BSt.stack,
      List.map_map, Function.comp_def]
  · intro m; simp only [bEvView, evView, BEvSt.stack, BArSt.stack, BEpSt.stack, BSt.stack,
      List.map_map, Function.comp_def]
  · intro m; simp only [bEvView, evView, BEvSt.stack, BArSt.stack, BEpSt.stack, BSt.stack,
      List.map_map, Function.comp_def]
  · exact fun s a hs => wfm_step env n hstep L r s.ar hs a
  · exact hpol
  · intro g h hg
    exact bEvStep_map env L r l g h (fun x hx => by
      rw [wfm_inner env n hstep L r (g x).ar (hg x hx)]; exact (hg x hx).1)
  · exact hg

theorem bEvalRun_map_gen (env : BEnv K P X R A) (n : Nat)
    (hreset : ∀ k, (env.reset k).obs.length = n) (hstep : ∀ s a, (env.step s a).obs.length = n)
    (L r : Nat) (l : List ι) (p : ι → List R → Ky → A) (pol : List (List R) → Ky → List A)
    (hpol : ∀ (f : ι → List R) key, pol (l.map f) key = l.map fun x => p x (f x) key)
    (split : Ky → Ky × Ky) (kf : ι → K) (key : Ky) :
    bEvalRun env L r pol split (l.map kf) key
      = BEvSt.stack (l.map fun x => evalRun env L r (p x) split (kf x) key) := by
  rw [bEvalRun, bEvReset_eq, List.map_map,
    bUnroll_ev_map env n hstep L r l p pol hpol split (L / r) (evReset env ∘ kf)
      (fun x _ => ⟨hreset _, hreset _⟩) key]
  rfl

theorem polZip_map (l : List ι) (p : ι → List R → Ky → A) (f : ι → List R) (key : Ky) :
    polZip (l.map p) (l.map f) key = l.map fun x => p x (f x) key := by
  simp only [polZip, zipWith_map_map]

end ring

/-! ### evaluation accumulators without the global 0/1 assumption -/
section ring
variable [CommRing R] [LinearOrder R] [IsStrictOrderedRing R]

theorem firstEp_cons_mem (x : ArSt P O X R) (tr : List (ArSt P O X R)) : x ∈ firstEp (x :: tr) := by
  simp only [firstEp, takeThrough]
  split <;> simp

theorem firstEp_cons_zero (x : ArSt P O X R) (tr : List (ArSt P O X R)) (hd : x.done = 0) :
    firstEp (x :: tr) = x :: firstEp tr := by
  simp only [firstEp, takeThrough, hd, ne_eq, not_true_eq_false, decide_false,
    Bool.false_eq_true, if_false]

theorem firstEp_cons_ne (x : ArSt P O X R) (tr : List (ArSt P O X R)) (hd : x.done ≠ 0) :
    firstEp (x :: tr) = [x] := by
  simp only [firstEp, takeThrough, hd, ne_eq, not_false_eq_true, decide_true, if_true]

/-- `evFold_active` with the hypothesis only on the wrapped `done` flags of the first episode of
the history at hand (in fact: on its closing flag) -/
theorem evFold_active' (env : Env K P O X R A) (L r : Nat)
    (s : EvSt P O X R) (h1 : s.active = 1) (as : List A)
    (hb : ∀ t ∈ firstEp (traceFrom env L r s.ar as), t.done = 0 ∨ t.done = 1) :
    (as.foldl (evStep env L r) s).emReward
      = s.emReward + ((firstEp (traceFrom env L r s.ar as)).map (·.reward)).sum ∧
    (as.foldl (evStep env L r) s).active
      = (if (traceFrom env L r s.ar as).any (fun t => decide (t.done ≠ 0)) then 0 else 1) ∧
    (as.foldl (evStep env L r) s).episodeSteps
      = (((firstEp (traceFrom env L r s.ar as)).getLast?).map (·.steps)).getD s.episodeSteps := by
  induction as generalizing s with
  | nil => simp [traceFrom, firstEp, takeThrough, h1]
  | cons a as ih =>
    simp only [List.foldl_cons, traceFrom] at hb ⊢
    have hsr : (evStep env L r s a).emReward = s.emReward + (arStep env L r s.ar a).reward := by
      simp only [evStep, h1, mul_one]
    have hss : (evStep env L r s a).episodeSteps = (arStep env L r s.ar a).steps := by
      simp only [evStep, h1, whereNZ, one_ne_zero, if_false]
    have hsa : (evStep env L r s a).ar = arStep env L r s.ar a := rfl
    rcases hb _ (firstEp_cons_mem _ _) with hd | hd
    · have hact : (evStep env L r s a).active = 1 := by
        simp only [evStep, h1, hd, sub_zero, mul_one]
      have hfe := firstEp_cons_zero _ (traceFrom env L r (arStep env L r s.ar a) as) hd
      have h := ih (evStep env L r s a) hact (by
        intro t ht; rw [hsa] at ht; apply hb; rw [hfe]; exact List.mem_cons_of_mem _ ht)
      rw [hsa] at h
      refine ⟨?_, ?_, ?_⟩
      · rw [h.1, hfe, hsr, List.map_cons, List.sum_cons, add_assoc]
      · rw [h.2.1]
        simp only [List.any_cons, hd, ne_eq, not_true_eq_false, decide_false, Bool.false_or]
      · rw [h.2.2, hfe, getLast_cons_getD, hss]
    · have hact : (evStep env L r s a).active = 0 := by
        simp only [evStep, hd, sub_self, mul_zero]
      have h := evFold_frozen env L r (evStep env L r s a) hact as
      have hfe := firstEp_cons_ne _ (traceFrom env L r (arStep env L r s.ar a) as)
        (by rw [hd]; exact one_ne_zero)
      refine ⟨?_, ?_, ?_⟩
      · rw [h.2.1, hfe, hsr]; simp
      · rw [h.1]
        simp only [List.any_cons, hd, ne_eq, one_ne_zero, not_false_eq_true, decide_true,
          Bool.true_or, if_true]
      · rw [h.2.2, hfe, hss]; simp

theorem evFold_active_metrics' (env : Env K P O X R A)
    (hm : ∀ s a, (env.step s a).metrics.length = s.metrics.length) (L r : Nat)
    (s : EvSt P O X R) (h1 : s.active = 1) (hl : s.emMetrics.length = s.ar.metrics.length)
    (as : List A)
    (hb : ∀ t ∈ firstEp (traceFrom env L r s.ar as), t.done = 0 ∨ t.done = 1) :
    (as.foldl (evStep env L r) s).emMetrics
      = (firstEp (traceFrom env L r s.ar as)).foldl
          (fun acc t => List.zipWith (· + ·) acc t.metrics) s.emMetrics := by
  induction as generalizing s with
  | nil => simp [traceFrom, firstEp, takeThrough]
  | cons a as ih =>
    simp only [List.foldl_cons, traceFrom] at hb ⊢
    have hsm : (evStep env L r s a).emMetrics
        = List.zipWith (· + ·) s.emMetrics (arStep env L r s.ar a).metrics := by
      simp only [evStep, h1, mul_one]
    have hsa : (evStep env L r s a).ar = arStep env L r s.ar a := rfl
    have hl' : (evStep env L r s a).emMetrics.length = (evStep env L r s a).ar.metrics.length := by
      rw [hsm, hsa, List.length_zipWith, hl, metrics_len env hm]; simp
    rcases hb _ (firstEp_cons_mem _ _) with hd | hd
    · have hact : (evStep env L r s a).active = 1 := by
        simp only [evStep, h1, hd, sub_zero, mul_one]
      have hfe := firstEp_cons_zero _ (traceFrom env L r (arStep env L r s.ar a) as) hd
      have h := ih (evStep env L r s a) hact hl' (by
        intro t ht; rw [hsa] at ht; apply hb; rw [hfe]; exact List.mem_cons_of_mem _ ht)
      rw [hsa] at h
      rw [h, hfe, List.foldl_cons, hsm]
    · have hact : (evStep env L r s a).active = 0 := by
        simp only [evStep, hd, sub_self, mul_zero]
      have h := evFold_frozen_metrics env hm L r (evStep env L r s a) hact hl' as
      have hfe := firstEp_cons_ne _ (traceFrom env L r (arStep env L r s.ar a) as)
        (by rw [hd]; exact one_ne_zero)
      rw [h, hfe, hsm]; rfl

/-- without any assumption on the flags: the weight `active_episodes` after a history is the
product of `1 - done` over its wrapped steps -/
theorem evFold_active_prod (env : Env K P O X R A) (L r : Nat) (s : EvSt P O X R) (as : List A) :
    (as.foldl (evStep env L r) s).active
      = s.active * ((traceFrom env L r s.ar as).map fun t => 1 - t.done).prod := by
  induction as generalizing s with
  | nil => simp [traceFrom]
  | cons a as ih =>
    simp only [List.foldl_cons, traceFrom, List.map_cons, List.prod_cons]
    rw [ih]
    have hsa : (evStep env L r s a).ar = arStep env L r s.ar a := rfl
    rw [hsa]
    simp only [evStep, mul_assoc]

/-- one more step from an active member, no assumption on the flag -/
theorem evStep_active_one (env : Env K P O X R A) (L r : Nat) (s : EvSt P O X R)
    (h1 : s.active = 1) (a : A) :
    (evStep env L r s a).emReward = s.emReward + (arStep env L r s.ar a).reward ∧
    (evStep env L r s a).episodeSteps = (arStep env L r s.ar a).steps ∧
    (evStep env L r s a).active = 1 - (arStep env L r s.ar a).done := by
  refine ⟨?_, ?_, ?_⟩
  · simp only [evStep, h1, mul_one]
  · simp only [evStep, h1, whereNZ, one_ne_zero, if_false]
  · simp only [evStep, h1, one_mul]

/-! ### traces, counts -/

theorem list_snoc_induction {α : Type} {motive : List α → Prop} (nil : motive [])
    (snoc : ∀ l a, motive l → motive (l ++ [a])) : ∀ l, motive l := by
  intro l
  induction h : l.length generalizing l with
  | zero =>
    have := List.eq_nil_of_length_eq_zero h
    subst this; exact nil
  | succ n ih =>
    rcases List.eq_nil_or_concat l with rfl | ⟨l', b, rfl⟩
    · simp at h
    · rw [List.concat_eq_append] at h ⊢
      apply snoc; apply ih
      simp only [List.length_append, List.length_singleton] at h; omega

theorem traceFrom_snoc (env : Env K P O X R A) (L r : Nat) (s : ArSt P O X R) (as : List A) (a : A) :
    traceFrom env L r s (as ++ [a])
      = traceFrom env L r s as ++ [arStep env L r (as.foldl (arStep env L r) s) a] := by
  induction as generalizing s with
  | nil => rfl
  | cons b bs ih => simp only [List.cons_append, traceFrom, List.foldl_cons, ih]

theorem trace_snoc (env : Env K P O X R A) (L r : Nat) (k : K) (as : List A) (a : A) :
    trace env L r k (as ++ [a]) = trace env L r k as ++ [run env L r k (as ++ [a])] := by
  rw [trace, traceFrom_snoc, run_snoc]; rfl

theorem trace_length (env : Env K P O X R A) (L r : Nat) (k : K) (as : List A) :
    (trace env L r k as).length = as.length := by
  induction as using list_snoc_induction with
  | nil => rfl
  | snoc as a ih => rw [trace_snoc, List.length_append, ih]; simp

theorem count_le_length (env : Env K P O X R A) (L r : Nat) (k : K) (as : List A) :
    count env L r k as ≤ as.length := by
  induction as using list_snoc_induction with
  | nil => exact Nat.le_refl 0
  | snoc as a ih =>
    rw [count_snoc, List.length_append, List.length_singleton]
    split <;> omega

/-- while no wrapped step has reported done, the position in the episode is the number of steps -/
theorem count_eq_length (env : Env K P O X R A) (L r : Nat) (k : K) (as : List A)
    (h : ∀ t ∈ trace env L r k as, t.done = 0) : count env L r k as = as.length := by
  induction as using list_snoc_induction with
  | nil => rfl
  | snoc as a ih =>
    rw [trace_snoc] at h
    have hpre : ∀ t ∈ trace env L r k as, t.done = 0 :=
      fun t ht => h t (List.mem_append_left _ ht)
    rw [count_snoc, ih hpre, List.length_append, List.length_singleton]
    rcases List.eq_nil_or_concat as with rfl | ⟨bs, b, rfl⟩
    · simp
    · rw [List.concat_eq_append] at hpre ⊢
      have : (run env L r k (bs ++ [b])).done = 0 := by
        apply hpre; rw [trace_snoc]; simp
      rw [if_pos this]

end ring

section ring
variable [CommRing R] [LinearOrder R] [IsStrictOrderedRing R]

/-- a step at position `length` of its episode: no earlier wrapped step reported done -/
theorem count_full_imp (env : Env K P O X R A) (L r : Nat) (k : K) (as : List A) (a : A)
    (h : count env L r k (as ++ [a]) = as.length + 1) : ∀ t ∈ trace env L r k as, t.done = 0 := by
  induction as using list_snoc_induction generalizing a with
  | nil => intro t ht; simp [trace, traceFrom] at ht
  | snoc bs b ih =>
    rw [count_snoc, List.length_append, List.length_singleton] at h
    have hle := count_le_length (R := R) env L r k (bs ++ [b])
    rw [List.length_append, List.length_singleton] at hle
    by_cases hd : (run env L r k (bs ++ [b])).done = 0
    · rw [if_pos hd] at h
      have := ih b (by omega)
      intro t ht
      rw [trace_snoc, List.mem_append, List.mem_singleton] at ht
      rcases ht with ht | rfl
      · exact this t ht
      · exact hd
    · rw [if_neg hd] at h; omega

theorem iter_done_zero (env : Env K P O X R A) (hnt : ∀ s a, (env.step s a).done = 0) (a : A)
    {r : Nat} (hr : 1 ≤ r) (s : St P O X R) : (iter env a r s).done = 0 := by
  obtain ⟨q, rfl⟩ : ∃ q, r = q + 1 := ⟨r - 1, by omega⟩
  clear hr
  induction q generalizing s with
  | zero => exact hnt s a
  | succ q ih => exact ih (env.step s a)

theorem takeThrough_subset {α : Type} (p : α → Bool) (l : List α) :
    ∀ x ∈ takeThrough p l, x ∈ l := by
  induction l with
  | nil => intro x hx; simp [takeThrough] at hx
  | cons y ys ih =>
    intro x hx
    simp only [takeThrough] at hx
    split at hx
    · simp only [List.mem_singleton] at hx; subst hx; exact List.mem_cons_self
    · rw [List.mem_cons] at hx
      rcases hx with rfl | hx
      · exact List.mem_cons_self
      · exact List.mem_cons_of_mem _ (ih x hx)

theorem takeThrough_all_false {α : Type} (p : α → Bool) (l : List α) (h : ∀ y ∈ l, p y = false) :
    takeThrough p l = l := by
  induction l with
  | nil => rfl
  | cons y ys ih =>
    simp only [takeThrough, h y List.mem_cons_self, Bool.false_eq_true, if_false]
    rw [ih fun z hz => h z (List.mem_cons_of_mem _ hz)]

theorem takeThrough_snoc_all {α : Type} (p : α → Bool) (l : List α) (x : α)
    (h : ∀ y ∈ l, p y = false) : takeThrough p (l ++ [x]) = l ++ [x] := by
  induction l with
  | nil => simp only [List.nil_append, takeThrough]; split <;> rfl
  | cons y ys ih =>
    simp only [List.cons_append, takeThrough, h y List.mem_cons_self, Bool.false_eq_true, if_false]
    rw [ih fun z hz => h z (List.mem_cons_of_mem _ hz)]

theorem firstEp_subset (tr : List (ArSt P O X R)) : ∀ t ∈ firstEp tr, t ∈ tr :=
  takeThrough_subset _ tr

theorem firstEp_all_zero (tr : List (ArSt P O X R)) (h : ∀ t ∈ tr, t.done = 0) : firstEp tr = tr :=
  takeThrough_all_false _ tr (fun t ht => by simp [h t ht])

theorem firstEp_snoc_all_zero (tr : List (ArSt P O X R)) (x : ArSt P O X R)
    (h : ∀ t ∈ tr, t.done = 0) : firstEp (tr ++ [x]) = tr ++ [x] :=
  takeThrough_snoc_all _ tr x (fun t ht => by simp [h t ht])

theorem trace_getLast (env : Env K P O X R A) (L r : Nat) (k : K) (as : List A) (a : A) :
    (trace env L r k (as ++ [a])).getLast? = some (run env L r k (as ++ [a])) := by
  rw [trace_snoc]; simp

theorem run_append (env : Env K P O X R A) (L r : Nat) (k : K) (as bs : List A) :
    run env L r k (as ++ bs) = bs.foldl (arStep env L r) (run env L r k as) := by
  simp only [run, List.foldl_append]

end ring

section ring
variable [CommRing R] [LinearOrder R] [IsStrictOrderedRing R]

theorem count_snoc_of_zero (env : Env K P O X R A) (L r : Nat) (k : K) (as : List A) (a : A)
    (h : ∀ t ∈ trace env L r k as, t.done = 0) : count env L r k (as ++ [a]) = as.length + 1 := by
  rw [count_snoc, count_eq_length env L r k as h]
  rcases List.eq_nil_or_concat as with rfl | ⟨bs, b, rfl⟩
  · simp
  · rw [List.concat_eq_append] at h ⊢
    have : (run env L r k (bs ++ [b])).done = 0 := by
      apply h; rw [trace_snoc]; simp
    rw [if_pos this]

variable {Ky : Type}

/-- the actions the policy chooses during `Evaluator._generate_eval_unroll` (one member) -/
def evalActs (env : Env K P O X R A) (L r : Nat) (π : O → Ky → A) (split : Ky → Ky × Ky) (k : K)
    (key : Ky) : List A :=
  unrollActs evView (evStep env L r) π split (L / r) (evReset env k) key

end ring

end Brax.C15
