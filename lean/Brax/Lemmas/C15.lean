import Brax.Spec.C15
import Mathlib.Tactic.Ring
import Mathlib.Tactic.Linarith
import Mathlib.Algebra.Order.Ring.Defs
import Mathlib.Data.Nat.Cast.Order.Ring
import Mathlib.Algebra.BigOperators.Group.List.Basic
/-!
# C15 — helper lemmas (structure of the scan, folds, list plumbing)
-/
set_option linter.unusedSectionVars false
set_option linter.unusedVariables false
namespace Brax.C15
variable {K P O X R A : Type}

/-! ### the scan over `action_repeat` -/

theorem scanRepeat_fst (env : Env K P O X R A) (a : A) (n : Nat) (s : St P O X R) :
    (scanRepeat env a n s).1 = iter env a n s := by
  induction n generalizing s with
  | zero => rfl
  | succ n ih => simp only [scanRepeat, iter, ih]

theorem scanRepeat_snd (env : Env K P O X R A) (a : A) (n : Nat) (s : St P O X R) :
    (scanRepeat env a n s).2 = (List.range n).map fun i => (iter env a (i + 1) s).reward := by
  induction n generalizing s with
  | zero => rfl
  | succ n ih =>
    simp only [scanRepeat, ih, List.range_succ_eq_map, List.map_cons, List.map_map, iter]
    rfl

theorem foldl_add_eq [AddCommMonoid R] (l : List R) (x : R) :
    l.foldl (· + ·) x = x + l.sum := by
  induction l generalizing x with
  | nil => simp
  | cons y ys ih => simp only [List.foldl_cons, ih, List.sum_cons, add_assoc]

theorem sumList_eq_sum [AddCommMonoid R] (l : List R) : sumList l = l.sum := by
  simp only [sumList, foldl_add_eq, zero_add]


/-! ### one wrapped step, field by field -/
section ring
variable [CommRing R] [LinearOrder R] [IsStrictOrderedRing R]

theorem reward_eq (env : Env K P O X R A) (L r : Nat) (s : ArSt P O X R) (a : A) :
    (arStep env L r s a).reward
      = ((List.range r).map fun i => (iter env a (i + 1) s.inner).reward).sum := by
  simp only [arStep, epStep, ArSt.reward, scanRepeat_snd, sumList_eq_sum, ArSt.inner]

theorem done_eq (env : Env K P O X R A) (L r : Nat) (s : ArSt P O X R) (a : A) :
    (arStep env L r s a).done
      = if (L : R) ≤ (arStep env L r s a).steps then 1 else (iter env a r s.inner).done := by
  simp only [arStep, epStep, ArSt.done, ArSt.steps, scanRepeat_fst, ArSt.inner]

theorem truncation_eq (env : Env K P O X R A) (L r : Nat) (s : ArSt P O X R) (a : A) :
    (arStep env L r s a).truncation
      = if (L : R) ≤ (arStep env L r s a).steps then 1 - (iter env a r s.inner).done else 0 := by
  simp only [arStep, epStep, ArSt.truncation, ArSt.steps, scanRepeat_fst, ArSt.inner]

theorem steps_eq (env : Env K P O X R A) (L r : Nat) (s : ArSt P O X R) (a : A) :
    (arStep env L r s a).steps = (if s.done = 0 then s.steps else 0) + (r : R) := by
  simp only [arStep, epStep, ArSt.steps, arPre, whereNZ, ArSt.done]

theorem metrics_eq (env : Env K P O X R A) (L r : Nat) (s : ArSt P O X R) (a : A) :
    (arStep env L r s a).metrics = (iter env a r s.inner).metrics := by
  simp only [arStep, epStep, ArSt.metrics, scanRepeat_fst, ArSt.inner]

theorem ps_eq (env : Env K P O X R A) (L r : Nat) (s : ArSt P O X R) (a : A) :
    (arStep env L r s a).ps
      = if (arStep env L r s a).done = 0 then (iter env a r s.inner).ps else s.firstPs := by
  simp only [arStep, epStep, ArSt.ps, ArSt.done, scanRepeat_fst, ArSt.inner, whereNZ]

theorem obs_eq (env : Env K P O X R A) (L r : Nat) (s : ArSt P O X R) (a : A) :
    (arStep env L r s a).obs
      = if (arStep env L r s a).done = 0 then (iter env a r s.inner).obs else s.firstObs := by
  simp only [arStep, epStep, ArSt.obs, ArSt.done, scanRepeat_fst, ArSt.inner, whereNZ]

theorem first_eq (env : Env K P O X R A) (L r : Nat) (s : ArSt P O X R) (a : A) :
    (arStep env L r s a).firstPs = s.firstPs ∧ (arStep env L r s a).firstObs = s.firstObs :=
  ⟨rfl, rfl⟩

/-! ### histories -/

theorem run_snoc (env : Env K P O X R A) (L r : Nat) (k : K) (as : List A) (a : A) :
    run env L r k (as ++ [a]) = arStep env L r (run env L r k as) a := by
  simp only [run, List.foldl_append, List.foldl_cons, List.foldl_nil]

theorem runC_snoc (env : Env K P O X R A) (L r : Nat) (k : K) (as : List A) (a : A) :
    runC env L r k (as ++ [a]) = stepC env L r (runC env L r k as) a := by
  simp only [runC, List.foldl_append, List.foldl_cons, List.foldl_nil]

theorem foldl_stepC_fst (env : Env K P O X R A) (L r : Nat) (p : ArSt P O X R × Nat)
    (as : List A) :
    (as.foldl (stepC env L r) p).1 = as.foldl (arStep env L r) p.1 := by
  induction as generalizing p with
  | nil => rfl
  | cons a as ih => simp only [List.foldl_cons, ih, stepC]

theorem runC_fst (env : Env K P O X R A) (L r : Nat) (k : K) (as : List A) :
    (runC env L r k as).1 = run env L r k as := by
  simp only [runC, run, foldl_stepC_fst]

theorem count_snoc (env : Env K P O X R A) (L r : Nat) (k : K) (as : List A) (a : A) :
    count env L r k (as ++ [a])
      = (if (run env L r k as).done = 0 then count env L r k as else 0) + 1 := by
  simp only [count, runC_snoc, stepC, runC_fst]

theorem foldl_first (env : Env K P O X R A) (L r : Nat) (s : ArSt P O X R) (as : List A) :
    (as.foldl (arStep env L r) s).firstPs = s.firstPs ∧
    (as.foldl (arStep env L r) s).firstObs = s.firstObs := by
  induction as generalizing s with
  | nil => exact ⟨rfl, rfl⟩
  | cons a as ih => simp only [List.foldl_cons]; exact ih _

/-- invariant of `(wrapped state, position in the episode)` along every history -/
structure Inv (L r : Nat) (p : ArSt P O X R × Nat) : Prop where
  steps : p.1.steps = ((p.2 * r : Nat) : R)
  below : p.1.done = 0 → p.2 * r < L
  notLate : (p.2 - 1) * r < L

theorem inv_reset (env : Env K P O X R A) {L : Nat} (r : Nat) (hL : 1 ≤ L) (k : K) :
    Inv L r (arReset env k, 0) := by
  refine ⟨?_, ?_, ?_⟩ <;> simp [arReset, epReset, ArSt.steps] <;> omega

theorem inv_step (env : Env K P O X R A) {L r : Nat} (hL : 1 ≤ L) (p : ArSt P O X R × Nat)
    (h : Inv L r p) (a : A) : Inv L r (stepC env L r p a) := by
  obtain ⟨s, c⟩ := p
  obtain ⟨h1, h2, h3⟩ := h
  simp only at h1 h2 h3
  generalize hc' : (if s.done = 0 then c else 0) + 1 = c'
  have hs : (arStep env L r s a).steps = ((c' * r : Nat) : R) := by
    rw [steps_eq, ← hc']
    by_cases hd : s.done = 0
    · simp only [hd, if_true, h1]; push_cast; ring
    · simp only [hd, if_false]; push_cast; ring
  simp only [stepC, hc']
  refine ⟨hs, ?_, ?_⟩
  · intro hd
    simp only at hd
    rw [done_eq, hs] at hd
    by_cases hle : (L : R) ≤ ((c' * r : Nat) : R)
    · rw [if_pos hle] at hd; exact absurd hd one_ne_zero
    · have := not_le.mp hle
      exact_mod_cast this
  · simp only
    subst hc'
    by_cases hd : s.done = 0
    · simp only [hd, if_true, Nat.add_sub_cancel]; exact h2 hd
    · simp only [hd, if_false]; omega

theorem inv_foldl (env : Env K P O X R A) {L r : Nat} (hL : 1 ≤ L) (p : ArSt P O X R × Nat)
    (h : Inv L r p) (as : List A) : Inv L r (as.foldl (stepC env L r) p) := by
  induction as generalizing p with
  | nil => exact h
  | cons a as ih => exact ih _ (inv_step env hL p h a)

theorem inv_runC (env : Env K P O X R A) {L : Nat} (r : Nat) (hL : 1 ≤ L) (k : K) (as : List A) :
    Inv L r (runC env L r k as) :=
  inv_foldl env hL _ (inv_reset env r hL k) as

end ring

end Brax.C15
