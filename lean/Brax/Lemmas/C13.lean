import Brax.Spec.C13
import Brax.Props.C09
import Mathlib.Tactic.Ring
import Mathlib.Tactic.LinearCombination
/-!
# C13 — helper lemmas (structure of `merge`/`fuseWith`, frame algebra with normalisation)

The algebra rests on the C09 theorems about the definitions *generated from* `brax/math.py`
(`rotate_quatMul`, `normSq_quatMul`, `rotate_add`, …) through the bridge lemmas
`Gen.rotate = Brax.rotate`, `Gen.rotateNp = Brax.rotate`, `Gen.quatMulNp = Brax.quatMul`.
-/
set_option linter.unusedSectionVars false
set_option linter.unusedSimpArgs false
namespace Brax.C13
open Brax List

/-! ## induction principle of the nested tree: children by membership -/

theorem Elem.induct {α : Type} {P : Elem α → Prop}
    (body : ∀ n p q cs, (∀ c ∈ cs, P c) → P (.body n p q cs))
    (leaf : ∀ k n pl, P (.leaf k n pl))
    (joint : ∀ f n, P (.joint f n))
    (other : ∀ t cs, (∀ c ∈ cs, P c) → P (.other t cs)) : ∀ e, P e :=
  fun e => Elem.rec (motive_1 := P) (motive_2 := fun cs => ∀ c ∈ cs, P c) body leaf joint other
    (fun c hc => by cases hc)
    (fun c cs hc hcs x hx => by
      rcases List.mem_cons.mp hx with rfl | h
      · exact hc
      · exact hcs x h) e

/-! ## list forms of the mutual definitions -/

section lists
variable {α : Type}

theorem namesL_eq (cs : List (Elem α)) : namesL cs = cs.flatMap names := by
  induction cs with
  | nil => simp [namesL]
  | cons c cs ih => simp [namesL, ih]

theorem jointlessFreeL_iff (cs : List (Elem α)) :
    jointlessFreeL cs = true ↔ ∀ c ∈ cs, isJointlessBody c = false ∧ jointlessFree c = true := by
  induction cs with
  | nil => simp [jointlessFreeL]
  | cons c cs ih => simp [jointlessFreeL, ih, and_assoc]

theorem hasJoint_iff (cs : List (Elem α)) : hasJoint cs = true ↔ ∃ c ∈ cs, isJoint c = true := by
  simp [hasJoint, List.any_eq_true]

theorem isJoint_not_jointless {c : Elem α} (h : isJoint c = true) : isJointlessBody c = false := by
  cases c <;> simp_all [isJoint, isJointlessBody]

theorem jointless_cases {x : Elem α} (h : isJointlessBody x = true) :
    ∃ n p q cs, x = .body n p q cs ∧ hasJoint cs = false := by
  cases x <;> simp_all [isJointlessBody]

end lists

section structural
variable {α : Type} [Zero α] [One α] [Add α] [Sub α] [Mul α] [Neg α]
variable (g : V3 α → Q4 α → Bool)

theorem fuseListWith_eq_map (cs : List (Elem α)) : fuseListWith g cs = cs.map (fuseWith g) := by
  induction cs with
  | nil => simp [fuseListWith]
  | cons c cs ih => simp [fuseListWith, ih]

theorem fuseWith_body (n : String) (p : Option (V3 α)) (q : Option (Q4 α)) (cs : List (Elem α)) :
    fuseWith g (.body n p q cs) = .body n p q (merge g (cs.map (fuseWith g))) := by
  simp [fuseWith, fuseListWith_eq_map]

theorem fuseWith_other (t : String) (cs : List (Elem α)) :
    fuseWith g (.other t cs) = .other t (merge g (cs.map (fuseWith g))) := by
  simp [fuseWith, fuseListWith_eq_map]

theorem fuseWith_leaf (k : Kind) (n : String) (pl : Place α) :
    fuseWith g (.leaf k n pl) = .leaf k n pl := by simp [fuseWith]

theorem fuseWith_joint (f : Bool) (n : String) : fuseWith g (.joint f n : Elem α) = .joint f n := by
  simp [fuseWith]

/-- the (possibly) offset grandchild, as written in `promote` -/
def condOffset (cp : V3 α) (cq : Q4 α) (x : Elem α) : Elem α :=
  if g cp cq then offset cp cq x else x

theorem promote_body (n : String) (p : Option (V3 α)) (q : Option (Q4 α)) (cs : List (Elem α)) :
    promote g (.body n p q cs) = cs.map (condOffset g (posD p) (quatD q)) := rfl

/-! ### what `offset` leaves alone -/

theorem isJoint_offset (cp : V3 α) (cq : Q4 α) (c : Elem α) : isJoint (offset cp cq c) = isJoint c := by
  cases c <;> rfl
theorem isOther_offset (cp : V3 α) (cq : Q4 α) (c : Elem α) : isOther (offset cp cq c) = isOther c := by
  cases c <;> rfl
theorem isJointlessBody_offset (cp : V3 α) (cq : Q4 α) (c : Elem α) :
    isJointlessBody (offset cp cq c) = isJointlessBody c := by
  cases c <;> rfl
theorem jointlessFree_offset (cp : V3 α) (cq : Q4 α) (c : Elem α) :
    jointlessFree (offset cp cq c) = jointlessFree c := by
  cases c <;> simp [offset, jointlessFree]
theorem names_offset (cp : V3 α) (cq : Q4 α) (c : Elem α) : names (offset cp cq c) = names c := by
  cases c <;> simp [offset, names]

theorem isJoint_condOffset (cp : V3 α) (cq : Q4 α) (c : Elem α) :
    isJoint (condOffset g cp cq c) = isJoint c := by
  unfold condOffset; split <;> simp [isJoint_offset]
theorem isOther_condOffset (cp : V3 α) (cq : Q4 α) (c : Elem α) :
    isOther (condOffset g cp cq c) = isOther c := by
  unfold condOffset; split <;> simp [isOther_offset]
theorem isJointlessBody_condOffset (cp : V3 α) (cq : Q4 α) (c : Elem α) :
    isJointlessBody (condOffset g cp cq c) = isJointlessBody c := by
  unfold condOffset; split <;> simp [isJointlessBody_offset]
theorem jointlessFree_condOffset (cp : V3 α) (cq : Q4 α) (c : Elem α) :
    jointlessFree (condOffset g cp cq c) = jointlessFree c := by
  unfold condOffset; split <;> simp [jointlessFree_offset]
theorem names_condOffset (cp : V3 α) (cq : Q4 α) (c : Elem α) :
    names (condOffset g cp cq c) = names c := by
  unfold condOffset; split <;> simp [names_offset]

/-! ### `merge` -/

theorem mem_merge {g : V3 α → Q4 α → Bool} {xs : List (Elem α)} {y : Elem α} :
    y ∈ merge g xs ↔
      (y ∈ xs ∧ isJointlessBody y = false) ∨
      (∃ x ∈ xs, isJointlessBody x = true ∧ y ∈ promote g x) := by
  simp only [merge, List.mem_append, List.mem_filter, List.mem_flatMap, Bool.not_eq_true',
    and_assoc]

theorem merge_eq_self {xs : List (Elem α)} (h : ∀ x ∈ xs, isJointlessBody x = false) :
    merge g xs = xs := by
  have h1 : xs.filter (fun c => !isJointlessBody c) = xs := by
    rw [List.filter_eq_self]; intro x hx; simp [h x hx]
  have h2 : xs.filter isJointlessBody = [] := by
    rw [List.filter_eq_nil_iff]; intro x hx; simp [h x hx]
  simp [merge, h1, h2]

/-- any list-valued observation `E` of the children is kept by `merge` as a multiset, provided
the promoted grandchildren of a removed body carry what the body carried -/
theorem flatMap_merge_perm {β : Type} (E : Elem α → List β) (xs : List (Elem α))
    (h : ∀ x ∈ xs, isJointlessBody x = true → (promote g x).flatMap E = E x) :
    ((merge g xs).flatMap E).Perm (xs.flatMap E) := by
  induction xs with
  | nil => simp [merge]
  | cons x xs ih =>
    have ih' := ih (fun y hy => h y (List.mem_cons_of_mem _ hy))
    simp only [merge, List.flatMap_append] at ih' ⊢
    by_cases hx : isJointlessBody x = true
    · have hP := h x List.mem_cons_self hx
      simp only [List.filter_cons, hx, Bool.not_true, Bool.false_eq_true, if_false, if_true,
        List.flatMap_cons, List.flatMap_append, hP]
      exact (List.perm_append_comm_assoc _ _ _).trans (List.Perm.append_left _ ih')
    · have hx' : isJointlessBody x = false := by simpa using hx
      simp only [List.filter_cons, hx', Bool.not_false, if_true, Bool.false_eq_true, if_false,
        List.flatMap_cons, List.append_assoc]
      exact List.Perm.append_left _ ih'

theorem flatMap_perm_of_forall {γ β : Type} (l : List γ) (f h : γ → List β)
    (hp : ∀ a ∈ l, (f a).Perm (h a)) : (l.flatMap f).Perm (l.flatMap h) := by
  induction l with
  | nil => simp
  | cons a l ih =>
    simp only [List.flatMap_cons]
    exact List.Perm.append (hp a List.mem_cons_self) (ih fun b hb => hp b (List.mem_cons_of_mem _ hb))

/-! ### joints and jointless status survive fusing -/

theorem isJoint_fuseWith (c : Elem α) : isJoint (fuseWith g c) = isJoint c := by
  cases c <;> simp [fuseWith, isJoint]

theorem isOther_fuseWith (c : Elem α) : isOther (fuseWith g c) = isOther c := by
  cases c <;> simp [fuseWith, isOther]

theorem hasJoint_map_fuseWith (cs : List (Elem α)) :
    hasJoint (cs.map (fuseWith g)) = hasJoint cs := by
  simp [hasJoint, List.any_map, Function.comp_def, isJoint_fuseWith]

theorem hasJoint_merge (xs : List (Elem α)) : hasJoint (merge g xs) = hasJoint xs := by
  rw [Bool.eq_iff_iff, hasJoint_iff, hasJoint_iff]
  constructor
  · rintro ⟨y, hy, hj⟩
    rcases mem_merge.mp hy with ⟨hy, _⟩ | ⟨x, _, hjl, hyx⟩
    · exact ⟨y, hy, hj⟩
    · obtain ⟨n, p, q, cs, rfl, hcs⟩ := jointless_cases hjl
      rw [promote_body, List.mem_map] at hyx
      obtain ⟨c, hc, rfl⟩ := hyx
      rw [isJoint_condOffset] at hj
      have : hasJoint cs = true := (hasJoint_iff cs).mpr ⟨c, hc, hj⟩
      simp [hcs] at this
  · rintro ⟨y, hy, hj⟩
    exact ⟨y, mem_merge.mpr (Or.inl ⟨hy, isJoint_not_jointless hj⟩), hj⟩

theorem isJointlessBody_fuseWith (c : Elem α) :
    isJointlessBody (fuseWith g c) = isJointlessBody c := by
  cases c with
  | body n p q cs => simp [fuseWith_body, isJointlessBody, hasJoint_merge, hasJoint_map_fuseWith]
  | leaf k n pl => simp [fuseWith_leaf]
  | joint f n => simp [fuseWith_joint]
  | other t cs => simp [fuseWith_other, isJointlessBody]

end structural

/-! ## names, no jointless body left, idempotence (no arithmetic, any guard) -/

section structural2
variable {α : Type} [Zero α] [One α] [Add α] [Sub α] [Mul α] [Neg α]
variable (g : V3 α → Q4 α → Bool)

theorem promote_names {x : Elem α} (h : isJointlessBody x = true) :
    (promote g x).flatMap names = names x := by
  obtain ⟨n, p, q, cs, rfl, hcs⟩ := jointless_cases h
  rw [promote_body, List.flatMap_map]
  simp only [names, hcs, Bool.false_eq_true, if_false, namesL_eq]
  exact List.flatMap_congr (fun c _ => names_condOffset g _ _ c)

theorem names_children_perm (cs : List (Elem α))
    (ih : ∀ c ∈ cs, (names (fuseWith g c)).Perm (names c)) :
    (namesL (merge g (cs.map (fuseWith g)))).Perm (namesL cs) := by
  rw [namesL_eq, namesL_eq]
  refine (flatMap_merge_perm g names _ (fun x _ hx => promote_names g hx)).trans ?_
  rw [List.flatMap_map]
  exact flatMap_perm_of_forall _ _ _ ih

theorem names_fuseWith : ∀ e : Elem α, (names (fuseWith g e)).Perm (names e) := by
  refine Elem.induct ?_ ?_ ?_ ?_
  · intro n p q cs ih
    rw [fuseWith_body]
    simp only [names, hasJoint_merge, hasJoint_map_fuseWith]
    split
    · exact List.Perm.cons _ (names_children_perm g cs ih)
    · exact names_children_perm g cs ih
  · intro k n pl; rw [fuseWith_leaf]
  · intro f n; rw [fuseWith_joint]
  · intro t cs ih
    rw [fuseWith_other]
    simp only [names]
    exact names_children_perm g cs ih

theorem jointlessFree_children (cs : List (Elem α))
    (ih : ∀ c ∈ cs, jointlessFree (fuseWith g c) = true) :
    jointlessFreeL (merge g (cs.map (fuseWith g))) = true := by
  rw [jointlessFreeL_iff]
  intro y hy
  rcases mem_merge.mp hy with ⟨hy, hjl⟩ | ⟨x, hx, hjl, hyx⟩
  · obtain ⟨c, hc, rfl⟩ := List.mem_map.mp hy
    exact ⟨hjl, ih c hc⟩
  · obtain ⟨c, hc, rfl⟩ := List.mem_map.mp hx
    have hfree := ih c hc
    obtain ⟨n', p', q', cs', hfc, _⟩ := jointless_cases hjl
    rw [hfc] at hfree hyx
    simp only [jointlessFree] at hfree
    rw [jointlessFreeL_iff] at hfree
    rw [promote_body, List.mem_map] at hyx
    obtain ⟨c', hc', rfl⟩ := hyx
    rw [isJointlessBody_condOffset, jointlessFree_condOffset]
    exact hfree c' hc'

theorem jointlessFree_fuseWith : ∀ e : Elem α, jointlessFree (fuseWith g e) = true := by
  refine Elem.induct ?_ ?_ ?_ ?_
  · intro n p q cs ih
    rw [fuseWith_body]; simp only [jointlessFree]; exact jointlessFree_children g cs ih
  · intro k n pl; rw [fuseWith_leaf]; rfl
  · intro f n; rw [fuseWith_joint]; rfl
  · intro t cs ih
    rw [fuseWith_other]; simp only [jointlessFree]; exact jointlessFree_children g cs ih

theorem children_fixed (cs : List (Elem α)) (h : jointlessFreeL cs = true)
    (ih : ∀ c ∈ cs, jointlessFree c = true → fuseWith g c = c) :
    merge g (cs.map (fuseWith g)) = cs := by
  rw [jointlessFreeL_iff] at h
  have hmap : cs.map (fuseWith g) = cs := by
    conv_rhs => rw [← List.map_id cs]
    exact List.map_congr_left (fun c hc => by simpa using ih c hc (h c hc).2)
  rw [hmap]
  exact merge_eq_self g (fun x hx => (h x hx).1)

theorem fuseWith_of_jointlessFree : ∀ e : Elem α, jointlessFree e = true → fuseWith g e = e := by
  refine Elem.induct ?_ ?_ ?_ ?_
  · intro n p q cs ih h
    simp only [jointlessFree] at h
    rw [fuseWith_body, children_fixed g cs h ih]
  · intro k n pl _; rw [fuseWith_leaf]
  · intro f n _; rw [fuseWith_joint]
  · intro t cs ih h
    simp only [jointlessFree] at h
    rw [fuseWith_other, children_fixed g cs h ih]

end structural2

/-! ## frames with MuJoCo's normalisation -/

section algebra
variable {K : Type} [Field K]

theorem rotate_quatMul' (v : V3 K) (p q : Q4 K) :
    rotate v (quatMul p q) = rotate (rotate v q) p := by
  have h := C09.rotate_quatMul v p q
  simpa only [C09.bridge_rotate, C09.bridge_quatMul] using h

theorem normSq_quatMul' (p q : Q4 K) :
    Q4.normSq (quatMul p q) = Q4.normSq p * Q4.normSq q := by
  have h := C09.normSq_quatMul p q
  simpa only [C09.bridge_quatMul] using h

theorem rotate_add' (u v : V3 K) (q : Q4 K) : rotate (u + v) q = rotate u q + rotate v q := by
  have h := C09.rotate_add u v q
  simpa only [C09.bridge_rotate] using h

theorem quatMul_assoc' (a b c : Q4 K) : quatMul (quatMul a b) c = quatMul a (quatMul b c) := by
  have h := C09.quatMul_assoc a b c
  simpa only [C09.bridge_quatMul] using h

theorem quatMul_one_right' (q : Q4 K) : quatMul q Q4.one = q := by
  have h := C09.quatMul_one_right q
  rw [C09.bridge_quatMul] at h
  exact h

/-- `_transform_do` stated with the definitions generated from `rotate_np`, `quat_mul_np` -/
theorem transformDo_gen (pp : V3 K) (pq : Q4 K) (p : V3 K) (q : Q4 K) :
    transformDo pp pq p q = (pp + Gen.rotateNp p pq, Gen.quatMulNp pq q) := by
  rw [C09.bridge_rotateNp, C09.bridge_quatMulNp]; rfl

theorem rotN_add (u v : V3 K) (q : Q4 K) : rotN (u + v) q = rotN u q + rotN v q := by
  rw [rotN, rotate_add']
  simp only [rotN, V3.smul, V3.add_def]
  congr 1 <;> ring

theorem rotN_quatMul_unit (p : V3 K) (a b : Q4 K) (hb : Q4.normSq b = 1) :
    rotN p (quatMul a b) = rotN (rotate p b) a := by
  simp only [rotN, normSq_quatMul', hb, mul_one, rotate_quatMul']

theorem rotN_unit (v : V3 K) (q : Q4 K) (hq : Q4.normSq q = 1) : rotN v q = rotate v q := by
  simp only [rotN, hq, V3.smul]
  cases h : rotate v q; congr 1 <;> ring

theorem act_comp (f l : Tf K) (hl : Q4.normSq l.rot = 1) (v : V3 K) :
    Tf.act (Tf.comp f l) v = Tf.act f (l.pos + rotate v l.rot) := by
  simp only [Tf.act, Tf.comp]
  rw [rotN_quatMul_unit _ _ _ hl, rotN_add]
  simp only [V3.add_def]
  congr 1 <;> ring

theorem comp_assoc_unit (f l m : Tf K) (hl : Q4.normSq l.rot = 1) :
    Tf.comp (Tf.comp f l) m = Tf.comp f ⟨l.pos + rotate m.pos l.rot, quatMul l.rot m.rot⟩ := by
  have h := act_comp f l hl m.pos
  simp only [Tf.comp] at h ⊢
  rw [h, quatMul_assoc']

theorem comp_id_right (f : Tf K) : Tf.comp f ⟨V3.zero, Q4.one⟩ = f := by
  obtain ⟨⟨_, _, _⟩, ⟨_, _, _, _⟩⟩ := f
  simp only [Tf.comp, Tf.act, rotN, rotate, V3.zero, Q4.one, quatMul, V3.smul, V3.dot, V3.cross,
    Q4.vec, V3.add_def]
  congr 1 <;> congr 1 <;> ring

/-- for unit quaternions the MuJoCo composition is brax's `Transform.do` -/
theorem comp_eq_doTf (f l : Tf K) (hf : Q4.normSq f.rot = 1) : Tf.comp f l = Tf.doTf f l := by
  simp only [Tf.comp, Tf.act, Tf.doTf, rotN_unit _ _ hf]

end algebra

/-! ## the preservation argument -/

section main
variable {K : Type} [Field K]
variable (g : V3 K → Q4 K → Bool)

theorem entriesL_eq (a : String) (f : Tf K) (cs : List (Elem K)) :
    entriesL a f cs = cs.flatMap (entries a f) := by
  induction cs with
  | nil => simp [entriesL]
  | cons c cs ih => simp [entriesL, ih]

theorem goodL_iff (cs : List (Elem K)) :
    GoodL g cs ↔ ∀ c ∈ cs, (isJointlessBody c = true → Fusable g c) ∧ Good g c := by
  induction cs with
  | nil => simp [GoodL]
  | cons c cs ih => simp [GoodL, ih, and_assoc]

/-- `_offset` by a unit-quaternion frame = putting the element into that frame -/
theorem entries_offset (a : String) (f : Tf K) (cp : V3 K) (cq : Q4 K) (hq : Q4.normSq cq = 1)
    (c : Elem K) (hc : isOther c = false) :
    entries a f (offset cp cq c) = entries a (Tf.comp f ⟨cp, cq⟩) c := by
  have hassoc : ∀ p q, Tf.comp f (localTf (some (transformDo cp cq (posD p) (quatD q)).1)
        (some (transformDo cp cq (posD p) (quatD q)).2))
      = Tf.comp (Tf.comp f ⟨cp, cq⟩) (localTf p q) := by
    intro p q
    rw [comp_assoc_unit f ⟨cp, cq⟩ (localTf p q) hq]; rfl
  cases c with
  | body n p q cs => simp only [offset, entries, hassoc]
  | leaf k n pl =>
    cases pl with
    | pq p q => simp only [offset, offsetPlace, entries, placePose, hassoc]
    | fromto u v q =>
      have h1 := act_comp f ⟨cp, cq⟩ hq u
      have h2 := act_comp f ⟨cp, cq⟩ hq v
      simp only [offset, offsetPlace, entries, placePose, transformDo, h1, h2]
  | joint fr n => rfl
  | other t cs => simp [isOther] at hc

theorem entries_condOffset (a : String) (f : Tf K) (cp : V3 K) (cq : Q4 K)
    (hq : Q4.normSq cq = 1) (hg : GuardOK g cp cq) (c : Elem K) (hc : isOther c = false) :
    entries a f (condOffset g cp cq c) = entries a (Tf.comp f ⟨cp, cq⟩) c := by
  unfold condOffset
  split
  · exact entries_offset a f cp cq hq c hc
  · obtain ⟨rfl, rfl⟩ := hg (by simpa using ‹¬ g cp cq = true›)
    rw [comp_id_right]

/-- the promoted grandchildren of a `Fusable` body carry exactly what the body carried -/
theorem promote_entries (a : String) (f : Tf K) {x : Elem K} (h : isJointlessBody x = true)
    (hf : Fusable g x) : (promote g x).flatMap (entries a f) = entries a f x := by
  obtain ⟨n, p, q, cs, rfl, hcs⟩ := jointless_cases h
  obtain ⟨hq, hg, hno⟩ := hf
  rw [promote_body, List.flatMap_map]
  simp only [entries, hcs, Bool.false_eq_true, if_false, entriesL_eq]
  exact List.flatMap_congr (fun c hc => entries_condOffset g a f _ _ hq hg c (hno c hc))

/-- fusing keeps a fusable body fusable (its new children are still only body/geom/site/camera) -/
theorem fusable_fuseWith : ∀ e : Elem K, Good g e →
    (isJointlessBody e = true → Fusable g e) →
    (isJointlessBody e = true → Fusable g (fuseWith g e)) := by
  refine Elem.induct ?_ ?_ ?_ ?_
  · intro n p q cs ih hgood hfus hjl
    obtain ⟨hq, hg, hno⟩ := hfus hjl
    simp only [Good] at hgood
    rw [goodL_iff] at hgood
    rw [fuseWith_body]
    refine ⟨hq, hg, ?_⟩
    intro y hy
    rcases mem_merge.mp hy with ⟨hy, _⟩ | ⟨x, hx, hxjl, hyx⟩
    · obtain ⟨c, hc, rfl⟩ := List.mem_map.mp hy
      rw [isOther_fuseWith]; exact hno c hc
    · obtain ⟨c, hc, rfl⟩ := List.mem_map.mp hx
      have hcjl : isJointlessBody c = true := by rwa [isJointlessBody_fuseWith] at hxjl
      have hfc := ih c hc (hgood c hc).2 (hgood c hc).1 hcjl
      obtain ⟨n', p', q', cs', hfc', _⟩ := jointless_cases hxjl
      rw [hfc'] at hfc hyx
      obtain ⟨_, _, hno'⟩ := hfc
      rw [promote_body, List.mem_map] at hyx
      obtain ⟨c', hc', rfl⟩ := hyx
      rw [isOther_condOffset]; exact hno' c' hc'
  · intro k n pl _ _ h; simp [isJointlessBody] at h
  · intro f n _ _ h; simp [isJointlessBody] at h
  · intro t cs _ _ _ h; simp [isJointlessBody] at h

theorem entries_children_perm (cs : List (Elem K)) (hgood : GoodL g cs)
    (ih : ∀ c ∈ cs, Good g c → ∀ a f, (entries a f (fuseWith g c)).Perm (entries a f c))
    (a : String) (f : Tf K) :
    (entriesL a f (merge g (cs.map (fuseWith g)))).Perm (entriesL a f cs) := by
  rw [goodL_iff] at hgood
  rw [entriesL_eq, entriesL_eq]
  refine (flatMap_merge_perm g (entries a f) _ ?_).trans ?_
  · intro x hx hxjl
    obtain ⟨c, hc, rfl⟩ := List.mem_map.mp hx
    have hcjl : isJointlessBody c = true := by rwa [isJointlessBody_fuseWith] at hxjl
    exact promote_entries g a f hxjl (fusable_fuseWith g c (hgood c hc).2 (hgood c hc).1 hcjl)
  · rw [List.flatMap_map]
    exact flatMap_perm_of_forall _ _ _ (fun c hc => ih c hc (hgood c hc).2 a f)

/-- **main lemma**: in every frame, fusing keeps the multiset of observed elements -/
theorem entries_fuseWith : ∀ e : Elem K, Good g e →
    ∀ a f, (entries a f (fuseWith g e)).Perm (entries a f e) := by
  refine Elem.induct ?_ ?_ ?_ ?_
  · intro n p q cs ih hgood a f
    simp only [Good] at hgood
    rw [fuseWith_body]
    simp only [entries, hasJoint_merge, hasJoint_map_fuseWith]
    split
    · exact List.Perm.cons _ (entries_children_perm g cs hgood ih _ _)
    · exact entries_children_perm g cs hgood ih _ _
  · intro k n pl _ a f; rw [fuseWith_leaf]
  · intro fr n _ a f; rw [fuseWith_joint]
  · intro t cs ih hgood a f
    simp only [Good] at hgood
    rw [fuseWith_other]
    simp only [entries]
    exact entries_children_perm g cs hgood ih _ _

/-- the (kind, name) keys of the observed elements are `names` -/
theorem entries_keys : ∀ (e : Elem K) (a : String) (f : Tf K),
    (entries a f e).map (fun en => (en.kind, en.name)) = names e := by
  refine Elem.induct ?_ ?_ ?_ ?_
  · intro n p q cs ih a f
    have hL : ∀ a f, (entriesL a f cs).map (fun en => (en.kind, en.name)) = namesL cs := by
      intro a f
      rw [entriesL_eq, namesL_eq, List.map_flatMap]
      exact List.flatMap_congr (fun c hc => ih c hc a f)
    simp only [entries, names]
    split
    · simp only [List.map_cons, hL]
    · exact hL _ _
  · intro k n pl a f; simp [entries, names]
  · intro fr n a f; simp [entries, names]
  · intro t cs ih a f
    simp only [entries, names]
    rw [entriesL_eq, namesL_eq, List.map_flatMap]
    exact List.flatMap_congr (fun c hc => ih c hc a f)

end main

/-! ## looking an element up by name -/

section lookup
variable {β : Type}

theorem perm_eq_of_length_le_one {l₁ l₂ : List β} (h : l₁.Perm l₂) (hl : l₁.length ≤ 1) :
    l₁ = l₂ := by
  match l₁, hl with
  | [], _ => exact (List.nil_perm.mp h).symm
  | [a], _ => exact List.singleton_perm.mp h

theorem relPoses_perm {α : Type} {es₁ es₂ : List (Entry α)} (h : es₁.Perm es₂) (k : EKind)
    (n : String) : (relPoses es₁ k n).Perm (relPoses es₂ k n) :=
  (h.filter _).map _

theorem relPoses_length_le_one {α : Type} (es : List (Entry α))
    (hnd : (es.map (fun en => (en.kind, en.name))).Nodup) (k : EKind) (n : String) :
    (relPoses es k n).length ≤ 1 := by
  unfold relPoses
  rw [List.length_map]
  induction es with
  | nil => simp
  | cons e es ih =>
    rw [List.map_cons, List.nodup_cons] at hnd
    rw [List.filter_cons]
    split
    · rename_i he
      have he' : e.kind = k ∧ e.name = n := by simpa using he
      have : es.filter (fun en => decide (en.kind = k ∧ en.name = n)) = [] := by
        rw [List.filter_eq_nil_iff]
        intro x hx hp
        have hp' : x.kind = k ∧ x.name = n := by simpa using hp
        apply hnd.1
        rw [List.mem_map]
        exact ⟨x, hx, by rw [hp'.1, hp'.2, he'.1, he'.2]⟩
      rw [this]; simp
    · exact ih hnd.2

end lookup

/-! ## the two guards -/

section guards
variable {K : Type} [Field K] [LinearOrder K] [IsStrictOrderedRing K]

theorem anyNonzero_eq_false_iff (v : V3 K) : anyNonzero v = false ↔ v = V3.zero := by
  obtain ⟨x, y, z⟩ := v
  simp only [anyNonzero, Bool.or_eq_false_iff, Bool.not_eq_false', eqZero_iff, V3.zero,
    V3.mk.injEq, and_assoc]

theorem quatNotOne_eq_false_iff (q : Q4 K) : quatNotOne q = false ↔ q = Q4.one := by
  obtain ⟨w, x, y, z⟩ := q
  simp only [quatNotOne, Bool.or_eq_false_iff, Bool.not_eq_false', eqZero_iff, eqR_iff, Q4.one,
    Q4.mk.injEq, and_assoc]

/-- the patched guard is always sound -/
theorem guardOK_fixed (cp : V3 K) (cq : Q4 K) : GuardOK guardFixed cp cq := by
  intro h
  simp only [guardFixed, Bool.or_eq_false_iff] at h
  exact ⟨(anyNonzero_eq_false_iff cp).mp h.1, (quatNotOne_eq_false_iff cq).mp h.2⟩

/-- the pinned guard is sound exactly when a zero `pos` comes with the identity `quat` -/
theorem guardOK_pinned_iff (cp : V3 K) (cq : Q4 K) :
    GuardOK guardPinned cp cq ↔ (cp = V3.zero → cq = Q4.one) := by
  simp only [GuardOK, guardPinned, anyNonzero_eq_false_iff]
  constructor
  · intro h hz; exact (h hz).2
  · intro h hz; exact ⟨hz, h hz⟩

end guards

end Brax.C13
