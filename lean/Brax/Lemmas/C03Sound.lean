import Brax.Model.Dual
import Brax.Model.Kinematics
import Brax.Gen.Math
import Brax.Lemmas.Norm
import Brax.Lemmas.Scan
import Mathlib.Analysis.SpecialFunctions.Trigonometric.Deriv
import Mathlib.Analysis.SpecialFunctions.Trigonometric.InverseDeriv
import Mathlib.Analysis.SpecialFunctions.Sqrt
import Mathlib.Analysis.SpecialFunctions.ExpDeriv
import Mathlib.Analysis.SpecialFunctions.Log.Deriv
import Mathlib.Analysis.SpecialFunctions.Complex.LogDeriv
import Mathlib.Analysis.Calculus.Deriv.Inv
/-!
# C03 (deepening) — forward-mode AD over `Dual ℝ` is SOUND

`Sound d t` : the dual-valued function `d : ℝ → Dual ℝ` of one real parameter carries, at `t`,
the true derivative of its value part in its tangent part:
`HasDerivAt (fun u => (d u).re) (d t).du t`.

* **closure lemmas**: every operator instance of `Model/Dual.lean` preserves soundness under the
  side condition the real derivative needs (`/`: denominator ≠ 0; `sqrt`: argument > 0; `atan2`:
  off the branch cut; brax's custom rules for `acos`/`asin`: clip inactive; `log`: argument ≠ 0;
  `if c then a else b`: the branch decision is locally constant).
* **instances** on the real model functions (`quatMul`, `rotate`, `Gen.*`, `normalize3/4`,
  `quatRotAxis`, `Kin.jcalcDof`, `Kin.placeJoint`, `Kin.world`, one link of `Kin.forward`):
  the value part of the model run at `Dual ℝ` **is** the model run at `ℝ`, and its tangent part
  **is** the derivative of the model run at `ℝ`.
-/
set_option linter.unusedSectionVars false
set_option linter.unusedSimpArgs false
set_option linter.unusedVariables false
namespace Brax.C03
open Brax Filter Topology

/-- soundness of a dual-valued function of one real parameter at `t` -/
def Sound (d : ℝ → Dual ℝ) (t : ℝ) : Prop := HasDerivAt (fun u => (d u).re) (d t).du t

namespace Sound
variable {a b x y : ℝ → Dual ℝ} {t : ℝ}

/-! ## projections of the operator instances (all by `rfl`) -/
section proj
variable (p q : Dual ℝ)
@[simp] theorem zero_re : (0 : Dual ℝ).re = 0 := rfl
@[simp] theorem zero_du : (0 : Dual ℝ).du = 0 := rfl
@[simp] theorem one_re : (1 : Dual ℝ).re = 1 := rfl
@[simp] theorem one_du : (1 : Dual ℝ).du = 0 := rfl
@[simp] theorem add_re : (p + q).re = p.re + q.re := rfl
@[simp] theorem add_du : (p + q).du = p.du + q.du := rfl
@[simp] theorem sub_re : (p - q).re = p.re - q.re := rfl
@[simp] theorem sub_du : (p - q).du = p.du - q.du := rfl
@[simp] theorem neg_re : (-p).re = -p.re := rfl
@[simp] theorem neg_du : (-p).du = -p.du := rfl
@[simp] theorem mul_re : (p * q).re = p.re * q.re := rfl
@[simp] theorem mul_du : (p * q).du = p.re * q.du + p.du * q.re := rfl
@[simp] theorem div_re : (p / q).re = p.re / q.re := rfl
@[simp] theorem div_du : (p / q).du = (p.du * q.re - p.re * q.du) / (q.re * q.re) := rfl
@[simp] theorem sqrt_re : (HasSqrt.sqrt p).re = Real.sqrt p.re := rfl
@[simp] theorem sqrt_du : (HasSqrt.sqrt p).du = p.du / ((1 + 1) * Real.sqrt p.re) := rfl
@[simp] theorem sin_re : (HasTrig.sin p).re = Real.sin p.re := rfl
@[simp] theorem sin_du : (HasTrig.sin p).du = Real.cos p.re * p.du := rfl
@[simp] theorem cos_re : (HasTrig.cos p).re = Real.cos p.re := rfl
@[simp] theorem cos_du : (HasTrig.cos p).du = -(Real.sin p.re * p.du) := rfl
@[simp] theorem atan2_re : (HasTrig.atan2 p q).re = Complex.arg ⟨q.re, p.re⟩ := rfl
@[simp] theorem atan2_du :
    (HasTrig.atan2 p q).du = (q.re * p.du - p.re * q.du) / (q.re * q.re + p.re * p.re) := rfl
@[simp] theorem acos_re : (HasTrig.acos p).re = Real.arccos p.re := rfl
@[simp] theorem acos_du : (HasTrig.acos p).du
    = -p.du / Real.sqrt (1 - Dual.safeClip p.re * Dual.safeClip p.re) := rfl
@[simp] theorem asin_re : (HasTrig.asin p).re = Real.arcsin p.re := rfl
@[simp] theorem asin_du : (HasTrig.asin p).du
    = p.du / Real.sqrt (1 - Dual.safeClip p.re * Dual.safeClip p.re) := rfl
@[simp] theorem exp_re : (HasExp.exp p).re = Real.exp p.re := rfl
@[simp] theorem exp_du : (HasExp.exp p).du = Real.exp p.re * p.du := rfl
@[simp] theorem log_re : (HasExp.log p).re = Real.log p.re := rfl
@[simp] theorem log_du : (HasExp.log p).du = p.du / p.re := rfl
@[simp] theorem tanh_re : (HasExp.tanh p).re = Real.tanh p.re := rfl
@[simp] theorem tanh_du : (HasExp.tanh p).du = (1 - Real.tanh p.re * Real.tanh p.re) * p.du := rfl
@[simp] theorem ofSci_re (m : Nat) (s : Bool) (e : Nat) :
    (OfScientific.ofScientific m s e : Dual ℝ).re = OfScientific.ofScientific m s e := rfl
@[simp] theorem ofSci_du (m : Nat) (s : Bool) (e : Nat) :
    (OfScientific.ofScientific m s e : Dual ℝ).du = 0 := rfl
theorem lt_iff : p < q ↔ p.re < q.re := Iff.rfl
theorem le_iff : p ≤ q ↔ p.re ≤ q.re := Iff.rfl
end proj

/-- the clip of the custom rules is inactive on `[-(1-1e-7), 1-1e-7]` -/
theorem safeClip_inside (x : ℝ) (h : |x| ≤ 1 - 1e-7) : Dual.safeClip x = x := by
  unfold Dual.safeClip
  rw [clip_eq]
  obtain ⟨h1, h2⟩ := abs_le.mp h
  rw [max_eq_left (by linarith), min_eq_left h2]

/-! ## closure lemmas -/

/-- a constant (zero tangent) is sound -/
theorem const (c : ℝ) : Sound (fun _ => ⟨c, 0⟩) t := hasDerivAt_const t c
/-- any fixed dual number with zero tangent (`0`, `1`, literals) is sound -/
theorem const' (c : Dual ℝ) (hc : c.du = 0) : Sound (fun _ => c) t := by
  unfold Sound; rw [hc]; exact hasDerivAt_const t c.re
theorem zero : Sound (fun _ => (0 : Dual ℝ)) t := const' 0 rfl
theorem one : Sound (fun _ => (1 : Dual ℝ)) t := const' 1 rfl
theorem ofSci (m : Nat) (s : Bool) (e : Nat) :
    Sound (fun _ => (OfScientific.ofScientific m s e : Dual ℝ)) t := const' _ rfl
/-- the identity seeded with tangent 1 is sound -/
theorem id : Sound (fun u => ⟨u, 1⟩) t := hasDerivAt_id t

/-- a sound function has a continuous value part -/
theorem continuousAt (ha : Sound a t) : ContinuousAt (fun u => (a u).re) t :=
  HasDerivAt.continuousAt ha

theorem add (ha : Sound a t) (hb : Sound b t) : Sound (fun u => a u + b u) t :=
  HasDerivAt.add ha hb
theorem sub (ha : Sound a t) (hb : Sound b t) : Sound (fun u => a u - b u) t :=
  HasDerivAt.sub ha hb
theorem neg (ha : Sound a t) : Sound (fun u => -a u) t := HasDerivAt.neg ha
theorem mul (ha : Sound a t) (hb : Sound b t) : Sound (fun u => a u * b u) t := by
  have h := HasDerivAt.mul ha hb
  refine HasDerivAt.congr_deriv h ?_
  show _ = (a t).re * (b t).du + (a t).du * (b t).re
  ring
/-- quotient rule; needs a non-zero denominator at `t` -/
theorem div (ha : Sound a t) (hb : Sound b t) (h0 : (b t).re ≠ 0) :
    Sound (fun u => a u / b u) t := by
  have h := HasDerivAt.div ha hb h0
  refine HasDerivAt.congr_deriv h ?_
  show _ = ((a t).du * (b t).re - (a t).re * (b t).du) / ((b t).re * (b t).re)
  ring
/-- `sqrt`; needs a positive argument at `t` (what `safe_norm` guards) -/
theorem sqrt (ha : Sound a t) (h0 : 0 < (a t).re) : Sound (fun u => HasSqrt.sqrt (a u)) t := by
  have h := HasDerivAt.sqrt ha (ne_of_gt h0)
  refine HasDerivAt.congr_deriv h ?_
  show _ = (a t).du / ((1 + 1) * Real.sqrt (a t).re)
  ring
theorem sin (ha : Sound a t) : Sound (fun u => HasTrig.sin (a u)) t := HasDerivAt.sin ha
theorem cos (ha : Sound a t) : Sound (fun u => HasTrig.cos (a u)) t := by
  have h := HasDerivAt.cos ha
  refine HasDerivAt.congr_deriv h ?_
  show _ = -(Real.sin (a t).re * (a t).du)
  ring
theorem exp (ha : Sound a t) : Sound (fun u => HasExp.exp (a u)) t := HasDerivAt.exp ha
/-- `log`; needs a non-zero argument at `t` -/
theorem log (ha : Sound a t) (h0 : (a t).re ≠ 0) : Sound (fun u => HasExp.log (a u)) t :=
  HasDerivAt.log ha h0
theorem tanh (ha : Sound a t) : Sound (fun u => HasExp.tanh (a u)) t := by
  have hs := HasDerivAt.sinh ha
  have hc := HasDerivAt.cosh ha
  have h0 : Real.cosh (a t).re ≠ 0 := ne_of_gt (Real.cosh_pos _)
  have h := HasDerivAt.div hs hc h0
  unfold Sound
  have e : (fun u => (HasExp.tanh (a u)).re) = fun u => Real.sinh (a u).re / Real.cosh (a u).re := by
    funext u; simp only [tanh_re, Real.tanh_eq_sinh_div_cosh]
  rw [e]
  refine HasDerivAt.congr_deriv h ?_
  show _ = (1 - Real.tanh (a t).re * Real.tanh (a t).re) * (a t).du
  rw [Real.tanh_eq_sinh_div_cosh]
  field_simp

/-- brax's custom `safe_arccos` rule; sound wherever the clip is inactive -/
theorem acos (ha : Sound a t) (h : |(a t).re| ≤ 1 - 1e-7) :
    Sound (fun u => HasTrig.acos (a u)) t := by
  obtain ⟨h1, h2⟩ := abs_le.mp h
  have hx1 : (a t).re ≠ -1 := by intro hh; rw [hh] at h1; norm_num at h1
  have hx2 : (a t).re ≠ 1 := by intro hh; rw [hh] at h2; norm_num at h2
  have hd := (Real.hasDerivAt_arccos hx1 hx2).comp t ha
  refine HasDerivAt.congr_deriv hd ?_
  show _ = -(a t).du / Real.sqrt (1 - Dual.safeClip (a t).re * Dual.safeClip (a t).re)
  rw [safeClip_inside _ h, show (a t).re * (a t).re = (a t).re ^ 2 by ring]; ring
/-- brax's custom `safe_arcsin` rule; sound wherever the clip is inactive -/
theorem asin (ha : Sound a t) (h : |(a t).re| ≤ 1 - 1e-7) :
    Sound (fun u => HasTrig.asin (a u)) t := by
  obtain ⟨h1, h2⟩ := abs_le.mp h
  have hx1 : (a t).re ≠ -1 := by intro hh; rw [hh] at h1; norm_num at h1
  have hx2 : (a t).re ≠ 1 := by intro hh; rw [hh] at h2; norm_num at h2
  have hd := (Real.hasDerivAt_arcsin hx1 hx2).comp t ha
  refine HasDerivAt.congr_deriv hd ?_
  show _ = (a t).du / Real.sqrt (1 - Dual.safeClip (a t).re * Dual.safeClip (a t).re)
  rw [safeClip_inside _ h, show (a t).re * (a t).re = (a t).re ^ 2 by ring]; ring

/-- `atan2 y x = arg (x + i y)`; sound off the branch cut (`x > 0` or `y ≠ 0`) -/
theorem atan2 (hy : Sound y t) (hx : Sound x t) (h : 0 < (x t).re ∨ (y t).re ≠ 0) :
    Sound (fun u => HasTrig.atan2 (y u) (x u)) t := by
  -- the curve `u ↦ x u + i y u` in ℂ
  have hz : HasDerivAt (fun u => ((x u).re : ℂ) + ((y u).re : ℂ) * Complex.I)
      (((x t).du : ℂ) + ((y t).du : ℂ) * Complex.I) t :=
    (HasDerivAt.ofReal_comp hx).add ((HasDerivAt.ofReal_comp hy).mul_const Complex.I)
  have hmem : ((x t).re : ℂ) + ((y t).re : ℂ) * Complex.I ∈ Complex.slitPlane := by
    rw [Complex.mem_slitPlane_iff]
    simpa using h
  have hlog := hz.clog_real hmem
  have him := Complex.imCLM.hasFDerivAt.comp_hasDerivAt t hlog
  unfold Sound
  have e : (fun u => (HasTrig.atan2 (y u) (x u)).re)
      = (⇑Complex.imCLM ∘ fun u => Complex.log (((x u).re : ℂ) + ((y u).re : ℂ) * Complex.I)) := by
    funext u
    simp only [atan2_re, Function.comp, Complex.imCLM_apply, Complex.log_im]
    congr 1
    apply Complex.ext <;> simp
  rw [e]
  refine HasDerivAt.congr_deriv him ?_
  show _ = ((x t).re * (y t).du - (y t).re * (x t).du) / ((x t).re * (x t).re + (y t).re * (y t).re)
  simp only [Complex.imCLM_apply, Complex.div_im]
  have hn : Complex.normSq (((x t).re : ℂ) + ((y t).re : ℂ) * Complex.I)
      = (x t).re * (x t).re + (y t).re * (y t).re := by
    simp [Complex.normSq_apply]
  rw [hn]
  simp
  ring

/-- two dual-valued functions that agree near `t` are sound together -/
theorem congr_of_eventuallyEq (hb : Sound b t) (h : ∀ᶠ u in 𝓝 t, a u = b u) : Sound a t := by
  have ht : a t = b t := h.self_of_nhds
  unfold Sound
  rw [ht]
  exact HasDerivAt.congr_of_eventuallyEq hb (h.mono fun u hu => by simp only [hu])

/-- `if c then a else b` is sound when the decision is locally `true` and `a` is sound -/
theorem ite_of_eventually_true {c : ℝ → Prop} [DecidablePred c] (ha : Sound a t)
    (hc : ∀ᶠ u in 𝓝 t, c u) : Sound (fun u => if c u then a u else b u) t :=
  congr_of_eventuallyEq ha (hc.mono fun u hu => if_pos hu)
/-- `if c then a else b` is sound when the decision is locally `false` and `b` is sound -/
theorem ite_of_eventually_false {c : ℝ → Prop} [DecidablePred c] (hb : Sound b t)
    (hc : ∀ᶠ u in 𝓝 t, ¬ c u) : Sound (fun u => if c u then a u else b u) t :=
  congr_of_eventuallyEq hb (hc.mono fun u hu => if_neg hu)

/-- a strict inequality between sound functions persists near `t` (an open condition) -/
theorem eventually_lt (hx : Sound x t) (hy : Sound y t) (h : (x t).re < (y t).re) :
    ∀ᶠ u in 𝓝 t, x u < y u :=
  (hx.continuousAt.eventually_lt hy.continuousAt h : ∀ᶠ u in 𝓝 t, (x u).re < (y u).re)

/-- **`jp.where(x < y, a, b)`**, decided `true` at `t` by a strict inequality of the values -/
theorem ite_lt_true (hx : Sound x t) (hy : Sound y t) (ha : Sound a t)
    (h : (x t).re < (y t).re) : Sound (fun u => if x u < y u then a u else b u) t :=
  ite_of_eventually_true ha (eventually_lt hx hy h)
/-- **`jp.where(x < y, a, b)`**, decided `false` at `t` by the reverse strict inequality -/
theorem ite_lt_false (hx : Sound x t) (hy : Sound y t) (hb : Sound b t)
    (h : (y t).re < (x t).re) : Sound (fun u => if x u < y u then a u else b u) t :=
  ite_of_eventually_false hb ((eventually_lt hy hx h).mono fun u hu => not_lt_of_gt (α := ℝ) hu)
/-- `x ≤ y` decided `true` by the strict `x < y` -/
theorem ite_le_true (hx : Sound x t) (hy : Sound y t) (ha : Sound a t)
    (h : (x t).re < (y t).re) : Sound (fun u => if x u ≤ y u then a u else b u) t :=
  ite_of_eventually_true ha ((eventually_lt hx hy h).mono fun u hu => le_of_lt (α := ℝ) hu)
/-- `x ≤ y` decided `false` by the strict `y < x` -/
theorem ite_le_false (hx : Sound x t) (hy : Sound y t) (hb : Sound b t)
    (h : (y t).re < (x t).re) : Sound (fun u => if x u ≤ y u then a u else b u) t :=
  ite_of_eventually_false hb ((eventually_lt hy hx h).mono fun u hu => not_le_of_gt (α := ℝ) hu)

end Sound

/-! ## componentwise soundness of vectors, quaternions, transforms, motions -/

/-- value part / tangent part of dual-valued structures, and the zero-tangent lifting -/
def reV3 (v : V3 (Dual ℝ)) : V3 ℝ := ⟨v.x.re, v.y.re, v.z.re⟩
def duV3 (v : V3 (Dual ℝ)) : V3 ℝ := ⟨v.x.du, v.y.du, v.z.du⟩
def reQ4 (q : Q4 (Dual ℝ)) : Q4 ℝ := ⟨q.w.re, q.x.re, q.y.re, q.z.re⟩
def duQ4 (q : Q4 (Dual ℝ)) : Q4 ℝ := ⟨q.w.du, q.x.du, q.y.du, q.z.du⟩
def reTf (T : Tf (Dual ℝ)) : Tf ℝ := ⟨reV3 T.pos, reQ4 T.rot⟩
def duTf (T : Tf (Dual ℝ)) : Tf ℝ := ⟨duV3 T.pos, duQ4 T.rot⟩
def reMotion (m : Motion (Dual ℝ)) : Motion ℝ := ⟨reV3 m.ang, reV3 m.vel⟩
def duMotion (m : Motion (Dual ℝ)) : Motion ℝ := ⟨duV3 m.ang, duV3 m.vel⟩
/-- constants get zero tangent (as `Model/C03.lean` lifts a `Sys Float`) -/
def cR (x : ℝ) : Dual ℝ := ⟨x, 0⟩
def cV3 (v : V3 ℝ) : V3 (Dual ℝ) := ⟨cR v.x, cR v.y, cR v.z⟩
def cQ4 (q : Q4 ℝ) : Q4 (Dual ℝ) := ⟨cR q.w, cR q.x, cR q.y, cR q.z⟩
def cTf (T : Tf ℝ) : Tf (Dual ℝ) := ⟨cV3 T.pos, cQ4 T.rot⟩
def cMotion (m : Motion ℝ) : Motion (Dual ℝ) := ⟨cV3 m.ang, cV3 m.vel⟩

/-- componentwise derivative of real vector / quaternion / transform / motion valued curves -/
def DerivV3 (f : ℝ → V3 ℝ) (f' : V3 ℝ) (t : ℝ) : Prop :=
  HasDerivAt (fun u => (f u).x) f'.x t ∧ HasDerivAt (fun u => (f u).y) f'.y t
    ∧ HasDerivAt (fun u => (f u).z) f'.z t
def DerivQ4 (f : ℝ → Q4 ℝ) (f' : Q4 ℝ) (t : ℝ) : Prop :=
  HasDerivAt (fun u => (f u).w) f'.w t ∧ HasDerivAt (fun u => (f u).x) f'.x t
    ∧ HasDerivAt (fun u => (f u).y) f'.y t ∧ HasDerivAt (fun u => (f u).z) f'.z t
def DerivTf (f : ℝ → Tf ℝ) (f' : Tf ℝ) (t : ℝ) : Prop :=
  DerivV3 (fun u => (f u).pos) f'.pos t ∧ DerivQ4 (fun u => (f u).rot) f'.rot t
def DerivMotion (f : ℝ → Motion ℝ) (f' : Motion ℝ) (t : ℝ) : Prop :=
  DerivV3 (fun u => (f u).ang) f'.ang t ∧ DerivV3 (fun u => (f u).vel) f'.vel t

def SoundV3 (v : ℝ → V3 (Dual ℝ)) (t : ℝ) : Prop :=
  Sound (fun u => (v u).x) t ∧ Sound (fun u => (v u).y) t ∧ Sound (fun u => (v u).z) t
def SoundQ4 (q : ℝ → Q4 (Dual ℝ)) (t : ℝ) : Prop :=
  Sound (fun u => (q u).w) t ∧ Sound (fun u => (q u).x) t ∧ Sound (fun u => (q u).y) t
    ∧ Sound (fun u => (q u).z) t
def SoundTf (T : ℝ → Tf (Dual ℝ)) (t : ℝ) : Prop :=
  SoundV3 (fun u => (T u).pos) t ∧ SoundQ4 (fun u => (T u).rot) t
def SoundMotion (m : ℝ → Motion (Dual ℝ)) (t : ℝ) : Prop :=
  SoundV3 (fun u => (m u).ang) t ∧ SoundV3 (fun u => (m u).vel) t

/-- `Sound…` says exactly: the tangent parts at `t` are the derivative of the value parts -/
theorem SoundV3.deriv {v : ℝ → V3 (Dual ℝ)} {t : ℝ} (h : SoundV3 v t) :
    DerivV3 (fun u => reV3 (v u)) (duV3 (v t)) t := h
theorem SoundQ4.deriv {q : ℝ → Q4 (Dual ℝ)} {t : ℝ} (h : SoundQ4 q t) :
    DerivQ4 (fun u => reQ4 (q u)) (duQ4 (q t)) t := h
theorem SoundTf.deriv {T : ℝ → Tf (Dual ℝ)} {t : ℝ} (h : SoundTf T t) :
    DerivTf (fun u => reTf (T u)) (duTf (T t)) t := h
theorem SoundMotion.deriv {m : ℝ → Motion (Dual ℝ)} {t : ℝ} (h : SoundMotion m t) :
    DerivMotion (fun u => reMotion (m u)) (duMotion (m t)) t := h

theorem SoundV3.const (v : V3 ℝ) (t : ℝ) : SoundV3 (fun _ => cV3 v) t :=
  ⟨Sound.const _, Sound.const _, Sound.const _⟩
theorem SoundQ4.const (q : Q4 ℝ) (t : ℝ) : SoundQ4 (fun _ => cQ4 q) t :=
  ⟨Sound.const _, Sound.const _, Sound.const _, Sound.const _⟩
theorem SoundTf.const (T : Tf ℝ) (t : ℝ) : SoundTf (fun _ => cTf T) t :=
  ⟨SoundV3.const _ t, SoundQ4.const _ t⟩
theorem SoundMotion.const (m : Motion ℝ) (t : ℝ) : SoundMotion (fun _ => cMotion m) t :=
  ⟨SoundV3.const _ t, SoundV3.const _ t⟩

/-- closes soundness goals of polynomial / `sin` / `cos` expressions from the hypotheses in context -/
macro "sound_step" : tactic => `(tactic| first
  | assumption
  | exact Sound.id
  | exact Sound.const' _ rfl
  | apply Sound.add
  | apply Sound.sub
  | apply Sound.mul
  | apply Sound.neg
  | apply Sound.sin
  | apply Sound.cos)
macro "sound" : tactic => `(tactic| repeat' sound_step)

section poly
variable {t : ℝ} {p q : ℝ → Q4 (Dual ℝ)} {v w : ℝ → V3 (Dual ℝ)}

/-! ### polynomial functions: sound for **all** inputs; value part = the model at ℝ (by `rfl`) -/

theorem SoundV3.add (hv : SoundV3 v t) (hw : SoundV3 w t) : SoundV3 (fun u => v u + w u) t := by
  obtain ⟨h1, h2, h3⟩ := hv; obtain ⟨k1, k2, k3⟩ := hw
  exact ⟨Sound.add h1 k1, Sound.add h2 k2, Sound.add h3 k3⟩
theorem SoundV3.sub (hv : SoundV3 v t) (hw : SoundV3 w t) : SoundV3 (fun u => v u - w u) t := by
  obtain ⟨h1, h2, h3⟩ := hv; obtain ⟨k1, k2, k3⟩ := hw
  exact ⟨Sound.sub h1 k1, Sound.sub h2 k2, Sound.sub h3 k3⟩
theorem SoundV3.cross (hv : SoundV3 v t) (hw : SoundV3 w t) :
    SoundV3 (fun u => V3.cross (v u) (w u)) t := by
  obtain ⟨h1, h2, h3⟩ := hv; obtain ⟨k1, k2, k3⟩ := hw
  refine ⟨?_, ?_, ?_⟩ <;> simp only [V3.cross] <;> sound
theorem SoundV3.dot (hv : SoundV3 v t) (hw : SoundV3 w t) :
    Sound (fun u => V3.dot (v u) (w u)) t := by
  obtain ⟨h1, h2, h3⟩ := hv; obtain ⟨k1, k2, k3⟩ := hw
  simp only [V3.dot]; sound

/-- `math.quat_mul` (hand model) -/
theorem SoundQ4.quatMul (hp : SoundQ4 p t) (hq : SoundQ4 q t) :
    SoundQ4 (fun u => quatMul (p u) (q u)) t := by
  obtain ⟨h0, h1, h2, h3⟩ := hp; obtain ⟨k0, k1, k2, k3⟩ := hq
  refine ⟨?_, ?_, ?_, ?_⟩ <;> simp only [Brax.quatMul] <;> sound
/-- `math.quat_mul` (generated from the source) -/
theorem SoundQ4.gen_quatMul (hp : SoundQ4 p t) (hq : SoundQ4 q t) :
    SoundQ4 (fun u => Gen.quatMul (p u) (q u)) t := by
  obtain ⟨h0, h1, h2, h3⟩ := hp; obtain ⟨k0, k1, k2, k3⟩ := hq
  refine ⟨?_, ?_, ?_, ?_⟩ <;> simp only [Gen.quatMul] <;> sound
theorem SoundQ4.quatInv (hp : SoundQ4 p t) : SoundQ4 (fun u => quatInv (p u)) t := by
  obtain ⟨h0, h1, h2, h3⟩ := hp
  refine ⟨?_, ?_, ?_, ?_⟩ <;> simp only [Brax.quatInv] <;> sound
theorem SoundQ4.gen_quatInv (hp : SoundQ4 p t) : SoundQ4 (fun u => Gen.quatInv (p u)) t := by
  obtain ⟨h0, h1, h2, h3⟩ := hp
  refine ⟨?_, ?_, ?_, ?_⟩ <;> simp only [Gen.quatInv] <;> sound
/-- `math.rotate` (hand model) -/
theorem SoundV3.rotate (hv : SoundV3 v t) (hq : SoundQ4 q t) :
    SoundV3 (fun u => rotate (v u) (q u)) t := by
  obtain ⟨h1, h2, h3⟩ := hv; obtain ⟨k0, k1, k2, k3⟩ := hq
  refine ⟨?_, ?_, ?_⟩ <;> simp only [Brax.rotate, V3.dot, V3.cross, Q4.vec] <;> sound
/-- `math.rotate` (generated from the source) -/
theorem SoundV3.gen_rotate (hv : SoundV3 v t) (hq : SoundQ4 q t) :
    SoundV3 (fun u => Gen.rotate (v u) (q u)) t := by
  obtain ⟨h1, h2, h3⟩ := hv; obtain ⟨k0, k1, k2, k3⟩ := hq
  refine ⟨?_, ?_, ?_⟩ <;> simp only [Gen.rotate] <;> sound
theorem SoundV3.gen_invRotate (hv : SoundV3 v t) (hq : SoundQ4 q t) :
    SoundV3 (fun u => Gen.invRotate (v u) (q u)) t := by
  obtain ⟨h1, h2, h3⟩ := hv; obtain ⟨k0, k1, k2, k3⟩ := hq
  refine ⟨?_, ?_, ?_⟩ <;> simp only [Gen.invRotate] <;> sound

/-- the value part of the dual-number run is the real run (polynomial functions: by `rfl`) -/
theorem reQ4_quatMul (a b : Q4 (Dual ℝ)) : reQ4 (quatMul a b) = quatMul (reQ4 a) (reQ4 b) := rfl
theorem reQ4_gen_quatMul (a b : Q4 (Dual ℝ)) :
    reQ4 (Gen.quatMul a b) = Gen.quatMul (reQ4 a) (reQ4 b) := rfl
theorem reQ4_quatInv (a : Q4 (Dual ℝ)) : reQ4 (quatInv a) = quatInv (reQ4 a) := rfl
theorem reV3_rotate (a : V3 (Dual ℝ)) (b : Q4 (Dual ℝ)) :
    reV3 (rotate a b) = rotate (reV3 a) (reQ4 b) := rfl
theorem reV3_gen_rotate (a : V3 (Dual ℝ)) (b : Q4 (Dual ℝ)) :
    reV3 (Gen.rotate a b) = Gen.rotate (reV3 a) (reQ4 b) := rfl
theorem reV3_add (a b : V3 (Dual ℝ)) : reV3 (a + b) = reV3 a + reV3 b := rfl
theorem reV3_sub (a b : V3 (Dual ℝ)) : reV3 (a - b) = reV3 a - reV3 b := rfl
theorem reV3_cross (a b : V3 (Dual ℝ)) : reV3 (V3.cross a b) = V3.cross (reV3 a) (reV3 b) := rfl
@[simp] theorem reV3_cV3 (a : V3 ℝ) : reV3 (cV3 a) = a := rfl
@[simp] theorem reQ4_cQ4 (a : Q4 ℝ) : reQ4 (cQ4 a) = a := rfl
@[simp] theorem reTf_cTf (a : Tf ℝ) : reTf (cTf a) = a := rfl
@[simp] theorem reMotion_cMotion (a : Motion ℝ) : reMotion (cMotion a) = a := rfl

/-- **`Gen.quatMul`: the tangent of the dual-number run is the derivative of the real run**, for
all inputs -/
theorem gen_quatMul_deriv (hp : SoundQ4 p t) (hq : SoundQ4 q t) :
    DerivQ4 (fun u => Gen.quatMul (reQ4 (p u)) (reQ4 (q u))) (duQ4 (Gen.quatMul (p t) (q t))) t :=
  (SoundQ4.gen_quatMul hp hq).deriv
/-- **`Gen.rotate`: the tangent of the dual-number run is the derivative of the real run**, for
all inputs -/
theorem gen_rotate_deriv (hv : SoundV3 v t) (hq : SoundQ4 q t) :
    DerivV3 (fun u => Gen.rotate (reV3 (v u)) (reQ4 (q u))) (duV3 (Gen.rotate (v t) (q t))) t :=
  (SoundV3.gen_rotate hv hq).deriv

end poly

/-! ## `safe_norm` / `normalize` under their guard -/

theorem absv_re (p : Dual ℝ) : (absv p).re = |p.re| := by
  rw [← absv_eq_abs]
  unfold absv
  by_cases h : p.re < 0
  · have h' : p < 0 := h
    rw [if_pos h, if_pos h']; rfl
  · have h' : ¬ p < 0 := h
    rw [if_neg h, if_neg h']

/-- comparisons look at the value part only: `allclose` of the dual run is `allclose` of the values -/
theorem allClose0_dual (xs : List (Dual ℝ)) : allClose0 xs = allClose0 (xs.map Dual.re) := by
  induction xs with
  | nil => rfl
  | cons x xs ih =>
    simp only [allClose0, List.all_cons, List.map_cons] at ih ⊢
    rw [ih]
    congr 1
    apply decide_eq_decide.mpr
    show (absv x).re ≤ (1e-8 : ℝ) ↔ _
    rw [absv_re, absv_eq_abs]

theorem eqZero_dual (p : Dual ℝ) : eqZero p = eqZero p.re := rfl

/-- away from the `allclose` ball: an open condition -/
theorem eventually_not_allClose0 {t : ℝ} (fs : List (ℝ → ℝ)) (hc : ∀ f ∈ fs, ContinuousAt f t)
    (h : allClose0 (fs.map (· t)) = false) : ∀ᶠ u in 𝓝 t, allClose0 (fs.map (· u)) = false := by
  have : ∃ f ∈ fs, (1e-8 : ℝ) < |f t| := by
    by_contra hall
    push Not at hall
    have : allClose0 (fs.map (· t)) = true := by
      rw [allClose0_iff]; intro x hx
      obtain ⟨f, hf, rfl⟩ := List.mem_map.mp hx
      exact hall f hf
    rw [h] at this; exact Bool.false_ne_true this
  obtain ⟨f, hf, hbig⟩ := this
  have hev : ∀ᶠ u in 𝓝 t, (1e-8 : ℝ) < |f u| :=
    continuousAt_const.eventually_lt (hc f hf).abs hbig
  refine hev.mono fun u hu => ?_
  rw [Bool.eq_false_iff]; intro hcl
  rw [allClose0_iff] at hcl
  exact absurd (hcl (f u) (List.mem_map.mpr ⟨f, hf, rfl⟩)) (not_le_of_gt hu)

theorem sumsq_pos_of_not_allClose0 (xs : List ℝ) (h : allClose0 xs = false) :
    0 < xs.foldl (fun a y => a + y * y) 0 := by
  have : ∃ x ∈ xs, ¬ |x| ≤ 1e-8 := by
    by_contra hall
    push Not at hall
    have := (allClose0_iff xs).mpr hall
    rw [h] at this; exact Bool.false_ne_true this
  obtain ⟨x, hx, hbig⟩ := this
  have hx0 : x ≠ 0 := by intro h0; apply hbig; rw [h0]; norm_num
  -- accumulate
  have ge : ∀ (ys : List ℝ) (acc : ℝ), acc ≤ ys.foldl (fun a y => a + y * y) acc := by
    intro ys; induction ys with
    | nil => intro acc; exact le_refl _
    | cons y ys ih => intro acc; exact le_trans (by nlinarith [mul_self_nonneg y]) (ih _)
  have pos : ∀ (ys : List ℝ) (acc : ℝ), 0 ≤ acc → x ∈ ys → 0 < ys.foldl (fun a y => a + y * y) acc := by
    intro ys; induction ys with
    | nil => intro acc _ hm; simp at hm
    | cons z zs ih =>
      intro acc hacc hm
      rcases List.mem_cons.mp hm with rfl | hmem
      · exact lt_of_lt_of_le (show 0 < acc + x * x by have := mul_self_pos.mpr hx0; linarith) (ge _ _)
      · exact ih _ (by nlinarith [mul_self_nonneg z]) hmem
  exact pos xs 0 (le_refl _) hx

/-- the smooth branch of `math.normalize`: `x / sqrt(Σ xᵢ²)` as the code accumulates it -/
def nrm4 {α : Type} [Zero α] [Add α] [Mul α] [Div α] [HasSqrt α] (p : Q4 α) : Q4 α :=
  let n := HasSqrt.sqrt (0 + p.w * p.w + p.x * p.x + p.y * p.y + p.z * p.z)
  ⟨p.w / n, p.x / n, p.y / n, p.z / n⟩
def nrm3 {α : Type} [Zero α] [Add α] [Mul α] [Div α] [HasSqrt α] (p : V3 α) : V3 α :=
  let n := HasSqrt.sqrt (0 + p.x * p.x + p.y * p.y + p.z * p.z)
  ⟨p.x / n, p.y / n, p.z / n⟩

/-- pointwise: away from the `allclose` ball the dual run of `normalize` takes the smooth branch
in both `where`s -/
theorem normalize4_dual_of_guard (p : Q4 (Dual ℝ))
    (h : allClose0 [p.w.re, p.x.re, p.y.re, p.z.re] = false) : normalize4 p = nrm4 p := by
  have hd : allClose0 [p.w, p.x, p.y, p.z] = false := by rw [allClose0_dual]; exact h
  have hpos := sumsq_pos_of_not_allClose0 _ h
  simp only [List.foldl] at hpos
  have e0 : eqZero (HasSqrt.sqrt ((0 : Dual ℝ) + p.w * p.w + p.x * p.x + p.y * p.y + p.z * p.z))
      = false := by
    rw [Bool.eq_false_iff]; intro hc
    have hc' : eqZero (Real.sqrt (0 + p.w.re * p.w.re + p.x.re * p.x.re + p.y.re * p.y.re
        + p.z.re * p.z.re)) = true := hc
    rw [eqZero_iff] at hc'
    exact (ne_of_gt (Real.sqrt_pos.mpr hpos)) hc'
  simp only [normalize4, safeNorm4, safeNormL, hd, Bool.false_eq_true, if_false, List.foldl, e0, nrm4]

theorem normalize3_dual_of_guard (p : V3 (Dual ℝ))
    (h : allClose0 [p.x.re, p.y.re, p.z.re] = false) : normalize3 p = nrm3 p := by
  have hd : allClose0 [p.x, p.y, p.z] = false := by rw [allClose0_dual]; exact h
  have hpos := sumsq_pos_of_not_allClose0 _ h
  simp only [List.foldl] at hpos
  have e0 : eqZero (HasSqrt.sqrt ((0 : Dual ℝ) + p.x * p.x + p.y * p.y + p.z * p.z)) = false := by
    rw [Bool.eq_false_iff]; intro hc
    have hc' : eqZero (Real.sqrt (0 + p.x.re * p.x.re + p.y.re * p.y.re + p.z.re * p.z.re))
        = true := hc
    rw [eqZero_iff] at hc'
    exact (ne_of_gt (Real.sqrt_pos.mpr hpos)) hc'
  simp only [normalize3, safeNorm3, safeNormL, hd, Bool.false_eq_true, if_false, List.foldl, e0, nrm3]

section nrm
variable {t : ℝ} {q : ℝ → Q4 (Dual ℝ)} {v : ℝ → V3 (Dual ℝ)}

/-- the smooth branch is sound wherever the squared norm is positive -/
theorem SoundQ4.nrm4 (hq : SoundQ4 q t)
    (hpos : 0 < 0 + (q t).w.re * (q t).w.re + (q t).x.re * (q t).x.re + (q t).y.re * (q t).y.re
      + (q t).z.re * (q t).z.re) : SoundQ4 (fun u => nrm4 (q u)) t := by
  obtain ⟨h0, h1, h2, h3⟩ := hq
  have hs : Sound (fun u => (0 : Dual ℝ) + (q u).w * (q u).w + (q u).x * (q u).x
      + (q u).y * (q u).y + (q u).z * (q u).z) t := by sound
  have hn := Sound.sqrt hs hpos
  have hne : (HasSqrt.sqrt ((0 : Dual ℝ) + (q t).w * (q t).w + (q t).x * (q t).x
      + (q t).y * (q t).y + (q t).z * (q t).z)).re ≠ 0 := ne_of_gt (Real.sqrt_pos.mpr hpos)
  exact ⟨Sound.div h0 hn hne, Sound.div h1 hn hne, Sound.div h2 hn hne, Sound.div h3 hn hne⟩

theorem SoundV3.nrm3 (hv : SoundV3 v t)
    (hpos : 0 < 0 + (v t).x.re * (v t).x.re + (v t).y.re * (v t).y.re + (v t).z.re * (v t).z.re) :
    SoundV3 (fun u => nrm3 (v u)) t := by
  obtain ⟨h1, h2, h3⟩ := hv
  have hs : Sound (fun u => (0 : Dual ℝ) + (v u).x * (v u).x + (v u).y * (v u).y
      + (v u).z * (v u).z) t := by sound
  have hn := Sound.sqrt hs hpos
  have hne : (HasSqrt.sqrt ((0 : Dual ℝ) + (v t).x * (v t).x + (v t).y * (v t).y
      + (v t).z * (v t).z)).re ≠ 0 := ne_of_gt (Real.sqrt_pos.mpr hpos)
  exact ⟨Sound.div h1 hn hne, Sound.div h2 hn hne, Sound.div h3 hn hne⟩

theorem SoundQ4.congr {q' : ℝ → Q4 (Dual ℝ)} (h : SoundQ4 q' t) (he : ∀ᶠ u in 𝓝 t, q u = q' u) :
    SoundQ4 q t :=
  ⟨Sound.congr_of_eventuallyEq h.1 (he.mono fun u hu => by rw [hu]),
   Sound.congr_of_eventuallyEq h.2.1 (he.mono fun u hu => by rw [hu]),
   Sound.congr_of_eventuallyEq h.2.2.1 (he.mono fun u hu => by rw [hu]),
   Sound.congr_of_eventuallyEq h.2.2.2 (he.mono fun u hu => by rw [hu])⟩
theorem SoundV3.congr {v' : ℝ → V3 (Dual ℝ)} (h : SoundV3 v' t) (he : ∀ᶠ u in 𝓝 t, v u = v' u) :
    SoundV3 v t :=
  ⟨Sound.congr_of_eventuallyEq h.1 (he.mono fun u hu => by rw [hu]),
   Sound.congr_of_eventuallyEq h.2.1 (he.mono fun u hu => by rw [hu]),
   Sound.congr_of_eventuallyEq h.2.2 (he.mono fun u hu => by rw [hu])⟩

/-- **`math.normalize` on a quaternion is sound away from the `allclose` switching**: if some
component has `|xᵢ| > 1e-8` at `t` (the guard is `false`, an open condition) the tangent of the
dual run is the derivative -/
theorem SoundQ4.normalize4 (hq : SoundQ4 q t)
    (hg : allClose0 [(q t).w.re, (q t).x.re, (q t).y.re, (q t).z.re] = false) :
    SoundQ4 (fun u => normalize4 (q u)) t := by
  have hev := eventually_not_allClose0 (t := t)
    [fun u => (q u).w.re, fun u => (q u).x.re, fun u => (q u).y.re, fun u => (q u).z.re]
    (by
      intro f hf
      simp only [List.mem_cons, List.mem_nil_iff, or_false] at hf
      rcases hf with rfl | rfl | rfl | rfl
      exacts [hq.1.continuousAt, hq.2.1.continuousAt, hq.2.2.1.continuousAt, hq.2.2.2.continuousAt])
    hg
  have hpos := sumsq_pos_of_not_allClose0 _ hg
  simp only [List.foldl] at hpos
  exact SoundQ4.congr (SoundQ4.nrm4 hq hpos)
    (hev.mono fun u hu => normalize4_dual_of_guard (q u) hu)

/-- `math.normalize` on a 3-vector, same guard -/
theorem SoundV3.normalize3 (hv : SoundV3 v t)
    (hg : allClose0 [(v t).x.re, (v t).y.re, (v t).z.re] = false) :
    SoundV3 (fun u => normalize3 (v u)) t := by
  have hev := eventually_not_allClose0 (t := t)
    [fun u => (v u).x.re, fun u => (v u).y.re, fun u => (v u).z.re]
    (by
      intro f hf
      simp only [List.mem_cons, List.mem_nil_iff, or_false] at hf
      rcases hf with rfl | rfl | rfl
      exacts [hv.1.continuousAt, hv.2.1.continuousAt, hv.2.2.continuousAt])
    hg
  have hpos := sumsq_pos_of_not_allClose0 _ hg
  simp only [List.foldl] at hpos
  exact SoundV3.congr (SoundV3.nrm3 hv hpos)
    (hev.mono fun u hu => normalize3_dual_of_guard (v u) hu)

end nrm

/-- the value part of the dual run of `safe_norm`/`normalize` is the real run, for **every**
input (both branches) -/
theorem safeNorm4_re (p : Q4 (Dual ℝ)) : (safeNorm4 p).re = safeNorm4 (reQ4 p) := by
  have hd : allClose0 [p.w, p.x, p.y, p.z] = allClose0 [p.w.re, p.x.re, p.y.re, p.z.re] :=
    allClose0_dual _
  simp only [safeNorm4, safeNormL, hd, reQ4]
  by_cases hb : allClose0 [p.w.re, p.x.re, p.y.re, p.z.re] = true
  · simp only [hb, if_true]; rfl
  · simp only [hb, Bool.false_eq_true, if_false, List.foldl]; rfl
theorem safeNorm3_re (p : V3 (Dual ℝ)) : (safeNorm3 p).re = safeNorm3 (reV3 p) := by
  have hd : allClose0 [p.x, p.y, p.z] = allClose0 [p.x.re, p.y.re, p.z.re] := allClose0_dual _
  simp only [safeNorm3, safeNormL, hd, reV3]
  by_cases hb : allClose0 [p.x.re, p.y.re, p.z.re] = true
  · simp only [hb, if_true]; rfl
  · simp only [hb, Bool.false_eq_true, if_false, List.foldl]; rfl

theorem reQ4_normalize4 (p : Q4 (Dual ℝ)) : reQ4 (normalize4 p) = normalize4 (reQ4 p) := by
  have hn := safeNorm4_re p
  have hz : eqZero (safeNorm4 p) = eqZero (safeNorm4 (reQ4 p)) := by rw [eqZero_dual, hn]
  simp only [normalize4, hz, ← hn]
  cases eqZero (safeNorm4 p).re <;> rfl
theorem reV3_normalize3 (p : V3 (Dual ℝ)) : reV3 (normalize3 p) = normalize3 (reV3 p) := by
  have hn := safeNorm3_re p
  have hz : eqZero (safeNorm3 p) = eqZero (safeNorm3 (reV3 p)) := by rw [eqZero_dual, hn]
  simp only [normalize3, hz, ← hn]
  cases eqZero (safeNorm3 p).re <;> rfl

/-! ## kinematics: `quat_rot_axis`, `jcalc` of one dof, joint placement, `world`, one link of `forward` -/

section kin
variable {t : ℝ}

theorem Sound.half {a : ℝ → Dual ℝ} (ha : Sound a t) : Sound (fun u => a u / (1 + 1)) t :=
  Sound.div ha (Sound.add Sound.one Sound.one) (by show (1 + 1 : ℝ) ≠ 0; norm_num)

/-- `math.quat_rot_axis`: sound for all inputs -/
theorem SoundQ4.quatRotAxis {ax : ℝ → V3 (Dual ℝ)} {θ : ℝ → Dual ℝ} (hax : SoundV3 ax t)
    (hθ : Sound θ t) : SoundQ4 (fun u => quatRotAxis (ax u) (θ u)) t := by
  obtain ⟨h1, h2, h3⟩ := hax
  have hh := Sound.half hθ
  refine ⟨?_, ?_, ?_, ?_⟩ <;> simp only [Brax.quatRotAxis] <;> sound
theorem SoundQ4.gen_quatRotAxis {ax : ℝ → V3 (Dual ℝ)} {θ : ℝ → Dual ℝ} (hax : SoundV3 ax t)
    (hθ : Sound θ t) : SoundQ4 (fun u => Gen.quatRotAxis (ax u) (θ u)) t := by
  obtain ⟨h1, h2, h3⟩ := hax
  have hh := Sound.half hθ
  refine ⟨?_, ?_, ?_, ?_⟩ <;> simp only [Gen.quatRotAxis] <;> sound
theorem reQ4_quatRotAxis (a : V3 (Dual ℝ)) (θ : Dual ℝ) :
    reQ4 (quatRotAxis a θ) = quatRotAxis (reV3 a) θ.re := rfl

theorem SoundV3.smulR {v : ℝ → V3 (Dual ℝ)} {a : ℝ → Dual ℝ} (hv : SoundV3 v t) (ha : Sound a t) :
    SoundV3 (fun u => (⟨(v u).x * a u, (v u).y * a u, (v u).z * a u⟩ : V3 (Dual ℝ))) t :=
  ⟨Sound.mul hv.1 ha, Sound.mul hv.2.1 ha, Sound.mul hv.2.2 ha⟩

/-- `Transform.do(Transform)` -/
theorem SoundTf.doTf {A B : ℝ → Tf (Dual ℝ)} (hA : SoundTf A t) (hB : SoundTf B t) :
    SoundTf (fun u => Tf.doTf (A u) (B u)) t :=
  ⟨SoundV3.add hA.1 (SoundV3.rotate hB.1 hA.2), SoundQ4.quatMul hA.2 hB.2⟩
theorem reTf_doTf (A B : Tf (Dual ℝ)) : reTf (Tf.doTf A B) = Tf.doTf (reTf A) (reTf B) := rfl

/-- value part / lifting of a dof -/
def reDof (d : DofP (Dual ℝ)) : DofP ℝ :=
  ⟨reMotion d.motion, d.armature.re, d.stiffness.re, d.damping.re, d.lo.map Dual.re,
   d.hi.map Dual.re, d.invweight.re⟩
def cDof (d : DofP ℝ) : DofP (Dual ℝ) :=
  ⟨cMotion d.motion, cR d.armature, cR d.stiffness, cR d.damping, d.lo.map cR, d.hi.map cR,
   cR d.invweight⟩
@[simp] theorem reDof_cDof (d : DofP ℝ) : reDof (cDof d) = d := by
  cases d with | mk m a s dd lo hi iw =>
  have e : (Dual.re ∘ cR) = (fun x : ℝ => x) := rfl
  simp only [reDof, cDof, reMotion_cMotion, Option.map_map, e, Option.map_id']
  rfl

/-- **`jcalc` of one dof** (`Kin.jcalcDof`): sound in the joint angle `q`, the joint velocity `qd`
and the dof's motion subspace, provided the `normalize` of `quat_rot_axis(ang, q)` is off the
`allclose` ball at `t` -/
theorem jcalcDof_sound {d : ℝ → DofP (Dual ℝ)} {q qd : ℝ → Dual ℝ}
    (hd : SoundMotion (fun u => (d u).motion) t) (hq : Sound q t) (hqd : Sound qd t)
    (hg : let r := reQ4 (quatRotAxis (d t).motion.ang (q t));
          allClose0 [r.w, r.x, r.y, r.z] = false) :
    SoundTf (fun u => (Kin.jcalcDof (d u) (q u) (qd u)).1) t
    ∧ SoundMotion (fun u => (Kin.jcalcDof (d u) (q u) (qd u)).2) t := by
  refine ⟨⟨SoundV3.smulR hd.2 hq, ?_⟩, ⟨SoundV3.smulR hd.1 hqd, SoundV3.smulR hd.2 hqd⟩⟩
  exact SoundQ4.normalize4 (SoundQ4.quatRotAxis hd.1 hq) hg

/-- the value part of the dual run of `jcalcDof` is the real run -/
theorem re_jcalcDof (d : DofP (Dual ℝ)) (q qd : Dual ℝ) :
    reTf (Kin.jcalcDof d q qd).1 = (Kin.jcalcDof (reDof d) q.re qd.re).1
    ∧ reMotion (Kin.jcalcDof d q qd).2 = (Kin.jcalcDof (reDof d) q.re qd.re).2 := by
  refine ⟨?_, rfl⟩
  show (⟨_, reQ4 (normalize4 (quatRotAxis d.motion.ang q))⟩ : Tf ℝ) = _
  rw [reQ4_normalize4, reQ4_quatRotAxis]
  rfl

/-- the seeds: the differentiation variable carries tangent 1, everything else tangent 0 -/
def var (u : ℝ) : Dual ℝ := ⟨u, 1⟩

/-- **`jcalc` of one dof: the tangent computed by the dual-number model is the derivative of the
real model w.r.t. the joint angle `q`**, off the `allclose` ball of `normalize` -/
theorem jcalcDof_tangent_is_derivative (d : DofP ℝ) (q qd : ℝ)
    (hg : let r := quatRotAxis d.motion.ang q; allClose0 [r.w, r.x, r.y, r.z] = false) :
    DerivTf (fun u => (Kin.jcalcDof d u qd).1) (duTf (Kin.jcalcDof (cDof d) (var q) (cR qd)).1) q
    ∧ DerivMotion (fun u => (Kin.jcalcDof d u qd).2)
        (duMotion (Kin.jcalcDof (cDof d) (var q) (cR qd)).2) q := by
  have h := jcalcDof_sound (t := q) (d := fun _ => cDof d) (q := var) (qd := fun _ => cR qd)
    (SoundMotion.const _ _) Sound.id (Sound.const _) hg
  have e : ∀ u, reTf (Kin.jcalcDof (cDof d) (var u) (cR qd)).1 = (Kin.jcalcDof d u qd).1
      ∧ reMotion (Kin.jcalcDof (cDof d) (var u) (cR qd)).2 = (Kin.jcalcDof d u qd).2 := by
    intro u
    have := re_jcalcDof (cDof d) (var u) (cR qd)
    rw [reDof_cDof] at this
    exact this
  have h1 := h.1.deriv
  have h2 := h.2.deriv
  simp only [(e _).1] at h1
  simp only [(e _).2] at h2
  exact ⟨h1, h2⟩

/-- … and w.r.t. the joint velocity `qd` (same guard: the transform does not depend on `qd`, but
its tangent — zero — is computed through `normalize`) -/
theorem jcalcDof_tangent_is_derivative_qd (d : DofP ℝ) (q qd : ℝ)
    (hg : let r := quatRotAxis d.motion.ang q; allClose0 [r.w, r.x, r.y, r.z] = false) :
    DerivTf (fun u => (Kin.jcalcDof d q u).1) (duTf (Kin.jcalcDof (cDof d) (cR q) (var qd)).1) qd
    ∧ DerivMotion (fun u => (Kin.jcalcDof d q u).2)
        (duMotion (Kin.jcalcDof (cDof d) (cR q) (var qd)).2) qd := by
  have h := jcalcDof_sound (t := qd) (d := fun _ => cDof d) (q := fun _ => cR q) (qd := var)
    (SoundMotion.const _ _) (Sound.const _) Sound.id hg
  have e : ∀ u, reTf (Kin.jcalcDof (cDof d) (cR q) (var u)).1 = (Kin.jcalcDof d q u).1
      ∧ reMotion (Kin.jcalcDof (cDof d) (cR q) (var u)).2 = (Kin.jcalcDof d q u).2 := by
    intro u
    have := re_jcalcDof (cDof d) (cR q) (var u)
    rw [reDof_cDof] at this
    exact this
  have h1 := h.1.deriv
  have h2 := h.2.deriv
  simp only [(e _).1] at h1
  simp only [(e _).2] at h2
  exact ⟨h1, h2⟩

/-- a hinge (unit rotation axis) is off the `allclose` ball for **every** angle -/
theorem hinge_guard (ang : V3 ℝ) (q : ℝ) (ha : V3.dot ang ang = 1) :
    let r := quatRotAxis ang q; allClose0 [r.w, r.x, r.y, r.z] = false :=
  not_allClose0_of_unit (quatRotAxis_isUnit ang q ha)

/-- **hinge: for every joint angle, the dual-number tangent of `jcalc` is its derivative** -/
theorem jcalcDof_hinge_tangent_is_derivative (d : DofP ℝ) (q qd : ℝ)
    (ha : V3.dot d.motion.ang d.motion.ang = 1) :
    DerivTf (fun u => (Kin.jcalcDof d u qd).1) (duTf (Kin.jcalcDof (cDof d) (var q) (cR qd)).1) q
    ∧ DerivMotion (fun u => (Kin.jcalcDof d u qd).2)
        (duMotion (Kin.jcalcDof (cDof d) (var q) (cR qd)).2) q :=
  jcalcDof_tangent_is_derivative d q qd (hinge_guard _ q ha)

/-- a slide dof (`ang = 0`): the guard is `|cos(q/2)| > 1e-8` -/
theorem slide_guard (q : ℝ) (h : 1e-8 < |Real.cos (q / 2)|) :
    let r := quatRotAxis (⟨0, 0, 0⟩ : V3 ℝ) q; allClose0 [r.w, r.x, r.y, r.z] = false := by
  have h2 : (1 + 1 : ℝ) = 2 := by norm_num
  show allClose0 [_, _, _, _] = false
  rw [Bool.eq_false_iff]; intro hc
  rw [allClose0_iff] at hc
  have := hc (Real.cos (q / 2)) (by simp [quatRotAxis, HasTrig.cos, h2])
  exact absurd this (not_le_of_gt h)

/-- non-vacuity: a z-axis hinge -/
example : V3.dot (⟨0, 0, 1⟩ : V3 ℝ) ⟨0, 0, 1⟩ = 1 := by norm_num [V3.dot]

/-! ### joint placement, `world`, one link of `kinematics.forward` -/

def SoundTM (x : ℝ → Tf (Dual ℝ) × Motion (Dual ℝ)) (t : ℝ) : Prop :=
  SoundTf (fun u => (x u).1) t ∧ SoundMotion (fun u => (x u).2) t
def reTM (x : Tf (Dual ℝ) × Motion (Dual ℝ)) : Tf ℝ × Motion ℝ := (reTf x.1, reMotion x.2)
def duTM (x : Tf (Dual ℝ) × Motion (Dual ℝ)) : Tf ℝ × Motion ℝ := (duTf x.1, duMotion x.2)
def DerivTM (f : ℝ → Tf ℝ × Motion ℝ) (f' : Tf ℝ × Motion ℝ) (t : ℝ) : Prop :=
  DerivTf (fun u => (f u).1) f'.1 t ∧ DerivMotion (fun u => (f u).2) f'.2 t
theorem SoundTM.deriv {x : ℝ → Tf (Dual ℝ) × Motion (Dual ℝ)} (h : SoundTM x t) :
    DerivTM (fun u => reTM (x u)) (duTM (x t)) t := h

/-- `placeJoint` (joint anchor offset and `link.transform.do`): polynomial, sound for all inputs -/
theorem placeJoint_sound {lk : ℝ → LinkP (Dual ℝ)} {j : ℝ → Tf (Dual ℝ)}
    (htf : SoundTf (fun u => (lk u).tf) t) (hjt : SoundTf (fun u => (lk u).joint) t)
    (hj : SoundTf j t) : SoundTf (fun u => Kin.placeJoint (lk u) (j u)) t := by
  have hz : SoundV3 (fun _ => (V3.zero : V3 (Dual ℝ))) t := ⟨Sound.zero, Sound.zero, Sound.zero⟩
  have hanchor : SoundTf (fun u => Tf.doTf ⟨V3.zero, (j u).rot⟩ (lk u).joint) t :=
    SoundTf.doTf ⟨hz, hj.2⟩ hjt
  exact SoundTf.doTf htf ⟨SoundV3.sub (SoundV3.add hj.1 hjt.1) hanchor.1, hj.2⟩

/-- `world` of `kinematics.forward`, root link -/
theorem world_none_sound {jj : ℝ → Tf (Dual ℝ) × Motion (Dual ℝ)} (h : SoundTM jj t) :
    SoundTM (fun u => Kin.world none (jj u)) t :=
  ⟨h.1, ⟨SoundV3.rotate h.2.1 h.1.2, h.2.2⟩⟩

/-- `world` of `kinematics.forward`, link with a parent: sound whenever the parent's world
transform/motion and the link's joint transform/motion are -/
theorem world_some_sound {par jj : ℝ → Tf (Dual ℝ) × Motion (Dual ℝ)} (hp : SoundTM par t)
    (h : SoundTM jj t) : SoundTM (fun u => Kin.world (some (par u)) (jj u)) t := by
  have hx : SoundTf (fun u => Tf.doTf (par u).1 (jj u).1) t := SoundTf.doTf hp.1 h.1
  refine ⟨hx, ⟨?_, ?_⟩⟩
  · exact SoundV3.add hp.2.1 (SoundV3.rotate h.2.1 hx.2)
  · exact SoundV3.add (SoundV3.add hp.2.2 (SoundV3.cross hp.2.1 (SoundV3.sub hx.1 hp.1.1)))
      (SoundV3.rotate h.2.2 hp.1.2)

theorem world_sound {par : Option (ℝ → Tf (Dual ℝ) × Motion (Dual ℝ))}
    {jj : ℝ → Tf (Dual ℝ) × Motion (Dual ℝ)} (hp : ∀ f, par = some f → SoundTM f t)
    (h : SoundTM jj t) : SoundTM (fun u => Kin.world (par.map (· u)) (jj u)) t := by
  cases par with
  | none => exact world_none_sound h
  | some f => exact world_some_sound (hp f rfl) h

def reLink (l : LinkP (Dual ℝ)) : LinkP ℝ :=
  ⟨reTf l.tf, reTf l.joint, ⟨reTf l.inertia.tf, ⟨reV3 l.inertia.i.r0, reV3 l.inertia.i.r1,
    reV3 l.inertia.i.r2⟩, l.inertia.mass.re⟩, l.invweight.re, l.cStiffness.re, l.cVelDamping.re,
    l.cLimitStiffness.re, l.cAngDamping.re⟩
def cLink (l : LinkP ℝ) : LinkP (Dual ℝ) :=
  ⟨cTf l.tf, cTf l.joint, ⟨cTf l.inertia.tf, ⟨cV3 l.inertia.i.r0, cV3 l.inertia.i.r1,
    cV3 l.inertia.i.r2⟩, cR l.inertia.mass⟩, cR l.invweight, cR l.cStiffness, cR l.cVelDamping,
    cR l.cLimitStiffness, cR l.cAngDamping⟩
@[simp] theorem reLink_cLink (l : LinkP ℝ) : reLink (cLink l) = l := rfl

theorem re_placeJoint (l : LinkP (Dual ℝ)) (j : Tf (Dual ℝ)) :
    reTf (Kin.placeJoint l j) = Kin.placeJoint (reLink l) (reTf j) := rfl
theorem re_world_none (jj : Tf (Dual ℝ) × Motion (Dual ℝ)) :
    reTM (Kin.world none jj) = Kin.world none (reTM jj) := rfl
theorem re_world_some (par jj : Tf (Dual ℝ) × Motion (Dual ℝ)) :
    reTM (Kin.world (some par) jj) = Kin.world (some (reTM par)) (reTM jj) := rfl

/-- what `kinematics.forward` computes for one link with one dof, given its parent's
(un-normalised) world transform/motion: `jcalc`, joint placement, `world`; the returned rotation
is normalised by the final `vmap(math.normalize)` -/
def link1 {α : Type} [Zero α] [One α] [Add α] [Sub α] [Mul α] [Neg α] [Div α]
    [LT α] [DecidableLT α] [LE α] [DecidableLE α] [OfScientific α] [HasSqrt α] [HasTrig α]
    (parent : Option (Tf α × Motion α)) (lk : LinkP α) (d : DofP α) (q qd : α) :
    Tf α × Motion α :=
  let j := Kin.jcalcDof d q qd
  Kin.world parent (Kin.placeJoint lk j.1, (⟨j.2.ang, rotate j.2.vel lk.tf.rot⟩ : Motion α))
def post {α : Type} [Zero α] [One α] [Add α] [Sub α] [Mul α] [Neg α] [Div α]
    [LT α] [DecidableLT α] [LE α] [DecidableLE α] [OfScientific α] [HasSqrt α]
    (x : Tf α × Motion α) : Tf α × Motion α := (⟨x.1.pos, normalize4 x.1.rot⟩, x.2)

/-- `Kin.forward` on a system whose only link is a one-dof root is `post (link1 none …)` — at
every scalar type (so at `ℝ` and at `Dual ℝ`) -/
theorem forward_single {α : Type} [Zero α] [One α] [Add α] [Sub α] [Mul α] [Neg α] [Div α]
    [LT α] [DecidableLT α] [LE α] [DecidableLE α] [OfScientific α] [HasSqrt α] [HasTrig α]
    (s : Sys α) (lk : LinkP α) (d : DofP α) (q qd : α) (ht : s.types = [.one])
    (hp : s.parents = [-1]) (hl : s.links = [lk]) (hd : s.dofs = [d]) :
    Kin.forward s [q] [qd] = [post (link1 none lk d q qd)] := by
  simp only [Kin.forward, ht, hp, hl, hd, Kin.linkSlices, LinkType.qWidth, LinkType.qdWidth,
    List.take, List.drop, List.zip_cons_cons, List.zip_nil_right, List.map_cons, List.map_nil,
    Kin.jcalc, List.foldl, Kin.scanFwd, post, link1]
  rfl

/-- **one link of `kinematics.forward` (before the final normalisation) is sound** in `q`, `qd`,
the dof's motion subspace, the link/joint transforms and the parent's world transform/motion;
only side condition: the `normalize` inside `jcalc` is off the `allclose` ball at `t` -/
theorem link1_sound {par : Option (ℝ → Tf (Dual ℝ) × Motion (Dual ℝ))} {lk : ℝ → LinkP (Dual ℝ)}
    {d : ℝ → DofP (Dual ℝ)} {q qd : ℝ → Dual ℝ}
    (hp : ∀ f, par = some f → SoundTM f t)
    (htf : SoundTf (fun u => (lk u).tf) t) (hjt : SoundTf (fun u => (lk u).joint) t)
    (hd : SoundMotion (fun u => (d u).motion) t) (hq : Sound q t) (hqd : Sound qd t)
    (hg : let r := reQ4 (quatRotAxis (d t).motion.ang (q t));
          allClose0 [r.w, r.x, r.y, r.z] = false) :
    SoundTM (fun u => link1 (par.map (· u)) (lk u) (d u) (q u) (qd u)) t := by
  have hj := jcalcDof_sound hd hq hqd hg
  exact world_sound hp ⟨placeJoint_sound htf hjt hj.1, ⟨hj.2.1, SoundV3.rotate hj.2.2 htf.2⟩⟩

/-- the final `vmap(math.normalize)` of the rotations -/
theorem post_sound {x : ℝ → Tf (Dual ℝ) × Motion (Dual ℝ)} (h : SoundTM x t)
    (hg : let r := reQ4 (x t).1.rot; allClose0 [r.w, r.x, r.y, r.z] = false) :
    SoundTM (fun u => post (x u)) t :=
  ⟨⟨h.1.1, SoundQ4.normalize4 h.1.2 hg⟩, h.2⟩

theorem re_link1 (par : Option (Tf (Dual ℝ) × Motion (Dual ℝ))) (lk : LinkP (Dual ℝ))
    (d : DofP (Dual ℝ)) (q qd : Dual ℝ) :
    reTM (link1 par lk d q qd) = link1 (par.map reTM) (reLink lk) (reDof d) q.re qd.re := by
  have e := re_jcalcDof d q qd
  cases par with
  | none =>
    show Kin.world none (Kin.placeJoint (reLink lk) (reTf (Kin.jcalcDof d q qd).1),
      (⟨(reMotion (Kin.jcalcDof d q qd).2).ang,
        rotate (reMotion (Kin.jcalcDof d q qd).2).vel (reLink lk).tf.rot⟩ : Motion ℝ)) = _
    rw [e.1, e.2]; rfl
  | some xp =>
    show Kin.world (some (reTM xp)) (Kin.placeJoint (reLink lk) (reTf (Kin.jcalcDof d q qd).1),
      (⟨(reMotion (Kin.jcalcDof d q qd).2).ang,
        rotate (reMotion (Kin.jcalcDof d q qd).2).vel (reLink lk).tf.rot⟩ : Motion ℝ)) = _
    rw [e.1, e.2]; rfl

theorem re_post (x : Tf (Dual ℝ) × Motion (Dual ℝ)) : reTM (post x) = post (reTM x) := by
  show ((⟨reV3 x.1.pos, reQ4 (normalize4 x.1.rot)⟩ : Tf ℝ), reMotion x.2) = _
  rw [reQ4_normalize4]; rfl

def cAct (a : ActP ℝ) : ActP (Dual ℝ) :=
  ⟨a.qId, a.qdId, a.ctrlLo.map cR, a.ctrlHi.map cR, a.forceLo.map cR, a.forceHi.map cR,
   cR a.gain, cR a.gear, cR a.biasQ, cR a.biasQd⟩
/-- the system lifted to dual numbers with zero tangents (as `C03.sys` of `Model/C03.lean`) -/
def cSys (s : Sys ℝ) : Sys (Dual ℝ) :=
  { types := s.types, parents := s.parents, links := s.links.map cLink, dofs := s.dofs.map cDof,
    hasLimit := s.hasLimit, acts := s.acts.map cAct, gravity := cV3 s.gravity, dt := cR s.dt,
    velDamping := cR s.velDamping, angDamping := cR s.angDamping,
    baumgarteErp := cR s.baumgarteErp, springMassScale := cR s.springMassScale,
    springInertiaScale := cR s.springInertiaScale, jointScaleAng := cR s.jointScaleAng,
    jointScalePos := cR s.jointScalePos, collideScale := cR s.collideScale }

/-- **one-link system, `kinematics.forward`: the tangent computed by the dual-number model of
`kinematics.forward` is the derivative of the model w.r.t. `q`.**
`s` is any system whose only link is a one-dof root (hinge or slide).  Side conditions: the two
`normalize` calls (inside `jcalc`, and the final one) are off their `allclose` ball at `q`. -/
theorem forward_single_tangent_is_derivative (s : Sys ℝ) (lk : LinkP ℝ) (d : DofP ℝ) (q qd : ℝ)
    (ht : s.types = [.one]) (hp : s.parents = [-1]) (hl : s.links = [lk]) (hd : s.dofs = [d])
    (hg1 : let r := quatRotAxis d.motion.ang q; allClose0 [r.w, r.x, r.y, r.z] = false)
    (hg2 : let r := (link1 none lk d q qd).1.rot; allClose0 [r.w, r.x, r.y, r.z] = false) :
    ∃ X : Tf (Dual ℝ) × Motion (Dual ℝ), ∃ x : ℝ → Tf ℝ × Motion ℝ,
      Kin.forward (cSys s) [var q] [cR qd] = [X] ∧ (∀ u, Kin.forward s [u] [qd] = [x u])
      ∧ reTM X = x q ∧ DerivTM x (duTM X) q := by
  refine ⟨post (link1 none (cLink lk) (cDof d) (var q) (cR qd)),
    fun u => post (link1 none lk d u qd), ?_, ?_, ?_, ?_⟩
  · exact forward_single (cSys s) (cLink lk) (cDof d) (var q) (cR qd) ht hp
      (by simp only [cSys, hl, List.map_cons, List.map_nil])
      (by simp only [cSys, hd, List.map_cons, List.map_nil])
  · intro u; exact forward_single s lk d u qd ht hp hl hd
  · rw [re_post, re_link1]; simp only [reLink_cLink, reDof_cDof, Option.map_none]; rfl
  · have e : ∀ u, reTM (post (link1 none (cLink lk) (cDof d) (var u) (cR qd)))
        = post (link1 none lk d u qd) := by
      intro u
      rw [re_post, re_link1]; simp only [reLink_cLink, reDof_cDof, Option.map_none]; rfl
    have hl1 : SoundTM (fun u => link1 none (cLink lk) (cDof d) (var u) (cR qd)) q :=
      link1_sound (par := none) (lk := fun _ => cLink lk) (d := fun _ => cDof d) (q := var)
        (qd := fun _ => cR qd) (fun f hf => by cases hf) (SoundTf.const _ _) (SoundTf.const _ _)
        (SoundMotion.const _ _) Sound.id (Sound.const _) hg1
    have hg2' : let r := reQ4 (link1 none (cLink lk) (cDof d) (var q) (cR qd)).1.rot;
        allClose0 [r.w, r.x, r.y, r.z] = false := by
      have := congrArg (fun x => x.1.rot) (re_link1 none (cLink lk) (cDof d) (var q) (cR qd))
      simp only [reLink_cLink, reDof_cDof, Option.map_none] at this
      show allClose0 [(reQ4 _).w, _, _, _] = false
      rw [show reQ4 (link1 none (cLink lk) (cDof d) (var q) (cR qd)).1.rot
        = (link1 none lk d q qd).1.rot from this]
      exact hg2
    have := (post_sound hl1 hg2').deriv
    simp only [e] at this
    exact this

end kin

/-! ## the tree scan of `kinematics.forward` preserves soundness, for every forest -/

section scan
variable {t : ℝ}

/-- `world` acting on curves (the scan step with the parameter abstracted) -/
def worldFn (par : Option (ℝ → Tf (Dual ℝ) × Motion (Dual ℝ)))
    (a : ℝ → Tf (Dual ℝ) × Motion (Dual ℝ)) : ℝ → Tf (Dual ℝ) × Motion (Dual ℝ) :=
  fun u => Kin.world (par.map (· u)) (a u)

theorem foldl_scanStep_eval (u : ℝ) (lF : List (Int × (ℝ → Tf (Dual ℝ) × Motion (Dual ℝ))))
    (accF : List (ℝ → Tf (Dual ℝ) × Motion (Dual ℝ))) :
    (lF.map (fun x => (x.1, x.2 u))).foldl (Kin.scanStep Kin.world) (accF.map (· u))
      = (lF.foldl (Kin.scanStep worldFn) accF).map (· u) := by
  induction lF generalizing accF with
  | nil => rfl
  | cons x xs ih =>
    simp only [List.map_cons, List.foldl]
    rw [← ih]
    congr 1
    simp only [Kin.scanStep, List.map_append, List.map_cons, List.map_nil, worldFn]
    congr 3
    by_cases hneg : x.1 < 0
    · simp only [hneg, if_true, Option.map_none]
    · simp only [hneg, if_false, List.getElem?_map]

theorem foldl_scanStep_sound (lF : List (Int × (ℝ → Tf (Dual ℝ) × Motion (Dual ℝ))))
    (accF : List (ℝ → Tf (Dual ℝ) × Motion (Dual ℝ))) (hacc : ∀ r ∈ accF, SoundTM r t)
    (hl : ∀ x ∈ lF, SoundTM x.2 t) : ∀ r ∈ lF.foldl (Kin.scanStep worldFn) accF, SoundTM r t := by
  induction lF generalizing accF with
  | nil => exact hacc
  | cons x xs ih =>
    simp only [List.foldl]
    apply ih
    · intro r hr
      simp only [Kin.scanStep, List.mem_append, List.mem_singleton] at hr
      rcases hr with hr | rfl
      · exact hacc r hr
      · apply world_sound
        · intro f hf
          by_cases hneg : x.1 < 0
          · simp only [hneg, if_true] at hf; cases hf
          · simp only [hneg, if_false] at hf
            exact hacc f (List.mem_of_getElem? hf)
        · exact hl x (List.mem_cons_self ..)
    · intro y hy; exact hl y (List.mem_cons_of_mem _ hy)

/-- **The tree scan of `kinematics.forward` preserves soundness — for every forest, of any size.**
If every link's joint-frame transform/motion (`jcalc` + joint placement) is a sound curve, then the
scan at parameter `u` is the scan of curves evaluated at `u`, and every link's (un-normalised) world
transform/motion is a sound curve: its tangent is the derivative of its value. -/
theorem scanFwd_world_sound (ps : List Int) (args : List (ℝ → Tf (Dual ℝ) × Motion (Dual ℝ)))
    (h : ∀ a ∈ args, SoundTM a t) :
    (∀ u, Kin.scanFwd Kin.world ps (args.map (· u)) = (Kin.scanFwd worldFn ps args).map (· u))
    ∧ ∀ r ∈ Kin.scanFwd worldFn ps args, SoundTM r t := by
  constructor
  · intro u
    rw [Kin.scanFwd_eq, Kin.scanFwd_eq]
    have := foldl_scanStep_eval u (ps.zip args) []
    rw [← this]
    congr 1
    rw [List.zip_map_right]
    rfl
  · rw [Kin.scanFwd_eq]
    apply foldl_scanStep_sound _ _ (fun r hr => by cases hr)
    intro x hx
    exact h x.2 (List.of_mem_zip hx).2

/-- the value part of the scan is the scan of the value parts -/
theorem foldl_scanStep_re (l : List (Int × (Tf (Dual ℝ) × Motion (Dual ℝ))))
    (acc : List (Tf (Dual ℝ) × Motion (Dual ℝ))) :
    (l.map (fun x => (x.1, reTM x.2))).foldl (Kin.scanStep Kin.world) (acc.map reTM)
      = (l.foldl (Kin.scanStep Kin.world) acc).map reTM := by
  induction l generalizing acc with
  | nil => rfl
  | cons x xs ih =>
    simp only [List.map_cons, List.foldl]
    rw [← ih]
    congr 1
    simp only [Kin.scanStep, List.map_append, List.map_cons, List.map_nil]
    congr 2
    by_cases hneg : x.1 < 0
    · simp only [hneg, if_true]; rfl
    · simp only [hneg, if_false, List.getElem?_map]
      cases acc[x.1.toNat]? with
      | none => rfl
      | some p => rfl

theorem re_scanFwd_world (ps : List Int) (as : List (Tf (Dual ℝ) × Motion (Dual ℝ))) :
    (Kin.scanFwd Kin.world ps as).map reTM = Kin.scanFwd Kin.world ps (as.map reTM) := by
  rw [Kin.scanFwd_eq, Kin.scanFwd_eq, ← foldl_scanStep_re]
  congr 1
  rw [List.zip_map_right]
  rfl

/-- the per-link body of `kinematics.forward` before the scan: `jcalc`, joint placement, and the
joint-frame linear velocity moved to the parent frame -/
def jointOf {α : Type} [Zero α] [One α] [Add α] [Sub α] [Mul α] [Neg α] [Div α]
    [LT α] [DecidableLT α] [LE α] [DecidableLE α] [OfScientific α] [HasSqrt α] [HasTrig α]
    (li : LinkP α × Kin.LinkIn α) : Tf α × Motion α :=
  let jjd := Kin.jcalc li.2
  (Kin.placeJoint li.1 jjd.1, (⟨jjd.2.ang, rotate jjd.2.vel li.1.tf.rot⟩ : Motion α))

theorem forward_eq {α : Type} [Zero α] [One α] [Add α] [Sub α] [Mul α] [Neg α] [Div α]
    [LT α] [DecidableLT α] [LE α] [DecidableLE α] [OfScientific α] [HasSqrt α] [HasTrig α]
    (s : Sys α) (q qd : List α) :
    Kin.forward s q qd = (Kin.scanFwd Kin.world s.parents
      ((s.links.zip (Kin.linkSlices s.types q qd s.dofs)).map jointOf)).map post := rfl

/-- **`kinematics.forward` is sound for every forest, given sound joints.**  `s` is any system over
`Dual ℝ`, `q u`, `qd u` any parameter-dependent state.  If the per-link joint-frame data
(`jointOf`: `jcalc` + placement — sound for one-dof links by `jcalcDof_sound`/`placeJoint_sound`)
are sound curves `args`, and the final `normalize` of every link is off its `allclose` ball at `t`,
then `Kin.forward s (q u) (qd u)` is a list of curves each of which carries in its tangent part the
derivative of its value part. -/
theorem forward_sound_of_joints (s : Sys (Dual ℝ)) (q qd : ℝ → List (Dual ℝ))
    (args : List (ℝ → Tf (Dual ℝ) × Motion (Dual ℝ)))
    (hjj : ∀ u, (s.links.zip (Kin.linkSlices s.types (q u) (qd u) s.dofs)).map jointOf
      = args.map (· u))
    (hs : ∀ a ∈ args, SoundTM a t)
    (hg : ∀ r ∈ Kin.scanFwd worldFn s.parents args,
      let p := reQ4 (r t).1.rot; allClose0 [p.w, p.x, p.y, p.z] = false) :
    ∃ res : List (ℝ → Tf (Dual ℝ) × Motion (Dual ℝ)),
      (∀ u, Kin.forward s (q u) (qd u) = res.map (· u)) ∧ ∀ r ∈ res, SoundTM r t := by
  obtain ⟨h1, h2⟩ := scanFwd_world_sound s.parents args hs
  refine ⟨(Kin.scanFwd worldFn s.parents args).map (fun r => fun u => post (r u)), ?_, ?_⟩
  · intro u
    rw [forward_eq, hjj u, h1 u, List.map_map, List.map_map]
    rfl
  · intro r hr
    obtain ⟨r0, hr0, rfl⟩ := List.mem_map.mp hr
    exact post_sound (h2 r0 hr0) (hg r0 hr0)

/-! ### a two-link chain of one-dof joints: the child depends on the parent's joint angle -/

/-- `Kin.forward` on a root + child chain of one-dof links — at every scalar type -/
theorem forward_two {α : Type} [Zero α] [One α] [Add α] [Sub α] [Mul α] [Neg α] [Div α]
    [LT α] [DecidableLT α] [LE α] [DecidableLE α] [OfScientific α] [HasSqrt α] [HasTrig α]
    (s : Sys α) (l0 l1 : LinkP α) (d0 d1 : DofP α) (q0 q1 qd0 qd1 : α)
    (ht : s.types = [.one, .one]) (hp : s.parents = [-1, 0]) (hl : s.links = [l0, l1])
    (hd : s.dofs = [d0, d1]) :
    Kin.forward s [q0, q1] [qd0, qd1]
      = [post (link1 none l0 d0 q0 qd0),
         post (link1 (some (link1 none l0 d0 q0 qd0)) l1 d1 q1 qd1)] := by
  simp only [Kin.forward, ht, hp, hl, hd, Kin.linkSlices, LinkType.qWidth, LinkType.qdWidth,
    List.take, List.drop, List.zip_cons_cons, List.zip_nil_right, List.map_cons, List.map_nil,
    Kin.jcalc, List.foldl, Kin.scanFwd, post, link1]
  rfl

/-- **two-link chain, derivative w.r.t. the ROOT joint angle `q0`** (which moves both links): the
tangents computed by the dual-number model of `kinematics.forward` are the derivatives of the
model's outputs.  Side conditions: the four `normalize` calls are off their `allclose` ball. -/
theorem forward_chain2_tangent_is_derivative (s : Sys ℝ) (l0 l1 : LinkP ℝ) (d0 d1 : DofP ℝ)
    (q0 q1 qd0 qd1 : ℝ)
    (ht : s.types = [.one, .one]) (hp : s.parents = [-1, 0]) (hl : s.links = [l0, l1])
    (hd : s.dofs = [d0, d1])
    (hg0 : let r := quatRotAxis d0.motion.ang q0; allClose0 [r.w, r.x, r.y, r.z] = false)
    (hg1 : let r := quatRotAxis d1.motion.ang q1; allClose0 [r.w, r.x, r.y, r.z] = false)
    (hp0 : let r := (link1 none l0 d0 q0 qd0).1.rot; allClose0 [r.w, r.x, r.y, r.z] = false)
    (hp1 : let r := (link1 (some (link1 none l0 d0 q0 qd0)) l1 d1 q1 qd1).1.rot;
           allClose0 [r.w, r.x, r.y, r.z] = false) :
    ∃ X0 X1 : Tf (Dual ℝ) × Motion (Dual ℝ), ∃ x0 x1 : ℝ → Tf ℝ × Motion ℝ,
      Kin.forward (cSys s) [var q0, cR q1] [cR qd0, cR qd1] = [X0, X1]
      ∧ (∀ u, Kin.forward s [u, q1] [qd0, qd1] = [x0 u, x1 u])
      ∧ DerivTM x0 (duTM X0) q0 ∧ DerivTM x1 (duTM X1) q0 := by
  -- the two un-normalised link curves over `Dual ℝ`
  let L0 : ℝ → Tf (Dual ℝ) × Motion (Dual ℝ) :=
    fun u => link1 none (cLink l0) (cDof d0) (var u) (cR qd0)
  let L1 : ℝ → Tf (Dual ℝ) × Motion (Dual ℝ) :=
    fun u => link1 (some (L0 u)) (cLink l1) (cDof d1) (cR q1) (cR qd1)
  have e0 : ∀ u, reTM (L0 u) = link1 none l0 d0 u qd0 := by
    intro u
    show reTM (link1 none (cLink l0) (cDof d0) (var u) (cR qd0)) = _
    rw [re_link1]; simp only [reLink_cLink, reDof_cDof, Option.map_none]; rfl
  have e1 : ∀ u, reTM (L1 u) = link1 (some (link1 none l0 d0 u qd0)) l1 d1 q1 qd1 := by
    intro u
    show reTM (link1 (some (L0 u)) (cLink l1) (cDof d1) (cR q1) (cR qd1)) = _
    rw [re_link1]; simp only [reLink_cLink, reDof_cDof, Option.map_some, e0]; rfl
  have s0 : SoundTM L0 q0 :=
    link1_sound (par := none) (lk := fun _ => cLink l0) (d := fun _ => cDof d0) (q := var)
      (qd := fun _ => cR qd0) (fun f hf => by cases hf) (SoundTf.const _ _) (SoundTf.const _ _)
      (SoundMotion.const _ _) Sound.id (Sound.const _) hg0
  have s1 : SoundTM L1 q0 :=
    link1_sound (par := some L0) (lk := fun _ => cLink l1) (d := fun _ => cDof d1)
      (q := fun _ => cR q1) (qd := fun _ => cR qd1)
      (fun f hf => by cases hf; exact s0) (SoundTf.const _ _) (SoundTf.const _ _)
      (SoundMotion.const _ _) (Sound.const _) (Sound.const _) hg1
  have g0 : let r := reQ4 (L0 q0).1.rot; allClose0 [r.w, r.x, r.y, r.z] = false := by
    show allClose0 [(reTM (L0 q0)).1.rot.w, (reTM (L0 q0)).1.rot.x, (reTM (L0 q0)).1.rot.y,
      (reTM (L0 q0)).1.rot.z] = false
    rw [e0]; exact hp0
  have g1 : let r := reQ4 (L1 q0).1.rot; allClose0 [r.w, r.x, r.y, r.z] = false := by
    show allClose0 [(reTM (L1 q0)).1.rot.w, (reTM (L1 q0)).1.rot.x, (reTM (L1 q0)).1.rot.y,
      (reTM (L1 q0)).1.rot.z] = false
    rw [e1]; exact hp1
  refine ⟨post (L0 q0), post (L1 q0), fun u => post (link1 none l0 d0 u qd0),
    fun u => post (link1 (some (link1 none l0 d0 u qd0)) l1 d1 q1 qd1), ?_, ?_, ?_, ?_⟩
  · exact forward_two (cSys s) (cLink l0) (cLink l1) (cDof d0) (cDof d1) _ _ _ _ ht hp
      (by simp only [cSys, hl, List.map_cons, List.map_nil])
      (by simp only [cSys, hd, List.map_cons, List.map_nil])
  · intro u; exact forward_two s l0 l1 d0 d1 u q1 qd0 qd1 ht hp hl hd
  · have := (post_sound s0 g0).deriv
    simp only [re_post, e0] at this
    exact this
  · have := (post_sound s1 g1).deriv
    simp only [re_post, e1] at this
    exact this

/-! ### hinges with unit link rotations: no side condition left -/

theorem link1_none_rot (lk : LinkP ℝ) (d : DofP ℝ) (q qd : ℝ) :
    (link1 none lk d q qd).1.rot = quatMul lk.tf.rot (normalize4 (quatRotAxis d.motion.ang q)) := rfl
theorem link1_some_rot (par : Tf ℝ × Motion ℝ) (lk : LinkP ℝ) (d : DofP ℝ) (q qd : ℝ) :
    (link1 (some par) lk d q qd).1.rot
      = quatMul par.1.rot (quatMul lk.tf.rot (normalize4 (quatRotAxis d.motion.ang q))) := rfl

theorem link1_none_rot_isUnit (lk : LinkP ℝ) (d : DofP ℝ) (q qd : ℝ)
    (ha : V3.dot d.motion.ang d.motion.ang = 1) (hr : lk.tf.rot.IsUnit) :
    (link1 none lk d q qd).1.rot.IsUnit := by
  have hu := quatRotAxis_isUnit d.motion.ang q ha
  rw [link1_none_rot, normalize4_unit hu]; exact hr.mul hu
theorem link1_some_rot_isUnit (par : Tf ℝ × Motion ℝ) (lk : LinkP ℝ) (d : DofP ℝ) (q qd : ℝ)
    (ha : V3.dot d.motion.ang d.motion.ang = 1) (hr : lk.tf.rot.IsUnit) (hp : par.1.rot.IsUnit) :
    (link1 (some par) lk d q qd).1.rot.IsUnit := by
  have hu := quatRotAxis_isUnit d.motion.ang q ha
  rw [link1_some_rot, normalize4_unit hu]; exact hp.mul (hr.mul hu)

/-- **one hinge link with a unit link rotation: for EVERY `q`, `qd`, the tangent computed by the
dual-number model of `kinematics.forward` is the derivative of the model w.r.t. `q`** -/
theorem forward_hinge_tangent_is_derivative (s : Sys ℝ) (lk : LinkP ℝ) (d : DofP ℝ) (q qd : ℝ)
    (ht : s.types = [.one]) (hp : s.parents = [-1]) (hl : s.links = [lk]) (hd : s.dofs = [d])
    (ha : V3.dot d.motion.ang d.motion.ang = 1) (hr : lk.tf.rot.IsUnit) :
    ∃ X : Tf (Dual ℝ) × Motion (Dual ℝ), ∃ x : ℝ → Tf ℝ × Motion ℝ,
      Kin.forward (cSys s) [var q] [cR qd] = [X] ∧ (∀ u, Kin.forward s [u] [qd] = [x u])
      ∧ reTM X = x q ∧ DerivTM x (duTM X) q :=
  forward_single_tangent_is_derivative s lk d q qd ht hp hl hd (hinge_guard _ q ha)
    (not_allClose0_of_unit (link1_none_rot_isUnit lk d q qd ha hr))

/-- **two hinges in a chain with unit link rotations: for EVERY state, the tangents of both links
w.r.t. the root angle are the derivatives** -/
theorem forward_chain2_hinge_tangent_is_derivative (s : Sys ℝ) (l0 l1 : LinkP ℝ) (d0 d1 : DofP ℝ)
    (q0 q1 qd0 qd1 : ℝ)
    (ht : s.types = [.one, .one]) (hp : s.parents = [-1, 0]) (hl : s.links = [l0, l1])
    (hd : s.dofs = [d0, d1])
    (ha0 : V3.dot d0.motion.ang d0.motion.ang = 1) (ha1 : V3.dot d1.motion.ang d1.motion.ang = 1)
    (hr0 : l0.tf.rot.IsUnit) (hr1 : l1.tf.rot.IsUnit) :
    ∃ X0 X1 : Tf (Dual ℝ) × Motion (Dual ℝ), ∃ x0 x1 : ℝ → Tf ℝ × Motion ℝ,
      Kin.forward (cSys s) [var q0, cR q1] [cR qd0, cR qd1] = [X0, X1]
      ∧ (∀ u, Kin.forward s [u, q1] [qd0, qd1] = [x0 u, x1 u])
      ∧ DerivTM x0 (duTM X0) q0 ∧ DerivTM x1 (duTM X1) q0 :=
  forward_chain2_tangent_is_derivative s l0 l1 d0 d1 q0 q1 qd0 qd1 ht hp hl hd
    (hinge_guard _ q0 ha0) (hinge_guard _ q1 ha1)
    (not_allClose0_of_unit (link1_none_rot_isUnit l0 d0 q0 qd0 ha0 hr0))
    (not_allClose0_of_unit (link1_some_rot_isUnit _ l1 d1 q1 qd1 ha1 hr1
      (link1_none_rot_isUnit l0 d0 q0 qd0 ha0 hr0)))

/-- consequence (uniqueness of derivatives): for a hinge the dual-number model's tangent of the
joint quaternion's `w` is the closed form `−sin(q/2)/2` — obtained without unfolding the dual
arithmetic through `normalize` -/
theorem jcalcDof_hinge_tangent_w (d : DofP ℝ) (q qd : ℝ)
    (ha : V3.dot d.motion.ang d.motion.ang = 1) :
    (Kin.jcalcDof (cDof d) (var q) (cR qd)).1.rot.w.du = -Real.sin (q / 2) / 2 := by
  have h := (jcalcDof_hinge_tangent_is_derivative d q qd ha).1.2.1
  have e : (fun u => (Kin.jcalcDof d u qd).1.rot.w) = fun u => Real.cos (u / 2) := by
    funext u
    show (normalize4 (quatRotAxis d.motion.ang u)).w = _
    rw [normalize4_unit (quatRotAxis_isUnit _ u ha)]
    show Real.cos (u / (1 + 1)) = _
    norm_num
  rw [e] at h
  have h' : HasDerivAt (fun u : ℝ => Real.cos (u / 2)) (-Real.sin (q / 2) * (1 / 2)) q :=
    HasDerivAt.cos ((hasDerivAt_id' q).div_const 2)
  have := h.unique h'
  show (duTf (Kin.jcalcDof (cDof d) (var q) (cR qd)).1).rot.w = _
  rw [this]; ring

/-! ### non-vacuity: a concrete one-hinge system satisfying every hypothesis -/
noncomputable def exLink : LinkP ℝ := ⟨Tf.id, Tf.id, ⟨Tf.id, M3.one, 1⟩, 0, 0, 0, 0, 0⟩
noncomputable def exDof : DofP ℝ := ⟨⟨⟨0, 0, 1⟩, ⟨0, 0, 0⟩⟩, 0, 0, 0, none, none, 0⟩
noncomputable def exSys : Sys ℝ :=
  { types := [.one], parents := [-1], links := [exLink], dofs := [exDof], hasLimit := false,
    acts := [], gravity := ⟨0, 0, 0⟩, dt := 0, velDamping := 0, angDamping := 0,
    baumgarteErp := 0, springMassScale := 0, springInertiaScale := 0, jointScaleAng := 0,
    jointScalePos := 0, collideScale := 0 }
example : exSys.types = [.one] ∧ exSys.parents = [-1] ∧ exSys.links = [exLink]
    ∧ exSys.dofs = [exDof] ∧ V3.dot exDof.motion.ang exDof.motion.ang = 1
    ∧ exLink.tf.rot.IsUnit :=
  ⟨rfl, rfl, rfl, rfl, by norm_num [exDof, V3.dot], Q4.isUnit_one⟩
/-- the slide guard is satisfiable (`q = 0`) -/
example : (1e-8 : ℝ) < |Real.cos (0 / 2)| := by norm_num

end scan

section stack
variable {t : ℝ}

/-- one step of a multi-dof joint stack (`Kin.jcalcAcc`, the body of `for i in range(1, num_dofs)`):
polynomial, sound for all inputs -/
theorem jcalcAcc_sound {acc ji : ℝ → Tf (Dual ℝ) × Motion (Dual ℝ)} (hacc : SoundTM acc t)
    (hji : SoundTM ji t) : SoundTM (fun u => Kin.jcalcAcc (acc u) (ji u)) t :=
  ⟨SoundTf.doTf hacc.1 hji.1,
   ⟨SoundV3.add hacc.2.1 (SoundV3.rotate hji.2.1 hji.1.2),
    SoundV3.add hacc.2.2
      (SoundV3.rotate (SoundV3.add hji.2.2 (SoundV3.cross hji.1.1 hji.2.1)) hji.1.2)⟩⟩
theorem re_jcalcAcc (acc ji : Tf (Dual ℝ) × Motion (Dual ℝ)) :
    reTM (Kin.jcalcAcc acc ji) = Kin.jcalcAcc (reTM acc) (reTM ji) := rfl

/-- a whole stack: folding `jcalcAcc` over sound per-dof curves stays sound -/
theorem foldl_jcalcAcc_sound (js : List (ℝ → Tf (Dual ℝ) × Motion (Dual ℝ)))
    (j0 : ℝ → Tf (Dual ℝ) × Motion (Dual ℝ)) (h0 : SoundTM j0 t) (hs : ∀ j ∈ js, SoundTM j t) :
    SoundTM (fun u => (js.map (· u)).foldl Kin.jcalcAcc (j0 u)) t := by
  induction js generalizing j0 with
  | nil => exact h0
  | cons j js ih =>
    simp only [List.map_cons, List.foldl]
    exact ih (fun u => Kin.jcalcAcc (j0 u) (j u))
      (jcalcAcc_sound h0 (hs j (List.mem_cons_self ..)))
      (fun k hk => hs k (List.mem_cons_of_mem _ hk))

end stack

end Brax.C03
