import Brax.Lemmas.C05GenPerm
/-!
# C05, generalized pipeline: sibling order for a whole `generalized.pipeline.step`

Continuation of `C05GenPerm.lean` (section 11).  `σ` (new index ↦ old index) and `τ` are mutually inverse on
`[0, n)`; the relabelled parent array is `permParents n σ τ ps`; parents precede children in **both**
numberings.  The flat `q`, `qd`, dof arrays are permuted **blockwise** (`bperm`): cut into the per-link
blocks of `scan.link_types` (`chunk`), blocks reordered by `σ`, concatenated.

1. `PRL` — "`xs'` is the per-link array `xs` relabelled by `σ`", closed under `zipWith`/`map`/`zip`;
2. `chunk`, `bperm`, and **`linkSlices_bperm`**: the per-link slicing of the blockwise permuted arrays is the
   relabelled slicing;
3. the scans: `scanFwd_prl`, `revAcc_prl`, `rootIdx_perm`, `segSum_perm`, **`rootCom_prl`**;
4. `forward_prl`, the stages of `transform_com`, **`transformCom_prl`**, `inverse_prl`;
5. flat arrays: `bperm_zipWith`, `bperm_map`, `bperm_perm`, `dot_bperm`, the flat mass matrix
   **`massMatrix_bperm`** (`M' = Π M Πᵀ` as lists) and `matVec_permMx`;
6. `toTau_bperm` (re-indexed actuators);
7. `dynInit_relabel`, `qfSmooth_relabel`, the transport of the solve, **`step_relabel`**;
8. `gsteps_relabel`: any number of steps.
-/
set_option linter.unusedSectionVars false
set_option linter.unusedSimpArgs false
set_option linter.unusedVariables false
namespace Brax.C05GP2
open Brax Kin Gd C05GP

/-! ## 1. relabelled per-link arrays -/

/-- `xs'` is the per-link array `xs` relabelled by `σ` (new index ↦ old index); both have `n` rows -/
structure PRL {β : Type} (n : Nat) (σ : Nat → Nat) (xs' xs : List β) : Prop where
  len' : xs'.length = n
  len : xs.length = n
  get : ∀ k, k < n → xs'[k]? = xs[σ k]?

section prl
variable {β γ δ : Type} {n : Nat} {σ : Nat → Nat}

theorem PRL.zipWith (f : β → γ → δ) {a' a : List β} {b' b : List γ} (ha : PRL n σ a' a) (hb : PRL n σ b' b) :
    PRL n σ (List.zipWith f a' b') (List.zipWith f a b) :=
  ⟨by simp [ha.len', hb.len'], by simp [ha.len, hb.len], fun k hk => by
    rw [List.getElem?_zipWith, List.getElem?_zipWith, ha.get k hk, hb.get k hk]⟩

theorem PRL.map (f : β → γ) {a' a : List β} (ha : PRL n σ a' a) : PRL n σ (a'.map f) (a.map f) :=
  ⟨by simp [ha.len'], by simp [ha.len], fun k hk => by
    rw [List.getElem?_map, List.getElem?_map, ha.get k hk]⟩

theorem PRL.zip {a' a : List β} {b' b : List γ} (ha : PRL n σ a' a) (hb : PRL n σ b' b) :
    PRL n σ (a'.zip b') (a.zip b) := by
  rw [List.zip_eq_zipWith, List.zip_eq_zipWith]; exact ha.zipWith _ hb

theorem PRL.getD {a' a : List β} (ha : PRL n σ a' a) (d : β) {k : Nat} (hk : k < n) :
    a'.getD k d = a.getD (σ k) d := by
  rw [List.getD_eq_getElem?_getD, List.getD_eq_getElem?_getD, ha.get k hk]

theorem PRL.getElem {a' a : List β} (ha : PRL n σ a' a) (hσ : ∀ k, k < n → σ k < n) {k : Nat} (hk : k < n) :
    a'[k]'(by rw [ha.len']; exact hk) = a[σ k]'(by rw [ha.len]; exact hσ k hk) := by
  have := ha.get k hk
  rw [List.getElem?_eq_getElem (by rw [ha.len']; exact hk),
    List.getElem?_eq_getElem (by rw [ha.len]; exact hσ k hk)] at this
  exact Option.some.inj this

theorem PRL.of_getElem {a' a : List β} (hσ : ∀ k, k < n → σ k < n) (hl' : a'.length = n) (hl : a.length = n)
    (h : ∀ k (hk : k < n), a'[k]'(by rw [hl']; exact hk) = a[σ k]'(by rw [hl]; exact hσ k hk)) :
    PRL n σ a' a :=
  ⟨hl', hl, fun k hk => by
    rw [List.getElem?_eq_getElem (by rw [hl']; exact hk),
      List.getElem?_eq_getElem (by rw [hl]; exact hσ k hk), h k hk]⟩

theorem prl_permArgs (hσ : ∀ k, k < n → σ k < n) {a : List β} (hl : a.length = n) (d : β) :
    PRL n σ (permArgs n σ a d) a :=
  ⟨by simp [Kin.permArgs], hl, fun k hk => by
    have hσk : σ k < a.length := by rw [hl]; exact hσ k hk
    simp [Kin.permArgs, List.getElem?_map, List.getElem?_range hk, List.getD_eq_getElem?_getD,
      List.getElem?_eq_getElem hσk]⟩

theorem PRL.eq_permArgs (hσ : ∀ k, k < n → σ k < n) {a' a : List β} (ha : PRL n σ a' a) (d : β) :
    a' = Kin.permArgs n σ a d := by
  apply List.ext_getElem?
  intro k
  by_cases hk : k < n
  · rw [ha.get k hk, (prl_permArgs hσ ha.len d).get k hk]
  · rw [List.getElem?_eq_none (by rw [ha.len']; omega),
      List.getElem?_eq_none (by simp [Kin.permArgs]; omega)]

theorem permArgs_default (hσ : ∀ k, k < n → σ k < n) {a : List β} (hl : a.length = n) (d d' : β) :
    permArgs n σ a d = permArgs n σ a d' :=
  (prl_permArgs hσ hl d).eq_permArgs hσ d'

theorem permArgs_map (f : β → γ) (a : List β) (d : β) :
    (permArgs n σ a d).map f = permArgs n σ (a.map f) (f d) := by
  simp only [Kin.permArgs, List.map_map]
  apply List.map_congr_left
  intro k _
  simp only [Function.comp, List.getD_eq_getElem?_getD, List.getElem?_map]
  cases a[σ k]? <;> rfl

end prl

/-! ## 2. blocks of a flat array, the blockwise permutation, `scan.link_types` -/
section blocks
variable {β γ δ : Type}

/-- a flat per-coordinate array cut into the per-link blocks of widths `w t` -/
def chunk (w : LinkType → Nat) : List LinkType → List β → List (List β)
  | [], _ => []
  | t :: ts, xs => xs.take (w t) :: chunk w ts (xs.drop (w t))

/-- **the blockwise permutation of a flat array**: the per-link blocks reordered by `σ` (new ↦ old) -/
def bperm (w : LinkType → Nat) (n : Nat) (σ : Nat → Nat) (ts : List LinkType) (xs : List β) : List β :=
  (permArgs n σ (chunk w ts xs) []).flatten

theorem chunk_length (w : LinkType → Nat) (ts : List LinkType) (xs : List β) :
    (chunk w ts xs).length = ts.length := by
  induction ts generalizing xs with
  | nil => rfl
  | cons t ts ih => simp [chunk, ih]

theorem chunk_map (w : LinkType → Nat) (g : β → γ) (ts : List LinkType) (xs : List β) :
    chunk w ts (xs.map g) = (chunk w ts xs).map (List.map g) := by
  induction ts generalizing xs with
  | nil => rfl
  | cons t ts ih => simp only [chunk, List.map_cons, List.map_take, List.map_drop, ← ih]

theorem chunk_zipWith (w : LinkType → Nat) (g : β → γ → δ) (ts : List LinkType) (a : List β) (b : List γ) :
    chunk w ts (List.zipWith g a b) = List.zipWith (List.zipWith g) (chunk w ts a) (chunk w ts b) := by
  induction ts generalizing a b with
  | nil => rfl
  | cons t ts ih => simp only [chunk, List.zipWith_cons_cons, List.take_zipWith, List.drop_zipWith, ih]

/-- the blocks have the widths of the link types -/
def Shaped (w : LinkType → Nat) (ts : List LinkType) (B : List (List β)) : Prop :=
  List.Forall₂ (fun (t : LinkType) (b : List β) => b.length = w t) ts B

theorem chunk_flatten (w : LinkType → Nat) {ts : List LinkType} {B : List (List β)} (h : Shaped w ts B) :
    chunk w ts B.flatten = B := by
  induction h with
  | nil => rfl
  | @cons t b ts B hb _ ih =>
    simp only [chunk, List.flatten_cons]
    rw [List.take_left' hb, List.drop_left' hb, ih]

theorem chunk_shaped (w : LinkType → Nat) (ts : List LinkType) (xs : List β)
    (h : (ts.map w).sum ≤ xs.length) : Shaped w ts (chunk w ts xs) := by
  induction ts generalizing xs with
  | nil => exact List.Forall₂.nil
  | cons t ts ih =>
    simp only [List.map_cons, List.sum_cons] at h
    exact List.Forall₂.cons (by simp only [List.length_take]; omega)
      (ih _ (by rw [List.length_drop]; omega))

theorem flatten_chunk (w : LinkType → Nat) (ts : List LinkType) (xs : List β)
    (h : xs.length = (ts.map w).sum) : (chunk w ts xs).flatten = xs := by
  induction ts generalizing xs with
  | nil =>
    simp only [List.map_nil, List.sum_nil, List.length_eq_zero_iff] at h
    subst h; rfl
  | cons t ts ih =>
    simp only [List.map_cons, List.sum_cons] at h
    simp only [chunk, List.flatten_cons]
    rw [ih _ (by rw [List.length_drop]; omega), List.take_append_drop]

theorem shaped_flatten_length (w : LinkType → Nat) {ts : List LinkType} {B : List (List β)}
    (h : Shaped w ts B) : B.flatten.length = (ts.map w).sum := by
  induction h with
  | nil => rfl
  | @cons t b ts B hb _ ih => simp [hb, ih]

theorem shaped_length (w : LinkType → Nat) {ts : List LinkType} {B : List (List β)}
    (h : Shaped w ts B) : B.length = ts.length := (List.Forall₂.length_eq h).symm

theorem shaped_map {w : LinkType → Nat} {ts : List LinkType} {B : List (List β)} (h : Shaped w ts B)
    (g : β → γ) : Shaped w ts (B.map (List.map g)) := by
  induction h with
  | nil => exact List.Forall₂.nil
  | cons hb _ ih => exact List.Forall₂.cons (by simpa using hb) ih

/-! ### the per-link slicing as blocks -/

theorem linkSlices_q (ts : List LinkType) (q qd : List β) (ds : List (DofP β)) :
    (linkSlices ts q qd ds).map (·.q) = chunk LinkType.qWidth ts q := by
  induction ts generalizing q qd ds with
  | nil => rfl
  | cons t ts ih => simp only [linkSlices, List.map_cons, chunk, ih]

theorem linkSlices_qd (ts : List LinkType) (q qd : List β) (ds : List (DofP β)) :
    (linkSlices ts q qd ds).map (·.qd) = chunk LinkType.qdWidth ts qd := by
  induction ts generalizing q qd ds with
  | nil => rfl
  | cons t ts ih => simp only [linkSlices, List.map_cons, chunk, ih]

theorem linkSlices_dofs (ts : List LinkType) (q qd : List β) (ds : List (DofP β)) :
    (linkSlices ts q qd ds).map (·.dofs) = chunk LinkType.qdWidth ts ds := by
  induction ts generalizing q qd ds with
  | nil => rfl
  | cons t ts ih => simp only [linkSlices, List.map_cons, chunk, ih]

/-- a list of per-link inputs whose blocks have the widths of their types is the slicing of its own
flattened blocks -/
theorem linkSlices_of_blocks (L : List (LinkIn β))
    (h : ∀ l ∈ L, l.q.length = l.typ.qWidth ∧ l.qd.length = l.typ.qdWidth ∧ l.dofs.length = l.typ.qdWidth) :
    linkSlices (L.map (·.typ)) (L.map (·.q)).flatten (L.map (·.qd)).flatten (L.map (·.dofs)).flatten = L := by
  induction L with
  | nil => rfl
  | cons l L ih =>
    obtain ⟨h1, h2, h3⟩ := h l (by simp)
    simp only [List.map_cons, List.flatten_cons, linkSlices]
    rw [List.take_left' h1, List.take_left' h2, List.take_left' h3, List.drop_left' h1, List.drop_left' h2,
      List.drop_left' h3, ih (fun l' hl' => h l' (by simp [hl']))]

end blocks

/-! ### stage 2: the slicing of blockwise permuted arrays -/
section slices
variable {n : Nat} {σ : Nat → Nat} (hσ : ∀ k, k < n → σ k < n)
include hσ

/-- the default per-link input (never read: `σ k < n`) -/
def dIn : LinkIn ℝ := ⟨.free, [], [], []⟩

theorem linkSlices_mem_shape (ts : List LinkType) (q qd : List ℝ) (ds : List (DofP ℝ))
    (hq : (ts.map LinkType.qWidth).sum ≤ q.length) (hqd : (ts.map LinkType.qdWidth).sum ≤ qd.length)
    (hds : (ts.map LinkType.qdWidth).sum ≤ ds.length) :
    ∀ l ∈ linkSlices ts q qd ds,
      l.q.length = l.typ.qWidth ∧ l.qd.length = l.typ.qdWidth ∧ l.dofs.length = l.typ.qdWidth := by
  intro l hl
  obtain ⟨i, hi, rfl⟩ := List.mem_iff_getElem.mp hl
  have hi' : i < ts.length := by rw [linkSlices_length] at hi; exact hi
  obtain ⟨h0, h1, h2, h3⟩ := forall₂_getElem (C05G.linkSlices_full ts q qd ds hq hqd hds) i hi' hi
  rw [h0]; exact ⟨h1, h2, h3⟩

omit hσ in
theorem mem_permArgs {β : Type} {a : List β} {d : β} (hσ : ∀ k, k < n → σ k < n) (hl : a.length = n) :
    ∀ x ∈ permArgs n σ a d, x ∈ a := by
  intro x hx
  simp only [Kin.permArgs, List.mem_map, List.mem_range] at hx
  obtain ⟨k, hk, rfl⟩ := hx
  have hσk : σ k < a.length := by rw [hl]; exact hσ k hk
  rw [List.getD_eq_getElem?_getD, List.getElem?_eq_getElem hσk]
  exact List.getElem_mem hσk

/-- **stage 2 — the per-link slicing (`scan.link_types`) of the blockwise permuted flat arrays is the relabelled
slicing** -/
theorem linkSlices_bperm (ts ts' : List LinkType) (hts : PRL n σ ts' ts) (q qd : List ℝ) (ds : List (DofP ℝ))
    (hq : (ts.map LinkType.qWidth).sum ≤ q.length) (hqd : (ts.map LinkType.qdWidth).sum ≤ qd.length)
    (hds : (ts.map LinkType.qdWidth).sum ≤ ds.length) :
    PRL n σ (linkSlices ts' (bperm LinkType.qWidth n σ ts q) (bperm LinkType.qdWidth n σ ts qd)
        (bperm LinkType.qdWidth n σ ts ds)) (linkSlices ts q qd ds) := by
  have hl : (linkSlices ts q qd ds).length = n := by rw [linkSlices_length, hts.len]
  have hL := linkSlices_of_blocks (permArgs n σ (linkSlices ts q qd ds) dIn) (fun l hl' =>
    linkSlices_mem_shape hσ ts q qd ds hq hqd hds l (mem_permArgs hσ hl l hl'))
  rw [permArgs_map, permArgs_map, permArgs_map, permArgs_map, linkSlices_typ, linkSlices_q, linkSlices_qd,
    linkSlices_dofs, ← hts.eq_permArgs hσ] at hL
  unfold bperm
  rw [show (dIn.q) = [] from rfl, show dIn.qd = [] from rfl, show dIn.dofs = [] from rfl] at hL
  rw [hL]
  exact prl_permArgs hσ hl dIn

end slices

/-! ## 3. the scans under a relabelling -/
section scans
variable (n : Nat) (σ τ : Nat → Nat) (hσ : ∀ k, k < n → σ k < n) (hτ : ∀ i, i < n → τ i < n)
  (hτσ : ∀ k, k < n → τ (σ k) = k) (hστ : ∀ i, i < n → σ (τ i) = i)
  (ps : List Int) (hps : ps.length = n) (hwf : PWF ps) (hwf' : PWF (permParents n σ τ ps))

omit hσ hτ hτσ hστ hps hwf hwf' in
theorem permParents_length : (permParents n σ τ ps).length = n := by simp [permParents]

include hσ hτ hτσ hστ hps hwf hwf'

/-- **root→leaves scans** (`cd`, `cdd`, `kinematics.forward`) of the relabelled forest on relabelled arguments -/
theorem scanFwd_prl {β γ : Type} (f : Option β → γ → β) (d : γ) {as' as : List γ} (has : PRL n σ as' as) :
    PRL n σ (scanFwd f (permParents n σ τ ps) as') (scanFwd f ps as) := by
  refine ⟨by rw [scanFwd_length, permParents_length, has.len', min_self],
    by rw [scanFwd_length, hps, has.len, min_self], ?_⟩
  rw [has.eq_permArgs hσ d]
  exact scanFwd_perm f ps as d n hps has.len σ τ hσ hτσ hστ hτ (pwf_parentsWF hwf) (pwf_parentsWF hwf')

/-- **leaves→root accumulations** (`crb`, `cfrc`) of the relabelled forest on relabelled arguments -/
theorem revAcc_prl {M : Type} {add : M → M → M} {z : M} (h : CMon add z) {as' as : List M}
    (has : PRL n σ as' as) :
    PRL n σ (revAcc add (permParents n σ τ ps) as') (revAcc add ps as) := by
  have l1 : (revAcc add (permParents n σ τ ps) as').length = n := by rw [revAcc_length, has.len']
  have l2 : (revAcc add ps as).length = n := by rw [revAcc_length, has.len]
  refine ⟨l1, l2, ?_⟩
  intro k hk
  have := revAcc_perm n σ τ hσ hτ hτσ hστ ps hps hwf hwf' h as has.len k hk
  rw [← has.eq_permArgs hσ z] at this
  rw [List.getD_eq_getElem?_getD, List.getD_eq_getElem?_getD,
    List.getElem?_eq_getElem (by rw [l1]; exact hk),
    List.getElem?_eq_getElem (by rw [l2]; exact hσ k hk)] at this
  rw [List.getElem?_eq_getElem (by rw [l1]; exact hk), List.getElem?_eq_getElem (by rw [l2]; exact hσ k hk)]
  simpa using this

omit hσ hτ hτσ hστ hps hwf hwf' in
/-- a scan whose step commutes with a renaming `g` of the values, over renamed arguments -/
theorem scan_map (f : Option Nat → Nat → Nat) (g : Nat → Nat)
    (hf : ∀ par i, f (par.map g) (g i) = g (f par i))
    (qs : List Int) (as : List Nat) :
    scanFwd f qs (as.map g) = (scanFwd f qs as).map g := by
  apply C05G.forall₂_eq_map
  apply scanFwd_rel (fun a b => b = g a) (fun _ a b => b = g a)
  · intro p par par' a b hpar hS _
    cases hpar with
    | none => rw [hS]; exact hf none a
    | some hab => rw [hS, hab]; exact hf (some _) a
  · apply C05G.zipS (fun _ a b => b = g a) _ _ _ (by simp)
    intro i h0 h1 h2
    simp

/-- **stage 1a — `root_fn` under a relabelling**: the root of new link `k` is the relabelled root of old link
`σ k` -/
theorem rootIdx_perm : ∀ k, k < n →
    (rootIdx (permParents n σ τ ps)).getD k 0 = τ ((rootIdx ps).getD (σ k) 0) := by
  intro k hk
  have hl' := permParents_length n σ τ ps
  have e1 : permArgs n σ (List.range n) 0 = (List.range n).map σ := by
    simp only [Kin.permArgs]
    apply List.map_congr_left
    intro c hc
    have := hσ c (List.mem_range.mp hc)
    simp [List.getD_eq_getElem?_getD, List.getElem?_range this]
  have h1 := scanFwd_perm (fun (par : Option Nat) (i : Nat) => match par with | none => i | some r => r)
    ps (List.range n) 0 n hps (by simp) σ τ hσ hτσ hστ hτ (pwf_parentsWF hwf) (pwf_parentsWF hwf') k hk
  rw [e1, scan_map _ σ (by intro par i; cases par <;> rfl), List.getElem?_map] at h1
  have hr' : (rootIdx (permParents n σ τ ps)).length = n := by rw [rootIdx_length, hl']
  have hr : (rootIdx ps).length = n := by rw [rootIdx_length, hps]
  have h2 : ((rootIdx (permParents n σ τ ps))[k]?).map σ = (rootIdx ps)[σ k]? := by
    unfold rootIdx; rw [hl', hps]; exact h1
  rw [List.getElem?_eq_getElem (by rw [hr']; exact hk),
    List.getElem?_eq_getElem (by rw [hr]; exact hσ k hk)] at h2
  simp only [Option.map_some, Option.some.injEq] at h2
  rw [List.getD_eq_getElem?_getD, List.getD_eq_getElem?_getD,
    List.getElem?_eq_getElem (by rw [hr']; exact hk), List.getElem?_eq_getElem (by rw [hr]; exact hσ k hk)]
  simp only [Option.getD_some]
  rw [← h2]
  have hlt := rootIdx_lt n _ hl' hwf' _ (List.getElem_mem (by rw [hr']; exact hk))
  rw [hl'] at hlt
  exact (hτσ _ hlt).symm

omit hσ hτ hτσ hστ hps hwf hwf' in
/-- `segment_sum` read at one id, as a sum over all positions with zeros for the other ids -/
theorem segSum_csum {M : Type} {add : M → M → M} {z : M} (h : CMon add z) (m : Nat) :
    ∀ (v : List M) (ids : List Nat), v.length = m → ids.length = m → ∀ k,
    segSum z add v ids k = csum add z m (fun c => if ids.getD c 0 = k then v.getD c z else z) := by
  induction m with
  | zero =>
    intro v ids hv hi k
    have : v = [] := List.eq_nil_of_length_eq_zero hv
    subst this
    rfl
  | succ m ih =>
    intro v ids hv hi k
    obtain ⟨v', a, rfl, hv'⟩ := exists_snoc v hv
    obtain ⟨ids', i, rfl, hi'⟩ := exists_snoc ids hi
    rw [segSum_snoc h v' ids' a i k (by rw [hv', hi']), ih v' ids' hv' hi' k]
    simp only [csum]
    have e1 : (ids' ++ [i]).getD m 0 = i := by rw [← hi']; exact getD_snoc_last ids' i 0
    have e2 : (v' ++ [a]).getD m z = a := by rw [← hv']; exact getD_snoc_last v' a z
    rw [e1, e2]
    congr 1
    apply csum_congr
    intro c hc
    rw [getD_app_left ids' [i] 0 (by omega), getD_app_left v' [a] z (by omega)]

/-- **stage 1b — `segment_sum` over the root index under a relabelling** (commutative monoid: the summands are
met in a different order) -/
theorem segSum_perm {M : Type} {add : M → M → M} {z : M} (h : CMon add z) {v' v : List M}
    (hv : PRL n σ v' v) (r : Nat) (hr : r < n) :
    segSum z add v' (rootIdx (permParents n σ τ ps)) (τ r) = segSum z add v (rootIdx ps) r := by
  have hl' := permParents_length n σ τ ps
  rw [segSum_csum h n v' _ hv.len' (by rw [rootIdx_length, hl']),
    segSum_csum h n v _ hv.len (by rw [rootIdx_length, hps]),
    ← csum_perm n σ τ hσ hτ hτσ hστ h (fun c => if (rootIdx ps).getD c 0 = r then v.getD c z else z)]
  apply csum_congr
  intro c hc
  rw [rootIdx_perm n σ τ hσ hτ hτσ hστ ps hps hwf hwf' c hc, hv.getD z hc]
  have hlt : (rootIdx ps).getD (σ c) 0 < n := by
    have hrl : (rootIdx ps).length = n := by rw [rootIdx_length, hps]
    have hm : (rootIdx ps).getD (σ c) 0 ∈ rootIdx ps := by
      rw [List.getD_eq_getElem?_getD, List.getElem?_eq_getElem (by rw [hrl]; exact hσ c hc)]
      exact List.getElem_mem _
    have := rootIdx_lt n ps hps hwf _ hm
    rw [hps] at this; exact this
  by_cases he : (rootIdx ps).getD (σ c) 0 = r
  · rw [if_pos he, if_pos (by rw [he])]
  · rw [if_neg he, if_neg]
    intro h2
    apply he
    rw [← hστ _ hlt, ← hστ r hr, h2]

/-- **stage 1 — `root_com` under a relabelling**: the per-tree centres of mass of the relabelled system are the
relabelled centres of mass (`root_com` is per tree, and the two `segment_sum`s do not depend on the order
in which the links of a tree are listed) -/
theorem rootCom_prl {mass' mass : List ℝ} {xi' xi : List (Tf ℝ)} (hm : PRL n σ mass' mass)
    (hxi : PRL n σ xi' xi) :
    PRL n σ (rootCom (permParents n σ τ ps) mass' xi') (rootCom ps mass xi) := by
  have hl' := permParents_length n σ τ ps
  have hr' : (rootIdx (permParents n σ τ ps)).length = n := by rw [rootIdx_length, hl']
  have hr : (rootIdx ps).length = n := by rw [rootIdx_length, hps]
  apply PRL.of_getElem hσ (by rw [rootCom_length, hl']) (by rw [rootCom_length, hps])
  intro k hk
  unfold rootCom
  simp only [List.getElem_map]
  have hroot := rootIdx_perm n σ τ hσ hτ hτσ hστ ps hps hwf hwf' k hk
  rw [List.getD_eq_getElem?_getD, List.getD_eq_getElem?_getD,
    List.getElem?_eq_getElem (by rw [hr']; exact hk), List.getElem?_eq_getElem (by rw [hr]; exact hσ k hk)]
    at hroot
  simp only [Option.getD_some] at hroot
  have hlt : (rootIdx ps)[σ k]'(by rw [hr]; exact hσ k hk) < n := by
    have := rootIdx_lt n ps hps hwf _ (List.getElem_mem (by rw [hr]; exact hσ k hk))
    rw [hps] at this; exact this
  rw [hroot, segSum_perm n σ τ hσ hτ hτσ hστ ps hps hwf hwf' cmon_v3
      (hm.zipWith (fun m (t : Tf ℝ) => V3.smul m t.pos) hxi) _ hlt,
    segSum_perm n σ τ hσ hτ hτσ hστ ps hps hwf hwf' cmon_real hm _ hlt]

end scans

/-! ## 4. a relabelled forest; `kinematics.forward`, `transform_com`, `inverse` -/

/-- the relabelling data: `σ`, `τ` mutually inverse on `[0, n)`, `n` parents, parents before children in both
numberings, every parent id `≥ -1` (the wrap-around of `take` would otherwise read a link) -/
structure FR (n : Nat) (σ τ : Nat → Nat) (ps : List Int) : Prop where
  σlt : ∀ k, k < n → σ k < n
  τlt : ∀ i, i < n → τ i < n
  τσ : ∀ k, k < n → τ (σ k) = k
  στ : ∀ i, i < n → σ (τ i) = i
  plen : ps.length = n
  pwf : PWF ps
  pwf' : PWF (permParents n σ τ ps)
  lb : ∀ i, i < n → -1 ≤ ps.getD i (-1)

theorem cmon_force : CMon (Force.add : Force ℝ → Force ℝ → Force ℝ) Force.zero := by
  refine ⟨fun a b c => ?_, fun a b => ?_, fun a => ?_⟩
  · simp only [Force.add, V3.add_def, Force.mk.injEq, V3.mk.injEq]
    and_intros <;> ring
  · simp only [Force.add, V3.add_def, Force.mk.injEq, V3.mk.injEq]
    and_intros <;> ring
  · obtain ⟨⟨a1, a2, a3⟩, ⟨b1, b2, b3⟩⟩ := a
    simp [Force.add, Force.zero, V3.add_def, V3.zero]

section forest
variable {n : Nat} {σ τ : Nat → Nat} {ps : List Int} (H : FR n σ τ ps)
include H

theorem FR.scan {β γ : Type} (f : Option β → γ → β) (d : γ) {as' as : List γ} (has : PRL n σ as' as) :
    PRL n σ (scanFwd f (permParents n σ τ ps) as') (scanFwd f ps as) :=
  scanFwd_prl n σ τ H.σlt H.τlt H.τσ H.στ ps H.plen H.pwf H.pwf' f d has

theorem FR.rev {M : Type} {add : M → M → M} {z : M} (h : CMon add z) {as' as : List M}
    (has : PRL n σ as' as) : PRL n σ (revAcc add (permParents n σ τ ps) as') (revAcc add ps as) :=
  revAcc_prl n σ τ H.σlt H.τlt H.τσ H.στ ps H.plen H.pwf H.pwf' h has

theorem FR.rootCom {mass' mass : List ℝ} {xi' xi : List (Tf ℝ)} (hm : PRL n σ mass' mass)
    (hxi : PRL n σ xi' xi) : PRL n σ (rootCom (permParents n σ τ ps) mass' xi') (rootCom ps mass xi) :=
  rootCom_prl n σ τ H.σlt H.τlt H.τσ H.στ ps H.plen H.pwf H.pwf' hm hxi

omit H in
theorem parentIdx_getElem (ts : List LinkType) (qs : List Int) (hl : qs.length = ts.length) (i : Nat)
    (hi : i < ts.length) :
    (parentIdx ts qs)[i]'(by rw [parentIdx_length _ _ hl]; exact hi)
      = if ts[i] == .free then (i : Int) else qs[i]'(by rw [hl]; exact hi) := by
  simp [parentIdx, List.getElem_map, List.getElem_zip, List.getElem_range]

/-- **the parent lookup `x.take(parent_idx)` under a relabelling** (a free link is its own parent; `-1` reads the
appended identity in both numberings) -/
theorem FR.takeParent_prl {ts' ts : List LinkType} (hts : PRL n σ ts' ts) {β : Type} {x' x : List β}
    (hx : PRL n σ x' x) (d : β) :
    PRL n σ ((parentIdx ts' (permParents n σ τ ps)).map (takeParent x' d))
      ((parentIdx ts ps).map (takeParent x d)) := by
  have hl' := permParents_length n σ τ ps
  have hpl' : (parentIdx ts' (permParents n σ τ ps)).length = n := by
    rw [parentIdx_length _ _ (by rw [hl', hts.len']), hts.len']
  have hpl : (parentIdx ts ps).length = n := by rw [parentIdx_length _ _ (by rw [H.plen, hts.len]), hts.len]
  apply PRL.of_getElem H.σlt (by rw [List.length_map, hpl']) (by rw [List.length_map, hpl])
  intro k hk
  have hσk := H.σlt k hk
  simp only [List.getElem_map]
  rw [parentIdx_getElem ts' _ (by rw [hl', hts.len']) k (by rw [hts.len']; exact hk),
    parentIdx_getElem ts ps (by rw [H.plen, hts.len]) (σ k) (by rw [hts.len]; exact hσk),
    hts.getElem H.σlt hk]
  by_cases hf : (ts[σ k]'(by rw [hts.len]; exact hσk) == LinkType.free) = true
  · rw [if_pos hf, if_pos hf, takeParent_nat' _ _ (by rw [hx.len']; exact hk),
      takeParent_nat' _ _ (by rw [hx.len]; exact hσk), hx.getD d hk]
  · rw [if_neg hf, if_neg hf]
    have hp : (permParents n σ τ ps)[k]'(by rw [hl']; exact hk) = (permParents n σ τ ps).getD k (-1) := by
      rw [List.getD_eq_getElem?_getD, List.getElem?_eq_getElem (by rw [hl']; exact hk)]; rfl
    have hq : ps[σ k]'(by rw [H.plen]; exact hσk) = ps.getD (σ k) (-1) := by
      rw [List.getD_eq_getElem?_getD, List.getElem?_eq_getElem (by rw [H.plen]; exact hσk)]; rfl
    rw [hp, hq, getD_permParents n σ τ ps hk]
    have h1 := H.lb (σ k) hσk
    have h2 := H.pwf (σ k)
    by_cases hneg : ps.getD (σ k) (-1) < 0
    · have : ps.getD (σ k) (-1) = -1 := by omega
      rw [if_pos hneg, this, C05L.takeParent_neg_one, C05L.takeParent_neg_one]
    · rw [if_neg hneg]
      obtain ⟨j, hj⟩ := Int.eq_ofNat_of_zero_le (not_lt.mp hneg)
      have hjn : j < n := by omega
      rw [hj, Int.toNat_natCast, takeParent_nat' _ _ (by rw [hx.len']; exact H.τlt j hjn),
        takeParent_nat' _ _ (by rw [hx.len]; exact hjn), hx.getD d (H.τlt j hjn), H.στ j hjn]

end forest

/-- the fields of `transform_com`, relabelled -/
structure ComPRL (n : Nat) (σ : Nat → Nat) (c' c : ComState ℝ) : Prop where
  rootCom : PRL n σ c'.rootCom c.rootCom
  cinr : PRL n σ c'.cinr c.cinr
  cdof : PRL n σ c'.cdof c.cdof
  cd : PRL n σ c'.cd c.cd
  cdofd : PRL n σ c'.cdofd c.cdofd

/-- **stage 3b — `dynamics.inverse` (recursive Newton–Euler) under a relabelling**: the forward scan `cdd`, the
per-link force, the leaves→root accumulation `cfrc` (commutative monoid `Force.add`) and the projection -/
theorem inverse_prl {n : Nat} {σ τ : Nat → Nat} {ps : List Int} (H : FR n σ τ ps) (grav : V3 ℝ)
    {c' c : ComState ℝ} (hc : ComPRL n σ c' c) {N' N : List (List ℝ)} (hN : PRL n σ N' N) :
    PRL n σ (inverse (permParents n σ τ ps) grav c' N') (inverse ps grav c N) := by
  rw [C05G.inverse_eq, C05G.inverse_eq]
  apply hc.cdof.zipWith
  unfold C05G.invCfrc
  apply H.rev cmon_force
  unfold C05G.invFlat
  apply PRL.zipWith _ _ hc.cd
  apply hc.cinr.zip
  unfold C05G.invCdd
  apply H.scan _ []
  unfold C05G.invU
  exact hc.cdofd.zipWith _ hN

/-! ### the relabelled system -/

/-- start of link `k`'s block in the flat `q` array -/
def qOff (ts : List LinkType) (k : Nat) : Nat := (Kin.offsets LinkType.qWidth ts 0).getD k 0

/-- one actuator of the relabelled system against the same actuator of the original one: same parameters; it
reads coordinate `r` of new link `k` where the original reads coordinate `r` of old link `σ k` (for `q` and
for `qd`, which is also the dof it drives) -/
structure ActRelG (n : Nat) (σ : Nat → Nat) (ts ts' : List LinkType) (a' a : ActP ℝ) : Prop where
  ctrlLo : a'.ctrlLo = a.ctrlLo
  ctrlHi : a'.ctrlHi = a.ctrlHi
  forceLo : a'.forceLo = a.forceLo
  forceHi : a'.forceHi = a.forceHi
  gain : a'.gain = a.gain
  gear : a'.gear = a.gear
  biasQ : a'.biasQ = a.biasQ
  biasQd : a'.biasQd = a.biasQd
  qd : ∃ k r, k < n ∧ r < (ts'.getD k .free).qdWidth ∧ a'.qdId = C05Perm.qdOff ts' k + r
    ∧ a.qdId = C05Perm.qdOff ts (σ k) + r
  q : ∃ k r, k < n ∧ r < (ts'.getD k .free).qWidth ∧ a'.qId = qOff ts' k + r ∧ a.qId = qOff ts (σ k) + r

/-- **`s'` is `s` with its links relabelled by `σ`** (new index ↦ old index, inverse `τ`): link types, per-link
parameters moved, parent ids renamed, the flat dof array permuted blockwise, the actuators re-indexed,
same gravity and `dt`; parents precede children in the new numbering too -/
structure RelabelG (σ τ : Nat → Nat) (s s' : Sys ℝ) : Prop where
  σlt : ∀ k, k < s.types.length → σ k < s.types.length
  τlt : ∀ i, i < s.types.length → τ i < s.types.length
  τσ : ∀ k, k < s.types.length → τ (σ k) = k
  στ : ∀ i, i < s.types.length → σ (τ i) = i
  types : PRL s.types.length σ s'.types s.types
  parents : s'.parents = permParents s.types.length σ τ s.parents
  links : PRL s.types.length σ s'.links s.links
  dofs : s'.dofs = bperm LinkType.qdWidth s.types.length σ s.types s.dofs
  acts : List.Forall₂ (ActRelG s.types.length σ s.types s'.types) s'.acts s.acts
  gravity : s'.gravity = s.gravity
  dt : s'.dt = s.dt
  pwf' : PWF s'.parents

section sys
variable {σ τ : Nat → Nat} {s s' : Sys ℝ} (hR : RelabelG σ τ s s') (hW : C05Perm.WFParts s)
include hR hW

theorem RelabelG.fr : FR s.types.length σ τ s.parents where
  σlt := hR.σlt
  τlt := hR.τlt
  τσ := hR.τσ
  στ := hR.στ
  plen := hW.tlen
  pwf := hW.pwf
  pwf' := by rw [← hR.parents]; exact hR.pwf'
  lb := fun i hi => (hW.par i hi).1

/-- blockwise permutation of a flat `q`-like / `qd`-like array of `s` -/
noncomputable abbrev _root_.Brax.C05GP2.bq (σ : Nat → Nat) (s : Sys ℝ) (v : List ℝ) : List ℝ :=
  bperm LinkType.qWidth s.types.length σ s.types v
noncomputable abbrev _root_.Brax.C05GP2.bv (σ : Nat → Nat) (s : Sys ℝ) (v : List ℝ) : List ℝ :=
  bperm LinkType.qdWidth s.types.length σ s.types v

/-- stage 2 for the systems: the per-link inputs of `s'` at the blockwise permuted coordinates -/
theorem nested_relabel (q qd : List ℝ) (hf : C05G.Full s q qd) :
    PRL s.types.length σ (nested s' (bq σ s q) (bv σ s qd)) (nested s q qd) := by
  unfold nested
  rw [hR.dofs]
  exact linkSlices_bperm hR.σlt s.types s'.types hR.types q qd s.dofs (by rw [hf.hq]; exact le_refl _)
    (by rw [hf.hqd]; exact le_refl _) (by rw [hf.hds]; exact le_refl _)

/-- **`kinematics.forward` under a relabelling** -/
theorem forward_prl (q qd : List ℝ) (hf : C05G.Full s q qd) :
    PRL s.types.length σ (Kin.forward s' (bq σ s q) (bv σ s qd)) (Kin.forward s q qd) := by
  rw [C05Perm.forward_def, C05Perm.forward_def, hR.parents]
  apply PRL.map
  apply (hR.fr hW).scan _ (Tf.id, Motion.zero)
  apply PRL.map
  exact hR.links.zip (nested_relabel hR hW q qd hf)

section tc
variable {x' x : List (Tf ℝ)} (hx : PRL s.types.length σ x' x) {ins' ins : List (LinkIn ℝ)}
  (hins : PRL s.types.length σ ins' ins)
include hx

theorem tcXi_prl : PRL s.types.length σ (C05G.tcXi s' x') (C05G.tcXi s x) := hx.zipWith _ hR.links

theorem tcCom_prl : PRL s.types.length σ (C05G.tcCom s' x') (C05G.tcCom s x) := by
  unfold C05G.tcCom
  rw [hR.parents]
  exact (hR.fr hW).rootCom (hR.links.map _) (tcXi_prl hR hW hx)

theorem tcCinr_prl : PRL s.types.length σ (C05G.tcCinr s' x') (C05G.tcCinr s x) :=
  ((tcXi_prl hR hW hx).zip (tcCom_prl hR hW hx)).zipWith _ hR.links

theorem jointFrames_prl : PRL s.types.length σ (jointFrames s' x') (jointFrames s x) := by
  have hp := (hR.fr hW).takeParent_prl hR.types hx Tf.id
  rw [← hR.parents] at hp
  have e : ∀ (u : Sys ℝ) (y : List (Tf ℝ)), jointFrames u y
      = List.zipWith (fun (lk : LinkP ℝ) (xp : Tf ℝ) => Tf.doTf (Tf.doTf xp lk.tf) lk.joint) u.links
          ((parentIdx u.types u.parents).map (takeParent y Tf.id)) := by
    intro u y
    unfold jointFrames
    rw [List.zip_eq_zipWith, List.map_zipWith, List.zipWith_map_right]
  rw [e, e]
  exact hR.links.zipWith _ hp

include hins

theorem tcCdof_prl : PRL s.types.length σ (C05G.tcCdof s' x' ins') (C05G.tcCdof s x ins) :=
  hins.zipWith _ ((jointFrames_prl hR hW hx).zip (tcCom_prl hR hW hx))

theorem tcCdofQd_prl : PRL s.types.length σ (C05G.tcCdofQd s' x' ins') (C05G.tcCdofQd s x ins) :=
  (tcCdof_prl hR hW hx hins).zipWith _ hins

theorem tcCd_prl : PRL s.types.length σ (C05G.tcCd s' x' ins') (C05G.tcCd s x ins) := by
  unfold C05G.tcCd
  rw [hR.parents]
  exact (hR.fr hW).scan _ [] (tcCdofQd_prl hR hW hx hins)

theorem tcCdofd_prl : PRL s.types.length σ (C05G.tcCdofd s' x' ins') (C05G.tcCdofd s x ins) := by
  have hp := (hR.fr hW).takeParent_prl hR.types (tcCd_prl hR hW hx hins) Motion.zero
  rw [← hR.parents] at hp
  have e : ∀ (u : Sys ℝ) (y : List (Tf ℝ)) (L : List (LinkIn ℝ)), C05G.tcCdofd u y L
      = List.zipWith (fun (lp : LinkIn ℝ × Motion ℝ) (cc : List (Motion ℝ) × List (Motion ℝ)) =>
            cdofdLink lp.1.typ lp.2 cc.1 cc.2)
          (L.zip ((parentIdx u.types u.parents).map (takeParent (C05G.tcCd u y L) Motion.zero)))
          ((C05G.tcCdof u y L).zip (C05G.tcCdofQd u y L)) := by
    intro u y L
    unfold C05G.tcCdofd
    rw [List.zip_map_right, List.zipWith_map_left]
    rfl
  rw [e, e]
  exact (hins.zip hp).zipWith _ ((tcCdof_prl hR hW hx hins).zip (tcCdofQd_prl hR hW hx hins))

end tc

/-- **stage 3a — `dynamics.transform_com` under a relabelling**: every field is the relabelled field -/
theorem transformCom_prl {x' x : List (Tf ℝ)} (hx : PRL s.types.length σ x' x) (q qd : List ℝ)
    (hf : C05G.Full s q qd) :
    ComPRL s.types.length σ (transformCom s' x' (bq σ s q) (bv σ s qd)) (transformCom s x q qd) := by
  rw [C05G.transformCom_eq, C05G.transformCom_eq]
  have hins := nested_relabel hR hW q qd hf
  exact ⟨tcCom_prl hR hW hx, tcCinr_prl hR hW hx, tcCdof_prl hR hW hx hins, tcCd_prl hR hW hx hins,
    tcCdofd_prl hR hW hx hins⟩

/-- `pipeline.init`'s CoM terms under a relabelling -/
theorem dynInit_com_prl (q qd : List ℝ) (hf : C05G.Full s q qd) :
    ComPRL s.types.length σ (dynInit s' (bq σ s q) (bv σ s qd)).com (dynInit s q qd).com :=
  transformCom_prl hR hW ((forward_prl hR hW q qd hf).map _) q qd hf

end sys

/-! ## 5. flat arrays under the blockwise permutation -/
section flat
variable {β γ δ : Type} {n : Nat} {σ : Nat → Nat} (w : LinkType → Nat) (ts : List LinkType)

theorem bperm_def (xs : List β) :
    bperm w n σ ts xs = ((List.range n).map fun k => (chunk w ts xs).getD (σ k) []).flatten := rfl

/-- the flattening of a relabelled nested per-dof array is the blockwise permutation of the flattening -/
theorem flatten_prl (hσ : ∀ k, k < n → σ k < n) {N' N : List (List β)} (h : PRL n σ N' N)
    (hN : Shaped w ts N) : N'.flatten = bperm w n σ ts N.flatten := by
  unfold bperm
  rw [chunk_flatten w hN, ← h.eq_permArgs hσ []]

theorem bperm_map (g : β → γ) (xs : List β) :
    (bperm w n σ ts xs).map g = bperm w n σ ts (xs.map g) := by
  unfold bperm
  rw [List.map_flatten, permArgs_map, chunk_map]
  rfl

theorem shaped_getD {B : List (List β)} (h : Shaped w ts B) {i : Nat} (hi : i < ts.length) :
    (B.getD i []).length = w ts[i] := by
  have hB : i < B.length := by rw [shaped_length w h]; exact hi
  have := forall₂_getElem h i hi hB
  rw [List.getD_eq_getElem?_getD, List.getElem?_eq_getElem hB]
  exact this

theorem getD_zipWith_nested (g : β → γ → δ) (A : List (List β)) (B : List (List γ)) (i : Nat) :
    (List.zipWith (List.zipWith g) A B).getD i [] = List.zipWith g (A.getD i []) (B.getD i []) := by
  simp only [List.getD_eq_getElem?_getD, List.getElem?_zipWith]
  cases A[i]? <;> cases B[i]? <;> simp

theorem flatten_map_zipWith {ι : Type} (g : β → γ → δ) (l : List ι) (A : ι → List β) (B : ι → List γ)
    (h : ∀ i ∈ l, (A i).length = (B i).length) :
    (l.map fun i => List.zipWith g (A i) (B i)).flatten
      = List.zipWith g (l.map A).flatten (l.map B).flatten := by
  induction l with
  | nil => rfl
  | cons i l ih =>
    simp only [List.map_cons, List.flatten_cons]
    rw [List.zipWith_append (h i (by simp)), ih (fun j hj => h j (by simp [hj]))]

/-- elementwise operations on flat arrays commute with the blockwise permutation -/
theorem bperm_zipWith (hσ : ∀ k, k < n → σ k < n) (hn : ts.length = n) (g : β → γ → δ) (a : List β)
    (b : List γ) (ha : (ts.map w).sum ≤ a.length) (hb : (ts.map w).sum ≤ b.length) :
    List.zipWith g (bperm w n σ ts a) (bperm w n σ ts b) = bperm w n σ ts (List.zipWith g a b) := by
  rw [bperm_def, bperm_def, bperm_def, chunk_zipWith, ← flatten_map_zipWith]
  · congr 1
    apply List.map_congr_left
    intro k _
    rw [getD_zipWith_nested]
  · intro k hk
    have hk' : σ k < ts.length := by rw [hn]; exact hσ k (List.mem_range.mp hk)
    rw [shaped_getD w ts (chunk_shaped w ts a ha) hk', shaped_getD w ts (chunk_shaped w ts b hb) hk']

end flat

section flatperm
variable {n : Nat} {σ τ : Nat → Nat} (hσ : ∀ k, k < n → σ k < n) (hτ : ∀ i, i < n → τ i < n)
  (hτσ : ∀ k, k < n → τ (σ k) = k) (hστ : ∀ i, i < n → σ (τ i) = i)
  (w : LinkType → Nat) (ts : List LinkType) (hn : ts.length = n)
include hσ hτ hτσ hστ hn

/-- the blockwise permutation is a permutation -/
theorem bperm_perm {β : Type} (xs : List β) (hx : xs.length = (ts.map w).sum) :
    (bperm w n σ ts xs).Perm xs := by
  have hC : (chunk w ts xs).length = n := by rw [chunk_length, hn]
  have e1 : bperm w n σ ts xs = (((List.range n).map σ).map fun i => (chunk w ts xs).getD i []).flatten := by
    rw [bperm_def, List.map_map]; rfl
  have e2 : xs = ((List.range n).map fun i => (chunk w ts xs).getD i []).flatten := by
    conv_lhs => rw [← flatten_chunk w ts xs hx, C05G.list_eq_range_map (chunk w ts xs) [], hC]
  rw [e1]
  conv_rhs => rw [e2]
  exact ((range_map_perm n σ τ hσ hτ hτσ hστ).map _).flatten

theorem bperm_length {β : Type} (xs : List β) (hx : xs.length = (ts.map w).sum) :
    (bperm w n σ ts xs).length = (ts.map w).sum :=
  (bperm_perm hσ hτ hτσ hστ w ts hn xs hx).length_eq.trans hx

/-- a dot product does not depend on the numbering of the links -/
theorem dot_bperm (a b : List ℝ) (ha : a.length = (ts.map w).sum) (hb : b.length = (ts.map w).sum) :
    dot (bperm w n σ ts a) (bperm w n σ ts b) = dot a b := by
  unfold dot
  rw [bperm_zipWith w ts hσ hn _ a b (by rw [ha]) (by rw [hb]), foldr_add_eq_sum, foldr_add_eq_sum]
  exact (bperm_perm hσ hτ hτσ hστ w ts hn _ (by simp [ha, hb])).sum_eq

/-- the matrix `Π M Πᵀ`: rows and columns permuted blockwise -/
def permMx (w : LinkType → Nat) (n : Nat) (σ : Nat → Nat) (ts : List LinkType) (M : List (List ℝ)) :
    List (List ℝ) :=
  bperm w n σ ts (M.map (bperm w n σ ts))

/-- **`(Π M Πᵀ)(Π y) = Π (M y)`** -/
theorem matVec_permMx (M : List (List ℝ)) (y : List ℝ) (hr : ∀ r ∈ M, r.length = (ts.map w).sum)
    (hy : y.length = (ts.map w).sum) :
    matVec (permMx w n σ ts M) (bperm w n σ ts y) = bperm w n σ ts (matVec M y) := by
  unfold matVec permMx
  rw [bperm_map, List.map_map]
  congr 1
  apply List.map_congr_left
  intro r hrm
  exact dot_bperm hσ hτ hτσ hστ w ts hn r y (hr r hrm) hy

theorem permMx_shape (M : List (List ℝ)) (hM : M.length = (ts.map w).sum)
    (hr : ∀ r ∈ M, r.length = (ts.map w).sum) :
    (permMx w n σ ts M).length = (ts.map w).sum
      ∧ ∀ r ∈ permMx w n σ ts M, r.length = (ts.map w).sum := by
  unfold permMx
  refine ⟨bperm_length hσ hτ hτσ hστ w ts hn _ (by rw [List.length_map, hM]), ?_⟩
  intro r hrm
  have := (bperm_perm hσ hτ hτσ hστ w ts hn (M.map (bperm w n σ ts)) (by rw [List.length_map, hM])).mem_iff.mp hrm
  obtain ⟨r0, hr0, rfl⟩ := List.mem_map.mp this
  exact bperm_length hσ hτ hτσ hστ w ts hn r0 (hr r0 hr0)

/-- **`(Π M Πᵀ + diag(Π damping)·dt)(Π y) = Π ((M + diag(damping)·dt) y)`** -/
theorem matVec_damped_permMx (M : List (List ℝ)) (d y : List ℝ) (dt : ℝ) (hM : M.length = (ts.map w).sum)
    (hr : ∀ r ∈ M, r.length = (ts.map w).sum) (hd : d.length = (ts.map w).sum)
    (hy : y.length = (ts.map w).sum) :
    matVec (dampedMatrix (permMx w n σ ts M) (bperm w n σ ts d) dt) (bperm w n σ ts y)
      = bperm w n σ ts (matVec (dampedMatrix M d dt) y) := by
  obtain ⟨hP, hPr⟩ := permMx_shape hσ hτ hτσ hστ w ts hn M hM hr
  rw [C05G.matVec_damped _ _ _ dt _ hP hPr (bperm_length hσ hτ hτσ hστ w ts hn d hd)
      (bperm_length hσ hτ hτσ hστ w ts hn y hy),
    C05G.matVec_damped _ _ _ dt _ hM hr hd hy, matVec_permMx hσ hτ hτσ hστ w ts hn M y hr hy, bperm_map,
    bperm_zipWith w ts hσ hn _ _ _ (by simp [hd]) (by rw [hy]),
    bperm_zipWith w ts hσ hn _ _ _ (by simp [matVec, hM]) (by simp [hd, hy])]

/-- **transport of the linear solve along `Π`**: an exact solve of the original system whose result on the
relabelled system is the unique solution returns the blockwise permuted solution -/
theorem solve_bperm (solve : List (List ℝ) → List ℝ → List ℝ) (M : List (List ℝ)) (d b : List ℝ) (dt : ℝ)
    (hM : M.length = (ts.map w).sum) (hr : ∀ r ∈ M, r.length = (ts.map w).sum)
    (hd : d.length = (ts.map w).sum)
    (hex : matVec (dampedMatrix M d dt) (solve (dampedMatrix M d dt) b) = b)
    (hlen : (solve (dampedMatrix M d dt) b).length = (ts.map w).sum)
    (huniq : ∀ y : List ℝ, y.length = (ts.map w).sum →
      matVec (dampedMatrix (permMx w n σ ts M) (bperm w n σ ts d) dt) y = bperm w n σ ts b →
      solve (dampedMatrix (permMx w n σ ts M) (bperm w n σ ts d) dt) (bperm w n σ ts b) = y) :
    solve (dampedMatrix (permMx w n σ ts M) (bperm w n σ ts d) dt) (bperm w n σ ts b)
      = bperm w n σ ts (solve (dampedMatrix M d dt) b) := by
  apply huniq _ (bperm_length hσ hτ hτσ hστ w ts hn _ hlen)
  rw [matVec_damped_permMx hσ hτ hτσ hστ w ts hn M d _ dt hM hr hd hlen, hex]

end flatperm

/-! ### the flat mass matrix of a relabelled system: `M' = Π M Πᵀ` as lists -/
section massflat
variable {n : Nat} {σ τ : Nat → Nat} {ps : List Int} (H : FR n σ τ ps)

theorem dofIdx_congr {m : Nat} {w1 w2 : Nat → Nat} (h : ∀ l, l < m → w1 l = w2 l) :
    dofIdx m w1 = dofIdx m w2 := by
  unfold dofIdx
  apply List.flatMap_congr
  intro l hl
  rw [h l (List.mem_range.mp hl)]

/-- a flat per-dof array given by its entries `F (link, dof)`, permuted blockwise -/
theorem bperm_dofIdx_map {β : Type} (hσ : ∀ k, k < n → σ k < n) (w : LinkType → Nat) (ts : List LinkType)
    (hn : ts.length = n) (W : Nat → Nat) (hW : ∀ l (hl : l < ts.length), W l = w ts[l]) (F : Nat × Nat → β) :
    bperm w n σ ts ((dofIdx n W).map F)
      = (dofIdx n (fun k => W (σ k))).map (fun kr => F (σ kr.1, kr.2)) := by
  have hsh : Shaped w ts ((List.range n).map fun l => (List.range (W l)).map fun r => F (l, r)) := by
    apply C05G.forall₂_of_getElem (by simp [hn])
    intro i h1 h2
    simp only [List.getElem_map, List.getElem_range, List.length_map, List.length_range]
    exact hW i h1
  rw [C05G.dofIdx_map, C05G.dofIdx_map]
  unfold bperm
  rw [chunk_flatten w hsh]
  congr 1
  simp only [Kin.permArgs]
  apply List.map_congr_left
  intro k hk
  have hσk := hσ k (List.mem_range.mp hk)
  simp [List.getD_eq_getElem?_getD, List.getElem?_map, List.getElem?_range hσk]

include H in
/-- **stage 5a — the flat mass matrix of the relabelled system is `Π M Πᵀ`** (rows and columns permuted
blockwise), from the entry theorem `massEntry_relabel` and `revAcc_prl` for the composite inertias -/
theorem massMatrix_permMx (ts : List LinkType) (hn : ts.length = n) {cinr' cinr : List (Inertia ℝ)}
    (hci : PRL n σ cinr' cinr) {cdof' cdof : List (List (Motion ℝ))} (hcd : PRL n σ cdof' cdof)
    (hsh : Shaped LinkType.qdWidth ts cdof) {arm' arm : List (List ℝ)} (har : PRL n σ arm' arm) :
    massMatrix (permParents n σ τ ps) cinr' cdof' arm'
      = permMx LinkType.qdWidth n σ ts (massMatrix ps cinr cdof arm) := by
  have hW : ∀ l (hl : l < ts.length), wAt cdof l = LinkType.qdWidth ts[l] := fun l hl =>
    shaped_getD LinkType.qdWidth ts hsh hl
  have hidx : dofIdx n (wAt cdof') = dofIdx n (fun k => wAt cdof (σ k)) := by
    apply dofIdx_congr
    intro l hl
    unfold wAt
    rw [hcd.getD [] hl]
  rw [massMatrix_def, massMatrix_def, hcd.len', hcd.len]
  unfold permMx
  rw [List.map_map]
  have e1 : ((bperm LinkType.qdWidth n σ ts) ∘ fun (lr : Nat × Nat) =>
        (dofIdx n (wAt cdof)).map fun as => massEntry ps (crb ps cinr) cdof arm lr.1 lr.2 as.1 as.2)
      = fun lr => (dofIdx n (fun k => wAt cdof (σ k))).map fun bs =>
          massEntry ps (crb ps cinr) cdof arm lr.1 lr.2 (σ bs.1) bs.2 := by
    funext lr
    exact bperm_dofIdx_map H.σlt _ ts hn (wAt cdof) hW _
  rw [e1, bperm_dofIdx_map H.σlt _ ts hn (wAt cdof) hW, hidx]
  apply List.map_congr_left
  intro kr hkr
  apply List.map_congr_left
  intro bs hbs
  have hk := dofIdx_fst_lt _ _ kr hkr
  have hb := dofIdx_fst_lt _ _ bs hbs
  apply massEntry_relabel n σ τ H.σlt H.τlt H.τσ H.στ ps H.pwf H.pwf'
  · intro k hk
    exact (H.rev cmon_inertia hci).getD _ hk
  · intro k hk; exact hcd.getD [] hk
  · intro k hk; exact har.getD [] hk
  · exact hk
  · exact hb

end massflat

/-! ## 6. `actuator.to_tau` with re-indexed actuators -/
section offs
variable {β : Type} (w : LinkType → Nat)

/-- start of link `k`'s block in a flat array with block widths `w` -/
def off (w : LinkType → Nat) (ts : List LinkType) (k : Nat) : Nat := (Kin.offsets w ts 0).getD k 0

theorem qOff_eq (ts : List LinkType) (k : Nat) : qOff ts k = off LinkType.qWidth ts k := rfl
theorem qdOff_eq (ts : List LinkType) (k : Nat) : C05Perm.qdOff ts k = off LinkType.qdWidth ts k := rfl

theorem off_bound (ts : List LinkType) {k : Nat} (hk : k < ts.length) :
    off w ts k + w ts[k] ≤ (ts.map w).sum := by
  have := (Kin.offsets_bound w ts 0 k hk).2
  simpa [off] using this

/-- the blocks do not overlap -/
theorem offsets_mono (ts : List LinkType) : ∀ (o i j : Nat) (hi : i < j) (hj : j < ts.length),
    (Kin.offsets w ts o).getD i 0 + w (ts[i]'(by omega)) ≤ (Kin.offsets w ts o).getD j 0 := by
  induction ts with
  | nil => intro o i j hi hj; simp at hj
  | cons t ts ih =>
    intro o i j hi hj
    cases j with
    | zero => omega
    | succ j =>
      have hj' : j < ts.length := by simpa using hj
      cases i with
      | zero =>
        simp only [Kin.offsets, List.getD_cons_zero, List.getD_cons_succ, List.getElem_cons_zero]
        exact (Kin.offsets_bound w ts (o + w t) j hj').1
      | succ i =>
        simp only [Kin.offsets, List.getD_cons_succ, List.getElem_cons_succ]
        exact ih (o + w t) i j (by omega) hj'

theorem off_inj (ts : List LinkType) {i j r1 r2 : Nat} (hi : i < ts.length) (hj : j < ts.length)
    (h1 : r1 < w ts[i]) (h2 : r2 < w ts[j]) (he : off w ts i + r1 = off w ts j + r2) : i = j ∧ r1 = r2 := by
  rcases Nat.lt_trichotomy i j with h | h | h
  · have := offsets_mono w ts 0 i j h hj
    unfold off at he; omega
  · subst h; exact ⟨rfl, by omega⟩
  · have := offsets_mono w ts 0 j i h hi
    unfold off at he; omega

/-- reading a concatenation of blocks at a block offset -/
theorem getD_flatten_off (ts : List LinkType) {B : List (List β)} (h : Shaped w ts B) (d : β) {k : Nat}
    (hk : k < ts.length) {r : Nat} (hr : r < w ts[k]) :
    B.flatten.getD (off w ts k + r) d = (B.getD k []).getD r d := by
  have hB : k < B.length := by rw [shaped_length w h]; exact hk
  have hlen : B[k].length = w ts[k] := forall₂_getElem h k hk hB
  have hs := Kin.blocks_slices w d ts B (shaped_length w h) (fun i h1 h2 => forall₂_getElem h i h2 h1) [] k hB
  rw [List.getD_eq_getElem?_getD (l := B), List.getElem?_eq_getElem hB]
  simp only [Option.getD_some]
  conv_rhs => rw [hs]
  rw [List.getD_eq_getElem?_getD (l := List.map _ _), List.getElem?_map,
    List.getElem?_range' (by rw [hlen]; exact hr)]
  simp [off]

/-- two flat arrays that agree on every block agree -/
theorem ext_blocks (ts : List LinkType) (a b : List β) (d : β) (ha : a.length = (ts.map w).sum)
    (hb : b.length = (ts.map w).sum)
    (h : ∀ k (hk : k < ts.length) r, r < w ts[k] → a.getD (off w ts k + r) d = b.getD (off w ts k + r) d) :
    a = b := by
  have hsa := chunk_shaped w ts a (by rw [ha])
  have hsb := chunk_shaped w ts b (by rw [hb])
  rw [← flatten_chunk w ts a ha, ← flatten_chunk w ts b hb]
  congr 1
  apply List.ext_getElem (by rw [chunk_length, chunk_length])
  intro k h1 h2
  have hk : k < ts.length := by rw [chunk_length] at h1; exact h1
  have l1 : ((chunk w ts a)[k]).length = w ts[k] := forall₂_getElem hsa k hk h1
  have l2 : ((chunk w ts b)[k]).length = w ts[k] := forall₂_getElem hsb k hk h2
  apply List.ext_getElem (by rw [l1, l2])
  intro r hr1 hr2
  have hr : r < w ts[k] := by rw [← l1]; exact hr1
  have e1 := getD_flatten_off w ts hsa d hk hr
  have e2 := getD_flatten_off w ts hsb d hk hr
  rw [flatten_chunk w ts a ha] at e1
  rw [flatten_chunk w ts b hb] at e2
  have := h k hk r hr
  rw [e1, e2, List.getD_eq_getElem?_getD (l := chunk w ts a), List.getD_eq_getElem?_getD (l := chunk w ts b),
    List.getElem?_eq_getElem h1, List.getElem?_eq_getElem h2] at this
  simp only [Option.getD_some] at this
  rw [List.getD_eq_getElem?_getD, List.getD_eq_getElem?_getD, List.getElem?_eq_getElem hr1,
    List.getElem?_eq_getElem hr2] at this
  simpa using this

end offs

section bpidx
variable {n : Nat} {σ τ : Nat → Nat} (hσ : ∀ k, k < n → σ k < n) (hτ : ∀ i, i < n → τ i < n)
  (hτσ : ∀ k, k < n → τ (σ k) = k) (hστ : ∀ i, i < n → σ (τ i) = i)
  (w : LinkType → Nat) {ts' ts : List LinkType} (hts : PRL n σ ts' ts)
include hσ hτ hτσ hστ hts

omit hτ hτσ hστ in
theorem bperm_shaped {β : Type} (xs : List β) (hx : (ts.map w).sum ≤ xs.length) :
    Shaped w ts' (permArgs n σ (chunk w ts xs) []) := by
  apply C05G.forall₂_of_getElem (by simp [Kin.permArgs, hts.len'])
  intro k h1 h2
  have hk : k < n := by rw [← hts.len']; exact h1
  have hσk : σ k < ts.length := by rw [hts.len]; exact hσ k hk
  simp only [Kin.permArgs, List.getElem_map, List.getElem_range]
  rw [shaped_getD w ts (chunk_shaped w ts xs hx) hσk, hts.getElem hσ hk]

theorem sum_widths : (ts'.map w).sum = (ts.map w).sum := by
  have h1 := shaped_flatten_length w
    (bperm_shaped hσ w hts (List.replicate (ts.map w).sum ()) (by simp))
  have h2 := bperm_length hσ hτ hτσ hστ w ts hts.len (List.replicate (ts.map w).sum ()) (by simp)
  unfold bperm at h2
  rw [← h1, h2]

omit hτ hτσ hστ in
/-- **the blockwise permutation, entry by entry**: coordinate `r` of new link `k` is coordinate `r` of old link
`σ k` -/
theorem getD_bperm {β : Type} (xs : List β) (hx : xs.length = (ts.map w).sum) (d : β) {k : Nat} (hk : k < n)
    {r : Nat} (hr : r < w (ts'.getD k .free)) :
    (bperm w n σ ts xs).getD (off w ts' k + r) d = xs.getD (off w ts (σ k) + r) d := by
  have hk' : k < ts'.length := by rw [hts.len']; exact hk
  have hσk : σ k < ts.length := by rw [hts.len]; exact hσ k hk
  have e0 : ts'.getD k .free = ts'[k] := by
    rw [List.getD_eq_getElem?_getD, List.getElem?_eq_getElem hk']; rfl
  rw [e0] at hr
  unfold bperm
  rw [getD_flatten_off w ts' (bperm_shaped hσ w hts xs (by rw [hx])) d hk' hr]
  have e1 : (permArgs n σ (chunk w ts xs) []).getD k [] = (chunk w ts xs).getD (σ k) [] := by
    simp [Kin.permArgs, List.getD_eq_getElem?_getD, List.getElem?_map, List.getElem?_range hk]
  have hr' : r < w ts[σ k] := by rw [← hts.getElem hσ hk]; exact hr
  rw [e1, ← getD_flatten_off w ts (chunk_shaped w ts xs (by rw [hx])) d hσk hr', flatten_chunk w ts xs hx]

/-- adding to one coordinate commutes with the blockwise permutation -/
theorem addAt_bperm (t : List ℝ) (ht : t.length = (ts.map w).sum) (f : ℝ) {k : Nat} (hk : k < n) {r : Nat}
    (hr : r < w (ts'.getD k .free)) :
    addAt (bperm w n σ ts t) (off w ts' k + r) f = bperm w n σ ts (addAt t (off w ts (σ k) + r) f) := by
  have hsum := sum_widths hσ hτ hτσ hστ w hts
  have hk' : k < ts'.length := by rw [hts.len']; exact hk
  have hσk : σ k < ts.length := by rw [hts.len]; exact hσ k hk
  have e0 : ts'.getD k .free = ts'[k] := by
    rw [List.getD_eq_getElem?_getD, List.getElem?_eq_getElem hk']; rfl
  have hbl : (bperm w n σ ts t).length = (ts.map w).sum := bperm_length hσ hτ hτσ hστ w ts hts.len t ht
  apply ext_blocks w ts' _ _ 0 (by rw [addAt_length, hbl, hsum])
    (by rw [bperm_length hσ hτ hτσ hστ w ts hts.len _ (by rw [addAt_length, ht]), hsum])
  intro k2 hk2 r2 hr2
  have hk2n : k2 < n := by rw [← hts.len']; exact hk2
  have e2 : ts'.getD k2 .free = ts'[k2] := by
    rw [List.getD_eq_getElem?_getD, List.getElem?_eq_getElem hk2]; rfl
  rw [addAt_getD, getD_bperm hσ w hts (addAt t (off w ts (σ k) + r) f) (by rw [addAt_length, ht]) 0 hk2n
      (by rw [e2]; exact hr2), addAt_getD, getD_bperm hσ w hts t ht 0 hk2n (by rw [e2]; exact hr2)]
  have hb1 := off_bound w ts' hk'
  have hb2 := off_bound w ts hσk
  have hr1 : r < w ts'[k] := by rw [← e0]; exact hr
  have hrσ : r < w ts[σ k] := by rw [← hts.getElem hσ hk]; exact hr1
  have hσk2 : σ k2 < ts.length := by rw [hts.len]; exact hσ k2 hk2n
  have hr2σ : r2 < w ts[σ k2] := by rw [← hts.getElem hσ hk2n]; exact hr2
  have c1 : (off w ts' k2 + r2 = off w ts' k + r ∧ off w ts' k + r < (bperm w n σ ts t).length)
      ↔ (k2 = k ∧ r2 = r) := by
    constructor
    · intro h; exact off_inj w ts' hk2 hk' hr2 hr1 h.1
    · rintro ⟨rfl, rfl⟩; exact ⟨rfl, by rw [hbl, ← hsum]; omega⟩
  have c2 : (off w ts (σ k2) + r2 = off w ts (σ k) + r ∧ off w ts (σ k) + r < t.length)
      ↔ (k2 = k ∧ r2 = r) := by
    constructor
    · intro h
      obtain ⟨h1, h2⟩ := off_inj w ts hσk2 hσk hr2σ hrσ h.1
      exact ⟨by rw [← hτσ k2 hk2n, ← hτσ k hk, h1], h2⟩
    · rintro ⟨rfl, rfl⟩; exact ⟨rfl, by rw [ht]; omega⟩
  by_cases hc : k2 = k ∧ r2 = r
  · rw [if_pos (c1.mpr hc), if_pos (c2.mpr hc)]
  · rw [if_neg (fun h => hc (c1.mp h)), if_neg (fun h => hc (c2.mp h))]

omit hτ hτσ hστ in
/-- `x[i]` (clamped gather) at a block offset -/
theorem gather_bperm (xs : List ℝ) (hx : xs.length = (ts.map w).sum) (hbl : (bperm w n σ ts xs).length = (ts'.map w).sum)
    {k : Nat} (hk : k < n) {r : Nat} (hr : r < w (ts'.getD k .free)) :
    gather (bperm w n σ ts xs) (off w ts' k + r) = gather xs (off w ts (σ k) + r) := by
  have hk' : k < ts'.length := by rw [hts.len']; exact hk
  have hσk : σ k < ts.length := by rw [hts.len]; exact hσ k hk
  have e0 : ts'.getD k .free = ts'[k] := by
    rw [List.getD_eq_getElem?_getD, List.getElem?_eq_getElem hk']; rfl
  have hr1 : r < w ts'[k] := by rw [← e0]; exact hr
  have hrσ : r < w ts[σ k] := by rw [← hts.getElem hσ hk]; exact hr1
  have hb1 := off_bound w ts' hk'
  have hb2 := off_bound w ts hσk
  unfold gather
  rw [Nat.min_eq_left (by rw [hbl]; omega), Nat.min_eq_left (by rw [hx]; omega)]
  exact getD_bperm hσ w hts xs hx 0 hk hr

end bpidx

section tau
variable {σ τ : Nat → Nat} {s s' : Sys ℝ} (hR : RelabelG σ τ s s') (hW : C05Perm.WFParts s)
include hR hW

theorem nv_relabel : s'.nv = s.nv :=
  sum_widths hR.σlt hR.τlt hR.τσ hR.στ LinkType.qdWidth hR.types
theorem nq_relabel : s'.nq = s.nq :=
  sum_widths hR.σlt hR.τlt hR.τσ hR.στ LinkType.qWidth hR.types

theorem bv_length (v : List ℝ) (hv : v.length = s.nv) : (bv σ s v).length = s.nv :=
  bperm_length hR.σlt hR.τlt hR.τσ hR.στ LinkType.qdWidth s.types rfl v hv
theorem bq_length (v : List ℝ) (hv : v.length = s.nq) : (bq σ s v).length = s.nq :=
  bperm_length hR.σlt hR.τlt hR.τσ hR.στ LinkType.qWidth s.types rfl v hv

theorem bv_replicate (c : ℝ) : bv σ s (List.replicate s.nv c) = List.replicate s.nv c := by
  rw [List.eq_replicate_iff]
  refine ⟨bv_length hR hW _ (by simp), fun b hb => ?_⟩
  have := (bperm_perm hR.σlt hR.τlt hR.τσ hR.στ LinkType.qdWidth s.types rfl (List.replicate s.nv c)
    (by simp [Sys.nv])).mem_iff.mp hb
  exact List.eq_of_mem_replicate this

/-- one actuator: its contribution to the permuted torque vector -/
theorem tauStep_relabel (q qd t : List ℝ) (hf : C05G.Full s q qd) (ht : t.length = s.nv) {a' a : ActP ℝ}
    (hA : ActRelG s.types.length σ s.types s'.types a' a) (x : ℝ) :
    tauStep (bq σ s q) (bv σ s qd) (bv σ s t) (a', x) = bv σ s (tauStep q qd t (a, x)) := by
  obtain ⟨k, r, hk, hr, e1, e2⟩ := hA.qd
  obtain ⟨kq, rq, hkq, hrq, e3, e4⟩ := hA.q
  unfold tauStep
  simp only [hA.ctrlLo, hA.ctrlHi, hA.forceLo, hA.forceHi, hA.gain, hA.gear, hA.biasQ, hA.biasQd]
  rw [e1, e2, e3, e4, qdOff_eq, qdOff_eq, qOff_eq, qOff_eq,
    gather_bperm hR.σlt LinkType.qWidth hR.types q hf.hq
      (by rw [bq_length hR hW q hf.hq]; exact (nq_relabel hR hW).symm) hkq hrq,
    gather_bperm hR.σlt LinkType.qdWidth hR.types qd hf.hqd
      (by rw [bv_length hR hW qd hf.hqd]; exact (nv_relabel hR hW).symm) hk hr,
    addAt_bperm hR.σlt hR.τlt hR.τσ hR.στ LinkType.qdWidth hR.types t ht _ hk hr]

theorem foldl_tauStep_relabel (q qd : List ℝ) (hf : C05G.Full s q qd) {L' L : List (ActP ℝ)}
    (hA : List.Forall₂ (ActRelG s.types.length σ s.types s'.types) L' L) :
    ∀ (u t : List ℝ), t.length = s.nv →
      (L'.zip u).foldl (tauStep (bq σ s q) (bv σ s qd)) (bv σ s t)
        = bv σ s ((L.zip u).foldl (tauStep q qd) t) := by
  induction hA with
  | nil => intro u t _; rfl
  | @cons a' a L' L ha _ ih =>
    intro u t ht
    cases u with
    | nil => rfl
    | cons x u =>
      simp only [List.zip_cons_cons, List.foldl_cons]
      rw [tauStep_relabel hR hW q qd t hf ht ha x]
      exact ih u _ (by rw [tauStep_length]; exact ht)

/-- **stage 4 — `actuator.to_tau` with re-indexed actuators**: the torque vector of the relabelled system at
the blockwise permuted coordinates is the blockwise permuted torque vector -/
theorem toTau_relabel (u q qd : List ℝ) (hf : C05G.Full s q qd) :
    toTau s'.nv s'.acts u (bq σ s q) (bv σ s qd) = bv σ s (toTau s.nv s.acts u q qd) := by
  rw [toTau_def, toTau_def, nv_relabel hR hW]
  have := foldl_tauStep_relabel hR hW q qd hf hR.acts u (List.replicate s.nv 0) (by simp)
  rw [bv_replicate hR hW 0] at this
  exact this

end tau

/-! ## 7. `pipeline.init`, `qf_smooth`, the integrator and `pipeline.step` of a relabelled system -/

/-- the `transform_com` fields relabelled by `σ` -/
noncomputable def permCom (n : Nat) (σ : Nat → Nat) (c : ComState ℝ) : ComState ℝ :=
  ⟨permArgs n σ c.rootCom V3.zero, permArgs n σ c.cinr zI, permArgs n σ c.cdof [],
   permArgs n σ c.cd Motion.zero, permArgs n σ c.cdofd []⟩

/-- the dynamics terms relabelled by `σ`: per-link CoM terms relabelled, mass matrix `Π M Πᵀ` -/
noncomputable def permDyn (σ : Nat → Nat) (s : Sys ℝ) (st : DynState ℝ) : DynState ℝ :=
  ⟨permCom s.types.length σ st.com, permMx LinkType.qdWidth s.types.length σ s.types st.massMx⟩

theorem ComPRL.eq_permCom {n : Nat} {σ : Nat → Nat} (hσ : ∀ k, k < n → σ k < n) {c' c : ComState ℝ}
    (h : ComPRL n σ c' c) : c' = permCom n σ c := by
  cases c'
  unfold permCom
  simp only [ComState.mk.injEq]
  exact ⟨h.rootCom.eq_permArgs hσ _, h.cinr.eq_permArgs hσ _, h.cdof.eq_permArgs hσ _,
    h.cd.eq_permArgs hσ _, h.cdofd.eq_permArgs hσ _⟩

theorem inverse_shaped (ts : List LinkType) (ps : List Int) (grav : V3 ℝ) (c : ComState ℝ)
    (N : List (List ℝ)) (hc : ComShape ts c) (hps : ps.length = ts.length) (hN : N.length = ts.length) :
    Shaped LinkType.qdWidth ts (inverse ps grav c N) := by
  have hl : c.cdof.length = ts.length := (List.Forall₂.length_eq hc.lcdof).symm
  have hcf : (C05G.invCfrc ps grav c N).length = ts.length := by
    simp [C05G.invCfrc, revAcc_length, C05G.invFlat, C05G.invCdd, C05G.invU, scanFwd_length, hc.lcinr,
      hc.lcd, hc.lcdofd, hps, hN]
  rw [C05G.inverse_eq]
  apply C05G.forall₂_of_getElem
  · simp [hl, hcf]
  · intro i h1 h2
    simp only [List.getElem_zipWith, List.length_map]
    exact forall₂_getElem hc.lcdof i h1 (by rw [hl]; exact h1)

theorem passive_shaped (s : Sys ℝ) (q qd : List ℝ) (hf : C05G.Full s q qd) :
    Shaped LinkType.qdWidth s.types ((nested s q qd).map passiveLink) := by
  have hfl := C05G.linkSlices_full s.types q qd s.dofs (by rw [hf.hq]; exact le_refl _)
    (by rw [hf.hqd]; exact le_refl _) (by rw [hf.hds]; exact le_refl _)
  apply C05G.chunks_map passiveLink LinkType.qdWidth _ hfl
  intro t l hl
  obtain ⟨ht, hq, hqd, hd⟩ := hl
  unfold passiveLink
  cases hti : l.typ <;> simp [hq, hqd, hd, ← ht, hti, LinkType.qWidth, LinkType.qdWidth]

section compose
variable {σ τ : Nat → Nat} {s s' : Sys ℝ} (hR : RelabelG σ τ s s') (hW : C05Perm.WFParts s)
include hR hW

/-- **`pipeline.init` (dynamics part) of the relabelled system** at the blockwise permuted coordinates: CoM terms
relabelled, mass matrix `Π M Πᵀ` -/
theorem dynInit_relabel (q qd : List ℝ) (hf : C05G.Full s q qd) :
    dynInit s' (bq σ s q) (bv σ s qd) = permDyn σ s (dynInit s q qd) := by
  have hcom := dynInit_com_prl hR hW q qd hf
  have hc := comShape_dynInit s hW q qd hf
  have hmx : (dynInit s' (bq σ s q) (bv σ s qd)).massMx
      = permMx LinkType.qdWidth s.types.length σ s.types (dynInit s q qd).massMx := by
    show massMatrix s'.parents (dynInit s' (bq σ s q) (bv σ s qd)).com.cinr
      (dynInit s' (bq σ s q) (bv σ s qd)).com.cdof
      ((nested s' (bq σ s q) (bv σ s qd)).map fun l => l.dofs.map (·.armature)) = _
    rw [hR.parents]
    exact massMatrix_permMx (hR.fr hW) s.types rfl hcom.cinr hcom.cdof hc.lcdof
      ((nested_relabel hR hW q qd hf).map _)
  show (⟨_, _⟩ : DynState ℝ) = ⟨_, _⟩
  exact congrArg₂ DynState.mk (hcom.eq_permCom hR.σlt) hmx

theorem passiveFlat_relabel (q qd : List ℝ) (hf : C05G.Full s q qd) :
    passiveFlat s' (bq σ s q) (bv σ s qd) = bv σ s (passiveFlat s q qd) := by
  unfold passiveFlat
  exact flatten_prl LinkType.qdWidth s.types hR.σlt ((nested_relabel hR hW q qd hf).map _)
    (passive_shaped s q qd hf)

theorem biasFlat_relabel (q qd : List ℝ) (hf : C05G.Full s q qd) :
    biasFlat s' (dynInit s' (bq σ s q) (bv σ s qd)) (bq σ s q) (bv σ s qd)
      = bv σ s (biasFlat s (dynInit s q qd) q qd) := by
  unfold biasFlat
  rw [hR.parents, hR.gravity]
  exact flatten_prl LinkType.qdWidth s.types hR.σlt
    (inverse_prl (hR.fr hW) s.gravity (dynInit_com_prl hR hW q qd hf) ((nested_relabel hR hW q qd hf).map _))
    (inverse_shaped s.types s.parents s.gravity _ _ (comShape_dynInit s hW q qd hf) hW.tlen
      (by rw [List.length_map, nested_length]))

theorem biasFlat_len (q qd : List ℝ) (hf : C05G.Full s q qd) :
    (biasFlat s (dynInit s q qd) q qd).length = s.nv :=
  inverse_flatten_length s.types _ _ _ _ (comShape_dynInit s hW q qd hf) hW.tlen
    (by rw [List.length_map, nested_length])

/-- **`qf_smooth` of the relabelled system** is the blockwise permuted `qf_smooth` -/
theorem qfSmooth_relabel (q qd act : List ℝ) (hf : C05G.Full s q qd) :
    qfSmooth s' (dynInit s' (bq σ s q) (bv σ s qd)) (bq σ s q) (bv σ s qd) act
      = bv σ s (qfSmooth s (dynInit s q qd) q qd act) := by
  unfold qfSmooth Gd.forward
  have l1 := passiveFlat_length s q qd hf
  have l2 := biasFlat_len hR hW q qd hf
  have l3 := C05G.toTau_length s.nv s.acts act q qd
  rw [passiveFlat_relabel hR hW q qd hf, biasFlat_relabel hR hW q qd hf, toTau_relabel hR hW act q qd hf,
    bperm_zipWith LinkType.qdWidth s.types hR.σlt rfl _ _ _ (by rw [l1]; exact le_refl _)
      (by rw [l2]; exact le_refl _),
    bperm_zipWith LinkType.qdWidth s.types hR.σlt rfl _ _ _ (by simp [l1, l2, Sys.nv])
      (by rw [l3]; exact le_refl _)]

theorem qfSmooth_len (q qd act : List ℝ) (hf : C05G.Full s q qd) :
    (qfSmooth s (dynInit s q qd) q qd act).length = s.nv := by
  have l1 := passiveFlat_length s q qd hf
  have l2 := biasFlat_len hR hW q qd hf
  have l3 := C05G.toTau_length s.nv s.acts act q qd
  simp [qfSmooth, Gd.forward, l1, l2, l3]

theorem dampedP_relabel (M : List (List ℝ)) :
    dampedP s' (permMx LinkType.qdWidth s.types.length σ s.types M)
      = dampedMatrix (permMx LinkType.qdWidth s.types.length σ s.types M)
          (bv σ s (s.dofs.map (·.damping))) s.dt := by
  unfold dampedP
  rw [hR.dofs, hR.dt, bperm_map]

/-- **`integrator.integrate` of the relabelled system**: exact solve on the original system, unique solution on
the relabelled one; new `q`, `qd`, `qdd` permuted blockwise -/
theorem integrate_relabel (solve : List (List ℝ) → List ℝ → List ℝ) (M : List (List ℝ))
    (q qd f c : List ℝ) (hf : C05G.Full s q qd) (hfl : f.length = s.nv) (hcl : c.length = s.nv)
    (hM : M.length = s.nv) (hr : ∀ r ∈ M, r.length = s.nv)
    (hex : matVec (dampedP s M) (solve (dampedP s M) (List.zipWith (· + ·) f c)) = List.zipWith (· + ·) f c)
    (hlen : (solve (dampedP s M) (List.zipWith (· + ·) f c)).length = s.nv)
    (huniq : ∀ y : List ℝ, y.length = s.nv →
      matVec (dampedP s' (permMx LinkType.qdWidth s.types.length σ s.types M)) y
        = bv σ s (List.zipWith (· + ·) f c) →
      solve (dampedP s' (permMx LinkType.qdWidth s.types.length σ s.types M))
        (bv σ s (List.zipWith (· + ·) f c)) = y) :
    integrate solve s' (permMx LinkType.qdWidth s.types.length σ s.types M) (bq σ s q) (bv σ s qd)
        (bv σ s f) (bv σ s c)
      = (bq σ s (integrate solve s M q qd f c).1, bv σ s (integrate solve s M q qd f c).2.1,
         bv σ s (integrate solve s M q qd f c).2.2) := by
  have e3 : (integrate solve s' (permMx LinkType.qdWidth s.types.length σ s.types M) (bq σ s q) (bv σ s qd)
      (bv σ s f) (bv σ s c)).2.2 = bv σ s (integrate solve s M q qd f c).2.2 := by
    show solve (dampedP s' (permMx LinkType.qdWidth s.types.length σ s.types M))
      (List.zipWith (· + ·) (bv σ s f) (bv σ s c)) = bv σ s (solve (dampedP s M) (List.zipWith (· + ·) f c))
    rw [bperm_zipWith LinkType.qdWidth s.types hR.σlt rfl _ _ _ (by rw [hfl]; exact le_refl _)
      (by rw [hcl]; exact le_refl _)]
    rw [dampedP_relabel hR hW] at huniq ⊢
    exact solve_bperm hR.σlt hR.τlt hR.τσ hR.στ LinkType.qdWidth s.types rfl solve M _ _ s.dt hM hr
      (by rw [List.length_map, hf.hds]; rfl) hex hlen huniq
  have e2 : (integrate solve s' (permMx LinkType.qdWidth s.types.length σ s.types M) (bq σ s q) (bv σ s qd)
      (bv σ s f) (bv σ s c)).2.1 = bv σ s (integrate solve s M q qd f c).2.1 := by
    show List.zipWith (fun v a => v + a * s'.dt) (bv σ s qd)
      (integrate solve s' (permMx LinkType.qdWidth s.types.length σ s.types M) (bq σ s q) (bv σ s qd)
        (bv σ s f) (bv σ s c)).2.2 = _
    rw [e3, hR.dt]
    exact bperm_zipWith LinkType.qdWidth s.types hR.σlt rfl _ _ _ (by rw [hf.hqd]; exact le_refl _)
      (by
        show (s.types.map LinkType.qdWidth).sum ≤ (solve (dampedP s M) (List.zipWith (· + ·) f c)).length
        rw [hlen]; exact le_refl _)
  have hl := integrate_lengths solve s M q qd f c hf hlen
  have hf2 : C05G.Full s q (integrate solve s M q qd f c).2.1 := ⟨hf.hq, hl.2, hf.hds⟩
  have e1 : (integrate solve s' (permMx LinkType.qdWidth s.types.length σ s.types M) (bq σ s q) (bv σ s qd)
      (bv σ s f) (bv σ s c)).1 = bq σ s (integrate solve s M q qd f c).1 := by
    show ((linkSlices s'.types (bq σ s q)
      (integrate solve s' (permMx LinkType.qdWidth s.types.length σ s.types M) (bq σ s q) (bv σ s qd)
        (bv σ s f) (bv σ s c)).2.1 s'.dofs).map (integrateQLink s'.dt)).flatten = _
    rw [e2, hR.dt]
    have hs := C05G.linkSlices_shape s.types q (integrate solve s M q qd f c).2.1 s.dofs
      (by rw [hf.hq]; exact le_refl _) (by rw [hl.2]; exact le_refl _)
    exact flatten_prl LinkType.qWidth s.types hR.σlt
      ((nested_relabel hR hW q _ hf2).map (integrateQLink s.dt))
      (C05G.chunks_map (integrateQLink s.dt) LinkType.qWidth
        (fun t l hl => C05G.integrateQLink_length s.dt t l hl) hs)
  exact Prod.ext e1 (Prod.ext e2 e3)

/-- **C05, generalized pipeline, sibling order, one whole `pipeline.step`** (lemma level; the Props-level
statement is `Brax.C05.generalized_step_sibling_order`) -/
theorem step_relabel (solve : List (List ℝ) → List ℝ → List ℝ) (q qd act qfc : List ℝ)
    (hf : C05G.Full s q qd) (hqfc : qfc.length = s.nv)
    (hex : matVec (dampedP s (dynInit s q qd).massMx)
        (solve (dampedP s (dynInit s q qd).massMx)
          (List.zipWith (· + ·) (qfSmooth s (dynInit s q qd) q qd act) qfc))
      = List.zipWith (· + ·) (qfSmooth s (dynInit s q qd) q qd act) qfc)
    (hlen : (solve (dampedP s (dynInit s q qd).massMx)
        (List.zipWith (· + ·) (qfSmooth s (dynInit s q qd) q qd act) qfc)).length = s.nv)
    (huniq : ∀ y : List ℝ, y.length = s.nv →
      matVec (dampedP s' (permMx LinkType.qdWidth s.types.length σ s.types (dynInit s q qd).massMx)) y
        = bv σ s (List.zipWith (· + ·) (qfSmooth s (dynInit s q qd) q qd act) qfc) →
      solve (dampedP s' (permMx LinkType.qdWidth s.types.length σ s.types (dynInit s q qd).massMx))
        (bv σ s (List.zipWith (· + ·) (qfSmooth s (dynInit s q qd) q qd act) qfc)) = y) :
    Gd.step solve s' (dynInit s' (bq σ s q) (bv σ s qd)) (bq σ s q) (bv σ s qd) act (bv σ s qfc)
      = ((bq σ s (Gd.step solve s (dynInit s q qd) q qd act qfc).1.1,
          bv σ s (Gd.step solve s (dynInit s q qd) q qd act qfc).1.2.1,
          bv σ s (Gd.step solve s (dynInit s q qd) q qd act qfc).1.2.2),
         permDyn σ s (Gd.step solve s (dynInit s q qd) q qd act qfc).2) := by
  obtain ⟨m1, r1⟩ := massMx_square s hW q qd hf
  have hfl := qfSmooth_len hR hW q qd act hf
  have hi := integrate_relabel hR hW solve (dynInit s q qd).massMx q qd
    (qfSmooth s (dynInit s q qd) q qd act) qfc hf hfl hqfc m1 r1 hex hlen huniq
  have e : (Gd.step solve s' (dynInit s' (bq σ s q) (bv σ s qd)) (bq σ s q) (bv σ s qd) act (bv σ s qfc)).1
      = (bq σ s (Gd.step solve s (dynInit s q qd) q qd act qfc).1.1,
          bv σ s (Gd.step solve s (dynInit s q qd) q qd act qfc).1.2.1,
          bv σ s (Gd.step solve s (dynInit s q qd) q qd act qfc).1.2.2) := by
    show integrate solve s' (dynInit s' (bq σ s q) (bv σ s qd)).massMx (bq σ s q) (bv σ s qd)
      (qfSmooth s' (dynInit s' (bq σ s q) (bv σ s qd)) (bq σ s q) (bv σ s qd) act) (bv σ s qfc) = _
    rw [qfSmooth_relabel hR hW q qd act hf, dynInit_relabel hR hW q qd hf]
    exact hi
  refine Prod.ext e ?_
  show dynInit s' (Gd.step solve s' _ _ _ _ (bv σ s qfc)).1.1 (Gd.step solve s' _ _ _ _ (bv σ s qfc)).1.2.1 = _
  rw [e]
  have hl := integrate_lengths solve s (dynInit s q qd).massMx q qd (qfSmooth s (dynInit s q qd) q qd act)
    qfc hf hlen
  exact dynInit_relabel hR hW _ _ ⟨hl.1, hl.2, hf.hds⟩

end compose

/-! ## 8. any number of steps -/

/-- `n` consecutive `pipeline.step`s from `pipeline.init` at `(q, qd)`, one `(act, qfc)` per step; returns the
final `(q, qd)` (the dynamics terms are `dynInit` of them) -/
noncomputable def gsteps (solve : List (List ℝ) → List ℝ → List ℝ) (s : Sys ℝ) :
    List (List ℝ × List ℝ) → List ℝ × List ℝ → List ℝ × List ℝ
  | [], qq => qq
  | p :: rest, qq =>
    gsteps solve s rest
      ((Gd.step solve s (dynInit s qq.1 qq.2) qq.1 qq.2 p.1 p.2).1.1,
       (Gd.step solve s (dynInit s qq.1 qq.2) qq.1 qq.2 p.1 p.2).1.2.1)

/-- the linear solve is exact on the original system and its result on the relabelled system is the unique
solution — at every state and input of the right sizes -/
def GoodSolve (solve : List (List ℝ) → List ℝ → List ℝ) (σ : Nat → Nat) (s s' : Sys ℝ) : Prop :=
  ∀ q qd act qfc : List ℝ, C05G.Full s q qd → qfc.length = s.nv →
    matVec (dampedP s (dynInit s q qd).massMx)
        (solve (dampedP s (dynInit s q qd).massMx)
          (List.zipWith (· + ·) (qfSmooth s (dynInit s q qd) q qd act) qfc))
      = List.zipWith (· + ·) (qfSmooth s (dynInit s q qd) q qd act) qfc
    ∧ (solve (dampedP s (dynInit s q qd).massMx)
        (List.zipWith (· + ·) (qfSmooth s (dynInit s q qd) q qd act) qfc)).length = s.nv
    ∧ ∀ y : List ℝ, y.length = s.nv →
      matVec (dampedP s' (permMx LinkType.qdWidth s.types.length σ s.types (dynInit s q qd).massMx)) y
        = bv σ s (List.zipWith (· + ·) (qfSmooth s (dynInit s q qd) q qd act) qfc) →
      solve (dampedP s' (permMx LinkType.qdWidth s.types.length σ s.types (dynInit s q qd).massMx))
        (bv σ s (List.zipWith (· + ·) (qfSmooth s (dynInit s q qd) q qd act) qfc)) = y

/-- **sibling order, any number of generalized steps**: the relabelled system, started at the blockwise
permuted coordinates and fed the same controls and the blockwise permuted constraint forces, stays the
relabelling of the original trajectory -/
theorem gsteps_relabel {σ τ : Nat → Nat} {s s' : Sys ℝ} (hR : RelabelG σ τ s s') (hW : C05Perm.WFParts s)
    (solve : List (List ℝ) → List ℝ → List ℝ) (hS : GoodSolve solve σ s s')
    (inputs : List (List ℝ × List ℝ)) (hin : ∀ p ∈ inputs, p.2.length = s.nv) :
    ∀ (q qd : List ℝ), C05G.Full s q qd →
      gsteps solve s' (inputs.map fun p => (p.1, bv σ s p.2)) (bq σ s q, bv σ s qd)
        = (bq σ s (gsteps solve s inputs (q, qd)).1, bv σ s (gsteps solve s inputs (q, qd)).2) := by
  induction inputs with
  | nil => intro q qd _; rfl
  | cons p rest ih =>
    intro q qd hf
    obtain ⟨hex, hlen, huniq⟩ := hS q qd p.1 p.2 hf (hin p (by simp))
    have hst := step_relabel hR hW solve q qd p.1 p.2 hf (hin p (by simp)) hex hlen huniq
    have hl := integrate_lengths solve s (dynInit s q qd).massMx q qd (qfSmooth s (dynInit s q qd) q qd p.1)
      p.2 hf hlen
    simp only [List.map_cons, gsteps]
    rw [hst]
    exact ih (fun p' hp' => hin p' (by simp [hp'])) _ _ ⟨hl.1, hl.2, hf.hds⟩

end Brax.C05GP2
