import Brax.Lemmas.C03Sound
import Brax.Lemmas.KinPos
/-!
# C03 (deepening 2) — the dual-number derivative of `kinematics.forward` is sound for EVERY forest

`Lemmas/C03Sound.lean` proved the closure lemmas, one link (`link1_sound`) and the tree scan
(`scanFwd_world_sound`, `forward_sound_of_joints`: sound *given* sound per-link joint curves and the
final-`normalize` guards).  This file supplies what was missing:

* the list plumbing: `Kin.linkSlices` commutes with maps (`linkSlices_map`), so the per-link inputs of
  the dual run along the line `q + u·δq` are the base slices mapped by the curve `crv u`;
* `Kin.jcalc` of **any** link (free link: re-packaging; stack of any number of dofs: `jcalcDof` folded
  by `jcalcAcc`) is a sound curve (`jcalc_sound`) and its value part is the real run for **every**
  input (`re_jcalc`, hence `re_forward`: no hypothesis at all);
* the propagation "unit link rotations, unit free quaternions, per-dof `normalize` off its ball ⇒
  every world rotation is a unit quaternion ⇒ every final-`normalize` guard holds" over the whole
  tree (`forward_rot_isUnit`);
* the assembled theorems `forward_tangent_is_derivative_dual`, `forward_directional_derivative`.
-/
set_option linter.unusedSectionVars false
set_option linter.unusedSimpArgs false
set_option linter.unusedVariables false
set_option linter.unusedTactic false
set_option linter.unreachableTactic false
namespace Brax.C03
open Brax Filter Topology

/-! ## list plumbing -/

/-- map the scalars and the dofs of a per-link input -/
def mapIn {α β : Type} (f : α → β) (g : DofP α → DofP β) (l : Kin.LinkIn α) : Kin.LinkIn β :=
  ⟨l.typ, l.q.map f, l.qd.map f, l.dofs.map g⟩

/-- **`scan.link_types` slicing commutes with maps** -/
theorem linkSlices_map {α β : Type} (f : α → β) (g : DofP α → DofP β) (ts : List LinkType)
    (q qd : List α) (ds : List (DofP α)) :
    Kin.linkSlices ts (q.map f) (qd.map f) (ds.map g) = (Kin.linkSlices ts q qd ds).map (mapIn f g) := by
  induction ts generalizing q qd ds with
  | nil => rfl
  | cons t ts ih =>
    simp only [Kin.linkSlices, List.map_cons, ← List.map_take, ← List.map_drop, ih]
    rfl

/-- every dof of a slice is a dof of the system -/
theorem linkSlices_dofs_mem {α : Type} (ts : List LinkType) (q qd : List α) (ds : List (DofP α)) :
    ∀ l ∈ Kin.linkSlices ts q qd ds, ∀ d ∈ l.dofs, d ∈ ds := by
  induction ts generalizing q qd ds with
  | nil => intro l hl; cases hl
  | cons t ts ih =>
    intro l hl d hd
    simp only [Kin.linkSlices, List.mem_cons] at hl
    rcases hl with rfl | hl
    · exact List.mem_of_mem_take hd
    · exact List.mem_of_mem_drop (ih _ _ _ l hl d hd)

theorem mem_zip3_left {A B C : Type} {a : A} {b : B} {c : C} :
    ∀ {as : List A} {bs : List B} {cs : List C}, (a, b, c) ∈ as.zip (bs.zip cs) → (a, b) ∈ as.zip bs
  | [], _, _, h => by simp at h
  | _ :: _, [], _, h => by simp at h
  | _ :: _, _ :: _, [], h => by simp at h
  | a' :: as, b' :: bs, c' :: cs, h => by
    simp only [List.zip_cons_cons, List.mem_cons, Prod.mk.injEq] at h ⊢
    rcases h with ⟨rfl, rfl, rfl⟩ | h
    · exact Or.inl ⟨rfl, rfl⟩
    · exact Or.inr (mem_zip3_left h)

/-- an element of the second list of a zip has a partner when the first list is long enough -/
theorem exists_zip_partner {A B : Type} {b : B} :
    ∀ {as : List A} {bs : List B}, b ∈ bs → bs.length ≤ as.length → ∃ a, (a, b) ∈ as.zip bs
  | _, [], h, _ => by cases h
  | [], _ :: _, _, hl => by simp at hl
  | a' :: as, b' :: bs, h, hl => by
    rcases List.mem_cons.mp h with rfl | h
    · exact ⟨a', by simp⟩
    · obtain ⟨a, ha⟩ := exists_zip_partner h (by simpa using hl)
      exact ⟨a, by simp [ha]⟩

/-! ## `Kin.jcalc` at any scalar type: the three shapes -/

section shapes
variable {α : Type} [Zero α] [One α] [Add α] [Sub α] [Mul α] [Neg α] [Div α]
  [LT α] [DecidableLT α] [LE α] [DecidableLE α] [OfScientific α] [HasSqrt α] [HasTrig α]

/-- the stack accumulation of `jcalc` for a non-free link -/
def stackOf : List (Tf α × Motion α) → Tf α × Motion α
  | [] => (Tf.id, Motion.zero)
  | j0 :: rest => rest.foldl Kin.jcalcAcc j0

theorem jcalc_nonfree (l : Kin.LinkIn α) (h : l.typ ≠ .free) :
    Kin.jcalc l = stackOf ((l.dofs.zip (l.q.zip l.qd)).map (fun d => Kin.jcalcDof d.1 d.2.1 d.2.2)) := by
  unfold Kin.jcalc
  cases htyp : l.typ with
  | free => exact absurd htyp h
  | one | two | three =>
    all_goals
      simp only
      cases (l.dofs.zip (l.q.zip l.qd)).map (fun d => Kin.jcalcDof d.1 d.2.1 d.2.2) with
      | nil => rfl
      | cons j0 rest => rfl

theorem jcalc_free (l : Kin.LinkIn α) (h : l.typ = .free) (p0 p1 p2 r0 r1 r2 r3 v0 v1 v2 w0 w1 w2 : α)
    (hq : l.q = [p0, p1, p2, r0, r1, r2, r3]) (hqd : l.qd = [v0, v1, v2, w0, w1, w2]) :
    Kin.jcalc l = (⟨⟨p0, p1, p2⟩, ⟨r0, r1, r2, r3⟩⟩, ⟨⟨w0, w1, w2⟩, ⟨v0, v1, v2⟩⟩) := by
  unfold Kin.jcalc; rw [h]; simp only [hq, hqd]

theorem jcalc_free_default (l : Kin.LinkIn α) (h : l.typ = .free)
    (hne : ¬ (l.q.length = 7 ∧ l.qd.length = 6)) : Kin.jcalc l = (Tf.id, Motion.zero) := by
  unfold Kin.jcalc; rw [h]; simp only
  split
  · rename_i hq hqd
    exact absurd ⟨by rw [hq]; rfl, by rw [hqd]; rfl⟩ hne
  · rfl

end shapes

theorem list_length_seven {A : Type} : ∀ (l : List A), l.length = 7 →
    ∃ a b c d e f g, l = [a, b, c, d, e, f, g]
  | [a, b, c, d, e, f, g], _ => ⟨a, b, c, d, e, f, g, rfl⟩
theorem list_length_six {A : Type} : ∀ (l : List A), l.length = 6 →
    ∃ a b c d e f, l = [a, b, c, d, e, f]
  | [a, b, c, d, e, f], _ => ⟨a, b, c, d, e, f, rfl⟩

/-! ## (P): the value part of the dual run of `jcalc` / `jointOf` / `forward` is the real run — for
every input, no hypothesis -/

/-- value part of a per-link input -/
def reIn (L : Kin.LinkIn (Dual ℝ)) : Kin.LinkIn ℝ := mapIn Dual.re reDof L

theorem reTM_jcalcDof (d : DofP (Dual ℝ)) (q qd : Dual ℝ) :
    reTM (Kin.jcalcDof d q qd) = Kin.jcalcDof (reDof d) q.re qd.re := by
  have := re_jcalcDof d q qd
  exact Prod.ext this.1 this.2

theorem reTM_foldl_jcalcAcc (rest : List (Tf (Dual ℝ) × Motion (Dual ℝ)))
    (j0 : Tf (Dual ℝ) × Motion (Dual ℝ)) :
    reTM (rest.foldl Kin.jcalcAcc j0) = (rest.map reTM).foldl Kin.jcalcAcc (reTM j0) := by
  induction rest generalizing j0 with
  | nil => rfl
  | cons j rest ih => simp only [List.foldl, List.map_cons]; rw [ih, re_jcalcAcc]

theorem reTM_stackOf (js : List (Tf (Dual ℝ) × Motion (Dual ℝ))) :
    reTM (stackOf js) = stackOf (js.map reTM) := by
  cases js with
  | nil =>
    show ((⟨⟨(0 : ℝ), 0, 0⟩, ⟨1, 0, 0, 0⟩⟩ : Tf ℝ), (⟨⟨(0 : ℝ), 0, 0⟩, ⟨0, 0, 0⟩⟩ : Motion ℝ)) = _
    rfl
  | cons j0 rest => exact reTM_foldl_jcalcAcc rest j0

/-- **the value part of the dual run of `jcalc` is the real `jcalc`, for every link input** (free
link of any — also malformed — width, stack of any number of dofs) -/
theorem re_jcalc (L : Kin.LinkIn (Dual ℝ)) : reTM (Kin.jcalc L) = Kin.jcalc (reIn L) := by
  by_cases hfree : L.typ = .free
  · have hfree' : (reIn L).typ = .free := hfree
    by_cases hlen : L.q.length = 7 ∧ L.qd.length = 6
    · obtain ⟨p0, p1, p2, r0, r1, r2, r3, hq⟩ := list_length_seven _ hlen.1
      obtain ⟨v0, v1, v2, w0, w1, w2, hqd⟩ := list_length_six _ hlen.2
      rw [jcalc_free L hfree _ _ _ _ _ _ _ _ _ _ _ _ _ hq hqd,
        jcalc_free (reIn L) hfree' p0.re p1.re p2.re r0.re r1.re r2.re r3.re v0.re v1.re v2.re
          w0.re w1.re w2.re (by simp only [reIn, mapIn, hq, List.map_cons, List.map_nil])
          (by simp only [reIn, mapIn, hqd, List.map_cons, List.map_nil])]
      rfl
    · rw [jcalc_free_default L hfree hlen, jcalc_free_default (reIn L) hfree'
        (by simpa only [reIn, mapIn, List.length_map] using hlen)]
      rfl
  · have hfree' : (reIn L).typ ≠ .free := hfree
    rw [jcalc_nonfree L hfree, jcalc_nonfree (reIn L) hfree', reTM_stackOf]
    congr 1
    simp only [reIn, mapIn, List.zip_map, List.map_map]
    apply List.map_congr_left
    intro d _
    exact reTM_jcalcDof d.1 d.2.1 d.2.2

theorem re_jointOf (lk : LinkP (Dual ℝ)) (L : Kin.LinkIn (Dual ℝ)) :
    reTM (jointOf (lk, L)) = jointOf (reLink lk, reIn L) := by
  have e := re_jcalc L
  have e1 : reTf (Kin.jcalc L).1 = (Kin.jcalc (reIn L)).1 := congrArg Prod.fst e
  have e2 : reMotion (Kin.jcalc L).2 = (Kin.jcalc (reIn L)).2 := congrArg Prod.snd e
  show (Kin.placeJoint (reLink lk) (reTf (Kin.jcalc L).1),
    (⟨(reMotion (Kin.jcalc L).2).ang, rotate (reMotion (Kin.jcalc L).2).vel (reLink lk).tf.rot⟩ :
      Motion ℝ)) = _
  rw [e1, e2]; rfl

/-- **`kinematics.forward`: the value part of the dual-number run is the real run — for every
system, every state and every tangent, no hypothesis.** -/
theorem re_forward (s : Sys ℝ) (Q QD : List (Dual ℝ)) :
    (Kin.forward (cSys s) Q QD).map reTM = Kin.forward s (Q.map Dual.re) (QD.map Dual.re) := by
  rw [forward_eq, forward_eq, List.map_map]
  have hpost : (reTM ∘ post) = (post ∘ reTM) := by funext x; exact re_post x
  rw [hpost, ← List.map_map, re_scanFwd_world]
  congr 2
  have hd : s.dofs = (s.dofs.map cDof).map reDof := by
    rw [List.map_map]
    have : (reDof ∘ cDof) = (fun d : DofP ℝ => d) := by funext d; exact reDof_cDof d
    rw [this, List.map_id']
  show (((s.links.map cLink).zip (Kin.linkSlices s.types Q QD (s.dofs.map cDof))).map jointOf).map reTM
    = (s.links.zip (Kin.linkSlices s.types (Q.map Dual.re) (QD.map Dual.re) s.dofs)).map jointOf
  conv_rhs => rw [hd, linkSlices_map]
  rw [List.zip_map_left, List.zip_map_right, List.map_map, List.map_map, List.map_map]
  apply List.map_congr_left
  intro x _
  show reTM (jointOf (cLink x.1, x.2)) = jointOf (x.1, mapIn Dual.re reDof x.2)
  rw [re_jointOf, reLink_cLink]; rfl

/-! ## (S): `jcalc` and `jointOf` of any link along a line through the state are sound curves -/

/-- the line through the dual number `d = ⟨x, δ⟩`: value `x + u·δ`, tangent `δ` -/
def crv (u : ℝ) (d : Dual ℝ) : Dual ℝ := ⟨d.re + u * d.du, d.du⟩
/-- its value part: the real line `x + u·δ` -/
def line (u : ℝ) (d : Dual ℝ) : ℝ := d.re + u * d.du

@[simp] theorem crv_zero (d : Dual ℝ) : crv 0 d = d := by
  cases d; simp only [crv, zero_mul, add_zero]
@[simp] theorem crv_re (u : ℝ) (d : Dual ℝ) : (crv u d).re = line u d := rfl
@[simp] theorem line_zero (d : Dual ℝ) : line 0 d = d.re := by simp only [line, zero_mul, add_zero]
theorem map_crv_zero (Q : List (Dual ℝ)) : Q.map (crv 0) = Q := by
  have : crv 0 = fun d => d := by funext d; exact crv_zero d
  rw [this, List.map_id']
theorem map_crv_re (u : ℝ) (Q : List (Dual ℝ)) : (Q.map (crv u)).map Dual.re = Q.map (line u) := by
  rw [List.map_map]; rfl

/-- the seed: the line `u ↦ ⟨x + u·δ, δ⟩` is a sound curve at `0` -/
theorem crv_sound (d : Dual ℝ) : Sound (fun u => crv u d) 0 := by
  unfold Sound
  have h := ((hasDerivAt_id (0 : ℝ)).mul_const d.du).const_add d.re
  simp only [one_mul] at h
  exact h

/-- the per-link input along the line -/
def inAt (L : Kin.LinkIn (Dual ℝ)) (u : ℝ) : Kin.LinkIn (Dual ℝ) := mapIn (crv u) (fun d => d) L

theorem inAt_zero (L : Kin.LinkIn (Dual ℝ)) : inAt L 0 = L := by
  cases L
  simp only [inAt, mapIn, map_crv_zero, List.map_id']

section jcalcS

theorem soundTM_const (x : Tf ℝ × Motion ℝ) (t : ℝ) : SoundTM (fun _ => (cTf x.1, cMotion x.2)) t :=
  ⟨SoundTf.const _ t, SoundMotion.const _ t⟩

theorem soundTM_id_zero (t : ℝ) :
    SoundTM (fun _ => ((Tf.id : Tf (Dual ℝ)), (Motion.zero : Motion (Dual ℝ)))) t :=
  soundTM_const ((Tf.id : Tf ℝ), (Motion.zero : Motion ℝ)) t

/-- **free link**: `jcalc` re-packages `q`, `qd`; along the line it is a tuple of seeds -/
theorem jcalc_sound_free (L : Kin.LinkIn (Dual ℝ)) (h : L.typ = .free) :
    SoundTM (fun u => Kin.jcalc (inAt L u)) 0 := by
  by_cases hlen : L.q.length = 7 ∧ L.qd.length = 6
  · obtain ⟨p0, p1, p2, r0, r1, r2, r3, hq⟩ := list_length_seven _ hlen.1
    obtain ⟨v0, v1, v2, w0, w1, w2, hqd⟩ := list_length_six _ hlen.2
    have e : (fun u => Kin.jcalc (inAt L u)) = fun u =>
        ((⟨⟨crv u p0, crv u p1, crv u p2⟩, ⟨crv u r0, crv u r1, crv u r2, crv u r3⟩⟩ : Tf (Dual ℝ)),
         (⟨⟨crv u w0, crv u w1, crv u w2⟩, ⟨crv u v0, crv u v1, crv u v2⟩⟩ : Motion (Dual ℝ))) := by
      funext u
      exact jcalc_free (inAt L u) h _ _ _ _ _ _ _ _ _ _ _ _ _
        (by simp only [inAt, mapIn, hq, List.map_cons, List.map_nil])
        (by simp only [inAt, mapIn, hqd, List.map_cons, List.map_nil])
    rw [e]
    exact ⟨⟨⟨crv_sound _, crv_sound _, crv_sound _⟩,
            ⟨crv_sound _, crv_sound _, crv_sound _, crv_sound _⟩⟩,
           ⟨⟨crv_sound _, crv_sound _, crv_sound _⟩, ⟨crv_sound _, crv_sound _, crv_sound _⟩⟩⟩
  · have e : (fun u => Kin.jcalc (inAt L u)) = fun _ => (Tf.id, Motion.zero) := by
      funext u
      exact jcalc_free_default (inAt L u) h
        (by simpa only [inAt, mapIn, List.length_map] using hlen)
    rw [e]
    exact soundTM_id_zero 0

/-- the guard of one dof of a stack at the base point: `normalize(quat_rot_axis(axis, q))` is off
the `allclose` ball -/
def DofGuard (ang : V3 ℝ) (q : ℝ) : Prop :=
  let r := quatRotAxis ang q; allClose0 [r.w, r.x, r.y, r.z] = false

/-- **stack of any number of hinge/slide dofs**: `jcalc` folds `jcalcDof` by `jcalcAcc`; sound when
the dof parameters are constants and every dof's `normalize` is off its `allclose` ball -/
theorem jcalc_sound_nonfree (L : Kin.LinkIn (Dual ℝ)) (h : L.typ ≠ .free)
    (hc : ∀ d ∈ L.dofs, ∃ d0, d = cDof d0)
    (hg : ∀ d ∈ L.dofs.zip (L.q.zip L.qd), DofGuard (reDof d.1).motion.ang d.2.1.re) :
    SoundTM (fun u => Kin.jcalc (inAt L u)) 0 := by
  have e : (fun u => Kin.jcalc (inAt L u)) = fun u =>
      stackOf (((L.dofs.zip (L.q.zip L.qd)).map
        (fun d => fun u => Kin.jcalcDof d.1 (crv u d.2.1) (crv u d.2.2))).map (· u)) := by
    funext u
    rw [jcalc_nonfree (inAt L u) h]
    congr 1
    simp only [inAt, mapIn, List.zip_map, List.map_map]
    rfl
  rw [e]
  have hs : ∀ j ∈ (L.dofs.zip (L.q.zip L.qd)).map
      (fun d => fun u => Kin.jcalcDof d.1 (crv u d.2.1) (crv u d.2.2)), SoundTM j 0 := by
    intro j hj
    obtain ⟨d, hd, rfl⟩ := List.mem_map.mp hj
    obtain ⟨d0, hd0⟩ := hc d.1 (List.of_mem_zip hd).1
    have hgd := hg d hd
    rw [hd0] at hgd ⊢
    have := jcalcDof_sound (t := 0) (d := fun _ => cDof d0) (q := fun u => crv u d.2.1)
      (qd := fun u => crv u d.2.2) (SoundMotion.const _ _) (crv_sound _) (crv_sound _)
      (by
        simp only [crv_zero]
        rw [reDof_cDof] at hgd
        exact hgd)
    exact this
  generalize (L.dofs.zip (L.q.zip L.qd)).map
      (fun d => fun u => Kin.jcalcDof d.1 (crv u d.2.1) (crv u d.2.2)) = js at hs
  cases js with
  | nil => exact soundTM_id_zero 0
  | cons j0 rest =>
    exact foldl_jcalcAcc_sound rest j0 (hs j0 (List.mem_cons_self ..))
      (fun j hj => hs j (List.mem_cons_of_mem _ hj))

/-- `jointOf` (= `jcalc`, joint placement, joint-frame velocity moved to the parent frame) along the
line, for a link with constant parameters -/
theorem jointOf_sound (lk : LinkP ℝ) (L : Kin.LinkIn (Dual ℝ))
    (hj : SoundTM (fun u => Kin.jcalc (inAt L u)) 0) :
    SoundTM (fun u => jointOf (cLink lk, inAt L u)) 0 := by
  have htf : SoundTf (fun _ : ℝ => (cLink lk).tf) 0 := SoundTf.const lk.tf 0
  have hjt : SoundTf (fun _ : ℝ => (cLink lk).joint) 0 := SoundTf.const lk.joint 0
  exact ⟨placeJoint_sound (lk := fun _ => cLink lk) htf hjt hj.1,
    ⟨hj.2.1, SoundV3.rotate hj.2.2 htf.2⟩⟩

end jcalcS

/-! ## the guards: unit rotations propagate through the whole tree (real side) -/

/-- what one link needs at the base state for the derivative to exist (weaker than C01's `LinkOK`):
unit link rotation; a free link has a well-formed state with a unit quaternion; every dof of a
hinge/slide stack has its `normalize(quat_rot_axis(axis, q))` off the `allclose` ball (true for
every `q` if the axis is a unit vector — a hinge; for a slide, axis `0`, it says
`|cos(q/2)| > 1e-8`). -/
structure LinkAD (lk : LinkP ℝ) (l : Kin.LinkIn ℝ) : Prop where
  bodyUnit : lk.tf.rot.IsUnit
  free : l.typ = .free → l.qd.length = 6 ∧
    ∃ p0 p1 p2 r0 r1 r2 r3, l.q = [p0, p1, p2, r0, r1, r2, r3] ∧ (⟨r0, r1, r2, r3⟩ : Q4 ℝ).IsUnit
  nonfree : l.typ ≠ .free → ∀ d ∈ l.dofs.zip (l.q.zip l.qd), DofGuard d.1.motion.ang d.2.1

/-- every link of the system satisfies `LinkAD` at the state `q`, `qd` -/
def ADOK (s : Sys ℝ) (q qd : List ℝ) : Prop :=
  ∀ x ∈ s.links.zip (Kin.linkSlices s.types q qd s.dofs), LinkAD x.1 x.2

/-- a hinge or slide dof in the sense of C01 satisfies the guard (slide: also for `cos(q/2) < −1e-8`) -/
theorem dofGuard_of_hinge (ang : V3 ℝ) (q : ℝ) (ha : V3.dot ang ang = 1) : DofGuard ang q :=
  hinge_guard ang q ha
theorem dofGuard_of_slide (q : ℝ) (h : 1e-8 < |Real.cos (q / 2)|) : DofGuard ⟨0, 0, 0⟩ q :=
  slide_guard q h

/-- C01's per-link hypothesis implies `LinkAD` -/
theorem LinkAD.of_linkOK {p : Int} {lk : LinkP ℝ} {l : Kin.LinkIn ℝ} (h : KinPos.LinkOK p lk l) :
    LinkAD lk l := by
  refine ⟨h.bodyUnit, ?_, ?_⟩
  · intro hf
    obtain ⟨_, _, _, hqd, hq⟩ := h.free hf
    exact ⟨hqd, hq⟩
  · intro hnf d hd
    obtain ⟨_, _, hdq⟩ := h.nonfree hnf
    have hm : (d.1, d.2.1) ∈ l.dofs.zip l.q := mem_zip3_left (c := d.2.2) hd
    rcases hdq _ hm with hh | hs
    · exact dofGuard_of_hinge _ _ hh.2
    · obtain ⟨ha, _, hc⟩ := hs
      simp only at ha hc
      rw [ha]
      exact dofGuard_of_slide _ (lt_of_lt_of_le hc (le_abs_self _))

/-- C01's `KinOK` (all links `LinkOK`) implies `ADOK`, for a system with as many parents as types -/
theorem ADOK.of_kinOK (s : Sys ℝ) (q qd : List ℝ) (hp : s.parents.length = s.types.length)
    (h : ∀ x ∈ s.parents.zip (s.links.zip (Kin.linkSlices s.types q qd s.dofs)),
      KinPos.LinkOK x.1 x.2.1 x.2.2) : ADOK s q qd := by
  intro x hx
  have hlen : (s.links.zip (Kin.linkSlices s.types q qd s.dofs)).length ≤ s.parents.length := by
    rw [List.length_zip, Kin.linkSlices_length, hp]; exact Nat.min_le_right _ _
  obtain ⟨p, hpx⟩ := exists_zip_partner hx hlen
  exact LinkAD.of_linkOK (h (p, x) hpx)

theorem foldl_jcalcAcc_rot_isUnit (rest : List (Tf ℝ × Motion ℝ)) (j0 : Tf ℝ × Motion ℝ)
    (h0 : j0.1.rot.IsUnit) (hr : ∀ j ∈ rest, j.1.rot.IsUnit) :
    (rest.foldl Kin.jcalcAcc j0).1.rot.IsUnit := by
  induction rest generalizing j0 with
  | nil => exact h0
  | cons j rest ih =>
    simp only [List.foldl]
    apply ih
    · exact Q4.IsUnit.mul h0 (hr j (List.mem_cons_self ..))
    · intro k hk; exact hr k (List.mem_cons_of_mem _ hk)

/-- the joint rotation of any admissible link is a unit quaternion -/
theorem jcalc_rot_isUnit {lk : LinkP ℝ} {l : Kin.LinkIn ℝ} (h : LinkAD lk l) :
    (Kin.jcalc l).1.rot.IsUnit := by
  by_cases hf : l.typ = .free
  · obtain ⟨hqd, p0, p1, p2, r0, r1, r2, r3, hq, hu⟩ := h.free hf
    obtain ⟨v0, v1, v2, w0, w1, w2, hqd'⟩ := list_length_six _ hqd
    rw [jcalc_free l hf _ _ _ _ _ _ _ _ _ _ _ _ _ hq hqd']
    exact hu
  · rw [jcalc_nonfree l hf]
    have hg := h.nonfree hf
    have hs : ∀ j ∈ (l.dofs.zip (l.q.zip l.qd)).map (fun d => Kin.jcalcDof d.1 d.2.1 d.2.2),
        j.1.rot.IsUnit := by
      intro j hj
      obtain ⟨d, hd, rfl⟩ := List.mem_map.mp hj
      exact normalize4_isUnit (hg d hd)
    generalize (l.dofs.zip (l.q.zip l.qd)).map (fun d => Kin.jcalcDof d.1 d.2.1 d.2.2) = js at hs
    cases js with
    | nil => exact Q4.isUnit_one
    | cons j0 rest =>
      exact foldl_jcalcAcc_rot_isUnit rest j0 (hs j0 (List.mem_cons_self ..))
        (fun j hj => hs j (List.mem_cons_of_mem _ hj))

theorem jointOf_rot_isUnit {lk : LinkP ℝ} {l : Kin.LinkIn ℝ} (h : LinkAD lk l) :
    (jointOf (lk, l)).1.rot.IsUnit :=
  Q4.IsUnit.mul h.bodyUnit (jcalc_rot_isUnit h)

/-- an invariant of the forward tree scan -/
theorem scanFwd_invariant {β γ : Type} (P : β → Prop) (f : Option β → γ → β) (ps : List Int)
    (args : List γ)
    (h : ∀ par a, (∀ x, par = some x → P x) → a ∈ args → P (f par a)) :
    ∀ x ∈ Kin.scanFwd f ps args, P x := by
  rw [Kin.scanFwd_eq]
  suffices H : ∀ (l : List (Int × γ)) (acc : List β), (∀ x ∈ acc, P x) → (∀ pa ∈ l, pa.2 ∈ args) →
      ∀ x ∈ l.foldl (Kin.scanStep f) acc, P x from
    H _ [] (fun x hx => by cases hx) (fun pa hpa => (List.of_mem_zip hpa).2)
  intro l
  induction l with
  | nil => intro acc hacc _; exact hacc
  | cons pa rest ih =>
    intro acc hacc hl
    simp only [List.foldl]
    apply ih
    · intro x hx
      simp only [Kin.scanStep, List.mem_append, List.mem_singleton] at hx
      rcases hx with hx | rfl
      · exact hacc x hx
      · apply h _ _ _ (hl pa (List.mem_cons_self ..))
        intro y hy
        by_cases hneg : pa.1 < 0
        · simp only [hneg, if_true] at hy; cases hy
        · simp only [hneg, if_false] at hy
          exact hacc y (List.mem_of_getElem? hy)
    · intro pb hpb; exact hl pb (List.mem_cons_of_mem _ hpb)

/-- **unit rotations propagate through the whole tree**: for every forest whose links are
admissible at the state, every (un-normalised) world rotation computed by the scan of
`kinematics.forward` is a unit quaternion -/
theorem forward_rot_isUnit (s : Sys ℝ) (q qd : List ℝ) (hok : ADOK s q qd) :
    ∀ x ∈ Kin.scanFwd Kin.world s.parents
      ((s.links.zip (Kin.linkSlices s.types q qd s.dofs)).map jointOf), x.1.rot.IsUnit := by
  apply scanFwd_invariant (fun x : Tf ℝ × Motion ℝ => x.1.rot.IsUnit)
  intro par a hpar ha
  obtain ⟨li, hli, rfl⟩ := List.mem_map.mp ha
  have hj : (jointOf li).1.rot.IsUnit := jointOf_rot_isUnit (hok li hli)
  cases par with
  | none => exact hj
  | some xp => exact Q4.IsUnit.mul (hpar xp rfl) hj

/-! ## assembly: `kinematics.forward` for every forest -/

theorem reIn_inAt_zero (L : Kin.LinkIn (Dual ℝ)) : reIn (inAt L 0) = reIn L := by rw [inAt_zero]

theorem forall₂_map_same {A B C : Type} (R : B → C → Prop) (f : A → B) (g : A → C) (l : List A)
    (h : ∀ a ∈ l, R (f a) (g a)) : List.Forall₂ R (l.map f) (l.map g) := by
  induction l with
  | nil => exact List.Forall₂.nil
  | cons a l ih =>
    exact List.Forall₂.cons (h a (List.mem_cons_self ..))
      (ih (fun b hb => h b (List.mem_cons_of_mem _ hb)))

/-- the base slices of the dual run and their relation to the real slices -/
theorem reIn_slices (s : Sys ℝ) (Q QD : List (Dual ℝ)) :
    (Kin.linkSlices s.types Q QD (s.dofs.map cDof)).map reIn
      = Kin.linkSlices s.types (Q.map Dual.re) (QD.map Dual.re) s.dofs := by
  have hd : s.dofs = (s.dofs.map cDof).map reDof := by
    rw [List.map_map]
    have : (reDof ∘ cDof) = (fun d : DofP ℝ => d) := by funext d; exact reDof_cDof d
    rw [this, List.map_id']
  conv_rhs => rw [hd, linkSlices_map]
  rfl

/-- **Soundness of the dual-number derivative of `kinematics.forward`, every forest (curve form).**
`s` any system over ℝ (any number of links, any parents list, free links and stacks of any number
of dofs), lifted to `Dual ℝ` with zero tangents; `Q`, `QD` any dual-valued state (value parts = the
state `q`, `qd`, tangent parts = the direction `δq`, `δqd`) at which every link is admissible
(`ADOK`).  Then the dual-number run along the line `u ↦ q + u·δq, qd + u·δqd` is a list of
curves, every one of which is sound at `u = 0`. -/
theorem forward_sound (s : Sys ℝ) (Q QD : List (Dual ℝ))
    (hok : ADOK s (Q.map Dual.re) (QD.map Dual.re)) :
    ∃ res : List (ℝ → Tf (Dual ℝ) × Motion (Dual ℝ)),
      (∀ u, Kin.forward (cSys s) (Q.map (crv u)) (QD.map (crv u)) = res.map (· u))
      ∧ ∀ r ∈ res, SoundTM r 0 := by
  -- base slices and the per-link joint curves
  let B := Kin.linkSlices s.types Q QD (s.dofs.map cDof)
  let args : List (ℝ → Tf (Dual ℝ) × Motion (Dual ℝ)) :=
    (s.links.zip B).map (fun x => fun u => jointOf (cLink x.1, inAt x.2 u))
  have hB : B.map reIn = Kin.linkSlices s.types (Q.map Dual.re) (QD.map Dual.re) s.dofs :=
    reIn_slices s Q QD
  -- admissibility of every (link, base slice)
  have hAD : ∀ x ∈ s.links.zip B, LinkAD x.1 (reIn x.2) := by
    intro x hx
    apply hok (x.1, reIn x.2)
    rw [← hB, List.zip_map_right]
    exact List.mem_map.mpr ⟨x, hx, rfl⟩
  have hjj : ∀ u, ((cSys s).links.zip (Kin.linkSlices (cSys s).types (Q.map (crv u))
      (QD.map (crv u)) (cSys s).dofs)).map jointOf = args.map (· u) := by
    intro u
    show ((s.links.map cLink).zip (Kin.linkSlices s.types (Q.map (crv u)) (QD.map (crv u))
      (s.dofs.map cDof))).map jointOf = _
    have hid : s.dofs.map cDof = (s.dofs.map cDof).map (fun d => d) := (List.map_id' _).symm
    conv_lhs => rw [hid, linkSlices_map]
    rw [List.zip_map_left, List.zip_map_right, List.map_map, List.map_map, List.map_map]
    rfl
  have hs : ∀ a ∈ args, SoundTM a 0 := by
    intro a ha
    obtain ⟨x, hx, rfl⟩ := List.mem_map.mp ha
    have had := hAD x hx
    apply jointOf_sound
    by_cases hf : x.2.typ = .free
    · exact jcalc_sound_free x.2 hf
    · apply jcalc_sound_nonfree x.2 hf
      · intro d hd
        have hmem := linkSlices_dofs_mem s.types Q QD (s.dofs.map cDof) x.2 (List.of_mem_zip hx).2 d hd
        obtain ⟨d0, _, rfl⟩ := List.mem_map.mp hmem
        exact ⟨d0, rfl⟩
      · intro d hd
        have := had.nonfree hf (reDof d.1, d.2.1.re, d.2.2.re) (by
          show _ ∈ (x.2.dofs.map reDof).zip ((x.2.q.map Dual.re).zip (x.2.qd.map Dual.re))
          rw [List.zip_map, List.zip_map]
          exact List.mem_map.mpr ⟨d, hd, rfl⟩)
        exact this
  -- the final-normalize guards: value parts at `u = 0` are the real scan, whose rotations are unit
  obtain ⟨h1, _⟩ := scanFwd_world_sound (t := 0) (cSys s).parents args hs
  have hreal : ((Kin.scanFwd worldFn (cSys s).parents args).map (· 0)).map reTM
      = Kin.scanFwd Kin.world s.parents ((s.links.zip
          (Kin.linkSlices s.types (Q.map Dual.re) (QD.map Dual.re) s.dofs)).map jointOf) := by
    rw [← h1 0, re_scanFwd_world]
    show Kin.scanFwd Kin.world s.parents _ = _
    congr 1
    rw [← hB, List.zip_map_right, List.map_map, List.map_map, List.map_map]
    apply List.map_congr_left
    intro x _
    show reTM (jointOf (cLink x.1, inAt x.2 0)) = jointOf (x.1, reIn x.2)
    rw [re_jointOf, reLink_cLink, inAt_zero]
  have hg : ∀ r ∈ Kin.scanFwd worldFn (cSys s).parents args,
      let p := reQ4 (r 0).1.rot; allClose0 [p.w, p.x, p.y, p.z] = false := by
    intro r hr
    have hmem : reTM (r 0) ∈ ((Kin.scanFwd worldFn (cSys s).parents args).map (· 0)).map reTM :=
      List.mem_map.mpr ⟨r 0, List.mem_map.mpr ⟨r, hr, rfl⟩, rfl⟩
    rw [hreal] at hmem
    exact not_allClose0_of_unit (forward_rot_isUnit s _ _ hok _ hmem)
  exact forward_sound_of_joints (t := 0) (cSys s) (fun u => Q.map (crv u)) (fun u => QD.map (crv u))
    args hjj hs hg

/-- **`forward_tangent_is_derivative`, dual-list form — every forest.**  For every system `s` over ℝ and every
dual-valued state `Q = ⟨q_i, δq_i⟩`, `QD = ⟨qd_i, δqd_i⟩` at which every link is admissible (`ADOK`:
unit link rotations, unit free-link quaternions, every stack dof's `normalize` off its ball — all
implied by C01's `KinOK`), running the model of `kinematics.forward` at `Dual ℝ` on `Q`, `QD` yields,
for every link, a pair `X` whose **value part is the real `Kin.forward`** at `(q, qd)` and whose
**tangent part is the derivative at `u = 0` of the real `Kin.forward` along the line
`(q + u·δq, qd + u·δqd)`** — componentwise, for the position, rotation, angular and linear
velocity of the link. -/
theorem forward_tangent_is_derivative_dual (s : Sys ℝ) (Q QD : List (Dual ℝ))
    (hok : ADOK s (Q.map Dual.re) (QD.map Dual.re)) :
    ∃ xs : List (ℝ → Tf ℝ × Motion ℝ),
      (∀ u, Kin.forward s (Q.map (line u)) (QD.map (line u)) = xs.map (· u))
      ∧ List.Forall₂ (fun X x => reTM X = x 0 ∧ DerivTM x (duTM X) 0)
          (Kin.forward (cSys s) Q QD) xs := by
  obtain ⟨res, hres, hsound⟩ := forward_sound s Q QD hok
  refine ⟨res.map (fun r => fun u => reTM (r u)), ?_, ?_⟩
  · intro u
    rw [← map_crv_re u Q, ← map_crv_re u QD, ← re_forward, hres u, List.map_map, List.map_map]
    rfl
  · have h0 : Kin.forward (cSys s) Q QD = res.map (· 0) := by
      have := hres 0
      rwa [map_crv_zero, map_crv_zero] at this
    rw [h0]
    apply forall₂_map_same
    intro r hr
    exact ⟨rfl, (hsound r hr).deriv⟩

/-! ### the same in the `(q, δq)` presentation, per link, and from C01's hypotheses -/

/-- the dual inputs `⟨q_i, δq_i⟩` -/
def dualOf (q δq : List ℝ) : List (Dual ℝ) := List.zipWith Dual.mk q δq
/-- the real line `q + u·δq` -/
def lineOf (q δq : List ℝ) (u : ℝ) : List ℝ := List.zipWith (fun a b => a + u * b) q δq

theorem dualOf_re : ∀ (q δq : List ℝ), δq.length = q.length → (dualOf q δq).map Dual.re = q
  | [], _, _ => by simp [dualOf]
  | _ :: _, [], h => by simp at h
  | a :: q, b :: δq, h => by
    have ih := dualOf_re q δq (by simpa using h)
    simp only [dualOf, List.zipWith_cons_cons, List.map_cons] at ih ⊢
    rw [ih]
theorem dualOf_line (q δq : List ℝ) (u : ℝ) : (dualOf q δq).map (line u) = lineOf q δq u := by
  simp only [dualOf, lineOf, List.map_zipWith]; rfl
theorem lineOf_zero (q δq : List ℝ) (h : δq.length = q.length) : lineOf q δq 0 = q := by
  rw [← dualOf_line]
  have e : (dualOf q δq).map (line 0) = (dualOf q δq).map Dual.re :=
    List.map_congr_left (fun d _ => line_zero d)
  rw [e, dualOf_re q δq h]

theorem forall₂_getElem? {A B : Type} {R : A → B → Prop} {l : List A} {l' : List B}
    (h : List.Forall₂ R l l') (i : Nat) (a : A) (ha : l[i]? = some a) :
    ∃ b, l'[i]? = some b ∧ R a b := by
  have := Kin.getElem?_optRel h i
  rw [ha] at this
  cases hb : l'[i]? with
  | none => rw [hb] at this; cases this
  | some b => rw [hb] at this; cases this with | some hab => exact ⟨b, rfl, hab⟩

/-- **`forward_tangent_is_derivative` in the `(q, δq)` presentation.**  For every system, every
state `(q, qd)` at which every link is admissible and every direction `(δq, δqd)`: the dual run on
`⟨q_i, δq_i⟩`, `⟨qd_i, δqd_i⟩` has value part `Kin.forward s q qd` and, link by link, tangent part
= the derivative at `u = 0` of `u ↦ Kin.forward s (q + u·δq) (qd + u·δqd)`. -/
theorem forward_directional_derivative (s : Sys ℝ) (q qd δq δqd : List ℝ)
    (hq : δq.length = q.length) (hqd : δqd.length = qd.length) (hok : ADOK s q qd) :
    ∃ xs : List (ℝ → Tf ℝ × Motion ℝ),
      (∀ u, Kin.forward s (lineOf q δq u) (lineOf qd δqd u) = xs.map (· u))
      ∧ (Kin.forward (cSys s) (dualOf q δq) (dualOf qd δqd)).map reTM = Kin.forward s q qd
      ∧ List.Forall₂ (fun X x => reTM X = x 0 ∧ DerivTM x (duTM X) 0)
          (Kin.forward (cSys s) (dualOf q δq) (dualOf qd δqd)) xs := by
  have hok' : ADOK s ((dualOf q δq).map Dual.re) ((dualOf qd δqd).map Dual.re) := by
    rw [dualOf_re q δq hq, dualOf_re qd δqd hqd]; exact hok
  obtain ⟨xs, h1, h2⟩ := forward_tangent_is_derivative_dual s (dualOf q δq) (dualOf qd δqd) hok'
  refine ⟨xs, ?_, ?_, h2⟩
  · intro u; rw [← dualOf_line, ← dualOf_line]; exact h1 u
  · rw [re_forward, dualOf_re q δq hq, dualOf_re qd δqd hqd]

/-- … **per link**: the `i`-th output `X` of the dual run has `reTM X` = the `i`-th link of the real
`Kin.forward`, and `duTM X` = the derivative at `0` of the `i`-th link of the real run along the
line -/
theorem forward_directional_derivative_link (s : Sys ℝ) (q qd δq δqd : List ℝ)
    (hq : δq.length = q.length) (hqd : δqd.length = qd.length) (hok : ADOK s q qd)
    (i : Nat) (X : Tf (Dual ℝ) × Motion (Dual ℝ))
    (hX : (Kin.forward (cSys s) (dualOf q δq) (dualOf qd δqd))[i]? = some X) :
    ∃ x : ℝ → Tf ℝ × Motion ℝ,
      (∀ u, (Kin.forward s (lineOf q δq u) (lineOf qd δqd u))[i]? = some (x u))
      ∧ (Kin.forward s q qd)[i]? = some (reTM X) ∧ x 0 = reTM X ∧ DerivTM x (duTM X) 0 := by
  obtain ⟨xs, h1, h2, h3⟩ := forward_directional_derivative s q qd δq δqd hq hqd hok
  obtain ⟨x, hx, hre, hder⟩ := forall₂_getElem? h3 i X hX
  refine ⟨x, ?_, ?_, hre.symm, hder⟩
  · intro u; rw [h1 u, List.getElem?_map, hx]; rfl
  · rw [← h2, List.getElem?_map, hX]; rfl

/-- **from C01's hypotheses**: every well-formed system and state in the sense of C01 (`KinOK`:
unit link rotations, joint frames with identity rotation, free links = roots with a unit
quaternion, every stack dof a hinge about a unit axis or a slide with `cos(q/2) > 1e-8`) -/
theorem forward_directional_derivative_of_kinOK (s : Sys ℝ) (q qd δq δqd : List ℝ)
    (hq : δq.length = q.length) (hqd : δqd.length = qd.length)
    (hp : s.parents.length = s.types.length)
    (hok : ∀ x ∈ s.parents.zip (s.links.zip (Kin.linkSlices s.types q qd s.dofs)),
      KinPos.LinkOK x.1 x.2.1 x.2.2) :
    ∃ xs : List (ℝ → Tf ℝ × Motion ℝ),
      (∀ u, Kin.forward s (lineOf q δq u) (lineOf qd δqd u) = xs.map (· u))
      ∧ (Kin.forward (cSys s) (dualOf q δq) (dualOf qd δqd)).map reTM = Kin.forward s q qd
      ∧ List.Forall₂ (fun X x => reTM X = x 0 ∧ DerivTM x (duTM X) 0)
          (Kin.forward (cSys s) (dualOf q δq) (dualOf qd δqd)) xs :=
  forward_directional_derivative s q qd δq δqd hq hqd (ADOK.of_kinOK s q qd hp hok)

/-! ### non-vacuity: free root, a 2-dof stack (hinge about z, then slide along x) and a hinge leaf -/

noncomputable def exLinkF (tf : Tf ℝ) (anchor : V3 ℝ) : LinkP ℝ :=
  ⟨tf, ⟨anchor, Q4.one⟩, ⟨Tf.id, M3.one, 1⟩, 0, 0, 0, 0, 0⟩
noncomputable def exDofF (m : Motion ℝ) : DofP ℝ := ⟨m, 0, 0, 0, none, none, 0⟩
noncomputable def exSysF : Sys ℝ :=
  { types := [.free, .two, .one], parents := [-1, 0, 1],
    links := [exLinkF Tf.id V3.zero, exLinkF ⟨⟨1, 2, 3⟩, ⟨3/5, 4/5, 0, 0⟩⟩ ⟨0, 1, 0⟩,
              exLinkF ⟨⟨0, 0, 1⟩, ⟨0, 0, 1, 0⟩⟩ V3.zero],
    dofs := [exDofF ⟨V3.zero, ⟨1, 0, 0⟩⟩, exDofF ⟨V3.zero, ⟨0, 1, 0⟩⟩, exDofF ⟨V3.zero, ⟨0, 0, 1⟩⟩,
             exDofF ⟨⟨1, 0, 0⟩, V3.zero⟩, exDofF ⟨⟨0, 1, 0⟩, V3.zero⟩, exDofF ⟨⟨0, 0, 1⟩, V3.zero⟩,
             exDofF ⟨⟨0, 0, 1⟩, ⟨0, 0, 0⟩⟩, exDofF ⟨⟨0, 0, 0⟩, ⟨1, 0, 0⟩⟩,
             exDofF ⟨⟨0, 3/5, 4/5⟩, ⟨0, 0, 0⟩⟩],
    hasLimit := false, acts := [], gravity := V3.zero, dt := 1, velDamping := 0, angDamping := 0,
    baumgarteErp := 0, springMassScale := 0, springInertiaScale := 0, jointScaleAng := 0,
    jointScalePos := 0, collideScale := 0 }
/-- root at (0,0,1) with quaternion (0,1,0,0); stack angle 1/2 and slide 0; leaf angle −2 -/
noncomputable def exQF : List ℝ := [0, 0, 1, 0, 1, 0, 0, 1/2, 0, -2]
noncomputable def exQdF : List ℝ := [1, 0, 0, 0, 0, 1, 2, -1, 3]

theorem exSysF_ADOK : ADOK exSysF exQF exQdF := by
  intro x hx
  simp only [exSysF, exQF, exQdF, Kin.linkSlices, LinkType.qWidth, LinkType.qdWidth,
    List.zip_cons_cons, List.zip_nil_right, List.mem_cons, List.mem_nil_iff, or_false,
    List.take, List.drop] at hx
  rcases hx with rfl | rfl | rfl
  · refine ⟨Q4.isUnit_one, fun _ => ⟨rfl, 0, 0, 1, 0, 1, 0, 0, rfl, ?_⟩, fun h => absurd rfl h⟩
    norm_num [Q4.IsUnit, Q4.normSq]
  · refine ⟨by norm_num [exLinkF, Q4.IsUnit, Q4.normSq], fun h => by simp at h, fun _ => ?_⟩
    intro d hd
    simp only [List.zip_cons_cons, List.zip_nil_right, List.mem_cons, List.mem_nil_iff,
      or_false] at hd
    rcases hd with rfl | rfl
    · exact dofGuard_of_hinge _ _ (by norm_num [exDofF, V3.dot])
    · exact dofGuard_of_slide _ (by norm_num)
  · refine ⟨by norm_num [exLinkF, Q4.IsUnit, Q4.normSq], fun h => by simp at h, fun _ => ?_⟩
    intro d hd
    simp only [List.zip_cons_cons, List.zip_nil_right, List.mem_cons, List.mem_nil_iff,
      or_false] at hd
    subst hd
    exact dofGuard_of_hinge _ _ (by norm_num [exDofF, V3.dot])

/-- the theorem instantiated on the concrete system, for **every** direction `(δq, δqd)` -/
example (δq δqd : List ℝ) (hq : δq.length = 10) (hqd : δqd.length = 9) :
    ∃ xs : List (ℝ → Tf ℝ × Motion ℝ),
      (∀ u, Kin.forward exSysF (lineOf exQF δq u) (lineOf exQdF δqd u) = xs.map (· u))
      ∧ (Kin.forward (cSys exSysF) (dualOf exQF δq) (dualOf exQdF δqd)).map reTM
          = Kin.forward exSysF exQF exQdF
      ∧ List.Forall₂ (fun X x => reTM X = x 0 ∧ DerivTM x (duTM X) 0)
          (Kin.forward (cSys exSysF) (dualOf exQF δq) (dualOf exQdF δqd)) xs :=
  forward_directional_derivative exSysF exQF exQdF δq δqd hq hqd exSysF_ADOK

/-! ## further instances on the generated model functions (`Brax/Gen/Math.lean`) -/

/-- `sound` extended by `/`, `sqrt` and `where` (decision eventually `false`): the side conditions
(non-zero denominator, positive `sqrt` argument, the decision near `t`) are left as goals.  Purely
structural, so it does not depend on how the generated expression is associated or let-bound. -/
macro "sound_step2" : tactic => `(tactic| first
  | assumption
  | exact Sound.id
  | exact Sound.const' _ rfl
  | apply Sound.add
  | apply Sound.sub
  | apply Sound.mul
  | apply Sound.neg
  | apply Sound.sin
  | apply Sound.cos
  | apply Sound.div
  | apply Sound.sqrt
  | apply Sound.ite_of_eventually_false)
macro "sound2" : tactic => `(tactic| repeat' sound_step2)

section gen
variable {t : ℝ}

/-! ### `math.quat_to_3x3` -/

def reM3 (m : M3 (Dual ℝ)) : M3 ℝ := ⟨reV3 m.r0, reV3 m.r1, reV3 m.r2⟩
def duM3 (m : M3 (Dual ℝ)) : M3 ℝ := ⟨duV3 m.r0, duV3 m.r1, duV3 m.r2⟩
def SoundM3 (m : ℝ → M3 (Dual ℝ)) (t : ℝ) : Prop :=
  SoundV3 (fun u => (m u).r0) t ∧ SoundV3 (fun u => (m u).r1) t ∧ SoundV3 (fun u => (m u).r2) t
def DerivM3 (f : ℝ → M3 ℝ) (f' : M3 ℝ) (t : ℝ) : Prop :=
  DerivV3 (fun u => (f u).r0) f'.r0 t ∧ DerivV3 (fun u => (f u).r1) f'.r1 t
    ∧ DerivV3 (fun u => (f u).r2) f'.r2 t
theorem SoundM3.deriv {m : ℝ → M3 (Dual ℝ)} (h : SoundM3 m t) :
    DerivM3 (fun u => reM3 (m u)) (duM3 (m t)) t := h

/-- **`Gen.quatTo3x3`** (generated from the source): sound wherever the quaternion is non-zero -/
theorem SoundM3.gen_quatTo3x3 {q : ℝ → Q4 (Dual ℝ)} (hq : SoundQ4 q t)
    (hn : (q t).w.re * (q t).w.re + (q t).x.re * (q t).x.re + (q t).y.re * (q t).y.re
      + (q t).z.re * (q t).z.re ≠ 0) :
    SoundM3 (fun u => Gen.quatTo3x3 (q u)) t := by
  obtain ⟨h0, h1, h2, h3⟩ := hq
  refine ⟨⟨?_, ?_, ?_⟩, ⟨?_, ?_, ?_⟩, ⟨?_, ?_, ?_⟩⟩ <;> simp only [Gen.quatTo3x3] <;> sound2
  all_goals
    simp only [Sound.add_re, Sound.mul_re]
    intro h; apply hn; rw [← h]; ring
/-- the hand model `quatTo3x3` (used by `Tf.doInertia`) -/
theorem SoundM3.quatTo3x3 {q : ℝ → Q4 (Dual ℝ)} (hq : SoundQ4 q t)
    (hn : (q t).w.re * (q t).w.re + (q t).x.re * (q t).x.re + (q t).y.re * (q t).y.re
      + (q t).z.re * (q t).z.re ≠ 0) :
    SoundM3 (fun u => Brax.quatTo3x3 (q u)) t := by
  obtain ⟨h0, h1, h2, h3⟩ := hq
  refine ⟨⟨?_, ?_, ?_⟩, ⟨?_, ?_, ?_⟩, ⟨?_, ?_, ?_⟩⟩ <;> simp only [Brax.quatTo3x3] <;> sound2
  all_goals
    simp only [Sound.add_re, Sound.mul_re]
    intro h; apply hn; rw [← h]; ring
theorem reM3_gen_quatTo3x3 (p : Q4 (Dual ℝ)) :
    reM3 (Gen.quatTo3x3 p) = Gen.quatTo3x3 (reQ4 p) := rfl
/-- **`Gen.quatTo3x3`: the tangent of the dual run is the derivative of the real run** -/
theorem gen_quatTo3x3_deriv {q : ℝ → Q4 (Dual ℝ)} (hq : SoundQ4 q t)
    (hn : (q t).w.re * (q t).w.re + (q t).x.re * (q t).x.re + (q t).y.re * (q t).y.re
      + (q t).z.re * (q t).z.re ≠ 0) :
    DerivM3 (fun u => Gen.quatTo3x3 (reQ4 (q u))) (duM3 (Gen.quatTo3x3 (q t))) t :=
  (SoundM3.gen_quatTo3x3 hq hn).deriv

/-! ### `math.signed_angle` -/

/-- **`Gen.signedAngle`** `= atan2((p × c)·axis, p·c)`: sound off the branch cut of `atan2`
(`p·c > 0` or `(p × c)·axis ≠ 0`) -/
theorem Sound.gen_signedAngle {ax p c : ℝ → V3 (Dual ℝ)} (hax : SoundV3 ax t) (hp : SoundV3 p t)
    (hc : SoundV3 c t)
    (h : 0 < V3.dot (reV3 (p t)) (reV3 (c t))
      ∨ V3.dot (V3.cross (reV3 (p t)) (reV3 (c t))) (reV3 (ax t)) ≠ 0) :
    Sound (fun u => Gen.signedAngle (ax u) (p u) (c u)) t := by
  obtain ⟨a1, a2, a3⟩ := hax; obtain ⟨p1, p2, p3⟩ := hp; obtain ⟨c1, c2, c3⟩ := hc
  -- the two arguments of atan2 as sound curves
  have hT1 : Sound (fun u => ((((p u).y * (c u).z) - ((p u).z * (c u).y)) * (ax u).x
      + (((p u).z * (c u).x) - ((p u).x * (c u).z)) * (ax u).y)
      + (((p u).x * (c u).y) - ((p u).y * (c u).x)) * (ax u).z) t := by sound
  have hT2 : Sound (fun u => (((p u).x * (c u).x) + ((p u).y * (c u).y)) + ((p u).z * (c u).z)) t := by sound
  -- off the branch cut the zero-vector guard of `signed_angle` is locally inactive
  have hplain := Sound.atan2 hT1 hT2 h
  have hev : ∀ᶠ u in 𝓝 t, Gen.signedAngle (ax u) (p u) (c u)
      = HasTrig.atan2 (((((p u).y * (c u).z) - ((p u).z * (c u).y)) * (ax u).x
          + (((p u).z * (c u).x) - ((p u).x * (c u).z)) * (ax u).y)
          + (((p u).x * (c u).y) - ((p u).y * (c u).x)) * (ax u).z)
        ((((p u).x * (c u).x) + ((p u).y * (c u).y)) + ((p u).z * (c u).z)) := by
    rcases h with h | h
    · have ev := Sound.eventually_lt (Sound.zero (t := t)) hT2 h
      filter_upwards [ev] with u hu
      simp only [Gen.signedAngle]
      first
        | rfl
        | (have hne : eqR ((((p u).x * (c u).x) + ((p u).y * (c u).y)) + ((p u).z * (c u).z)) 0 = false := by
             simp only [eqR, Bool.and_eq_false_iff, Bool.not_eq_false', decide_eq_true_eq]; exact Or.inr hu
           simp only [hne, Bool.false_and, Bool.false_eq_true, if_false])
    · rcases lt_or_gt_of_ne h with h' | h'
      · have ev := Sound.eventually_lt hT1 (Sound.zero (t := t)) h'
        filter_upwards [ev] with u hu
        simp only [Gen.signedAngle]
        first
          | rfl
          | (have hne : eqR (((((p u).y * (c u).z) - ((p u).z * (c u).y)) * (ax u).x
                 + (((p u).z * (c u).x) - ((p u).x * (c u).z)) * (ax u).y)
                 + (((p u).x * (c u).y) - ((p u).y * (c u).x)) * (ax u).z) 0 = false := by
               simp only [eqR, Bool.and_eq_false_iff, Bool.not_eq_false', decide_eq_true_eq]; exact Or.inl hu
             simp only [hne, Bool.and_false, Bool.false_eq_true, if_false])
      · have ev := Sound.eventually_lt (Sound.zero (t := t)) hT1 h'
        filter_upwards [ev] with u hu
        simp only [Gen.signedAngle]
        first
          | rfl
          | (have hne : eqR (((((p u).y * (c u).z) - ((p u).z * (c u).y)) * (ax u).x
                 + (((p u).z * (c u).x) - ((p u).x * (c u).z)) * (ax u).y)
                 + (((p u).x * (c u).y) - ((p u).y * (c u).x)) * (ax u).z) 0 = false := by
               simp only [eqR, Bool.and_eq_false_iff, Bool.not_eq_false', decide_eq_true_eq]; exact Or.inr hu
             simp only [hne, Bool.and_false, Bool.false_eq_true, if_false])
  exact Sound.congr_of_eventuallyEq hplain hev
theorem re_gen_signedAngle (ax p c : V3 (Dual ℝ)) :
    (Gen.signedAngle ax p c).re = Gen.signedAngle (reV3 ax) (reV3 p) (reV3 c) := by
  first
    | rfl
    | (simp only [Gen.signedAngle, Sound.atan2_re, apply_ite Dual.re]; rfl)
theorem gen_signedAngle_deriv {ax p c : ℝ → V3 (Dual ℝ)} (hax : SoundV3 ax t) (hp : SoundV3 p t)
    (hc : SoundV3 c t)
    (h : 0 < V3.dot (reV3 (p t)) (reV3 (c t))
      ∨ V3.dot (V3.cross (reV3 (p t)) (reV3 (c t))) (reV3 (ax t)) ≠ 0) :
    HasDerivAt (fun u => Gen.signedAngle (reV3 (ax u)) (reV3 (p u)) (reV3 (c u)))
      (Gen.signedAngle (ax t) (p t) (c t)).du t := by
  have hs := Sound.gen_signedAngle hax hp hc h
  unfold Sound at hs
  simpa only [re_gen_signedAngle] using hs

end gen

section gen2
variable {t : ℝ}

/-! ### `math.from_to` off its switching surface `1 + v1·v2 = 1e-6` -/

/-- **`Gen.fromTo`, generic branch** (`(1 + v1·v2, v1 × v2)` normalised): sound whenever
`1 + v1·v2 > 1e-6` at `t` — strictly off the switching surface, on the side of non-antiparallel
vectors; no further side condition (the `sqrt` argument is `≥ (1 + v1·v2)² > 0`).  The proof is
structural (`sound2`) and closes the side conditions by `ring`/`linarith`, so it is independent of
the association of the generated expression. -/
theorem SoundQ4.gen_fromTo {v1 v2 : ℝ → V3 (Dual ℝ)} (h1 : SoundV3 v1 t) (h2 : SoundV3 v2 t)
    (hfar : (1e-6 : ℝ) < 1 + V3.dot (reV3 (v1 t)) (reV3 (v2 t))) :
    SoundQ4 (fun u => Gen.fromTo (v1 u) (v2 u)) t := by
  obtain ⟨a1, a2, a3⟩ := h1; obtain ⟨b1, b2, b3⟩ := h2
  have hfar' : (1e-6 : ℝ) < 1 + ((v1 t).x.re * (v2 t).x.re + (v1 t).y.re * (v2 t).y.re
      + (v1 t).z.re * (v2 t).z.re) := hfar
  have hev : ∀ᶠ u in 𝓝 t, (1e-6 : ℝ) < 1 + ((v1 u).x.re * (v2 u).x.re + (v1 u).y.re * (v2 u).y.re
      + (v1 u).z.re * (v2 u).z.re) := by
    have hc : ContinuousAt (fun u => 1 + ((v1 u).x.re * (v2 u).x.re + (v1 u).y.re * (v2 u).y.re
        + (v1 u).z.re * (v2 u).z.re)) t :=
      continuousAt_const.add (((a1.continuousAt.mul b1.continuousAt).add
        (a2.continuousAt.mul b2.continuousAt)).add (a3.continuousAt.mul b3.continuousAt))
    exact continuousAt_const.eventually_lt hc hfar'
  have hpos : ∀ X : ℝ, X = (1 + ((v1 t).x.re * (v2 t).x.re + (v1 t).y.re * (v2 t).y.re
        + (v1 t).z.re * (v2 t).z.re)) ^ 2
      + ((v1 t).y.re * (v2 t).z.re - (v1 t).z.re * (v2 t).y.re) ^ 2
      + ((v1 t).z.re * (v2 t).x.re - (v1 t).x.re * (v2 t).z.re) ^ 2
      + ((v1 t).x.re * (v2 t).y.re - (v1 t).y.re * (v2 t).x.re) ^ 2 → 0 < X := by
    intro X hX; rw [hX]
    have : (0 : ℝ) < 1 + ((v1 t).x.re * (v2 t).x.re + (v1 t).y.re * (v2 t).y.re
        + (v1 t).z.re * (v2 t).z.re) := lt_trans (by norm_num) hfar'
    positivity
  refine ⟨?_, ?_, ?_, ?_⟩ <;> simp only [Gen.fromTo] <;> sound2
  all_goals first
    | (refine hev.mono fun u hu => ?_
       simp only [decide_eq_true_eq, Sound.lt_iff, Sound.add_re, Sound.mul_re, Sound.one_re,
         Sound.ofSci_re, not_lt]
       linarith)
    | (simp only [apply_ite Dual.re, decide_eq_true_eq, Sound.lt_iff, Sound.add_re, Sound.mul_re,
         Sound.sub_re, Sound.one_re, Sound.ofSci_re]
       split_ifs with hcnd
       · exfalso; linarith
       · apply hpos; ring)
    | (rw [Sound.sqrt_re]
       refine ne_of_gt (Real.sqrt_pos.mpr ?_)
       simp only [apply_ite Dual.re, decide_eq_true_eq, Sound.lt_iff, Sound.add_re, Sound.mul_re,
         Sound.sub_re, Sound.one_re, Sound.ofSci_re]
       split_ifs with hcnd
       · exfalso; linarith
       · apply hpos; ring)

/-- (P) for `Gen.fromTo`, every input (both branches) -/
theorem reQ4_gen_fromTo (v1 v2 : V3 (Dual ℝ)) :
    reQ4 (Gen.fromTo v1 v2) = Gen.fromTo (reV3 v1) (reV3 v2) := by
  simp only [Gen.fromTo, reQ4, reV3, apply_ite Dual.re, Sound.div_re, Sound.sqrt_re, Sound.add_re,
    Sound.mul_re, Sound.sub_re, Sound.one_re, Sound.ofSci_re]
  rfl

/-- **`Gen.fromTo`: the tangent of the dual run is the derivative of the real run**, generic branch -/
theorem gen_fromTo_deriv {v1 v2 : ℝ → V3 (Dual ℝ)} (h1 : SoundV3 v1 t) (h2 : SoundV3 v2 t)
    (hfar : (1e-6 : ℝ) < 1 + V3.dot (reV3 (v1 t)) (reV3 (v2 t))) :
    DerivQ4 (fun u => Gen.fromTo (reV3 (v1 u)) (reV3 (v2 u))) (duQ4 (Gen.fromTo (v1 t) (v2 t))) t := by
  have h := (SoundQ4.gen_fromTo h1 h2 hfar).deriv
  simp only [reQ4_gen_fromTo] at h
  exact h

end gen2

section gen3
variable {t : ℝ}

/-! ### the generated `where`-arithmetic forms `Gen.safeNorm4`, `Gen.normalize4`, `Gen.normalize3` -/

section gnDef
variable {α : Type} [Zero α] [One α] [Add α] [Sub α] [Mul α] [Neg α] [Div α] [LT α] [DecidableLT α]
  [LE α] [DecidableLE α] [OfScientific α] [HasSqrt α]
/-- one component of `jp.allclose(x, 0)` as the jaxpr spells it -/
def iscl (x : α) : Bool :=
  (eqR x 0) || (decide ((absv (x - 0)) ≤ ((1e-8 : α) + ((1e-5 : α) * (absv 0)))))
/-- `Gen.safeNorm4` with the `allclose` decision abstracted -/
def gsn4 (z : Bool) (q : Q4 α) : α :=
  let t2 : α := (if z then 1 else 0)
  let t3 : α := (t2 * 1)
  let t4 : α := (q.w + t3)
  let t5 : α := (q.x + t3)
  let t6 : α := (q.y + t3)
  let t7 : α := (q.z + t3)
  ((HasSqrt.sqrt ((((t4 * t4) + (t5 * t5)) + (t6 * t6)) + (t7 * t7))) * (1 - t2))
/-- `Gen.normalize4` with both decisions abstracted -/
def gnz4 (z e : Bool) (q : Q4 α) : Q4 α :=
  let t9 : α := (gsn4 z q + ((1e-6 : α) * (if e then 1 else 0)))
  ⟨(q.w / t9), (q.x / t9), (q.y / t9), (q.z / t9)⟩
def gsn3 (z : Bool) (v : V3 α) : α :=
  let t2 : α := (if z then 1 else 0)
  let t3 : α := (t2 * 1)
  let t4 : α := (v.x + t3)
  let t5 : α := (v.y + t3)
  let t6 : α := (v.z + t3)
  ((HasSqrt.sqrt (((t4 * t4) + (t5 * t5)) + (t6 * t6))) * (1 - t2))
def gnz3 (z e : Bool) (v : V3 α) : V3 α :=
  let t8 : α := (gsn3 z v + ((1e-6 : α) * (if e then 1 else 0)))
  ⟨(v.x / t8), (v.y / t8), (v.z / t8)⟩
def cl4 (q : Q4 α) : Bool := ((iscl q.w && iscl q.x) && iscl q.y) && iscl q.z
def cl3 (v : V3 α) : Bool := (iscl v.x && iscl v.y) && iscl v.z

theorem gen_safeNorm4_eq (q : Q4 α) : Gen.safeNorm4 q = gsn4 (cl4 q) q := rfl
theorem gen_safeNorm3_eq (v : V3 α) : Gen.safeNorm3 v = gsn3 (cl3 v) v := rfl
theorem gen_normalize4_eq (q : Q4 α) :
    Gen.normalize4 q = gnz4 (cl4 q) (eqR (gsn4 (cl4 q) q) 0) q := rfl
theorem gen_normalize3_eq (v : V3 α) :
    Gen.normalize3 v = gnz3 (cl3 v) (eqR (gsn3 (cl3 v) v) 0) v := rfl
end gnDef

/-- the decision looks at the value part only -/
theorem iscl_dual (x : Dual ℝ) : iscl x = decide (|x.re| ≤ 1e-8) := by
  have hT : ((1e-8 : Dual ℝ) + (1e-5 : Dual ℝ) * absv 0).re = 1e-8 := by
    show (1e-8 : ℝ) + (1e-5 : ℝ) * (absv (0 : Dual ℝ)).re = 1e-8
    rw [absv_re]
    show (1e-8 : ℝ) + (1e-5 : ℝ) * |(0 : ℝ)| = 1e-8
    rw [abs_zero, mul_zero, add_zero]
  have hL : (absv (x - 0)).re = |x.re| := by
    rw [absv_re]; show |x.re - 0| = _; rw [sub_zero]
  have hle : (absv (x - 0) ≤ (1e-8 : Dual ℝ) + (1e-5 : Dual ℝ) * absv 0) ↔ |x.re| ≤ 1e-8 := by
    show (absv (x - 0)).re ≤ ((1e-8 : Dual ℝ) + (1e-5 : Dual ℝ) * absv 0).re ↔ _
    rw [hT, hL]
  unfold iscl
  by_cases h : |x.re| ≤ 1e-8
  · rw [decide_eq_true (hle.mpr h), Bool.or_true, decide_eq_true h]
  · rw [decide_eq_false (fun hc => h (hle.mp hc)), Bool.or_false, decide_eq_false h]
    rw [Bool.eq_false_iff]; intro hc
    have hc' : eqR x.re (0 : ℝ) = true := hc
    rw [eqR_iff] at hc'
    apply h; rw [hc']; norm_num
theorem iscl_real (x : ℝ) : iscl x = decide (|x| ≤ 1e-8) := by
  unfold iscl
  rw [absv_eq_abs, absv_eq_abs, abs_zero, mul_zero, add_zero, sub_zero]
  by_cases h : |x| ≤ 1e-8
  · rw [decide_eq_true h, Bool.or_true]
  · rw [decide_eq_false h, Bool.or_false, Bool.eq_false_iff]; intro hc
    rw [eqR_iff] at hc
    apply h; rw [hc]; norm_num

theorem cl4_dual (p : Q4 (Dual ℝ)) : cl4 p = allClose0 [p.w.re, p.x.re, p.y.re, p.z.re] := by
  simp only [cl4, iscl_dual, allClose0, List.all_cons, List.all_nil, Bool.and_true, absv_eq_abs,
    Bool.and_assoc]
theorem cl4_real (p : Q4 ℝ) : cl4 p = allClose0 [p.w, p.x, p.y, p.z] := by
  simp only [cl4, iscl_real, allClose0, List.all_cons, List.all_nil, Bool.and_true, absv_eq_abs,
    Bool.and_assoc]
theorem cl3_dual (p : V3 (Dual ℝ)) : cl3 p = allClose0 [p.x.re, p.y.re, p.z.re] := by
  simp only [cl3, iscl_dual, allClose0, List.all_cons, List.all_nil, Bool.and_true, absv_eq_abs,
    Bool.and_assoc]
theorem cl3_real (p : V3 ℝ) : cl3 p = allClose0 [p.x, p.y, p.z] := by
  simp only [cl3, iscl_real, allClose0, List.all_cons, List.all_nil, Bool.and_true, absv_eq_abs,
    Bool.and_assoc]

/-- (P), every input: the value part of the generated `safe_norm`/`normalize` at `Dual ℝ` is the
generated function at ℝ -/
theorem gsn4_re (z : Bool) (p : Q4 (Dual ℝ)) : (gsn4 z p).re = gsn4 z (reQ4 p) := by
  cases z <;> rfl
theorem gsn3_re (z : Bool) (p : V3 (Dual ℝ)) : (gsn3 z p).re = gsn3 z (reV3 p) := by
  cases z <;> rfl
theorem re_gen_safeNorm4 (p : Q4 (Dual ℝ)) : (Gen.safeNorm4 p).re = Gen.safeNorm4 (reQ4 p) := by
  rw [gen_safeNorm4_eq, gen_safeNorm4_eq, gsn4_re, cl4_dual, cl4_real]; rfl
theorem re_gen_safeNorm3 (p : V3 (Dual ℝ)) : (Gen.safeNorm3 p).re = Gen.safeNorm3 (reV3 p) := by
  rw [gen_safeNorm3_eq, gen_safeNorm3_eq, gsn3_re, cl3_dual, cl3_real]; rfl
theorem reQ4_gen_normalize4 (p : Q4 (Dual ℝ)) :
    reQ4 (Gen.normalize4 p) = Gen.normalize4 (reQ4 p) := by
  rw [gen_normalize4_eq, gen_normalize4_eq]
  have hz : cl4 p = cl4 (reQ4 p) := by rw [cl4_dual, cl4_real]; rfl
  have he : eqR (gsn4 (cl4 p) p) 0 = eqR (gsn4 (cl4 (reQ4 p)) (reQ4 p)) 0 := by
    rw [← hz, ← gsn4_re]; rfl
  rw [← he, ← hz]
  have : ∀ z e, reQ4 (gnz4 z e p) = gnz4 z e (reQ4 p) := by
    intro z e
    cases z <;> cases e <;> rfl
  exact this _ _
theorem reV3_gen_normalize3 (p : V3 (Dual ℝ)) :
    reV3 (Gen.normalize3 p) = Gen.normalize3 (reV3 p) := by
  rw [gen_normalize3_eq, gen_normalize3_eq]
  have hz : cl3 p = cl3 (reV3 p) := by rw [cl3_dual, cl3_real]; rfl
  have he : eqR (gsn3 (cl3 p) p) 0 = eqR (gsn3 (cl3 (reV3 p)) (reV3 p)) 0 := by
    rw [← hz, ← gsn3_re]; rfl
  rw [← he, ← hz]
  have : ∀ z e, reV3 (gnz3 z e p) = gnz3 z e (reV3 p) := by
    intro z e
    cases z <;> cases e <;> rfl
  exact this _ _

theorem gsn4_false_re (p : Q4 (Dual ℝ)) : (gsn4 false p).re
    = Real.sqrt (p.w.re * p.w.re + p.x.re * p.x.re + p.y.re * p.y.re + p.z.re * p.z.re) := by
  show Real.sqrt ((p.w.re + 0 * 1) * (p.w.re + 0 * 1) + (p.x.re + 0 * 1) * (p.x.re + 0 * 1)
    + (p.y.re + 0 * 1) * (p.y.re + 0 * 1) + (p.z.re + 0 * 1) * (p.z.re + 0 * 1)) * ((1 : ℝ) - 0) = _
  simp only [zero_mul, add_zero, sub_zero, mul_one]
theorem gsn3_false_re (p : V3 (Dual ℝ)) : (gsn3 false p).re
    = Real.sqrt (p.x.re * p.x.re + p.y.re * p.y.re + p.z.re * p.z.re) := by
  show Real.sqrt ((p.x.re + 0 * 1) * (p.x.re + 0 * 1) + (p.y.re + 0 * 1) * (p.y.re + 0 * 1)
    + (p.z.re + 0 * 1) * (p.z.re + 0 * 1)) * ((1 : ℝ) - 0) = _
  simp only [zero_mul, add_zero, sub_zero, mul_one]

/-- the smooth branch of the generated `safe_norm`: sound where `Σ xᵢ² > 0` -/
theorem Sound.gsn4_false {q : ℝ → Q4 (Dual ℝ)} (hq : SoundQ4 q t)
    (hpos : 0 < (q t).w.re * (q t).w.re + (q t).x.re * (q t).x.re + (q t).y.re * (q t).y.re
      + (q t).z.re * (q t).z.re) :
    Sound (fun u => gsn4 false (q u)) t := by
  obtain ⟨h0, h1, h2, h3⟩ := hq
  have hS : Sound (fun u => (((((q u).w + (0 : Dual ℝ) * 1) * ((q u).w + 0 * 1))
      + (((q u).x + 0 * 1) * ((q u).x + 0 * 1))) + (((q u).y + 0 * 1) * ((q u).y + 0 * 1)))
      + (((q u).z + 0 * 1) * ((q u).z + 0 * 1))) t := by sound
  have hSpos : 0 < ((((((q t).w + (0 : Dual ℝ) * 1) * ((q t).w + 0 * 1))
      + (((q t).x + 0 * 1) * ((q t).x + 0 * 1))) + (((q t).y + 0 * 1) * ((q t).y + 0 * 1)))
      + (((q t).z + 0 * 1) * ((q t).z + 0 * 1))).re := by
    simp only [Sound.add_re, Sound.mul_re, Sound.zero_re, Sound.one_re, zero_mul, add_zero]
    exact hpos
  exact Sound.mul (Sound.sqrt hS hSpos) (Sound.sub Sound.one Sound.zero)

theorem Sound.gsn3_false {v : ℝ → V3 (Dual ℝ)} (hv : SoundV3 v t)
    (hpos : 0 < (v t).x.re * (v t).x.re + (v t).y.re * (v t).y.re + (v t).z.re * (v t).z.re) :
    Sound (fun u => gsn3 false (v u)) t := by
  obtain ⟨h1, h2, h3⟩ := hv
  have hS : Sound (fun u => ((((v u).x + (0 : Dual ℝ) * 1) * ((v u).x + 0 * 1))
      + (((v u).y + 0 * 1) * ((v u).y + 0 * 1))) + (((v u).z + 0 * 1) * ((v u).z + 0 * 1))) t := by
    sound
  have hSpos : 0 < (((((v t).x + (0 : Dual ℝ) * 1) * ((v t).x + 0 * 1))
      + (((v t).y + 0 * 1) * ((v t).y + 0 * 1))) + (((v t).z + 0 * 1) * ((v t).z + 0 * 1))).re := by
    simp only [Sound.add_re, Sound.mul_re, Sound.zero_re, Sound.one_re, zero_mul, add_zero]
    exact hpos
  exact Sound.mul (Sound.sqrt hS hSpos) (Sound.sub Sound.one Sound.zero)

theorem sumsq4_pos {a b c d : ℝ} (h : allClose0 [a, b, c, d] = false) :
    0 < a * a + b * b + c * c + d * d := by
  have := sumsq_pos_of_not_allClose0 _ h
  simp only [List.foldl] at this
  linarith
theorem sumsq3_pos {a b c : ℝ} (h : allClose0 [a, b, c] = false) : 0 < a * a + b * b + c * c := by
  have := sumsq_pos_of_not_allClose0 _ h
  simp only [List.foldl] at this
  linarith

theorem eqR_dual_pos (a : Dual ℝ) (h : 0 < a.re) : eqR a 0 = false := by
  rw [Bool.eq_false_iff]; intro hc
  have hc' : eqR a.re (0 : ℝ) = true := hc
  rw [eqR_iff] at hc'
  exact (ne_of_gt h) hc'

/-- away from the ball the generated `normalize` takes the smooth branch in both `where`s (pointwise) -/
theorem gen_normalize4_dual_of_guard (p : Q4 (Dual ℝ))
    (h : allClose0 [p.w.re, p.x.re, p.y.re, p.z.re] = false) :
    Gen.normalize4 p = gnz4 false false p := by
  rw [gen_normalize4_eq, cl4_dual, h, eqR_dual_pos]
  rw [gsn4_false_re]; exact Real.sqrt_pos.mpr (sumsq4_pos h)
theorem gen_normalize3_dual_of_guard (p : V3 (Dual ℝ))
    (h : allClose0 [p.x.re, p.y.re, p.z.re] = false) :
    Gen.normalize3 p = gnz3 false false p := by
  rw [gen_normalize3_eq, cl3_dual, h, eqR_dual_pos]
  rw [gsn3_false_re]; exact Real.sqrt_pos.mpr (sumsq3_pos h)

theorem eventually_guard4 {q : ℝ → Q4 (Dual ℝ)} (hq : SoundQ4 q t)
    (hg : allClose0 [(q t).w.re, (q t).x.re, (q t).y.re, (q t).z.re] = false) :
    ∀ᶠ u in 𝓝 t, allClose0 [(q u).w.re, (q u).x.re, (q u).y.re, (q u).z.re] = false :=
  eventually_not_allClose0 (t := t)
    [fun u => (q u).w.re, fun u => (q u).x.re, fun u => (q u).y.re, fun u => (q u).z.re]
    (by
      intro f hf
      simp only [List.mem_cons, List.mem_nil_iff, or_false] at hf
      rcases hf with rfl | rfl | rfl | rfl
      exacts [hq.1.continuousAt, hq.2.1.continuousAt, hq.2.2.1.continuousAt, hq.2.2.2.continuousAt])
    hg
theorem eventually_guard3 {v : ℝ → V3 (Dual ℝ)} (hv : SoundV3 v t)
    (hg : allClose0 [(v t).x.re, (v t).y.re, (v t).z.re] = false) :
    ∀ᶠ u in 𝓝 t, allClose0 [(v u).x.re, (v u).y.re, (v u).z.re] = false :=
  eventually_not_allClose0 (t := t)
    [fun u => (v u).x.re, fun u => (v u).y.re, fun u => (v u).z.re]
    (by
      intro f hf
      simp only [List.mem_cons, List.mem_nil_iff, or_false] at hf
      rcases hf with rfl | rfl | rfl
      exacts [hv.1.continuousAt, hv.2.1.continuousAt, hv.2.2.continuousAt])
    hg

/-- **`Gen.safeNorm4`** (generated `where`-arithmetic form `sqrt(Σ(xᵢ+z)²)·(1−z)`): sound off the
`allclose` ball -/
theorem Sound.gen_safeNorm4 {q : ℝ → Q4 (Dual ℝ)} (hq : SoundQ4 q t)
    (hg : allClose0 [(q t).w.re, (q t).x.re, (q t).y.re, (q t).z.re] = false) :
    Sound (fun u => Gen.safeNorm4 (q u)) t := by
  refine Sound.congr_of_eventuallyEq (Sound.gsn4_false hq (sumsq4_pos hg)) ?_
  refine (eventually_guard4 hq hg).mono fun u hu => ?_
  rw [gen_safeNorm4_eq, cl4_dual, hu]
theorem Sound.gen_safeNorm3 {v : ℝ → V3 (Dual ℝ)} (hv : SoundV3 v t)
    (hg : allClose0 [(v t).x.re, (v t).y.re, (v t).z.re] = false) :
    Sound (fun u => Gen.safeNorm3 (v u)) t := by
  refine Sound.congr_of_eventuallyEq (Sound.gsn3_false hv (sumsq3_pos hg)) ?_
  refine (eventually_guard3 hv hg).mono fun u hu => ?_
  rw [gen_safeNorm3_eq, cl3_dual, hu]

/-- **`Gen.normalize4`** (generated form `x / (n + 1e-6·[n == 0])`): sound off the `allclose` ball -/
theorem SoundQ4.gen_normalize4 {q : ℝ → Q4 (Dual ℝ)} (hq : SoundQ4 q t)
    (hg : allClose0 [(q t).w.re, (q t).x.re, (q t).y.re, (q t).z.re] = false) :
    SoundQ4 (fun u => Gen.normalize4 (q u)) t := by
  have hn := Sound.gsn4_false hq (sumsq4_pos hg)
  have h9 : Sound (fun u => gsn4 false (q u) + (1e-6 : Dual ℝ) * 0) t :=
    hn.add ((Sound.ofSci 1 true 6).mul Sound.zero)
  have hne : (gsn4 false (q t) + (1e-6 : Dual ℝ) * 0).re ≠ 0 := by
    show (gsn4 false (q t)).re + (1e-6 : ℝ) * 0 ≠ 0
    rw [mul_zero, add_zero, gsn4_false_re]
    exact ne_of_gt (Real.sqrt_pos.mpr (sumsq4_pos hg))
  have hsm : SoundQ4 (fun u => gnz4 false false (q u)) t :=
    ⟨Sound.div hq.1 h9 hne, Sound.div hq.2.1 h9 hne, Sound.div hq.2.2.1 h9 hne,
     Sound.div hq.2.2.2 h9 hne⟩
  exact SoundQ4.congr hsm
    ((eventually_guard4 hq hg).mono fun u hu => gen_normalize4_dual_of_guard (q u) hu)

/-- **`Gen.normalize3`**, same guard -/
theorem SoundV3.gen_normalize3 {v : ℝ → V3 (Dual ℝ)} (hv : SoundV3 v t)
    (hg : allClose0 [(v t).x.re, (v t).y.re, (v t).z.re] = false) :
    SoundV3 (fun u => Gen.normalize3 (v u)) t := by
  have hn := Sound.gsn3_false hv (sumsq3_pos hg)
  have h9 : Sound (fun u => gsn3 false (v u) + (1e-6 : Dual ℝ) * 0) t :=
    hn.add ((Sound.ofSci 1 true 6).mul Sound.zero)
  have hne : (gsn3 false (v t) + (1e-6 : Dual ℝ) * 0).re ≠ 0 := by
    show (gsn3 false (v t)).re + (1e-6 : ℝ) * 0 ≠ 0
    rw [mul_zero, add_zero, gsn3_false_re]
    exact ne_of_gt (Real.sqrt_pos.mpr (sumsq3_pos hg))
  have hsm : SoundV3 (fun u => gnz3 false false (v u)) t :=
    ⟨Sound.div hv.1 h9 hne, Sound.div hv.2.1 h9 hne, Sound.div hv.2.2 h9 hne⟩
  exact SoundV3.congr hsm
    ((eventually_guard3 hv hg).mono fun u hu => gen_normalize3_dual_of_guard (v u) hu)

/-- **`Gen.normalize4/3`: the tangent of the dual run is the derivative of the real run** -/
theorem gen_normalize4_deriv {q : ℝ → Q4 (Dual ℝ)} (hq : SoundQ4 q t)
    (hg : allClose0 [(q t).w.re, (q t).x.re, (q t).y.re, (q t).z.re] = false) :
    DerivQ4 (fun u => Gen.normalize4 (reQ4 (q u))) (duQ4 (Gen.normalize4 (q t))) t := by
  have h := (SoundQ4.gen_normalize4 hq hg).deriv
  simp only [reQ4_gen_normalize4] at h
  exact h
theorem gen_normalize3_deriv {v : ℝ → V3 (Dual ℝ)} (hv : SoundV3 v t)
    (hg : allClose0 [(v t).x.re, (v t).y.re, (v t).z.re] = false) :
    DerivV3 (fun u => Gen.normalize3 (reV3 (v u))) (duV3 (Gen.normalize3 (v t))) t := by
  have h := (SoundV3.gen_normalize3 hv hg).deriv
  simp only [reV3_gen_normalize3] at h
  exact h

end gen3

/-! ## the slide guard is necessary -/

/-- the `w` component of the joint rotation of a slide dof (rotation axis `0`) -/
noncomputable def slideW (q : ℝ) : ℝ := (normalize4 (quatRotAxis (⟨0, 0, 0⟩ : V3 ℝ) q)).w

theorem slideW_of_big (q : ℝ) (h : 1e-8 < Real.cos (q / 2)) : slideW q = 1 := by
  unfold slideW; rw [normalize4_quatRotAxis_zero q h]; rfl

theorem slideW_at (q : ℝ) (h : Real.cos (q / 2) = 1e-8) : slideW q = 1e-2 := by
  have h2 : (1 + 1 : ℝ) = 2 := by norm_num
  have hq : quatRotAxis (⟨0, 0, 0⟩ : V3 ℝ) q = ⟨1e-8, 0, 0, 0⟩ := by
    simp only [quatRotAxis, HasTrig.sin, HasTrig.cos, h2, zero_mul, h]
  have hc : allClose0 [(1e-8 : ℝ), 0, 0, 0] = true := by
    rw [allClose0_iff]; intro x hx
    simp only [List.mem_cons, List.mem_nil_iff, or_false] at hx
    rcases hx with rfl | rfl | rfl | rfl <;> norm_num
  have hn : safeNorm4 (⟨1e-8, 0, 0, 0⟩ : Q4 ℝ) = 0 := by
    simp only [safeNorm4, safeNormL, hc, if_true]
  have e0 : eqZero (0 : ℝ) = true := (eqZero_iff _).mpr rfl
  unfold slideW
  rw [hq]
  simp only [normalize4, hn, e0, if_true]
  norm_num

/-- **the slide guard is necessary**: there is a slide coordinate `q₀` with `cos(q₀/2) = 1e-8` at which
the joint rotation computed by `jcalc` is discontinuous — so `Kin.forward` has no derivative there -/
theorem slide_guard_needed : ∃ q0 : ℝ, Real.cos (q0 / 2) = 1e-8 ∧ ¬ ContinuousAt slideW q0 := by
  have hr : (1e-8 : ℝ) ∈ Set.Icc (-1 : ℝ) 1 := ⟨by norm_num, by norm_num⟩
  refine ⟨2 * Real.arccos 1e-8, ?_, ?_⟩
  · rw [mul_div_cancel_left₀ _ (by norm_num : (2 : ℝ) ≠ 0), Real.cos_arccos hr.1 hr.2]
  · intro hcont
    set a := Real.arccos 1e-8 with ha
    have hapos : 0 < a := Real.arccos_pos.mpr (by norm_num)
    have hval : slideW (2 * a) = 1e-2 :=
      slideW_at _ (by rw [mul_div_cancel_left₀ _ (by norm_num : (2 : ℝ) ≠ 0), Real.cos_arccos hr.1 hr.2])
    have hlt : ∀ᶠ u in 𝓝 (2 * a), slideW u < 1 / 2 := by
      have : slideW (2 * a) < 1 / 2 := by rw [hval]; norm_num
      exact hcont.eventually_lt continuousAt_const this
    have hleft : ∀ᶠ u in 𝓝[<] (2 * a), slideW u = 1 := by
      have hmem : Set.Ioo 0 (2 * a) ∈ 𝓝[<] (2 * a) := Ioo_mem_nhdsLT (by linarith)
      filter_upwards [hmem] with u hu
      apply slideW_of_big
      have hu2 : u / 2 < a := by linarith [hu.2]
      have hu0 : 0 ≤ u / 2 := by linarith [hu.1]
      have hle : a ≤ Real.pi := Real.arccos_le_pi _
      have := Real.cos_lt_cos_of_nonneg_of_le_pi hu0 hle hu2
      rw [ha, Real.cos_arccos hr.1 hr.2] at this
      exact this
    have hboth := (hlt.filter_mono nhdsWithin_le_nhds).and hleft
    obtain ⟨u, h1, h2⟩ := hboth.exists
    rw [h2] at h1; norm_num at h1

/-- `slideW` is what `jcalc` computes for a dof with zero rotation axis -/
theorem jcalcDof_slide_rot_w (d : DofP ℝ) (h : d.motion.ang = ⟨0, 0, 0⟩) (q qd : ℝ) :
    (Kin.jcalcDof d q qd).1.rot.w = slideW q := by
  unfold slideW
  show (normalize4 (quatRotAxis d.motion.ang q)).w = _
  rw [h]

end Brax.C03
