import Brax.Model.C02
import Brax.Spec.C02
import Brax.Lemmas.Algebra
import Mathlib.Tactic.Ring
import Mathlib.Tactic.Linarith
/-!
# Helper lemmas for `Props/C02.lean`
-/
set_option linter.unusedSectionVars false
set_option linter.unusedSimpArgs false
namespace Brax.Gd
open Brax Kin

/-! ## mass matrix: entry-level symmetry (no algebra needed: holds for raw operators) -/
section raw
variable {α : Type} [Zero α] [One α] [Add α] [Sub α] [Mul α]

theorem massEntry_symm (ps : List Int) (crbs : List (Inertia α)) (cdof : List (List (Motion α)))
    (arm : List (List α)) (l r a s : Nat) :
    massEntry ps crbs cdof arm l r a s = massEntry ps crbs cdof arm a s l r := by
  unfold massEntry
  simp only
  by_cases h1 : a = l
  · subst h1
    by_cases h2 : s = r
    · subst h2; rfl
    · have h2' : ¬ r = s := fun h => h2 h.symm
      rcases Nat.lt_or_gt_of_ne h2 with g | g
      · have g1 : s ≤ r := Nat.le_of_lt g
        have g2 : ¬ r ≤ s := Nat.not_le.mpr g
        simp [h2, h2', g1, g2]
      · have g1 : r ≤ s := Nat.le_of_lt g
        have g2 : ¬ s ≤ r := Nat.not_le.mpr g
        simp [h2, h2', g1, g2]
  · have h1' : ¬ l = a := fun h => h1 h.symm
    rcases Nat.lt_or_gt_of_ne h1 with g | g
    · have g2 : ¬ l < a := Nat.not_lt.mpr (Nat.le_of_lt g)
      simp [h1, h1', g, g2]
    · have g2 : ¬ a < l := Nat.not_lt.mpr (Nat.le_of_lt g)
      simp [h1, h1', g, g2]

/-- entry `(i, j)` of a matrix given as a list of rows (0 outside) -/
def entry (m : List (List α)) (i j : Nat) : α := (m.getD i []).getD j 0

theorem entry_map_map {β : Type} (idx : List β) (f : β → β → α) (i j : Nat) :
    entry (idx.map fun x => idx.map fun y => f x y) i j
      = match idx[i]?, idx[j]? with
        | some x, some y => f x y
        | _, _ => 0 := by
  unfold entry
  rcases hi : idx[i]? with _ | x
  · simp [List.getD_eq_getElem?_getD, hi]
  · rcases hj : idx[j]? with _ | y
    · simp [List.getD_eq_getElem?_getD, hi, hj]
    · simp [List.getD_eq_getElem?_getD, hi, hj]

end raw
end Brax.Gd
