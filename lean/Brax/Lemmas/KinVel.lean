import Brax.Lemmas.KinPos
/-!
# Velocities of links attached by a free joint or a single hinge/slide joint
Helper lemmas for `Props/C01.lean` (velocity clause).
-/
set_option linter.unusedSectionVars false
set_option linter.unusedSimpArgs false
namespace Brax.KinVel
open Brax Kin KinPos

/-- componentwise scaling on the right, as `jp.multiply(v, q)` / `motion * qd` -/
def V3.mulr (v : V3 ℝ) (c : ℝ) : V3 ℝ := ⟨v.x * c, v.y * c, v.z * c⟩

theorem rotate_mulr (v : V3 ℝ) (c : ℝ) (q : Q4 ℝ) : rotate (V3.mulr v c) q = V3.mulr (rotate v q) c := by
  simp only [V3.mulr, rotate, V3.dot, V3.cross, Q4.vec]; congr 1 <;> ring

/-- a rotation about a unit axis fixes that axis -/
theorem rotate_axis_quatRotAxis (a : V3 ℝ) (θ : ℝ) (ha : V3.dot a a = 1) :
    rotate a (quatRotAxis a θ) = a := by
  simp only [V3.dot] at ha
  have hcs := Real.sin_sq_add_cos_sq (θ / (1 + 1))
  simp only [rotate, quatRotAxis, HasTrig.sin, HasTrig.cos, V3.dot, V3.cross, Q4.vec]
  set c := Real.cos (θ / (1 + 1))
  set s := Real.sin (θ / (1 + 1))
  apply V3.ext' <;> simp only
  · linear_combination (s * s * a.x) * ha + a.x * hcs
  · linear_combination (s * s * a.y) * ha + a.y * hcs
  · linear_combination (s * s * a.z) * ha + a.z * hcs

theorem cross_zero_right (v : V3 ℝ) : V3.cross v V3.zero = V3.zero := by
  simp [V3.cross, V3.zero]
theorem mulr_zero_left (c : ℝ) : V3.mulr (⟨0, 0, 0⟩ : V3 ℝ) c = V3.zero := by
  simp [V3.mulr, V3.zero]


/-- link eligible for the velocity clause of C01: free, or exactly one dof which is a slide, or a
hinge anchored at the link origin -/
def VelElig (lk : LinkP ℝ) (l : LinkIn ℝ) : Prop :=
  l.typ = .free ∨ (l.typ = .one ∧ ∃ d q qd, l.dofs = [d] ∧ l.q = [q] ∧ l.qd = [qd] ∧
    (IsSlide d q ∨ (IsHinge d ∧ lk.joint.pos = V3.zero)))

theorem jcalc_one (l : LinkIn ℝ) (d : DofP ℝ) (q qd : ℝ) (ht : l.typ = .one) (hd : l.dofs = [d])
    (hq : l.q = [q]) (hqd : l.qd = [qd]) :
    jcalc l = (dofTf d q, ⟨V3.mulr d.motion.ang qd, V3.mulr d.motion.vel qd⟩) := by
  unfold jcalc; rw [ht]; simp only [hd, hq, hqd, List.zip_cons_cons, List.zip_nil_right, List.map_cons,
    List.map_nil, List.foldl]; rfl

/-- MuJoCo-side velocity of a one-joint body, unfolded -/
theorem bodyPoseVel_one (parent : Option (Tf ℝ × Motion ℝ)) (lk : LinkP ℝ) (l : LinkIn ℝ)
    (d : DofP ℝ) (q qd : ℝ) (ht : l.typ = .one) (hd : l.dofs = [d]) (hq : l.q = [q])
    (hqd : l.qd = [qd]) :
    Mj.bodyPoseVel parent lk l =
      let pose := Mj.bodyPose (parent.map Prod.fst) lk l
      let start := startPose (parent.map Prod.fst) lk
      let st := Mj.applyJointVel lk.joint.pos ⟨start, V3.zero, V3.zero, []⟩ (d, q, qd)
      let base : Motion ℝ := match parent with
        | none => Motion.zero
        | some p => ⟨p.2.ang, p.2.vel + V3.cross p.2.ang (pose.pos - p.1.pos)⟩
      (pose, ⟨base.ang + st.ang,
        base.vel + st.lin + st.hinges.foldl (fun acc h => acc + V3.cross h.2 (pose.pos - h.1)) V3.zero⟩) := by
  unfold Mj.bodyPoseVel startPose
  rw [ht]
  simp only [hd, hq, hqd, List.zip_cons_cons, List.zip_nil_right, List.foldl]
  cases parent <;> rfl


theorem stackPose_hinge_pos (start : Tf ℝ) (r : Q4 ℝ) :
    (stackPose start V3.zero ⟨V3.zero, r⟩).pos = start.pos := by
  simp only [stackPose, Tf.doTf, rotate_zero, V3.add_zero', V3.sub_self']

theorem stackPose_rot (start : Tf ℝ) (a : V3 ℝ) (J : Tf ℝ) :
    (stackPose start a J).rot = quatMul start.rot J.rot := rfl

/-- **one eligible link, velocities**: given the same parent pose *and* velocity, brax's world
motion of a link attached by a free joint, a single slide, or a single hinge anchored at the
link origin equals the rigid-body velocity recursion of the reference engine -/
theorem link_vel_eq (p : Int) (par par' : Option (Tf ℝ × Motion ℝ)) (lk : LinkP ℝ) (l : LinkIn ℝ)
    (hpar : OptRel (fun (x y : Tf ℝ × Motion ℝ) => x = y ∧ y.1.rot.IsUnit) par par')
    (hok : LinkOK p lk l) (hroot : p < 0 → par = none) (hel : VelElig lk l)
    (hpose : (world par (linkArg (lk, l))).1 = Mj.bodyPose (par'.map Prod.fst) lk l) :
    (world par (linkArg (lk, l))).2 = (Mj.bodyPoseVel par' lk l).2 := by
  rcases hel with hfree | ⟨hone, d, q, qd, hd, hq, hqd, hkind⟩
  · -- free root
    obtain ⟨hp, htf, hjp, hqdl, p0, p1, p2, r0, r1, r2, r3, hq, hu⟩ := hok.free hfree
    have hnone := hroot hp
    subst hnone
    cases hpar
    obtain ⟨v0, v1, v2, w0, w1, w2, hqd'⟩ : ∃ v0 v1 v2 w0 w1 w2, l.qd = [v0, v1, v2, w0, w1, w2] := by
      match hm : l.qd, hqdl with
      | [a, b, c, d, e, f], _ => exact ⟨a, b, c, d, e, f, rfl⟩
    have hj : jcalc l = (⟨⟨p0, p1, p2⟩, ⟨r0, r1, r2, r3⟩⟩, ⟨⟨w0, w1, w2⟩, ⟨v0, v1, v2⟩⟩) := by
      unfold jcalc; rw [hfree]; simp only [hq, hqd']
    have hv : Mj.bodyPoseVel none lk l
        = (Mj.bodyPose none lk l, ⟨rotate ⟨w0, w1, w2⟩ (Mj.bodyPose none lk l).rot, ⟨v0, v1, v2⟩⟩) := by
      unfold Mj.bodyPoseVel; rw [hfree]; simp only [hqd', Option.map_none]
    rw [hv]
    simp only [Option.map_none] at hpose
    rw [← hpose]
    simp only [world, linkArg, hj, htf, Tf.id, rotate_one]
  · have hnf : l.typ ≠ .free := by rw [hone]; decide
    have hj := jcalc_one l d q qd hone hd hq hqd
    have hv := bodyPoseVel_one par' lk l d q qd hone hd hq hqd
    rw [hv]
    simp only
    rw [← hpose]
    -- brax side pose
    have hx1 : (linkArg (lk, l)).1 = stackPose lk.tf lk.joint.pos (dofTf d q) := by
      simp only [linkArg, hj, placeJoint_eq lk _ hok.jointRot]
    rcases hkind with hsl | ⟨hh, ha⟩
    · -- slide
      have he := dofTf_slide hsl
      have hnz : Mj.v3IsZero d.motion.vel = false := by
        rw [Bool.eq_false_iff]; intro hc
        rw [v3IsZero_iff] at hc
        have := hsl.2.1
        rw [hc] at this; simp [V3.dot] at this
      have hang0 : d.motion.ang = ⟨0, 0, 0⟩ := hsl.1
      cases hpar with
      | none =>
        simp only [world, linkArg, hj, Mj.applyJointVel, hnz, Bool.false_eq_true, if_false,
          Option.map_none, startPose, Motion.zero, List.foldl, hang0, mulr_zero_left, rotate_zero,
          V3.zero_add', V3.add_zero']
        congr 1
        exact rotate_mulr _ _ _
      | @some a b hab =>
        obtain ⟨hab1, hab2⟩ := hab
        subst hab1
        simp only [world, linkArg, hj, Mj.applyJointVel, hnz, Bool.false_eq_true, if_false,
          Option.map_some, startPose, List.foldl, hang0, mulr_zero_left, rotate_zero,
          V3.zero_add', V3.add_zero', Tf.doTf, rotate_quatMul]
        congr 1
        rw [rotate_mulr, rotate_mulr]; rfl
    · -- hinge at the link origin
      obtain ⟨he, hur⟩ := dofTf_hinge hh q
      have hz : Mj.v3IsZero d.motion.vel = true := (v3IsZero_iff _).mpr hh.1
      have hvel0 : d.motion.vel = ⟨0, 0, 0⟩ := hh.1
      have hfix := rotate_axis_quatRotAxis d.motion.ang q hh.2
      have hz0 : Mj.v3IsZero (⟨0, 0, 0⟩ : V3 ℝ) = true := (v3IsZero_iff _).mpr rfl
      cases hpar with
      | none =>
        simp only [world, linkArg, hj, Mj.applyJointVel, hz, hz0, if_true, he,
          Option.map_none, startPose, Motion.zero, List.foldl, List.nil_append, hvel0, mulr_zero_left,
          rotate_zero, V3.zero_add', V3.add_zero', placeJoint_eq lk _ hok.jointRot, stackPose_rot,
          rotate_quatMul, rotate_mulr, hfix, ha]
        simp only [stackPose_hinge_pos, V3.sub_self', cross_zero_right, V3.add_zero']
        rfl
      | @some a b hab =>
        obtain ⟨hab1, hab2⟩ := hab
        subst hab1
        simp only [world, linkArg, hj, Mj.applyJointVel, hz, hz0, if_true, he,
          Option.map_some, startPose, List.foldl, List.nil_append, hvel0, mulr_zero_left,
          rotate_zero, V3.zero_add', V3.add_zero', placeJoint_eq lk _ hok.jointRot, stackPose_rot,
          rotate_quatMul, rotate_mulr, hfix, ha, Tf.doTf, quatMul_assoc]
        simp only [stackPose_hinge_pos, V3.sub_self', cross_zero_right, V3.add_zero']
        rfl


theorem bodyPoseVel_fst (parent : Option (Tf ℝ × Motion ℝ)) (lk : LinkP ℝ) (l : LinkIn ℝ) :
    (Mj.bodyPoseVel parent lk l).1 = Mj.bodyPose (parent.map Prod.fst) lk l := by
  unfold Mj.bodyPoseVel
  cases l.typ
  · simp only
    split <;> rfl
  all_goals rfl

theorem zip_rel_same (ps : List Int) (bs : List (LinkP ℝ × LinkIn ℝ))
    (hok : ∀ x ∈ ps.zip bs, LinkOK x.1 x.2.1 x.2.2) :
    List.Forall₂ (fun (x : Int × (Tf ℝ × Motion ℝ)) (y : Int × (LinkP ℝ × LinkIn ℝ)) =>
        x.1 = y.1 ∧ (x.2 = linkArg y.2 ∧ LinkOK x.1 y.2.1 y.2.2))
      (ps.zip (bs.map linkArg)) (ps.zip bs) := by
  induction ps generalizing bs with
  | nil => simp
  | cons p ps ih =>
    cases bs with
    | nil => simp
    | cons b bs =>
      simp only [List.zip_cons_cons, List.map_cons]
      refine List.Forall₂.cons ⟨rfl, rfl, hok (p, b) (by simp)⟩ (ih bs ?_)
      intro x hx; exact hok x (by simp [hx])

theorem zip_refl {γ : Type} (ps : List Int) (bs : List γ) :
    List.Forall₂ (fun (x y : Int × γ) => x.1 = y.1 ∧ x.2 = y.2) (ps.zip bs) (ps.zip bs) := by
  induction (ps.zip bs) with
  | nil => exact List.Forall₂.nil
  | cons x xs ih => exact List.Forall₂.cons ⟨rfl, rfl⟩ ih

/-- reference pose and velocity of a body together with the flag "this link and all its
ancestors are eligible for the velocity clause" -/
noncomputable def specStep (par' : Option ((Tf ℝ × Motion ℝ) × Prop)) (a : LinkP ℝ × LinkIn ℝ) :
    (Tf ℝ × Motion ℝ) × Prop :=
  (Mj.bodyPoseVel (par'.map Prod.fst) a.1 a.2,
   (match par' with | none => True | some y => y.2) ∧ VelElig a.1 a.2)

/-- `Mj.kinematicsVel` with the eligibility flag carried along the tree -/
noncomputable def kinematicsVelFlag (s : Sys ℝ) (q qd : List ℝ) : List ((Tf ℝ × Motion ℝ) × Prop) :=
  scanFwd specStep s.parents (s.links.zip (linkSlices s.types q qd s.dofs))

end Brax.KinVel
