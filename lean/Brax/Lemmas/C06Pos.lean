import Brax.Lemmas.C06Spring
import Mathlib.Tactic.NormNum.OfScientific
import Mathlib.Tactic.GCongr
/-!
# C06 helper lemmas, part 3: the positional pipeline (`Brax/Model/Positional.lean`)

* `clip` inactive: inside the range `limit_angle` computes what it computes with `(-inf, inf)`;
  `_sphericalize` freezes the padded axes in both paths; hence `_three_dof_joint_update` on the
  sphericalized link is the same with `dof.limit` as with `dof.limit = None`;
* `coll_mask = false ⇒ dp = 0`, `dlambda·coll_mask = 0`; separated contacts leave
  `resolve_position` equal to the contact-free early return and `resolve_velocity` at zero;
* push-only: `dlambda > 0` for `c < 0`, first body along `+n`, second along `−n`;
* unit quaternions: `math.normalize` outside the `allclose` ball, `integrate_xdd`;
* restitution algebra of `resolve_velocity`.
-/
set_option linter.unusedSectionVars false
set_option linter.unusedSimpArgs false
set_option linter.unusedVariables false
namespace Brax.C06L
open Brax MC C04L C06

section joints
variable {K : Type} [Field K] [LinearOrder K] [IsStrictOrderedRing K] [HasSqrt K] [HasTrig K]

theorem clipO_inRange {x : K} {lo hi : Option K} (h : InRange x lo hi) : clipO x lo hi = x := by
  obtain ⟨h1, h2⟩ := h
  unfold clipO
  cases lo with
  | none =>
    cases hi with
    | none => rfl
    | some u => simp only []; rw [if_neg (not_lt.mpr (h2 u rfl))]
  | some l =>
    cases hi with
    | none => simp only []; rw [if_neg (not_lt.mpr (h1 l rfl))]
    | some u => simp only []; rw [if_neg (not_lt.mpr (h1 l rfl)), if_neg (not_lt.mpr (h2 u rfl))]

theorem clipO_none (x : K) : clipO x none none = x := rfl

/-- the hypothesis under which the limit of one (sphericalized) axis is not reached: a prismatic
axis reads the joint offset along the axis, a rotational axis the measured joint angle -/
def AxisInside (xpos n n1 n2 : V3 K) (a : Positional.Axis3 K) : Prop :=
  if v3Any a.motion.vel then InRange (V3.dot a.motion.vel xpos) a.lo a.hi
  else InRange (signedAngle n n1 n2) a.lo a.hi

/-- **`clip` inactive**: inside the range `limit_angle` computes exactly what it computes with the
limits `(-inf, inf)` -/
theorem limitAngle_inert (xpos n n1 n2 : V3 K) (a : Positional.Axis3 K)
    (h : AxisInside xpos n n1 n2 a) :
    Positional.limitAngle xpos n n1 n2 a = Positional.limitAngle xpos n n1 n2 ⟨none, none, a.motion⟩ := by
  unfold AxisInside at h
  unfold Positional.limitAngle
  by_cases hv : v3Any a.motion.vel = true
  · rw [if_pos hv] at h
    simp only [hv, if_true, clipO_inRange h, clipO_none]
  · rw [if_neg hv] at h
    have hF : v3Any a.motion.vel = false := by simpa using hv
    simp only [hF, Bool.false_eq_true, if_false, clipO_inRange h, clipO_none, maskV_false]

/-- the three `(n, n_1, n_2)` triples over which `_three_dof_joint_update` vmaps `limit_angle`
(`limit_axes[k]`, `ref_axis_1[k]`, `ref_axis_2[k]`), written exactly as in the model -/
def limitTriple (x : Tf K) (fr : JointFrame K) (k : Nat) : V3 K × V3 K × V3 K :=
  let aa := axisAngleAng x fr.ang fr.parity
  let c0 := aa.axis.r0
  let c1 := aa.axis.r1
  let c2 := aa.axis.r2
  let p0 := fr.ang.r0
  let p1 := fr.ang.r1
  let lon := aa.lineOfNodes
  let d0 := V3.dot p0 c0
  let d1 := V3.dot p0 c1
  let a1 := normalize3 (V3.smul d0 c0 + V3.smul d1 c1)
  let a2n := normalize3 (V3.cross a1 p0)
  -- since fix f5f04c1 (defect D7): the sign carries the joint's handedness
  let sg := signv (V3.dot p0 c2) * fr.parity
  (nth [p0, V3.smul sg (-a2n), c2] k, nth [p1, p0, lon] k, nth [lon, a1, c1] k)

theorem any_motion_congr {axes axes' : List (Positional.Axis3 K)} (f : Motion K → Bool)
    (h : axes.map (·.motion) = axes'.map (·.motion)) :
    (axes.any fun a => f a.motion) = axes'.any fun a => f a.motion := by
  have e : ∀ l : List (Positional.Axis3 K), (l.any fun a => f a.motion) = (l.map (·.motion)).any f := by
    intro l; rw [List.any_map]; rfl
  rw [e, e, h]

/-- `_three_dof_joint_update` depends on the limits only through `limit_angle` -/
theorem threeDofJointUpdate_congr (x : Tf K) (fr : JointFrame K) (axes axes' : List (Positional.Axis3 K))
    (hm : axes.map (·.motion) = axes'.map (·.motion))
    (h : ∀ k, k < 3 →
      Positional.limitAngle x.pos (limitTriple x fr k).1 (limitTriple x fr k).2.1 (limitTriple x fr k).2.2
          (axes.getD k ⟨none, none, ⟨0, 0⟩⟩)
        = Positional.limitAngle x.pos (limitTriple x fr k).1 (limitTriple x fr k).2.1 (limitTriple x fr k).2.2
          (axes'.getD k ⟨none, none, ⟨0, 0⟩⟩)) :
    Positional.threeDofJointUpdate x axes fr = Positional.threeDofJointUpdate x axes' fr := by
  unfold Positional.threeDofJointUpdate
  unfold limitTriple at h
  simp only [] at h ⊢
  rw [List.map_congr_left (fun k hk => h k (List.mem_range.mp hk))]
  rw [any_motion_congr (fun m => !(eqZero m.vel.x)) hm, any_motion_congr (fun m => !(eqZero m.vel.y)) hm,
    any_motion_congr (fun m => !(eqZero m.vel.z)) hm]


/-- the padded axis of `pad_x_dof`: zero motion, frozen at `(0, 0)` -/
def padAxis : Positional.Axis3 K := ⟨some 0, some 0, ⟨0, 0⟩⟩

theorem sphericalize_axes (hl : Bool) (l : Kin.LinkIn K) (h : l.typ ≠ .free) :
    (Positional.sphericalize hl l).1
      = (l.dofs.map fun d => (if hl then ⟨d.lo, d.hi, d.motion⟩ else ⟨none, none, d.motion⟩ : Positional.Axis3 K))
        ++ List.replicate (3 - l.dofs.length) padAxis := by
  unfold Positional.sphericalize padAxis
  cases ht : l.typ with
  | free => exact absurd ht h
  | one => simp
  | two => simp
  | three => simp

theorem sphericalize_frame (l : Kin.LinkIn K) :
    (Positional.sphericalize true l).2 = (Positional.sphericalize false l).2 := by
  unfold Positional.sphericalize
  cases l.typ <;> rfl

/-- **padded axes are frozen in both paths** (true since the `fix:` commit for defect D4): every
axis beyond the link's own dofs is the zero motion with limits `(0, 0)`, with and without
`dof.limit` -/
theorem sphericalize_pad_frozen (hl : Bool) (l : Kin.LinkIn K) (h : l.typ ≠ .free) (k : Nat)
    (hk : l.dofs.length ≤ k) (hk3 : k < 3) :
    (Positional.sphericalize hl l).1[k]? = some padAxis := by
  rw [sphericalize_axes hl l h, List.getElem?_append_right (by simpa using hk)]
  simp only [List.length_map, List.getElem?_replicate]
  rw [if_pos (by omega)]

theorem sphericalize_own (hl : Bool) (l : Kin.LinkIn K) (h : l.typ ≠ .free) (k : Nat)
    (hk : k < l.dofs.length) :
    (Positional.sphericalize hl l).1[k]?
      = some (if hl then ⟨l.dofs[k].lo, l.dofs[k].hi, l.dofs[k].motion⟩ else ⟨none, none, l.dofs[k].motion⟩) := by
  rw [sphericalize_axes hl l h, List.getElem?_append_left (by simpa using hk)]
  simp [hk]

/-- **the positional limit branch is inert inside the range**: for a non-free link whose own axes
all satisfy `AxisInside` (joint angle / joint offset, as the code measures them, within the
range), `_three_dof_joint_update` on the sphericalized link computes the same displacement with
`dof.limit` as with `dof.limit = None` -/
theorem jointUpdate_limit_inert (l : Kin.LinkIn K) (x : Tf K) (hfree : l.typ ≠ .free)
    (h : ∀ k (hk : k < l.dofs.length),
      AxisInside x.pos (limitTriple x (Positional.sphericalize true l).2 k).1
        (limitTriple x (Positional.sphericalize true l).2 k).2.1
        (limitTriple x (Positional.sphericalize true l).2 k).2.2
        ⟨l.dofs[k].lo, l.dofs[k].hi, l.dofs[k].motion⟩) :
    Positional.threeDofJointUpdate x (Positional.sphericalize true l).1 (Positional.sphericalize true l).2
      = Positional.threeDofJointUpdate x (Positional.sphericalize false l).1 (Positional.sphericalize false l).2 := by
  rw [← sphericalize_frame l]
  apply threeDofJointUpdate_congr
  · rw [sphericalize_axes true l hfree, sphericalize_axes false l hfree]
    simp [List.map_append, List.map_map, Function.comp]
  · intro k hk3
    rw [List.getD_eq_getElem?_getD, List.getD_eq_getElem?_getD]
    by_cases hk : k < l.dofs.length
    · rw [sphericalize_own true l hfree k hk, sphericalize_own false l hfree k hk]
      simp only [if_true, Bool.false_eq_true, if_false, Option.getD_some]
      exact limitAngle_inert _ _ _ _ _ (h k hk)
    · rw [sphericalize_pad_frozen true l hfree k (by omega) hk3,
        sphericalize_pad_frozen false l hfree k (by omega) hk3]

end joints

section collide
variable {K : Type} [Field K] [LinearOrder K] [IsStrictOrderedRing K] [HasSqrt K] [HasF32 K]

theorem cross_zero_right_lit (p : V3 K) : V3.cross p (⟨0, 0, 0⟩ : V3 K) = ⟨0, 0, 0⟩ := by
  simp [V3.cross]
theorem vecQuatMul_zero_lit (q : Q4 K) : vecQuatMul (⟨0, 0, 0⟩ : V3 K) q = ⟨0, 0, 0, 0⟩ := by
  simp [vecQuatMul]
theorem q4_smul_zero (s : K) : Q4.smul s (⟨0, 0, 0, 0⟩ : Q4 K) = ⟨0, 0, 0, 0⟩ := by
  simp [Q4.smul]
theorem q4_add_zero_zero : ((⟨0, 0, 0, 0⟩ : Q4 K) + ⟨0, 0, 0, 0⟩) = ⟨0, 0, 0, 0⟩ := by
  show (⟨_, _, _, _⟩ : Q4 K) = _; simp
theorem v3_neg_zero_lit : -(⟨0, 0, 0⟩ : V3 K) = ⟨0, 0, 0⟩ := by
  show (⟨-0, -0, -0⟩ : V3 K) = _; simp only [neg_zero]
theorem v3_sub_zero_zero : ((⟨0, 0, 0⟩ : V3 K) - ⟨0, 0, 0⟩) = ⟨0, 0, 0⟩ := by
  show (⟨0 - 0, 0 - 0, 0 - 0⟩ : V3 K) = _; simp only [sub_zero]
theorem dtf_smul_zero_lit (s : K) :
    Positional.DTf.smul s (⟨⟨0, 0, 0⟩, ⟨0, 0, 0, 0⟩⟩ : Positional.DTf K) = ⟨⟨0, 0, 0⟩, ⟨0, 0, 0, 0⟩⟩ := by
  simp [Positional.DTf.smul]

/-- **`coll_mask = false ⇒ dp = 0`**: a contact candidate that does not penetrate produces no
position correction on either body, and `dlambda·coll_mask = 0` -/
theorem translate_separated (cscale : K) (x_i xPrev : List (Tf K)) (ii : List (M3 K)) (im : List K)
    (c : Contact K) (h : ¬ c.dist < 0) :
    Positional.translate cscale x_i xPrev ii im c = (⟨⟨0, 0, 0⟩, ⟨0, 0, 0, 0⟩⟩, ⟨⟨0, 0, 0⟩, ⟨0, 0, 0, 0⟩⟩, 0) := by
  unfold Positional.translate
  simp only [h, decide_false, Bool.and_false, maskV_false, maskS, Bool.false_eq_true, if_false,
    smul_zero_vec, v3_neg_zero_lit, cross_zero_right_lit, mulVec_zero_lit, vecQuatMul_zero_lit,
    q4_smul_zero, Positional.halfVq, v3_add_zero_zero, q4_add_zero_zero, v3_sub_zero_zero,
    dtf_smul_zero_lit]


/-- `(a − (a·n) n) · n = 0` for a unit `n` -/
theorem tangential_part (a n : V3 K) (hn : V3.dot n n = 1) :
    V3.dot (a - V3.smul (V3.dot a n) n) n = 0 := by
  simp only [V3.dot, V3.sub_def, V3.smul] at *
  linear_combination (-(a.x * n.x + a.y * n.y + a.z * n.z)) * hn

theorem translate_final_dot (b1 b2 : Bool) (m dl dlt dn cs : K) (dT n : V3 K)
    (h0 : V3.dot dT n = 0) (h1 : V3.dot n n = 1) :
    V3.dot (Positional.DTf.smul cs ⟨V3.smul m (maskV b1 (V3.smul dl n))
        + V3.smul m (maskV b2 (V3.smul dlt ⟨dT.x / dn, dT.y / dn, dT.z / dn⟩)), (0 : Q4 K)⟩).pos n
      = cs * (m * (if b1 then dl else 0)) := by
  simp only [V3.dot] at h0 h1
  cases b1 <;> cases b2 <;> simp only [maskV, V3.dot, V3.add_def, V3.smul, Positional.DTf.smul,
    if_true, if_false, Bool.false_eq_true]
  · ring
  · by_cases hd : dn = 0
    · subst hd; simp
    · field_simp; linear_combination (cs * m * dlt) * h0
  · linear_combination (cs * m * dl) * h1
  · by_cases hd : dn = 0
    · subst hd; simp; linear_combination (cs * m * dl) * h1
    · field_simp; linear_combination (cs * m * dl * dn) * h1 + (cs * m * dlt) * h0

theorem translate_final_dot' (b1 b2 : Bool) (m dl dlt dn cs : K) (dT n : V3 K)
    (h0 : V3.dot dT n = 0) (h1 : V3.dot n n = 1) :
    V3.dot (Positional.DTf.smul cs ⟨V3.smul m (-(maskV b1 (V3.smul dl n)))
        - V3.smul m (maskV b2 (V3.smul dlt ⟨dT.x / dn, dT.y / dn, dT.z / dn⟩)), (0 : Q4 K)⟩).pos n
      = -(cs * (m * (if b1 then dl else 0))) := by
  simp only [V3.dot] at h0 h1
  cases b1 <;> cases b2 <;> simp only [maskV, V3.dot, V3.sub_def, V3.neg_def, V3.smul,
    Positional.DTf.smul, if_true, if_false, Bool.false_eq_true]
  · ring
  · by_cases hd : dn = 0
    · subst hd; simp
    · field_simp; linear_combination (-(cs * m * dlt)) * h0
  · linear_combination (-(cs * m * dl)) * h1
  · by_cases hd : dn = 0
    · subst hd; simp; linear_combination (-(cs * m * dl)) * h1
    · field_simp; linear_combination (-(cs * m * dl * dn)) * h1 + (-(cs * m * dlt)) * h0

theorem dtf_smul_pos_indep (cs : K) (p : V3 K) (r r' : Q4 K) :
    (Positional.DTf.smul cs ⟨p, r⟩).pos = (Positional.DTf.smul cs ⟨p, r'⟩).pos := rfl

/-- inverse mass of the contact's first / second link as `translate` reads it (0 for the world) -/
def invMassAt (im : List K) (l : Int) : K :=
  maskS (decide (-1 < l)) (im.getD (l % (im.length : Int)).toNat 0)

/-- **push-only (positional)**: along `n = -frame[0]` the first body is moved by
`collide_scale · mass_inv₁ · dlambda·[c < 0]` and the second by minus `collide_scale · mass_inv₂ ·
dlambda·[c < 0]`; the static-friction correction is tangential. -/
theorem translate_normal_components (cscale : K) (x_i xPrev : List (Tf K)) (ii : List (M3 K))
    (im : List K) (c : Contact K) (hn : V3.dot c.normal c.normal = 1) :
    V3.dot (Positional.translate cscale x_i xPrev ii im c).1.pos (-c.normal)
      = cscale * (invMassAt im c.link1 * (Positional.translate cscale x_i xPrev ii im c).2.2)
    ∧ V3.dot (Positional.translate cscale x_i xPrev ii im c).2.1.pos (-c.normal)
      = -(cscale * (invMassAt im c.link2 * (Positional.translate cscale x_i xPrev ii im c).2.2)) := by
  have hnn : V3.dot (-c.normal) (-c.normal) = 1 := by
    simp only [V3.dot, V3.neg_def] at *; linear_combination hn
  unfold Positional.translate invMassAt
  simp only []
  constructor
  · rw [dtf_smul_pos_indep _ _ _ (0 : Q4 K), translate_final_dot _ _ _ _ _ _ _ _ _ (tangential_part _ _ hnn) hnn]
    simp only [maskS]
  · rw [dtf_smul_pos_indep _ _ _ (0 : Q4 K), translate_final_dot' _ _ _ _ _ _ _ _ _ (tangential_part _ _ hnn) hnn]
    simp only [maskS]


theorem eps6_pos : (0 : K) < 1e-6 := by norm_num
theorem eps8_pos : (0 : K) < 1e-8 := by norm_num

/-- positive semi-definite 3×3 matrix (what `com.inv_inertia` returns for positive inertias) -/
def PSD (m : M3 K) : Prop := ∀ v : V3 K, 0 ≤ V3.dot v (M3.mulVec m v)

theorem psd_zero : PSD (⟨0, 0, 0⟩ : M3 K) := by
  intro v
  show 0 ≤ V3.dot v (M3.mulVec (⟨⟨0, 0, 0⟩, ⟨0, 0, 0⟩, ⟨0, 0, 0⟩⟩ : M3 K) v)
  simp [V3.dot, M3.mulVec]

theorem psd_maskM (b : Bool) {m : M3 K} (h : PSD m) : PSD (maskM b m) := by
  cases b
  · exact psd_zero
  · exact h

theorem psd_takeWrap (ii : List (M3 K)) (h : ∀ m ∈ ii, PSD m) (l : Int) : PSD (takeWrap ii l) := by
  unfold takeWrap
  rw [List.getD_eq_getElem?_getD]
  cases hj : ii[(l % (ii.length : Int)).toNat]? with
  | none => exact psd_zero
  | some e => exact h e (List.mem_of_getElem? hj)

theorem invMass_nonneg (im : List K) (h : ∀ e ∈ im, 0 ≤ e) (b : Bool) (l : Int) :
    0 ≤ maskS b (im.getD (l % (im.length : Int)).toNat 0) := by
  cases b
  · exact le_refl 0
  · show 0 ≤ im.getD _ 0
    rw [List.getD_eq_getElem?_getD]
    cases hj : im[(l % (im.length : Int)).toNat]? with
    | none => exact le_refl 0
    | some e => exact h e (List.mem_of_getElem? hj)

/-- **`dlambda > 0` when the contact penetrates** (`c < 0`), for non-negative inverse masses and
positive semi-definite inverse inertias: the correction magnitude handed on to `resolve_velocity`
is strictly positive, so the first body moves along `+n`, the second along `−n` -/
theorem translate_dlambda_pos (cscale : K) (x_i xPrev : List (Tf K)) (ii : List (M3 K))
    (im : List K) (c : Contact K) (hd : c.dist < 0) (hm : ∀ e ∈ im, 0 ≤ e)
    (hpsd : ∀ m ∈ ii, PSD m) :
    0 < (Positional.translate cscale x_i xPrev ii im c).2.2 := by
  unfold Positional.translate
  simp only [hd, decide_true, maskS, if_true]
  apply div_pos (neg_pos.mpr hd)
  have h1 := invMass_nonneg im hm (decide (-1 < c.link1)) c.link1
  have h2 := invMass_nonneg im hm (decide (-1 < c.link2)) c.link2
  have p1 := psd_maskM (decide (-1 < c.link1)) (psd_takeWrap ii hpsd c.link1)
  have p2 := psd_maskM (decide (-1 < c.link2)) (psd_takeWrap ii hpsd c.link2)
  simp only [maskS] at h1 h2
  have e := eps6_pos (K := K)
  have q1 := p1 (V3.cross (c.pos + (⟨(V3.smul c.dist (-c.normal)).x / 2.0, (V3.smul c.dist (-c.normal)).y / 2.0,
    (V3.smul c.dist (-c.normal)).z / 2.0⟩ : V3 K) - (Kin.takeParent x_i default c.link1).pos) (-c.normal))
  have q2 := p2 (V3.cross (c.pos - (⟨(V3.smul c.dist (-c.normal)).x / 2.0, (V3.smul c.dist (-c.normal)).y / 2.0,
    (V3.smul c.dist (-c.normal)).z / 2.0⟩ : V3 K) - (Kin.takeParent x_i default c.link2).pos) (-c.normal))
  linarith

/-- bridge: the contact-free early return of `Positional.resolvePosition` is `noContactReturn` -/
theorem resolvePosition_nil (s : Sys K) (x_i xp : List (Tf K)) (ii : List (M3 K)) (im : List K) :
    Positional.resolvePosition s x_i xp ii im [] = (noContactReturn x_i, [0]) := rfl

theorem q4_add_zero_lit (q : Q4 K) : q + (⟨0, 0, 0, 0⟩ : Q4 K) = q := by
  cases q; show (⟨_, _, _, _⟩ : Q4 K) = _; simp

/-- row `i` of the tail of `resolve_position` -/
theorem positionSpread_row (n : Nat) (x_i : List (Tf K)) (cs : List (Contact K))
    (dps : List (Positional.DTf K × Positional.DTf K)) {i : Nat} (hi : i < n) :
    ∃ d : Positional.DTf K, nth (Positional.positionSpread n x_i cs dps) i
      = ⟨(nth x_i i).pos + d.pos, normalize4 ((nth x_i i).rot + d.rot)⟩ := by
  unfold Positional.positionSpread
  simp only []
  rw [nth_tab _ hi]
  exact ⟨_, rfl⟩

/-- zero corrections: `resolve_position` only renormalises -/
theorem positionSpread_zero (n : Nat) (x_i : List (Tf K)) (cs : List (Contact K))
    (dps : List (Positional.DTf K × Positional.DTf K))
    (h : ∀ d ∈ dps, d = (⟨⟨0, 0, 0⟩, ⟨0, 0, 0, 0⟩⟩, ⟨⟨0, 0, 0⟩, ⟨0, 0, 0, 0⟩⟩)) {i : Nat} (hi : i < n) :
    nth (Positional.positionSpread n x_i cs dps) i = ⟨(nth x_i i).pos, normalize4 (nth x_i i).rot⟩ := by
  unfold Positional.positionSpread
  simp only []
  rw [nth_tab _ hi, nth_segmentSum_eq _ _ hi, segAt_zero]
  · show (⟨(nth x_i i).pos + (⟨0, 0, 0⟩ : V3 K), normalize4 ((nth x_i i).rot + (⟨0, 0, 0, 0⟩ : Q4 K))⟩ : Tf K) = _
    rw [v3_add_zero_lit, q4_add_zero_lit]
  · intro p hp
    obtain ⟨a, ha, b, _, hab⟩ := mem_zipWith_elim _ _ _ (List.of_mem_zip hp).1
    rw [hab]
    have ha0 : a = (⟨⟨0, 0, 0⟩, ⟨0, 0, 0, 0⟩⟩ : Positional.DTf K) := by
      rcases List.mem_append.mp ha with h1 | h1
      · obtain ⟨q, hq, hq2⟩ := List.mem_map.mp h1
        rw [← hq2, h q hq]
      · obtain ⟨q, hq, hq2⟩ := List.mem_map.mp h1
        rw [← hq2, h q hq]
    rw [ha0]
    split
    · simp only [Positional.nanToZeroD, Positional.nanToZero, le_refl, if_true]; rfl
    · rfl

/-- **separated contacts are inert for `resolve_position`**: when no candidate penetrates, the
normal path returns exactly what the contact-free early return returns (positions unchanged,
rotations renormalised) and every `dlambda` is `0` -/
theorem resolvePosition_separated (s : Sys K) (x_i xp : List (Tf K)) (ii : List (M3 K)) (im : List K)
    (cs : List (Contact K)) (hlen : x_i.length = s.numLinks) (h : ∀ c ∈ cs, ¬ c.dist < 0) :
    (Positional.resolvePosition s x_i xp ii im cs).1 = noContactReturn x_i
    ∧ ∀ d ∈ (Positional.resolvePosition s x_i xp ii im cs).2, d = 0 := by
  unfold Positional.resolvePosition
  split
  · exact ⟨rfl, by intro d hd; simpa using hd⟩
  · simp only []
    constructor
    · have hx : noContactReturn x_i
          = tab s.numLinks fun i => ⟨(nth x_i i).pos, normalize4 (nth x_i i).rot⟩ := by
        unfold noContactReturn
        conv_lhs => rw [eq_tab_of_length hlen, tab_map]
      rw [hx]
      have hps : Positional.positionSpread s.numLinks x_i cs
          ((cs.map (Positional.translate s.collideScale x_i xp ii im)).map fun t => (t.1, t.2.1))
          = tab s.numLinks fun i => nth (Positional.positionSpread s.numLinks x_i cs
          ((cs.map (Positional.translate s.collideScale x_i xp ii im)).map fun t => (t.1, t.2.1))) i := by
        apply eq_tab_of_length
        unfold Positional.positionSpread; simp only [tab_length]
      rw [hps]
      apply tab_congr
      intro i hi
      apply positionSpread_zero _ _ _ _ _ hi
      intro d hd
      simp only [List.map_map, List.mem_map, Function.comp] at hd
      obtain ⟨c, hc, rfl⟩ := hd
      rw [translate_separated _ _ _ _ _ _ (h c hc)]
    · intro d hd
      simp only [List.map_map, List.mem_map, Function.comp] at hd
      obtain ⟨c, hc, rfl⟩ := hd
      rw [translate_separated _ _ _ _ _ _ (h c hc)]

/-- `normalize(v) · n = 0` when `v · n = 0` -/
theorem normalize3_dot_zero (v n : V3 K) (h : V3.dot v n = 0) : V3.dot (normalize3 v) n = 0 := by
  unfold normalize3
  simp only [V3.dot] at *
  generalize (if eqZero (safeNorm3 v) = true then safeNorm3 v + 1e-6 else safeNorm3 v) = d
  by_cases hd : d = 0
  · subst hd; simp
  · field_simp; linear_combination h

theorem velImpulse_final_dot (b1 b2 : Bool) (dl mn dd dn S : K) (vt n : V3 K)
    (h0 : V3.dot vt n = 0) (h1 : V3.dot n n = 1) :
    V3.dot (maskV b1 (maskV b2 (V3.smul dl ⟨(V3.smul S n).x / dn, (V3.smul S n).y / dn, (V3.smul S n).z / dn⟩)
      + ⟨(V3.smul mn (-vt)).x / dd, (V3.smul mn (-vt)).y / dd, (V3.smul mn (-vt)).z / dd⟩)) n
      = if b1 && b2 then dl * (S / dn) else 0 := by
  simp only [V3.dot] at h0 h1
  have hdyn : (mn * -vt.x / dd) * n.x + (mn * -vt.y / dd) * n.y + (mn * -vt.z / dd) * n.z = 0 := by
    by_cases hd : dd = 0
    · subst hd; simp
    · field_simp; linear_combination (-mn) * h0
  have hrest : dl * (S * n.x / dn) * n.x + dl * (S * n.y / dn) * n.y + dl * (S * n.z / dn) * n.z
      = dl * (S / dn) := by
    by_cases hd : dn = 0
    · subst hd; simp
    · field_simp; linear_combination (dl * S) * h1
  cases b1 <;> cases b2 <;> simp only [maskV, V3.dot, V3.add_def, V3.smul, V3.neg_def, if_true,
    if_false, Bool.false_eq_true, Bool.and_self, Bool.and_false, Bool.false_and, Bool.and_true]
  · ring
  · ring
  · linear_combination hdyn
  · linear_combination hdyn + hrest

/-- relative normal velocity of the two contact points as `resolve_velocity` computes it
(`v_n`, from the projected velocities `xd_i`) -/
def pbdNormalVel (x_i : List (Tf K)) (xd : List (Motion K)) (c : Contact K) : K :=
  let x1 := Kin.takeParent x_i default c.link1
  let x2 := Kin.takeParent x_i default c.link2
  let xd1 := Kin.takeParent xd default c.link1
  let xd2 := Kin.takeParent xd default c.link2
  V3.dot (xd1.vel + V3.cross xd1.ang (c.pos - x1.pos) - (xd2.vel + V3.cross xd2.ang (c.pos - x2.pos)))
    (-c.normal)

/-- the restitution target `−v_n − min(e·v_n,prev, 0)` of `resolve_velocity` -/
def restitutionGap (x_i : List (Tf K)) (xd xdPrev : List (Motion K)) (c : Contact K) : K :=
  -pbdNormalVel x_i xd c - minv (c.elasticity * pbdNormalVel x_i xdPrev c) 0

/-- **restitution (positional)**: for a unit normal the impulse of `resolve_velocity` has normal
component `[penetrating ∧ sinking] · dlambda_rest · S/(‖dv‖ + 1e-6)` along `n = -frame[0]`, where
`S = −v_n − min(e·v_n,prev, 0)`; the dynamic-friction part is tangential. -/
theorem velImpulse_normal_component (s : Sys K) (x_i : List (Tf K)) (xd_i xdPrev : List (Motion K))
    (ii : List (M3 K)) (im : List K) (c : Contact K) (dlambda : K)
    (hn : V3.dot c.normal c.normal = 1) :
    ∃ dl : K, V3.dot (Positional.velImpulse s x_i xd_i xdPrev ii im c dlambda).1.vel (-c.normal)
      = if decide (c.dist < 0) && decide (pbdNormalVel x_i xdPrev c ≤ 0)
        then dl * (restitutionGap x_i xd_i xdPrev c
          / (safeNorm3 (V3.smul (restitutionGap x_i xd_i xdPrev c) (-c.normal)) + 1e-6))
        else 0 := by
  have hnn : V3.dot (-c.normal) (-c.normal) = 1 := by
    simp only [V3.dot, V3.neg_def] at *; linear_combination hn
  unfold Positional.velImpulse restitutionGap pbdNormalVel
  simp only []
  rw [velImpulse_final_dot _ _ _ _ _ _ _ _ _ (normalize3_dot_zero _ _ (tangential_part _ _ hnn)) hnn]
  exact ⟨_, rfl⟩

theorem cross_scaled_zero (p n : V3 K) (S dn : K) (h : V3.cross p n = ⟨0, 0, 0⟩) :
    V3.cross p (⟨(V3.smul S n).x / dn, (V3.smul S n).y / dn, (V3.smul S n).z / dn⟩ : V3 K) = ⟨0, 0, 0⟩ := by
  simp only [V3.cross, V3.mk.injEq] at h
  obtain ⟨hx, hy, hz⟩ := h
  simp only [V3.cross, V3.smul, V3.mk.injEq]
  refine ⟨?_, ?_, ?_⟩
  · rw [show p.y * (S * n.z / dn) - p.z * (S * n.y / dn) = (S / dn) * (p.y * n.z - p.z * n.y) by ring, hx, mul_zero]
  · rw [show p.z * (S * n.x / dn) - p.x * (S * n.z / dn) = (S / dn) * (p.z * n.x - p.x * n.z) by ring, hy, mul_zero]
  · rw [show p.x * (S * n.y / dn) - p.y * (S * n.x / dn) = (S / dn) * (p.x * n.y - p.y * n.x) by ring, hz, mul_zero]

theorem w_lever (b : Bool) (m : M3 K) (p nr : V3 K) (h : b = true → V3.cross p nr = ⟨0, 0, 0⟩) :
    V3.dot (V3.cross p nr) (M3.mulVec (maskM b m) (V3.cross p nr)) = 0 := by
  cases b
  · simp [maskM, M3.mulVec, V3.dot]
  · rw [h rfl]; simp [V3.dot]

/-- **rebound algebra (positional)**: when both lever arms are parallel to the contact normal
(a sphere on a plane) the restitution impulse along `n = -frame[0]` is
`[penetrating ∧ sinking] · ‖dv‖/(mass_inv₁ + mass_inv₂ + 1e-6) · S/(‖dv‖ + 1e-6)` with
`S = −v_n − min(e·v_n,prev, 0)` and `‖dv‖ = safe_norm(S·n)`: up to the two `1e-6` regularisers the
relative normal velocity is changed by exactly `S`, i.e. to `−min(e·v_n,prev, 0) = e·|v_n,prev|`. -/
theorem velImpulse_rebound (s : Sys K) (x_i : List (Tf K)) (xd_i xdPrev : List (Motion K))
    (ii : List (M3 K)) (im : List K) (c : Contact K) (dlambda : K)
    (hn : V3.dot c.normal c.normal = 1)
    (hl1 : -1 < c.link1 →
      V3.cross (c.pos - (Kin.takeParent x_i default c.link1).pos) (-c.normal) = ⟨0, 0, 0⟩)
    (hl2 : -1 < c.link2 →
      V3.cross (c.pos + V3.smul c.dist c.normal - (Kin.takeParent x_i default c.link2).pos) (-c.normal)
        = ⟨0, 0, 0⟩) :
    V3.dot (Positional.velImpulse s x_i xd_i xdPrev ii im c dlambda).1.vel (-c.normal)
      = if decide (c.dist < 0) && decide (pbdNormalVel x_i xdPrev c ≤ 0)
        then safeNorm3 (V3.smul (restitutionGap x_i xd_i xdPrev c) (-c.normal))
              / (invMassAt im c.link1 + invMassAt im c.link2 + 1e-6)
            * (restitutionGap x_i xd_i xdPrev c
              / (safeNorm3 (V3.smul (restitutionGap x_i xd_i xdPrev c) (-c.normal)) + 1e-6))
        else 0 := by
  have hnn : V3.dot (-c.normal) (-c.normal) = 1 := by
    simp only [V3.dot, V3.neg_def] at *; linear_combination hn
  have h1 : decide (-1 < c.link1) = true → _ := fun h => hl1 (of_decide_eq_true h)
  have h2 : decide (-1 < c.link2) = true → _ := fun h => hl2 (of_decide_eq_true h)
  unfold Positional.velImpulse restitutionGap pbdNormalVel invMassAt
  simp only []
  rw [velImpulse_final_dot _ _ _ _ _ _ _ _ _ (normalize3_dot_zero _ _ (tangential_part _ _ hnn)) hnn]
  rw [w_lever _ _ _ _ (fun h => cross_scaled_zero _ _ _ _ (h1 h)),
    w_lever _ _ _ _ (fun h => cross_scaled_zero _ _ _ _ (h2 h))]
  simp only [add_zero]

/-- a contact candidate that does not penetrate gets no velocity impulse -/
theorem velImpulse_separated (s : Sys K) (x_i : List (Tf K)) (xd_i xdPrev : List (Motion K))
    (ii : List (M3 K)) (im : List K) (c : Contact K) (dlambda : K) (h : ¬ c.dist < 0) :
    Positional.velImpulse s x_i xd_i xdPrev ii im c dlambda = (⟨0, 0⟩, false) := by
  unfold Positional.velImpulse
  simp only [h, decide_false, maskV_false]
  rfl

/-- all candidates separated: `resolve_velocity` changes no velocity -/
theorem resolveVelocity_separated (s : Sys K) (x_i : List (Tf K)) (xd_i xdPrev : List (Motion K))
    (ii : List (M3 K)) (im : List K) (cs : List (Contact K)) (dl : List K)
    (h : ∀ c ∈ cs, ¬ c.dist < 0) {i : Nat} (hi : i < s.numLinks) :
    nth (Positional.resolveVelocity s x_i xd_i xdPrev ii im cs dl) i = ⟨0, 0⟩ := by
  unfold Positional.resolveVelocity
  simp only []
  split
  · rw [nth_tab _ hi]
  · rw [nth_tab _ hi, spread_zero _ _ _ _ _ _ hi]
    · show (⟨M3.mulVec _ (0 : V3 K), V3.smul _ (0 : V3 K)⟩ : Motion K) = ⟨0, 0⟩
      rw [v3_zero_eq, mulVec_zero_lit, smul_zero_vec]
    · intro p hp
      simp only [List.mem_map] at hp
      obtain ⟨q, hq, rfl⟩ := hp
      obtain ⟨c, hc, d, _, rfl⟩ := mem_zipWith_elim _ _ _ hq
      rw [velImpulse_separated _ _ _ _ _ _ _ _ (h c hc)]

end collide

section unit
variable {K : Type} [Field K] [LinearOrder K] [IsStrictOrderedRing K] [HasSqrt K] [HasExp K]

/-- a quaternion whose squared norm exceeds `4e-16` is outside the `allclose(·, 0)` ball of
`safe_norm` -/
theorem not_allClose0_of_normSq {q : Q4 K} (h : 4e-16 < Q4.normSq q) :
    allClose0 [q.w, q.x, q.y, q.z] = false := by
  by_contra hc
  rw [Bool.not_eq_false] at hc
  simp only [allClose0, List.all_cons, List.all_nil, Bool.and_true, Bool.and_eq_true, decide_eq_true_eq,
    absv_eq_abs] at hc
  obtain ⟨hw, hx, hy, hz⟩ := hc
  have h' : 4e-16 < q.w * q.w + q.x * q.x + q.y * q.y + q.z * q.z := h
  have sq : ∀ a : K, |a| ≤ 1e-8 → a * a ≤ 1e-16 := by
    intro a ha
    have h0 := abs_nonneg a
    have := abs_mul_abs_self a
    have h2 : |a| * |a| ≤ 1e-8 * 1e-8 := mul_le_mul ha ha h0 (by norm_num)
    rw [this] at h2
    calc a * a ≤ 1e-8 * 1e-8 := h2
      _ = 1e-16 := by norm_num
  have := sq _ hw; have := sq _ hx; have := sq _ hy; have := sq _ hz
  have : q.w * q.w + q.x * q.x + q.y * q.y + q.z * q.z ≤ (4e-16 : K) := by
    calc q.w * q.w + q.x * q.x + q.y * q.y + q.z * q.z ≤ 1e-16 + 1e-16 + 1e-16 + 1e-16 := by gcongr
      _ = 4e-16 := by norm_num
  exact absurd h' (not_lt.mpr this)

theorem normSq_pos_of_not_allClose0 {q : Q4 K} (h : allClose0 [q.w, q.x, q.y, q.z] = false) :
    0 < Q4.normSq q := by
  by_contra hc
  have hle : Q4.normSq q ≤ 0 := not_lt.mp hc
  simp only [Q4.normSq] at hle
  have hw : q.w = 0 := by nlinarith [mul_self_nonneg q.w, mul_self_nonneg q.x, mul_self_nonneg q.y, mul_self_nonneg q.z]
  have hx : q.x = 0 := by nlinarith [mul_self_nonneg q.w, mul_self_nonneg q.x, mul_self_nonneg q.y, mul_self_nonneg q.z]
  have hy : q.y = 0 := by nlinarith [mul_self_nonneg q.w, mul_self_nonneg q.x, mul_self_nonneg q.y, mul_self_nonneg q.z]
  have hz : q.z = 0 := by nlinarith [mul_self_nonneg q.w, mul_self_nonneg q.x, mul_self_nonneg q.y, mul_self_nonneg q.z]
  have : allClose0 [q.w, q.x, q.y, q.z] = true := by
    simp only [allClose0, List.all_cons, List.all_nil, Bool.and_true, Bool.and_eq_true, decide_eq_true_eq,
      absv_eq_abs, hw, hx, hy, hz, abs_zero]
    norm_num
  rw [h] at this; exact Bool.false_ne_true this

/-- **`math.normalize` returns a unit quaternion** for every argument outside the `allclose` ball
(any `sqrt` with `sqrt x · sqrt x = x` on `x ≥ 0`) -/
theorem normalize4_normSq (hs : SqrtOK K) {q : Q4 K} (h : allClose0 [q.w, q.x, q.y, q.z] = false) :
    Q4.normSq (normalize4 q) = 1 := by
  have hpos := normSq_pos_of_not_allClose0 h
  have harg : (0 : K) + q.w * q.w + q.x * q.x + q.y * q.y + q.z * q.z = Q4.normSq q := by
    simp only [Q4.normSq]; ring
  have hn : safeNorm4 q = HasSqrt.sqrt (Q4.normSq q) := by
    simp only [safeNorm4, safeNormL, h, Bool.false_eq_true, if_false, List.foldl, harg]
  have hsq := hs _ (le_of_lt hpos)
  have hne : HasSqrt.sqrt (Q4.normSq q) ≠ 0 := by
    intro h0; rw [h0, zero_mul] at hsq; rw [← hsq] at hpos; exact lt_irrefl _ hpos
  have e1 : eqZero (HasSqrt.sqrt (Q4.normSq q)) = false := by
    rw [Bool.eq_false_iff]; intro hc; rw [eqZero_iff] at hc; exact hne hc
  unfold normalize4
  simp only [hn, e1, Bool.false_eq_true, if_false]
  exact normSq_div q _ hsq hpos

/-- **`positional.integrator.integrate_xdd` returns unit quaternions** from unit quaternions -/
theorem integrateXddLink_unit (s : Sys K) (x : Tf K) (xd xdd : Motion K) (hs : SqrtOK K)
    (h : Q4.normSq x.rot = 1) :
    Q4.normSq (Positional.integrateXddLink s x xd xdd).1.rot = 1 := by
  unfold Positional.integrateXddLink
  simp only [angToQuat, zero_mul]
  apply normalize4_normSq hs
  apply not_allClose0_of_normSq
  rw [normSq_integrate, h, one_mul]
  have := one_add_sq_pos (K := K)
  calc (4e-16 : K) < 1 := by norm_num
    _ ≤ _ := by
      nlinarith [mul_self_nonneg ((HasExp.exp (s.angDamping * s.dt) * (xd.ang.x + s.dt * xdd.ang.x)) * 0.5 * s.dt),
        mul_self_nonneg ((HasExp.exp (s.angDamping * s.dt) * (xd.ang.y + s.dt * xdd.ang.y)) * 0.5 * s.dt),
        mul_self_nonneg ((HasExp.exp (s.angDamping * s.dt) * (xd.ang.z + s.dt * xdd.ang.z)) * 0.5 * s.dt)]

end unit

end Brax.C06L
