import Brax.Model.Positional
import Brax.Lemmas.Algebra
import Mathlib.Algebra.BigOperators.Ring.Finset
import Mathlib.Algebra.Order.Field.Basic
import Mathlib.Tactic.Ring
import Mathlib.Tactic.FieldSimp
import Mathlib.Tactic.Linarith
import Mathlib.Tactic.NormNum
/-!
# C04 helper lemmas, part 1: arrays, sums, `segment_sum`

* `V3 K` is an additive commutative group (same `+`, `0`, `-` as the model);
* `tab`/`nth` bookkeeping, sums of tabulated lists as `Finset.range` sums;
* `segmentSum_total`, `segmentSum_weighted_total` — the sum of a `segment_sum` is the sum of the
  entries whose id is in range (with per-segment weights in the second form).
-/
set_option linter.unusedSectionVars false
set_option linter.unusedSimpArgs false
set_option linter.unusedVariables false
namespace Brax.C04L
open Brax MC

section group
variable {K : Type} [CommRing K]

theorem v3_neg_add_cancel (a : V3 K) : -a + a = (0 : V3 K) := by
  cases a; show (_ : V3 K) = ⟨0, 0, 0⟩; simp only [V3.neg_def, V3.add_def]; congr 1 <;> ring
theorem v3_sub_eq_add_neg (a b : V3 K) : a - b = a + -b := by
  simp only [V3.neg_def, V3.add_def, V3.sub_def]; congr 1 <;> ring

instance instAddCommGroupV3 : AddCommGroup (V3 K) where
  add := (· + ·)
  zero := 0
  neg := Neg.neg
  sub := fun a b => a - b
  add_assoc := V3.add_assoc'
  zero_add := V3.zero_add'
  add_zero := V3.add_zero'
  add_comm := V3.add_comm'
  neg_add_cancel := v3_neg_add_cancel
  sub_eq_add_neg := v3_sub_eq_add_neg
  nsmul := nsmulRec
  zsmul := zsmulRec

@[simp] theorem v3_zero_x : (0 : V3 K).x = 0 := rfl
@[simp] theorem v3_zero_y : (0 : V3 K).y = 0 := rfl
@[simp] theorem v3_zero_z : (0 : V3 K).z = 0 := rfl
theorem v3_zero_eq : (0 : V3 K) = ⟨0, 0, 0⟩ := rfl
theorem v3zero_eq : (V3.zero : V3 K) = 0 := rfl

theorem smul_zero' (s : K) : V3.smul s (0 : V3 K) = 0 := by
  simp only [V3.smul, v3_zero_eq, mul_zero]
theorem zero_smul' (v : V3 K) : V3.smul 0 v = 0 := by
  simp only [V3.smul, v3_zero_eq, zero_mul]
theorem smul_add' (s : K) (u v : V3 K) : V3.smul s (u + v) = V3.smul s u + V3.smul s v := by
  simp only [V3.smul, V3.add_def]; congr 1 <;> ring
theorem smul_sub' (s : K) (u v : V3 K) : V3.smul s (u - v) = V3.smul s u - V3.smul s v := by
  simp only [V3.smul, V3.sub_def]; congr 1 <;> ring
theorem smul_neg' (s : K) (u : V3 K) : V3.smul s (-u) = -V3.smul s u := by
  simp only [V3.smul, V3.neg_def]; congr 1 <;> ring
theorem add_smul' (s t : K) (u : V3 K) : V3.smul (s + t) u = V3.smul s u + V3.smul t u := by
  simp only [V3.smul, V3.add_def]; congr 1 <;> ring
theorem smul_smul' (s t : K) (u : V3 K) : V3.smul s (V3.smul t u) = V3.smul (s * t) u := by
  simp only [V3.smul]; congr 1 <;> ring
theorem one_smul' (u : V3 K) : V3.smul 1 u = u := by
  cases u; simp only [V3.smul, one_mul]

theorem smul_sum' {ι : Type} (s : Finset ι) (c : K) (f : ι → V3 K) :
    V3.smul c (∑ i ∈ s, f i) = ∑ i ∈ s, V3.smul c (f i) := by
  classical
  induction s using Finset.induction_on with
  | empty => simp [smul_zero']
  | insert a s ha ih => rw [Finset.sum_insert ha, Finset.sum_insert ha, smul_add', ih]

theorem sum_smul' {ι : Type} (s : Finset ι) (c : ι → K) (v : V3 K) :
    V3.smul (∑ i ∈ s, c i) v = ∑ i ∈ s, V3.smul (c i) v := by
  classical
  induction s using Finset.induction_on with
  | empty => simp [zero_smul']
  | insert a s ha ih => rw [Finset.sum_insert ha, Finset.sum_insert ha, add_smul', ih]

end group

/-! ## `tab`, `nth` -/
section tab
variable {β : Type}

theorem tab_length (n : Nat) (f : Nat → β) : (tab n f).length = n := by simp [tab]

theorem tab_succ (n : Nat) (f : Nat → β) : tab (n + 1) f = tab n f ++ [f n] := by
  simp [tab, List.range_succ]

theorem nth_tab [Inhabited β] {n i : Nat} (f : Nat → β) (h : i < n) : nth (tab n f) i = f i := by
  simp [nth, tab, List.getD_eq_getElem?_getD, List.getElem?_map, List.getElem?_range h]

theorem nthS_tab [Zero β] {n i : Nat} (f : Nat → β) (h : i < n) : nthS (tab n f) i = f i := by
  simp [nthS, tab, List.getD_eq_getElem?_getD, List.getElem?_map, List.getElem?_range h]

theorem tab_congr {n : Nat} {f g : Nat → β} (h : ∀ i, i < n → f i = g i) : tab n f = tab n g := by
  simp only [tab]
  apply List.map_congr_left
  intro i hi
  exact h i (List.mem_range.mp hi)

theorem tab_map {γ : Type} (n : Nat) (f : Nat → β) (g : β → γ) :
    (tab n f).map g = tab n (fun i => g (f i)) := by
  simp [tab, List.map_map, Function.comp_def]

theorem sum_tab {M : Type} [AddCommMonoid M] (n : Nat) (f : Nat → M) :
    (tab n f).sum = ∑ i ∈ Finset.range n, f i := by
  induction n with
  | zero => simp [tab]
  | succ n ih => rw [tab_succ, List.sum_append, ih, Finset.sum_range_succ]; simp

/-- a list of length `n` is the tabulation of its rows -/
theorem eq_tab_of_length [Inhabited β] {l : List β} {n : Nat} (h : l.length = n) :
    l = tab n (fun i => nth l i) := by
  apply List.ext_getElem
  · simp [tab_length, h]
  · intro i h1 h2
    simp only [tab, List.getElem_map, List.getElem_range, nth]
    rw [List.getD_eq_getElem?_getD, List.getElem?_eq_getElem h1]; rfl

theorem zip_tab {γ : Type} [Inhabited γ] (n : Nat) (f : Nat → β) {l : List γ} (h : l.length = n) :
    (tab n f).zip l = tab n (fun i => (f i, nth l i)) := by
  apply List.ext_getElem
  · simp [tab_length, h]
  · intro i h1 h2
    have hi : i < n := by simpa [tab_length] using h2
    simp only [tab, List.getElem_zip, List.getElem_map, List.getElem_range, nth]
    rw [List.getD_eq_getElem?_getD, List.getElem?_eq_getElem (by omega)]; rfl

end tab

/-! ## `segment_sum` -/
section seg
variable {M : Type} [AddCommMonoid M]

/-- entry `k` of a `segment_sum` -/
def segAt (l : List (M × Int)) (k : Nat) : M :=
  (l.filterMap fun p => if p.2 = (k : Int) then some p.1 else none).sum

theorem segAt_nil (k : Nat) : segAt ([] : List (M × Int)) k = 0 := by simp [segAt]

theorem segAt_cons (p : M × Int) (l : List (M × Int)) (k : Nat) :
    segAt (p :: l) k = (if p.2 = (k : Int) then p.1 else 0) + segAt l k := by
  unfold segAt
  by_cases h : p.2 = (k : Int)
  · simp [List.filterMap_cons, h]
  · simp [List.filterMap_cons, h]

theorem segAt_append (l₁ l₂ : List (M × Int)) (k : Nat) :
    segAt (l₁ ++ l₂) k = segAt l₁ k + segAt l₂ k := by
  simp [segAt, List.filterMap_append]

theorem sum_ite_id (v : M) (id : Int) (n : Nat) :
    (∑ k ∈ Finset.range n, if id = (k : Int) then v else 0)
      = if 0 ≤ id ∧ id < (n : Int) then v else 0 := by
  by_cases h : 0 ≤ id ∧ id < (n : Int)
  · obtain ⟨h0, h1⟩ := h
    obtain ⟨m, rfl⟩ := Int.eq_ofNat_of_zero_le h0
    have hm : m < n := by exact_mod_cast h1
    simp only [h0, h1, and_self, if_true, Nat.cast_inj]
    rw [Finset.sum_ite_eq]
    simp [hm]
  · rw [if_neg h]
    apply Finset.sum_eq_zero
    intro k hk
    have hk' := Finset.mem_range.mp hk
    rw [if_neg]
    rintro rfl
    exact h ⟨by omega, by exact_mod_cast hk'⟩

theorem nth_segmentSum_eq [Inhabited M] (vals : List M) (ids : List Int) {n k : Nat} (h : k < n) :
    nth (segmentSum vals ids n) k = segAt (vals.zip ids) k := by
  unfold segmentSum
  rw [nth_tab _ h]; rfl

theorem nthS_segmentSum_eq {K : Type} [AddCommMonoid K] (vals : List K) (ids : List Int) {n k : Nat}
    (h : k < n) : nthS (segmentSum vals ids n) k = segAt (vals.zip ids) k := by
  unfold segmentSum
  rw [nthS_tab _ h]; rfl

/-- **`segment_sum` conserves the total of the in-range entries** (any `n`, any ids): the sum of
`segment_sum(vals, ids, n)` equals the sum of the `vals` whose id lies in `[0, n)`; entries with
other ids — in particular the world parent `-1` — are dropped. -/
theorem segmentSum_total (vals : List M) (ids : List Int) (n : Nat) :
    (segmentSum vals ids n).sum
      = (((vals.zip ids).filter fun p => decide (0 ≤ p.2 ∧ p.2 < (n : Int))).map (·.1)).sum := by
  unfold segmentSum
  rw [sum_tab]
  change ∑ k ∈ Finset.range n, segAt (vals.zip ids) k = _
  generalize vals.zip ids = l
  induction l with
  | nil => simp [segAt_nil]
  | cons p l ih =>
    simp only [segAt_cons, Finset.sum_add_distrib, ih, sum_ite_id, List.filter_cons]
    by_cases h : 0 ≤ p.2 ∧ p.2 < (n : Int)
    · simp [h]
    · simp [h]

end seg

section weighted
variable {K : Type} [CommRing K]

/-- weighted form: `Σ_k w_k · segment_sum(vals, ids, n)_k` is the sum over the in-range entries of
`w_{id} · val` -/
theorem segmentSum_weighted_total (w : Nat → K) (l : List (V3 K × Int)) (n : Nat) :
    (∑ k ∈ Finset.range n, V3.smul (w k) (segAt l k))
      = ((l.filter fun p => decide (0 ≤ p.2 ∧ p.2 < (n : Int))).map fun p => V3.smul (w p.2.toNat) p.1).sum := by
  induction l with
  | nil => simp [segAt_nil, smul_zero']
  | cons p l ih =>
    simp only [segAt_cons, smul_add', Finset.sum_add_distrib, ih, List.filter_cons]
    have : (∑ k ∈ Finset.range n, V3.smul (w k) (if p.2 = (k : Int) then p.1 else 0))
        = if 0 ≤ p.2 ∧ p.2 < (n : Int) then V3.smul (w p.2.toNat) p.1 else 0 := by
      rw [← sum_ite_id]
      apply Finset.sum_congr rfl
      intro k _
      by_cases hk : p.2 = (k : Int)
      · simp [hk]
      · simp [hk, smul_zero']
    rw [this]
    by_cases h : 0 ≤ p.2 ∧ p.2 < (n : Int)
    · simp [h]
    · simp [h]

end weighted

/-! ## `Force` and `DTf` as additive monoids; projections of their sums -/
section force
variable {K : Type} [CommRing K]

theorem force_add_assoc (a b c : Force K) : a + b + c = a + (b + c) := by
  simp only [Force.add_def, V3.add_def]; congr 1 <;> congr 1 <;> ring
theorem force_add_comm (a b : Force K) : a + b = b + a := by
  simp only [Force.add_def, V3.add_def]; congr 1 <;> congr 1 <;> ring
theorem force_zero_add (a : Force K) : (0 : Force K) + a = a := by
  obtain ⟨⟨a1, a2, a3⟩, ⟨b1, b2, b3⟩⟩ := a
  show (⟨⟨0, 0, 0⟩, ⟨0, 0, 0⟩⟩ : Force K) + _ = _
  simp only [Force.add_def, V3.add_def, zero_add]
theorem force_add_zero (a : Force K) : a + (0 : Force K) = a := by
  rw [force_add_comm, force_zero_add]

instance instAddCommMonoidForce : AddCommMonoid (Force K) where
  add := (· + ·)
  zero := 0
  add_assoc := force_add_assoc
  zero_add := force_zero_add
  add_zero := force_add_zero
  add_comm := force_add_comm
  nsmul := nsmulRec

theorem dtf_add_def (a b : Positional.DTf K) : a + b = ⟨a.pos + b.pos, a.rot + b.rot⟩ := rfl
theorem q4_add_def (a b : Q4 K) : a + b = ⟨a.w + b.w, a.x + b.x, a.y + b.y, a.z + b.z⟩ := rfl
theorem dtf_add_assoc (a b c : Positional.DTf K) : a + b + c = a + (b + c) := by
  simp only [dtf_add_def, V3.add_def, q4_add_def]; congr 1 <;> congr 1 <;> ring
theorem dtf_add_comm (a b : Positional.DTf K) : a + b = b + a := by
  simp only [dtf_add_def, V3.add_def, q4_add_def]; congr 1 <;> congr 1 <;> ring
theorem dtf_zero_add (a : Positional.DTf K) : (0 : Positional.DTf K) + a = a := by
  obtain ⟨⟨a1, a2, a3⟩, ⟨b0, b1, b2, b3⟩⟩ := a
  show (⟨⟨0, 0, 0⟩, ⟨0, 0, 0, 0⟩⟩ : Positional.DTf K) + _ = _
  simp only [dtf_add_def, V3.add_def, q4_add_def, zero_add]
theorem dtf_add_zero (a : Positional.DTf K) : a + (0 : Positional.DTf K) = a := by
  rw [dtf_add_comm, dtf_zero_add]

instance instAddCommMonoidDTf : AddCommMonoid (Positional.DTf K) where
  add := (· + ·)
  zero := 0
  add_assoc := dtf_add_assoc
  zero_add := dtf_zero_add
  add_zero := dtf_add_zero
  add_comm := dtf_add_comm
  nsmul := nsmulRec

theorem force_zero_vel : (0 : Force K).vel = 0 := rfl
theorem dtf_zero_pos : (0 : Positional.DTf K).pos = 0 := rfl
theorem dtf_add_pos (a b : Positional.DTf K) : (a + b).pos = a.pos + b.pos := rfl

theorem segAt_force_vel (l : List (Force K × Int)) (k : Nat) :
    (segAt l k).vel = segAt (l.map fun p => (p.1.vel, p.2)) k := by
  induction l with
  | nil => simp [segAt_nil, force_zero_vel]
  | cons p l ih =>
    simp only [List.map_cons, segAt_cons, Force.add_def, ih]
    by_cases h : p.2 = (k : Int)
    · simp [h]
    · simp [h, force_zero_vel]

theorem segAt_dtf_pos (l : List (Positional.DTf K × Int)) (k : Nat) :
    (segAt l k).pos = segAt (l.map fun p => (p.1.pos, p.2)) k := by
  induction l with
  | nil => simp [segAt_nil, dtf_zero_pos]
  | cons p l ih =>
    simp only [List.map_cons, segAt_cons, dtf_add_pos, ih]
    by_cases h : p.2 = (k : Int)
    · simp [h]
    · simp [h, dtf_zero_pos]

end force

end Brax.C04L
