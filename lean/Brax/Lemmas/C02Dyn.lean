import Brax.Lemmas.C02Mass
import Brax.Lemmas.Real
import Brax.Lemmas.Norm
/-!
# C02 helper lemmas: passive force, semi-implicit Euler step
-/
set_option linter.unusedSectionVars false
set_option linter.unusedSimpArgs false
namespace Brax.Gd
open Brax Kin

section ordered
variable {K : Type} [Field K] [LinearOrder K] [IsStrictOrderedRing K]

theorem rsum_nonneg (n : Nat) (f : Nat → K) (h : ∀ i, i < n → 0 ≤ f i) : 0 ≤ rsum n f := by
  induction n with
  | zero => exact le_refl _
  | succ n ih =>
    simp only [rsum]
    exact add_nonneg (ih fun i hi => h i (Nat.lt_succ_of_lt hi)) (h n (Nat.lt_succ_self n))

theorem rsum_pos (n : Nat) (f : Nat → K) (h : ∀ i, i < n → 0 ≤ f i) (k : Nat) (hk : k < n)
    (hpos : 0 < f k) : 0 < rsum n f := by
  induction n with
  | zero => omega
  | succ n ih =>
    simp only [rsum]
    by_cases hkn : k = n
    · subst hkn
      exact add_pos_of_nonneg_of_pos (rsum_nonneg k f fun i hi => h i (Nat.lt_succ_of_lt hi)) hpos
    · exact add_pos_of_pos_of_nonneg (ih (fun i hi => h i (Nat.lt_succ_of_lt hi)) (by omega))
        (h n (Nat.lt_succ_self n))
end ordered

/-! ## passive force: model = spec, link by link -/
section passive
variable {R : Type} [CommRing R]

theorem zipWith_map_zip {γ δ ε ζ : Type} (F : ε → γ × δ → ζ) (c : γ → ε) :
    ∀ (ds : List γ) (vs : List δ),
    List.zipWith F (ds.map c) (ds.zip vs) = (ds.zip vs).map fun p => F (c p.1) p
  | [], _ => rfl
  | _ :: _, [] => rfl
  | d :: ds, v :: vs => by simp [zipWith_map_zip F c ds vs]

theorem zipWith_zipWith_zip {γ δ ε ζ : Type} (F : ε → γ × δ → ζ) (G : δ → γ → ε) :
    ∀ (qs : List δ) (ds : List γ) (vs : List δ),
    List.zipWith F (List.zipWith G qs ds) (ds.zip vs)
      = (ds.zip (qs.zip vs)).map fun t => F (G t.2.1 t.1) (t.1, t.2.2)
  | [], _, _ => by simp
  | _ :: _, [], _ => by simp
  | _ :: _, _ :: _, [] => by simp
  | q :: qs, d :: ds, v :: vs => by simp [zipWith_zipWith_zip F G qs ds vs]

/-- `_passive` of one link is MuJoCo's `qfrc_spring + qfrc_damper` of that body's dofs -/
theorem passiveLink_eq (l : LinkIn R) : passiveLink l = MjD.passive l := by
  unfold passiveLink MjD.passive
  cases l.typ
  · simp only
    rw [zipWith_map_zip]
    apply List.map_congr_left
    intro p _
    ring
  all_goals
    simp only
    rw [zipWith_zipWith_zip]
    apply List.map_congr_left
    intro t _
    ring

end passive

/-! ## the velocity update of the semi-implicit Euler step -/
section euler
variable {R : Type} [CommRing R]

theorem getD_map_zip_range {γ δ : Type} (l : List γ) (f : γ × Nat → δ) (d : δ) (dγ : γ) (i : Nat)
    (hi : i < l.length) :
    ((l.zip (List.range l.length)).map f).getD i d = f (l.getD i dγ, i) := by
  have hi' : i < (l.zip (List.range l.length)).length := by simp [hi]
  rw [List.getD_eq_getElem?_getD, List.getElem?_map, List.getElem?_eq_getElem hi']
  simp only [Option.map_some, Option.getD_some, List.getElem_zip, List.getElem_range]
  rw [List.getD_eq_getElem?_getD, List.getElem?_eq_getElem hi]; rfl

theorem dot_map_mul_right (r v : List R) (c : R) : dot r (v.map (· * c)) = dot r v * c := by
  unfold dot
  induction r generalizing v with
  | nil => simp
  | cons a r ih =>
    cases v with
    | nil => simp
    | cons b v =>
      simp only [List.map_cons, List.zipWith_cons_cons, List.foldr_cons]
      rw [ih v]; ring

theorem matVec_map_mul_right (m : List (List R)) (v : List R) (c : R) :
    matVec m (v.map (· * c)) = (matVec m v).map (· * c) := by
  unfold matVec
  rw [List.map_map]
  apply List.map_congr_left
  intro r _
  exact dot_map_mul_right r v c

theorem zipWith_sub_update (qd qdd : List R) (dt : R) (h : qdd.length = qd.length) :
    List.zipWith (· - ·) (List.zipWith (fun v a => v + a * dt) qd qdd) qd = qdd.map (· * dt) := by
  induction qd generalizing qdd with
  | nil => cases qdd with
    | nil => rfl
    | cons _ _ => simp at h
  | cons v qd ih =>
    cases qdd with
    | nil => simp at h
    | cons a qdd =>
      simp only [List.zipWith_cons_cons, List.map_cons]
      rw [ih qdd (by simpa using h)]
      congr 1; ring

end euler

/-! ## free-joint orientation update: the result is a unit quaternion -/
section free

theorem quatRotAxis_normSq_pos (a : V3 ℝ) (θ : ℝ)
    (h : Real.cos (θ / 2) ≠ 0 ∨ 0 < V3.dot a a) : 0 < Q4.normSq (quatRotAxis a θ) := by
  have h2 : (1 + 1 : ℝ) = 2 := by norm_num
  simp only [quatRotAxis, Q4.normSq, HasTrig.sin, HasTrig.cos, h2]
  set c := Real.cos (θ / 2) with hc
  set s := Real.sin (θ / 2) with hs
  have hcs : s ^ 2 + c ^ 2 = 1 := Real.sin_sq_add_cos_sq (θ / 2)
  have hexp : c * c + a.x * s * (a.x * s) + a.y * s * (a.y * s) + a.z * s * (a.z * s)
      = c ^ 2 + V3.dot a a * s ^ 2 := by simp only [V3.dot]; ring
  rw [hexp]
  have hA : 0 ≤ V3.dot a a := by
    simp only [V3.dot]; nlinarith [mul_self_nonneg a.x, mul_self_nonneg a.y, mul_self_nonneg a.z]
  rcases h with hc0 | hpos
  · have : 0 < c ^ 2 := by positivity
    nlinarith [mul_nonneg hA (sq_nonneg s)]
  · by_cases hs0 : s = 0
    · have : c ^ 2 = 1 := by rw [hs0] at hcs; linarith
      rw [hs0]; nlinarith
    · have : 0 < s ^ 2 := by positivity
      nlinarith [mul_pos hpos this, sq_nonneg c]

/-- `_integrate_q_free`: position advances by `dt·v`, and the new orientation is a unit
quaternion (for a non-degenerate old one and `|dt| ≤ 1`) -/
theorem integrateQFree_unit (dt : ℝ) (hdt : |dt| ≤ 1) (p0 p1 p2 r0 r1 r2 r3 v0 v1 v2 w0 w1 w2 : ℝ)
    (hr : 0 < Q4.normSq (⟨r0, r1, r2, r3⟩ : Q4 ℝ)) :
    ∃ rot : Q4 ℝ, rot.IsUnit ∧
      integrateQFree dt [p0, p1, p2, r0, r1, r2, r3] [v0, v1, v2, w0, w1, w2]
        = [p0 + v0 * dt, p1 + v1 * dt, p2 + v2 * dt, rot.w, rot.x, rot.y, rot.z] := by
  have hww : 0 ≤ w0 * w0 + w1 * w1 + w2 * w2 := by
    nlinarith [mul_self_nonneg w0, mul_self_nonneg w1, mul_self_nonneg w2]
  set N := Real.sqrt (w0 * w0 + w1 * w1 + w2 * w2) with hN
  have hN0 : 0 ≤ N := Real.sqrt_nonneg _
  have hNN : N * N = w0 * w0 + w1 * w1 + w2 * w2 := Real.mul_self_sqrt hww
  set A : ℝ := N + 1e-8 with hA
  have hApos : 0 < A := by rw [hA]; have : (0 : ℝ) < 1e-8 := by norm_num
                           linarith
  set axis : V3 ℝ := ⟨w0 / A, w1 / A, w2 / A⟩ with haxis
  set qr := quatRotAxis axis (dt * A) with hqr
  have hqrpos : 0 < Q4.normSq qr := by
    apply quatRotAxis_normSq_pos
    by_cases hN1 : N = 0
    · left
      have hAe : A = 1e-8 := by rw [hA, hN1]; ring
      apply ne_of_gt
      apply Real.cos_pos_of_mem_Ioo
      have hpi := Real.two_le_pi
      have habs := abs_le.mp hdt
      rw [hAe]
      constructor <;> nlinarith [habs.1, habs.2]
    · right
      have hNpos : 0 < N := lt_of_le_of_ne hN0 (Ne.symm hN1)
      have : V3.dot axis axis = (N * N) / (A * A) := by
        simp only [haxis, V3.dot]; rw [hNN]; field_simp
      rw [this]; positivity
  set rot := quatMul (⟨r0, r1, r2, r3⟩ : Q4 ℝ) qr with hrot
  have hrotpos : 0 < Q4.normSq rot := by
    rw [hrot, normSq_quatMul]; exact mul_pos hr hqrpos
  set n := Real.sqrt (Q4.normSq rot) with hn
  have hnpos : 0 < n := Real.sqrt_pos.mpr hrotpos
  have hnn : n * n = Q4.normSq rot := Real.mul_self_sqrt (le_of_lt hrotpos)
  refine ⟨⟨rot.w / n, rot.x / n, rot.y / n, rot.z / n⟩, ?_, rfl⟩
  simp only [Q4.IsUnit, Q4.normSq] at hnn ⊢
  have hne : n ≠ 0 := ne_of_gt hnpos
  field_simp
  nlinarith [hnn]

end free
end Brax.Gd
