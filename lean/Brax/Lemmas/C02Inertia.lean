import Brax.Lemmas.C02Rne
/-!
# C02 helper lemmas: the CoM-frame inertia `cinr` — equals MuJoCo's `cinert`, and is a
non-negative form
-/
set_option linter.unusedSectionVars false
set_option linter.unusedSimpArgs false
namespace Brax.Gd
open Brax Kin

section field
variable {K : Type} [Field K]

/-- **`cinr` equals MuJoCo's `cinert`** (`mju_inertCom`): rotated body inertia plus the
parallel-axis term `m(|o|² 1 − o oᵀ)`, `m·o`, `m`, with `o = xipos − com` -/
theorem cinrLink_same (xi : Tf K) (com : V3 K) (it : Inertia K) :
    SameInertia (cinrLink xi com it) (MjD.inertCom xi.rot it.i it.mass (xi.pos - com)) := by
  unfold SameInertia cinrLink MjD.inertCom Tf.doInertia
  refine ⟨?_, rfl, rfl⟩
  simp only
  generalize M3.mul (M3.mul (quatTo3x3 xi.rot) it.i) (quatTo3x3 xi.rot).transpose = rot
  generalize xi.pos - com = o
  simp only [M3.add, M3.smul, M3.mul, M3.transpose, M3.col0, M3.col1, M3.col2, V3.cross, V3.dot,
    V3.smul, V3.add_def]
  congr 1 <;> congr 1 <;> ring

/-- kinetic-energy form of a moved inertia: `ωᵀ(R i Rᵀ)ω + m |v − o × ω|²` -/
theorem ke_doInertia (t : Tf K) (it : Inertia K) (v : Motion K) :
    ke (Tf.doInertia t it) v
      = V3.dot (M3.mulVec (quatTo3x3 t.rot).transpose v.ang)
          (M3.mulVec it.i (M3.mulVec (quatTo3x3 t.rot).transpose v.ang))
        + it.mass * V3.normSq (v.vel - V3.cross t.pos v.ang) := by
  unfold ke bil Tf.doInertia
  simp only
  generalize quatTo3x3 t.rot = Rm
  simp only [Motion.dotF, Inertia.mul, M3.add, M3.smul, M3.mul, M3.mulVec, M3.transpose, M3.col0, M3.col1,
    M3.col2, V3.cross, V3.dot, V3.smul, V3.add_def, V3.sub_def, V3.normSq]
  ring

end field

section ordered
variable {K : Type} [Field K] [LinearOrder K] [IsStrictOrderedRing K]

/-- **`cinr` is a non-negative form** when the body inertia matrix is and the mass is ≥ 0 -/
theorem ke_cinrLink_nonneg (xi : Tf K) (com : V3 K) (it : Inertia K)
    (hI : ∀ w : V3 K, 0 ≤ V3.dot w (M3.mulVec it.i w)) (hm : 0 ≤ it.mass) (v : Motion K) :
    0 ≤ ke (cinrLink xi com it) v := by
  unfold cinrLink
  rw [ke_doInertia]
  apply add_nonneg (hI _)
  apply mul_nonneg hm
  simp only [V3.normSq, V3.dot]
  nlinarith [mul_self_nonneg (v.vel - V3.cross (xi.pos - com) v.ang).x,
    mul_self_nonneg (v.vel - V3.cross (xi.pos - com) v.ang).y,
    mul_self_nonneg (v.vel - V3.cross (xi.pos - com) v.ang).z]

end ordered
end Brax.Gd
