import Brax.Lemmas.C04Rest2
/-!
# C04 rest clause, positional pipeline (gap (c) of notes/C04.md): `_three_dof_joint_update`
returns no correction for a 1-dof link in a pure joint configuration inside its limits (ℝ).
-/
set_option linter.unusedSectionVars false
set_option linter.unusedSimpArgs false
set_option linter.unusedVariables false
namespace Brax.C04L
open Brax MC

section posReal

theorem clipO_inside (q : ℝ) (lo hi : Option ℝ) (h : InLim q lo hi) : clipO q lo hi = q := by
  obtain ⟨h1, h2⟩ := h
  unfold clipO
  cases lo with
  | none =>
    cases hi with
    | none => rfl
    | some u => simp only; rw [if_neg (not_lt.mpr (h2 u rfl))]
  | some l =>
    simp only [if_neg (not_lt.mpr (h1 l rfl))]
    cases hi with
    | none => rfl
    | some u => simp only; rw [if_neg (not_lt.mpr (h2 u rfl))]

/-- a padded axis is frozen: clipping to `[0, 0]` gives 0 -/
theorem clipO_zero_zero (x : ℝ) : clipO x (some 0) (some 0) = 0 := by
  unfold clipO
  simp only
  by_cases h : x < 0
  · simp [h]
  · simp only [h, if_false]
    by_cases h' : 0 < x
    · simp [h']
    · simp only [h', if_false]; linarith [not_lt.mp h, not_lt.mp h']

theorem quatRotAxis_zero_angle (n : V3 ℝ) : quatRotAxis n 0 = ⟨1, 0, 0, 0⟩ := by
  simp [quatRotAxis, HasTrig.sin, HasTrig.cos]

/-- the pad axis of `_sphericalize` -/
def padAxis : Positional.Axis3 ℝ := ⟨some 0, some 0, ⟨0, 0⟩⟩

theorem v3Any_zero0 : v3Any (0 : V3 ℝ) = false := v3Any_zero_lit

/-- a frozen pad axis whose two reference directions already coincide asks for no correction -/
theorem limitAngle_pad (pos n n1 n2 : V3 ℝ) (h : V3.cross n1 n2 = ⟨0, 0, 0⟩) :
    Positional.limitAngle pos n n1 n2 padAxis = (⟨0, 0, 0⟩, ⟨0, 0, 0⟩) := by
  unfold Positional.limitAngle padAxis
  simp only [v3Any_zero0, Bool.false_eq_true, if_false, clipO_zero_zero, quatRotAxis_zero_angle,
    Inv.rotate_one, h, maskV_false]

/-- the hinge's own axis: the signed angle is `q`, clipping inside the limits leaves it, and turning
the reference direction by it lands on the second reference direction -/
theorem limitAngle_hinge (pos a b : V3 ℝ) (q : ℝ) (lo hi : Option ℝ)
    (ha : V3.dot a a = 1) (hb : V3.dot b b = 1) (hab : V3.dot a b = 0)
    (h1 : -Real.pi < q) (h2 : q ≤ Real.pi) (hin : InLim q lo hi) :
    Positional.limitAngle pos a b
      ⟨Real.cos q * b.x + Real.sin q * (V3.cross a b).x,
       Real.cos q * b.y + Real.sin q * (V3.cross a b).y,
       Real.cos q * b.z + Real.sin q * (V3.cross a b).z⟩ ⟨lo, hi, ⟨a, ⟨0, 0, 0⟩⟩⟩
      = (⟨0, 0, 0⟩, ⟨0, 0, 0⟩) := by
  have hy : V3.dot (V3.cross b ⟨Real.cos q * b.x + Real.sin q * (V3.cross a b).x,
      Real.cos q * b.y + Real.sin q * (V3.cross a b).y,
      Real.cos q * b.z + Real.sin q * (V3.cross a b).z⟩) a = Real.sin q := by
    simp only [V3.dot] at ha hb hab
    simp only [V3.dot, V3.cross]
    linear_combination (Real.sin q * (b.x * b.x + b.y * b.y + b.z * b.z)) * ha + Real.sin q * hb
      - (Real.sin q * (a.x * b.x + a.y * b.y + a.z * b.z)) * hab
  have hx : V3.dot b ⟨Real.cos q * b.x + Real.sin q * (V3.cross a b).x,
      Real.cos q * b.y + Real.sin q * (V3.cross a b).y,
      Real.cos q * b.z + Real.sin q * (V3.cross a b).z⟩ = Real.cos q := by
    simp only [V3.dot] at hb
    simp only [V3.dot, V3.cross]
    linear_combination Real.cos q * hb
  unfold Positional.limitAngle
  simp only [v3Any_zero_lit, Bool.false_eq_true, if_false, signedAngle, hy, hx,
    Inv.atan2_sin_cos q h1 h2, clipO_inside q lo hi hin, Inv.rotate_perp a b q ha hab,
    cross_self_lit, maskV_false]

theorem sumV3_zero : sumV [(⟨0, 0, 0⟩ : V3 ℝ), ⟨0, 0, 0⟩, ⟨0, 0, 0⟩] = ⟨0, 0, 0⟩ := by
  simp only [sumV, List.sum_cons, List.sum_nil, v3_zero_eq, add_zero_lit]

theorem maskS_zero (b : Bool) : maskS b (0 : ℝ) = 0 := by cases b <;> rfl

/-- **positional joint update of a hinge at rest**: frame `(a, b, a×b)` (`b ⟂ a` unit), the joint
turned by `q ∈ (−π, π]` about `a`, anchors coinciding, `q` inside the limits ⇒ no correction -/
theorem threeDofJointUpdate_hinge (a b : V3 ℝ) (q : ℝ) (lo hi : Option ℝ)
    (ha : V3.dot a a = 1) (hb : V3.dot b b = 1) (hab : V3.dot a b = 0)
    (h1 : -Real.pi < q) (h2 : q ≤ Real.pi) (hin : InLim q lo hi) :
    Positional.threeDofJointUpdate ⟨⟨0, 0, 0⟩, quatRotAxis a q⟩
      [⟨lo, hi, ⟨a, ⟨0, 0, 0⟩⟩⟩, padAxis, padAxis] ⟨⟨a, b, V3.cross a b⟩, eye, 1⟩
      = (⟨0, 0, 0⟩, ⟨0, 0, 0⟩) := by
  have hc0 := Inv.rotate_axis a q ha
  have hc1 := Inv.rotate_perp a b q ha hab
  have hlon := Inv.hinge_lon a b q ha hb hab
  set u : V3 ℝ := ⟨Real.cos q * b.x + Real.sin q * (V3.cross a b).x,
         Real.cos q * b.y + Real.sin q * (V3.cross a b).y,
         Real.cos q * b.z + Real.sin q * (V3.cross a b).z⟩ with hu
  unfold Positional.threeDofJointUpdate
  simp only [axisAngleAng, hc0, hc1, hlon]
  have hau : V3.dot a u = 0 := by
    simp only [V3.dot] at ha hab ⊢
    simp only [hu, V3.cross]
    linear_combination Real.cos q * hab
  have hsum : V3.smul 1 a + V3.smul 0 u = a := by
    obtain ⟨ax, ay, az⟩ := a
    simp [V3.smul]
  simp only [ha, hau, hsum, Inv.normalize3_unit a ha]
  simp only [show List.range 3 = [0, 1, 2] from rfl, List.map_cons, List.map_nil, nth,
    List.getD_cons_zero, List.getD_cons_succ]
  rw [limitAngle_pad _ _ a a (cross_self_lit a), limitAngle_pad _ _ u u (cross_self_lit u),
    limitAngle_hinge _ a b q lo hi ha hb hab h1 h2 hin]
  simp only [sumV3_zero, neg_zero_lit, maskS_zero, smul_zero_lit, sub_zero_lit]

theorem maskS_eqZero (t c : ℝ) : maskS (eqZero t) (-(c * t)) = 0 := by
  cases h : eqZero t
  · rfl
  · have := (eqZero_iff t).mp h
    subst this
    simp [maskS]

/-- **positional joint update of a slide at rest**: slide along the unit axis `e` (frame `eye` for
the rotation), offset `c·e`, no rotation, `c` inside the limits ⇒ no correction.  (The translational
part relies on the coordinate-wise prismatic mask: a coordinate of the offset is dropped exactly when
the axis has a non-zero component there, and is zero otherwise.) -/
theorem threeDofJointUpdate_slide (e : V3 ℝ) (c : ℝ) (lo hi : Option ℝ) (velF : M3 ℝ)
    (he : V3.dot e e = 1) (hin : InLim c lo hi) :
    Positional.threeDofJointUpdate ⟨V3.smul c e, Q4.one⟩
      [⟨lo, hi, ⟨⟨0, 0, 0⟩, e⟩⟩, padAxis, padAxis] ⟨eye, velF, 1⟩
      = (⟨0, 0, 0⟩, ⟨0, 0, 0⟩) := by
  have hE := v3Any_unit e he
  have hlon : normalize3 (V3.cross (⟨0, 0, 1 * 1⟩ : V3 ℝ) ⟨1, 0, 0⟩) = ⟨0, 1, 0⟩ := by
    have : V3.cross (⟨0, 0, 1 * 1⟩ : V3 ℝ) ⟨1, 0, 0⟩ = ⟨0, 1, 0⟩ := by simp [V3.cross]
    rw [this]; exact Inv.normalize3_unit _ (by simp [V3.dot])
  have hlon' : normalize3 (V3.cross (⟨0, 0, 1⟩ : V3 ℝ) ⟨1, 0, 0⟩) = ⟨0, 1, 0⟩ := by
    have : V3.cross (⟨0, 0, 1⟩ : V3 ℝ) ⟨1, 0, 0⟩ = ⟨0, 1, 0⟩ := by simp [V3.cross]
    rw [this]; exact Inv.normalize3_unit _ (by simp [V3.dot])
  have ha1 : normalize3 (V3.smul (V3.dot (⟨1, 0, 0⟩ : V3 ℝ) ⟨1, 0, 0⟩) ⟨1, 0, 0⟩
      + V3.smul (V3.dot (⟨1, 0, 0⟩ : V3 ℝ) ⟨0, 1, 0⟩) ⟨0, 1, 0⟩) = ⟨1, 0, 0⟩ := by
    have : V3.smul (V3.dot (⟨1, 0, 0⟩ : V3 ℝ) ⟨1, 0, 0⟩) ⟨1, 0, 0⟩
      + V3.smul (V3.dot (⟨1, 0, 0⟩ : V3 ℝ) ⟨0, 1, 0⟩) ⟨0, 1, 0⟩ = ⟨1, 0, 0⟩ := by simp [V3.smul, V3.dot]
    rw [this]; exact Inv.normalize3_unit _ (by simp [V3.dot])
  have hk0 : Positional.limitAngle (V3.smul c e) ⟨1, 0, 0⟩ ⟨0, 1, 0⟩ ⟨0, 1, 0⟩ ⟨lo, hi, ⟨⟨0, 0, 0⟩, e⟩⟩
      = (⟨0, 0, 0⟩, ⟨0, 0, 0⟩) := by
    have hxp : V3.dot e (V3.smul c e) = c := by
      simp only [V3.dot] at he ⊢
      simp only [V3.smul]
      linear_combination c * he
    unfold Positional.limitAngle
    simp only [hE, if_true, clipO_zero_zero, quatRotAxis_zero_angle, Inv.rotate_one, cross_self_lit,
      hxp, clipO_inside c lo hi hin, sub_self, zsmul_lit, maskV_true]
  unfold Positional.threeDofJointUpdate
  simp only [axisAngleAng, eye, rotate_one, hlon, hlon', ha1]
  simp only [show List.range 3 = [0, 1, 2] from rfl, List.map_cons, List.map_nil, nth,
    List.getD_cons_zero, List.getD_cons_succ]
  rw [limitAngle_pad _ _ ⟨1, 0, 0⟩ ⟨1, 0, 0⟩ (cross_self_lit _),
    limitAngle_pad _ _ ⟨0, 1, 0⟩ ⟨0, 1, 0⟩ (cross_self_lit _), hk0]
  have hz : eqZero (0 : ℝ) = true := by simp [eqZero]
  simp only [sumV3_zero, smul_zero_lit, sub_zero_lit, List.any_cons, List.any_nil, padAxis,
    v3_zero_x, v3_zero_y, v3_zero_z, hz, Bool.not_true, Bool.or_false, Bool.not_not,
    V3.smul, V3.neg_def, maskS_eqZero, mul_zero]

/-! ### at the level of `_sphericalize` and `position_update`'s per-link displacement -/

/-- a 1-dof link's slice in a pure joint configuration inside its limits: hinge about a unit axis
at `q ∈ (−π, π]`, or slide along a unit axis at `|q| ≤ 2` -/
inductive PureOne (hasLimit : Bool) (lq : Kin.LinkIn ℝ) : Prop
  | hinge (d : DofP ℝ) (a : V3 ℝ) (q qd : ℝ) (hlq : lq = ⟨.one, [q], [qd], [d]⟩)
      (hd : d.motion = ⟨a, ⟨0, 0, 0⟩⟩) (ha : V3.dot a a = 1)
      (h1 : -Real.pi < q) (h2 : q ≤ Real.pi) (hl : hasLimit = true → InLim q d.lo d.hi) :
      PureOne hasLimit lq
  | slide (d : DofP ℝ) (e : V3 ℝ) (q qd : ℝ) (hlq : lq = ⟨.one, [q], [qd], [d]⟩)
      (hd : d.motion = ⟨⟨0, 0, 0⟩, e⟩) (he : V3.dot e e = 1)
      (hq : |q| ≤ 2) (hl : hasLimit = true → InLim q d.lo d.hi) : PureOne hasLimit lq

theorem inLim_none (q : ℝ) : InLim q none none :=
  ⟨fun _ h => (by cases h), fun _ h => (by cases h)⟩

theorem sphericalize_one (hasLimit : Bool) (l : Kin.LinkIn ℝ) (d : DofP ℝ) (ht : l.typ = .one)
    (hd : l.dofs = [d]) :
    Positional.sphericalize hasLimit l
      = ([if hasLimit then ⟨d.lo, d.hi, d.motion⟩ else ⟨none, none, d.motion⟩, padAxis, padAxis],
         frame1 d.motion) := by
  unfold Positional.sphericalize padAxis
  rw [ht, hd]
  rfl

/-- **`_three_dof_joint_update(jcalc q, *_sphericalize(…)) = 0` for 1-dof links** (gap (c)) -/
theorem threeDofJointUpdate_pureOne (hasLimit : Bool) (lq l : Kin.LinkIn ℝ) (h : PureOne hasLimit lq)
    (ht : l.typ = lq.typ) (hd : l.dofs = lq.dofs) :
    Positional.threeDofJointUpdate (Kin.jcalc lq).1 (Positional.sphericalize hasLimit l).1
      (Positional.sphericalize hasLimit l).2 = (⟨0, 0, 0⟩, ⟨0, 0, 0⟩) := by
  cases h with
  | hinge d a q qd hlq hdm ha h1 h2 hl =>
    subst hlq
    have hA := v3Any_unit a ha
    obtain ⟨hb, hab, hc⟩ := Inv.orthogonals_spec a ha
    have hj : (Kin.jcalc ⟨.one, [q], [qd], [d]⟩).1 = ⟨⟨0, 0, 0⟩, quatRotAxis a q⟩ := by
      rw [Inv.jcalc_one_hinge d q qd (by rw [hdm]; exact ha) (by rw [hdm]), hdm]
      simp only [zero_mul]
    have hfr : frame1 d.motion = ⟨⟨a, (Inv.orthogonals a).1, V3.cross a (Inv.orthogonals a).1⟩, eye, 1⟩ := by
      simp [frame1, hdm, hA, v3Any_zero_lit, orth_eq, hc]
    rw [sphericalize_one hasLimit l d ht hd, hj, hfr, hdm]
    cases hL : hasLimit
    · exact threeDofJointUpdate_hinge a (Inv.orthogonals a).1 q none none ha hb hab h1 h2 (inLim_none q)
    · exact threeDofJointUpdate_hinge a (Inv.orthogonals a).1 q d.lo d.hi ha hb hab h1 h2 (hl hL)
  | slide d e q qd hlq hdm he hq hl =>
    subst hlq
    have hE := v3Any_unit e he
    have hj : (Kin.jcalc ⟨.one, [q], [qd], [d]⟩).1 = ⟨V3.smul q e, Q4.one⟩ := by
      rw [Inv.jcalc_slides1 d e q qd hdm hq]
      simp only
      rw [smul_1]
      rfl
    have hfa : (frame1 d.motion).ang = eye := by simp [frame1, hdm, hE, v3Any_zero_lit]
    have hfp : (frame1 d.motion).parity = 1 := rfl
    have hfr' : frame1 d.motion = ⟨eye, (frame1 d.motion).vel, 1⟩ := by
      rcases hf : frame1 d.motion with ⟨fa, fv, fp⟩
      rw [hf] at hfa hfp
      simp only at hfa hfp
      rw [hfa, hfp]
    rw [sphericalize_one hasLimit l d ht hd, hj, hfr', hdm]
    cases hL : hasLimit
    · exact threeDofJointUpdate_slide e q none none _ he (inLim_none q)
    · exact threeDofJointUpdate_slide e q d.lo d.hi _ he (hl hL)

/-- the per-link displacement `d_w` of `joints.position_update` vanishes for free links (`free_mask`)
and for 1-dof links in a pure joint configuration inside their limits -/
theorem jointDisplacements_zero (s : Sys ℝ) (j a_p : List (Tf ℝ)) {i : Nat} (hi : i < s.numLinks)
    (h : ∀ l, (Kin.linkSlices s.types ([] : List ℝ) [] s.dofs)[i]? = some l →
      l.typ = .free ∨ ∃ lq, PureOne s.hasLimit lq ∧ l.typ = lq.typ ∧ l.dofs = lq.dofs
        ∧ nth j i = (Kin.jcalc lq).1) :
    nth (Positional.jointDisplacements s j a_p) i = (0, 0) := by
  unfold Positional.jointDisplacements
  rw [nth_tab _ hi]
  cases hl : (Kin.linkSlices s.types ([] : List ℝ) [] s.dofs)[i]? with
  | none => rfl
  | some l =>
    simp only
    rcases h l hl with hf | ⟨lq, hp, ht, hd, hj⟩
    · have hb : (LinkType.free != LinkType.free) = false := rfl
      simp only [hf, hb, maskV_false, Inv.rotate_zero]
      rfl
    · rw [hj, threeDofJointUpdate_pureOne s.hasLimit lq l hp ht hd]
      simp only [maskV_zero_lit, Inv.rotate_zero]
      rfl

end posReal
end Brax.C04L
