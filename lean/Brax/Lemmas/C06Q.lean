import Brax.Lemmas.C06Pos
import Brax.Lemmas.C04Init
/-!
# C06 deepening: the joint-limit theorems stated on the joint coordinates `q`

`Lemmas/C06Spring.lean` / `C06Pos.lean` prove "limits that are not reached have no influence" with the
hypothesis on the joint angle / offset that the code *measures* (`axis_angle_ang`, `j.pos · axis`).
Here the hypothesis is on `q` itself: for a link in a pure joint configuration `j = jcalc q` of every
supported kind (`C04L.PureOne`: hinge, slide; `C04L.PureStack`: hh, hhh of either handedness, ss, sss,
sh, ssh) with `q` inside the ranges, the measured coordinates ARE `q` (C08's Euler-angle identities
`hinge_psi`, `hinge2_angles`, `hinge3_angles`, `hinge_theta`, `hinge_phi`, and the slide projections),
hence

* spring: `Spring.jointForce true … = Spring.jointForce false …` for ANY `jd` and `tau`;
* positional: `threeDofJointUpdate ∘ sphericalize true = threeDofJointUpdate ∘ sphericalize false`;
* generalized: `limitPos q lo hi = 0 ↔ InRange q lo hi` (the hypothesis of `limit_rows_inactive` is on
  `q` already; here the converse, so "inactive exactly when inside").

Everything is over ℝ (the identities need the real `atan2`, `sin`, `cos`, `sqrt`).
-/
set_option linter.unusedSectionVars false
set_option linter.unusedSimpArgs false
set_option linter.unusedVariables false
namespace Brax.C06L
open Brax MC C04L C06

/-! ## spring pipeline -/
section springQ

/-- C04's `InLim` (ℝ) is C06's `InRange` -/
theorem inRange_of_inLim {q : ℝ} {lo hi : Option ℝ} (h : InLim q lo hi) : InRange q lo hi := h

theorem inLim_of_strictlyInside {q : ℝ} {lo hi : Option ℝ} (h : StrictlyInside q lo hi) :
    InLim q lo hi := h.inRange

/-- `joints.resolve`'s per-type dispatch: the limit path equals the limit-free path as soon as the
per-type functions agree on this link's dofs (for every `tau`) -/
theorem jointForce_limit_congr (lk : LinkP ℝ) (j : Tf ℝ) (jd : Motion ℝ) (l : Kin.LinkIn ℝ)
    (h1 : ∀ d t, l.dofs = [d] → Spring.oneDof true lk j jd d t = Spring.oneDof false lk j jd d t)
    (h2 : ∀ d0 d1 t0 t1, l.dofs = [d0, d1] →
      Spring.twoDof true lk j jd d0 d1 t0 t1 = Spring.twoDof false lk j jd d0 d1 t0 t1)
    (h3 : ∀ d0 d1 d2 t0 t1 t2, l.dofs = [d0, d1, d2] →
      Spring.threeDof true lk j jd d0 d1 d2 t0 t1 t2 = Spring.threeDof false lk j jd d0 d1 d2 t0 t1 t2) :
    Spring.jointForce true lk j jd l = Spring.jointForce false lk j jd l := by
  rcases l with ⟨typ, q, qd, dofs⟩
  simp only at h1 h2 h3
  cases typ <;> rcases dofs with _ | ⟨d0, _ | ⟨d1, _ | ⟨d2, _ | ⟨d3, dt⟩⟩⟩⟩ <;>
    rcases qd with _ | ⟨t0, _ | ⟨t1, _ | ⟨t2, _ | ⟨t3, tt⟩⟩⟩⟩ <;>
    first
      | exact h1 _ _ rfl
      | exact h2 _ _ _ _ rfl
      | exact h3 _ _ _ _ _ _ rfl
      | rfl

theorem not_v3Any_zero {P : Prop} (h : v3Any (⟨0, 0, 0⟩ : V3 ℝ) = true) : P := by
  rw [v3Any_zero_lit] at h; cases h

/-- **hinge, `j = jcalc q`**: the measured `psi` is `q` -/
theorem oneDof_limit_inert_hinge (lk : LinkP ℝ) (jd : Motion ℝ) (d : DofP ℝ) (a : V3 ℝ)
    (q qd tau : ℝ) (hdm : d.motion = ⟨a, ⟨0, 0, 0⟩⟩) (ha : V3.dot a a = 1)
    (h1 : -Real.pi < q) (h2 : q ≤ Real.pi) (hl : InLim q d.lo d.hi) :
    Spring.oneDof true lk (Kin.jcalc ⟨.one, [q], [qd], [d]⟩).1 jd d tau
      = Spring.oneDof false lk (Kin.jcalc ⟨.one, [q], [qd], [d]⟩).1 jd d tau := by
  have hA := v3Any_unit a ha
  obtain ⟨hb, hab, hc⟩ := Inv.orthogonals_spec a ha
  have hj : (Kin.jcalc ⟨.one, [q], [qd], [d]⟩).1 = ⟨⟨0, 0, 0⟩, quatRotAxis a q⟩ := by
    rw [Inv.jcalc_one_hinge d q qd (by rw [hdm]; exact ha) (by rw [hdm]), hdm]
    simp only [zero_mul]
  have hfr : frame1 d.motion = ⟨⟨a, (Inv.orthogonals a).1, V3.cross a (Inv.orthogonals a).1⟩, eye, 1⟩ := by
    simp [frame1, hdm, hA, v3Any_zero_lit, orth_eq, hc]
  rw [hj]
  apply oneDof_limit_inert
  have hv : v3Any d.motion.vel = false := by rw [hdm]; exact v3Any_zero_lit
  rw [hv]
  simp only [Bool.false_eq_true, if_false]
  rw [hfr]; simp only
  rw [aa_psi, (Inv.hinge_psi a (Inv.orthogonals a).1 ⟨0, 0, 0⟩ q 1 ha hb hab h1 h2).1]
  exact hl

/-- **slide, `j = jcalc q`**: the measured offset `j.pos · axis` is `q` -/
theorem oneDof_limit_inert_slide (lk : LinkP ℝ) (jd : Motion ℝ) (d : DofP ℝ) (e : V3 ℝ)
    (q qd tau : ℝ) (hdm : d.motion = ⟨⟨0, 0, 0⟩, e⟩) (he : V3.dot e e = 1)
    (hq : |q| ≤ 2) (hl : InLim q d.lo d.hi) :
    Spring.oneDof true lk (Kin.jcalc ⟨.one, [q], [qd], [d]⟩).1 jd d tau
      = Spring.oneDof false lk (Kin.jcalc ⟨.one, [q], [qd], [d]⟩).1 jd d tau := by
  have hE := v3Any_unit e he
  have hj : (Kin.jcalc ⟨.one, [q], [qd], [d]⟩).1 = ⟨V3.smul q e, Q4.one⟩ := by
    rw [Inv.jcalc_slides1 d e q qd hdm hq]
    simp only
    rw [smul_1]
    rfl
  have hdv : d.motion.vel = e := by rw [hdm]
  have hfv : (frame1 d.motion).vel.r0 = e := by
    simp [frame1, hdm, hE, v3Any_zero_lit]
  rw [hj]
  apply oneDof_limit_inert
  rw [hdv, hE]
  simp only [if_true]
  rw [hfv]
  have : V3.dot (V3.smul q e) e = q := by
    simp only [V3.dot] at he ⊢
    simp only [V3.smul]
    linear_combination q * he
  rw [this]
  exact hl

/-- **two hinges (orthonormal axes), `j = jcalc (q0, q1)`**: measured `(psi, theta) = (q0, q1)` -/
theorem twoDof_limit_inert_hh (lk : LinkP ℝ) (jd : Motion ℝ) (d0 d1 : DofP ℝ) (a0 a1 : V3 ℝ)
    (hd0 : d0.motion = ⟨a0, ⟨0, 0, 0⟩⟩) (hd1 : d1.motion = ⟨a1, ⟨0, 0, 0⟩⟩)
    (h00 : V3.dot a0 a0 = 1) (h11 : V3.dot a1 a1 = 1) (h01 : V3.dot a0 a1 = 0)
    (q0 q1 qd0 qd1 t0 t1 : ℝ) (hq0 : -Real.pi < q0) (hq0' : q0 ≤ Real.pi) (hq1 : |q1| ≤ 6 / 5)
    (hl0 : InLim q0 d0.lo d0.hi) (hl1 : InLim q1 d1.lo d1.hi) :
    Spring.twoDof true lk (Kin.jcalc ⟨.two, [q0, q1], [qd0, qd1], [d0, d1]⟩).1 jd d0 d1 t0 t1
      = Spring.twoDof false lk (Kin.jcalc ⟨.two, [q0, q1], [qd0, qd1], [d0, d1]⟩).1 jd d0 d1 t0 t1 := by
  rw [Inv.jcalc_two_hinges d0 d1 a0 a1 q0 q1 qd0 qd1 hd0 hd1 h00 h11]
  have hA0 := v3Any_unit a0 h00
  have hA1 := v3Any_unit a1 h11
  have hfr : (frame2 d0.motion d1.motion).ang = ⟨a0, a1, V3.cross a0 a1⟩ := by
    simp [frame2, hd0, hd1, hA0, hA1, v3Any_zero_lit]
  have hang := Inv.hinge2_angles a0 a1 h00 h11 h01 ⟨0, 0, 0⟩ q0 q1
    (frame2 d0.motion d1.motion).parity hq0 hq0' hq1
  apply twoDof_limit_inert
  · intro _; rw [hfr, aa_psi, hang.1]; exact hl0
  · intro _; rw [hfr, aa_theta, hang.2]; exact hl1
  · intro hv; rw [hd0] at hv; exact not_v3Any_zero hv
  · intro hv; rw [hd1] at hv; exact not_v3Any_zero hv

/-- **three hinges, orthonormal axes of either handedness (`a2 = ±a0×a1`; the left-handed case is the
configuration of defect D7), `j = jcalc (q0, q1, q2)`**: measured `(psi, theta, phi) = (q0, q1, q2)` -/
theorem threeDof_limit_inert_hhh (lk : LinkP ℝ) (jd : Motion ℝ) (d0 d1 d2 : DofP ℝ)
    (a0 a1 a2 : V3 ℝ) (hd0 : d0.motion = ⟨a0, ⟨0, 0, 0⟩⟩) (hd1 : d1.motion = ⟨a1, ⟨0, 0, 0⟩⟩)
    (hd2 : d2.motion = ⟨a2, ⟨0, 0, 0⟩⟩)
    (h00 : V3.dot a0 a0 = 1) (h11 : V3.dot a1 a1 = 1) (h01 : V3.dot a0 a1 = 0)
    (h2 : a2 = V3.cross a0 a1 ∨ a2 = -V3.cross a0 a1)
    (q0 q1 q2 qd0 qd1 qd2 t0 t1 t2 : ℝ) (hq0 : -Real.pi < q0) (hq0' : q0 ≤ Real.pi)
    (hq1 : |q1| ≤ 6 / 5) (hq2 : -Real.pi < q2) (hq2' : q2 ≤ Real.pi)
    (hl0 : InLim q0 d0.lo d0.hi) (hl1 : InLim q1 d1.lo d1.hi) (hl2 : InLim q2 d2.lo d2.hi) :
    Spring.threeDof true lk (Kin.jcalc ⟨.three, [q0, q1, q2], [qd0, qd1, qd2], [d0, d1, d2]⟩).1
        jd d0 d1 d2 t0 t1 t2
      = Spring.threeDof false lk (Kin.jcalc ⟨.three, [q0, q1, q2], [qd0, qd1, qd2], [d0, d1, d2]⟩).1
        jd d0 d1 d2 t0 t1 t2 := by
  obtain ⟨σ, hσ, ha2⟩ : ∃ σ : ℝ, σ * σ = 1 ∧ a2 = Inv.L a0 a1 ⟨0, 0, σ⟩ := by
    rcases h2 with h | h
    · exact ⟨1, by norm_num, by rw [h]; simp [Inv.L]⟩
    · exact ⟨-1, by norm_num, by rw [h]; simp [Inv.L, V3.neg_def]⟩
  have h22 : V3.dot a2 a2 = 1 := by rw [ha2, Inv.L_dot a0 a1 h00 h11 h01]; simp [V3.dot, hσ]
  rw [Inv.jcalc_three_hinges d0 d1 d2 a0 a1 a2 q0 q1 q2 qd0 qd1 qd2 hd0 hd1 hd2 h00 h11 h22]
  have hA0 := v3Any_unit a0 h00
  have hA1 := v3Any_unit a1 h11
  have hA2 := v3Any_unit a2 h22
  have hpar : V3.dot (V3.cross a0 a1) a2 = σ := by
    rw [ha2, ← Inv.L_e2 a0 a1, Inv.L_dot a0 a1 h00 h11 h01]; simp [V3.dot]
  have hfr : (frame3 d0.motion d1.motion d2.motion).ang = ⟨a0, a1, V3.cross a0 a1⟩ := by
    simp [frame3, hd0, hd1, hd2, hA0, hA1, hA2, v3Any_zero_lit]
  have hpr : (frame3 d0.motion d1.motion d2.motion).parity = σ := by
    simp [frame3, hd0, hd1, hd2, hA0, hA1, hA2, v3Any_zero_lit, hpar]
  have hang := Inv.hinge3_angles a0 a1 h00 h11 h01 ⟨0, 0, 0⟩ σ q0 q1 q2 hσ hq0 hq0' hq1 hq2 hq2'
  simp only at hang
  rw [← ha2] at hang
  apply threeDof_limit_inert
  · intro _; rw [hfr, hpr, aa_psi, hang.1]; exact hl0
  · intro _; rw [hfr, hpr, aa_theta, hang.2.1]; exact hl1
  · intro _; rw [hfr, hpr, aa_phi, hang.2.2]; exact hl2
  · intro hv; rw [hd0] at hv; exact not_v3Any_zero hv
  · intro hv; rw [hd1] at hv; exact not_v3Any_zero hv
  · intro hv; rw [hd2] at hv; exact not_v3Any_zero hv

/-- **two slides (orthonormal axes), `j = jcalc (q0, q1)`**: measured offsets `j.pos · e_k = q_k` -/
theorem twoDof_limit_inert_ss (lk : LinkP ℝ) (jd : Motion ℝ) (d0 d1 : DofP ℝ) (e0 e1 : V3 ℝ)
    (hd0 : d0.motion = ⟨⟨0, 0, 0⟩, e0⟩) (hd1 : d1.motion = ⟨⟨0, 0, 0⟩, e1⟩)
    (h00 : V3.dot e0 e0 = 1) (h11 : V3.dot e1 e1 = 1) (h01 : V3.dot e0 e1 = 0)
    (q0 q1 qd0 qd1 t0 t1 : ℝ) (hq0 : |q0| ≤ 2) (hq1 : |q1| ≤ 2)
    (hl0 : InLim q0 d0.lo d0.hi) (hl1 : InLim q1 d1.lo d1.hi) :
    Spring.twoDof true lk (Kin.jcalc ⟨.two, [q0, q1], [qd0, qd1], [d0, d1]⟩).1 jd d0 d1 t0 t1
      = Spring.twoDof false lk (Kin.jcalc ⟨.two, [q0, q1], [qd0, qd1], [d0, d1]⟩).1 jd d0 d1 t0 t1 := by
  rw [Inv.jcalc_slides2 d0 d1 e0 e1 q0 q1 qd0 qd1 hd0 hd1 hq0 hq1]
  simp only
  rw [smul_add2]
  have hd0v : d0.motion.vel = e0 := by rw [hd0]
  have hd1v : d1.motion.vel = e1 := by rw [hd1]
  have hdot0 : V3.dot (V3.smul q0 e0 + V3.smul q1 e1) e0 = q0 := by
    simp only [V3.dot] at h00 h01 ⊢
    simp only [V3.smul, V3.add_def]
    linear_combination q0 * h00 + q1 * h01
  have hdot1 : V3.dot (V3.smul q0 e0 + V3.smul q1 e1) e1 = q1 := by
    simp only [V3.dot] at h11 h01 ⊢
    simp only [V3.smul, V3.add_def]
    linear_combination q0 * h01 + q1 * h11
  apply twoDof_limit_inert
  · intro hv; rw [hd0] at hv; exact not_v3Any_zero hv
  · intro hv; rw [hd1] at hv; exact not_v3Any_zero hv
  · intro _; simp only [hd0v]; rw [hdot0]; exact hl0
  · intro _; simp only [hd1v]; rw [hdot1]; exact hl1

/-- **three slides (orthonormal axes), `j = jcalc (q0, q1, q2)`** -/
theorem threeDof_limit_inert_sss (lk : LinkP ℝ) (jd : Motion ℝ) (d0 d1 d2 : DofP ℝ)
    (e0 e1 e2 : V3 ℝ)
    (hd0 : d0.motion = ⟨⟨0, 0, 0⟩, e0⟩) (hd1 : d1.motion = ⟨⟨0, 0, 0⟩, e1⟩)
    (hd2 : d2.motion = ⟨⟨0, 0, 0⟩, e2⟩)
    (h00 : V3.dot e0 e0 = 1) (h11 : V3.dot e1 e1 = 1) (h22 : V3.dot e2 e2 = 1)
    (h01 : V3.dot e0 e1 = 0) (h02 : V3.dot e0 e2 = 0) (h12 : V3.dot e1 e2 = 0)
    (q0 q1 q2 qd0 qd1 qd2 t0 t1 t2 : ℝ) (hq0 : |q0| ≤ 2) (hq1 : |q1| ≤ 2) (hq2 : |q2| ≤ 2)
    (hl0 : InLim q0 d0.lo d0.hi) (hl1 : InLim q1 d1.lo d1.hi) (hl2 : InLim q2 d2.lo d2.hi) :
    Spring.threeDof true lk (Kin.jcalc ⟨.three, [q0, q1, q2], [qd0, qd1, qd2], [d0, d1, d2]⟩).1
        jd d0 d1 d2 t0 t1 t2
      = Spring.threeDof false lk (Kin.jcalc ⟨.three, [q0, q1, q2], [qd0, qd1, qd2], [d0, d1, d2]⟩).1
        jd d0 d1 d2 t0 t1 t2 := by
  rw [Inv.jcalc_slides3 d0 d1 d2 e0 e1 e2 q0 q1 q2 qd0 qd1 qd2 hd0 hd1 hd2 hq0 hq1 hq2]
  simp only
  rw [smul_add3]
  have hd0v : d0.motion.vel = e0 := by rw [hd0]
  have hd1v : d1.motion.vel = e1 := by rw [hd1]
  have hd2v : d2.motion.vel = e2 := by rw [hd2]
  have hdot0 : V3.dot e0 (V3.smul q0 e0 + V3.smul q1 e1 + V3.smul q2 e2) = q0 := by
    simp only [V3.dot] at h00 h01 h02 ⊢
    simp only [V3.smul, V3.add_def]
    linear_combination q0 * h00 + q1 * h01 + q2 * h02
  have hdot1 : V3.dot e1 (V3.smul q0 e0 + V3.smul q1 e1 + V3.smul q2 e2) = q1 := by
    simp only [V3.dot] at h11 h01 h12 ⊢
    simp only [V3.smul, V3.add_def]
    linear_combination q0 * h01 + q1 * h11 + q2 * h12
  have hdot2 : V3.dot e2 (V3.smul q0 e0 + V3.smul q1 e1 + V3.smul q2 e2) = q2 := by
    simp only [V3.dot] at h22 h02 h12 ⊢
    simp only [V3.smul, V3.add_def]
    linear_combination q0 * h02 + q1 * h12 + q2 * h22
  apply threeDof_limit_inert
  · intro hv; rw [hd0] at hv; exact not_v3Any_zero hv
  · intro hv; rw [hd1] at hv; exact not_v3Any_zero hv
  · intro hv; rw [hd2] at hv; exact not_v3Any_zero hv
  · intro _; simp only [hd0v]; rw [hdot0]; exact hl0
  · intro _; simp only [hd1v]; rw [hdot1]; exact hl1
  · intro _; simp only [hd2v]; rw [hdot2]; exact hl2

/-- **slide then hinge (unit axes), `j = jcalc (q0, q1)`**: offset `j.pos · e = q0`, the hinge angle is
the `theta` of `axis_angle_ang` in the `is_both` frame `(a×b, a, b)` and equals `q1` -/
theorem twoDof_limit_inert_sh (lk : LinkP ℝ) (jd : Motion ℝ) (ds dh : DofP ℝ) (e a : V3 ℝ)
    (hs : ds.motion = ⟨⟨0, 0, 0⟩, e⟩) (hh : dh.motion = ⟨a, ⟨0, 0, 0⟩⟩)
    (hee : V3.dot e e = 1) (haa : V3.dot a a = 1)
    (q0 q1 qd0 qd1 t0 t1 : ℝ) (hq0 : |q0| ≤ 2) (hq1 : |q1| ≤ 6 / 5)
    (hl0 : InLim q0 ds.lo ds.hi) (hl1 : InLim q1 dh.lo dh.hi) :
    Spring.twoDof true lk (Kin.jcalc ⟨.two, [q0, q1], [qd0, qd1], [ds, dh]⟩).1 jd ds dh t0 t1
      = Spring.twoDof false lk (Kin.jcalc ⟨.two, [q0, q1], [qd0, qd1], [ds, dh]⟩).1 jd ds dh t0 t1 := by
  rw [Inv.jcalc_slide_hinge ds dh a e q0 q1 qd0 qd1 hs hh haa hq0]
  simp only
  rw [smul_1]
  have hA := v3Any_unit a haa
  have hE := v3Any_unit e hee
  obtain ⟨hb, hab, hc⟩ := Inv.orthogonals_spec a haa
  have hth := Inv.hinge_theta a (Inv.orthogonals a).1 (V3.smul q0 e) q1 haa hb hab hq1
  have hfr : (frame2 ds.motion dh.motion).ang
      = ⟨V3.cross a (Inv.orthogonals a).1, a, (Inv.orthogonals a).1⟩ := by
    simp [frame2, hs, hh, hA, hE, v3Any_zero_lit, orth_eq, hc, Inv.cross_cross_a a _ haa hab]
  have hpr : (frame2 ds.motion dh.motion).parity = 1 := rfl
  have hdsv : ds.motion.vel = e := by rw [hs]
  have hdot : V3.dot (V3.smul q0 e) e = q0 := by
    simp only [V3.dot] at hee ⊢
    simp only [V3.smul]
    linear_combination q0 * hee
  apply twoDof_limit_inert
  · intro hv; rw [hs] at hv; exact not_v3Any_zero hv
  · intro _; rw [hfr, hpr, aa_theta, hth.1]; exact hl1
  · intro _; simp only [hdsv]; rw [hdot]; exact hl0
  · intro hv; rw [hh] at hv; exact not_v3Any_zero hv

/-- **two slides then a hinge (orthonormal slide axes, unit hinge axis), `j = jcalc (q0,q1,q2)`**: the
hinge angle is the `phi` of `axis_angle_ang` in the frame `(b, a×b, a)` and equals `q2` -/
theorem threeDof_limit_inert_ssh (lk : LinkP ℝ) (jd : Motion ℝ) (d0 d1 dh : DofP ℝ)
    (e0 e1 a : V3 ℝ)
    (h0 : d0.motion = ⟨⟨0, 0, 0⟩, e0⟩) (h1 : d1.motion = ⟨⟨0, 0, 0⟩, e1⟩)
    (hh : dh.motion = ⟨a, ⟨0, 0, 0⟩⟩)
    (h00 : V3.dot e0 e0 = 1) (h11 : V3.dot e1 e1 = 1) (h01 : V3.dot e0 e1 = 0)
    (haa : V3.dot a a = 1)
    (q0 q1 q2 qd0 qd1 qd2 t0 t1 t2 : ℝ) (hq0 : |q0| ≤ 2) (hq1 : |q1| ≤ 2)
    (hq2 : -Real.pi < q2) (hq2' : q2 ≤ Real.pi)
    (hl0 : InLim q0 d0.lo d0.hi) (hl1 : InLim q1 d1.lo d1.hi) (hl2 : InLim q2 dh.lo dh.hi) :
    Spring.threeDof true lk (Kin.jcalc ⟨.three, [q0, q1, q2], [qd0, qd1, qd2], [d0, d1, dh]⟩).1
        jd d0 d1 dh t0 t1 t2
      = Spring.threeDof false lk (Kin.jcalc ⟨.three, [q0, q1, q2], [qd0, qd1, qd2], [d0, d1, dh]⟩).1
        jd d0 d1 dh t0 t1 t2 := by
  rw [Inv.jcalc_slide_slide_hinge d0 d1 dh a e0 e1 q0 q1 q2 qd0 qd1 qd2 h0 h1 hh haa hq0 hq1]
  simp only
  rw [smul_add2]
  have hA := v3Any_unit a haa
  have hE := v3Any_unit e0 h00
  obtain ⟨hb, hab, hc⟩ := Inv.orthogonals_spec a haa
  have hph := Inv.hinge_phi a (Inv.orthogonals a).1 (V3.smul q0 e0 + V3.smul q1 e1) q2 haa hb hab hq2 hq2'
  have hfr : (frame3 d0.motion d1.motion dh.motion).ang
      = ⟨(Inv.orthogonals a).1, V3.cross a (Inv.orthogonals a).1, a⟩ := by
    simp [frame3, h0, h1, hh, hA, hE, v3Any_zero_lit, orth_eq, hc, Inv.cross_b_cross a _ hb hab]
  have hpr : (frame3 d0.motion d1.motion dh.motion).parity = 1 := by
    simp [frame3, h0, h1, hh, hA, hE, v3Any_zero_lit]
  have hd0v : d0.motion.vel = e0 := by rw [h0]
  have hd1v : d1.motion.vel = e1 := by rw [h1]
  have hdot0 : V3.dot e0 (V3.smul q0 e0 + V3.smul q1 e1) = q0 := by
    simp only [V3.dot] at h00 h01 ⊢
    simp only [V3.smul, V3.add_def]
    linear_combination q0 * h00 + q1 * h01
  have hdot1 : V3.dot e1 (V3.smul q0 e0 + V3.smul q1 e1) = q1 := by
    simp only [V3.dot] at h11 h01 ⊢
    simp only [V3.smul, V3.add_def]
    linear_combination q0 * h01 + q1 * h11
  apply threeDof_limit_inert
  · intro hv; rw [h0] at hv; exact not_v3Any_zero hv
  · intro hv; rw [h1] at hv; exact not_v3Any_zero hv
  · intro _; rw [hfr, hpr, aa_phi, hph.1]; exact hl2
  · intro _; simp only [hd0v]; rw [hdot0]; exact hl0
  · intro _; simp only [hd1v]; rw [hdot1]; exact hl1
  · intro hv; rw [hh] at hv; exact not_v3Any_zero hv

/-- **Spring pipeline, one link, hypothesis on `q`.**  `lq` is the link's slice of `(q, qd, dofs)` in a
pure joint configuration of a supported kind with `q` inside every range (`PureOne true` / `PureStack
true`: the `hasLimit = true → InLim …` clauses are the range hypotheses); `l` is the slice
`joints.resolve` hands to the per-type function (`l.qd` carries `tau`, arbitrary).  Then the joint
force with `dof.limit` equals the joint force with `dof.limit = None`, for ANY `jd` and `tau`. -/
theorem jointForce_limit_inert_q (lk : LinkP ℝ) (lq l : Kin.LinkIn ℝ) (jd : Motion ℝ)
    (h : PureOne true lq ∨ PureStack true lq) (hd : l.dofs = lq.dofs) :
    Spring.jointForce true lk (Kin.jcalc lq).1 jd l
      = Spring.jointForce false lk (Kin.jcalc lq).1 jd l := by
  rcases h with h | h
  · cases h with
    | hinge d a q qd hlq hdm ha h1 h2 hl =>
      subst hlq
      apply jointForce_limit_congr
      · intro d' t hd'; rw [hd] at hd'
        simp only [List.cons.injEq, and_true] at hd'; subst hd'
        exact oneDof_limit_inert_hinge lk jd _ a q qd t hdm ha h1 h2 (hl rfl)
      · intro d0 d1 t0 t1 hd'; rw [hd] at hd'; simp at hd'
      · intro d0 d1 d2 t0 t1 t2 hd'; rw [hd] at hd'; simp at hd'
    | slide d e q qd hlq hdm he hq hl =>
      subst hlq
      apply jointForce_limit_congr
      · intro d' t hd'; rw [hd] at hd'
        simp only [List.cons.injEq, and_true] at hd'; subst hd'
        exact oneDof_limit_inert_slide lk jd _ e q qd t hdm he hq (hl rfl)
      · intro d0 d1 t0 t1 hd'; rw [hd] at hd'; simp at hd'
      · intro d0 d1 d2 t0 t1 t2 hd'; rw [hd] at hd'; simp at hd'
  · cases h with
    | hh d0 d1 a0 a1 q0 q1 qd0 qd1 hlq hd0 hd1 h00 h11 h01 hq0 hq0' hq1 hl0 hl1 =>
      subst hlq
      apply jointForce_limit_congr
      · intro d' t hd'; rw [hd] at hd'; simp at hd'
      · intro d0' d1' t0 t1 hd'; rw [hd] at hd'
        simp only [List.cons.injEq, and_true] at hd'; obtain ⟨rfl, rfl⟩ := hd'
        exact twoDof_limit_inert_hh lk jd _ _ a0 a1 hd0 hd1 h00 h11 h01 q0 q1 qd0 qd1 t0 t1 hq0 hq0'
          hq1 (hl0 rfl) (hl1 rfl)
      · intro d0 d1 d2 t0 t1 t2 hd'; rw [hd] at hd'; simp at hd'
    | hhh d0 d1 d2 a0 a1 a2 q0 q1 q2 qd0 qd1 qd2 hlq hd0 hd1 hd2 h00 h11 h01 h2 hq0 hq0' hq1 hq2 hq2'
        hl0 hl1 hl2 =>
      subst hlq
      apply jointForce_limit_congr
      · intro d' t hd'; rw [hd] at hd'; simp at hd'
      · intro d0 d1 t0 t1 hd'; rw [hd] at hd'; simp at hd'
      · intro d0' d1' d2' t0 t1 t2 hd'; rw [hd] at hd'
        simp only [List.cons.injEq, and_true] at hd'; obtain ⟨rfl, rfl, rfl⟩ := hd'
        exact threeDof_limit_inert_hhh lk jd _ _ _ a0 a1 a2 hd0 hd1 hd2 h00 h11 h01 h2 q0 q1 q2
          qd0 qd1 qd2 t0 t1 t2 hq0 hq0' hq1 hq2 hq2' (hl0 rfl) (hl1 rfl) (hl2 rfl)
    | ss d0 d1 e0 e1 q0 q1 qd0 qd1 hlq hd0 hd1 h00 h11 h01 hq0 hq1 hl0 hl1 =>
      subst hlq
      apply jointForce_limit_congr
      · intro d' t hd'; rw [hd] at hd'; simp at hd'
      · intro d0' d1' t0 t1 hd'; rw [hd] at hd'
        simp only [List.cons.injEq, and_true] at hd'; obtain ⟨rfl, rfl⟩ := hd'
        exact twoDof_limit_inert_ss lk jd _ _ e0 e1 hd0 hd1 h00 h11 h01 q0 q1 qd0 qd1 t0 t1 hq0 hq1
          (hl0 rfl) (hl1 rfl)
      · intro d0 d1 d2 t0 t1 t2 hd'; rw [hd] at hd'; simp at hd'
    | sss d0 d1 d2 e0 e1 e2 q0 q1 q2 qd0 qd1 qd2 hlq hd0 hd1 hd2 h00 h11 h22 h01 h02 h12 hq0 hq1 hq2
        hl0 hl1 hl2 =>
      subst hlq
      apply jointForce_limit_congr
      · intro d' t hd'; rw [hd] at hd'; simp at hd'
      · intro d0 d1 t0 t1 hd'; rw [hd] at hd'; simp at hd'
      · intro d0' d1' d2' t0 t1 t2 hd'; rw [hd] at hd'
        simp only [List.cons.injEq, and_true] at hd'; obtain ⟨rfl, rfl, rfl⟩ := hd'
        exact threeDof_limit_inert_sss lk jd _ _ _ e0 e1 e2 hd0 hd1 hd2 h00 h11 h22 h01 h02 h12
          q0 q1 q2 qd0 qd1 qd2 t0 t1 t2 hq0 hq1 hq2 (hl0 rfl) (hl1 rfl) (hl2 rfl)
    | sh ds dh e a q0 q1 qd0 qd1 hlq hs hh hee haa hq0 hq1 hl0 hl1 =>
      subst hlq
      apply jointForce_limit_congr
      · intro d' t hd'; rw [hd] at hd'; simp at hd'
      · intro d0' d1' t0 t1 hd'; rw [hd] at hd'
        simp only [List.cons.injEq, and_true] at hd'; obtain ⟨rfl, rfl⟩ := hd'
        exact twoDof_limit_inert_sh lk jd _ _ e a hs hh hee haa q0 q1 qd0 qd1 t0 t1 hq0 hq1
          (hl0 rfl) (hl1 rfl)
      · intro d0 d1 d2 t0 t1 t2 hd'; rw [hd] at hd'; simp at hd'
    | ssh d0 d1 dh e0 e1 a q0 q1 q2 qd0 qd1 qd2 hlq h0 h1 hh h00 h11 h01 haa hq0 hq1 hq2 hq2'
        hl0 hl1 hl2 =>
      subst hlq
      apply jointForce_limit_congr
      · intro d' t hd'; rw [hd] at hd'; simp at hd'
      · intro d0 d1 t0 t1 hd'; rw [hd] at hd'; simp at hd'
      · intro d0' d1' d2' t0 t1 t2 hd'; rw [hd] at hd'
        simp only [List.cons.injEq, and_true] at hd'; obtain ⟨rfl, rfl, rfl⟩ := hd'
        exact threeDof_limit_inert_ssh lk jd _ _ _ e0 e1 a h0 h1 hh h00 h11 h01 haa
          q0 q1 q2 qd0 qd1 qd2 t0 t1 t2 hq0 hq1 hq2 hq2' (hl0 rfl) (hl1 rfl) (hl2 rfl)

/-- the model `s` with every range removed: `dof.limit = None` (what `mjcf` produces for the twin
without any `range`/`limited` attribute) -/
def noLimits (s : Sys ℝ) : Sys ℝ := { s with hasLimit := false }

/-- every non-free link of the state is in a pure joint configuration `j_i = jcalc lq_i` of a supported
kind with `q` inside every range (`tau` only fixes which slices `scan.link_types` produces) -/
def AllPureInside (s : Sys ℝ) (j : List (Tf ℝ)) (tau : List ℝ) : Prop :=
  ∀ i l, i < s.numLinks → (Kin.linkSlices s.types ([] : List ℝ) tau s.dofs)[i]? = some l →
    l.typ = .free ∨ ∃ lq, (PureOne true lq ∨ PureStack true lq) ∧ l.dofs = lq.dofs
      ∧ nth j i = (Kin.jcalc lq).1

/-- **Spring pipeline, all links** (`jf = scan.link_types(sys, j_fn, …)`): with every non-free link in
a pure joint configuration with `q` inside every range, the joint forces of the model equal those of
the same model without limits, for ANY `jd` and `tau`. -/
theorem jointForces_limit_inert_q (s : Sys ℝ) (j : List (Tf ℝ)) (jd : List (Motion ℝ)) (tau : List ℝ)
    (h : AllPureInside s j tau) :
    Spring.jointForces s j jd tau = Spring.jointForces (noLimits s) j jd tau := by
  unfold Spring.jointForces noLimits
  apply tab_congr
  intro i hi
  simp only
  cases hl : (Kin.linkSlices s.types ([] : List ℝ) tau s.dofs)[i]? with
  | none => rfl
  | some l =>
    simp only
    cases hL : s.hasLimit
    · rfl
    · rcases h i l hi hl with hf | ⟨lq, hp, hd, hj⟩
      · unfold Spring.jointForce; rw [hf]
      · rw [hj]; exact jointForce_limit_inert_q _ lq l _ hp hd

/-- **`joints.resolve` of the spring pipeline** is the same with and without limits -/
theorem resolve_limit_inert_q (s : Sys ℝ) (st : Spring.State ℝ) (tau : List ℝ)
    (h : AllPureInside s st.j tau) :
    Spring.resolve s st tau = Spring.resolve (noLimits s) st tau := by
  unfold Spring.resolve
  rw [jointForces_limit_inert_q s st.j st.jd tau h]
  rfl

end springQ

/-! ### the whole spring step -/
section stepQ
variable (inv : List (Tf ℝ) → List (Motion ℝ) → List ℝ × List ℝ)
  (cf : List (Tf ℝ) → List (Contact ℝ))

/-- `Spring.step` cut into stages, the joint-constraint forces `xf_i = joints.resolve(…)` passed in:
A = inverse inertia + acceleration update, B = collisions + integration, C/D/E = back to world and
joint coordinates -/
noncomputable def stA (xf_i : List (Force ℝ)) (s : Sys ℝ) (st : Spring.State ℝ) : Spring.State ℝ :=
  let st := { st with i_inv := Com.invInertia s st.x }
  { st with xd_i := Spring.accelerate s st.i_inv st.mass st.xd_i xf_i }

noncomputable def stB (s : Sys ℝ) (st : Spring.State ℝ) : List (Tf ℝ) × List (Motion ℝ) :=
  Spring.integrate s st.x_i st.xd_i (Spring.collide s st (cf st.x))

noncomputable def stE (st : Spring.State ℝ) (xi : List (Tf ℝ) × List (Motion ℝ))
    (xw : List (Tf ℝ) × List (Motion ℝ)) (w : List (Tf ℝ × Motion ℝ × Tf ℝ × Tf ℝ)) :
    Spring.State ℝ :=
  let j := w.map (·.1)
  let jd := w.map (·.2.1)
  let qq := inv j jd
  { st with q := qq.1, qd := qq.2, x := xw.1, xd := xw.2, x_i := xi.1, xd_i := xi.2,
            j := j, jd := jd, a_p := w.map (·.2.2.1), a_c := w.map (·.2.2.2) }

noncomputable def stD (s : Sys ℝ) (st : Spring.State ℝ) (xi xw : List (Tf ℝ) × List (Motion ℝ)) :
    Spring.State ℝ := stE inv st xi xw (Kin.worldToJoint s xw.1 xw.2)

noncomputable def stC (s : Sys ℝ) (st : Spring.State ℝ) (xi : List (Tf ℝ) × List (Motion ℝ)) :
    Spring.State ℝ := stD inv s st xi (Com.toWorld s xi.1 xi.2)

noncomputable def stepY (xf_i : List (Force ℝ)) (s : Sys ℝ) (st : Spring.State ℝ) : Spring.State ℝ :=
  stC inv s (stA xf_i s st) (stB cf s (stA xf_i s st))

theorem step_eq_stepY (s : Sys ℝ) (st : Spring.State ℝ) (act : List ℝ) :
    Spring.step inv cf s st act
      = stepY inv cf (Spring.resolve s { st with i_inv := Com.invInertia s st.x }
          (toTau s act st.q st.qd)) s st := rfl

theorem stA_noLimits (xf : List (Force ℝ)) (s : Sys ℝ) (st : Spring.State ℝ) :
    stA xf (noLimits s) st = stA xf s st := rfl
theorem stB_noLimits (s : Sys ℝ) (st : Spring.State ℝ) : stB cf (noLimits s) st = stB cf s st := rfl
theorem stD_noLimits (s : Sys ℝ) (st : Spring.State ℝ) (xi xw : List (Tf ℝ) × List (Motion ℝ)) :
    stD inv (noLimits s) st xi xw = stD inv s st xi xw := rfl
theorem stC_noLimits (s : Sys ℝ) (st : Spring.State ℝ) (xi : List (Tf ℝ) × List (Motion ℝ)) :
    stC inv (noLimits s) st xi = stC inv s st xi := by
  unfold stC; rw [stD_noLimits]; rfl
theorem stepY_noLimits (xf : List (Force ℝ)) (s : Sys ℝ) (st : Spring.State ℝ) :
    stepY inv cf xf (noLimits s) st = stepY inv cf xf s st := by
  unfold stepY; rw [stA_noLimits, stB_noLimits, stC_noLimits]

theorem step_limit_inert_q (s : Sys ℝ) (st : Spring.State ℝ) (act : List ℝ)
    (h : AllPureInside s st.j (toTau s act st.q st.qd)) :
    Spring.step inv cf s st act = Spring.step inv cf (noLimits s) st act := by
  have hr := resolve_limit_inert_q s { st with i_inv := Com.invInertia s st.x } _ h
  rw [step_eq_stepY, step_eq_stepY, hr, stepY_noLimits]
  rfl

/-- **One spring step from `pipeline.init(sys, q, 0)`, hypothesis entirely on `q`.**  For a whole tree
(`TreeOK`: what `Sys.WF` and `mjcf.load_model` give) whose link slices of `q` are free links with a
unit quaternion, 1-dof links or one of the six stack kinds with `q` inside every range
(`RestKind true`), `world_to_joint(forward(q, 0))` is `jcalc` of the slices (C04's `w2j_rest`, from
C08's `worldToJoint_forward_id`), so the step of the model equals the step of the same model without
limits — for any action, gravity, contacts and `inv`. -/
theorem step_init_limit_inert_q (s : Sys ℝ) (q act : List ℝ) (ht : C04I.TreeOK s)
    (hk : ∀ l ∈ C04I.ins s q, C04I.RestKind true l) :
    Spring.step inv cf s (Spring.init s q (List.replicate s.nv 0)) act
      = Spring.step inv cf (noLimits s) (Spring.init s q (List.replicate s.nv 0)) act := by
  apply step_limit_inert_q
  intro i l' hi hl'
  obtain ⟨_, hW⟩ := C04I.w2j_rest s q ht (fun l hl => C04I.restKind_unit (hk l hl))
  obtain ⟨l, a_p, a_c, hl, hw⟩ := hW i hi
  have hjv : nth (Spring.init s q (List.replicate s.nv 0)).j i = (Kin.jcalc l).1 :=
    C04I.nth_map_of_getElem? _ _ i _ hw
  obtain ⟨h1, h3⟩ := C04I.linkSlices_same' s.types q [] _ _ s.dofs i l l' hl hl'
  cases hk l (List.mem_of_getElem? hl) with
  | free p0 p1 p2 r0 r1 r2 r3 ds hlq hu => left; rw [h1, hlq]
  | one h => exact Or.inr ⟨l, Or.inl h, h3, hjv⟩
  | stack h => exact Or.inr ⟨l, Or.inr h, h3, hjv⟩

end stepQ

/-! ## positional pipeline -/
section positionalQ

theorem pureOne_noLimit {lq : Kin.LinkIn ℝ} (h : PureOne true lq) : PureOne false lq := by
  cases h with
  | hinge d a q qd hlq hdm ha h1 h2 hl =>
    exact PureOne.hinge d a q qd hlq hdm ha h1 h2 (fun hf => by cases hf)
  | slide d e q qd hlq hdm he hq hl =>
    exact PureOne.slide d e q qd hlq hdm he hq (fun hf => by cases hf)

theorem pureStack_noLimit {lq : Kin.LinkIn ℝ} (h : PureStack true lq) : PureStack false lq := by
  cases h with
  | hh d0 d1 a0 a1 q0 q1 qd0 qd1 hlq hd0 hd1 h00 h11 h01 hq0 hq0' hq1 hl0 hl1 =>
    exact PureStack.hh d0 d1 a0 a1 q0 q1 qd0 qd1 hlq hd0 hd1 h00 h11 h01 hq0 hq0' hq1
      (fun hf => by cases hf) (fun hf => by cases hf)
  | hhh d0 d1 d2 a0 a1 a2 q0 q1 q2 qd0 qd1 qd2 hlq hd0 hd1 hd2 h00 h11 h01 h2 hq0 hq0' hq1 hq2 hq2'
      hl0 hl1 hl2 =>
    exact PureStack.hhh d0 d1 d2 a0 a1 a2 q0 q1 q2 qd0 qd1 qd2 hlq hd0 hd1 hd2 h00 h11 h01 h2 hq0 hq0'
      hq1 hq2 hq2' (fun hf => by cases hf) (fun hf => by cases hf) (fun hf => by cases hf)
  | ss d0 d1 e0 e1 q0 q1 qd0 qd1 hlq hd0 hd1 h00 h11 h01 hq0 hq1 hl0 hl1 =>
    exact PureStack.ss d0 d1 e0 e1 q0 q1 qd0 qd1 hlq hd0 hd1 h00 h11 h01 hq0 hq1
      (fun hf => by cases hf) (fun hf => by cases hf)
  | sss d0 d1 d2 e0 e1 e2 q0 q1 q2 qd0 qd1 qd2 hlq hd0 hd1 hd2 h00 h11 h22 h01 h02 h12 hq0 hq1 hq2
      hl0 hl1 hl2 =>
    exact PureStack.sss d0 d1 d2 e0 e1 e2 q0 q1 q2 qd0 qd1 qd2 hlq hd0 hd1 hd2 h00 h11 h22 h01 h02 h12
      hq0 hq1 hq2 (fun hf => by cases hf) (fun hf => by cases hf) (fun hf => by cases hf)
  | sh ds dh e a q0 q1 qd0 qd1 hlq hs hh hee haa hq0 hq1 hl0 hl1 =>
    exact PureStack.sh ds dh e a q0 q1 qd0 qd1 hlq hs hh hee haa hq0 hq1
      (fun hf => by cases hf) (fun hf => by cases hf)
  | ssh d0 d1 dh e0 e1 a q0 q1 q2 qd0 qd1 qd2 hlq h0 h1 hh h00 h11 h01 haa hq0 hq1 hq2 hq2'
      hl0 hl1 hl2 =>
    exact PureStack.ssh d0 d1 dh e0 e1 a q0 q1 q2 qd0 qd1 qd2 hlq h0 h1 hh h00 h11 h01 haa hq0 hq1
      hq2 hq2' (fun hf => by cases hf) (fun hf => by cases hf) (fun hf => by cases hf)

/-- **Positional pipeline, one link, hypothesis on `q`.**  For a 1-dof link (`PureOne`) or one of the
six stack kinds (`PureStack`, the angle of a hinge in the middle of the stack outside the `allclose`
window: `StackMid`) in the pure joint configuration `jcalc q` with `q` inside every range,
`_three_dof_joint_update ∘ _sphericalize` gives the same joint displacement with `dof.limit` as with
`dof.limit = None` — both are zero: the clip of `limit_angle` leaves the measured angle `q` alone, and
without limits there is nothing to clip. -/
theorem threeDofJointUpdate_limit_inert_q (lq l : Kin.LinkIn ℝ)
    (h : PureOne true lq ∨ (PureStack true lq ∧ StackMid lq)) (ht : l.typ = lq.typ)
    (hd : l.dofs = lq.dofs) :
    Positional.threeDofJointUpdate (Kin.jcalc lq).1 (Positional.sphericalize true l).1
        (Positional.sphericalize true l).2
      = Positional.threeDofJointUpdate (Kin.jcalc lq).1 (Positional.sphericalize false l).1
        (Positional.sphericalize false l).2
    ∧ Positional.threeDofJointUpdate (Kin.jcalc lq).1 (Positional.sphericalize true l).1
        (Positional.sphericalize true l).2 = (⟨0, 0, 0⟩, ⟨0, 0, 0⟩) := by
  rcases h with h | ⟨h, hm⟩
  · have e1 := threeDofJointUpdate_pureOne true lq l h ht hd
    have e2 := threeDofJointUpdate_pureOne false lq l (pureOne_noLimit h) ht hd
    exact ⟨e1.trans e2.symm, e1⟩
  · have e1 := threeDofJointUpdate_pureStack true lq l h hm ht hd
    have e2 := threeDofJointUpdate_pureStack false lq l (pureStack_noLimit h) hm ht hd
    exact ⟨e1.trans e2.symm, e1⟩

/-- every non-free link is in a pure joint configuration `j_i = jcalc lq_i` of a supported kind with
`q` inside every range and the middle hinge angle outside the `allclose` window -/
def AllPureInsidePos (s : Sys ℝ) (j : List (Tf ℝ)) : Prop :=
  ∀ i l, i < s.numLinks → (Kin.linkSlices s.types ([] : List ℝ) [] s.dofs)[i]? = some l →
    l.typ = .free ∨ ∃ lq, (PureOne true lq ∨ (PureStack true lq ∧ StackMid lq))
      ∧ l.typ = lq.typ ∧ l.dofs = lq.dofs ∧ nth j i = (Kin.jcalc lq).1

/-- **Positional pipeline, all links**: the per-link joint displacements of `joints.position_update`
are the same with and without limits -/
theorem jointDisplacements_limit_inert_q (s : Sys ℝ) (j a_p : List (Tf ℝ))
    (h : AllPureInsidePos s j) :
    Positional.jointDisplacements s j a_p = Positional.jointDisplacements (noLimits s) j a_p := by
  unfold Positional.jointDisplacements noLimits
  apply tab_congr
  intro i hi
  simp only
  cases hl : (Kin.linkSlices s.types ([] : List ℝ) [] s.dofs)[i]? with
  | none => rfl
  | some l =>
    simp only
    cases hL : s.hasLimit
    · rfl
    · rcases h i l hi hl with hf | ⟨lq, hp, ht, hd, hj⟩
      · have hb : (LinkType.free != LinkType.free) = false := rfl
        simp only [hf, hb, maskV_false]
      · rw [hj, (threeDofJointUpdate_limit_inert_q lq l hp ht hd).1]

/-- **`joints.position_update`** (the joint transforms are those of `world_to_joint(x, xd)`, as the
function computes them) is the same with and without limits -/
theorem positionUpdate_limit_inert_q (s : Sys ℝ) (st : Positional.State ℝ)
    (h : AllPureInsidePos s ((Kin.worldToJoint s st.x st.xd).map (·.1))) :
    Positional.positionUpdate s st = Positional.positionUpdate (noLimits s) st := by
  unfold Positional.positionUpdate
  simp only
  rw [jointDisplacements_limit_inert_q s _ _ h]
  rfl

end positionalQ

/-! ## sharpness of the chart: a hinge beyond `±π` -/
section wrap

theorem rotate_neg_quat (v : V3 ℝ) (r : Q4 ℝ) : rotate v ⟨-r.w, -r.x, -r.y, -r.z⟩ = rotate v r := by
  simp only [rotate, Q4.vec, V3.dot, V3.cross, V3.mk.injEq]
  refine ⟨by ring, by ring, by ring⟩

theorem quatRotAxis_sub_two_pi (a : V3 ℝ) (q : ℝ) :
    quatRotAxis a (q - 2 * Real.pi)
      = ⟨-(quatRotAxis a q).w, -(quatRotAxis a q).x, -(quatRotAxis a q).y, -(quatRotAxis a q).z⟩ := by
  have h : (q - 2 * Real.pi) / (1 + 1) = q / (1 + 1) - Real.pi := by ring
  simp only [quatRotAxis, HasTrig.sin, HasTrig.cos, h, Real.sin_sub_pi, Real.cos_sub_pi, Q4.mk.injEq]
  refine ⟨trivial, by ring, by ring, by ring⟩

/-- `axis_angle_ang` sees the joint rotation only through `rotate`: turning a hinge by `q` and by
`q − 2π` gives the same measured angles -/
theorem axisAngleAng_sub_two_pi (p a : V3 ℝ) (q : ℝ) (f : M3 ℝ) (par : ℝ) :
    axisAngleAng ⟨p, quatRotAxis a q⟩ f par = axisAngleAng ⟨p, quatRotAxis a (q - 2 * Real.pi)⟩ f par := by
  simp only [axisAngleAng, quatRotAxis_sub_two_pi, rotate_neg_quat]

/-- **hinge beyond the chart: the spring pipeline measures `q ∈ (π, 3π]` as `q − 2π`.**  The joint
force with limits is the limit-free force plus the limit torque for the coordinate `q − 2π` — also
when `q` itself is inside `[lo, hi]`. -/
theorem oneDof_hinge_wrap (lk : LinkP ℝ) (jd : Motion ℝ) (d : DofP ℝ) (a : V3 ℝ)
    (q qd tau : ℝ) (hdm : d.motion = ⟨a, ⟨0, 0, 0⟩⟩) (ha : V3.dot a a = 1)
    (h1 : Real.pi < q) (h2 : q ≤ 3 * Real.pi) :
    Spring.oneDof true lk (Kin.jcalc ⟨.one, [q], [qd], [d]⟩).1 jd d tau
      = ⟨(Spring.oneDof false lk (Kin.jcalc ⟨.one, [q], [qd], [d]⟩).1 jd d tau).ang
          - V3.smul (lk.cLimitStiffness * Spring.limDelta (q - 2 * Real.pi) d.lo d.hi) a,
         (Spring.oneDof false lk (Kin.jcalc ⟨.one, [q], [qd], [d]⟩).1 jd d tau).vel⟩ := by
  have hA := v3Any_unit a ha
  obtain ⟨hb, hab, hc⟩ := Inv.orthogonals_spec a ha
  have hj : (Kin.jcalc ⟨.one, [q], [qd], [d]⟩).1 = ⟨⟨0, 0, 0⟩, quatRotAxis a q⟩ := by
    rw [Inv.jcalc_one_hinge d q qd (by rw [hdm]; exact ha) (by rw [hdm]), hdm]
    simp only [zero_mul]
  have hfr : frame1 d.motion = ⟨⟨a, (Inv.orthogonals a).1, V3.cross a (Inv.orthogonals a).1⟩, eye, 1⟩ := by
    simp [frame1, hdm, hA, v3Any_zero_lit, orth_eq, hc]
  have hv : v3Any d.motion.vel = false := by rw [hdm]; exact v3Any_zero_lit
  have hpsi : (axisAngleAng ⟨⟨0, 0, 0⟩, quatRotAxis a q⟩ (frame1 d.motion).ang
      (frame1 d.motion).parity).psi = q - 2 * Real.pi := by
    rw [axisAngleAng_sub_two_pi, hfr]
    simp only
    rw [aa_psi, (Inv.hinge_psi a (Inv.orthogonals a).1 ⟨0, 0, 0⟩ (q - 2 * Real.pi) 1 ha hb hab
      (by linarith) (by linarith)).1]
  have hfa0 : (frame1 d.motion).ang.r0 = a := by rw [hfr]
  rw [hj]
  unfold Spring.oneDof
  simp only [if_true, Bool.false_eq_true, if_false, hv, Bool.not_false, maskV_false, maskV_true,
    v3_sub_zero_lit, hpsi, hfa0]

/-- **the chart hypothesis `q ≤ π` of `PureOne.hinge` is necessary (known limitation of the spring
joint model, confirmed on the real code)**: a hinge with `lo ≤ q ≤ hi` but `π < q ≤ 3π` and
`q − 2π < lo` gets a non-zero limit torque `−k·(q − 2π − lo)·axis` although `q` is inside its range. -/
theorem oneDof_hinge_wrap_ne (lk : LinkP ℝ) (jd : Motion ℝ) (d : DofP ℝ) (a : V3 ℝ)
    (q qd tau l : ℝ) (hdm : d.motion = ⟨a, ⟨0, 0, 0⟩⟩) (ha : V3.dot a a = 1)
    (h1 : Real.pi < q) (h2 : q ≤ 3 * Real.pi) (hlo : d.lo = some l) (hl : q - 2 * Real.pi < l)
    (hhi : ∀ u, d.hi = some u → q - 2 * Real.pi ≤ u) (hk : lk.cLimitStiffness ≠ 0) :
    Spring.oneDof true lk (Kin.jcalc ⟨.one, [q], [qd], [d]⟩).1 jd d tau
      ≠ Spring.oneDof false lk (Kin.jcalc ⟨.one, [q], [qd], [d]⟩).1 jd d tau := by
  rw [oneDof_hinge_wrap lk jd d a q qd tau hdm ha h1 h2]
  have hdelta : Spring.limDelta (q - 2 * Real.pi) d.lo d.hi = q - 2 * Real.pi - l := by
    unfold Spring.limDelta
    rw [hlo]
    cases hu : d.hi with
    | none => simp only [if_pos hl]
    | some u => simp only [if_pos hl, if_neg (not_lt.mpr (hhi u hu))]
  rw [hdelta]
  intro heq
  have hang := congrArg Force.ang heq
  simp only at hang
  set F := (Spring.oneDof false lk (Kin.jcalc ⟨.one, [q], [qd], [d]⟩).1 jd d tau).ang with hF
  have hc : lk.cLimitStiffness * (q - 2 * Real.pi - l) ≠ 0 :=
    mul_ne_zero hk (ne_of_lt (by linarith))
  have hz : V3.smul (lk.cLimitStiffness * (q - 2 * Real.pi - l)) a = ⟨0, 0, 0⟩ := by
    have e : F - V3.smul (lk.cLimitStiffness * (q - 2 * Real.pi - l)) a = F := hang
    obtain ⟨fx, fy, fz⟩ := F
    simp only [V3.smul, V3.sub_def, V3.mk.injEq] at e ⊢
    exact ⟨by linarith [e.1], by linarith [e.2.1], by linarith [e.2.2]⟩
  simp only [V3.smul, V3.mk.injEq] at hz
  have : a = ⟨0, 0, 0⟩ := by
    obtain ⟨ax, ay, az⟩ := a
    simp only [V3.mk.injEq]
    exact ⟨(mul_eq_zero.mp hz.1).resolve_left hc, (mul_eq_zero.mp hz.2.1).resolve_left hc,
      (mul_eq_zero.mp hz.2.2).resolve_left hc⟩
  rw [this] at ha
  simp [V3.dot] at ha

end wrap

/-! ## generalized pipeline: the limit rows are inactive EXACTLY when `q` is inside the range -/
section generalizedQ
variable {K : Type} [Field K] [LinearOrder K] [IsStrictOrderedRing K] [HasPow K]

/-- `pos = min(min(q − lo, hi − q), 0) ≤ 0` always -/
theorem limitPos_nonpos (q : K) (lo hi : Option K) : limitPos q lo hi ≤ 0 := by
  unfold limitPos
  split
  · rw [minv_eq]; exact min_le_right _ _
  · exact le_refl 0

/-- converse of `limitPos_eq_zero`: a vanishing limit position puts `q` in the closed range -/
theorem inRange_of_limitPos_eq_zero {q : K} {lo hi : Option K} (h : limitPos q lo hi = 0) :
    InRange q lo hi := by
  unfold limitPos posMin posMax at h
  cases lo with
  | none =>
    cases hi with
    | none =>
      refine ⟨fun l hl => ?_, fun u hu => ?_⟩
      · cases hl
      · cases hu
    | some u =>
      simp only [Option.map, minE, minv_eq] at h
      have h0 : 0 ≤ u - q := min_eq_right_iff.mp h
      refine ⟨fun l hl => ?_, fun u' hu => ?_⟩
      · cases hl
      · cases hu; exact sub_nonneg.mp h0
  | some l =>
    cases hi with
    | none =>
      simp only [Option.map, minE, minv_eq] at h
      have h0 : 0 ≤ q - l := min_eq_right_iff.mp h
      refine ⟨fun l' hl => ?_, fun u hu => ?_⟩
      · cases hl; exact sub_nonneg.mp h0
      · cases hu
    | some u =>
      simp only [Option.map, minE, minv_eq] at h
      have h0 : 0 ≤ min (q - l) (u - q) := min_eq_right_iff.mp h
      refine ⟨fun l' hl => ?_, fun u' hu => ?_⟩
      · cases hl; exact sub_nonneg.mp (le_trans h0 (min_le_left _ _))
      · cases hu; exact sub_nonneg.mp (le_trans h0 (min_le_right _ _))

/-- **`pos = 0` exactly when `q` is in the closed range `[lo, hi]`** -/
theorem limitPos_eq_zero_iff {q : K} {lo hi : Option K} : limitPos q lo hi = 0 ↔ InRange q lo hi :=
  ⟨inRange_of_limitPos_eq_zero, limitPos_eq_zero⟩

/-- **the mask `pos < 0` of `jac_limit` holds exactly when `q` is outside the closed range** -/
theorem limitPos_neg_iff {q : K} {lo hi : Option K} : limitPos q lo hi < 0 ↔ ¬ InRange q lo hi := by
  rw [← limitPos_eq_zero_iff]
  exact ⟨fun h => ne_of_lt h, fun h => lt_of_le_of_ne (limitPos_nonpos q lo hi) h⟩

/-- outside the range `side = ±1`, never `0` -/
theorem limitSide_ne_zero {q : K} {lo hi : Option K} (h : ¬ InRange q lo hi) :
    limitSide q lo hi = 1 ∨ limitSide q lo hi = -1 := by
  unfold limitSide
  rw [if_pos (limitPos_neg_iff.mpr h)]
  split
  · left; norm_num
  · right; norm_num

/-- **a `jac_limit` row is the zero row exactly when its coordinate is in the closed range** (for a
dof index inside the row): inside, `limitRow_inactive`; outside, entry `di` of the row is `±1` -/
theorem limitRow_zero_iff (nv : Nat) (d : DofP K) (p : SolverParams K) (di : Nat) (hdi : di < nv)
    (q : K) (qd : List K) :
    (limitRow nv d p di q qd).1 = List.replicate nv 0 ↔ InRange q d.lo d.hi := by
  constructor
  · intro h
    by_contra hn
    have hside := limitSide_ne_zero hn
    have hent : (limitRow nv d p di q qd).1.getD di 0 = limitSide q d.lo d.hi := by
      unfold limitRow
      simp only [tab, List.getD_eq_getElem?_getD, List.getElem?_map, List.getElem?_range hdi,
        Option.map_some, Option.getD_some, if_true, one_mul]
    rw [h] at hent
    simp only [List.getD_eq_getElem?_getD, List.getElem?_replicate, hdi, if_true,
      Option.getD_some] at hent
    rcases hside with h1 | h1 <;> rw [h1] at hent <;> norm_num at hent
  · intro h
    rw [limitRow_inactive nv d p di q qd h]

/-- strictly inside every range (the property's hypothesis) -/
def AllStrictlyInside (s : Sys K) (q : List K) : Prop :=
  ∀ ix ∈ limitIdx s.types, StrictlyInside (nthS q ix.1) (dofAt s ix.2).lo (dofAt s ix.2).hi

theorem AllStrictlyInside.allInRange {s : Sys K} {q : List K} (h : AllStrictlyInside s q) :
    AllInRange s q := fun ix hix => (h ix hix).inRange

/-- the hypothesis of `limit_rows_inactive` is equivalent to "every limit position is `0`" -/
theorem allInRange_iff (s : Sys K) (q : List K) :
    AllInRange s q
      ↔ ∀ ix ∈ limitIdx s.types, limitPos (nthS q ix.1) (dofAt s ix.2).lo (dofAt s ix.2).hi = 0 :=
  ⟨fun h ix hix => limitPos_eq_zero (h ix hix), fun h ix hix => inRange_of_limitPos_eq_zero (h ix hix)⟩

end generalizedQ

end Brax.C06L
