import Brax.Lemmas.C02Pipe
/-!
# C02 helper lemmas: `actuator.to_tau` (scatter-add) = the Spec's per-dof actuator force (gather)
-/
set_option linter.unusedSectionVars false
set_option linter.unusedSimpArgs false
namespace Brax.Gd
open Brax Kin

section act
variable {K : Type} [Field K] [LinearOrder K] [IsStrictOrderedRing K]

theorem addAt_length (l : List K) (i : Nat) (f : K) : (addAt l i f).length = l.length := by
  induction l generalizing i with
  | nil => rfl
  | cons x xs ih => cases i <;> simp [addAt, ih]

theorem addAt_getD (l : List K) (i d : Nat) (f : K) :
    (addAt l i f).getD d 0 = if d = i ∧ i < l.length then l.getD d 0 + f else l.getD d 0 := by
  induction l generalizing i d with
  | nil => simp [addAt]
  | cons x xs ih =>
    cases i with
    | zero =>
      cases d with
      | zero => simp [addAt]
      | succ d => simp [addAt]
    | succ i =>
      cases d with
      | zero => simp [addAt]
      | succ d =>
        simp only [addAt, List.getD_cons_succ, ih, List.length_cons]
        have : (d + 1 = i + 1 ∧ i + 1 < xs.length + 1) ↔ (d = i ∧ i < xs.length) := by omega
        simp only [this]

/-- scatter-add as a fold: entry `d` collects the values whose key is `d` -/
theorem foldl_addAt_getD {γ : Type} (L : List γ) (key : γ → Nat) (val : γ → K) :
    ∀ (tau : List K) (d : Nat), d < tau.length → (∀ x ∈ L, key x < tau.length) →
    (L.foldl (fun t x => addAt t (key x) (val x)) tau).getD d 0
      = tau.getD d 0 + ((L.filter fun x => key x == d).map val).sum := by
  induction L with
  | nil => intro tau d _ _; simp
  | cons a L ih =>
    intro tau d hd hk
    simp only [List.foldl]
    rw [ih _ d (by rw [addAt_length]; exact hd)
      (fun x hx => by rw [addAt_length]; exact hk x (by simp [hx]))]
    rw [addAt_getD]
    have hka := hk a (by simp)
    by_cases h : key a = d
    · subst h
      have hb : (key a == key a) = true := beq_self_eq_true _
      rw [if_pos ⟨rfl, hka⟩, List.filter_cons, hb, if_pos rfl, List.map_cons, List.sum_cons]
      ring
    · have h1 : ¬ (d = key a ∧ key a < tau.length) := fun hh => h hh.1.symm
      have h2 : (key a == d) = false := by rw [beq_eq_false_iff_ne]; exact h
      simp [h1, h2, List.filter_cons]

theorem foldl_addAt_length {γ : Type} (L : List γ) (key : γ → Nat) (val : γ → K) :
    ∀ (tau : List K), (L.foldl (fun t x => addAt t (key x) (val x)) tau).length = tau.length := by
  induction L with
  | nil => intro tau; rfl
  | cons a L ih => intro tau; simp only [List.foldl]; rw [ih, addAt_length]

theorem foldl_add_eq_sum {γ : Type} (L : List γ) (val : γ → K) (init : K) :
    L.foldl (fun acc x => acc + val x) init = init + (L.map val).sum := by
  induction L generalizing init with
  | nil => simp
  | cons a L ih => simp only [List.foldl, List.map_cons, List.sum_cons]; rw [ih]; ring

theorem clipO_eq_clampO (x : K) (lo hi : Option K) : clipO x lo hi = MjD.clampO x lo hi := rfl

theorem gather_eq_getD (xs : List K) (i : Nat) (h : i < xs.length) : gather xs i = xs.getD i 0 := by
  unfold gather
  have : min i (xs.length - 1) = i := by omega
  rw [this]

/-- **`actuator.to_tau` equals the Spec's `qfrc_actuator`** for actuators addressing existing
coordinates -/
theorem toTau_eq_actuation (nv : Nat) (acts : List (ActP K)) (u q qd : List K)
    (hq : ∀ a ∈ acts, a.qId < q.length ∧ a.qdId < qd.length ∧ a.qdId < nv) :
    toTau nv acts u q qd = MjD.actuation nv acts u q qd := by
  unfold toTau MjD.actuation tab
  apply List.ext_getElem?
  intro d
  by_cases hd : d < nv
  · have hlen : ((acts.zip u).foldl (fun tau (au : ActP K × K) =>
        addAt tau au.1.qdId
          (clipO (au.1.gain * clipO au.2 au.1.ctrlLo au.1.ctrlHi
            + au.1.gear * (gather q au.1.qId * au.1.biasQ + gather qd au.1.qdId * au.1.biasQd))
            au.1.forceLo au.1.forceHi * au.1.gear)) (List.replicate nv 0)).length = nv := by
      rw [foldl_addAt_length (acts.zip u) (fun au => au.1.qdId)]; simp
    rw [List.getElem?_eq_getElem (by rw [hlen]; exact hd)]
    rw [List.getElem?_map, List.getElem?_eq_getElem (by simp [hd])]
    simp only [List.getElem_range, Option.map_some, Option.some.injEq]
    have hgd := foldl_addAt_getD (acts.zip u) (fun au => au.1.qdId)
      (fun au => clipO (au.1.gain * clipO au.2 au.1.ctrlLo au.1.ctrlHi
            + au.1.gear * (gather q au.1.qId * au.1.biasQ + gather qd au.1.qdId * au.1.biasQd))
            au.1.forceLo au.1.forceHi * au.1.gear)
      (List.replicate nv 0) d (by simp [hd])
      (fun x hx => by simp only [List.length_replicate]; exact (hq x.1 (List.of_mem_zip hx).1).2.2)
    rw [List.getD_eq_getElem?_getD, List.getElem?_eq_getElem (by rw [hlen]; exact hd)] at hgd
    simp only [Option.getD_some] at hgd
    rw [hgd, foldl_add_eq_sum]
    have hz : (List.replicate nv (0 : K)).getD d 0 = 0 := by
      simp [List.getD_eq_getElem?_getD, hd]
    rw [hz]
    congr 1
    apply congrArg
    apply List.map_congr_left
    intro au hau
    have hau' := (hq au.1 (List.of_mem_zip (List.mem_of_mem_filter hau)).1)
    rw [gather_eq_getD q _ hau'.1, gather_eq_getD qd _ hau'.2.1, clipO_eq_clampO, clipO_eq_clampO]
    rw [mul_comm]
    congr 2
    ring
  · rw [List.getElem?_eq_none (by rw [foldl_addAt_length (acts.zip u) (fun au => au.1.qdId)]; simp; omega)]
    rw [List.getElem?_eq_none (by simp; omega)]

end act
end Brax.Gd
