import Brax.Model.C11
import Brax.Spec.C11
import Mathlib.Algebra.Order.Field.Basic
import Mathlib.Algebra.Order.Ring.Abs
import Mathlib.Tactic.Ring
import Mathlib.Tactic.Linarith
import Mathlib.Tactic.Order
/-!
# C11 — helper definitions and lemmas (scatter-add as a sum, order facts of `clipO`)
-/
set_option linter.unusedSectionVars false
set_option linter.unusedSimpArgs false
set_option linter.unusedVariables false
namespace Brax
open List

section order
variable {K : Type} [Field K] [LinearOrder K] [IsStrictOrderedRing K]

theorem clipO_mono (lo hi : Option K) {x y : K} (h : x ≤ y) : clipO x lo hi ≤ clipO y lo hi := by
  unfold clipO
  cases lo <;> cases hi <;> simp only [] <;> (try split_ifs) <;> order

theorem clipO_of_le_lo {x lo : K} (hi : Option K) (h : x ≤ lo) :
    clipO x (some lo) hi = clipO lo (some lo) hi := by
  unfold clipO
  cases hi <;> simp only [] <;> (try split_ifs) <;> order

theorem clipO_of_hi_le {x hi : K} (lo : Option K) (h : hi ≤ x) :
    clipO x lo (some hi) = clipO hi lo (some hi) := by
  unfold clipO
  cases lo <;> simp only [] <;> (try split_ifs) <;> order

/-- a clipped value is the upper bound or lies between the bounds -/
theorem clipO_mem (x lo hi : K) :
    clipO x (some lo) (some hi) = hi ∨
      (lo ≤ clipO x (some lo) (some hi) ∧ clipO x (some lo) (some hi) ≤ hi) := by
  unfold clipO
  simp only []
  split_ifs
  · left; rfl
  · right; constructor <;> order
  · left; rfl
  · right; constructor <;> order

theorem abs_clipO_le (x lo hi : K) : |clipO x (some lo) (some hi)| ≤ max |lo| |hi| := by
  have h1 := le_abs_self hi
  have h2 := neg_abs_le lo
  have h3 := le_max_left |lo| |hi|
  have h4 := le_max_right |lo| |hi|
  rcases clipO_mem x lo hi with h | ⟨ha, hb⟩
  · rw [h]; exact h4
  · exact abs_le.mpr ⟨by linarith, by linarith⟩

/-- `jp.clip` and `mju_clip` agree on a non-empty range -/
theorem clipO_eq_clipMj (x lo hi : K) (h : ¬ hi < lo) :
    clipO x (some lo) (some hi) = Mj.clipMj x lo hi := by
  unfold clipO Mj.clipMj
  simp only []
  split_ifs <;> order

end order

namespace Act
variable {K : Type} [Field K] [LinearOrder K] [IsStrictOrderedRing K]

/-- clipping with the range written by the loader = MuJoCo's conditional `mju_clip` -/
theorem clipO_range_eq (limited : Bool) (x lo hi : K) (h : limited = true → ¬ hi < lo) :
    clipO x (range limited lo hi).1 (range limited lo hi).2
      = if limited then Mj.clipMj x lo hi else x := by
  cases limited
  · simp [range, clipO]
  · simp only [range, if_true]
    exact clipO_eq_clipMj x lo hi (h rfl)

/-- sum over the actuators whose `qd_id` is `i` of their output `force·gear` -/
def tauAt (i : Nat) (acts : List (Act K)) (u q qd : List K) : K :=
  ((acts.zip u).map fun p => if p.1.qdId = i then p.1.out q qd p.2 else 0).sum

/-- `|gear| · max(|force_lo|, |force_hi|)` for a force-limited actuator -/
def forceBound (a : Act K) : K :=
  match a.forceLo, a.forceHi with
  | some lo, some hi => |a.gear| * max |lo| |hi|
  | _, _ => 0

/-- component-wise sum of a list of `nv`-vectors -/
def vsum (nv : Nat) (vs : List (List K)) : List K :=
  vs.foldr (List.zipWith (· + ·)) (zeros nv)

@[simp] theorem length_addAt (tau : List K) (j : Nat) (f : K) :
    (addAt tau j f).length = tau.length := by
  induction tau generalizing j with
  | nil => rfl
  | cons x xs ih => cases j <;> simp [addAt, ih]

theorem getElem?_addAt (tau : List K) (j i : Nat) (f : K) :
    (addAt tau j f)[i]? = if i = j then tau[i]?.map (· + f) else tau[i]? := by
  induction tau generalizing j i with
  | nil => simp [addAt]
  | cons x xs ih =>
    cases j with
    | zero => cases i <;> simp [addAt]
    | succ j => cases i <;> simp [addAt, ih]

@[simp] theorem scatterAll_nil_ids (tau : List K) (fs : List K) : scatterAll tau [] fs = tau := by
  simp [scatterAll]
@[simp] theorem scatterAll_nil_fs (tau : List K) (ids : List Nat) : scatterAll tau ids [] = tau := by
  cases ids <;> simp [scatterAll]

/-- scatter-add of the actuator outputs = per-index sum -/
theorem getElem?_scatterAll (g : Act K → K → K) (acts : List (Act K)) (u : List K)
    (tau : List K) (i : Nat) :
    (scatterAll tau (acts.map (·.qdId)) (List.zipWith g acts u))[i]?
      = tau[i]?.map (· + ((acts.zip u).map fun p => if p.1.qdId = i then g p.1 p.2 else 0).sum) := by
  induction acts generalizing tau u with
  | nil => cases h : tau[i]? <;> simp [h]
  | cons a as ih =>
    cases u with
    | nil => cases h : tau[i]? <;> simp [h]
    | cons x xs =>
      simp only [List.map_cons, List.zipWith_cons_cons, scatterAll, List.zip_cons_cons,
        List.sum_cons]
      rw [ih, getElem?_addAt]
      by_cases hi : i = a.qdId
      · subst hi
        cases h : tau[a.qdId]? <;> simp [h, add_assoc]
      · have hi' : ¬ a.qdId = i := fun h => hi h.symm
        cases h : tau[i]? <;> simp [h, hi, hi']

theorem getElem?_zeros (n i : Nat) : (zeros n : List K)[i]? = if i < n then some 0 else none := by
  unfold zeros
  by_cases h : i < n <;> simp [h, List.getElem?_replicate]

theorem getElem?_toTau (nv : Nat) (acts : List (Act K)) (u q qd : List K) (i : Nat) :
    (toTau nv acts u q qd)[i]? = if i < nv then some (tauAt i acts u q qd) else none := by
  unfold toTau tauAt
  split_ifs with h0 h1 h1
  · have : acts = [] := List.eq_nil_of_length_eq_zero h0
    subst this; simp [getElem?_zeros, h1]
  · simp [getElem?_zeros, h1]
  · rw [getElem?_scatterAll, getElem?_zeros]; simp [h1]
  · rw [getElem?_scatterAll, getElem?_zeros]; simp [h1]

theorem length_toTau (nv : Nat) (acts : List (Act K)) (u q qd : List K) :
    (toTau nv acts u q qd).length = nv := by
  have h1 := getElem?_toTau nv acts u q qd nv
  have h2 := getElem?_toTau nv acts u q qd
  simp only [lt_self_iff_false, if_false] at h1
  have hle : (toTau nv acts u q qd).length ≤ nv := List.getElem?_eq_none_iff.mp h1
  by_contra hne
  have hlt : (toTau nv acts u q qd).length < nv := lt_of_le_of_ne hle hne
  have := h2 (toTau nv acts u q qd).length
  rw [if_pos hlt] at this
  have h3 : (toTau nv acts u q qd)[(toTau nv acts u q qd).length]? = none :=
    List.getElem?_eq_none_iff.mpr (le_refl _)
  rw [h3] at this
  exact absurd this (by simp)

/-- the whole vector in sum form -/
theorem toTau_eq_map_tauAt (nv : Nat) (acts : List (Act K)) (u q qd : List K) :
    toTau nv acts u q qd = (List.range nv).map fun i => tauAt i acts u q qd := by
  apply List.ext_getElem?
  intro i
  rw [getElem?_toTau]
  by_cases h : i < nv <;> simp [h, List.getElem?_range]

theorem sum_map_eq_zero {β : Type} (l : List β) (f : β → K) (h : ∀ x ∈ l, f x = 0) :
    (l.map f).sum = 0 := by
  induction l with
  | nil => rfl
  | cons x xs ih =>
    simp only [List.map_cons, List.sum_cons, h x List.mem_cons_self,
      ih (fun y hy => h y (List.mem_cons_of_mem _ hy)), add_zero]

theorem forall₂_map_range {R : K → K → Prop} (n : Nat) (f g : Nat → K) (h : ∀ i, R (f i) (g i)) :
    List.Forall₂ R ((List.range n).map f) ((List.range n).map g) := by
  generalize List.range n = l
  induction l with
  | nil => exact List.Forall₂.nil
  | cons x xs ih => exact List.Forall₂.cons (h x) ih

theorem zipWith_add_map (l : List Nat) (f g : Nat → K) :
    List.zipWith (· + ·) (l.map f) (l.map g) = l.map fun i => f i + g i := by
  induction l with
  | nil => rfl
  | cons x xs ih => simp [ih]

theorem zipWith_set_congr (F : Act K → K → K) (acts : List (Act K)) (u : List K) (k : Nat)
    (a : Act K) (x y : K) (hk : acts[k]? = some a) (hx : u[k]? = some x) (h : F a x = F a y) :
    List.zipWith F acts (u.set k y) = List.zipWith F acts u := by
  induction acts generalizing u k with
  | nil => simp
  | cons b bs ih =>
    cases u with
    | nil => simp
    | cons v vs =>
      cases k with
      | zero =>
        simp only [List.getElem?_cons_zero, Option.some.injEq] at hk hx
        subst hk; subst hx
        simp [h]
      | succ k =>
        simp only [List.getElem?_cons_succ] at hk hx
        simp [ih vs k hk hx]

theorem forall₂_le_refl (u : List K) : List.Forall₂ (· ≤ ·) u u := by
  induction u with
  | nil => exact List.Forall₂.nil
  | cons v vs ih => exact List.Forall₂.cons (le_refl _) ih

theorem forall₂_le_set (u : List K) (k : Nat) (x y : K) (hx : u[k]? = some x) (h : x ≤ y) :
    List.Forall₂ (· ≤ ·) u (u.set k y) := by
  induction u generalizing k with
  | nil => simp
  | cons v vs ih =>
    cases k with
    | zero =>
      simp only [List.getElem?_cons_zero, Option.some.injEq] at hx
      subst hx
      exact List.Forall₂.cons h (forall₂_le_refl _)
    | succ k =>
      simp only [List.getElem?_cons_succ] at hx
      exact List.Forall₂.cons (le_refl _) (ih k hx)

end Act
end Brax
