import Brax.Lemmas.C12Mom
import Brax.Props.C02
/-!
# C12, second deepening: the one-step change of the linear momentum at fixed `q`, later roots, and the
exact one-step kinetic-energy identity of the articulated model at fixed `q`

No new model of the code: everything is about `Brax.Gd` (`Model/C02.lean`).  New specification-side
definitions: `bilF` (a bilinear form on index functions), `SqSymm` (square, entrywise symmetric list matrix),
`dampPow`, `cddV` (the recursive Newton–Euler acceleration scan run with zero gravity: the velocity-product
part of the link accelerations), `vpAcc` (velocity-product acceleration of a link's centre of mass),
`treeMass`, `dofOff` (flat index of the first dof of a link), `MomOKAt` (the `MomOK` hypotheses at a root
other than link 0).

* §A  symmetric bilinear algebra on list matrices; `quadForm A x − quadForm A y = (x+y)ᵀ A (x−y)`;
      the quadratic form of `mass_mx + dt·diag(damping)`.
* §B  linearity of `treeMom` in the joint velocity; the zero-gravity split of `cdd`; the split of `pointAcc`.
* §C  pipeline level, any free root `ρ`.
-/
set_option linter.unusedSectionVars false
set_option linter.unusedSimpArgs false
set_option linter.unusedVariables false
namespace Brax.C12M2
open Brax Kin Gd C05G C12M

/-! ## A. symmetric bilinear algebra -/

theorem rsum_sub (n : Nat) (f g : Nat → ℝ) : rsum n (fun i => f i - g i) = rsum n f - rsum n g := by
  induction n with
  | zero => simp [rsum]
  | succ n ih => simp only [rsum, ih]; ring

/-- `Σ_{i<n} u_i Σ_{j<n} E_ij v_j` -/
def bilF (n : Nat) (E : Nat → Nat → ℝ) (u v : Nat → ℝ) : ℝ :=
  rsum n fun i => u i * rsum n fun j => E i j * v j

theorem bilF_congr {n : Nat} {E : Nat → Nat → ℝ} {u u' v v' : Nat → ℝ}
    (hu : ∀ i, i < n → u i = u' i) (hv : ∀ i, i < n → v i = v' i) : bilF n E u v = bilF n E u' v' := by
  unfold bilF
  apply rsum_congr; intro i hi
  rw [hu i hi]
  congr 1
  apply rsum_congr; intro j hj
  rw [hv j hj]

theorem bilF_symm (n : Nat) (E : Nat → Nat → ℝ) (hE : ∀ i j, i < n → j < n → E i j = E j i)
    (u v : Nat → ℝ) : bilF n E u v = bilF n E v u := by
  unfold bilF
  have h1 : ∀ (a b : Nat → ℝ), rsum n (fun i => a i * rsum n fun j => E i j * b j)
      = rsum n (fun i => rsum n fun j => a i * (E i j * b j)) := by
    intro a b; apply rsum_congr; intro i _; rw [rsum_mul_left]
  rw [h1 u v, h1 v u, rsum_comm n n (fun i j => u i * (E i j * v j))]
  apply rsum_congr; intro j hj
  apply rsum_congr; intro i hi
  rw [hE i j hi hj]; ring

theorem bilF_add_left (n : Nat) (E : Nat → Nat → ℝ) (u u' v : Nat → ℝ) :
    bilF n E (fun i => u i + u' i) v = bilF n E u v + bilF n E u' v := by
  unfold bilF
  rw [← rsum_add]
  apply rsum_congr; intro i _; ring

theorem bilF_sub_right (n : Nat) (E : Nat → Nat → ℝ) (u v v' : Nat → ℝ) :
    bilF n E u (fun j => v j - v' j) = bilF n E u v - bilF n E u v' := by
  unfold bilF
  rw [← rsum_sub]
  apply rsum_congr; intro i _
  have : rsum n (fun j => E i j * (v j - v' j)) = rsum n (fun j => E i j * v j) - rsum n (fun j => E i j * v' j) := by
    rw [← rsum_sub]; apply rsum_congr; intro j _; ring
  rw [this]; ring

/-- `(u+u')ᵀ E (u−u') = uᵀEu − u'ᵀEu'` for symmetric `E` -/
theorem bilF_diff (n : Nat) (E : Nat → Nat → ℝ) (hE : ∀ i j, i < n → j < n → E i j = E j i)
    (u u' : Nat → ℝ) :
    bilF n E (fun i => u i + u' i) (fun j => u j - u' j) = bilF n E u u - bilF n E u' u' := by
  rw [bilF_add_left, bilF_sub_right, bilF_sub_right, bilF_symm n E hE u' u]; ring

theorem dot_eq_rsum (a b : List ℝ) (n : Nat) (ha : a.length = n) (hb : b.length = n) :
    dot a b = rsum n fun i => a.getD i 0 * b.getD i 0 := by
  unfold dot
  rw [foldr_add_eq_sum, ← sum_map_range]
  congr 1
  apply List.ext_getElem
  · simp [ha, hb]
  · intro i h1 h2
    simp only [List.getElem_zipWith, List.getElem_map, List.getElem_range]
    rw [getElem_eq_getD a 0 i, getElem_eq_getD b 0 i]

theorem matVec_getD (A : List (List ℝ)) (v : List ℝ) (i : Nat) (hi : i < A.length) :
    (matVec A v).getD i 0 = dot (A.getD i []) v := by
  unfold matVec
  rw [List.getD_eq_getElem?_getD, List.getElem?_map, List.getElem?_eq_getElem hi,
    List.getD_eq_getElem?_getD, List.getElem?_eq_getElem hi]
  rfl

theorem matVec_length (A : List (List ℝ)) (v : List ℝ) : (matVec A v).length = A.length := by
  simp [matVec]

/-- a square `n × n` list matrix with symmetric entries -/
structure SqSymm (A : List (List ℝ)) (n : Nat) : Prop where
  len : A.length = n
  row : ∀ r ∈ A, r.length = n
  symm : ∀ i j, i < n → j < n → entry A i j = entry A j i

theorem dot_matVec_eq_bilF (A : List (List ℝ)) (n : Nat) (hlen : A.length = n) (hrow : ∀ r ∈ A, r.length = n)
    (x y : List ℝ) (hx : x.length = n) (hy : y.length = n) :
    dot x (matVec A y) = bilF n (entry A) (fun i => x.getD i 0) (fun j => y.getD j 0) := by
  rw [dot_eq_rsum x (matVec A y) n hx (by rw [matVec_length, hlen])]
  unfold bilF
  apply rsum_congr; intro i hi
  have hiA : i < A.length := by rw [hlen]; exact hi
  rw [matVec_getD A y i hiA]
  have hr : (A.getD i []).length = n := by
    rw [← getElem_eq_getD A [] i hiA]; exact hrow _ (List.getElem_mem hiA)
  rw [dot_eq_rsum (A.getD i []) y n hr hy]
  rfl

theorem getD_zipWith_add (x y : List ℝ) (n i : Nat) (hx : x.length = n) (hy : y.length = n) (hi : i < n) :
    (List.zipWith (· + ·) x y).getD i 0 = x.getD i 0 + y.getD i 0 := by
  rw [getD_zipWith _ _ _ 0 i (by omega) (by omega), getElem_eq_getD x 0 i, getElem_eq_getD y 0 i]

theorem getD_zipWith_sub (x y : List ℝ) (n i : Nat) (hx : x.length = n) (hy : y.length = n) (hi : i < n) :
    (List.zipWith (· - ·) x y).getD i 0 = x.getD i 0 - y.getD i 0 := by
  rw [getD_zipWith _ _ _ 0 i (by omega) (by omega), getElem_eq_getD x 0 i, getElem_eq_getD y 0 i]

/-- **`xᵀAx − yᵀAy = (x+y)ᵀ A (x−y)`** for a symmetric square list matrix -/
theorem quadForm_diff (A : List (List ℝ)) (n : Nat) (hA : SqSymm A n) (x y : List ℝ)
    (hx : x.length = n) (hy : y.length = n) :
    quadForm A x - quadForm A y
      = dot (List.zipWith (· + ·) x y) (matVec A (List.zipWith (· - ·) x y)) := by
  unfold quadForm
  rw [dot_matVec_eq_bilF A n hA.len hA.row x x hx hx, dot_matVec_eq_bilF A n hA.len hA.row y y hy hy,
    dot_matVec_eq_bilF A n hA.len hA.row _ _ (by simp [hx, hy]) (by simp [hx, hy]),
    ← bilF_diff n (entry A) hA.symm]
  exact bilF_congr (fun i hi => (getD_zipWith_add x y n i hx hy hi).symm)
    (fun i hi => (getD_zipWith_sub x y n i hx hy hi).symm)

/-- **the exact one-step identity of a symmetric step equation**: `A (x − y) = dt·f` ⇒
`xᵀAx − yᵀAy = dt · (x+y)ᵀ f` -/
theorem quadForm_step (A : List (List ℝ)) (n : Nat) (hA : SqSymm A n) (x y f : List ℝ) (dt : ℝ)
    (hx : x.length = n) (hy : y.length = n)
    (hstep : matVec A (List.zipWith (· - ·) x y) = f.map (· * dt)) :
    quadForm A x - quadForm A y = dt * dot (List.zipWith (· + ·) x y) f := by
  rw [quadForm_diff A n hA x y hx hy, hstep, dot_map_mul_right]; ring

/-- `Σ_i d_i x_i²` -/
def dampPow (d x : List ℝ) (n : Nat) : ℝ := rsum n fun i => d.getD i 0 * (x.getD i 0 * x.getD i 0)

/-- `xᵀ (M + dt·diag d) x = xᵀMx + dt Σ_i d_i x_i²` -/
theorem quadForm_damped (M : List (List ℝ)) (d x : List ℝ) (dt : ℝ) (n : Nat) (hM : M.length = n)
    (hrow : ∀ r ∈ M, r.length = n) (hd : d.length = n) (hx : x.length = n) :
    quadForm (dampedMatrix M d dt) x = quadForm M x + dt * dampPow d x n := by
  unfold quadForm dampPow
  rw [matVec_damped M d x dt n hM hrow hd hx]
  have hl1 : (matVec M x).length = n := by rw [matVec_length, hM]
  have hl2 : (List.zipWith (fun c x => c * x) (d.map (· * dt)) x).length = n := by simp [hd, hx]
  rw [dot_eq_rsum x _ n hx (by simp [hl1, hl2]), dot_eq_rsum x (matVec M x) n hx hl1, ← rsum_mul_left,
    ← rsum_add]
  apply rsum_congr; intro i hi
  rw [getD_zipWith _ _ _ 0 i (by omega) (by omega), getElem_eq_getD _ 0 i, getElem_eq_getD _ 0 i,
    getD_zipWith _ _ _ 0 i (by simp [hd]; omega) (by omega)]
  simp only [List.getElem_map]
  rw [getElem_eq_getD d 0 i, getElem_eq_getD x 0 i]
  ring

theorem dampedMatrix_length (M : List (List ℝ)) (d : List ℝ) (dt : ℝ) :
    (dampedMatrix M d dt).length = M.length := by simp [dampedMatrix]

theorem dampedMatrix_row (M : List (List ℝ)) (d : List ℝ) (dt : ℝ) (n : Nat) (hrow : ∀ r ∈ M, r.length = n) :
    ∀ r ∈ dampedMatrix M d dt, r.length = n := by
  intro r hr
  unfold dampedMatrix at hr
  obtain ⟨ri, hri, rfl⟩ := List.mem_map.mp hr
  have := hrow ri.1 (List.of_mem_zip hri).1
  simp [this]

/-- `mass_mx + dt·diag(damping)` is a symmetric square matrix when `mass_mx` is -/
theorem sqSymm_damped (M : List (List ℝ)) (d : List ℝ) (dt : ℝ) (n : Nat) (h : SqSymm M n) :
    SqSymm (dampedMatrix M d dt) n := by
  refine ⟨by rw [dampedMatrix_length, h.len], dampedMatrix_row M d dt n h.row, ?_⟩
  intro i j hi hj
  have hri : ∀ k, k < n → (M.getD k []).length = n := by
    intro k hk
    have hkM : k < M.length := by rw [h.len]; exact hk
    rw [← getElem_eq_getD M [] k hkM]; exact h.row _ (List.getElem_mem hkM)
  rw [C02.dampedMatrix_entry M d dt i j (by rw [h.len]; exact hi) (by rw [hri i hi]; exact hj),
    C02.dampedMatrix_entry M d dt j i (by rw [h.len]; exact hj) (by rw [hri j hj]; exact hi), h.symm i j hi hj]
  by_cases hij : j = i
  · subst hij; rfl
  · rw [if_neg hij, if_neg (fun e => hij e.symm)]

/-- `mass.matrix` is a symmetric square matrix (`massMatrix_symm`, `massMatrix_shape`) -/
theorem sqSymm_massMatrix (ps : List Int) (cinr : List (Inertia ℝ)) (cdof : List (List (Motion ℝ)))
    (arm : List (List ℝ)) :
    SqSymm (massMatrix ps cinr cdof arm) (dofIdx cdof.length (wAt cdof)).length :=
  ⟨(massMatrix_shape ps cinr cdof arm).1, (massMatrix_shape ps cinr cdof arm).2,
    fun i j _ _ => C02.massMatrix_symm ps cinr cdof arm i j⟩


/-! ## B. linearity of the tree momentum in the joint velocity; the zero-gravity split of `cdd` -/

theorem vrsum_add (n : Nat) (f g : Nat → V3 ℝ) : vrsum n (fun k => f k + g k) = vrsum n f + vrsum n g := by
  induction n with
  | zero => exact (V3.add_zero' _).symm
  | succ n ih =>
    simp only [vrsum]; rw [ih]; simp only [V3.add_def]; congr 1 <;> ring

theorem vrsum_sub (n : Nat) (f g : Nat → V3 ℝ) : vrsum n (fun k => f k - g k) = vrsum n f - vrsum n g := by
  induction n with
  | zero => simp only [vrsum, V3.zero, V3.sub_def, sub_zero]
  | succ n ih =>
    simp only [vrsum]; rw [ih]; simp only [V3.add_def, V3.sub_def]; congr 1 <;> ring

theorem vrsum_smul (n : Nat) (t : ℝ) (f : Nat → V3 ℝ) :
    vrsum n (fun k => V3.smul t (f k)) = V3.smul t (vrsum n f) := by
  induction n with
  | zero => simp [vrsum, V3.smul, V3.zero]
  | succ n ih => simp only [vrsum]; rw [ih]; simp only [V3.smul, V3.add_def]; congr 1 <;> ring

/-- `Σ_k w_k · g = (Σ_k w_k) · g` -/
theorem vrsum_smul_const (n : Nat) (w : Nat → ℝ) (g : V3 ℝ) :
    vrsum n (fun k => V3.smul (w k) g) = V3.smul (rsum n w) g := by
  induction n with
  | zero => simp [vrsum, rsum, V3.smul, V3.zero]
  | succ n ih => simp only [vrsum, rsum]; rw [ih]; simp only [V3.smul, V3.add_def]; congr 1 <;> ring

theorem mrsum_add (n : Nat) (f g : Nat → Motion ℝ) :
    mrsum n (fun k => f k + g k) = mrsum n f + mrsum n g := by
  induction n with
  | zero => exact (madd_zero _).symm
  | succ n ih =>
    simp only [mrsum, ih]
    rw [madd_assoc, madd_assoc, ← madd_assoc (mrsum n g), ← madd_assoc (f n), madd_comm (mrsum n g) (f n)]

theorem mulr_madd (a b : Motion ℝ) (t : ℝ) : mulr (a + b) t = mulr a t + mulr b t := by
  simp only [mulr, Motion.add_def, V3.add_def]; congr 1 <;> congr 1 <;> ring

theorem mulr_lin (c : Motion ℝ) (y z t : ℝ) : mulr c (y + z * t) = mulr c y + mulr (mulr c z) t := by
  simp only [mulr, Motion.add_def, V3.add_def]; congr 1 <;> congr 1 <;> ring

theorem mulr_zero_motion (t : ℝ) : mulr (Motion.zero : Motion ℝ) t = Motion.zero := by
  simp [mulr, Motion.zero, V3.zero]

theorem mrsum_mulr (n : Nat) (f : Nat → Motion ℝ) (t : ℝ) :
    mrsum n (fun k => mulr (f k) t) = mulr (mrsum n f) t := by
  induction n with
  | zero => exact (mulr_zero_motion t).symm
  | succ n ih => simp only [mrsum, ih, mulr_madd]

/-- the joint-space velocity of a link is linear in the joint velocity -/
theorem Ulink_lin (cdof : List (List (Motion ℝ))) (Y Z : Nat → Nat → ℝ) (t : ℝ) (l : Nat) :
    Ulink cdof (fun a r => Y a r + Z a r * t) l = Ulink cdof Y l + mulr (Ulink cdof Z l) t := by
  unfold Ulink
  rw [← mrsum_mulr, ← mrsum_add]
  apply mrsum_congr; intro r _
  exact mulr_lin _ _ _ _

/-- the ancestor-sum velocity `v_b(y)` is linear in `y` -/
theorem velAnc_lin (ps : List Int) (cdof : List (List (Motion ℝ))) (Y Z : Nat → Nat → ℝ) (t : ℝ) (k : Nat) :
    velAnc ps cdof (fun a r => Y a r + Z a r * t) k = velAnc ps cdof Y k + mulr (velAnc ps cdof Z k) t := by
  unfold velAnc
  rw [← mrsum_mulr, ← mrsum_add]
  apply mrsum_congr; intro a _
  rw [Ulink_lin]
  cases (ancs ps k).contains a
  · simp only [Bool.false_eq_true, if_false, mulr_zero_motion, madd_zero]
  · simp only [if_true]

theorem inertiaMul_lin_vel (I : Inertia ℝ) (a b : Motion ℝ) (t : ℝ) :
    (Inertia.mul I (a + mulr b t)).vel = (Inertia.mul I a).vel + V3.smul t (Inertia.mul I b).vel := by
  simp only [Inertia.mul, mulr, M3.mulVec, V3.dot, V3.cross, V3.smul, V3.add_def, V3.sub_def, Motion.add_def]
  congr 1 <;> ring

/-- **the linear momentum of the tree of `ρ` is linear in the joint velocity**:
`P(y + t·z) = P(y) + t·P(z)` -/
theorem treeMom_vel_lin (ps : List Int) (cinr : List (Inertia ℝ)) (cdof : List (List (Motion ℝ)))
    (Y Z : Nat → Nat → ℝ) (t : ℝ) (n ρ : Nat) :
    (treeMom ps cinr cdof (fun a r => Y a r + Z a r * t) n ρ).vel
      = (treeMom ps cinr cdof Y n ρ).vel + V3.smul t (treeMom ps cinr cdof Z n ρ).vel := by
  unfold treeMom
  rw [frsum_vel, frsum_vel, frsum_vel, ← vrsum_smul, ← vrsum_add]
  apply vrsum_congr; intro b _
  rw [velAnc_lin]
  cases inTree ps ρ b
  · simp [Force.zero, V3.smul, V3.zero]
  · simp only [if_true]; exact inertiaMul_lin_vel _ _ _ _

/-- the linear part of the Newton–Euler force of one link is `mass × pointAcc` of its centre of mass -/
theorem linkFrc_vel (I : Inertia ℝ) (r : V3 ℝ) (h : I.tf.pos = V3.smul I.mass r) (cdd cd : Motion ℝ) :
    (linkFrc I cdd cd).vel = V3.smul I.mass (pointAcc cdd cd r) := by
  simp only [linkFrc, Inertia.mul, Motion.crossF, h, pointAcc, V3.smul, V3.cross, V3.add_def, V3.sub_def,
    Force.add_def]
  congr 1 <;> ring

theorem treeFrc_vel (ps : List Int) (cinr : List (Inertia ℝ)) (cdd cd : List (Motion ℝ)) (n ρ : Nat)
    (r : Nat → V3 ℝ)
    (hr : ∀ b, b < n → (cinr.getD b dI).tf.pos = V3.smul (cinr.getD b dI).mass (r b)) :
    (treeFrc ps cinr cdd cd n ρ).vel
      = vrsum n fun b => if inTree ps ρ b then
          V3.smul (cinr.getD b dI).mass (pointAcc (cdd.getD b Motion.zero) (cd.getD b Motion.zero) (r b))
          else V3.zero := by
  unfold treeFrc
  rw [frsum_vel]
  apply vrsum_congr; intro b hb
  cases inTree ps ρ b
  · rfl
  · simp only [if_true]; exact linkFrc_vel _ _ (hr b hb) _ _

/-- **split of `pointAcc`**: a spatial acceleration that starts from `−g` gives the point acceleration minus `g` -/
theorem pointAcc_grav (g : V3 ℝ) (c v : Motion ℝ) (r : V3 ℝ) :
    pointAcc ((⟨V3.zero, -g⟩ : Motion ℝ) + c) v r = pointAcc c v r - g := by
  simp only [pointAcc, Motion.add_def, V3.add_def, V3.sub_def, V3.neg_def, V3.zero, V3.cross]
  congr 1 <;> ring

/-- **split of `pointAcc` in the joint acceleration**: `pointAcc (a + c) v r = pointVel a r + pointAcc c v r` -/
theorem pointAcc_add (a c v : Motion ℝ) (r : V3 ℝ) :
    pointAcc (a + c) v r = pointVel a r + pointAcc c v r := by
  simp only [pointAcc, pointVel, Motion.add_def, V3.add_def, V3.cross]
  congr 1 <;> ring

/-- the accelerations of the recursive Newton–Euler scan with gravity switched off: the
**velocity-product part** of the link accelerations (`Σ cdofd·qd` accumulated along the tree) -/
noncomputable def cddV (ps : List Int) (c : ComState ℝ) (qdN : List (List ℝ)) : List (Motion ℝ) :=
  invCdd ps V3.zero c qdN

theorem forall₂_refl' {β : Type} {R : β → β → Prop} (h : ∀ a, R a a) : ∀ l : List β, List.Forall₂ R l l
  | [] => .nil
  | a :: l => .cons (h a) (forall₂_refl' h l)

/-- `cdd = (0, −g) + cddV`, link by link, for every forest -/
theorem invCdd_split (ps : List Int) (grav : V3 ℝ) (c : ComState ℝ) (qdN : List (List ℝ)) :
    List.Forall₂ (fun a b => a = (⟨V3.zero, -grav⟩ : Motion ℝ) + b)
      (invCdd ps grav c qdN) (cddV ps c qdN) := by
  unfold cddV invCdd
  apply scanFwd_rel (fun a b => a = (⟨V3.zero, -grav⟩ : Motion ℝ) + b) (fun _ a b => a = b)
  · intro p par par' a b hpar hS _
    subst hS
    unfold cddStep
    cases hpar with
    | none =>
      simp only [Option.getD_none]
      have : (⟨V3.zero, -V3.zero⟩ : Motion ℝ) = Motion.zero := by simp [Motion.zero, V3.zero]
      rw [this, zero_madd]
    | some hab =>
      simp only [Option.getD_some]; rw [hab, madd_assoc]
  · exact forall₂_refl' (fun x => ⟨rfl, rfl⟩) _

theorem invCdd_getD_split (ps : List Int) (grav : V3 ℝ) (c : ComState ℝ) (qdN : List (List ℝ)) (b : Nat)
    (hb : b < (invCdd ps grav c qdN).length) :
    (invCdd ps grav c qdN).getD b Motion.zero
      = (⟨V3.zero, -grav⟩ : Motion ℝ) + (cddV ps c qdN).getD b Motion.zero := by
  have h := invCdd_split ps grav c qdN
  have hb' : b < (cddV ps c qdN).length := by rw [← List.Forall₂.length_eq h]; exact hb
  have := forall₂_getElem h b hb hb'
  rw [getElem_eq_getD _ Motion.zero b hb, getElem_eq_getD _ Motion.zero b hb'] at this
  exact this

/-- velocity-product acceleration of the centre of mass of link `b` (offset `r b` from the frame origin):
`pointAcc` of the zero-gravity acceleration scan — does not depend on `qdd` and contains no `−g` -/
noncomputable def vpAcc (cddv cd : List (Motion ℝ)) (r : Nat → V3 ℝ) (b : Nat) : V3 ℝ :=
  pointAcc (cddv.getD b Motion.zero) (cd.getD b Motion.zero) (r b)

/-- total mass of the tree of `ρ` -/
noncomputable def treeMass (ps : List Int) (cinr : List (Inertia ℝ)) (n ρ : Nat) : ℝ :=
  rsum n fun b => if inTree ps ρ b then (cinr.getD b dI).mass else 0

/-- `Σ_{b ∈ tree ρ} m_b · c_b` -/
noncomputable def treeVp (ps : List Int) (cinr : List (Inertia ℝ)) (cddv cd : List (Motion ℝ))
    (r : Nat → V3 ℝ) (n ρ : Nat) : V3 ℝ :=
  vrsum n fun b => if inTree ps ρ b then V3.smul (cinr.getD b dI).mass (vpAcc cddv cd r b) else V3.zero

/-- the linear part of the tree's Newton–Euler force is `Σ m_b c_b − M_tot g` -/
theorem treeFrc_vel_split (ps : List Int) (cinr : List (Inertia ℝ)) (cdd cddv cd : List (Motion ℝ))
    (g : V3 ℝ) (n ρ : Nat) (r : Nat → V3 ℝ)
    (hr : ∀ b, b < n → (cinr.getD b dI).tf.pos = V3.smul (cinr.getD b dI).mass (r b))
    (hsplit : ∀ b, b < n → cdd.getD b Motion.zero = (⟨V3.zero, -g⟩ : Motion ℝ) + cddv.getD b Motion.zero) :
    (treeFrc ps cinr cdd cd n ρ).vel
      = treeVp ps cinr cddv cd r n ρ - V3.smul (treeMass ps cinr n ρ) g := by
  rw [treeFrc_vel ps cinr cdd cd n ρ r hr]
  unfold treeVp treeMass
  rw [← vrsum_smul_const, ← vrsum_sub]
  apply vrsum_congr; intro b hb
  rw [hsplit b hb, pointAcc_grav]
  cases inTree ps ρ b
  · simp only [Bool.false_eq_true, if_false, V3.smul, V3.zero, V3.sub_def]; congr 1 <;> ring
  · simp only [if_true, vpAcc, V3.smul, V3.sub_def]; congr 1 <;> ring

theorem v3_step (P Pdd F S G : V3 ℝ) (dt : ℝ) (hbal : Pdd + F = V3.zero) (hF : F = S - G) :
    (P + V3.smul dt Pdd) - P = V3.smul dt (G - S) := by
  subst hF
  simp only [V3.add_def, V3.sub_def, V3.zero, V3.mk.injEq] at hbal
  obtain ⟨h1, h2, h3⟩ := hbal
  have e1 : Pdd.x = G.x - S.x := by linarith
  have e2 : Pdd.y = G.y - S.y := by linarith
  have e3 : Pdd.z = G.z - S.z := by linarith
  simp only [V3.add_def, V3.sub_def, V3.smul, e1, e2, e3]
  congr 1 <;> ring

/-- **one-step change of the tree's linear momentum at fixed configuration, forest level.**  If the root
rows balance (`P(ÿ) + F = 0`, `F` the linear part of the tree's Newton–Euler force) then
`P(y + dt·ÿ) − P(y) = dt · (M_tot g − Σ_b m_b c_b)`. -/
theorem mom_step_forest (ps : List Int) (cinr : List (Inertia ℝ)) (cdof : List (List (Motion ℝ)))
    (cdd cddv cd : List (Motion ℝ)) (g : V3 ℝ) (Y Ydd : Nat → Nat → ℝ) (dt : ℝ) (n ρ : Nat) (r : Nat → V3 ℝ)
    (hr : ∀ b, b < n → (cinr.getD b dI).tf.pos = V3.smul (cinr.getD b dI).mass (r b))
    (hsplit : ∀ b, b < n → cdd.getD b Motion.zero = (⟨V3.zero, -g⟩ : Motion ℝ) + cddv.getD b Motion.zero)
    (hbal : (treeMom ps cinr cdof Ydd n ρ).vel + (treeFrc ps cinr cdd cd n ρ).vel = V3.zero) :
    (treeMom ps cinr cdof (fun a s => Y a s + Ydd a s * dt) n ρ).vel - (treeMom ps cinr cdof Y n ρ).vel
      = V3.smul dt (V3.smul (treeMass ps cinr n ρ) g - treeVp ps cinr cddv cd r n ρ) := by
  rw [treeMom_vel_lin]
  exact v3_step _ _ _ _ _ dt hbal (treeFrc_vel_split ps cinr cdd cddv cd g n ρ r hr hsplit)

/-! ### flat-vector bookkeeping: `qddN` of the velocity update -/

theorem getD_zipWith_upd (A B : List ℝ) (dt : ℝ) (h : A.length = B.length) (r : Nat) :
    (List.zipWith (fun v a => v + a * dt) A B).getD r 0 = A.getD r 0 + B.getD r 0 * dt := by
  by_cases hr : r < A.length
  · rw [getD_zipWith _ _ _ 0 r hr (by omega), getElem_eq_getD A 0 r, getElem_eq_getD B 0 r]
  · have h1 : (List.zipWith (fun v a => v + a * dt) A B).length ≤ r := by simp; omega
    rw [List.getD_eq_getElem?_getD, List.getElem?_eq_none h1, List.getD_eq_getElem?_getD,
      List.getElem?_eq_none (by omega), List.getD_eq_getElem?_getD, List.getElem?_eq_none (by omega)]
    simp

theorem chunkQd_update : ∀ (ts : List LinkType) (A B : List ℝ) (dt : ℝ), A.length = B.length → ∀ l r,
    ((chunkQd ts (List.zipWith (fun v a => v + a * dt) A B)).getD l []).getD r 0
      = ((chunkQd ts A).getD l []).getD r 0 + ((chunkQd ts B).getD l []).getD r 0 * dt
  | [], _, _, _, _, _, _ => by simp [chunkQd]
  | t :: ts, A, B, dt, h, 0, r => by
    simp only [chunkQd, List.getD_cons_zero, List.take_zipWith]
    exact getD_zipWith_upd _ _ dt (by simp [h]) r
  | t :: ts, A, B, dt, h, l + 1, r => by
    simp only [chunkQd, List.getD_cons_succ, List.drop_zipWith]
    exact chunkQd_update ts _ _ dt (by simp [h]) l r

theorem qddN_update (s : Sys ℝ) (qd qdd : List ℝ) (h : qd.length = qdd.length) :
    qddN s (List.zipWith (fun v a => v + a * s.dt) qd qdd)
      = fun a r => qddN s qd a r + qddN s qdd a r * s.dt := by
  funext a r
  exact chunkQd_update s.types qd qdd s.dt h a r

/-! ## C. the pipeline (`dynInit`, `Gd.step`) -/
section pipe
variable {s : Sys ℝ} {q qd : List ℝ}

/-- the `GenOK` hypothesis of the state (as in `MomOK.ok`) -/
abbrev StOK (s : Sys ℝ) (q qd : List ℝ) : Prop :=
  GenOK s ((Kin.forward s q qd).map (·.1)) (linkSlices s.types q qd s.dofs)

theorem stCdd_length (hok : StOK s q qd) : (stCdd s q qd).length = s.types.length := by
  have hl := tc_lengths hok
  have hcdofd : (dynInit s q qd).com.cdofd.length = s.types.length := hl.2.2.2.2.2.2.2
  have hqdNl : ((nested s q qd).map (·.qd)).length = s.types.length := by
    rw [List.length_map]; exact hok.insLen
  simp [stCdd, invCdd, invU, scanFwd_length, hok.parents, hcdofd, hqdNl]

/-- the velocity-product accelerations of the state: the `cdd` scan of `dynamics.inverse` with zero gravity -/
noncomputable def stCddV (s : Sys ℝ) (q qd : List ℝ) : List (Motion ℝ) :=
  cddV s.parents (dynInit s q qd).com ((nested s q qd).map (·.qd))

theorem stCdd_split (hok : StOK s q qd) (b : Nat) (hb : b < s.types.length) :
    (stCdd s q qd).getD b Motion.zero
      = (⟨V3.zero, -s.gravity⟩ : Motion ℝ) + (stCddV s q qd).getD b Motion.zero := by
  have hl := stCdd_length hok
  unfold stCdd at hl
  unfold stCdd stCddV
  exact invCdd_getD_split s.parents s.gravity (dynInit s q qd).com _ b (by rw [hl]; exact hb)

theorem cinr_off_of (hok : StOK s q qd) (b : Nat) (hb : b < s.types.length) :
    ((dynInit s q qd).com.cinr.getD b dI).tf.pos
      = V3.smul ((dynInit s q qd).com.cinr.getD b dI).mass (comOff s q qd b) := by
  have hl := tc_lengths hok
  have h1 : b < ((tcXi s ((Kin.forward s q qd).map (·.1))).zip
      (tcCom s ((Kin.forward s q qd).map (·.1)))).length := by
    rw [List.length_zip, hl.1, hl.2.1]; simpa using hb
  have h2 : b < s.links.length := by rw [hok.links]; exact hb
  have e : (dynInit s q qd).com.cinr.getD b dI
      = cinrLink ((tcXi s ((Kin.forward s q qd).map (·.1))).getD b Tf.id)
          ((tcCom s ((Kin.forward s q qd).map (·.1))).getD b V3.zero) (s.links[b]'h2).inertia := by
    show (tcCinr s _).getD b dI = _
    unfold tcCinr
    rw [getD_zipWith _ _ _ dI b h1 h2]
    simp only [List.getElem_zip]
    rw [getElem_eq_getD _ Tf.id b (by rw [hl.1]; exact hb), getElem_eq_getD _ V3.zero b (by rw [hl.2.1]; exact hb)]
  rw [e]
  exact cinrLink_pos _ _ _

/-- **`P(q, y)`**: linear momentum of the tree of root `ρ` at the configuration of the state, moving with
joint velocity `y` (flat, `nv` entries).  (`cinr`, `cdof` are functions of the link poses only.) -/
noncomputable def linMom (s : Sys ℝ) (q qd : List ℝ) (ρ : Nat) (y : List ℝ) : V3 ℝ :=
  (treeMom s.parents (dynInit s q qd).com.cinr (dynInit s q qd).com.cdof (qddN s y) s.types.length ρ).vel

/-- total mass of the tree of `ρ` -/
noncomputable def stTreeMass (s : Sys ℝ) (q qd : List ℝ) (ρ : Nat) : ℝ :=
  treeMass s.parents (dynInit s q qd).com.cinr s.types.length ρ

/-- `Σ_{b ∈ tree ρ} m_b c_b`, `c_b` the velocity-product acceleration of the centre of mass of link `b` -/
noncomputable def stTreeVp (s : Sys ℝ) (q qd : List ℝ) (ρ : Nat) : V3 ℝ :=
  treeVp s.parents (dynInit s q qd).com.cinr (stCddV s q qd) (dynInit s q qd).com.cd (comOff s q qd)
    s.types.length ρ

/-- `P(q,y) = Σ_{b ∈ tree ρ} m_b · (velocity of the centre of mass of b under joint velocity y)` -/
theorem linMom_eq (hok : StOK s q qd) (ρ : Nat) (y : List ℝ) :
    linMom s q qd ρ y = vrsum s.types.length fun b => if inTree s.parents ρ b then
      V3.smul ((dynInit s q qd).com.cinr.getD b dI).mass
        (pointVel (velAnc s.parents (dynInit s q qd).com.cdof (qddN s y) b) (comOff s q qd b))
      else V3.zero :=
  treeMom_vel _ _ _ _ _ ρ (comOff s q qd) (fun b hb => cinr_off_of hok b hb)

/-- **from the root-row balance to the one-step change of momentum at fixed `q`** (any root `ρ`) -/
theorem linMom_step_of_balance (hok : StOK s q qd) (ρ : Nat) (qdd : List ℝ) (hlen : qd.length = qdd.length)
    (hbal : linMom s q qd ρ qdd
      + (treeFrc s.parents (dynInit s q qd).com.cinr (stCdd s q qd) (dynInit s q qd).com.cd
          s.types.length ρ).vel = V3.zero) :
    linMom s q qd ρ (List.zipWith (fun v a => v + a * s.dt) qd qdd) - linMom s q qd ρ qd
      = V3.smul s.dt (V3.smul (stTreeMass s q qd ρ) s.gravity - stTreeVp s q qd ρ) := by
  unfold linMom
  rw [qddN_update s qd qdd hlen]
  exact mom_step_forest s.parents _ _ (stCdd s q qd) (stCddV s q qd) _ s.gravity (qddN s qd) (qddN s qdd) s.dt
    s.types.length ρ (comOff s q qd) (fun b hb => cinr_off_of hok b hb) (fun b hb => stCdd_split hok b hb) hbal

/-- **`mom_step_fixed_q`, first tree**: exact solve, no force/damping/armature on the translational dofs of
root 0 ⇒ `P(q, qd + dt·qdd) − P(q, qd) = dt·(M_tot g − Σ_b m_b c_b)` -/
theorem linMom_step_root0 (h : MomOK s q qd) (act qfc qdd : List ℝ)
    (hqdd : qdd.length = s.nv) (hqfc : qfc.length = s.nv)
    (htau : lin3 (toTau s.nv s.acts act q qd) = V3.zero) (hqfc0 : lin3 qfc = V3.zero)
    (hex : matVec (dampedMatrix (dynInit s q qd).massMx (s.dofs.map (·.damping)) s.dt) qdd
        = List.zipWith (· + ·) (qfSmooth s (dynInit s q qd) q qd act) qfc) :
    linMom s q qd 0 (List.zipWith (fun v a => v + a * s.dt) qd qdd) - linMom s q qd 0 qd
      = V3.smul s.dt (V3.smul (stTreeMass s q qd 0) s.gravity - stTreeVp s q qd 0) :=
  linMom_step_of_balance h.ok 0 qdd (by rw [h.full.hqd, hqdd])
    (root_balance_of_exact h act qfc qdd hqdd hqfc htau hqfc0 hex)

end pipe

/-! ### the exact one-step kinetic-energy identity at fixed `q` -/
section energy

theorem step_integrate (solve : List (List ℝ) → List ℝ → List ℝ) (s : Sys ℝ) (st : DynState ℝ)
    (q qd act qfc : List ℝ) :
    (Gd.step solve s st q qd act qfc).1 = integrate solve s st.massMx q qd (qfSmooth s st q qd act) qfc := rfl

/-- **exact one-step identity for the quadratic form of `M′ = mass_mx + dt·diag(damping)`**, any `DynState`
whose mass matrix is symmetric and square: `q̇′ᵀM′q̇′ − q̇ᵀM′q̇ = dt·(q̇′+q̇)ᵀ(qf_smooth + qf_constraint)`. -/
theorem ke_step_damped (solve : List (List ℝ) → List ℝ → List ℝ) (s : Sys ℝ) (st : DynState ℝ)
    (q qd act qfc : List ℝ) (hM : SqSymm st.massMx qd.length)
    (hsolve : matVec (dampedMatrix st.massMx (s.dofs.map (·.damping)) s.dt)
        (solve (dampedMatrix st.massMx (s.dofs.map (·.damping)) s.dt)
          (List.zipWith (· + ·) (qfSmooth s st q qd act) qfc))
      = List.zipWith (· + ·) (qfSmooth s st q qd act) qfc)
    (hlen : (solve (dampedMatrix st.massMx (s.dofs.map (·.damping)) s.dt)
        (List.zipWith (· + ·) (qfSmooth s st q qd act) qfc)).length = qd.length) :
    quadForm (dampedMatrix st.massMx (s.dofs.map (·.damping)) s.dt) (Gd.step solve s st q qd act qfc).1.2.1
        - quadForm (dampedMatrix st.massMx (s.dofs.map (·.damping)) s.dt) qd
      = s.dt * dot (List.zipWith (· + ·) (Gd.step solve s st q qd act qfc).1.2.1 qd)
          (List.zipWith (· + ·) (qfSmooth s st q qd act) qfc) := by
  have h := (C02.integrate_semiImplicit solve s st.massMx q qd (qfSmooth s st q qd act) qfc hsolve hlen).1
  rw [← step_integrate] at h
  have hl' : (Gd.step solve s st q qd act qfc).1.2.1.length = qd.length := by
    rw [step_qd]
    show (List.zipWith (fun v a => v + a * s.dt) qd
      (solve (dampedMatrix st.massMx (s.dofs.map (·.damping)) s.dt)
        (List.zipWith (· + ·) (qfSmooth s st q qd act) qfc))).length = _
    simp [hlen]
  exact quadForm_step _ qd.length (sqSymm_damped _ _ _ _ hM) _ qd _ s.dt hl' rfl h

/-- **exact one-step identity for the kinetic energy `½ q̇ᵀ M q̇` at fixed `q`** (implicit joint damping
written out): `q̇′ᵀMq̇′ − q̇ᵀMq̇ = dt·(q̇′+q̇)ᵀ(qf_smooth + qf_constraint) − dt·Σ_i d_i (q̇′_i² − q̇_i²)`. -/
theorem ke_step (solve : List (List ℝ) → List ℝ → List ℝ) (s : Sys ℝ) (st : DynState ℝ)
    (q qd act qfc : List ℝ) (hM : SqSymm st.massMx qd.length) (hd : s.dofs.length = qd.length)
    (hsolve : matVec (dampedMatrix st.massMx (s.dofs.map (·.damping)) s.dt)
        (solve (dampedMatrix st.massMx (s.dofs.map (·.damping)) s.dt)
          (List.zipWith (· + ·) (qfSmooth s st q qd act) qfc))
      = List.zipWith (· + ·) (qfSmooth s st q qd act) qfc)
    (hlen : (solve (dampedMatrix st.massMx (s.dofs.map (·.damping)) s.dt)
        (List.zipWith (· + ·) (qfSmooth s st q qd act) qfc)).length = qd.length) :
    quadForm st.massMx (Gd.step solve s st q qd act qfc).1.2.1 - quadForm st.massMx qd
      = s.dt * dot (List.zipWith (· + ·) (Gd.step solve s st q qd act qfc).1.2.1 qd)
          (List.zipWith (· + ·) (qfSmooth s st q qd act) qfc)
        - s.dt * (dampPow (s.dofs.map (·.damping)) (Gd.step solve s st q qd act qfc).1.2.1 qd.length
            - dampPow (s.dofs.map (·.damping)) qd qd.length) := by
  have h := ke_step_damped solve s st q qd act qfc hM hsolve hlen
  have hl' : (Gd.step solve s st q qd act qfc).1.2.1.length = qd.length := by
    rw [step_qd]
    show (List.zipWith (fun v a => v + a * s.dt) qd
      (solve (dampedMatrix st.massMx (s.dofs.map (·.damping)) s.dt)
        (List.zipWith (· + ·) (qfSmooth s st q qd act) qfc))).length = _
    simp [hlen]
  have hdl : (s.dofs.map (·.damping)).length = qd.length := by rw [List.length_map, hd]
  rw [quadForm_damped _ _ _ _ qd.length hM.len hM.row hdl hl',
    quadForm_damped _ _ _ _ qd.length hM.len hM.row hdl rfl] at h
  linarith

end energy

/-! ### a free root other than link 0: flat-index bookkeeping -/
section later

/-- flat index of the first dof of link `ρ` -/
def dofOff (ts : List LinkType) (ρ : Nat) : Nat := ((ts.take ρ).map LinkType.qdWidth).sum

theorem dofOff_zero (ts : List LinkType) : dofOff ts 0 = 0 := by simp [dofOff]

theorem dofOff_succ (t : LinkType) (ts : List LinkType) (ρ : Nat) :
    dofOff (t :: ts) (ρ + 1) = t.qdWidth + dofOff ts ρ := by simp [dofOff]

theorem dofOff_add_le : ∀ (ts : List LinkType) (ρ : Nat) (h : ρ < ts.length),
    dofOff ts ρ + ts[ρ].qdWidth ≤ (ts.map LinkType.qdWidth).sum
  | t :: ts, 0, _ => by simp [dofOff]
  | t :: ts, ρ + 1, h => by
    have := dofOff_add_le ts ρ (by simpa using h)
    simp only [dofOff_succ, List.getElem_cons_succ, List.map_cons, List.sum_cons]; omega

/-- the slice of link `ρ`: its `qd` and `dofs` start at flat index `dofOff ts ρ` -/
theorem linkSlices_at : ∀ (ts : List LinkType) (q qd : List ℝ) (ds : List (DofP ℝ)) (ρ : Nat) (hρ : ρ < ts.length),
    ((linkSlices ts q qd ds)[ρ]'(by rw [linkSlices_length]; exact hρ)).typ = ts[ρ]
    ∧ ((linkSlices ts q qd ds)[ρ]'(by rw [linkSlices_length]; exact hρ)).qd
        = (qd.drop (dofOff ts ρ)).take ts[ρ].qdWidth
    ∧ ((linkSlices ts q qd ds)[ρ]'(by rw [linkSlices_length]; exact hρ)).dofs
        = (ds.drop (dofOff ts ρ)).take ts[ρ].qdWidth
  | t :: ts, q, qd, ds, 0, _ => by simp [linkSlices, dofOff]
  | t :: ts, q, qd, ds, ρ + 1, hρ => by
    have ih := linkSlices_at ts (q.drop t.qWidth) (qd.drop t.qdWidth) (ds.drop t.qdWidth) ρ (by simpa using hρ)
    simp only [linkSlices, List.getElem_cons_succ, dofOff_succ]
    rw [ih.1, ih.2.1, ih.2.2, List.drop_drop, List.drop_drop]
    exact ⟨rfl, rfl, rfl⟩

theorem flatten_length_widths {ts : List LinkType} {L : List (List ℝ)}
    (hF : List.Forall₂ (fun (t : LinkType) (r : List ℝ) => r.length = t.qdWidth) ts L) :
    L.flatten.length = (ts.map LinkType.qdWidth).sum := by
  induction hF with
  | nil => rfl
  | @cons t r ts L hr _ ih => simp [hr, ih]

/-- rows `dofOff ts ρ …` of a flattened per-link array are the first entries of block `ρ` -/
theorem lin3_drop_flatten {ts : List LinkType} {L : List (List ℝ)}
    (hF : List.Forall₂ (fun (t : LinkType) (r : List ℝ) => r.length = t.qdWidth) ts L) :
    ∀ ρ, 3 ≤ (L.getD ρ []).length → lin3 (L.flatten.drop (dofOff ts ρ)) = lin3 (L.getD ρ []) := by
  induction hF with
  | nil => intro ρ h3; simp at h3
  | @cons t r ts L hr _ ih =>
    intro ρ h3
    cases ρ with
    | zero =>
      rw [dofOff_zero, List.drop_zero]
      exact lin3_flatten _ h3
    | succ ρ =>
      have e : (r ++ L.flatten).drop (r.length + dofOff ts ρ) = L.flatten.drop (dofOff ts ρ) := by
        rw [List.drop_append, List.drop_eq_nil_of_le (by omega)]; simp
      rw [dofOff_succ, ← hr, List.flatten_cons, e]
      simp only [List.getD_cons_succ] at h3 ⊢
      exact ih ρ h3

theorem passiveLink_length (l : LinkIn ℝ) (hq : l.q.length = l.typ.qWidth) (hqd : l.qd.length = l.typ.qdWidth)
    (hd : l.dofs.length = l.typ.qdWidth) : (passiveLink l).length = l.typ.qdWidth := by
  rcases l with ⟨t, lq, lqd, ld⟩
  cases t <;> simp_all [passiveLink, LinkType.qWidth, LinkType.qdWidth]

theorem six_split (D : List (DofP ℝ)) (h6 : 6 ≤ D.length) : ∃ d0 d1 d2 d3 d4 d5 : DofP ℝ,
    D.take 6 = [d0, d1, d2, d3, d4, d5] ∧ ∀ F : DofP ℝ → ℝ, lin3 (D.map F) = ⟨F d0, F d1, F d2⟩ := by
  obtain ⟨d0, d1, d2, d3, d4, d5, hd⟩ := C05G.length6 (D.take 6) (by rw [List.length_take]; omega)
  have hall : D = d0 :: d1 :: d2 :: d3 :: d4 :: d5 :: D.drop 6 := by
    conv_lhs => rw [← List.take_append_drop 6 D, hd]
    rfl
  refine ⟨d0, d1, d2, d3, d4, d5, hd, fun F => ?_⟩
  rw [hall]
  simp only [lin3, List.map_cons, List.getD_cons_zero, List.getD_cons_succ]

variable {s : Sys ℝ} {q qd : List ℝ} {ρ : Nat}

/-- the `MomOK` hypotheses at a root `ρ` (not necessarily link 0): array sizes, `GenOK`, `ρ` is a root link,
symmetric link inertias, and **no damping and no armature on the three translational dofs of `ρ`** (flat
indices `dofOff s.types ρ + 0,1,2`) -/
structure MomOKAt (s : Sys ℝ) (q qd : List ℝ) (ρ : Nat) : Prop where
  full : Full s q qd
  ok : StOK s q qd
  lt : ρ < s.types.length
  root : s.parents.getD ρ (-1) < 0
  symm : ∀ lk ∈ s.links, SymmI lk.inertia
  damp0 : lin3 ((s.dofs.map (·.damping)).drop (dofOff s.types ρ)) = V3.zero
  arm0 : lin3 ((s.dofs.map (·.armature)).drop (dofOff s.types ρ)) = V3.zero

/-- `MomOK` is `MomOKAt` at link 0 -/
theorem MomOK.toAt (h : MomOK s q qd) : MomOKAt s q qd 0 :=
  { full := h.full, ok := h.ok, lt := h.pos, root := h.rootOK.root, symm := h.symm
    damp0 := by rw [dofOff_zero, List.drop_zero]; exact h.damp0
    arm0 := by rw [dofOff_zero, List.drop_zero]; exact h.arm0 }

theorem MomOKAt.pwf (h : MomOKAt s q qd ρ) : PWF s.parents := pwf_of_par s.parents h.ok.par

theorem MomOKAt.free (h : MomOKAt s q qd ρ) : s.types[ρ]'h.lt = .free := by
  have hp : ρ < s.parents.length := by rw [h.ok.parents]; exact h.lt
  have hr := h.root
  rw [List.getD_eq_getElem?_getD, List.getElem?_eq_getElem hp] at hr
  simp only [Option.getD_some] at hr
  exact h.ok.rootFree ρ hp h.lt hr

theorem MomOKAt.off_le (h : MomOKAt s q qd ρ) : dofOff s.types ρ + 6 ≤ s.nv := by
  have := dofOff_add_le s.types ρ h.lt
  rw [h.free] at this
  exact this

theorem cdof_chunks_of (hf : Full s q qd) (hok : StOK s q qd) :
    List.Forall₂ (fun (t : LinkType) (r : List (Motion ℝ)) => r.length = t.qdWidth)
      s.types (dynInit s q qd).com.cdof := by
  have hfl := linkSlices_full s.types q qd s.dofs (by rw [hf.hq]; exact le_refl _)
    (by rw [hf.hqd]; exact le_refl _) (by rw [hf.hds]; exact le_refl _)
  have hl := (tc_lengths hok).2.2.2.2.1
  apply forall₂_of_getElem
  · exact hl.symm
  · intro i h1 h2
    have hii : i < (linkSlices s.types q qd s.dofs).length := by rw [hok.insLen]; exact h1
    have hrow := forall₂_getElem hfl i h1 hii
    show ((tcCdof s _ (linkSlices s.types q qd s.dofs))[i]'h2).length = _
    simp only [tcCdof, List.getElem_zipWith]
    rw [cdofLink_length, hrow.2.2.2]
    intro hnf
    rw [hrow.2.1, hrow.2.2.2]
    have ht := hrow.1
    cases hti : s.types[i] <;> first | (rw [hti] at ht; exact absurd ht hnf) | rfl

/-- `ρ` is a root whose translational `cdof` rows are the world axes -/
theorem MomOKAt.rootOK (h : MomOKAt s q qd ρ) : RootOK s.parents (dynInit s q qd).com.cdof ρ := by
  have h0 : ρ < s.types.length := h.lt
  have hl := tc_lengths h.ok
  have hlen : ρ < (dynInit s q qd).com.cdof.length := by
    show ρ < (tcCdof s _ (linkSlices s.types q qd s.dofs)).length
    rw [hl.2.2.2.2.1]; exact h0
  refine ⟨h.root, hlen, ?_⟩
  have hf : s.types[ρ] = .free := h.free
  have hi : ρ < (linkSlices s.types q qd s.dofs).length := by rw [h.ok.insLen]; exact h0
  have htyp : ((linkSlices s.types q qd s.dofs)[ρ]'hi).typ = .free := by rw [h.ok.typ ρ hi h0]; exact hf
  have hb := h.ok.basis _ (List.getElem_mem hi) htyp
  have hz : ρ < ((jointFrames s ((Kin.forward s q qd).map (·.1))).zip
      (tcCom s ((Kin.forward s q qd).map (·.1)))).length := by
    rw [List.length_zip, hl.2.2.2.1, hl.2.1]; simpa using h0
  have hrow : (dynInit s q qd).com.cdof.getD ρ []
      = cdofLink ((linkSlices s.types q qd s.dofs)[ρ]'hi)
          (((jointFrames s ((Kin.forward s q qd).map (·.1))).zip
            (tcCom s ((Kin.forward s q qd).map (·.1))))[ρ]'hz).1
          (((jointFrames s ((Kin.forward s q qd).map (·.1))).zip
            (tcCom s ((Kin.forward s q qd).map (·.1))))[ρ]'hz).2 := by
    show (tcCdof s _ (linkSlices s.types q qd s.dofs)).getD ρ [] = _
    unfold tcCdof
    rw [getD_zipWith _ _ _ [] ρ hi hz]
  rw [hrow, cdofLink_eq]
  have hloc : cdofLocal ((linkSlices s.types q qd s.dofs)[ρ]'hi) = freeBasis := by
    unfold cdofLocal; rw [htyp]; exact hb
  have hbt : (((linkSlices s.types q qd s.dofs)[ρ]'hi).typ == LinkType.free) = true := by rw [htyp]; rfl
  rw [hloc, hbt]
  simp only [freeBasis, List.map_cons, List.map_nil, rowF_true_lin]
  exact ⟨_, _, _, rfl⟩

/-- the slice of the root `ρ`: six dofs, six velocities; damping and armature vanish on the first three -/
theorem MomOKAt.slice (h : MomOKAt s q qd ρ) :
    ∃ (hi : ρ < (nested s q qd).length) (d0 d1 d2 d3 d4 d5 : DofP ℝ) (v0 v1 v2 v3 v4 v5 : ℝ),
      ((nested s q qd)[ρ]'hi).typ = .free ∧ ((nested s q qd)[ρ]'hi).dofs = [d0, d1, d2, d3, d4, d5]
      ∧ ((nested s q qd)[ρ]'hi).qd = [v0, v1, v2, v3, v4, v5]
      ∧ d0.damping = 0 ∧ d1.damping = 0 ∧ d2.damping = 0
      ∧ d0.armature = 0 ∧ d1.armature = 0 ∧ d2.armature = 0 := by
  have hi : ρ < (nested s q qd).length := by
    show ρ < (linkSlices s.types q qd s.dofs).length
    rw [linkSlices_length]; exact h.lt
  obtain ⟨e1, e2, e3⟩ := linkSlices_at s.types q qd s.dofs ρ h.lt
  have hoff := h.off_le
  have hw : (s.types[ρ]'h.lt).qdWidth = 6 := by rw [h.free]; rfl
  rw [hw] at e2 e3
  obtain ⟨d0, d1, d2, d3, d4, d5, hd, hF⟩ := six_split (s.dofs.drop (dofOff s.types ρ))
    (by rw [List.length_drop, h.full.hds]; omega)
  obtain ⟨v0, v1, v2, v3, v4, v5, hv⟩ := C05G.length6 ((qd.drop (dofOff s.types ρ)).take 6)
    (by rw [List.length_take, List.length_drop, h.full.hqd]; omega)
  have hdm := h.damp0
  have ham := h.arm0
  rw [← List.map_drop, hF] at hdm ham
  simp only [V3.zero, V3.mk.injEq] at hdm ham
  refine ⟨hi, d0, d1, d2, d3, d4, d5, v0, v1, v2, v3, v4, v5, ?_, ?_, ?_, hdm.1, hdm.2.1, hdm.2.2,
    ham.1, ham.2.1, ham.2.2⟩
  · exact e1.trans h.free
  · exact e3.trans hd
  · exact e2.trans hv


/-- no passive force on the translational dofs of the root `ρ` -/
theorem MomOKAt.passive_row (h : MomOKAt s q qd ρ) :
    ∃ hi : ρ < (nested s q qd).length,
      (passiveLink ((nested s q qd)[ρ]'hi)).length = 6
      ∧ lin3 (passiveLink ((nested s q qd)[ρ]'hi)) = V3.zero := by
  obtain ⟨hi, d0, d1, d2, d3, d4, d5, v0, v1, v2, v3, v4, v5, ht, hd, hv, e0, e1, e2, _, _, _⟩ := h.slice
  have hp : passiveLink ((nested s q qd)[ρ]'hi)
      = [0 - d0.damping * v0, 0 - d1.damping * v1, 0 - d2.damping * v2, 0 - d3.damping * v3,
          0 - d4.damping * v4, 0 - d5.damping * v5] := by
    simp only [passiveLink, ht, hd, hv, List.map_cons, List.map_nil, List.zip_cons_cons, List.zip_nil_right,
      List.zipWith_cons_cons, List.zipWith_nil_right]
  refine ⟨hi, by rw [hp]; rfl, ?_⟩
  rw [hp]
  simp only [lin3, List.getD_cons_zero, List.getD_cons_succ, e0, e1, e2, V3.zero]
  congr 1 <;> ring

/-- no armature on the translational dofs of the root `ρ` -/
theorem MomOKAt.armAt0 (h : MomOKAt s q qd ρ) :
    armAt ((nested s q qd).map (fun l => l.dofs.map (·.armature))) ρ 0 = 0
    ∧ armAt ((nested s q qd).map (fun l => l.dofs.map (·.armature))) ρ 1 = 0
    ∧ armAt ((nested s q qd).map (fun l => l.dofs.map (·.armature))) ρ 2 = 0 := by
  obtain ⟨hi, d0, d1, d2, d3, d4, d5, v0, v1, v2, v3, v4, v5, ht, hd, hv, _, _, _, e0, e1, e2⟩ := h.slice
  have hrow : ((nested s q qd).map (fun l => l.dofs.map (·.armature))).getD ρ []
      = [d0.armature, d1.armature, d2.armature, d3.armature, d4.armature, d5.armature] := by
    rw [List.getD_eq_getElem?_getD, List.getElem?_map, List.getElem?_eq_getElem hi]
    simp [hd]
  unfold armAt
  rw [hrow]
  simp [e0, e1, e2]

theorem drop_forward (P B T : List ℝ) (k : Nat) :
    (Gd.forward P B T).drop k = Gd.forward (P.drop k) (B.drop k) (T.drop k) := by
  unfold Gd.forward
  rw [List.drop_zipWith, List.drop_zipWith]

/-- the mass matrix of `pipeline.init` is `nv × nv` -/
theorem massMx_dim (hf : Full s q qd) (hok : StOK s q qd) :
    (dofIdx (dynInit s q qd).com.cdof.length (wAt (dynInit s q qd).com.cdof)).length = s.nv := by
  have hl := tc_lengths hok
  have hch := cdof_chunks_of hf hok
  obtain ⟨hflat, hN⟩ := chunkQd_spec s.types qd hf.hqd
  have hclen : (dynInit s q qd).com.cdof.length = s.types.length := hl.2.2.2.2.1
  have hNl : (chunkQd s.types qd).length = s.types.length := (List.Forall₂.length_eq hN).symm
  have hw : ∀ l, l < (chunkQd s.types qd).length →
      ((chunkQd s.types qd).getD l []).length = wAt (dynInit s q qd).com.cdof l := by
    intro l hl'
    have h1 : l < s.types.length := by rw [← hNl]; exact hl'
    have h2 : l < (dynInit s q qd).com.cdof.length := by rw [hclen]; exact h1
    have e1 := forall₂_getElem hN l h1 hl'
    have e2 := forall₂_getElem hch l h1 h2
    unfold wAt
    rw [← getElem_eq_getD _ [] l hl', ← getElem_eq_getD _ [] l h2, e1, e2]
  have := congrArg List.length
    (flatten_eq_dofIdx_map (dynInit s q qd).com.cdof (chunkQd s.types qd) (by rw [hNl, hclen]) hw)
  rw [hflat, List.length_map] at this
  rw [← this, hf.hqd]

/-- **Momentum balance of the tree of any free root `ρ`, pipeline level.**  If `qdd` solves
`(M + diag(damping)·dt) qdd = qf_smooth + qf_constraint` exactly and neither passive force, actuator force,
constraint force nor armature acts on the three translational dofs of `ρ` (flat indices `dofOff s.types ρ +
0,1,2`), then the root rows balance: `P(q, qdd) + (linear part of the tree's Newton–Euler force) = 0`. -/
theorem root_balance_at (h : MomOKAt s q qd ρ) (act qfc qdd : List ℝ)
    (hqdd : qdd.length = s.nv) (hqfc : qfc.length = s.nv)
    (htau : lin3 ((toTau s.nv s.acts act q qd).drop (dofOff s.types ρ)) = V3.zero)
    (hqfc0 : lin3 (qfc.drop (dofOff s.types ρ)) = V3.zero)
    (hex : matVec (dampedMatrix (dynInit s q qd).massMx (s.dofs.map (·.damping)) s.dt) qdd
        = List.zipWith (· + ·) (qfSmooth s (dynInit s q qd) q qd act) qfc) :
    linMom s q qd ρ qdd
      + (treeFrc s.parents (dynInit s q qd).com.cinr (stCdd s q qd) (dynInit s q qd).com.cd
          s.types.length ρ).vel
      = V3.zero := by
  unfold linMom
  have hoff := h.off_le
  have hl := tc_lengths h.ok
  have hwf := h.pwf
  have hρ := h.rootOK
  have hch := cdof_chunks_of h.full h.ok
  obtain ⟨hflat, hN⟩ := chunkQd_spec s.types qdd hqdd
  have hclen : (dynInit s q qd).com.cdof.length = s.types.length := hl.2.2.2.2.1
  have hcinr : (dynInit s q qd).com.cinr.length = s.types.length := hl.2.2.1
  have hcd : (dynInit s q qd).com.cd.length = s.types.length := hl.2.2.2.2.2.2.1
  have hNl : (chunkQd s.types qdd).length = s.types.length := (List.Forall₂.length_eq hN).symm
  have hw : ∀ l, l < (chunkQd s.types qdd).length →
      ((chunkQd s.types qdd).getD l []).length = wAt (dynInit s q qd).com.cdof l := by
    intro l hl'
    have h1 : l < s.types.length := by rw [← hNl]; exact hl'
    have h2 : l < (dynInit s q qd).com.cdof.length := by rw [hclen]; exact h1
    have e1 := forall₂_getElem hN l h1 hl'
    have e2 := forall₂_getElem hch l h1 h2
    unfold wAt
    rw [← getElem_eq_getD _ [] l hl', ← getElem_eq_getD _ [] l h2, e1, e2]
  have hsym : ∀ I ∈ (dynInit s q qd).com.cinr, SymmI I := by
    intro I hI
    obtain ⟨xi, cm, lk, hlk, rfl⟩ := transformCom_cinr_mem s _ q qd I hI
    exact cinrLink_symm xi cm lk.inertia (h.symm lk hlk)
  have hM : (dynInit s q qd).massMx = massMatrix s.parents (dynInit s q qd).com.cinr
      (dynInit s q qd).com.cdof ((nested s q qd).map (fun l => l.dofs.map (·.armature))) := rfl
  have hmv := matVec_eq_mvRows s.parents (dynInit s q qd).com.cinr (dynInit s q qd).com.cdof
    ((nested s q qd).map (fun l => l.dofs.map (·.armature))) (chunkQd s.types qdd) hsym
    (by rw [hNl, hclen]) hw
  rw [hflat] at hmv
  have hidx := massMx_dim h.full h.ok
  have hsh := massMatrix_shape s.parents (dynInit s q qd).com.cinr (dynInit s q qd).com.cdof
    ((nested s q qd).map (fun l => l.dofs.map (·.armature)))
  have hdl : (s.dofs.map (·.damping)).length = s.nv := by rw [List.length_map, h.full.hds]
  have hdamp := matVec_damped _ (s.dofs.map (·.damping)) qdd s.dt s.nv (hsh.1.trans hidx)
    (fun r hr => (hsh.2 r hr).trans hidx) hdl hqdd
  have hcdd : (stCdd s q qd).length = (dynInit s q qd).com.cdof.length := by
    rw [stCdd_length h.ok, hclen]
  have hcfrc : (invCfrc s.parents s.gravity (dynInit s q qd).com ((nested s q qd).map (·.qd))).length
      = s.types.length := by
    have hcdd' : (invCdd s.parents s.gravity (dynInit s q qd).com ((nested s q qd).map (·.qd))).length
        = s.types.length := stCdd_length h.ok
    simp [invCfrc, revAcc_length, invFlat, hcinr, hcdd', hcd]
  have hbal := root_rows_balance s.parents s.gravity (dynInit s q qd).com
    ((nested s q qd).map (fun l => l.dofs.map (·.armature))) (chunkQd s.types qdd)
    ((nested s q qd).map (·.qd)) ρ (by rw [hclen]; exact h.ok.parents) (hcinr.trans hclen.symm)
    (hcd.trans hclen.symm)
    (show (invCdd s.parents s.gravity (dynInit s q qd).com ((nested s q qd).map (fun l => l.qd))).length
      = (dynInit s q qd).com.cdof.length from hcdd) hwf hρ
  obtain ⟨a0, a1, a2, hrows⟩ := hρ.rows
  have hw0 : wAt (dynInit s q qd).com.cdof ρ = 6 := by unfold wAt; rw [hrows]; rfl
  -- widths of the three nested arrays
  have hFmv : List.Forall₂ (fun (t : LinkType) (r : List ℝ) => r.length = t.qdWidth) s.types
      (mvRows s.parents (dynInit s q qd).com.cinr (dynInit s q qd).com.cdof
        ((nested s q qd).map (fun l => l.dofs.map (·.armature))) (chunkQd s.types qdd)) := by
    apply forall₂_of_getElem
    · simp [mvRows, hclen]
    · intro i h1 h2
      have h3 : i < (dynInit s q qd).com.cdof.length := by rw [hclen]; exact h1
      have e2 := forall₂_getElem hch i h1 h3
      simp only [mvRows, List.getElem_map, List.getElem_range, List.length_map, List.length_range]
      unfold wAt
      rw [← getElem_eq_getD _ [] i h3, e2]
  have hFinv : List.Forall₂ (fun (t : LinkType) (r : List ℝ) => r.length = t.qdWidth) s.types
      (inverse s.parents s.gravity (dynInit s q qd).com ((nested s q qd).map (·.qd))) := by
    apply forall₂_of_getElem
    · rw [inverse_eq]; simp [hclen, hcfrc]
    · intro i h1 h2
      have h3 : i < (dynInit s q qd).com.cdof.length := by rw [hclen]; exact h1
      have e2 := forall₂_getElem hch i h1 h3
      simp only [inverse_eq, List.getElem_zipWith, List.length_map]
      exact e2
  have hfl := linkSlices_full s.types q qd s.dofs (by rw [h.full.hq]; exact le_refl _)
    (by rw [h.full.hqd]; exact le_refl _) (by rw [h.full.hds]; exact le_refl _)
  have hFpas : List.Forall₂ (fun (t : LinkType) (r : List ℝ) => r.length = t.qdWidth) s.types
      ((nested s q qd).map passiveLink) := by
    apply forall₂_of_getElem
    · rw [List.length_map]; exact h.ok.insLen.symm
    · intro i h1 h2
      have hii : i < (linkSlices s.types q qd s.dofs).length := by rw [h.ok.insLen]; exact h1
      have hrow := forall₂_getElem hfl i h1 hii
      simp only [List.getElem_map]
      show (passiveLink ((linkSlices s.types q qd s.dofs)[i]'hii)).length = _
      rw [passiveLink_length _ (by rw [hrow.1]; exact hrow.2.1) (by rw [hrow.1]; exact hrow.2.2.1)
        (by rw [hrow.1]; exact hrow.2.2.2), hrow.1]
  -- lengths of the flat arrays
  have hMlen : (matVec (massMatrix s.parents (dynInit s q qd).com.cinr (dynInit s q qd).com.cdof
      ((nested s q qd).map (fun l => l.dofs.map (·.armature)))) qdd).length = s.nv := by
    simp only [matVec, List.length_map]; exact hsh.1.trans hidx
  have hrow0 : ((mvRows s.parents (dynInit s q qd).com.cinr (dynInit s q qd).com.cdof
      ((nested s q qd).map (fun l => l.dofs.map (·.armature))) (chunkQd s.types qdd)).getD ρ []).length = 6 := by
    unfold mvRows
    rw [getD_range_map _ _ _ ρ hρ.lt, List.length_map, List.length_range, hw0]
  have hL : lin3 ((matVec (dampedMatrix (dynInit s q qd).massMx (s.dofs.map (·.damping)) s.dt) qdd).drop
        (dofOff s.types ρ))
      = lin3 ((mvRows s.parents (dynInit s q qd).com.cinr (dynInit s q qd).com.cdof
          ((nested s q qd).map (fun l => l.dofs.map (·.armature))) (chunkQd s.types qdd)).getD ρ []) := by
    rw [hM, hdamp, List.drop_zipWith, List.drop_zipWith, ← List.map_drop,
      lin3_damped _ _ _ _ (by rw [List.length_drop]; omega) (by rw [List.length_drop]; omega)
        (by rw [List.length_drop]; omega) h.damp0, hmv, lin3_drop_flatten hFmv ρ (by omega)]
  obtain ⟨hi, hP6, hP0⟩ := h.passive_row
  have hPrho : ((nested s q qd).map passiveLink).getD ρ [] = passiveLink ((nested s q qd)[ρ]'hi) := by
    rw [List.getD_eq_getElem?_getD, List.getElem?_map, List.getElem?_eq_getElem hi]; rfl
  have hPlen : (passiveFlat s q qd).length = s.nv := flatten_length_widths hFpas
  have hPl : lin3 ((passiveFlat s q qd).drop (dofOff s.types ρ)) = V3.zero := by
    show lin3 (((nested s q qd).map passiveLink).flatten.drop _) = _
    rw [lin3_drop_flatten hFpas ρ (by rw [hPrho, hP6]; omega), hPrho, hP0]
  have hb0 : ((inverse s.parents s.gravity (dynInit s q qd).com ((nested s q qd).map (·.qd))).getD ρ []).length
      = 6 := by
    rw [inverse_getD_length _ _ _ _ ρ hρ.lt (by rw [hcfrc]; exact h.lt), hrows]; rfl
  have hBlen : (biasFlat s (dynInit s q qd) q qd).length = s.nv := flatten_length_widths hFinv
  have hBl : lin3 ((biasFlat s (dynInit s q qd) q qd).drop (dofOff s.types ρ))
      = lin3 ((inverse s.parents s.gravity (dynInit s q qd).com ((nested s q qd).map (·.qd))).getD ρ []) :=
    lin3_drop_flatten hFinv ρ (by omega)
  have hR : lin3 ((List.zipWith (· + ·) (qfSmooth s (dynInit s q qd) q qd act) qfc).drop (dofOff s.types ρ))
      + lin3 ((biasFlat s (dynInit s q qd) q qd).drop (dofOff s.types ρ)) = V3.zero := by
    unfold qfSmooth
    rw [List.drop_zipWith, drop_forward]
    exact lin3_force _ _ _ _ (by rw [List.length_drop]; omega) (by rw [List.length_drop]; omega)
      (by rw [List.length_drop, toTau_length]; omega) (by rw [List.length_drop]; omega) hPl htau hqfc0
  rw [← hex, hL, hBl, hbal] at hR
  obtain ⟨z0, z1, z2⟩ := h.armAt0
  rw [z0, z1, z2] at hR
  simp only [zero_mul] at hR
  have hz : (⟨0, 0, 0⟩ : V3 ℝ) = V3.zero := rfl
  rw [hz, V3.add_zero', hclen] at hR
  exact hR

/-- **`mom_step_fixed_q` at any free root `ρ`**: `P(q, qd + dt·qdd) − P(q, qd) = dt·(M_tot g − Σ_b m_b c_b)` -/
theorem linMom_step_at (h : MomOKAt s q qd ρ) (act qfc qdd : List ℝ)
    (hqdd : qdd.length = s.nv) (hqfc : qfc.length = s.nv)
    (htau : lin3 ((toTau s.nv s.acts act q qd).drop (dofOff s.types ρ)) = V3.zero)
    (hqfc0 : lin3 (qfc.drop (dofOff s.types ρ)) = V3.zero)
    (hex : matVec (dampedMatrix (dynInit s q qd).massMx (s.dofs.map (·.damping)) s.dt) qdd
        = List.zipWith (· + ·) (qfSmooth s (dynInit s q qd) q qd act) qfc) :
    linMom s q qd ρ (List.zipWith (fun v a => v + a * s.dt) qd qdd) - linMom s q qd ρ qd
      = V3.smul s.dt (V3.smul (stTreeMass s q qd ρ) s.gravity - stTreeVp s q qd ρ) :=
  linMom_step_of_balance h.ok ρ qdd (by rw [h.full.hqd, hqdd])
    (root_balance_at h act qfc qdd hqdd hqfc htau hqfc0 hex)

/-- `Σ_{b ∈ tree ρ} m_b (a_b − g) = 0` at any free root `ρ` (the analogue of `root_balance_physical`) -/
theorem root_balance_physical_at (h : MomOKAt s q qd ρ) (act qfc qdd : List ℝ)
    (hqdd : qdd.length = s.nv) (hqfc : qfc.length = s.nv)
    (htau : lin3 ((toTau s.nv s.acts act q qd).drop (dofOff s.types ρ)) = V3.zero)
    (hqfc0 : lin3 (qfc.drop (dofOff s.types ρ)) = V3.zero)
    (hex : matVec (dampedMatrix (dynInit s q qd).massMx (s.dofs.map (·.damping)) s.dt) qdd
        = List.zipWith (· + ·) (qfSmooth s (dynInit s q qd) q qd act) qfc) :
    (vrsum s.types.length fun b => if inTree s.parents ρ b then
        V3.smul ((dynInit s q qd).com.cinr.getD b dI).mass
          (pointAcc (velAnc s.parents (dynInit s q qd).com.cdof (qddN s qdd) b
              + (stCdd s q qd).getD b Motion.zero)
            ((dynInit s q qd).com.cd.getD b Motion.zero) (comOff s q qd b))
        else V3.zero) = V3.zero := by
  rw [← treeRate_vel s.parents (dynInit s q qd).com.cinr (dynInit s q qd).com.cdof (stCdd s q qd)
    (dynInit s q qd).com.cd (qddN s qdd) s.types.length ρ (comOff s q qd) (fun b hb => cinr_off_of h.ok b hb)]
  exact root_balance_at h act qfc qdd hqdd hqfc htau hqfc0 hex

end later

end Brax.C12M2
