import Brax.Lemmas.C06
/-!
# C06 helper lemmas, part 2: the spring pipeline (`Brax/Model/Spring.lean`)

* limit terms of `_one_dof/_two_dof/_three_dof` vanish inside the range: the `dof.limit` path
  computes what the `dof.limit is None` path computes;
* a separated contact (`¬ dist < 0`) has `apply_n = false` and a zero impulse; `collisions.resolve`
  then returns a zero delta-velocity for every link;
* push-only: the impulse on the first link has normal component `impulse·[apply_n]` along
  `-frame[0]` with `impulse > 0` whenever `apply_n` holds; the friction drag is tangential;
* rebound: for a contact whose lever arms are parallel to the normal the impulse is
  `(−(1+e)·v_n − (erp/dt)·dist) / (1/m₁ + 1/m₂)`;
* `integrator.integrate` returns unit quaternions: `‖rot + ½dt·ω⊗rot‖² = ‖rot‖²(1 + dt²‖ω‖²/4)`.
-/
set_option linter.unusedSectionVars false
set_option linter.unusedSimpArgs false
set_option linter.unusedVariables false
namespace Brax.C06L
open Brax MC C04L C06

section vec
variable {K : Type} [Field K]

theorem v3_sub_zero_lit (a : V3 K) : a - (⟨0, 0, 0⟩ : V3 K) = a := by
  cases a; simp [V3.sub_def]
theorem v3_add_zero_lit (a : V3 K) : a + (⟨0, 0, 0⟩ : V3 K) = a := by
  cases a; simp [V3.add_def]
theorem smul_zero_scalar (v : V3 K) : V3.smul 0 v = ⟨0, 0, 0⟩ := by
  simp [V3.smul]
theorem v3_add_zero_zero : ((⟨0, 0, 0⟩ : V3 K) + ⟨0, 0, 0⟩) = ⟨0, 0, 0⟩ := by simp [V3.add_def]
theorem smul_zero_vec (s : K) : V3.smul s (⟨0, 0, 0⟩ : V3 K) = ⟨0, 0, 0⟩ := by simp [V3.smul]
theorem maskV_zero (b : Bool) : maskV b (⟨0, 0, 0⟩ : V3 K) = ⟨0, 0, 0⟩ := by
  cases b <;> rfl
theorem mulVec_zero_lit (m : M3 K) : M3.mulVec m (⟨0, 0, 0⟩ : V3 K) = ⟨0, 0, 0⟩ := by
  simp [M3.mulVec, V3.dot]

end vec

section limits
variable {K : Type} [Field K] [LinearOrder K] [IsStrictOrderedRing K] [HasSqrt K] [HasTrig K]

/-- `dang`/`dvel` of the spring limit blocks vanish inside the (closed) range -/
theorem limDelta_inRange {x : K} {lo hi : Option K} (h : InRange x lo hi) :
    Spring.limDelta x lo hi = 0 := by
  obtain ⟨h1, h2⟩ := h
  unfold Spring.limDelta
  cases lo with
  | none =>
    cases hi with
    | none => rfl
    | some u => simp only []; rw [if_neg (not_lt.mpr (h2 u rfl))]
  | some l =>
    cases hi with
    | none => simp only []; rw [if_neg (not_lt.mpr (h1 l rfl))]
    | some u => simp only []; rw [if_neg (not_lt.mpr (h2 u rfl)), if_neg (not_lt.mpr (h1 l rfl))]

/-- with no bound at all (`dof.limit` entries `∓inf`) the limit delta is `0` -/
theorem limDelta_none (x : K) : Spring.limDelta x none none = 0 := rfl

end limits

section dofs
variable {K : Type} [Field K] [LinearOrder K] [IsStrictOrderedRing K] [HasSqrt K] [HasTrig K]


theorem oneDof_limit_inert (lk : LinkP K) (j : Tf K) (jd : Motion K) (d : DofP K) (tau : K)
    (h : if v3Any d.motion.vel
         then InRange (V3.dot j.pos (frame1 d.motion).vel.r0) d.lo d.hi
         else InRange (axisAngleAng j (frame1 d.motion).ang (frame1 d.motion).parity).psi d.lo d.hi) :
    Spring.oneDof true lk j jd d tau = Spring.oneDof false lk j jd d tau := by
  unfold Spring.oneDof
  simp only [if_true, Bool.false_eq_true, if_false]
  by_cases hT : v3Any d.motion.vel = true
  · rw [if_pos hT] at h
    simp only [hT, Bool.not_true, maskV_false, maskV_true, limDelta_inRange h, mul_zero,
      smul_zero_scalar, v3_sub_zero_lit]
  · rw [if_neg hT] at h
    have hF : v3Any d.motion.vel = false := by simpa using hT
    simp only [hF, Bool.not_false, maskV_false, maskV_true, limDelta_inRange h, mul_zero,
      smul_zero_scalar, v3_sub_zero_lit]



theorem v3Any_eq_false {v : V3 K} (h : v3Any v = false) : v = ⟨0, 0, 0⟩ := by
  unfold v3Any at h
  simp only [Bool.or_eq_false_iff, Bool.not_eq_false', eqZero_iff] at h
  obtain ⟨⟨hx, hy⟩, hz⟩ := h
  cases v; simp_all

theorem smul_limDelta_maskV (b : Bool) (v : V3 K) (x : K) (lo hi : Option K)
    (h : b = true → InRange x lo hi) :
    V3.smul (Spring.limDelta x lo hi) (maskV b v) = ⟨0, 0, 0⟩ := by
  cases b
  · exact smul_zero_vec _
  · rw [limDelta_inRange (h rfl)]; exact smul_zero_scalar _

theorem smul_limDelta_any (v : V3 K) (x : K) (lo hi : Option K)
    (h : v3Any v = true → InRange x lo hi) :
    V3.smul (Spring.limDelta x lo hi) v = ⟨0, 0, 0⟩ := by
  by_cases hv : v3Any v = true
  · rw [limDelta_inRange (h hv)]; exact smul_zero_scalar _
  · have hv0 : v = ⟨0, 0, 0⟩ := v3Any_eq_false (by simpa using hv)
    rw [hv0]; exact smul_zero_vec _

theorem twoDof_limit_inert (lk : LinkP K) (j : Tf K) (jd : Motion K) (d0 d1 : DofP K) (t0 t1 : K)
    (ha0 : v3Any d0.motion.ang = true →
      InRange (axisAngleAng j (frame2 d0.motion d1.motion).ang (frame2 d0.motion d1.motion).parity).psi d0.lo d0.hi)
    (ha1 : v3Any d1.motion.ang = true →
      InRange (axisAngleAng j (frame2 d0.motion d1.motion).ang (frame2 d0.motion d1.motion).parity).theta d1.lo d1.hi)
    (hv0 : v3Any d0.motion.vel = true → InRange (V3.dot j.pos d0.motion.vel) d0.lo d0.hi)
    (hv1 : v3Any d1.motion.vel = true → InRange (V3.dot j.pos d1.motion.vel) d1.lo d1.hi) :
    Spring.twoDof true lk j jd d0 d1 t0 t1 = Spring.twoDof false lk j jd d0 d1 t0 t1 := by
  unfold Spring.twoDof
  simp only [if_true, Bool.false_eq_true, if_false, smul_limDelta_maskV _ _ _ _ _ ha0,
    smul_limDelta_maskV _ _ _ _ _ ha1, smul_limDelta_any _ _ _ _ hv0, smul_limDelta_any _ _ _ _ hv1,
    v3_add_zero_zero, smul_zero_vec, maskV_zero, v3_sub_zero_lit]

theorem threeDof_limit_inert (lk : LinkP K) (j : Tf K) (jd : Motion K) (d0 d1 d2 : DofP K)
    (t0 t1 t2 : K)
    (ha0 : v3Any d0.motion.ang = true →
      InRange (axisAngleAng j (frame3 d0.motion d1.motion d2.motion).ang (frame3 d0.motion d1.motion d2.motion).parity).psi d0.lo d0.hi)
    (ha1 : v3Any d1.motion.ang = true →
      InRange (axisAngleAng j (frame3 d0.motion d1.motion d2.motion).ang (frame3 d0.motion d1.motion d2.motion).parity).theta d1.lo d1.hi)
    (ha2 : v3Any d2.motion.ang = true →
      InRange (axisAngleAng j (frame3 d0.motion d1.motion d2.motion).ang (frame3 d0.motion d1.motion d2.motion).parity).phi d2.lo d2.hi)
    (hv0 : v3Any d0.motion.vel = true → InRange (V3.dot d0.motion.vel j.pos) d0.lo d0.hi)
    (hv1 : v3Any d1.motion.vel = true → InRange (V3.dot d1.motion.vel j.pos) d1.lo d1.hi)
    (hv2 : v3Any d2.motion.vel = true → InRange (V3.dot d2.motion.vel j.pos) d2.lo d2.hi) :
    Spring.threeDof true lk j jd d0 d1 d2 t0 t1 t2 = Spring.threeDof false lk j jd d0 d1 d2 t0 t1 t2 := by
  unfold Spring.threeDof
  simp only [if_true, Bool.false_eq_true, if_false, smul_limDelta_maskV _ _ _ _ _ ha0,
    smul_limDelta_maskV _ _ _ _ _ ha1, smul_limDelta_maskV _ _ _ _ _ ha2,
    smul_limDelta_any _ _ _ _ hv0, smul_limDelta_any _ _ _ _ hv1, smul_limDelta_any _ _ _ _ hv2,
    v3_add_zero_zero, smul_zero_vec, maskV_zero, v3_sub_zero_lit]

end dofs

section collide
variable {K : Type} [Field K] [LinearOrder K] [IsStrictOrderedRing K] [HasSqrt K] [HasF32 K]



/-- a contact that does not penetrate: `apply_n = false`, zero impulse -/
theorem impulse_separated (s : Sys K) (st : Spring.State K) (c : Contact K) (h : ¬ c.dist < 0) :
    Spring.impulse s st c = (⟨0, 0⟩, false) := by
  unfold Spring.impulse
  simp only [h, decide_false, Bool.false_and, maskV_false, v3_add_zero_zero]
  rfl

theorem mem_zipWith_elim {β γ δ : Type} (f : β → γ → δ) (l₁ : List β) (l₂ : List γ) {x : δ}
    (h : x ∈ List.zipWith f l₁ l₂) : ∃ a ∈ l₁, ∃ b ∈ l₂, x = f a b := by
  induction l₁ generalizing l₂ with
  | nil => simp at h
  | cons a l₁ ih =>
    cases l₂ with
    | nil => simp at h
    | cons b l₂ =>
      simp only [List.zipWith_cons_cons, List.mem_cons] at h
      rcases h with rfl | h
      · exact ⟨a, by simp, b, by simp, rfl⟩
      · obtain ⟨a', ha', b', hb', rfl⟩ := ih l₂ h
        exact ⟨a', List.mem_cons_of_mem _ ha', b', List.mem_cons_of_mem _ hb', rfl⟩

theorem force_neg_zero : -(⟨0, 0⟩ : Force K) = ⟨0, 0⟩ := by
  show (⟨-(0 : V3 K), -(0 : V3 K)⟩ : Force K) = ⟨0, 0⟩
  simp [V3.neg_def, v3_zero_eq]

/-- zero impulses spread to zero per-link impulses -/
theorem spread_zero (n : Nat) (xiAt : Int → Tf K) (cs : List (Contact K)) (ps : List (Force K))
    (isC : List K) (h : ∀ p ∈ ps, p = ⟨0, 0⟩) {i : Nat} (hi : i < n) :
    nth (Spring.spreadImpulses n xiAt cs ps isC) i = ⟨0, 0⟩ := by
  unfold Spring.spreadImpulses
  simp only []
  rw [nth_tab _ hi, nth_segmentSum_eq _ _ hi, segAt_zero]
  · show (⟨⟨0 / _, 0 / _, 0 / _⟩, ⟨0 / _, 0 / _, 0 / _⟩⟩ : Force K) = _
    simp only [zero_div]; rfl
  · intro p hp
    obtain ⟨a, _, b, hb, hab⟩ := mem_zipWith_elim _ _ _ (List.of_mem_zip hp).1
    rw [hab]
    have hb0 : b = ⟨0, 0⟩ := by
      rcases List.mem_append.mp hb with h1 | h1
      · exact h _ h1
      · obtain ⟨q, hq, hq2⟩ := List.mem_map.mp h1
        rw [← hq2, h q hq]; exact force_neg_zero
    rw [hb0]
    exact doForce_zero _

/-- all contacts separated: `collisions.resolve` changes no velocity -/
theorem collide_separated (s : Sys K) (st : Spring.State K) (cs : List (Contact K))
    (h : ∀ c ∈ cs, ¬ c.dist < 0) {i : Nat} (hi : i < s.numLinks) :
    nth (Spring.collide s st cs) i = ⟨0, 0⟩ := by
  unfold Spring.collide
  simp only []
  split
  · rw [nth_tab _ hi]
  · rw [nth_tab _ hi, spread_zero _ _ _ _ _ _ hi]
    · show (⟨M3.mulVec _ (0 : V3 K), ⟨(0 : K) / _, (0 : K) / _, (0 : K) / _⟩⟩ : Motion K) = ⟨0, 0⟩
      rw [v3_zero_eq, mulVec_zero_lit]; simp only [zero_div]
    · intro p hp
      simp only [List.map_map, List.mem_map, Function.comp] at hp
      obtain ⟨c, hc, rfl⟩ := hp
      rw [impulse_separated s st c (h c hc)]



/-- the friction drag direction is tangential: `(v + (−n·v) n) · (−n) = 0` for a unit normal -/
theorem drag_tangential (cv n : V3 K) (hn : V3.dot n n = 1) :
    V3.dot (cv + V3.smul (V3.dot (-n) cv) n) (-n) = 0 := by
  simp only [V3.dot, V3.neg_def, V3.add_def, V3.smul] at *
  linear_combination (n.x * cv.x + n.y * cv.y + n.z * cv.z) * hn

theorem impulse_final_dot (b1 b2 : Bool) (imp impD dd : K) (velD nn : V3 K)
    (h0 : V3.dot velD nn = 0) (h1 : V3.dot nn nn = 1) :
    V3.dot (maskV b1 (V3.smul imp nn)
      + maskV b2 (V3.smul (-1 * impD) ⟨velD.x / dd, velD.y / dd, velD.z / dd⟩)) nn
      = if b1 then imp else 0 := by
  simp only [V3.dot] at h0 h1
  cases b1 <;> cases b2 <;> simp only [maskV, V3.dot, V3.add_def, V3.smul, if_true, if_false,
    Bool.false_eq_true]
  · ring
  · by_cases hd : dd = 0
    · subst hd; simp
    · field_simp; linear_combination (-impD) * h0
  · linear_combination imp * h1
  · by_cases hd : dd = 0
    · subst hd; simp; linear_combination imp * h1
    · field_simp; linear_combination (imp * dd) * h1 + (-impD) * h0

/-- **push-only (spring)**: the normal component (along `-frame[0]`, the direction that separates
the first body from the second) of the impulse given to the first body is `impulse·[apply_n]`;
the friction drag is tangential. -/
theorem impulse_normal_component (s : Sys K) (st : Spring.State K) (c : Contact K)
    (hn : V3.dot c.normal c.normal = 1) :
    0 ≤ V3.dot (Spring.impulse s st c).1.vel (-c.normal)
    ∧ ((Spring.impulse s st c).2 = true → 0 < V3.dot (Spring.impulse s st c).1.vel (-c.normal))
    ∧ ((Spring.impulse s st c).2 = false → (Spring.impulse s st c).1 = ⟨0, 0⟩) := by
  have hnn : V3.dot (-c.normal) (-c.normal) = 1 := by
    simp only [V3.dot, V3.neg_def] at *; linear_combination hn
  unfold Spring.impulse
  simp only []
  rw [impulse_final_dot _ _ _ _ _ _ _ (drag_tangential _ _ hn) hnn]
  refine ⟨?_, ?_, ?_⟩
  · split
    · rename_i h
      simp only [Bool.and_eq_true, decide_eq_true_eq] at h
      exact le_of_lt h.2
    · exact le_refl 0
  · intro h
    rw [if_pos h]
    simp only [Bool.and_eq_true, decide_eq_true_eq] at h
    exact h.2
  · intro h
    simp only [h, Bool.false_and, maskV_false]
    show (⟨0, (⟨0, 0, 0⟩ : V3 K) + ⟨0, 0, 0⟩⟩ : Force K) = ⟨0, 0⟩
    rw [v3_add_zero_lit]; rfl

/-- a lever arm parallel to the normal carries no normal velocity from rotation:
`n · (ω × r) = ω · (r × n) = 0` -/
theorem dot_cross_lever (nn w r : V3 K) (h : V3.cross r nn = ⟨0, 0, 0⟩) :
    V3.dot nn (V3.cross w r) = 0 := by
  simp only [V3.cross, V3.mk.injEq] at h
  obtain ⟨hx, hy, hz⟩ := h
  simp only [V3.dot, V3.cross]
  linear_combination w.x * hx + w.y * hy + w.z * hz

theorem dot_maskV_lever (b : Bool) (nn v w r : V3 K) (h : b = true → V3.cross r nn = ⟨0, 0, 0⟩) :
    V3.dot nn (maskV b (v + V3.cross w r)) = V3.dot nn (maskV b v) := by
  cases b
  · rfl
  · have := dot_cross_lever nn w r (h rfl)
    simp only [maskV, if_true, V3.dot, V3.add_def] at *
    linear_combination this

theorem dot_sub' (n a b : V3 K) : V3.dot n (a - b) = V3.dot n a - V3.dot n b := by
  simp only [V3.dot, V3.sub_def]; ring

theorem ang_lever (b : Bool) (k : K) (nn r : V3 K) (h : b = true → V3.cross r nn = ⟨0, 0, 0⟩) :
    V3.cross (V3.smul (maskS b k) (V3.cross r nn)) r = ⟨0, 0, 0⟩ := by
  cases b
  · simp [maskS, V3.smul, V3.cross]
  · rw [h rfl]; simp [V3.smul, V3.cross]

/-- normal approach speed of the two contact points, without the rotational part -/
def contactNormalVel (st : Spring.State K) (c : Contact K) : K :=
  V3.dot (-c.normal) (maskV (decide (-1 < c.link1)) (takeWrap st.xd_i c.link1).vel)
  - V3.dot (-c.normal) (maskV (decide (-1 < c.link2)) (takeWrap st.xd_i c.link2).vel)

/-- `1/m₁ + 1/m₂` (a world link contributes `0`) -/
def contactInvMass (st : Spring.State K) (c : Contact K) : K :=
  maskS (decide (-1 < c.link1)) (1 / st.mass.getD (c.link1 % (st.mass.length : Int)).toNat 0)
  + maskS (decide (-1 < c.link2)) (1 / st.mass.getD (c.link2 % (st.mass.length : Int)).toNat 0)

theorem impulse_rebound (s : Sys K) (st : Spring.State K) (c : Contact K)
    (hn : V3.dot c.normal c.normal = 1)
    (hl1 : -1 < c.link1 → V3.cross (c.pos - (takeWrap st.x_i c.link1).pos) (-c.normal) = ⟨0, 0, 0⟩)
    (hl2 : -1 < c.link2 → V3.cross (c.pos - (takeWrap st.x_i c.link2).pos) (-c.normal) = ⟨0, 0, 0⟩) :
    V3.dot (Spring.impulse s st c).1.vel (-c.normal)
      = if (Spring.impulse s st c).2
        then (-1 * (1 + c.elasticity) * contactNormalVel st c - s.baumgarteErp / s.dt * c.dist)
              / contactInvMass st c
        else 0 := by
  have hnn : V3.dot (-c.normal) (-c.normal) = 1 := by
    simp only [V3.dot, V3.neg_def] at *; linear_combination hn
  have h1 : decide (-1 < c.link1) = true → _ := fun h => hl1 (of_decide_eq_true h)
  have h2 : decide (-1 < c.link2) = true → _ := fun h => hl2 (of_decide_eq_true h)
  unfold Spring.impulse contactNormalVel contactInvMass
  simp only []
  rw [impulse_final_dot _ _ _ _ _ _ _ (drag_tangential _ _ hn) hnn]
  simp only [dot_sub', dot_maskV_lever _ _ _ _ _ h1, dot_maskV_lever _ _ _ _ _ h2,
    ang_lever _ _ _ _ h1, ang_lever _ _ _ _ h2, v3_add_zero_lit]
  have hz : V3.dot (-c.normal) (⟨0, 0, 0⟩ : V3 K) = 0 := by simp [V3.dot]
  simp only [hz, add_zero]


/-- `collisions.resolve` for ONE contact between the world (`link_idx[0] = -1`) and link `k`:
the link's velocity changes by minus the impulse, divided by the `float32` contact counter
`apply_n + 1e-8` and by the link's mass -/
theorem collide_single_world (s : Sys K) (st : Spring.State K) (c : Contact K) (k : Nat)
    (hk : k < s.numLinks) (h1 : c.link1 = -1) (h2 : c.link2 = (k : Int)) :
    (nth (Spring.collide s st [c]) k).vel
      = vdiv (vdiv (-(Spring.impulse s st c).1.vel)
          (HasF32.f32 ((if (Spring.impulse s st c).2 then (1 : K) else 0) + 1e-8))) (nthS st.mass k) := by
  unfold Spring.collide
  simp only [List.isEmpty_cons, Bool.false_eq_true, if_false, List.map_cons, List.map_nil]
  rw [nth_tab _ hk]
  have hrow := spread_row s.numLinks (takeWrap st.x_i) [c] [(Spring.impulse s st c).1]
    [if (Spring.impulse s st c).2 then (1 : K) else 0] (-1) (k : Int)
    (by intro c' hc'; simp only [List.mem_singleton] at hc'; subst hc'; exact ⟨h1, h2⟩) rfl rfl hk
  simp only []
  rw [hrow]
  have hne : ¬ ((-1 : Int) = (k : Int)) := by omega
  simp only [hne, if_false, if_true, List.map_cons, List.map_nil, List.sum_cons, List.sum_nil,
    add_zero, zero_add, vdiv]

end collide

section integrate
variable {K : Type} [Field K] [LinearOrder K] [IsStrictOrderedRing K] [HasSqrt K] [HasExp K]


/-- `sqrt` behaves like a square root on non-negative arguments (true of `Real.sqrt`) -/
def SqrtOK (K : Type) [Mul K] [Zero K] [LE K] [HasSqrt K] : Prop :=
  ∀ x : K, 0 ≤ x → HasSqrt.sqrt x * HasSqrt.sqrt x = x

/-- quaternion-norm multiplicativity, specialised to the integrators' update
`rot + (0, a, b, c) ⊗ rot`: the squared norm is multiplied by `1 + a² + b² + c²` -/
theorem normSq_integrate (q : Q4 K) (a b c : K) :
    Q4.normSq (q + quatMul ⟨0, a, b, c⟩ q) = Q4.normSq q * (1 + (a * a + b * b + c * c)) := by
  show Q4.normSq (⟨_, _, _, _⟩ : Q4 K) = _
  simp only [Q4.normSq, quatMul]; ring

theorem one_add_sq_pos (a b c : K) : 0 < 1 + (a * a + b * b + c * c) := by
  nlinarith [mul_self_nonneg a, mul_self_nonneg b, mul_self_nonneg c]

theorem normSq_div (q : Q4 K) (n : K) (h : n * n = Q4.normSq q) (hpos : 0 < Q4.normSq q) :
    Q4.normSq (⟨q.w / n, q.x / n, q.y / n, q.z / n⟩ : Q4 K) = 1 := by
  have hn : n ≠ 0 := by
    rintro rfl; rw [zero_mul] at h; rw [← h] at hpos; exact lt_irrefl _ hpos
  simp only [Q4.normSq] at *
  field_simp
  linear_combination -h

/-- **`spring.integrator.integrate` returns unit quaternions** whenever the incoming rotation is
not the zero quaternion (in particular for a unit one): the un-normalised update has squared norm
`‖rot‖²·(1 + dt²‖ω‖²/4) > 0` and is divided by its norm. -/
theorem integrateLink_unit (s : Sys K) (x_i : Tf K) (xd_i xdv_i : Motion K) (hs : SqrtOK K)
    (h : 0 < Q4.normSq x_i.rot) :
    Q4.normSq (Spring.integrateLink s x_i xd_i xdv_i).1.rot = 1 := by
  unfold Spring.integrateLink
  simp only [angToQuat, zero_mul]
  apply normSq_div
  · rw [← Q4.normSq]; apply hs
    rw [normSq_integrate]
    exact le_of_lt (mul_pos h (one_add_sq_pos _ _ _))
  · rw [normSq_integrate]
    exact mul_pos h (one_add_sq_pos _ _ _)

end integrate

end Brax.C06L
