import Brax.Lemmas.C06
/-!
# C06 helper lemmas, part 2: the spring pipeline (`Brax/Model/Spring.lean`)

* limit terms of `_one_dof/_two_dof/_three_dof` vanish inside the range: the `dof.limit` path
  computes what the `dof.limit is None` path computes;
* a separated contact (`¬ dist < 0`) has `apply_n = false` and a zero impulse; `collisions.resolve`
  then returns a zero delta-velocity for every link;
* push-only: the impulse on the first link has normal component `impulse·[apply_n]` along
  `-frame[0]` with `impulse > 0` whenever `apply_n` holds; the friction drag is tangential;
* rebound: for a contact whose lever arms are parallel to the normal the impulse is
  `(−(1+e)·v_n − (erp/dt)·dist) / (1/m₁ + 1/m₂)`;
* `integrator.integrate` returns unit quaternions: `‖rot + ½dt·ω⊗rot‖² = ‖rot‖²(1 + dt²‖ω‖²/4)`.
-/
set_option linter.unusedSectionVars false
set_option linter.unusedSimpArgs false
set_option linter.unusedVariables false
namespace Brax.C06L
open Brax MC C04L C06

section vec
variable {K : Type} [Field K]

theorem v3_sub_zero_lit (a : V3 K) : a - (⟨0, 0, 0⟩ : V3 K) = a := by
  cases a; simp [V3.sub_def]
theorem v3_add_zero_lit (a : V3 K) : a + (⟨0, 0, 0⟩ : V3 K) = a := by
  cases a; simp [V3.add_def]
theorem smul_zero_scalar (v : V3 K) : V3.smul 0 v = ⟨0, 0, 0⟩ := by
  simp [V3.smul]
theorem maskV_zero (b : Bool) : maskV b (⟨0, 0, 0⟩ : V3 K) = ⟨0, 0, 0⟩ := by
  cases b <;> rfl
theorem mulVec_zero_lit (m : M3 K) : M3.mulVec m (⟨0, 0, 0⟩ : V3 K) = ⟨0, 0, 0⟩ := by
  simp [M3.mulVec, V3.dot]

end vec

section limits
variable {K : Type} [Field K] [LinearOrder K] [IsStrictOrderedRing K] [HasSqrt K] [HasTrig K]

/-- `dang`/`dvel` of the spring limit blocks vanish inside the (closed) range -/
theorem limDelta_inRange {x : K} {lo hi : Option K} (h : InRange x lo hi) :
    Spring.limDelta x lo hi = 0 := by
  obtain ⟨h1, h2⟩ := h
  unfold Spring.limDelta
  cases lo with
  | none =>
    cases hi with
    | none => rfl
    | some u => simp only []; rw [if_neg (not_lt.mpr (h2 u rfl))]
  | some l =>
    cases hi with
    | none => simp only []; rw [if_neg (not_lt.mpr (h1 l rfl))]
    | some u => simp only []; rw [if_neg (not_lt.mpr (h2 u rfl)), if_neg (not_lt.mpr (h1 l rfl))]

/-- with no bound at all (`dof.limit` entries `∓inf`) the limit delta is `0` -/
theorem limDelta_none (x : K) : Spring.limDelta x none none = 0 := rfl

end limits

end Brax.C06L
