import Brax.Lemmas.C02Cdof
/-!
# C02 helper lemmas: invariants of the two tree scans; the bias force vanishes at rest without
gravity; the RNE of the model equals the Spec's
-/
set_option linter.unusedSectionVars false
set_option linter.unusedSimpArgs false
namespace Brax.Gd
open Brax Kin

/-! ## scan invariants -/

theorem mem_zipWith {β γ δ : Type} (f : β → γ → δ) : ∀ (as : List β) (bs : List γ) (y : δ),
    y ∈ List.zipWith f as bs → ∃ a ∈ as, ∃ b ∈ bs, y = f a b
  | [], _, y, h => by simp at h
  | _ :: _, [], y, h => by simp at h
  | a :: as, b :: bs, y, h => by
    simp only [List.zipWith_cons_cons, List.mem_cons] at h
    rcases h with rfl | h
    · exact ⟨a, by simp, b, by simp, rfl⟩
    · obtain ⟨a', ha', b', hb', rfl⟩ := mem_zipWith f as bs y h
      exact ⟨a', by simp [ha'], b', by simp [hb'], rfl⟩

/-- an invariant of the forward tree scan: if one step establishes `P` from `P` of the parent,
every result satisfies `P` -/
theorem scanFwd_forall {β γ : Type} (P : β → Prop) (f : Option β → γ → β) (ps : List Int)
    (args : List γ)
    (h : ∀ par a, (∀ x, par = some x → P x) → a ∈ args → P (f par a)) :
    ∀ x ∈ scanFwd f ps args, P x := by
  rw [scanFwd_eq]
  suffices H : ∀ (l : List (Int × γ)) (acc : List β), (∀ x ∈ acc, P x) → (∀ pa ∈ l, pa.2 ∈ args) →
      ∀ x ∈ l.foldl (scanStep f) acc, P x from
    H _ [] (by simp) (fun pa hpa => (List.of_mem_zip hpa).2)
  intro l
  induction l with
  | nil => intro acc hacc _; exact hacc
  | cons pa rest ih =>
    intro acc hacc hl
    simp only [List.foldl]
    apply ih
    · unfold scanStep
      intro x hx
      rcases List.mem_append.mp hx with hx | hx
      · exact hacc x hx
      · simp only [List.mem_singleton] at hx
        subst hx
        apply h _ _ _ (hl pa (by simp))
        intro y hy
        split at hy
        · exact absurd hy (by simp)
        · exact hacc y (List.mem_of_getElem? hy)
    · intro qa hqa; exact hl qa (by simp [hqa])

/-- an invariant of the reverse accumulation -/
theorem revAcc_forall {β : Type} (P : β → Prop) (add : β → β → β)
    (hadd : ∀ x y, P x → P y → P (add x y)) (ps : List Int) (as : List β) (h : ∀ x ∈ as, P x) :
    ∀ x ∈ revAcc add ps as, P x := by
  unfold revAcc
  generalize ((List.range ps.length).zip ps).reverse = steps
  induction steps generalizing as with
  | nil => exact h
  | cons ip rest ih =>
    simp only [List.foldl]
    apply ih
    unfold revStep
    split
    · exact h
    · split
      · rename_i v hv
        have hvs : P v := h v (List.mem_of_getElem? hv)
        intro x hx
        rw [List.mem_iff_getElem?] at hx
        obtain ⟨k, hk⟩ := hx
        rw [List.getElem?_modify] at hk
        cases hkk : as[k]? with
        | none => rw [hkk] at hk; simp at hk
        | some y =>
          rw [hkk] at hk
          have hy : P y := h y (List.mem_of_getElem? hkk)
          simp only [Option.map_eq_map, Option.map_some, Option.some.injEq] at hk
          rw [← hk]
          split
          · exact hadd _ _ hy hvs
          · exact hy
      · exact h

/-! ## the bias force at rest without gravity -/
section zero
variable {R : Type} [CommRing R]

theorem sumM_zero (l : List (Motion R)) (h : ∀ m ∈ l, m = Motion.zero) : sumM l = Motion.zero := by
  induction l with
  | nil => rfl
  | cons a l ih =>
    simp only [sumM]
    rw [h a (by simp), ih (fun m hm => h m (by simp [hm])), madd_zero]

theorem mulr_zero (c : Motion R) : mulr c 0 = Motion.zero := by
  simp [mulr, Motion.zero, V3.zero]

theorem neg_zero_v3 : -(V3.zero : V3 R) = V3.zero := by
  simp [V3.neg_def, V3.zero]

theorem inertiaMul_zero (I : Inertia R) : Inertia.mul I Motion.zero = Force.zero := by
  simp only [Inertia.mul, Motion.zero, Force.zero, V3.zero, M3.mulVec, V3.dot, V3.cross, V3.smul,
    V3.add_def, V3.sub_def]
  congr 1 <;> congr 1 <;> ring

theorem crossF_zero (f : Force R) : Motion.crossF Motion.zero f = Force.zero := by
  simp only [Motion.crossF, Motion.zero, Force.zero, V3.zero, V3.cross, V3.add_def]
  congr 1 <;> congr 1 <;> ring

theorem fadd_zero : Force.zero + Force.zero = (Force.zero : Force R) := by
  simp only [Force.add_def, Force.zero, V3.zero, V3.add_def]
  congr 1 <;> congr 1 <;> ring

theorem dotF_zero (c : Motion R) : Motion.dotF c Force.zero = 0 := by
  simp only [Motion.dotF, Force.zero, V3.zero, V3.dot]; ring

/-- **`dynamics.inverse` returns 0 when all link velocities and joint velocities vanish and there
is no gravity** -/
theorem inverse_zero (ps : List Int) (st : ComState R) (qd : List (List R))
    (hcd : ∀ m ∈ st.cd, m = Motion.zero) (hqd : ∀ row ∈ qd, ∀ x ∈ row, x = 0) :
    ∀ row ∈ inverse ps V3.zero st qd, ∀ x ∈ row, x = 0 := by
  unfold inverse
  simp only
  -- joint-space accelerations vanish
  have hu : ∀ us ∈ List.zipWith (fun cs qs => List.zipWith mulr cs qs) st.cdofd qd,
      ∀ m ∈ us, m = Motion.zero := by
    intro us hus m hm
    obtain ⟨cs, _, qs, hqs, rfl⟩ := mem_zipWith _ _ _ _ hus
    obtain ⟨c, _, x, hx, rfl⟩ := mem_zipWith _ _ _ _ hm
    rw [hqd qs hqs x hx, mulr_zero]
  have hcdd := scanFwd_forall (fun m : Motion R => m = Motion.zero) (cddStep V3.zero) ps _
    (by
      intro par us hpar hus
      unfold cddStep
      rw [sumM_zero us (hu us hus), madd_zero]
      cases par with
      | none => simp only [Option.getD_none, neg_zero_v3]; rfl
      | some x => simpa using hpar x rfl)
  generalize scanFwd (cddStep V3.zero) ps
    (List.zipWith (fun cs qs => List.zipWith mulr cs qs) st.cdofd qd) = cdd at hcdd
  have hflat : ∀ f ∈ List.zipWith (fun (ic : Inertia R × Motion R) (cd : Motion R) => linkFrc ic.1 ic.2 cd)
      (st.cinr.zip cdd) st.cd, f = Force.zero := by
    intro f hf
    obtain ⟨ic, hic, cd, hcd', rfl⟩ := mem_zipWith _ _ _ _ hf
    have h1 : ic.2 = Motion.zero := hcdd ic.2 (List.of_mem_zip hic).2
    rw [hcd cd hcd']
    unfold linkFrc
    rw [h1, inertiaMul_zero, crossF_zero, fadd_zero]
  have hcfrc := revAcc_forall (fun f : Force R => f = Force.zero) Force.add
    (by intro x y hx hy; rw [hx, hy]; exact fadd_zero) ps _ hflat
  intro row hrow x hx
  obtain ⟨cs, _, f, hf, rfl⟩ := mem_zipWith _ _ _ _ hrow
  obtain ⟨c, _, rfl⟩ := List.mem_map.mp hx
  rw [hcfrc f hf, dotF_zero]

/-- the link velocities `cd` vanish when all joint velocities do -/
theorem cd_zero (ps : List Int) (cdofQd : List (List (Motion R)))
    (h : ∀ us ∈ cdofQd, ∀ m ∈ us, m = Motion.zero) :
    ∀ m ∈ scanFwd cdStep ps cdofQd, m = Motion.zero := by
  apply scanFwd_forall (fun m : Motion R => m = Motion.zero)
  intro par us hpar hus
  unfold cdStep
  rw [sumM_zero us (h us hus), madd_zero]
  cases par with
  | none => rfl
  | some x => simpa using hpar x rfl

end zero

/-! ## model RNE = spec RNE -/
section rneeq
variable {R : Type} [CommRing R]

theorem zipWith_eq_map_zip' {β γ δ : Type} (f : β → γ → δ) : ∀ (as : List β) (bs : List γ),
    List.zipWith f as bs = (as.zip bs).map fun p => f p.1 p.2
  | [], _ => by simp
  | _ :: _, [] => by simp
  | a :: as, b :: bs => by simp [zipWith_eq_map_zip' f as bs]

theorem scaleM_eq_mulr (c : Motion R) (x : R) : MjD.scaleM c x = mulr c x := by
  simp only [MjD.scaleM, mulr, V3.smul]
  congr 1 <;> congr 1 <;> ring

theorem foldl_add_scale (us : List (Motion R × R)) (init : Motion R) :
    us.foldl (fun acc cq => acc + MjD.scaleM cq.1 cq.2) init
      = init + sumM (us.map fun cq => mulr cq.1 cq.2) := by
  induction us generalizing init with
  | nil => simp only [List.foldl, List.map_nil, sumM, madd_zero]
  | cons a us ih =>
    simp only [List.foldl, List.map_cons, sumM]
    rw [ih, scaleM_eq_mulr, madd_assoc]

theorem forall₂_zip_map {γ δ : Type} (h : δ → γ) : ∀ (ps : List Int) (bs : List δ),
    List.Forall₂ (fun (x : Int × γ) (y : Int × δ) => x.1 = y.1 ∧ x.2 = h y.2)
      (ps.zip (bs.map h)) (ps.zip bs)
  | [], _ => by simp
  | _ :: _, [] => by simp
  | p :: ps, b :: bs => by
    simp only [List.map_cons, List.zip_cons_cons]
    exact List.Forall₂.cons ⟨rfl, rfl⟩ (forall₂_zip_map h ps bs)

theorem zipWith_mulr_eq (X : List (List (Motion R))) (Y : List (List R)) :
    List.zipWith (fun cs qs => List.zipWith mulr cs qs) X Y
      = (List.zipWith List.zip X Y).map fun us => us.map fun cq => mulr cq.1 cq.2 := by
  induction X generalizing Y with
  | nil => simp
  | cons x X ih =>
    cases Y with
    | nil => simp
    | cons y Y =>
      simp only [List.zipWith_cons_cons, List.map_cons]
      rw [ih Y, zipWith_eq_map_zip' mulr x y]

/-- a CoM-frame inertia of the model and MuJoCo's 10 numbers describe the same form -/
def SameInertia (I : Inertia R) (c : MjD.CInert R) : Prop :=
  c.i = I.i ∧ c.h = I.tf.pos ∧ c.mass = I.mass

theorem SameInertia.mul {I : Inertia R} {c : MjD.CInert R} (h : SameInertia I c) (v : Motion R) :
    Inertia.mul I v = MjD.CInert.mul c v := by
  obtain ⟨h1, h2, h3⟩ := h
  simp only [Inertia.mul, MjD.CInert.mul, h1, h2, h3]

theorem flat_eq (cinr : List (Inertia R)) (cinert : List (MjD.CInert R))
    (hI : List.Forall₂ SameInertia cinr cinert) : ∀ (cdd cd : List (Motion R)),
    List.zipWith (fun (ic : Inertia R × Motion R) (v : Motion R) => linkFrc ic.1 ic.2 v) (cinr.zip cdd) cd
      = List.zipWith (fun (ia : MjD.CInert R × Motion R) (v : Motion R) =>
          MjD.CInert.mul ia.1 ia.2 + Motion.crossF v (MjD.CInert.mul ia.1 v)) (cinert.zip cdd) cd := by
  induction hI with
  | nil => intro cdd cd; simp
  | @cons I c Is cs hIc _ ih =>
    intro cdd cd
    cases cdd with
    | nil => simp
    | cons a cdd =>
      cases cd with
      | nil => simp
      | cons v cd =>
        simp only [List.zip_cons_cons, List.zipWith_cons_cons]
        rw [ih cdd cd]
        congr 1
        simp only [linkFrc, hIc.mul]

/-- **the model's recursive Newton–Euler pass equals MuJoCo's `mj_rne`** on the same CoM-frame
inputs: the level-grouped forward/backward scans are the sequential recursions -/
theorem inverse_eq_rne (ps : List Int) (g : V3 R) (st : ComState R) (cinert : List (MjD.CInert R))
    (qd : List (List R)) (hI : List.Forall₂ SameInertia st.cinr cinert) :
    (inverse ps g st qd).flatten = MjD.rne ps g cinert st.cd st.cdof st.cdofd qd := by
  unfold inverse MjD.rne
  simp only
  have hscan : scanFwd (cddStep g) ps (List.zipWith (fun cs qs => List.zipWith mulr cs qs) st.cdofd qd)
      = scanFwd (fun (par : Option (Motion R)) (u : List (Motion R × R)) =>
          u.foldl (fun acc cq => acc + MjD.scaleM cq.1 cq.2) (par.getD ⟨V3.zero, -g⟩))
        ps (List.zipWith List.zip st.cdofd qd) := by
    rw [zipWith_mulr_eq]
    have := scanFwd_rel (fun (x y : Motion R) => x = y)
      (fun _ (a : List (Motion R)) (b : List (Motion R × R)) => a = b.map fun cq => mulr cq.1 cq.2)
      (cddStep g) (fun (par : Option (Motion R)) (u : List (Motion R × R)) =>
          u.foldl (fun acc cq => acc + MjD.scaleM cq.1 cq.2) (par.getD ⟨V3.zero, -g⟩))
      (by
        intro p par par' a b hpar hS _
        subst hS
        rw [foldl_add_scale]
        unfold cddStep
        cases hpar with
        | none => rfl
        | some h => rw [h])
      ps ((List.zipWith List.zip st.cdofd qd).map fun us => us.map fun cq => mulr cq.1 cq.2)
      (List.zipWith List.zip st.cdofd qd)
      (forall₂_zip_map (fun (us : List (Motion R × R)) => us.map fun cq => mulr cq.1 cq.2) ps _)
    rw [List.forall₂_eq_eq_eq] at this
    exact this
  rw [hscan, flat_eq st.cinr cinert hI]

end rneeq

/-! ## link velocities and `cdofd`: model = `mj_comVel` -/
section comvel
variable {R : Type} [CommRing R]

/-- the joint loop of `mj_comVel` for a hinge/slide body, from any accumulator -/
theorem comVel_foldl (cs : List (Motion R)) : ∀ (qd : List R) (acc : List (Motion R)) (v : Motion R),
    (cs.zip qd).foldl (fun (st : List (Motion R) × Motion R) cq =>
        (st.1 ++ [Motion.crossM st.2 cq.1], st.2 + MjD.scaleM cq.1 cq.2)) (acc, v)
      = (acc ++ cdofdStack v (cs.zip (List.zipWith mulr cs qd)), v + sumM (List.zipWith mulr cs qd)) := by
  induction cs with
  | nil =>
    intro qd acc v
    simp only [List.zip_nil_left, List.foldl, List.zipWith_nil_left, cdofdStack, sumM, madd_zero,
      List.append_nil]
  | cons c cs ih =>
    intro qd acc v
    cases qd with
    | nil =>
      simp only [List.zip_nil_right, List.foldl, List.zipWith_nil_right, cdofdStack, sumM, madd_zero,
        List.append_nil]
    | cons q qd =>
      simp only [List.zip_cons_cons, List.foldl, List.zipWith_cons_cons, cdofdStack, sumM]
      rw [ih qd, scaleM_eq_mulr, madd_assoc, List.append_assoc, List.singleton_append]

/-- **one hinge/slide body**: MuJoCo's `cdof_dot` rows and `cvel` are brax's `cdofd` rows and `cd` -/
theorem comVelBody_axis (typ : LinkType) (h : typ ≠ .free) (cvelP : Motion R) (cs : List (Motion R))
    (qd : List R) :
    MjD.comVelBody typ cvelP cs qd
      = (cdofdLink typ cvelP cs (List.zipWith mulr cs qd), cvelP + sumM (List.zipWith mulr cs qd)) := by
  unfold MjD.comVelBody cdofdLink
  cases typ with
  | free => exact absurd rfl h
  | one | two | three =>
    simp only
    rw [comVel_foldl cs qd [] cvelP, List.nil_append]

/-- **a free root body** (`cvel` of the world parent is 0): the three translational `cdof_dot`
are 0, the rotational ones use the velocity after the translations -/
theorem comVelBody_free (c0 c1 c2 c3 c4 c5 : Motion R) (v0 v1 v2 v3 v4 v5 : R) :
    MjD.comVelBody .free Motion.zero [c0, c1, c2, c3, c4, c5] [v0, v1, v2, v3, v4, v5]
      = (cdofdLink .free Motion.zero [c0, c1, c2, c3, c4, c5]
            (List.zipWith mulr [c0, c1, c2, c3, c4, c5] [v0, v1, v2, v3, v4, v5]),
         Motion.zero + sumM (List.zipWith mulr [c0, c1, c2, c3, c4, c5] [v0, v1, v2, v3, v4, v5])) := by
  have hcd : Motion.zero + MjD.scaleM c0 v0 + MjD.scaleM c1 v1 + MjD.scaleM c2 v2
      = mulr c0 v0 + (mulr c1 v1 + (mulr c2 v2 + Motion.zero)) := by
    simp only [scaleM_eq_mulr, zero_madd, madd_zero, madd_assoc]
  simp only [MjD.comVelBody, cdofdLink, List.zipWith_cons_cons, List.zipWith_nil_right, List.take,
    sumM, List.length_cons, List.length_nil, List.range, List.range.loop, List.zip_cons_cons,
    List.zip_nil_right, List.map_cons, List.map_nil, hcd]
  refine Prod.ext ?_ ?_
  · simp
  · simp only [scaleM_eq_mulr, zero_madd, madd_zero, madd_assoc]

theorem length6 {γ : Type} (l : List γ) (h : l.length = 6) : ∃ a b c d e f, l = [a, b, c, d, e, f] := by
  match l, h with
  | [a, b, c, d, e, f], _ => exact ⟨a, b, c, d, e, f, rfl⟩

/-- what the link-velocity scan needs of a link: a free link is a root with six dof rows -/
def CdOK (p : Int) (l : LinkIn R) (cs : List (Motion R)) : Prop :=
  l.typ = .free → p < 0 ∧ cs.length = 6 ∧ l.qd.length = 6

theorem forall₂_cd : ∀ (ps : List Int) (ins : List (LinkIn R)) (cdof : List (List (Motion R))),
    (∀ x ∈ ps.zip (ins.zip cdof), CdOK x.1 x.2.1 x.2.2) →
    List.Forall₂ (fun (x : Int × List (Motion R)) (y : Int × (LinkIn R × List (Motion R))) =>
        x.1 = y.1 ∧ (x.2 = List.zipWith mulr y.2.2 y.2.1.qd ∧ CdOK x.1 y.2.1 y.2.2))
      (ps.zip (List.zipWith (fun cs (l : LinkIn R) => List.zipWith mulr cs l.qd) cdof ins))
      (ps.zip (ins.zip cdof))
  | [], _, _, _ => by simp
  | _ :: _, [], _, _ => by simp
  | _ :: _, _ :: _, [], _ => by simp
  | p :: ps, l :: ins, cs :: cdof, h => by
    simp only [List.zipWith_cons_cons, List.zip_cons_cons]
    refine List.Forall₂.cons ⟨rfl, rfl, h (p, l, cs) (by simp)⟩ (forall₂_cd ps ins cdof ?_)
    intro x hx; exact h x (by simp [hx])

/-- the step function of the Spec's `mj_comVel` scan -/
def comVelStep (par : Option (List (Motion R) × Motion R)) (a : LinkIn R × List (Motion R)) :
    List (Motion R) × Motion R :=
  MjD.comVelBody a.1.typ ((par.map Prod.snd).getD Motion.zero) a.2 a.1.qd

theorem forall₂_snd {γ δ : Type} {l : List γ} {l' : List (δ × γ)}
    (h : List.Forall₂ (fun x (y : δ × γ) => x = y.2) l l') : l = l'.map Prod.snd := by
  induction h with
  | nil => rfl
  | cons hxy _ ih => simp only [List.map_cons]; rw [hxy, ih]

/-- **`cd` (forward level scan) equals MuJoCo's `cvel` recursion**, given the same `cdof` -/
theorem cd_eq_spec (ps : List Int) (ins : List (LinkIn R)) (cdof : List (List (Motion R)))
    (hok : ∀ x ∈ ps.zip (ins.zip cdof), CdOK x.1 x.2.1 x.2.2) :
    scanFwd cdStep ps (List.zipWith (fun cs (l : LinkIn R) => List.zipWith mulr cs l.qd) cdof ins)
      = (scanFwd comVelStep ps (ins.zip cdof)).map Prod.snd := by
  apply forall₂_snd
  apply scanFwd_rel (fun (x : Motion R) (y : List (Motion R) × Motion R) => x = y.2)
    (fun p (a : List (Motion R)) (b : LinkIn R × List (Motion R)) =>
      a = List.zipWith mulr b.2 b.1.qd ∧ CdOK p b.1 b.2) cdStep comVelStep ?_ ps _ _ (forall₂_cd ps ins cdof hok)
  intro p par par' a b hpar hS hroot
  obtain ⟨ha, hfree⟩ := hS
  subst ha
  have hpv : par.getD Motion.zero = (par'.map Prod.snd).getD Motion.zero := by
    cases hpar with
    | none => rfl
    | some h => simp only [Option.getD_some, Option.map_some, h]
  unfold cdStep comVelStep
  by_cases hf : b.1.typ = .free
  · obtain ⟨hp, h6, h6'⟩ := hfree hf
    have hnone := hroot hp
    subst hnone
    cases hpar
    obtain ⟨c0, c1, c2, c3, c4, c5, hc⟩ := length6 b.2 h6
    obtain ⟨v0, v1, v2, v3, v4, v5, hv⟩ := length6 b.1.qd h6'
    rw [hf, hc, hv]
    simp only [Option.map_none, Option.getD_none]
    rw [comVelBody_free]
  · rw [comVelBody_axis _ hf, hpv]

end comvel

theorem linkSlices_qd_mem {α : Type} : ∀ (ts : List LinkType) (q qd : List α) (ds : List (DofP α)),
    ∀ l ∈ linkSlices ts q qd ds, ∀ x ∈ l.qd, x ∈ qd
  | [], _, _, _, l, h, _, _ => by simp [linkSlices] at h
  | t :: ts, q, qd, ds, l, h, x, hx => by
    simp only [linkSlices, List.mem_cons] at h
    rcases h with rfl | h
    · exact List.mem_of_mem_take hx
    · exact List.mem_of_mem_drop (linkSlices_qd_mem ts _ _ _ l h x hx)

end Brax.Gd
