import Brax.Scalar
import Mathlib.Analysis.SpecialFunctions.Trigonometric.Inverse
import Mathlib.Analysis.SpecialFunctions.Complex.Arg
import Mathlib.Analysis.SpecialFunctions.Sqrt
import Mathlib.Analysis.SpecialFunctions.Log.Basic
import Mathlib.Analysis.SpecialFunctions.Trigonometric.DerivHyp
/-!
# The scalar classes at ℝ, and order-only comparisons in a linear order
-/
set_option linter.unusedSectionVars false
set_option linter.unusedSimpArgs false
namespace Brax

noncomputable instance : HasSqrt ℝ := ⟨Real.sqrt⟩
/-- `atan2 y x = arg (x + y i)` -/
noncomputable instance : HasTrig ℝ :=
  ⟨Real.sin, Real.cos, fun y x => Complex.arg ⟨x, y⟩, Real.arcsin, Real.arccos⟩
noncomputable instance : HasExp ℝ := ⟨Real.exp, Real.log, Real.tanh⟩

section order
variable {K : Type} [Field K] [LinearOrder K] [IsStrictOrderedRing K]

@[simp] theorem eqZero_iff (x : K) : eqZero x = true ↔ x = 0 := by
  simp only [eqZero, Bool.and_eq_true, Bool.not_eq_true', decide_eq_false_iff_not, not_lt]
  constructor
  · rintro ⟨h1, h2⟩; exact le_antisymm h2 h1
  · rintro rfl; exact ⟨le_refl _, le_refl _⟩

@[simp] theorem eqR_iff (a b : K) : eqR a b = true ↔ a = b := by
  simp only [eqR, Bool.and_eq_true, Bool.not_eq_true', decide_eq_false_iff_not, not_lt]
  constructor
  · rintro ⟨h1, h2⟩; exact le_antisymm h2 h1
  · rintro rfl; exact ⟨le_refl _, le_refl _⟩

@[simp] theorem absv_eq_abs (x : K) : absv x = |x| := by
  unfold absv
  split
  · rw [abs_of_neg]; assumption
  · rw [abs_of_nonneg]; exact not_lt.mp ‹_›

theorem clip_eq (x lo hi : K) : clip x lo hi = min (max x lo) hi := by
  unfold clip
  simp only
  split <;> split <;> simp_all [max_def, min_def, not_lt] <;> (try split) <;> (try order)

theorem maxv_eq (x y : K) : maxv x y = max x y := by
  unfold maxv; split <;> simp_all [max_def, not_lt, le_of_lt]

theorem minv_eq (x y : K) : minv x y = min x y := by
  unfold minv; split <;> simp_all [min_def, not_lt, le_of_lt] 

end order
end Brax
