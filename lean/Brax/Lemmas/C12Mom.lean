import Brax.Lemmas.C05Gen
/-!
# C12, momentum clause: the root translational rows of `M·y + bias` are the rate of change of the
linear momentum of the root's tree (minus the gravity force)

Everything is about the existing model of the generalized pipeline (`Brax/Model/C02.lean`, namespace
`Brax.Gd`); no new model of the code is introduced.  Definitions below (`treeMom`, `treeFrc`, `pointAcc`,
`lin3`) are *specification-side* sums over the model's own `cinr`, `cdof`, `cd`, `cdofd`.

* §0–§2 (forest level, any `ComState`): for a root link `ρ` whose first three `cdof` rows are the world
  axes, rows `(ρ, 0..2)` of `mass.matrix · y` are the linear part of `Σ_{b ∈ tree ρ} cinr_b · v_b(y)`
  (`v_b(y)` = ancestor sum of `cdof·y`): the linear momentum of the tree moving with joint velocity `y`
  (`massRows_root`); rows `(ρ, 0..2)` of `dynamics.inverse` are the linear part of
  `Σ_{b ∈ tree ρ} (cinr_b·cdd_b + cd_b ×* cinr_b·cd_b)` (`biasRows_root`).  Internal joint forces never
  appear: `root_rows_balance`.
* §3: per link, the linear part is `mass · (classical acceleration of the link's centre of mass − g)`.
* §4–§5: the pipeline (`dynInit`, `Gd.step`).
-/
set_option linter.unusedSectionVars false
set_option linter.unusedSimpArgs false
set_option linter.unusedVariables false
namespace Brax.C12M
open Brax Kin Gd C05G

/-! ## 0. sums of forces -/

theorem fadd_assoc (a b c : Force ℝ) : a + b + c = a + (b + c) := by
  simp only [Force.add_def, V3.add_assoc']
theorem fadd_comm (a b : Force ℝ) : a + b = b + a := by
  simp only [Force.add_def]; rw [V3.add_comm' a.ang, V3.add_comm' a.vel]
theorem fadd_zero (a : Force ℝ) : a + Force.zero = a := by
  cases a; simp only [Force.add_def, Force.zero, V3.add_zero']
theorem zero_fadd (a : Force ℝ) : Force.zero + a = a := by
  cases a; simp only [Force.add_def, Force.zero, V3.zero_add']

theorem frsum_zero (n : Nat) : frsum n (fun _ => Force.zero) = Force.zero := by
  induction n with
  | zero => rfl
  | succ n ih => simp only [frsum, ih, fadd_zero]

theorem frsum_add (n : Nat) (f g : Nat → Force ℝ) :
    frsum n (fun k => f k + g k) = frsum n f + frsum n g := by
  induction n with
  | zero => simp only [frsum, fadd_zero]
  | succ n ih =>
    simp only [frsum, ih]
    rw [fadd_assoc, fadd_assoc, ← fadd_assoc (frsum n g), ← fadd_assoc (f n), fadd_comm (frsum n g) (f n)]

theorem frsum_single (n p : Nat) (hp : p < n) (F : Force ℝ) :
    frsum n (fun k => if k = p then F else Force.zero) = F := by
  induction n with
  | zero => omega
  | succ n ih =>
    simp only [frsum]
    by_cases h : p = n
    · subst h
      rw [if_pos rfl]
      have : ∀ k, k < p → (if k = p then F else Force.zero) = Force.zero := fun k hk => by
        rw [if_neg (by omega)]
      rw [frsum_congr this, frsum_zero, zero_fadd]
    · rw [if_neg (fun e => h e.symm), fadd_zero]; exact ih (by omega)

theorem inertiaMul_madd (I : Inertia ℝ) (a b : Motion ℝ) :
    Inertia.mul I (a + b) = Inertia.mul I a + Inertia.mul I b := by
  simp only [Inertia.mul, M3.mulVec, V3.dot, V3.cross, V3.smul, V3.add_def, V3.sub_def, Force.add_def,
    Motion.add_def]
  congr 1 <;> congr 1 <;> ring

/-! ## 1. the composite-rigid-body scan is linear: `Σ_k I_k v_k = Σ_l C_l U_l` -/

/-- **Composite-rigid-body identity, linear form.**  With `C = revAcc (+) I` the composite inertias and
`vel l = vel (parent l) + U l`: `Σ_k I_k · vel_k = Σ_l C_l · U_l` — for every forest. -/
theorem crb_lin (n : Nat) : ∀ (ps : List Int) (I : List (Inertia ℝ)), ps.length = n → I.length = n →
    PWF ps → ∀ (U vel : Nat → Motion ℝ), (∀ l, l < n → vel l = vpar ps vel l + U l) →
    frsum n (fun k => Inertia.mul (I.getD k dI) (vel k))
      = frsum n (fun l => Inertia.mul ((revAcc inertiaAdd ps I).getD l dI) (U l)) := by
  induction n with
  | zero => intros; rfl
  | succ n ih =>
    intro ps I hps hI hwf U vel hvel
    obtain ⟨ps', p, rfl, hps'⟩ := exists_snoc ps hps
    obtain ⟨I', J, rfl, hI'⟩ := exists_snoc I hI
    have hwf' := hwf.prefix
    have hp : p < (n : Int) := by have := hwf.last; rwa [hps'] at this
    set I'' : List (Inertia ℝ) := if p < 0 then I' else I'.modify p.toNat (fun x => inertiaAdd x J) with hI''def
    have hI''len : I''.length = n := by rw [hI''def]; split <;> simp [hI']
    have hrev : revAcc inertiaAdd (ps' ++ [p]) (I' ++ [J]) = revAcc inertiaAdd ps' I'' ++ [J] :=
      revAcc_snoc inertiaAdd ps' I' p J (by rw [hps', hI']) hwf' (by rw [hI']; exact hp)
    have hClen : (revAcc inertiaAdd ps' I'').length = n := by rw [revAcc_length, hI''len]
    have hvel' : ∀ l, l < n → vel l = vpar ps' vel l + U l := by
      intro l hl
      rw [hvel l (Nat.lt_succ_of_lt hl)]
      simp only [vpar, getD_append_left' ps' [p] (-1) l (by omega)]
    have hIH := ih ps' I'' hps' hI''len hwf' U vel hvel'
    simp only [frsum]
    rw [hrev]
    have e1 : frsum n (fun k => Inertia.mul ((I' ++ [J]).getD k dI) (vel k))
        = frsum n (fun k => Inertia.mul (I'.getD k dI) (vel k)) :=
      frsum_congr (fun k hk => by rw [getD_append_left' I' [J] dI k (by omega)])
    have e2 : frsum n (fun l => Inertia.mul ((revAcc inertiaAdd ps' I'' ++ [J]).getD l dI) (U l))
        = frsum n (fun l => Inertia.mul ((revAcc inertiaAdd ps' I'').getD l dI) (U l)) :=
      frsum_congr (fun l hl => by rw [getD_append_left' _ [J] dI l (by omega)])
    rw [e1, e2, ← hIH]
    have e3 : (I' ++ [J]).getD n dI = J := by rw [← hI']; exact getD_snoc_last I' J dI
    have e4 : (revAcc inertiaAdd ps' I'' ++ [J]).getD n dI = J := by
      rw [← hClen]; exact getD_snoc_last _ J dI
    have e5 : vpar (ps' ++ [p]) vel n = if p < 0 then Motion.zero else vel p.toNat := by
      simp only [vpar]; rw [← hps', getD_snoc_last ps' p (-1)]
    rw [e3, e4, hvel n (Nat.lt_succ_self n), e5]
    by_cases hneg : p < 0
    · have hI''eq : I'' = I' := by rw [hI''def]; simp [hneg]
      rw [hI''eq]
      simp only [hneg, if_true, zero_madd]
    · have hpn : p.toNat < I'.length := by omega
      have e6 : frsum n (fun k => Inertia.mul (I''.getD k dI) (vel k))
          = frsum n (fun k => Inertia.mul (I'.getD k dI) (vel k)) + Inertia.mul J (vel p.toNat) := by
        have : ∀ k, k < n → Inertia.mul (I''.getD k dI) (vel k)
            = Inertia.mul (I'.getD k dI) (vel k)
              + (if k = p.toNat then Inertia.mul J (vel p.toNat) else Force.zero) := by
          intro k _
          rw [hI''def]
          simp only [hneg, if_false]
          rw [getD_modify I' _ dI p.toNat k hpn]
          by_cases hk : k = p.toNat
          · rw [if_pos hk, if_pos hk, inertiaMul_add, hk]
          · rw [if_neg hk, if_neg hk, fadd_zero]
        rw [frsum_congr this, frsum_add, frsum_single n p.toNat (by omega)]
      rw [e6]
      simp only [hneg, if_false]
      rw [inertiaMul_madd, fadd_assoc]

/-! ## 2. the tree of a root -/

/-- link `k` lies in the subtree of link `ρ` (`ρ` is an ancestor-or-self of `k`) -/
def inTree (ps : List Int) (ρ k : Nat) : Bool := (ancs ps k).contains ρ

theorem inTree_unfold {ps : List Int} (hwf : PWF ps) (ρ k : Nat) :
    inTree ps ρ k = (ρ == k || (if ps.getD k (-1) < 0 then false else inTree ps ρ (ps.getD k (-1)).toNat)) := by
  unfold inTree
  rw [ancs_unfold hwf k, List.contains_cons]
  by_cases hneg : ps.getD k (-1) < 0
  · simp only [hneg, if_true, List.contains_nil]
  · simp only [hneg, if_false]

theorem inTree_self (ps : List Int) (ρ : Nat) : inTree ps ρ ρ = true := by
  unfold inTree; rw [List.contains_iff_mem]; exact self_mem_ancs ps ρ

theorem inTree_lt {ps : List Int} (hwf : PWF ps) (ρ k : Nat) (h : k < ρ) : inTree ps ρ k = false := by
  unfold inTree
  rw [Bool.eq_false_iff]; intro hc
  rw [List.contains_iff_mem] at hc
  have := ancs_le hwf k ρ hc
  omega

theorem ancsFuel_snoc (ps : List Int) (p : Int) (hwf : PWF ps) : ∀ (f i : Nat), i < ps.length →
    ancsFuel (ps ++ [p]) f i = ancsFuel ps f i
  | 0, _, _ => rfl
  | f + 1, i, hi => by
    simp only [ancsFuel]
    rw [getD_append_left' ps [p] (-1) i hi]
    by_cases hneg : ps.getD i (-1) < 0
    · simp only [hneg, if_true]
    · have := hwf i
      simp only [hneg, if_false]
      rw [ancsFuel_snoc ps p hwf f _ (by omega)]

theorem inTree_snoc_lt (ps : List Int) (p : Int) (hwf : PWF ps) (ρ k : Nat) (hk : k < ps.length) :
    inTree (ps ++ [p]) ρ k = inTree ps ρ k := by
  unfold inTree ancs
  rw [ancsFuel_snoc ps p hwf (k + 1) k hk]

theorem inTree_snoc_last (ps : List Int) (p : Int) (hwf : PWF (ps ++ [p])) (ρ : Nat) :
    inTree (ps ++ [p]) ρ ps.length = (ρ == ps.length || (if p < 0 then false else inTree ps ρ p.toNat)) := by
  rw [inTree_unfold hwf, getD_snoc_last ps p (-1)]
  by_cases hneg : p < 0
  · simp only [hneg, if_true]
  · simp only [hneg, if_false]
    have := hwf.last
    rw [inTree_snoc_lt ps p hwf.prefix ρ p.toNat (by omega)]

/-- **the backward accumulation of forces is the sum over the subtree**:
`(revAcc (+) A)_l = Σ_{k ∈ subtree l} A_k` — for every forest and every link -/
theorem revAcc_force (n : Nat) : ∀ (ps : List Int) (A : List (Force ℝ)), ps.length = n → A.length = n →
    PWF ps → ∀ l, l < n → (revAcc Force.add ps A).getD l Force.zero
      = frsum n (fun k => if inTree ps l k then A.getD k Force.zero else Force.zero) := by
  induction n with
  | zero => intro ps A _ _ _ l hl; omega
  | succ n ih =>
    intro ps A hps hA hwf l hl
    obtain ⟨ps', p, rfl, hps'⟩ := exists_snoc ps hps
    obtain ⟨A', a, rfl, hA'⟩ := exists_snoc A hA
    have hwf' := hwf.prefix
    have hp : p < (n : Int) := by have := hwf.last; rwa [hps'] at this
    set A'' : List (Force ℝ) := if p < 0 then A' else A'.modify p.toNat (fun x => Force.add x a) with hA''def
    have hA''len : A''.length = n := by rw [hA''def]; split <;> simp [hA']
    have hrev : revAcc Force.add (ps' ++ [p]) (A' ++ [a]) = revAcc Force.add ps' A'' ++ [a] :=
      revAcc_snoc Force.add ps' A' p a (by rw [hps', hA']) hwf' (by rw [hA']; exact hp)
    have hrlen : (revAcc Force.add ps' A'').length = n := by rw [revAcc_length, hA''len]
    have hlast : inTree (ps' ++ [p]) l n = (l == n || (if p < 0 then false else inTree ps' l p.toNat)) := by
      rw [← hps']; exact inTree_snoc_last ps' p hwf l
    have e1 : frsum n (fun k => if inTree (ps' ++ [p]) l k then (A' ++ [a]).getD k Force.zero else Force.zero)
        = frsum n (fun k => if inTree ps' l k then A'.getD k Force.zero else Force.zero) :=
      frsum_congr (fun k hk => by
        rw [inTree_snoc_lt ps' p hwf' l k (by omega), getD_append_left' A' [a] _ k (by omega)])
    have e3 : (A' ++ [a]).getD n Force.zero = a := by rw [← hA']; exact getD_snoc_last A' a _
    have e4 : (revAcc Force.add ps' A'' ++ [a]).getD n Force.zero = a := by
      rw [← hrlen]; exact getD_snoc_last _ a _
    rw [hrev]
    simp only [frsum]
    rw [e1, e3, hlast]
    by_cases hln : l = n
    · rw [hln, e4]
      have hz : ∀ k, k < n → (if inTree ps' n k then A'.getD k Force.zero else Force.zero) = Force.zero := by
        intro k hk; rw [inTree_lt hwf' n k hk]; rfl
      rw [frsum_congr hz, frsum_zero, zero_fadd]
      simp
    · have hl' : l < n := by omega
      rw [getD_append_left' _ [a] Force.zero l (by omega)]
      rw [ih ps' A'' hps' hA''len hwf' l hl']
      have hb : (l == n) = false := by rw [beq_eq_false_iff_ne]; exact hln
      rw [hb, Bool.false_or]
      by_cases hneg : p < 0
      · have : A'' = A' := by rw [hA''def, if_pos hneg]
        rw [this, if_pos hneg]
        simp only [Bool.false_eq_true, if_false, fadd_zero]
      · have hA''eq : A'' = A'.modify p.toNat (fun x => Force.add x a) := by rw [hA''def, if_neg hneg]
        rw [hA''eq, if_neg hneg]
        have hpn : p.toNat < A'.length := by omega
        have : ∀ k, k < n →
            (if inTree ps' l k then (A'.modify p.toNat (fun x => Force.add x a)).getD k Force.zero
              else Force.zero)
            = (if inTree ps' l k then A'.getD k Force.zero else Force.zero)
              + (if k = p.toNat then (if inTree ps' l p.toNat then a else Force.zero) else Force.zero) := by
          intro k _
          rw [getD_modify A' _ Force.zero p.toNat k hpn]
          by_cases hk : k = p.toNat
          · rw [if_pos hk, if_pos hk, hk]
            cases inTree ps' l p.toNat
            · simp only [Bool.false_eq_true, if_false, fadd_zero]
            · simp only [if_true]; rfl
          · rw [if_neg hk, if_neg hk, fadd_zero]
        rw [frsum_congr this, frsum_add, frsum_single n p.toNat (by omega)]

/-! ### the root rows of `mass.matrix · y` -/

/-- spatial momentum (about the tree's centre of mass) of the subtree of `ρ` moving with joint
velocities `Y`: `Σ_{b ∈ subtree ρ} cinr_b · v_b(Y)`, `v_b(Y) = Σ_{a ancestor-or-self of b} cdof_a · Y_a` -/
noncomputable def treeMom (ps : List Int) (cinr : List (Inertia ℝ)) (cdof : List (List (Motion ℝ)))
    (Y : Nat → Nat → ℝ) (n ρ : Nat) : Force ℝ :=
  frsum n fun b => if inTree ps ρ b then Inertia.mul (cinr.getD b dI) (velAnc ps cdof Y b) else Force.zero

theorem ancs_root {ps : List Int} (hwf : PWF ps) (ρ : Nat) (hroot : ps.getD ρ (-1) < 0) :
    ancs ps ρ = [ρ] := by
  rw [ancs_unfold hwf ρ, if_pos hroot]

theorem Fla_root {ps : List Int} (hwf : PWF ps) (ρ : Nat) (hroot : ps.getD ρ (-1) < 0)
    (C : List (Inertia ℝ)) (cdof : List (List (Motion ℝ))) (Y : Nat → Nat → ℝ) (a : Nat) :
    Fla ps C cdof Y ρ a
      = Inertia.mul (C.getD a dI) (if inTree ps ρ a then Ulink cdof Y a else Motion.zero) := by
  unfold Fla relB
  rcases Nat.lt_trichotomy a ρ with h | h | h
  · have h1 : a ≤ ρ := Nat.le_of_lt h
    have h2 : ([ρ] : List Nat).contains a = false := by
      rw [Bool.eq_false_iff]; intro hc; rw [List.contains_iff_mem] at hc; simp at hc; omega
    rw [if_pos h1, ancs_root hwf ρ hroot, h2, inTree_lt hwf ρ a h]
    simp only [Bool.false_eq_true, if_false, inertiaMul_zero]
  · subst h
    have h2 : ([a] : List Nat).contains a = true := by rw [List.contains_iff_mem]; simp
    rw [if_pos (Nat.le_refl a), ancs_root hwf a hroot, h2, inTree_self, Nat.max_self]
    simp only [if_true]
  · have h1 : ¬ a ≤ ρ := Nat.not_le.mpr h
    have hmax : max ρ a = a := Nat.max_eq_right (Nat.le_of_lt h)
    rw [if_neg h1, hmax]
    show (if inTree ps ρ a = true then _ else _) = _
    cases inTree ps ρ a
    · simp only [Bool.false_eq_true, if_false, inertiaMul_zero]
    · simp only [if_true]

/-- **the force `Φ_ρ` of `matVec_massMatrix` at a root is the momentum of the root's tree** -/
theorem Phi_root (ps : List Int) (cinr : List (Inertia ℝ)) (cdof : List (List (Motion ℝ)))
    (Y : Nat → Nat → ℝ) (n ρ : Nat) (hps : ps.length = n) (hI : cinr.length = n) (hwf : PWF ps)
    (hroot : ps.getD ρ (-1) < 0) :
    Phi ps (crb ps cinr) cdof Y n ρ = treeMom ps cinr cdof Y n ρ := by
  unfold Phi treeMom
  rw [frsum_congr (fun a _ => Fla_root hwf ρ hroot (crb ps cinr) cdof Y a)]
  have hrec : ∀ l, l < n →
      (fun k => if inTree ps ρ k then velAnc ps cdof Y k else Motion.zero) l
        = vpar ps (fun k => if inTree ps ρ k then velAnc ps cdof Y k else Motion.zero) l
          + (fun k => if inTree ps ρ k then Ulink cdof Y k else Motion.zero) l := by
    intro l _
    simp only [vpar]
    rw [inTree_unfold hwf ρ l, velAnc_rec hwf cdof Y l]
    simp only [vpar]
    by_cases hneg : ps.getD l (-1) < 0
    · simp only [hneg, if_true, Bool.or_false]
      cases (ρ == l)
      · simp only [Bool.false_eq_true, if_false, madd_zero]
      · simp only [if_true]
    · simp only [hneg, if_false]
      have hne : (ρ == l) = false := by
        rw [beq_eq_false_iff_ne]; intro e; subst e; exact hneg hroot
      rw [hne, Bool.false_or]
      cases inTree ps ρ (ps.getD l (-1)).toNat
      · simp only [Bool.false_eq_true, if_false, madd_zero]
      · simp only [if_true]
  have h := crb_lin n ps cinr hps hI hwf _ _ hrec
  unfold crb
  rw [← h]
  apply frsum_congr
  intro k _
  cases inTree ps ρ k
  · simp only [Bool.false_eq_true, if_false, inertiaMul_zero]
  · simp only [if_true]

/-- first three entries of a per-dof row block as a vector -/
def lin3 (xs : List ℝ) : V3 ℝ := ⟨xs.getD 0 0, xs.getD 1 0, xs.getD 2 0⟩

/-- `ρ` is a root whose first three `cdof` rows are the world axes (a free joint: `cdofLink`, `rowF_true_lin`) -/
structure RootOK (ps : List Int) (cdof : List (List (Motion ℝ))) (ρ : Nat) : Prop where
  root : ps.getD ρ (-1) < 0
  lt : ρ < cdof.length
  rows : ∃ a0 a1 a2, cdof.getD ρ [] = [Ex, Ey, Ez, a0, a1, a2]

theorem dotF_Ex (f : Force ℝ) : Motion.dotF Ex f = f.vel.x := by
  simp only [Motion.dotF, V3.dot, Ex, V3.zero]; ring
theorem dotF_Ey (f : Force ℝ) : Motion.dotF Ey f = f.vel.y := by
  simp only [Motion.dotF, V3.dot, Ey, V3.zero]; ring
theorem dotF_Ez (f : Force ℝ) : Motion.dotF Ez f = f.vel.z := by
  simp only [Motion.dotF, V3.dot, Ez, V3.zero]; ring

/-- the rows of `mass.matrix · N.flatten`, nested (the right-hand side of `matVec_massMatrix`) -/
noncomputable def mvRows (ps : List Int) (cinr : List (Inertia ℝ)) (cdof : List (List (Motion ℝ)))
    (arm N : List (List ℝ)) : List (List ℝ) :=
  (List.range cdof.length).map fun l => (List.range (wAt cdof l)).map fun r =>
    Motion.dotF (cAt cdof l r)
        (Phi ps (crb ps cinr) cdof (fun a s => (N.getD a []).getD s 0) cdof.length l)
      + armAt arm l r * (N.getD l []).getD r 0

theorem matVec_eq_mvRows (ps : List Int) (cinr : List (Inertia ℝ)) (cdof : List (List (Motion ℝ)))
    (arm : List (List ℝ)) (N : List (List ℝ)) (hsym : ∀ x ∈ cinr, SymmI x)
    (hN : N.length = cdof.length) (hw : ∀ l, l < N.length → (N.getD l []).length = wAt cdof l) :
    matVec (massMatrix ps cinr cdof arm) N.flatten = (mvRows ps cinr cdof arm N).flatten :=
  matVec_massMatrix ps cinr cdof arm N hsym hN hw

theorem getD_range_map {β : Type} (n : Nat) (f : Nat → β) (d : β) (i : Nat) (h : i < n) :
    ((List.range n).map f).getD i d = f i := by
  rw [List.getD_eq_getElem?_getD, List.getElem?_map, List.getElem?_range h]; rfl

/-- **the three translational rows of a free root of `mass.matrix · y` are the linear momentum of the
root's tree moving with joint velocities `y`** (plus `armature · y`): internal structure of the tree
enters only through `Σ_b cinr_b · v_b(y)` -/
theorem massRows_root (ps : List Int) (cinr : List (Inertia ℝ)) (cdof : List (List (Motion ℝ)))
    (arm N : List (List ℝ)) (ρ : Nat) (hps : ps.length = cdof.length) (hI : cinr.length = cdof.length)
    (hwf : PWF ps) (hρ : RootOK ps cdof ρ) :
    lin3 ((mvRows ps cinr cdof arm N).getD ρ [])
      = (treeMom ps cinr cdof (fun a s => (N.getD a []).getD s 0) cdof.length ρ).vel
        + ⟨armAt arm ρ 0 * (N.getD ρ []).getD 0 0, armAt arm ρ 1 * (N.getD ρ []).getD 1 0,
           armAt arm ρ 2 * (N.getD ρ []).getD 2 0⟩ := by
  obtain ⟨a0, a1, a2, hrows⟩ := hρ.rows
  have hw : wAt cdof ρ = 6 := by unfold wAt; rw [hrows]; rfl
  have c0 : cAt cdof ρ 0 = Ex := by unfold cAt; rw [hrows]; rfl
  have c1 : cAt cdof ρ 1 = Ey := by unfold cAt; rw [hrows]; rfl
  have c2 : cAt cdof ρ 2 = Ez := by unfold cAt; rw [hrows]; rfl
  unfold mvRows
  rw [getD_range_map _ _ _ ρ hρ.lt, hw]
  rw [Phi_root ps cinr cdof _ cdof.length ρ hps hI hwf hρ.root]
  simp only [lin3]
  rw [getD_range_map 6 _ _ 0 (by omega), getD_range_map 6 _ _ 1 (by omega), getD_range_map 6 _ _ 2 (by omega),
    c0, c1, c2, dotF_Ex, dotF_Ey, dotF_Ez]
  simp only [V3.add_def]

/-! ### the root rows of `dynamics.inverse` -/

/-- `Σ_{b ∈ subtree ρ} (cinr_b · cdd_b + cd_b ×* cinr_b · cd_b)`: the Newton–Euler force of the whole
subtree (with the `−gravity` base acceleration of the recursive Newton–Euler scan inside `cdd`) -/
noncomputable def treeFrc (ps : List Int) (cinr : List (Inertia ℝ)) (cdd cd : List (Motion ℝ)) (n ρ : Nat) :
    Force ℝ :=
  frsum n fun b => if inTree ps ρ b then
    linkFrc (cinr.getD b dI) (cdd.getD b Motion.zero) (cd.getD b Motion.zero) else Force.zero

theorem invFlat_getD (ps : List Int) (grav : V3 ℝ) (c : ComState ℝ) (qdN : List (List ℝ)) (n k : Nat)
    (h1 : c.cinr.length = n) (h2 : (invCdd ps grav c qdN).length = n) (h3 : c.cd.length = n) (hk : k < n) :
    (invFlat ps grav c qdN).getD k Force.zero
      = linkFrc (c.cinr.getD k dI) ((invCdd ps grav c qdN).getD k Motion.zero) (c.cd.getD k Motion.zero) := by
  unfold invFlat
  rw [List.getD_eq_getElem?_getD, List.getElem?_eq_getElem (by simp [h1, h2, h3, hk])]
  simp only [List.getElem_zipWith, List.getElem_zip, Option.getD_some]
  rw [List.getD_eq_getElem?_getD, List.getElem?_eq_getElem (by omega),
    List.getD_eq_getElem?_getD, List.getElem?_eq_getElem (by omega),
    List.getD_eq_getElem?_getD, List.getElem?_eq_getElem (by omega)]
  rfl

/-- **the three translational rows of a free root of the bias force are the linear part of the
Newton–Euler force of the root's whole tree** -/
theorem biasRows_root (ps : List Int) (grav : V3 ℝ) (c : ComState ℝ) (qdN : List (List ℝ)) (ρ : Nat)
    (hps : ps.length = c.cdof.length) (hI : c.cinr.length = c.cdof.length)
    (hcd : c.cd.length = c.cdof.length) (hcdd : (invCdd ps grav c qdN).length = c.cdof.length)
    (hwf : PWF ps) (hρ : RootOK ps c.cdof ρ) :
    lin3 ((inverse ps grav c qdN).getD ρ [])
      = (treeFrc ps c.cinr (invCdd ps grav c qdN) c.cd c.cdof.length ρ).vel := by
  obtain ⟨a0, a1, a2, hrows⟩ := hρ.rows
  have hfl : (invFlat ps grav c qdN).length = c.cdof.length := by
    simp [invFlat, hI, hcdd, hcd]
  have hcf : (invCfrc ps grav c qdN).length = c.cdof.length := by
    unfold invCfrc; rw [revAcc_length, hfl]
  rw [inverse_eq]
  rw [List.getD_eq_getElem?_getD, List.getElem?_eq_getElem (by simp [hcf]; exact hρ.lt)]
  simp only [List.getElem_zipWith, Option.getD_some]
  have hc : c.cdof[ρ]'hρ.lt = [Ex, Ey, Ez, a0, a1, a2] := by
    rw [← hrows, List.getD_eq_getElem?_getD, List.getElem?_eq_getElem hρ.lt]; rfl
  have hf : (invCfrc ps grav c qdN)[ρ]'(by rw [hcf]; exact hρ.lt)
      = treeFrc ps c.cinr (invCdd ps grav c qdN) c.cd c.cdof.length ρ := by
    have h := revAcc_force c.cdof.length ps (invFlat ps grav c qdN) hps hfl hwf ρ hρ.lt
    rw [List.getD_eq_getElem?_getD, List.getElem?_eq_getElem (by rw [revAcc_length, hfl]; exact hρ.lt)] at h
    simp only [Option.getD_some] at h
    unfold invCfrc treeFrc
    rw [h]
    apply frsum_congr
    intro k hk
    rw [invFlat_getD ps grav c qdN c.cdof.length k hI hcdd hcd hk]
  rw [hc, hf]
  simp only [lin3, List.map_cons, List.map_nil, List.getD_cons_zero, List.getD_cons_succ, dotF_Ex, dotF_Ey,
    dotF_Ez]

/-- **Momentum balance at the root rows.**  For every forest, every root `ρ` with world-axis translational
rows, every joint acceleration `N`: rows `(ρ, 0..2)` of `M·N + bias` are the linear part of
`Σ_{b ∈ tree ρ} cinr_b·v_b(N) + Σ_{b ∈ tree ρ} (cinr_b·cdd_b + cd_b ×* cinr_b·cd_b)` plus `armature·N` —
no joint force between the links of the tree appears. -/
theorem root_rows_balance (ps : List Int) (grav : V3 ℝ) (c : ComState ℝ) (arm N qdN : List (List ℝ)) (ρ : Nat)
    (hps : ps.length = c.cdof.length) (hI : c.cinr.length = c.cdof.length)
    (hcd : c.cd.length = c.cdof.length) (hcdd : (invCdd ps grav c qdN).length = c.cdof.length)
    (hwf : PWF ps) (hρ : RootOK ps c.cdof ρ) :
    lin3 ((mvRows ps c.cinr c.cdof arm N).getD ρ []) + lin3 ((inverse ps grav c qdN).getD ρ [])
      = ((treeMom ps c.cinr c.cdof (fun a s => (N.getD a []).getD s 0) c.cdof.length ρ).vel
          + (treeFrc ps c.cinr (invCdd ps grav c qdN) c.cd c.cdof.length ρ).vel)
        + ⟨armAt arm ρ 0 * (N.getD ρ []).getD 0 0, armAt arm ρ 1 * (N.getD ρ []).getD 1 0,
           armAt arm ρ 2 * (N.getD ρ []).getD 2 0⟩ := by
  rw [massRows_root ps c.cinr c.cdof arm N ρ hps hI hwf hρ,
    biasRows_root ps grav c qdN ρ hps hI hcd hcdd hwf hρ]
  simp only [V3.add_def]
  congr 1 <;> ring

/-! ## 3. the linear part, link by link: mass × (acceleration of the link's centre of mass − gravity) -/

/-- `Σ_{i<n} f i` for vectors -/
def vrsum : Nat → (Nat → V3 ℝ) → V3 ℝ
  | 0, _ => V3.zero
  | n + 1, f => vrsum n f + f n

theorem frsum_vel (n : Nat) (f : Nat → Force ℝ) : (frsum n f).vel = vrsum n (fun k => (f k).vel) := by
  induction n with
  | zero => rfl
  | succ n ih => simp only [frsum, vrsum, Force.add_def, ih]

theorem vrsum_congr {n : Nat} {f f' : Nat → V3 ℝ} (h : ∀ a, a < n → f a = f' a) : vrsum n f = vrsum n f' := by
  induction n with
  | zero => rfl
  | succ n ih =>
    simp only [vrsum]
    rw [ih (fun a ha => h a (Nat.lt_succ_of_lt ha)), h n (Nat.lt_succ_self n)]

/-- classical velocity of the body point at offset `r` from the frame origin, for the spatial velocity `v`
expressed at the origin: `v.vel + v.ang × r` -/
def pointVel (v : Motion ℝ) (r : V3 ℝ) : V3 ℝ := v.vel + V3.cross v.ang r

/-- classical acceleration of the body point at offset `r` from the frame origin, for the spatial
acceleration `a` and spatial velocity `v` expressed at the origin:
`a.vel + a.ang × r + v.ang × (v.vel + v.ang × r)` -/
def pointAcc (a v : Motion ℝ) (r : V3 ℝ) : V3 ℝ :=
  a.vel + V3.cross a.ang r + V3.cross v.ang (v.vel + V3.cross v.ang r)

/-- the linear part of `I·v` is `mass × velocity of the centre of mass` when `I.tf.pos = mass·r`
(`cinrLink`: `r = x_i.pos − root_com`) -/
theorem inertiaMul_vel (I : Inertia ℝ) (r : V3 ℝ) (h : I.tf.pos = V3.smul I.mass r) (v : Motion ℝ) :
    (Inertia.mul I v).vel = V3.smul I.mass (pointVel v r) := by
  simp only [Inertia.mul, h, pointVel, V3.smul, V3.cross, V3.add_def, V3.sub_def]
  congr 1 <;> ring

/-- the linear part of `I·a + (I·cdd + cd ×* I·cd)` is `mass × acceleration of the centre of mass` (with
the spatial acceleration `a + cdd`) -/
theorem linkRate_vel (I : Inertia ℝ) (r : V3 ℝ) (h : I.tf.pos = V3.smul I.mass r) (a cdd cd : Motion ℝ) :
    (Inertia.mul I a + linkFrc I cdd cd).vel = V3.smul I.mass (pointAcc (a + cdd) cd r) := by
  simp only [linkFrc, Inertia.mul, Motion.crossF, h, pointAcc, V3.smul, V3.cross, V3.add_def, V3.sub_def,
    Force.add_def, Motion.add_def]
  congr 1 <;> ring

/-- `cinrLink` stores `mass · (x_i.pos − com)` and the mass -/
theorem cinrLink_pos (xi : Tf ℝ) (com : V3 ℝ) (it : Inertia ℝ) :
    (cinrLink xi com it).tf.pos = V3.smul (cinrLink xi com it).mass (xi.pos - com) := rfl

/-- **linear momentum of the tree of `ρ`**: the linear part of `treeMom` is `Σ_b m_b · (velocity of the
centre of mass of link b)` -/
theorem treeMom_vel (ps : List Int) (cinr : List (Inertia ℝ)) (cdof : List (List (Motion ℝ)))
    (Y : Nat → Nat → ℝ) (n ρ : Nat) (r : Nat → V3 ℝ)
    (hr : ∀ b, b < n → (cinr.getD b dI).tf.pos = V3.smul (cinr.getD b dI).mass (r b)) :
    (treeMom ps cinr cdof Y n ρ).vel
      = vrsum n fun b => if inTree ps ρ b then
          V3.smul (cinr.getD b dI).mass (pointVel (velAnc ps cdof Y b) (r b)) else V3.zero := by
  unfold treeMom
  rw [frsum_vel]
  apply vrsum_congr
  intro b hb
  cases inTree ps ρ b
  · rfl
  · simp only [if_true]; exact inertiaMul_vel _ _ (hr b hb) _

/-- **`Σ_{b ∈ tree ρ} m_b (a_b − g)`**: the linear part of `treeMom(N) + treeFrc` is the sum over the links of
the tree of `mass × (classical acceleration of the link's centre of mass − gravity)`; the spatial
acceleration of link `b` is `v_b(N) + cdd_b` (`cdd` starts from `−gravity` at the roots). -/
theorem treeRate_vel (ps : List Int) (cinr : List (Inertia ℝ)) (cdof : List (List (Motion ℝ)))
    (cdd cd : List (Motion ℝ)) (Y : Nat → Nat → ℝ) (n ρ : Nat) (r : Nat → V3 ℝ)
    (hr : ∀ b, b < n → (cinr.getD b dI).tf.pos = V3.smul (cinr.getD b dI).mass (r b)) :
    (treeMom ps cinr cdof Y n ρ).vel + (treeFrc ps cinr cdd cd n ρ).vel
      = vrsum n fun b => if inTree ps ρ b then
          V3.smul (cinr.getD b dI).mass
            (pointAcc (velAnc ps cdof Y b + cdd.getD b Motion.zero) (cd.getD b Motion.zero) (r b))
          else V3.zero := by
  have h : (treeMom ps cinr cdof Y n ρ).vel + (treeFrc ps cinr cdd cd n ρ).vel
      = (treeMom ps cinr cdof Y n ρ + treeFrc ps cinr cdd cd n ρ).vel := rfl
  rw [h]
  unfold treeMom treeFrc
  rw [← frsum_add, frsum_vel]
  apply vrsum_congr
  intro b hb
  cases inTree ps ρ b
  · simp only [Bool.false_eq_true, if_false, fadd_zero]; rfl
  · simp only [if_true]; exact linkRate_vel _ _ (hr b hb) _ _ _

/-! ## 4. the pipeline: `dynInit` / `Gd.step` at the first root -/
section pipe

theorem three_le {l : List ℝ} (h : 3 ≤ l.length) : ∃ a b c r, l = a :: b :: c :: r := by
  rcases l with _ | ⟨a, _ | ⟨b, _ | ⟨c, r⟩⟩⟩
  · simp only [List.length_nil] at h; omega
  · simp only [List.length_cons, List.length_nil] at h; omega
  · simp only [List.length_cons, List.length_nil] at h; omega
  · exact ⟨a, b, c, r, rfl⟩

theorem lin3_flatten (L : List (List ℝ)) (h : 3 ≤ (L.getD 0 []).length) :
    lin3 L.flatten = lin3 (L.getD 0 []) := by
  cases L with
  | nil => simp at h
  | cons l0 rest =>
    simp only [List.getD_cons_zero] at h
    obtain ⟨a0, a1, a2, ar, rfl⟩ := three_le h
    rfl

/-- the damping term does not touch rows whose damping is zero -/
theorem lin3_damped (A d y : List ℝ) (dt : ℝ) (hA : 3 ≤ A.length) (hd : 3 ≤ d.length) (hy : 3 ≤ y.length)
    (hd0 : lin3 d = V3.zero) :
    lin3 (List.zipWith (fun a b => 1 * a + 1 * b) A
        (List.zipWith (fun c x => c * x) (d.map (· * dt)) y)) = lin3 A := by
  obtain ⟨a0, a1, a2, ar, rfl⟩ := three_le hA
  obtain ⟨d0, d1, d2, dr, rfl⟩ := three_le hd
  obtain ⟨y0, y1, y2, yr, rfl⟩ := three_le hy
  simp only [lin3, V3.zero, List.getD_cons_zero, List.getD_cons_succ, V3.mk.injEq] at hd0
  obtain ⟨e0, e1, e2⟩ := hd0
  simp only [lin3, List.map_cons, List.zipWith_cons_cons, List.getD_cons_zero, List.getD_cons_succ, e0, e1, e2]
  congr 1 <;> ring

/-- rows of `qf_smooth + qf_constraint` on which passive force, actuator force and constraint force vanish
carry `−bias` -/
theorem lin3_force (P B T Q : List ℝ) (hP : 3 ≤ P.length) (hB : 3 ≤ B.length) (hT : 3 ≤ T.length)
    (hQ : 3 ≤ Q.length) (hP0 : lin3 P = V3.zero) (hT0 : lin3 T = V3.zero) (hQ0 : lin3 Q = V3.zero) :
    lin3 (List.zipWith (· + ·) (Gd.forward P B T) Q) + lin3 B = V3.zero := by
  obtain ⟨p0, p1, p2, pr, rfl⟩ := three_le hP
  obtain ⟨b0, b1, b2, br, rfl⟩ := three_le hB
  obtain ⟨t0, t1, t2, tr, rfl⟩ := three_le hT
  obtain ⟨q0, q1, q2, qr, rfl⟩ := three_le hQ
  simp only [lin3, V3.zero, List.getD_cons_zero, List.getD_cons_succ, V3.mk.injEq] at hP0 hT0 hQ0
  obtain ⟨e0, e1, e2⟩ := hP0
  obtain ⟨f0, f1, f2⟩ := hT0
  obtain ⟨g0, g1, g2⟩ := hQ0
  simp only [lin3, Gd.forward, List.zipWith_cons_cons, List.getD_cons_zero, List.getD_cons_succ, V3.add_def,
    V3.zero, e0, e1, e2, f0, f1, f2, g0, g1, g2]
  congr 1 <;> ring

theorem pwf_of_par (ps : List Int) (h : ∀ i (hi : i < ps.length), -1 ≤ ps[i] ∧ ps[i] < (i : Int)) : PWF ps := by
  intro i
  by_cases hi : i < ps.length
  · rw [List.getD_eq_getElem?_getD, List.getElem?_eq_getElem hi]; exact (h i hi).2
  · rw [List.getD_eq_getElem?_getD, List.getElem?_eq_none (by omega)]
    simp only [Option.getD_none]; omega

/-- what the momentum theorems need of the system and the state: array sizes (`Full`), the kinematic
well-formedness `GenOK` of `Lemmas/C05Gen` (parents precede children, roots are free joints with the
standard dof rows, nonzero tree masses), at least one link, symmetric link inertias, and **no damping and
no armature on the three translational dofs of the first root** -/
structure MomOK (s : Sys ℝ) (q qd : List ℝ) : Prop where
  full : Full s q qd
  ok : GenOK s ((Kin.forward s q qd).map (·.1)) (linkSlices s.types q qd s.dofs)
  pos : 0 < s.types.length
  symm : ∀ lk ∈ s.links, SymmI lk.inertia
  damp0 : lin3 (s.dofs.map (·.damping)) = V3.zero
  arm0 : lin3 (s.dofs.map (·.armature)) = V3.zero

variable {s : Sys ℝ} {q qd : List ℝ}

theorem MomOK.types (h : MomOK s q qd) : ∃ ts, s.types = .free :: ts := by
  have h0 : 0 < s.types.length := h.pos
  have hp := h.ok.par 0 (by rw [h.ok.parents]; exact h0)
  have hf : s.types[0] = .free := h.ok.rootFree 0 (by rw [h.ok.parents]; exact h0) h0 (by omega)
  have hq : s.types[0]? = some .free := by rw [List.getElem?_eq_getElem h0, hf]
  cases hts : s.types with
  | nil => rw [hts] at h0; simp at h0
  | cons t ts =>
    rw [hts] at hq
    simp only [List.getElem?_cons_zero, Option.some.injEq] at hq
    exact ⟨ts, by rw [hq]⟩

theorem MomOK.slices (h : MomOK s q qd) : ∃ ts, s.types = .free :: ts ∧
    linkSlices s.types q qd s.dofs
      = ⟨.free, q.take 7, qd.take 6, s.dofs.take 6⟩
        :: linkSlices ts (q.drop 7) (qd.drop 6) (s.dofs.drop 6) := by
  obtain ⟨ts, hts⟩ := h.types
  exact ⟨ts, hts, by rw [hts]; rfl⟩

theorem MomOK.nv (h : MomOK s q qd) : 6 ≤ s.nv := by
  obtain ⟨ts, hts⟩ := h.types
  unfold Sys.nv
  rw [hts]
  simp only [List.map_cons, List.sum_cons, LinkType.qdWidth]
  omega

theorem MomOK.pwf (h : MomOK s q qd) : PWF s.parents := pwf_of_par s.parents h.ok.par

/-- every link has as many `cdof` rows as its joint type has dofs -/
theorem MomOK.cdof_chunks (h : MomOK s q qd) :
    List.Forall₂ (fun (t : LinkType) (r : List (Motion ℝ)) => r.length = t.qdWidth)
      s.types (dynInit s q qd).com.cdof := by
  have hf := linkSlices_full s.types q qd s.dofs (by rw [h.full.hq]; exact le_refl _)
    (by rw [h.full.hqd]; exact le_refl _) (by rw [h.full.hds]; exact le_refl _)
  have hl := (tc_lengths h.ok).2.2.2.2.1
  apply forall₂_of_getElem
  · exact hl.symm
  · intro i h1 h2
    have hii : i < (linkSlices s.types q qd s.dofs).length := by rw [h.ok.insLen]; exact h1
    have hrow := forall₂_getElem hf i h1 hii
    show ((tcCdof s _ (linkSlices s.types q qd s.dofs))[i]'h2).length = _
    simp only [tcCdof, List.getElem_zipWith]
    rw [cdofLink_length, hrow.2.2.2]
    intro hnf
    rw [hrow.2.1, hrow.2.2.2]
    have ht := hrow.1
    cases hti : s.types[i] <;> first | (rw [hti] at ht; exact absurd ht hnf) | rfl

/-- the first link is a root whose translational `cdof` rows are the world axes -/
theorem MomOK.rootOK (h : MomOK s q qd) : RootOK s.parents (dynInit s q qd).com.cdof 0 := by
  have h0 : 0 < s.types.length := h.pos
  have hl := tc_lengths h.ok
  have hp := h.ok.par 0 (by rw [h.ok.parents]; exact h0)
  have hlen : 0 < (dynInit s q qd).com.cdof.length := by
    show 0 < (tcCdof s _ (linkSlices s.types q qd s.dofs)).length
    rw [hl.2.2.2.2.1]; exact h0
  refine ⟨?_, hlen, ?_⟩
  · rw [List.getD_eq_getElem?_getD, List.getElem?_eq_getElem (by rw [h.ok.parents]; exact h0)]
    exact hp.2
  · have hf : s.types[0] = .free := h.ok.rootFree 0 (by rw [h.ok.parents]; exact h0) h0 (by omega)
    have hi : 0 < (linkSlices s.types q qd s.dofs).length := by rw [h.ok.insLen]; exact h0
    have htyp : ((linkSlices s.types q qd s.dofs)[0]'hi).typ = .free := by rw [h.ok.typ 0 hi h0]; exact hf
    have hb := h.ok.basis _ (List.getElem_mem hi) htyp
    have hrow : (dynInit s q qd).com.cdof.getD 0 []
        = cdofLink ((linkSlices s.types q qd s.dofs)[0]'hi)
            (((jointFrames s ((Kin.forward s q qd).map (·.1))).zip
              (tcCom s ((Kin.forward s q qd).map (·.1))))[0]'(by
                rw [List.length_zip, hl.2.2.2.1, hl.2.1]; simpa using h0)).1
            (((jointFrames s ((Kin.forward s q qd).map (·.1))).zip
              (tcCom s ((Kin.forward s q qd).map (·.1))))[0]'(by
                rw [List.length_zip, hl.2.2.2.1, hl.2.1]; simpa using h0)).2 := by
      show (tcCdof s _ (linkSlices s.types q qd s.dofs)).getD 0 [] = _
      unfold tcCdof
      rw [getD_zipWith _ _ _ [] 0 hi (by rw [List.length_zip, hl.2.2.2.1, hl.2.1]; simpa using h0)]
    rw [hrow, cdofLink_eq]
    have hloc : cdofLocal ((linkSlices s.types q qd s.dofs)[0]'hi) = freeBasis := by
      unfold cdofLocal; rw [htyp]; exact hb
    have hbt : (((linkSlices s.types q qd s.dofs)[0]'hi).typ == LinkType.free) = true := by rw [htyp]; rfl
    rw [hloc, hbt]
    simp only [freeBasis, List.map_cons, List.map_nil, rowF_true_lin]
    exact ⟨_, _, _, rfl⟩

/-- the six dofs of the first (free) root; damping and armature vanish on the translational three -/
theorem MomOK.dofs6 (h : MomOK s q qd) : ∃ d0 d1 d2 d3 d4 d5 : DofP ℝ,
    s.dofs.take 6 = [d0, d1, d2, d3, d4, d5]
    ∧ d0.damping = 0 ∧ d1.damping = 0 ∧ d2.damping = 0
    ∧ d0.armature = 0 ∧ d1.armature = 0 ∧ d2.armature = 0 := by
  have hnv := h.nv
  have hds := h.full.hds
  obtain ⟨d0, d1, d2, d3, d4, d5, hd⟩ := C05G.length6 (s.dofs.take 6) (by rw [List.length_take]; omega)
  have hall : s.dofs = d0 :: d1 :: d2 :: d3 :: d4 :: d5 :: s.dofs.drop 6 := by
    conv_lhs => rw [← List.take_append_drop 6 s.dofs, hd]
    rfl
  have h1 := h.damp0
  have h2 := h.arm0
  rw [hall] at h1 h2
  simp only [lin3, V3.zero, List.map_cons, List.getD_cons_zero, List.getD_cons_succ, V3.mk.injEq] at h1 h2
  exact ⟨d0, d1, d2, d3, d4, d5, hd, h1.1, h1.2.1, h1.2.2, h2.1, h2.2.1, h2.2.2⟩

theorem le_flatten_length (L : List (List ℝ)) : (L.getD 0 []).length ≤ L.flatten.length := by
  cases L with
  | nil => simp
  | cons l0 rest => simp

/-- no passive force on the translational dofs of the first root -/
theorem MomOK.passive0 (h : MomOK s q qd) :
    3 ≤ (passiveFlat s q qd).length ∧ lin3 (passiveFlat s q qd) = V3.zero := by
  obtain ⟨ts, hts, hsl⟩ := h.slices
  obtain ⟨d0, d1, d2, d3, d4, d5, hd, e0, e1, e2, _, _, _⟩ := h.dofs6
  have hnv := h.nv
  have hqd := h.full.hqd
  obtain ⟨v0, v1, v2, v3, v4, v5, hv⟩ := C05G.length6 (qd.take 6) (by rw [List.length_take]; omega)
  have hp : passiveFlat s q qd
      = [0 - d0.damping * v0, 0 - d1.damping * v1, 0 - d2.damping * v2, 0 - d3.damping * v3,
          0 - d4.damping * v4, 0 - d5.damping * v5]
        ++ ((linkSlices ts (q.drop 7) (qd.drop 6) (s.dofs.drop 6)).map passiveLink).flatten := by
    show ((linkSlices s.types q qd s.dofs).map passiveLink).flatten = _
    rw [hsl, List.map_cons, List.flatten_cons]
    congr 1
    simp only [passiveLink, hd, hv, List.map_cons, List.map_nil, List.zip_cons_cons, List.zip_nil_right,
      List.zipWith_cons_cons, List.zipWith_nil_right]
  rw [hp]
  refine ⟨by simp, ?_⟩
  simp only [lin3, List.cons_append, List.getD_cons_zero, List.getD_cons_succ, e0, e1, e2, V3.zero]
  congr 1 <;> ring

/-- no armature on the translational dofs of the first root -/
theorem MomOK.armAt0 (h : MomOK s q qd) :
    armAt ((nested s q qd).map (fun l => l.dofs.map (·.armature))) 0 0 = 0
    ∧ armAt ((nested s q qd).map (fun l => l.dofs.map (·.armature))) 0 1 = 0
    ∧ armAt ((nested s q qd).map (fun l => l.dofs.map (·.armature))) 0 2 = 0 := by
  obtain ⟨ts, hts, hsl⟩ := h.slices
  obtain ⟨d0, d1, d2, d3, d4, d5, hd, _, _, _, e0, e1, e2⟩ := h.dofs6
  have hn : nested s q qd = linkSlices s.types q qd s.dofs := rfl
  rw [hn, hsl]
  simp only [armAt, List.map_cons, List.getD_cons_zero, hd, List.getD_cons_succ, e0, e1, e2, and_self]

theorem inverse_getD_length (ps : List Int) (grav : V3 ℝ) (c : ComState ℝ) (qdN : List (List ℝ)) (ρ : Nat)
    (h1 : ρ < c.cdof.length) (h2 : ρ < (invCfrc ps grav c qdN).length) :
    ((inverse ps grav c qdN).getD ρ []).length = (c.cdof.getD ρ []).length := by
  rw [inverse_eq, getD_zipWith _ _ _ [] ρ h1 h2, List.length_map, getElem_eq_getD c.cdof [] ρ h1]

/-- the joint accelerations `qdd`, read per link and dof -/
noncomputable def qddN (s : Sys ℝ) (qdd : List ℝ) : Nat → Nat → ℝ :=
  fun a r => ((chunkQd s.types qdd).getD a []).getD r 0

/-- the accelerations `cdd` of the recursive Newton–Euler scan inside `dynamics.inverse` at the state -/
noncomputable def stCdd (s : Sys ℝ) (q qd : List ℝ) : List (Motion ℝ) :=
  invCdd s.parents s.gravity (dynInit s q qd).com ((nested s q qd).map (·.qd))

/-- **Momentum balance of the first tree, pipeline level.**  If `qdd` solves the pipeline's linear system
`(M + diag(damping)·dt) qdd = qf_smooth + qf_constraint` exactly, and neither passive force, actuator
force, constraint force nor armature acts on the three translational dofs of the first root, then
`Σ_{b ∈ tree 0} cinr_b·v_b(qdd) + Σ_{b ∈ tree 0} (cinr_b·cdd_b + cd_b ×* cinr_b·cd_b)` has zero linear part:
the rate of change of the tree's linear momentum equals total mass × gravity, whatever the joints
between its links do. -/
theorem root_balance_of_exact (h : MomOK s q qd) (act qfc qdd : List ℝ)
    (hqdd : qdd.length = s.nv) (hqfc : qfc.length = s.nv)
    (htau : lin3 (toTau s.nv s.acts act q qd) = V3.zero) (hqfc0 : lin3 qfc = V3.zero)
    (hex : matVec (dampedMatrix (dynInit s q qd).massMx (s.dofs.map (·.damping)) s.dt) qdd
        = List.zipWith (· + ·) (qfSmooth s (dynInit s q qd) q qd act) qfc) :
    (treeMom s.parents (dynInit s q qd).com.cinr (dynInit s q qd).com.cdof (qddN s qdd) s.types.length 0).vel
      + (treeFrc s.parents (dynInit s q qd).com.cinr (stCdd s q qd) (dynInit s q qd).com.cd
          s.types.length 0).vel
      = V3.zero := by
  have hnv := h.nv
  have hl := tc_lengths h.ok
  have hwf := h.pwf
  have hρ := h.rootOK
  have hch := h.cdof_chunks
  obtain ⟨hflat, hN⟩ := chunkQd_spec s.types qdd hqdd
  have hclen : (dynInit s q qd).com.cdof.length = s.types.length := hl.2.2.2.2.1
  have hcinr : (dynInit s q qd).com.cinr.length = s.types.length := hl.2.2.1
  have hcd : (dynInit s q qd).com.cd.length = s.types.length := hl.2.2.2.2.2.2.1
  have hcdofd : (dynInit s q qd).com.cdofd.length = s.types.length := hl.2.2.2.2.2.2.2
  have hNl : (chunkQd s.types qdd).length = s.types.length := (List.Forall₂.length_eq hN).symm
  have hw : ∀ l, l < (chunkQd s.types qdd).length →
      ((chunkQd s.types qdd).getD l []).length = wAt (dynInit s q qd).com.cdof l := by
    intro l hl'
    have h1 : l < s.types.length := by rw [← hNl]; exact hl'
    have h2 : l < (dynInit s q qd).com.cdof.length := by rw [hclen]; exact h1
    have e1 := forall₂_getElem hN l h1 hl'
    have e2 := forall₂_getElem hch l h1 h2
    unfold wAt
    rw [← getElem_eq_getD _ [] l hl', ← getElem_eq_getD _ [] l h2, e1, e2]
  have hsym : ∀ I ∈ (dynInit s q qd).com.cinr, SymmI I := by
    intro I hI
    obtain ⟨xi, cm, lk, hlk, rfl⟩ := transformCom_cinr_mem s _ q qd I hI
    exact cinrLink_symm xi cm lk.inertia (h.symm lk hlk)
  have hM : (dynInit s q qd).massMx = massMatrix s.parents (dynInit s q qd).com.cinr
      (dynInit s q qd).com.cdof ((nested s q qd).map (fun l => l.dofs.map (·.armature))) := rfl
  have hmv := matVec_eq_mvRows s.parents (dynInit s q qd).com.cinr (dynInit s q qd).com.cdof
    ((nested s q qd).map (fun l => l.dofs.map (·.armature))) (chunkQd s.types qdd) hsym
    (by rw [hNl, hclen]) hw
  rw [hflat] at hmv
  have hidx : (dofIdx (dynInit s q qd).com.cdof.length (wAt (dynInit s q qd).com.cdof)).length = s.nv := by
    have := congrArg List.length
      (flatten_eq_dofIdx_map (dynInit s q qd).com.cdof (chunkQd s.types qdd) (by rw [hNl, hclen]) hw)
    rw [hflat, List.length_map] at this
    rw [← this, hqdd]
  have hsh := massMatrix_shape s.parents (dynInit s q qd).com.cinr (dynInit s q qd).com.cdof
    ((nested s q qd).map (fun l => l.dofs.map (·.armature)))
  have hdl : (s.dofs.map (·.damping)).length = s.nv := by rw [List.length_map, h.full.hds]
  have hdamp := matVec_damped _ (s.dofs.map (·.damping)) qdd s.dt s.nv (hsh.1.trans hidx)
    (fun r hr => (hsh.2 r hr).trans hidx) hdl hqdd
  have hqdNl : ((nested s q qd).map (·.qd)).length = s.types.length := by
    rw [List.length_map]; exact h.ok.insLen
  have hcdd : (stCdd s q qd).length = (dynInit s q qd).com.cdof.length := by
    simp [stCdd, invCdd, invU, scanFwd_length, h.ok.parents, hcdofd, hqdNl, hclen]
  have hcfrc : (invCfrc s.parents s.gravity (dynInit s q qd).com ((nested s q qd).map (·.qd))).length
      = s.types.length := by
    have hcdd' : (invCdd s.parents s.gravity (dynInit s q qd).com ((nested s q qd).map (·.qd))).length
        = s.types.length := by rw [← hclen]; exact hcdd
    simp [invCfrc, revAcc_length, invFlat, hcinr, hcdd', hcd]
  have hbal := root_rows_balance s.parents s.gravity (dynInit s q qd).com
    ((nested s q qd).map (fun l => l.dofs.map (·.armature))) (chunkQd s.types qdd)
    ((nested s q qd).map (·.qd)) 0 (by rw [hclen]; exact h.ok.parents) (hcinr.trans hclen.symm)
    (hcd.trans hclen.symm)
    (show (invCdd s.parents s.gravity (dynInit s q qd).com ((nested s q qd).map (fun l => l.qd))).length
      = (dynInit s q qd).com.cdof.length from hcdd) hwf hρ
  obtain ⟨a0, a1, a2, hrows⟩ := hρ.rows
  have hw0 : wAt (dynInit s q qd).com.cdof 0 = 6 := by unfold wAt; rw [hrows]; rfl
  -- the two sides of the linear system, rows 0..2
  have hMlen : (matVec (massMatrix s.parents (dynInit s q qd).com.cinr (dynInit s q qd).com.cdof
      ((nested s q qd).map (fun l => l.dofs.map (·.armature)))) qdd).length = s.nv := by
    simp only [matVec, List.length_map]; exact hsh.1.trans hidx
  have hrow0 : ((mvRows s.parents (dynInit s q qd).com.cinr (dynInit s q qd).com.cdof
      ((nested s q qd).map (fun l => l.dofs.map (·.armature))) (chunkQd s.types qdd)).getD 0 []).length = 6 := by
    unfold mvRows
    rw [getD_range_map _ _ _ 0 hρ.lt, List.length_map, List.length_range, hw0]
  have hL : lin3 (matVec (dampedMatrix (dynInit s q qd).massMx (s.dofs.map (·.damping)) s.dt) qdd)
      = lin3 ((mvRows s.parents (dynInit s q qd).com.cinr (dynInit s q qd).com.cdof
          ((nested s q qd).map (fun l => l.dofs.map (·.armature))) (chunkQd s.types qdd)).getD 0 []) := by
    rw [hM, hdamp, lin3_damped _ _ _ _ (by omega) (by omega) (by omega) h.damp0, hmv,
      lin3_flatten _ (by omega)]
  obtain ⟨hP, hP0⟩ := h.passive0
  have hb0 : ((inverse s.parents s.gravity (dynInit s q qd).com ((nested s q qd).map (·.qd))).getD 0 []).length
      = 6 := by
    rw [inverse_getD_length _ _ _ _ 0 hρ.lt (by rw [hcfrc]; exact h.pos), hrows]; rfl
  have hBlen : 3 ≤ (biasFlat s (dynInit s q qd) q qd).length := by
    have := le_flatten_length (inverse s.parents s.gravity (dynInit s q qd).com ((nested s q qd).map (·.qd)))
    show 3 ≤ (inverse s.parents s.gravity (dynInit s q qd).com ((nested s q qd).map (·.qd))).flatten.length
    omega
  have hBl : lin3 (biasFlat s (dynInit s q qd) q qd)
      = lin3 ((inverse s.parents s.gravity (dynInit s q qd).com ((nested s q qd).map (·.qd))).getD 0 []) :=
    lin3_flatten _ (by omega)
  have hR : lin3 (List.zipWith (· + ·) (qfSmooth s (dynInit s q qd) q qd act) qfc)
      + lin3 (biasFlat s (dynInit s q qd) q qd) = V3.zero := by
    unfold qfSmooth
    exact lin3_force _ _ _ _ hP hBlen (by rw [toTau_length]; omega) (by omega) hP0 htau hqfc0
  rw [← hex, hL, hBl, hbal] at hR
  obtain ⟨z0, z1, z2⟩ := h.armAt0
  rw [z0, z1, z2] at hR
  simp only [zero_mul] at hR
  have hz : (⟨0, 0, 0⟩ : V3 ℝ) = V3.zero := rfl
  rw [hz, V3.add_zero', hclen] at hR
  exact hR

/-- offset of the centre of mass of link `b` from the centre of mass of its tree (`x_i.pos − root_com`) -/
noncomputable def comOff (s : Sys ℝ) (q qd : List ℝ) (b : Nat) : V3 ℝ :=
  ((tcXi s ((Kin.forward s q qd).map (·.1))).getD b Tf.id).pos
    - (tcCom s ((Kin.forward s q qd).map (·.1))).getD b V3.zero

theorem cinr_off (h : MomOK s q qd) (b : Nat) (hb : b < s.types.length) :
    ((dynInit s q qd).com.cinr.getD b dI).tf.pos
      = V3.smul ((dynInit s q qd).com.cinr.getD b dI).mass (comOff s q qd b) := by
  have hl := tc_lengths h.ok
  have h1 : b < ((tcXi s ((Kin.forward s q qd).map (·.1))).zip
      (tcCom s ((Kin.forward s q qd).map (·.1)))).length := by
    rw [List.length_zip, hl.1, hl.2.1]; simpa using hb
  have h2 : b < s.links.length := by rw [h.ok.links]; exact hb
  have e : (dynInit s q qd).com.cinr.getD b dI
      = cinrLink ((tcXi s ((Kin.forward s q qd).map (·.1))).getD b Tf.id)
          ((tcCom s ((Kin.forward s q qd).map (·.1))).getD b V3.zero) (s.links[b]'h2).inertia := by
    show (tcCinr s _).getD b dI = _
    unfold tcCinr
    rw [getD_zipWith _ _ _ dI b h1 h2]
    simp only [List.getElem_zip]
    rw [getElem_eq_getD _ Tf.id b (by rw [hl.1]; exact hb), getElem_eq_getD _ V3.zero b (by rw [hl.2.1]; exact hb)]
  rw [e]
  exact cinrLink_pos _ _ _

/-- **`Σ_{b ∈ tree 0} m_b (a_b − g) = 0`** for the first tree of the pipeline state, under the hypotheses of
`root_balance_of_exact`; `a_b − g` is the classical acceleration of the centre of mass of link `b` computed
from the spatial acceleration `v_b(qdd) + cdd_b` (`cdd` carries the `−g`) and the spatial velocity `cd_b`. -/
theorem root_balance_physical (h : MomOK s q qd) (act qfc qdd : List ℝ)
    (hqdd : qdd.length = s.nv) (hqfc : qfc.length = s.nv)
    (htau : lin3 (toTau s.nv s.acts act q qd) = V3.zero) (hqfc0 : lin3 qfc = V3.zero)
    (hex : matVec (dampedMatrix (dynInit s q qd).massMx (s.dofs.map (·.damping)) s.dt) qdd
        = List.zipWith (· + ·) (qfSmooth s (dynInit s q qd) q qd act) qfc) :
    (vrsum s.types.length fun b => if inTree s.parents 0 b then
        V3.smul ((dynInit s q qd).com.cinr.getD b dI).mass
          (pointAcc (velAnc s.parents (dynInit s q qd).com.cdof (qddN s qdd) b
              + (stCdd s q qd).getD b Motion.zero)
            ((dynInit s q qd).com.cd.getD b Motion.zero) (comOff s q qd b))
        else V3.zero) = V3.zero := by
  rw [← treeRate_vel s.parents (dynInit s q qd).com.cinr (dynInit s q qd).com.cdof (stCdd s q qd)
    (dynInit s q qd).com.cd (qddN s qdd) s.types.length 0 (comOff s q qd) (fun b hb => cinr_off h b hb)]
  exact root_balance_of_exact h act qfc qdd hqdd hqfc htau hqfc0 hex

/-- the same for the accelerations `Gd.step` really computes, when the linear solve is exact -/
theorem step_root_balance (h : MomOK s q qd) (solve : List (List ℝ) → List ℝ → List ℝ) (act qfc : List ℝ)
    (hqfc : qfc.length = s.nv)
    (htau : lin3 (toTau s.nv s.acts act q qd) = V3.zero) (hqfc0 : lin3 qfc = V3.zero)
    (hlen : (Gd.step solve s (dynInit s q qd) q qd act qfc).1.2.2.length = s.nv)
    (hex : matVec (dampedMatrix (dynInit s q qd).massMx (s.dofs.map (·.damping)) s.dt)
        (Gd.step solve s (dynInit s q qd) q qd act qfc).1.2.2
      = List.zipWith (· + ·) (qfSmooth s (dynInit s q qd) q qd act) qfc) :
    (vrsum s.types.length fun b => if inTree s.parents 0 b then
        V3.smul ((dynInit s q qd).com.cinr.getD b dI).mass
          (pointAcc (velAnc s.parents (dynInit s q qd).com.cdof
                (qddN s (Gd.step solve s (dynInit s q qd) q qd act qfc).1.2.2) b
              + (stCdd s q qd).getD b Motion.zero)
            ((dynInit s q qd).com.cd.getD b Motion.zero) (comOff s q qd b))
        else V3.zero) = V3.zero :=
  root_balance_physical h act qfc _ hlen hqfc htau hqfc0 hex

/-- `Gd.step` is semi-implicit: the new velocity is `qd + qdd·dt` with the solved `qdd` -/
theorem step_qd (solve : List (List ℝ) → List ℝ → List ℝ) (s : Sys ℝ) (st : DynState ℝ)
    (q qd act qfc : List ℝ) :
    (Gd.step solve s st q qd act qfc).1.2.1
      = List.zipWith (fun v a => v + a * s.dt) qd (Gd.step solve s st q qd act qfc).1.2.2 := rfl

end pipe

/-! ## 5. the single free body -/

/-- `Σ_i w_i · x_i` -/
def angOf (w0 w1 w2 : V3 ℝ) (a b c : ℝ) : V3 ℝ :=
  ⟨w0.x * a + w1.x * b + w2.x * c, w0.y * a + w1.y * b + w2.y * c, w0.z * a + w1.z * b + w2.z * c⟩

theorem free_body_algebra (w0 w1 w2 o r g : V3 ℝ) (P : Motion ℝ)
    (v0 v1 v2 v3 v4 v5 n0 n1 n2 n3 n4 n5 : ℝ) :
    pointAcc
        (Motion.zero + sumM (List.zipWith mulr
            [Ex, Ey, Ez, ⟨w0, V3.zero - V3.cross o w0⟩, ⟨w1, V3.zero - V3.cross o w1⟩,
              ⟨w2, V3.zero - V3.cross o w2⟩] [n0, n1, n2, n3, n4, n5])
          + cddStep g none (List.zipWith mulr
              (cdofdLink .free P
                [Ex, Ey, Ez, ⟨w0, V3.zero - V3.cross o w0⟩, ⟨w1, V3.zero - V3.cross o w1⟩,
                  ⟨w2, V3.zero - V3.cross o w2⟩]
                (List.zipWith mulr
                  [Ex, Ey, Ez, ⟨w0, V3.zero - V3.cross o w0⟩, ⟨w1, V3.zero - V3.cross o w1⟩,
                    ⟨w2, V3.zero - V3.cross o w2⟩] [v0, v1, v2, v3, v4, v5]))
              [v0, v1, v2, v3, v4, v5]))
        (cdStep none (List.zipWith mulr
            [Ex, Ey, Ez, ⟨w0, V3.zero - V3.cross o w0⟩, ⟨w1, V3.zero - V3.cross o w1⟩,
              ⟨w2, V3.zero - V3.cross o w2⟩] [v0, v1, v2, v3, v4, v5])) r
      = (⟨n0, n1, n2⟩ : V3 ℝ) - g + V3.cross (angOf w0 w1 w2 n3 n4 n5) (o + r)
        + V3.cross (angOf w0 w1 w2 v3 v4 v5) (V3.cross (angOf w0 w1 w2 v3 v4 v5) (o + r)) := by
  have hr : List.range 6 = [0, 1, 2, 3, 4, 5] := by decide
  simp only [pointAcc, cddStep, cdStep, cdofdLink, sumM, mulr, Motion.crossM, List.zipWith_cons_cons,
    List.zipWith_nil_right, List.length_cons, List.length_nil, hr, List.zip_cons_cons, List.zip_nil_right,
    List.map_cons, List.map_nil, List.take_succ_cons, List.take_zero, Option.getD_none, Motion.add_def,
    Motion.zero, V3.zero, V3.add_def, V3.sub_def, V3.neg_def, V3.cross, Ex, Ey, Ez, angOf]
  norm_num
  refine ⟨?_, ?_, ?_⟩ <;> ring

theorem length_one {β : Type} {l : List β} (h : l.length = 1) : ∃ a, l = [a] := by
  match l, h with
  | [a], _ => exact ⟨a, rfl⟩

theorem rowF_true_ang_eq (j : Tf ℝ) (c w : V3 ℝ) :
    rowF true j c ⟨w, V3.zero⟩ = ⟨rotate w j.rot, V3.zero - V3.cross (c - j.pos) (rotate w j.rot)⟩ := by
  simp only [rowF, doMotion_pos_one, cdofWorld, if_true]

theorem smul_eq_zero' (m : ℝ) (v : V3 ℝ) (hm : m ≠ 0) (h : V3.smul m v = V3.zero) : v = V3.zero := by
  simp only [V3.smul, V3.zero, V3.mk.injEq] at h
  obtain ⟨h1, h2, h3⟩ := h
  apply V3.ext'
  · exact (mul_eq_zero.mp h1).resolve_left hm
  · exact (mul_eq_zero.mp h2).resolve_left hm
  · exact (mul_eq_zero.mp h3).resolve_left hm

section one
variable {s : Sys ℝ} {q qd : List ℝ}

/-- world angular rate of the single free body from the three rotational entries of a per-dof vector
(`cdof` rotates the body-frame axes by the joint frame) -/
noncomputable def bodyAng (s : Sys ℝ) (q qd : List ℝ) (y : List ℝ) : V3 ℝ :=
  angOf (rotate ⟨1, 0, 0⟩ ((jointFrames s ((Kin.forward s q qd).map (·.1))).getD 0 Tf.id).rot)
    (rotate ⟨0, 1, 0⟩ ((jointFrames s ((Kin.forward s q qd).map (·.1))).getD 0 Tf.id).rot)
    (rotate ⟨0, 0, 1⟩ ((jointFrames s ((Kin.forward s q qd).map (·.1))).getD 0 Tf.id).rot)
    (y.getD 3 0) (y.getD 4 0) (y.getD 5 0)

/-- offset of the body's centre of mass from the origin of its joint frame -/
noncomputable def comArm (s : Sys ℝ) (q qd : List ℝ) : V3 ℝ :=
  ((tcXi s ((Kin.forward s q qd).map (·.1))).getD 0 Tf.id).pos
    - ((jointFrames s ((Kin.forward s q qd).map (·.1))).getD 0 Tf.id).pos

theorem free_body_qdd (h : MomOK s q qd) (hone : s.types.length = 1)
    (hm : ∀ lk ∈ s.links, lk.inertia.mass ≠ 0) (act qfc qdd : List ℝ)
    (hqdd : qdd.length = s.nv) (hqfc : qfc.length = s.nv)
    (htau : lin3 (toTau s.nv s.acts act q qd) = V3.zero) (hqfc0 : lin3 qfc = V3.zero)
    (hex : matVec (dampedMatrix (dynInit s q qd).massMx (s.dofs.map (·.damping)) s.dt) qdd
        = List.zipWith (· + ·) (qfSmooth s (dynInit s q qd) q qd act) qfc) :
    lin3 qdd - s.gravity + V3.cross (bodyAng s q qd qdd) (comArm s q qd)
      + V3.cross (bodyAng s q qd qd) (V3.cross (bodyAng s q qd qd) (comArm s q qd)) = V3.zero := by
  obtain ⟨ts, hts, hsl⟩ := h.slices
  have hts0 : ts = [] := by
    rw [hts] at hone
    simpa using hone
  subst hts0
  have hsl' : linkSlices s.types q qd s.dofs = [⟨.free, q.take 7, qd.take 6, s.dofs.take 6⟩] := hsl
  have hnv : s.nv = 6 := by unfold Sys.nv; rw [hts]; rfl
  obtain ⟨v0, v1, v2, v3, v4, v5, hv⟩ := C05G.length6 qd (by rw [h.full.hqd, hnv])
  obtain ⟨n0, n1, n2, n3, n4, n5, hn⟩ := C05G.length6 qdd (by rw [hqdd, hnv])
  have hl := tc_lengths h.ok
  rw [hone] at hl
  obtain ⟨j0, hjf⟩ := length_one hl.2.2.2.1
  obtain ⟨c0, hcom⟩ := length_one hl.2.1
  obtain ⟨xi0, hxi⟩ := length_one hl.1
  have hplen : s.parents.length = 1 := by rw [h.ok.parents, hone]
  obtain ⟨p0, hp0⟩ := length_one hplen
  have hps : s.parents = [-1] := by
    have hge := h.ok.par 0 (by rw [hplen]; omega)
    have e : s.parents[0]'(by rw [hplen]; omega) = p0 := by simp [hp0]
    rw [e] at hge
    have : p0 = -1 := by omega
    rw [hp0, this]
  -- the balance
  have hbal := root_balance_physical h act qfc qdd hqdd hqfc htau hqfc0 hex
  rw [hone] at hbal
  simp only [vrsum, inTree_self, if_true, V3.zero_add'] at hbal
  have hmass : ((dynInit s q qd).com.cinr.getD 0 dI).mass ≠ 0 := by
    have hlen : 0 < (dynInit s q qd).com.cinr.length := by
      show 0 < (tcCinr s _).length
      rw [hl.2.2.1]; omega
    have hmem : (dynInit s q qd).com.cinr.getD 0 dI ∈ (dynInit s q qd).com.cinr := by
      rw [List.getD_eq_getElem?_getD, List.getElem?_eq_getElem hlen]; exact List.getElem_mem hlen
    obtain ⟨xi, cm, lk, hlk, e⟩ := transformCom_cinr_mem s _ q qd _ hmem
    rw [e]
    exact hm lk hlk
  have hpa := smul_eq_zero' _ _ hmass hbal
  -- the model's quantities, explicitly
  have hb := h.ok.basis _ (by rw [hsl']; exact List.mem_singleton_self _) rfl
  have hrows : cdofLink ⟨.free, q.take 7, qd.take 6, s.dofs.take 6⟩ j0 c0
      = [Ex, Ey, Ez,
          ⟨rotate ⟨1, 0, 0⟩ j0.rot, V3.zero - V3.cross (c0 - j0.pos) (rotate ⟨1, 0, 0⟩ j0.rot)⟩,
          ⟨rotate ⟨0, 1, 0⟩ j0.rot, V3.zero - V3.cross (c0 - j0.pos) (rotate ⟨0, 1, 0⟩ j0.rot)⟩,
          ⟨rotate ⟨0, 0, 1⟩ j0.rot, V3.zero - V3.cross (c0 - j0.pos) (rotate ⟨0, 0, 1⟩ j0.rot)⟩] := by
    rw [cdofLink_eq]
    have hloc : cdofLocal (⟨.free, q.take 7, qd.take 6, s.dofs.take 6⟩ : LinkIn ℝ) = freeBasis := hb
    rw [hloc]
    have hbt : ((LinkType.free : LinkType) == LinkType.free) = true := rfl
    simp only [hbt, freeBasis, List.map_cons, List.map_nil, rowF_true_lin, rowF_true_ang_eq, Ex, Ey, Ez]
  have hqd6 : qd.take 6 = [v0, v1, v2, v3, v4, v5] := by rw [hv]; rfl
  have hcdof : (dynInit s q qd).com.cdof = [cdofLink ⟨.free, q.take 7, qd.take 6, s.dofs.take 6⟩ j0 c0] := by
    show tcCdof s _ (linkSlices s.types q qd s.dofs) = _
    unfold tcCdof
    rw [hsl', hjf, hcom]; rfl
  have hcdofQd : tcCdofQd s ((Kin.forward s q qd).map (·.1)) (linkSlices s.types q qd s.dofs)
      = [List.zipWith mulr (cdofLink ⟨.free, q.take 7, qd.take 6, s.dofs.take 6⟩ j0 c0) [v0, v1, v2, v3, v4, v5]] := by
    unfold tcCdofQd
    have : tcCdof s ((Kin.forward s q qd).map (·.1)) (linkSlices s.types q qd s.dofs)
        = [cdofLink ⟨.free, q.take 7, qd.take 6, s.dofs.take 6⟩ j0 c0] := hcdof
    rw [this, hsl']
    simp only [List.zipWith_cons_cons, List.zipWith_nil_right, hqd6]
  have hcd : (dynInit s q qd).com.cd
      = [cdStep none (List.zipWith mulr (cdofLink ⟨.free, q.take 7, qd.take 6, s.dofs.take 6⟩ j0 c0)
          [v0, v1, v2, v3, v4, v5])] := by
    show tcCd s _ (linkSlices s.types q qd s.dofs) = _
    unfold tcCd
    rw [hcdofQd, hps]; rfl
  have hpidx : parentIdx s.types s.parents = [0] := by rw [hts, hps]; rfl
  have hcdofd : (dynInit s q qd).com.cdofd
      = [cdofdLink .free (takeParent (dynInit s q qd).com.cd Motion.zero 0)
          (cdofLink ⟨.free, q.take 7, qd.take 6, s.dofs.take 6⟩ j0 c0)
          (List.zipWith mulr (cdofLink ⟨.free, q.take 7, qd.take 6, s.dofs.take 6⟩ j0 c0)
            [v0, v1, v2, v3, v4, v5])] := by
    show tcCdofd s _ (linkSlices s.types q qd s.dofs) = _
    unfold tcCdofd
    have : tcCdof s ((Kin.forward s q qd).map (·.1)) (linkSlices s.types q qd s.dofs)
        = [cdofLink ⟨.free, q.take 7, qd.take 6, s.dofs.take 6⟩ j0 c0] := hcdof
    rw [this, hcdofQd, hpidx, hsl']; rfl
  have hcdd : stCdd s q qd
      = [cddStep s.gravity none (List.zipWith mulr
          (cdofdLink .free (takeParent (dynInit s q qd).com.cd Motion.zero 0)
            (cdofLink ⟨.free, q.take 7, qd.take 6, s.dofs.take 6⟩ j0 c0)
            (List.zipWith mulr (cdofLink ⟨.free, q.take 7, qd.take 6, s.dofs.take 6⟩ j0 c0)
              [v0, v1, v2, v3, v4, v5])) [v0, v1, v2, v3, v4, v5])] := by
    unfold stCdd invCdd invU
    have hn' : nested s q qd = linkSlices s.types q qd s.dofs := rfl
    rw [hcdofd, hn', hsl', hps]
    simp only [List.map_cons, List.map_nil, List.zipWith_cons_cons, List.zipWith_nil_right, hqd6]
    rfl
  have hvel : velAnc s.parents (dynInit s q qd).com.cdof (qddN s qdd) 0
      = Motion.zero + sumM (List.zipWith mulr (cdofLink ⟨.free, q.take 7, qd.take 6, s.dofs.take 6⟩ j0 c0)
          [n0, n1, n2, n3, n4, n5]) := by
    rw [velAnc_rec h.pwf]
    have hroot : s.parents.getD 0 (-1) < 0 := h.rootOK.root
    simp only [vpar, hroot, if_true]
    congr 1
    have hch : (chunkQd s.types qdd).getD 0 [] = [n0, n1, n2, n3, n4, n5] := by
      rw [hts, hn]; rfl
    have := mrsum_eq_sumM (cdofLink ⟨.free, q.take 7, qd.take 6, s.dofs.take 6⟩ j0 c0)
      [n0, n1, n2, n3, n4, n5] (by rw [hrows]; rfl)
    rw [← this]
    unfold Ulink wAt cAt qddN
    rw [hcdof, hch]
    rfl
  have hoff : comOff s q qd 0 = xi0.pos - c0 := by
    unfold comOff; rw [hxi, hcom]; rfl
  rw [hvel, hcdd, hcd, hoff] at hpa
  simp only [List.getD_cons_zero] at hpa
  rw [hrows, free_body_algebra] at hpa
  unfold bodyAng comArm
  rw [hjf, hxi, hv, hn]
  simp only [List.getD_cons_zero, List.getD_cons_succ, lin3]
  have harm : (c0 - j0.pos) + (xi0.pos - c0) = xi0.pos - j0.pos := by
    simp only [V3.add_def, V3.sub_def]; congr 1 <;> ring
  rw [harm] at hpa
  exact hpa


/-- **Single free body, one step of the pipeline.**  If the body's centre of mass sits at the origin of its
joint frame (`comArm = 0`; e.g. `link.inertia.transform.pos = 0` with cleared link/joint transforms), no
force acts on the translational dofs and the solve is exact, then one `Gd.step` changes the linear velocity
by exactly `dt · gravity` and the position by `dt ·` (the **new** velocity) — for every orientation, every
angular velocity, every inertia tensor. -/
theorem free_body_step (h : MomOK s q qd) (hone : s.types.length = 1)
    (hm : ∀ lk ∈ s.links, lk.inertia.mass ≠ 0) (solve : List (List ℝ) → List ℝ → List ℝ) (act qfc : List ℝ)
    (hqfc : qfc.length = s.nv)
    (htau : lin3 (toTau s.nv s.acts act q qd) = V3.zero) (hqfc0 : lin3 qfc = V3.zero)
    (hlen : (Gd.step solve s (dynInit s q qd) q qd act qfc).1.2.2.length = s.nv)
    (hex : matVec (dampedMatrix (dynInit s q qd).massMx (s.dofs.map (·.damping)) s.dt)
        (Gd.step solve s (dynInit s q qd) q qd act qfc).1.2.2
      = List.zipWith (· + ·) (qfSmooth s (dynInit s q qd) q qd act) qfc)
    (harm : comArm s q qd = V3.zero) :
    lin3 (Gd.step solve s (dynInit s q qd) q qd act qfc).1.2.1 = lin3 qd + V3.smul s.dt s.gravity
    ∧ lin3 (Gd.step solve s (dynInit s q qd) q qd act qfc).1.1
        = lin3 q + V3.smul s.dt (lin3 (Gd.step solve s (dynInit s q qd) q qd act qfc).1.2.1) := by
  have hq := free_body_qdd h hone hm act qfc _ hlen hqfc htau hqfc0 hex
  rw [harm, cross_zero_right', cross_zero_right', cross_zero_right', V3.add_zero', V3.add_zero'] at hq
  obtain ⟨ts, hts, hsl⟩ := h.slices
  have hts0 : ts = [] := by
    rw [hts] at hone
    simpa using hone
  subst hts0
  have hnv : s.nv = 6 := by unfold Sys.nv; rw [hts]; rfl
  have hnq : s.nq = 7 := by unfold Sys.nq; rw [hts]; rfl
  obtain ⟨v0, v1, v2, v3, v4, v5, hv⟩ := C05G.length6 qd (by rw [h.full.hqd, hnv])
  obtain ⟨p0, p1, p2, r0, r1, r2, r3, hp⟩ := C05G.length7 q (by rw [h.full.hq, hnq])
  obtain ⟨n0, n1, n2, n3, n4, n5, hn⟩ := C05G.length6 _ (hlen.trans hnv)
  rw [hn] at hq
  simp only [lin3, List.getD_cons_zero, List.getD_cons_succ, V3.sub_def, V3.zero, V3.mk.injEq] at hq
  obtain ⟨g0, g1, g2⟩ := hq
  have e0 : n0 = s.gravity.x := by linarith
  have e1 : n1 = s.gravity.y := by linarith
  have e2 : n2 = s.gravity.z := by linarith
  have hqd' : (Gd.step solve s (dynInit s q qd) q qd act qfc).1.2.1
      = [v0 + n0 * s.dt, v1 + n1 * s.dt, v2 + n2 * s.dt, v3 + n3 * s.dt, v4 + n4 * s.dt, v5 + n5 * s.dt] := by
    rw [step_qd, hn, hv]; rfl
  have hq' : (Gd.step solve s (dynInit s q qd) q qd act qfc).1.1
      = integrateQFree s.dt [p0, p1, p2, r0, r1, r2, r3]
          [v0 + n0 * s.dt, v1 + n1 * s.dt, v2 + n2 * s.dt, v3 + n3 * s.dt, v4 + n4 * s.dt, v5 + n5 * s.dt] := by
    show ((linkSlices s.types q (Gd.step solve s (dynInit s q qd) q qd act qfc).1.2.1 s.dofs).map
      (integrateQLink s.dt)).flatten = _
    rw [hqd', hts, hp]
    simp [linkSlices, integrateQLink, LinkType.qWidth, LinkType.qdWidth]
  refine ⟨?_, ?_⟩
  · rw [hqd', hv]
    simp only [lin3, List.getD_cons_zero, List.getD_cons_succ, V3.smul, V3.add_def]
    rw [e0, e1, e2]
    congr 1 <;> ring
  · rw [hq', hqd', hp]
    simp only [integrateQFree, lin3, List.getD_cons_zero, List.getD_cons_succ, V3.smul, V3.add_def]
    congr 1 <;> ring

/-- constraint-free trajectory of the model's `Gd.step` with a fixed action: `(q, qd)` after `k` steps -/
noncomputable def traj (solve : List (List ℝ) → List ℝ → List ℝ) (s : Sys ℝ) (act qfc : List ℝ) :
    Nat → List ℝ × List ℝ → List ℝ × List ℝ
  | 0, x => x
  | k + 1, x =>
    ((Gd.step solve s (dynInit s (traj solve s act qfc k x).1 (traj solve s act qfc k x).2)
        (traj solve s act qfc k x).1 (traj solve s act qfc k x).2 act qfc).1.1,
     (Gd.step solve s (dynInit s (traj solve s act qfc k x).1 (traj solve s act qfc k x).2)
        (traj solve s act qfc k x).1 (traj solve s act qfc k x).2 act qfc).1.2.1)

/-- the per-state hypotheses of `free_body_step` -/
structure FreeStepOK (solve : List (List ℝ) → List ℝ → List ℝ) (s : Sys ℝ) (act qfc : List ℝ)
    (q qd : List ℝ) : Prop where
  mom : MomOK s q qd
  tau : lin3 (toTau s.nv s.acts act q qd) = V3.zero
  len : (Gd.step solve s (dynInit s q qd) q qd act qfc).1.2.2.length = s.nv
  exact : matVec (dampedMatrix (dynInit s q qd).massMx (s.dofs.map (·.damping)) s.dt)
        (Gd.step solve s (dynInit s q qd) q qd act qfc).1.2.2
      = List.zipWith (· + ·) (qfSmooth s (dynInit s q qd) q qd act) qfc
  arm : comArm s q qd = V3.zero

/-- **Single free body, every horizon**: linear momentum minus `m·g·t` is conserved exactly:
`v_n = v_0 + n·dt·g` after `n` steps of the pipeline -/
theorem free_body_traj (solve : List (List ℝ) → List ℝ → List ℝ) (s : Sys ℝ) (act qfc : List ℝ)
    (hone : s.types.length = 1) (hm : ∀ lk ∈ s.links, lk.inertia.mass ≠ 0)
    (hqfc : qfc.length = s.nv) (hqfc0 : lin3 qfc = V3.zero) (x : List ℝ × List ℝ) (n : Nat)
    (hok : ∀ k, k < n → FreeStepOK solve s act qfc (traj solve s act qfc k x).1 (traj solve s act qfc k x).2) :
    lin3 (traj solve s act qfc n x).2 = lin3 x.2 + V3.smul ((n : ℝ) * s.dt) s.gravity := by
  induction n with
  | zero =>
    simp only [traj, Nat.cast_zero, zero_mul, V3.smul]
    have hz : (⟨0, 0, 0⟩ : V3 ℝ) = V3.zero := rfl
    rw [hz, V3.add_zero']
  | succ n ih =>
    have hk := hok n (Nat.lt_succ_self n)
    have h1 := (free_body_step hk.mom hone hm solve act qfc hqfc hk.tau hqfc0 hk.len hk.exact hk.arm).1
    show lin3 (Gd.step solve s _ _ _ act qfc).1.2.1 = _
    rw [h1, ih (fun k hkn => hok k (Nat.lt_succ_of_lt hkn))]
    simp only [V3.smul, V3.add_def, Nat.cast_succ]
    congr 1 <;> ring

/-- a sufficient condition for `comArm = 0` in every state: the first link has cleared link and joint
transforms (what `mjcf.load_model` gives a free body, cf. `KinPos.LinkOK.free`) and its inertial frame
sits at the body origin -/
theorem comArm_zero (h : MomOK s q qd) (lk : LinkP ℝ) (rest : List (LinkP ℝ)) (hlinks : s.links = lk :: rest)
    (h1 : lk.tf = Tf.id) (h2 : lk.joint = Tf.id) (h3 : lk.inertia.tf.pos = V3.zero) :
    comArm s q qd = V3.zero := by
  have hx : 0 < ((Kin.forward s q qd).map (·.1)).length := by rw [h.ok.xLen]; exact h.pos
  obtain ⟨x0, xr, hx0⟩ := List.exists_cons_of_length_pos hx
  obtain ⟨hp, hpi, _, _⟩ := parentIdx_get h.ok 0 h.pos
  have h0 : 0 < s.types.length := h.pos
  have hpar := h.ok.par 0 (by rw [h.ok.parents]; exact h0)
  have hf : s.types[0] = .free := h.ok.rootFree 0 (by rw [h.ok.parents]; exact h0) h0 (by omega)
  have hpi0 : (parentIdx s.types s.parents)[0] = 0 := by rw [hpi, hf]; rfl
  obtain ⟨p0, pr, hpidx⟩ := List.exists_cons_of_length_pos hp
  have hp0 : p0 = 0 := by simpa [hpidx] using hpi0
  subst hp0
  have htp : takeParent (x0 :: xr) Tf.id 0 = x0 := by simp [takeParent]
  unfold comArm tcXi jointFrames
  rw [hx0, hlinks, hpidx]
  simp only [List.zipWith_cons_cons, List.zip_cons_cons, List.map_cons, List.getD_cons_zero]
  rw [htp, h1, h2, Tf.doTf_id, Tf.doTf_id]
  simp only [Tf.doTf, h3, rotate_zero, V3.add_zero', V3.sub_self']

end one

end Brax.C12M
