import Brax.Props.C02
import Mathlib.Tactic.Ring
import Mathlib.Tactic.Linarith
import Mathlib.Tactic.NormNum
import Mathlib.Tactic.FieldSimp
/-!
# C04, rest clause, generalized pipeline (gap (d) of notes/C04.md)

`Gd.step` (model of `brax/generalized/pipeline.py::step`, `Model/C02.lean`) at `qd = 0`, without
gravity, joint stiffness, actuator force and constraint force returns `qd' = 0`, `qdd = 0` and
`q' = q` (literally: also the quaternion of a free link, which the integrator multiplies by
`(cos(dt·1e-8/2), 0, 0, 0)` — the `1e-8` guard of `_integrate_q_free` — and renormalises).

The only fact used about the linear solve is `solve M 0 = 0` (`gaussSolve_zero` proves it for the
driver's Gauss–Jordan elimination on a square matrix; it is a property of every linear solve).
-/
set_option linter.unusedSectionVars false
set_option linter.unusedVariables false
namespace Brax.C04G
open Brax Kin Gd

/-! ## lists -/

theorem eq_replicate_of_zero (l : List ℝ) (h : ∀ x ∈ l, x = 0) : l = List.replicate l.length 0 :=
  List.eq_replicate_iff.mpr ⟨rfl, h⟩

theorem map_zipWith_left {β γ δ ε : Type} (f : β → γ → δ) (g : δ → ε) (g' : β → ε)
    (h : ∀ a b, g (f a b) = g' a) :
    ∀ (as : List β) (bs : List γ), as.length ≤ bs.length → (List.zipWith f as bs).map g = as.map g'
  | [], _, _ => by simp
  | a :: as, [], hl => by simp at hl
  | a :: as, b :: bs, hl => by
    simp only [List.zipWith_cons_cons, List.map_cons, h]
    rw [map_zipWith_left f g g' h as bs (by simpa using hl)]

theorem zipWith_add_zero (dt : ℝ) : ∀ (a b : List ℝ), (∀ x ∈ b, x = 0) → a.length ≤ b.length →
    List.zipWith (fun q v => q + v * dt) a b = a
  | [], _, _, _ => by simp
  | a :: as, [], _, hl => by simp at hl
  | a :: as, b :: bs, hb, hl => by
    have hb0 : b = 0 := hb b (by simp)
    simp only [List.zipWith_cons_cons, hb0, zero_mul, add_zero]
    rw [zipWith_add_zero dt as bs (fun x hx => hb x (by simp [hx])) (by simpa using hl)]

theorem length7 {γ : Type} (l : List γ) (h : l.length = 7) :
    ∃ a b c d e f g, l = [a, b, c, d, e, f, g] := by
  match l, h with
  | [a, b, c, d, e, f, g], _ => exact ⟨a, b, c, d, e, f, g, rfl⟩

/-! ## shapes of the per-link slices -/

/-- a slice whose `q`, `qd`, dof rows have the widths of its link type -/
structure Shaped (l : LinkIn ℝ) : Prop where
  q : l.q.length = l.typ.qWidth
  qd : l.qd.length = l.typ.qdWidth
  dofs : l.dofs.length = l.typ.qdWidth

theorem linkSlices_shaped : ∀ (ts : List LinkType) (q qd : List ℝ) (ds : List (DofP ℝ)),
    (ts.map LinkType.qWidth).sum ≤ q.length → (ts.map LinkType.qdWidth).sum ≤ qd.length →
    (ts.map LinkType.qdWidth).sum ≤ ds.length → ∀ l ∈ linkSlices ts q qd ds, Shaped l
  | [], _, _, _, _, _, _, l, h => by simp [linkSlices] at h
  | t :: ts, q, qd, ds, h1, h2, h3, l, h => by
    simp only [List.map_cons, List.sum_cons] at h1 h2 h3
    simp only [linkSlices, List.mem_cons] at h
    rcases h with rfl | h
    · exact ⟨by simp; omega, by simp; omega, by simp; omega⟩
    · exact linkSlices_shaped ts _ _ _ (by simp; omega) (by simp; omega) (by simp; omega) l h

theorem flatten_length_slices (ts : List LinkType) (q qd : List ℝ) (ds : List (DofP ℝ))
    (f : LinkIn ℝ → List ℝ)
    (hf : ∀ l ∈ linkSlices ts q qd ds, (f l).length = l.typ.qdWidth) :
    ((linkSlices ts q qd ds).map f).flatten.length = (ts.map LinkType.qdWidth).sum := by
  rw [List.length_flatten, List.map_map]
  have : (linkSlices ts q qd ds).map (List.length ∘ f)
      = (linkSlices ts q qd ds).map (fun l => l.typ.qdWidth) := by
    apply List.map_congr_left
    intro l hl
    exact hf l hl
  rw [this]
  conv_rhs => rw [← linkSlices_typ ts q qd ds]
  rw [List.map_map]
  rfl

/-! ## passive force -/

theorem passiveLink_zero (l : LinkIn ℝ) (hst : ∀ d ∈ l.dofs, d.stiffness = 0)
    (hqd : ∀ x ∈ l.qd, x = 0) : ∀ x ∈ passiveLink l, x = 0 := by
  intro x hx
  unfold passiveLink at hx
  obtain ⟨f, hf, dq, hdq, rfl⟩ := mem_zipWith _ _ _ _ hx
  have hv : dq.2 = 0 := hqd _ (List.of_mem_zip hdq).2
  have hf0 : f = 0 := by
    cases ht : l.typ with
    | free =>
      rw [ht] at hf
      obtain ⟨_, _, rfl⟩ := List.mem_map.mp hf
      rfl
    | one | two | three =>
      rw [ht] at hf
      obtain ⟨a, _, d, hd, rfl⟩ := mem_zipWith _ _ _ _ hf
      rw [hst d hd, mul_zero]
  rw [hf0, hv, mul_zero, sub_zero]

theorem passiveLink_length (l : LinkIn ℝ) (h : Shaped l) :
    (passiveLink l).length = l.typ.qdWidth := by
  have h1 := h.q
  have h2 := h.qd
  have h3 := h.dofs
  unfold passiveLink
  cases ht : l.typ <;> rw [ht] at h1 h2 h3 <;>
    simp [h1, h2, h3, LinkType.qWidth, LinkType.qdWidth] at h1 h2 h3 ⊢

theorem qWidth_eq_of_ne_free (t : LinkType) (h : t ≠ .free) : t.qWidth = t.qdWidth := by
  cases t <;> first | exact absurd rfl h | rfl

/-! ## actuators -/

/-- the joint force one actuator adds (`actuator.to_tau`, after the gear) -/
noncomputable def actForce (a : ActP ℝ) (u : ℝ) (q qd : List ℝ) : ℝ :=
  clipO (a.gain * clipO u a.ctrlLo a.ctrlHi
      + a.gear * (gather q a.qId * a.biasQ + gather qd a.qdId * a.biasQd)) a.forceLo a.forceHi * a.gear

theorem addAt_zero : ∀ (l : List ℝ) (i : Nat), addAt l i 0 = l
  | [], _ => rfl
  | x :: xs, 0 => by simp [addAt]
  | x :: xs, i + 1 => by simp [addAt, addAt_zero xs i]

/-- **no actuator force**: when every actuator's force vanishes, `to_tau` is the zero vector -/
theorem toTau_zero (nv : Nat) (acts : List (ActP ℝ)) (u q qd : List ℝ)
    (h : ∀ au ∈ acts.zip u, actForce au.1 au.2 q qd = 0) :
    toTau nv acts u q qd = List.replicate nv 0 := by
  unfold toTau
  generalize acts.zip u = L at h ⊢
  generalize List.replicate nv (0 : ℝ) = tau
  induction L generalizing tau with
  | nil => rfl
  | cons au rest ih =>
    simp only [List.foldl_cons]
    have h0 := h au (by simp)
    unfold actForce at h0
    rw [h0, addAt_zero]
    exact ih (fun au' hau' => h au' (by simp [hau'])) tau

/-- a system without actuators -/
theorem toTau_nil (nv : Nat) (u q qd : List ℝ) : toTau nv [] u q qd = List.replicate nv 0 :=
  toTau_zero nv [] u q qd (by simp)

theorem clipO_zero (lo hi : Option ℝ) (hlo : ∀ l, lo = some l → l ≤ 0) (hhi : ∀ h, hi = some h → 0 ≤ h) :
    clipO (0 : ℝ) lo hi = 0 := by
  unfold clipO
  cases lo with
  | none =>
    cases hi with
    | none => rfl
    | some h => simp only; rw [if_neg (not_lt.mpr (hhi h rfl))]
  | some l =>
    have hl := hlo l rfl
    simp only [if_neg (not_lt.mpr hl)]
    cases hi with
    | none => rfl
    | some h => simp only; rw [if_neg (not_lt.mpr (hhi h rfl))]

/-- zero control inside the control range, no position/velocity bias (a pure motor), force range
containing 0: the actuator force vanishes -/
theorem actForce_zero_ctrl (a : ActP ℝ) (q qd : List ℝ) (hbq : a.biasQ = 0) (hbqd : a.biasQd = 0)
    (hcl : ∀ l, a.ctrlLo = some l → l ≤ 0) (hch : ∀ h, a.ctrlHi = some h → 0 ≤ h)
    (hfl : ∀ l, a.forceLo = some l → l ≤ 0) (hfh : ∀ h, a.forceHi = some h → 0 ≤ h) :
    actForce a 0 q qd = 0 := by
  unfold actForce
  rw [clipO_zero _ _ hcl hch, hbq, hbqd]
  simp only [mul_zero, add_zero]
  rw [clipO_zero _ _ hfl hfh, zero_mul]

/-! ## the free-link quaternion at zero angular velocity -/

/-- what `_integrate_q_free` really returns at zero velocity: the position is unchanged; the unit
quaternion `r` is multiplied by `(cos(dt·1e-8/2), 0, 0, 0)` (the `+ 1e-8` guard makes the rotation
angle `dt·1e-8` about the zero axis) and renormalised — which gives back `r` exactly as soon as that
cosine is positive (`|dt| ≤ 1` is far more than enough). -/
theorem integrateQFree_rest (dt : ℝ) (hdt : |dt| ≤ 1) (p0 p1 p2 r0 r1 r2 r3 : ℝ)
    (hr : Q4.normSq (⟨r0, r1, r2, r3⟩ : Q4 ℝ) = 1) :
    integrateQFree dt [p0, p1, p2, r0, r1, r2, r3] [0, 0, 0, 0, 0, 0]
      = [p0, p1, p2, r0, r1, r2, r3] := by
  have hA : HasSqrt.sqrt ((0 : ℝ) * 0 + 0 * 0 + 0 * 0) + (1e-8 : ℝ) = 1e-8 := by
    show Real.sqrt _ + _ = _
    have : (0 : ℝ) * 0 + 0 * 0 + 0 * 0 = 0 := by ring
    rw [this, Real.sqrt_zero, zero_add]
  set c := Real.cos (dt * (1e-8 : ℝ) / (1 + 1)) with hc
  have hcpos : 0 < c := by
    apply Real.cos_pos_of_mem_Ioo
    have hpi := Real.two_le_pi
    have habs := abs_le.mp hdt
    constructor <;> nlinarith [habs.1, habs.2]
  simp only [Q4.normSq] at hr
  have hn : HasSqrt.sqrt ((r0 * c) * (r0 * c) + (r1 * c) * (r1 * c) + (r2 * c) * (r2 * c)
      + (r3 * c) * (r3 * c)) = c := by
    show Real.sqrt _ = c
    have : (r0 * c) * (r0 * c) + (r1 * c) * (r1 * c) + (r2 * c) * (r2 * c) + (r3 * c) * (r3 * c)
        = c * c := by linear_combination (c * c) * hr
    rw [this, Real.sqrt_mul_self (le_of_lt hcpos)]
  have hrot : quatMul (⟨r0, r1, r2, r3⟩ : Q4 ℝ)
      (quatRotAxis (⟨0 / (1e-8 : ℝ), 0 / (1e-8 : ℝ), 0 / (1e-8 : ℝ)⟩ : V3 ℝ) (dt * (1e-8 : ℝ)))
      = ⟨r0 * c, r1 * c, r2 * c, r3 * c⟩ := by
    simp only [quatMul, quatRotAxis, zero_div, zero_mul, mul_zero, sub_zero, add_zero, zero_add]
    rfl
  unfold integrateQFree
  simp only
  rw [hA, hrot]
  simp only
  rw [hn]
  have hc0 : c ≠ 0 := ne_of_gt hcpos
  simp only [zero_mul, add_zero, mul_div_assoc, div_self hc0, mul_one]

/-! ## shapes of the bias force and of `qf_smooth` -/

theorem cdofLocal_length (l : LinkIn ℝ) (h : Shaped l) : (cdofLocal l).length = l.typ.qdWidth := by
  have h1 := h.q
  have h3 := h.dofs
  unfold cdofLocal
  cases ht : l.typ <;> rw [ht] at h1 h3 <;>
    simp [cdofStack_length, h1, h3, LinkType.qWidth, LinkType.qdWidth] at h1 h3 ⊢

theorem sum_widths (ts : List LinkType) (q qd : List ℝ) (ds : List (DofP ℝ)) (w : LinkIn ℝ → Nat)
    (hw : ∀ l ∈ linkSlices ts q qd ds, w l = l.typ.qdWidth) :
    ((linkSlices ts q qd ds).map w).sum = (ts.map LinkType.qdWidth).sum := by
  have : (linkSlices ts q qd ds).map w = (linkSlices ts q qd ds).map (fun l => l.typ.qdWidth) :=
    List.map_congr_left hw
  rw [this]
  conv_rhs => rw [← linkSlices_typ ts q qd ds]
  rw [List.map_map]
  rfl

/-- the rows of `dynamics.inverse` have the lengths of the `cdof` rows -/
theorem inverse_rows (ps : List Int) (g : V3 ℝ) (st : ComState ℝ) (qdn : List (List ℝ)) (n : Nat)
    (hps : ps.length = n) (h1 : st.cinr.length = n) (h2 : st.cdof.length = n) (h3 : st.cd.length = n)
    (h4 : st.cdofd.length = n) (h5 : qdn.length = n) :
    (inverse ps g st qdn).map List.length = st.cdof.map List.length := by
  unfold inverse
  simp only
  refine map_zipWith_left (fun cs (f : Force ℝ) => cs.map fun c => Motion.dotF c f) List.length
    List.length (fun cs f => List.length_map _) _ _ ?_
  rw [revAcc_length]
  simp [scanFwd_length, hps, h1, h2, h3, h4, h5]

theorem transformCom_lengths' (s : Sys ℝ) (x : List (Tf ℝ)) (q qd : List ℝ)
    (hx : x.length = s.types.length) (hps : s.parents.length = s.types.length)
    (hlk : s.links.length = s.types.length) :
    (transformCom s x q qd).cd.length = s.types.length
      ∧ (transformCom s x q qd).cdofd.length = s.types.length := by
  unfold transformCom
  simp only
  constructor
  · simp [scanFwd_length, rootCom_length, linkSlices_length, jointFrames_length s x hps hlk, hps]
  · simp [rootCom_length, linkSlices_length, jointFrames_length s x hps hlk, hps,
      parentIdx_length _ _ hps]

theorem transformCom_cdof_rows (s : Sys ℝ) (x : List (Tf ℝ)) (q qd : List ℝ)
    (hx : x.length = s.types.length) (hps : s.parents.length = s.types.length)
    (hlk : s.links.length = s.types.length) :
    (transformCom s x q qd).cdof.map List.length
      = (linkSlices s.types q qd s.dofs).map (fun l => (cdofLocal l).length) := by
  unfold transformCom
  simp only
  apply map_zipWith_left _ _ _ (fun l jc => by simp [cdofLink])
  simp [rootCom_length, linkSlices_length, jointFrames_length s x hps hlk, hps]

theorem biasFlat_length (s : Sys ℝ) (q qd : List ℝ) (hps : s.parents.length = s.types.length)
    (hlk : s.links.length = s.types.length)
    (hshape : ∀ l ∈ linkSlices s.types q qd s.dofs, Shaped l) :
    (biasFlat s (dynInit s q qd) q qd).length = s.nv := by
  have hx : ((Kin.forward s q qd).map (·.1)).length = s.types.length := by
    rw [List.length_map]; exact forward_length s q qd hps hlk
  obtain ⟨h1, h2⟩ := transformCom_lengths s _ q qd hx hps hlk
  obtain ⟨h3, h4⟩ := transformCom_lengths' s _ q qd hx hps hlk
  unfold biasFlat
  rw [List.length_flatten]
  have hcom : (dynInit s q qd).com = transformCom s ((Kin.forward s q qd).map (·.1)) q qd := rfl
  rw [hcom, inverse_rows s.parents s.gravity _ _ s.types.length hps h1 h2 h3 h4
    (by unfold nested; rw [List.length_map, linkSlices_length]),
    transformCom_cdof_rows s _ q qd hx hps hlk]
  exact sum_widths _ _ _ _ _ (fun l hl => cdofLocal_length l (hshape l hl))

theorem passiveFlat_length (s : Sys ℝ) (q qd : List ℝ)
    (hshape : ∀ l ∈ linkSlices s.types q qd s.dofs, Shaped l) :
    (passiveFlat s q qd).length = s.nv := by
  unfold passiveFlat nested
  exact flatten_length_slices _ _ _ _ _ (fun l hl => passiveLink_length l (hshape l hl))

theorem toTau_length (nv : Nat) (acts : List (ActP ℝ)) (u q qd : List ℝ) :
    (toTau nv acts u q qd).length = nv := by
  unfold toTau
  exact (foldl_addAt_length (acts.zip u) (fun au => au.1.qdId) _ _).trans (List.length_replicate ..)

/-! ## the step -/

/-- hypotheses on the system and the configuration: consistent shapes (what `Sys.WF` and
`q.shape == (q_size,)` give), unit quaternion in every free link's slice of `q` -/
structure RestOK (s : Sys ℝ) (q : List ℝ) : Prop where
  parents : s.parents.length = s.types.length
  links : s.links.length = s.types.length
  dofs : s.dofs.length = s.nv
  qlen : q.length = s.nq
  unitFree : ∀ l ∈ linkSlices s.types q (List.replicate s.nv (0 : ℝ)) s.dofs, l.typ = .free →
    Q4.normSq (⟨l.q.getD 3 0, l.q.getD 4 0, l.q.getD 5 0, l.q.getD 6 0⟩ : Q4 ℝ) = 1

theorem slices_shaped (s : Sys ℝ) (q : List ℝ) (h : RestOK s q) :
    ∀ l ∈ linkSlices s.types q (List.replicate s.nv (0 : ℝ)) s.dofs, Shaped l :=
  linkSlices_shaped _ _ _ _ (by rw [h.qlen]; exact le_refl _) (by rw [List.length_replicate]; exact le_refl _)
    (by rw [h.dofs]; exact le_refl _)

/-- `qf_smooth` vanishes at rest without gravity, stiffness and actuator force -/
theorem qfSmooth_rest (s : Sys ℝ) (q act : List ℝ) (h : RestOK s q)
    (hg : s.gravity = V3.zero) (hstiff : ∀ d ∈ s.dofs, d.stiffness = 0)
    (htau : toTau s.nv s.acts act q (List.replicate s.nv 0) = List.replicate s.nv 0) :
    qfSmooth s (dynInit s q (List.replicate s.nv 0)) q (List.replicate s.nv 0) act
      = List.replicate s.nv 0 := by
  have hshape := slices_shaped s q h
  have hb := C02.rne_zero s q hg
  have hbl := biasFlat_length s q (List.replicate s.nv 0) h.parents h.links hshape
  have hp : ∀ x ∈ passiveFlat s q (List.replicate s.nv 0), x = 0 := by
    intro x hx
    unfold passiveFlat nested at hx
    obtain ⟨row, hrow, hxr⟩ := List.mem_flatten.mp hx
    obtain ⟨l, hl, rfl⟩ := List.mem_map.mp hrow
    refine passiveLink_zero l (fun d hd => hstiff d (linkSlices_dofs_mem _ _ _ _ l hl d hd)) ?_ x hxr
    intro y hy
    exact List.eq_of_mem_replicate (linkSlices_qd_mem _ _ _ _ l hl y hy)
  have hpl := passiveFlat_length s q (List.replicate s.nv 0) hshape
  unfold qfSmooth Gd.forward
  rw [htau, eq_replicate_of_zero _ hb, eq_replicate_of_zero _ hp, hbl, hpl]
  simp

/-- every link's `q` slice is returned unchanged by `q_fn` at zero velocity -/
theorem integrateQLink_rest (dt : ℝ) (hdt : |dt| ≤ 1) (l : LinkIn ℝ) (hs : Shaped l)
    (hqd : ∀ x ∈ l.qd, x = 0)
    (hunit : l.typ = .free →
      Q4.normSq (⟨l.q.getD 3 0, l.q.getD 4 0, l.q.getD 5 0, l.q.getD 6 0⟩ : Q4 ℝ) = 1) :
    integrateQLink dt l = l.q := by
  unfold integrateQLink
  cases ht : l.typ with
  | free =>
    simp only
    have hq7 : l.q.length = 7 := by rw [hs.q, ht]; rfl
    have hqd6 : l.qd.length = 6 := by rw [hs.qd, ht]; rfl
    obtain ⟨p0, p1, p2, r0, r1, r2, r3, hq⟩ := length7 l.q hq7
    have hz : l.qd = List.replicate 6 0 := by
      rw [eq_replicate_of_zero _ hqd, hqd6]
    have hu := hunit ht
    rw [hq] at hu ⊢
    rw [hz]
    exact integrateQFree_rest dt hdt p0 p1 p2 r0 r1 r2 r3 (by simpa using hu)
  | one | two | three =>
    simp only
    apply zipWith_add_zero dt _ _ hqd
    rw [hs.q, hs.qd, ht]
    exact le_refl _

/-- **Newton's first law, generalized pipeline** (lemma form; restated in `Props/C04.lean`). -/
theorem step_rest (solve : List (List ℝ) → List ℝ → List ℝ) (s : Sys ℝ) (q act : List ℝ)
    (h : RestOK s q) (hg : s.gravity = V3.zero) (hstiff : ∀ d ∈ s.dofs, d.stiffness = 0)
    (htau : toTau s.nv s.acts act q (List.replicate s.nv 0) = List.replicate s.nv 0)
    (hsolve : solve (dampedMatrix (dynInit s q (List.replicate s.nv 0)).massMx
        (s.dofs.map (·.damping)) s.dt) (List.replicate s.nv 0) = List.replicate s.nv 0)
    (hdt : |s.dt| ≤ 1) :
    Gd.step solve s (dynInit s q (List.replicate s.nv 0)) q (List.replicate s.nv 0) act
        (List.replicate s.nv 0)
      = ((q, List.replicate s.nv 0, List.replicate s.nv 0), dynInit s q (List.replicate s.nv 0)) := by
  have hshape := slices_shaped s q h
  have hf := qfSmooth_rest s q act h hg hstiff htau
  have hint : integrate solve s (dynInit s q (List.replicate s.nv 0)).massMx q (List.replicate s.nv 0)
      (List.replicate s.nv 0) (List.replicate s.nv 0)
      = (q, List.replicate s.nv 0, List.replicate s.nv 0) := by
    unfold integrate
    have hsum : List.zipWith (· + ·) (List.replicate s.nv (0 : ℝ)) (List.replicate s.nv 0)
        = List.replicate s.nv 0 := by simp
    simp only
    rw [hsum, hsolve]
    have hqd' : List.zipWith (fun v a => v + a * s.dt) (List.replicate s.nv (0 : ℝ))
        (List.replicate s.nv 0) = List.replicate s.nv 0 := by simp
    rw [hqd']
    have hq' : ((linkSlices s.types q (List.replicate s.nv (0 : ℝ)) s.dofs).map (integrateQLink s.dt))
        = (linkSlices s.types q (List.replicate s.nv (0 : ℝ)) s.dofs).map (·.q) := by
      apply List.map_congr_left
      intro l hl
      exact integrateQLink_rest s.dt hdt l (hshape l hl)
        (fun y hy => List.eq_of_mem_replicate (linkSlices_qd_mem _ _ _ _ l hl y hy))
        (h.unitFree l hl)
    rw [hq', linkSlices_q_flatten]
    have : List.take (s.types.map LinkType.qWidth).sum q = q := by
      apply List.take_of_length_le
      rw [h.qlen]; exact le_refl _
    rw [this]
  unfold Gd.step
  simp only
  rw [hf, hint]

/-! ## `solve M 0 = 0` for the driver's Gauss–Jordan elimination -/

/-- an augmented row of width `n + 1` whose right-hand-side entry is 0 -/
def ZR (n : Nat) (r : List ℝ) : Prop := r.length = n + 1 ∧ r.getD n 0 = 0

theorem ZR_getElem {n : Nat} {r : List ℝ} (h : ZR n r) : r[n]? = some 0 := by
  obtain ⟨hl, h0⟩ := h
  rw [List.getD_eq_getElem?_getD, List.getElem?_eq_getElem (by omega)] at h0
  rw [List.getElem?_eq_getElem (by omega)]
  simpa using h0

theorem ZR_of_getElem {n : Nat} {r : List ℝ} (hl : r.length = n + 1) (h : r[n]? = some 0) : ZR n r :=
  ⟨hl, by rw [List.getD_eq_getElem?_getD, h]; rfl⟩

theorem ZR_div {n : Nat} {p : List ℝ} (h : ZR n p) (pk : ℝ) : ZR n (p.map (· / pk)) := by
  apply ZR_of_getElem (by rw [List.length_map]; exact h.1)
  rw [List.getElem?_map, ZR_getElem h]
  simp

theorem ZR_rowSub {n : Nat} {r pn : List ℝ} (hr : ZR n r) (hp : ZR n pn) (c : ℝ) :
    ZR n (rowSub r pn c) := by
  unfold rowSub
  apply ZR_of_getElem (by rw [List.length_zipWith, hr.1, hp.1]; simp)
  rw [List.getElem?_zipWith, ZR_getElem hr, ZR_getElem hp]
  simp

theorem pick_spec (k : Nat) (P : List ℝ → Prop) : ∀ (rs : List (List ℝ)) (best : List ℝ × List (List ℝ)),
    P best.1 → (∀ r ∈ best.2, P r) → (∀ r ∈ rs, P r) →
    let pick := rs.foldl (fun (best : List ℝ × List (List ℝ)) r =>
        if absv (best.1.getD k 0) < absv (r.getD k 0) then (r, best.1 :: best.2) else (best.1, r :: best.2))
        best
    P pick.1 ∧ (∀ r ∈ pick.2, P r) ∧ pick.2.length = best.2.length + rs.length
  | [], best, h1, h2, _ => ⟨h1, h2, rfl⟩
  | r :: rs, best, h1, h2, h3 => by
    simp only [List.foldl_cons]
    have hr := h3 r (by simp)
    have hrs : ∀ r' ∈ rs, P r' := fun r' hr' => h3 r' (by simp [hr'])
    split
    · have := pick_spec k P rs (r, best.1 :: best.2) hr
        (by intro x hx; rcases List.mem_cons.mp hx with rfl | hx; exact h1; exact h2 x hx) hrs
      refine ⟨this.1, this.2.1, ?_⟩
      rw [this.2.2]; simp; omega
    · have := pick_spec k P rs (best.1, r :: best.2) h1
        (by intro x hx; rcases List.mem_cons.mp hx with rfl | hx; exact hr; exact h2 x hx) hrs
      refine ⟨this.1, this.2.1, ?_⟩
      rw [this.2.2]; simp; omega

theorem gaussLoop_ZR (n : Nat) : ∀ (fuel k : Nat) (done rest : List (List ℝ)),
    (∀ r ∈ done, ZR n r) → (∀ r ∈ rest, ZR n r) → rest.length ≤ fuel →
    (∀ r ∈ gaussLoop fuel k done rest, ZR n r)
      ∧ (gaussLoop fuel k done rest).length = done.length + rest.length
  | 0, k, done, rest, hd, _, hf => by
    have : rest = [] := List.eq_nil_of_length_eq_zero (by omega)
    subst this
    exact ⟨by simpa [gaussLoop] using hd, by simp [gaussLoop]⟩
  | fuel + 1, k, done, [], hd, _, _ => ⟨by simpa [gaussLoop] using hd, by simp [gaussLoop]⟩
  | fuel + 1, k, done, r0 :: rs, hd, hr, hf => by
    obtain ⟨hp1, hp2, hp3⟩ := pick_spec k (ZR n) rs (r0, []) (hr r0 (by simp)) (by simp)
      (fun r h => hr r (by simp [h]))
    simp only [gaussLoop]
    set pick := rs.foldl (fun (best : List ℝ × List (List ℝ)) r =>
        if absv (best.1.getD k 0) < absv (r.getD k 0) then (r, best.1 :: best.2) else (best.1, r :: best.2))
        (r0, []) with hpick
    have hpn : ZR n (pick.1.map (· / pick.1.getD k 0)) := ZR_div hp1 _
    have := gaussLoop_ZR n fuel (k + 1)
      (done.map (fun r => rowSub r (pick.1.map (· / pick.1.getD k 0)) (r.getD k 0))
        ++ [pick.1.map (· / pick.1.getD k 0)])
      (pick.2.map (fun r => rowSub r (pick.1.map (· / pick.1.getD k 0)) (r.getD k 0)))
      (by
        intro r hr'
        rcases List.mem_append.mp hr' with hr' | hr'
        · obtain ⟨r', hr'', rfl⟩ := List.mem_map.mp hr'
          exact ZR_rowSub (hd r' hr'') hpn _
        · rw [List.mem_singleton] at hr'; subst hr'; exact hpn)
      (by
        intro r hr'
        obtain ⟨r', hr'', rfl⟩ := List.mem_map.mp hr'
        exact ZR_rowSub (hp2 r' hr'') hpn _)
      (by rw [List.length_map, hp3]; simp at hf ⊢; omega)
    refine ⟨this.1, ?_⟩
    rw [this.2]
    simp [hp3]
    omega

/-- **`gaussSolve M 0 = 0`** for a square matrix (any entries — also a singular one: in a field
`0 / 0 = 0`, and the right-hand-side column stays 0 through every elimination step) -/
theorem gaussSolve_zero (m : List (List ℝ)) (hsq : ∀ r ∈ m, r.length = m.length) :
    gaussSolve m (List.replicate m.length 0) = List.replicate m.length 0 := by
  unfold gaussSolve
  simp only
  have haug : ∀ r ∈ List.zipWith (fun row (bi : ℝ) => row ++ [bi]) m (List.replicate m.length 0),
      ZR m.length r := by
    intro r hr
    obtain ⟨row, hrow, b, hb, rfl⟩ := mem_zipWith _ _ _ _ hr
    have hb0 : b = 0 := List.eq_of_mem_replicate hb
    have hl := hsq row hrow
    refine ⟨by simp [hl], ?_⟩
    rw [List.getD_eq_getElem?_getD, List.getElem?_append_right (by omega), hb0]
    simp [hl]
  obtain ⟨h1, h2⟩ := gaussLoop_ZR m.length m.length 0 [] _ (by simp) haug (by simp)
  apply List.eq_replicate_iff.mpr
  constructor
  · rw [List.length_map, h2]; simp
  · intro x hx
    obtain ⟨r, hr, rfl⟩ := List.mem_map.mp hx
    exact (h1 r hr).2

/-! ## the matrix the pipeline solves with is square of size `nv` -/

theorem map_getD_range {β : Type} (xs : List β) (d : β) :
    (List.range xs.length).map (fun l => xs.getD l d) = xs := by
  apply List.ext_getElem
  · simp
  · intro i h1 h2
    simp only [List.getElem_map, List.getElem_range]
    rw [List.getD_eq_getElem?_getD, List.getElem?_eq_getElem h2]
    rfl

theorem massMatrix_square (ps : List Int) (cinr : List (Inertia ℝ)) (cdof : List (List (Motion ℝ)))
    (arm : List (List ℝ)) :
    (massMatrix ps cinr cdof arm).length = (cdof.map List.length).sum
      ∧ ∀ r ∈ massMatrix ps cinr cdof arm, r.length = (cdof.map List.length).sum := by
  have hidx : ((List.range cdof.length).flatMap fun l =>
      (List.range (cdof.getD l []).length).map fun r => (l, r)).length = (cdof.map List.length).sum := by
    rw [List.length_flatMap]
    simp only [List.length_map, List.length_range]
    have := map_getD_range cdof []
    conv_rhs => rw [← this]
    rw [List.map_map]
    rfl
  unfold massMatrix
  simp only
  constructor
  · rw [List.length_map, hidx]
  · intro r hr
    obtain ⟨_, _, rfl⟩ := List.mem_map.mp hr
    rw [List.length_map, hidx]

theorem dampedMatrix_square (m : List (List ℝ)) (d : List ℝ) (dt : ℝ) (n : Nat)
    (h1 : m.length = n) (h2 : ∀ r ∈ m, r.length = n) :
    (dampedMatrix m d dt).length = n ∧ ∀ r ∈ dampedMatrix m d dt, r.length = n := by
  unfold dampedMatrix
  constructor
  · simp [h1]
  · intro r hr
    obtain ⟨ri, hri, rfl⟩ := List.mem_map.mp hr
    simp only [List.length_map, List.length_zip, List.length_range, min_self]
    exact h2 _ (List.of_mem_zip hri).1

/-- the hypothesis `hsolve` of `step_rest` holds for the driver's exact solve `gaussSolve` -/
theorem gaussSolve_rest (s : Sys ℝ) (q : List ℝ) (h : RestOK s q) :
    gaussSolve (dampedMatrix (dynInit s q (List.replicate s.nv 0)).massMx (s.dofs.map (·.damping)) s.dt)
      (List.replicate s.nv 0) = List.replicate s.nv 0 := by
  have hshape := slices_shaped s q h
  have hx : ((Kin.forward s q (List.replicate s.nv 0)).map (·.1)).length = s.types.length := by
    rw [List.length_map]; exact forward_length s q _ h.parents h.links
  have hsum : ((dynInit s q (List.replicate s.nv 0)).com.cdof.map List.length).sum = s.nv := by
    have hcom : (dynInit s q (List.replicate s.nv 0)).com
        = transformCom s ((Kin.forward s q (List.replicate s.nv 0)).map (·.1)) q (List.replicate s.nv 0) := rfl
    rw [hcom, transformCom_cdof_rows s _ q _ hx h.parents h.links]
    exact sum_widths _ _ _ _ _ (fun l hl => cdofLocal_length l (hshape l hl))
  have hM : (dynInit s q (List.replicate s.nv 0)).massMx
      = massMatrix s.parents (dynInit s q (List.replicate s.nv 0)).com.cinr
          (dynInit s q (List.replicate s.nv 0)).com.cdof
          ((nested s q (List.replicate s.nv 0)).map fun l => l.dofs.map (·.armature)) := rfl
  obtain ⟨m1, m2⟩ := massMatrix_square s.parents (dynInit s q (List.replicate s.nv 0)).com.cinr
    (dynInit s q (List.replicate s.nv 0)).com.cdof
    ((nested s q (List.replicate s.nv 0)).map fun l => l.dofs.map (·.armature))
  rw [← hM, hsum] at m1 m2
  obtain ⟨d1, d2⟩ := dampedMatrix_square _ (s.dofs.map (·.damping)) s.dt s.nv m1 m2
  have := gaussSolve_zero _ (by rw [d1]; exact d2)
  rw [d1] at this
  exact this

end Brax.C04G
