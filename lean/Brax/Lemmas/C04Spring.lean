import Brax.Lemmas.C04
import Brax.Lemmas.Scan
/-!
# C04 helper lemmas, part 2: the assembly of joint forces and of contact impulses

* `assemble_total_force` — the total linear force produced by `Spring.assemble` (tail of
  `joints.resolve` / `acceleration_update`) for an arbitrary joint-frame force;
* `spread_two_body` — the shared tail of the collision resolvers conserves the total impulse when
  all contacts are between the same two links;
* component sums, `momentum`, and the algebra of one semi-implicit Euler velocity update.
-/
set_option linter.unusedSectionVars false
set_option linter.unusedSimpArgs false
set_option linter.unusedVariables false
namespace Brax.C04L
open Brax MC

/-! ## sums over tabulated lists -/
section sums
variable {K : Type} [CommRing K]

theorem sum_x {ι : Type} (s : Finset ι) (f : ι → V3 K) : (∑ i ∈ s, f i).x = ∑ i ∈ s, (f i).x := by
  classical
  induction s using Finset.induction_on with
  | empty => simp
  | insert a s ha ih => rw [Finset.sum_insert ha, Finset.sum_insert ha, ← ih]; rfl
theorem sum_y {ι : Type} (s : Finset ι) (f : ι → V3 K) : (∑ i ∈ s, f i).y = ∑ i ∈ s, (f i).y := by
  classical
  induction s using Finset.induction_on with
  | empty => simp
  | insert a s ha ih => rw [Finset.sum_insert ha, Finset.sum_insert ha, ← ih]; rfl
theorem sum_z {ι : Type} (s : Finset ι) (f : ι → V3 K) : (∑ i ∈ s, f i).z = ∑ i ∈ s, (f i).z := by
  classical
  induction s using Finset.induction_on with
  | empty => simp
  | insert a s ha ih => rw [Finset.sum_insert ha, Finset.sum_insert ha, ← ih]; rfl

/-- sum over the rows of a tabulated list that pass a filter -/
theorem sum_filter_tab {β M : Type} [AddCommMonoid M] (n : Nat) (g : Nat → β) (P : β → Bool)
    (h : β → M) :
    (((tab n g).filter P).map h).sum = ∑ i ∈ Finset.range n, if P (g i) then h (g i) else 0 := by
  induction n with
  | zero => simp [tab]
  | succ n ih =>
    rw [tab_succ, List.filter_append, List.map_append, List.sum_append, ih, Finset.sum_range_succ]
    by_cases hp : P (g n) = true
    · simp [hp]
    · simp [hp]

/-- `Σ_k segment_sum_k` in `segAt` form -/
theorem sum_segAt {M : Type} [AddCommMonoid M] (l : List (M × Int)) (n : Nat) :
    (∑ k ∈ Finset.range n, segAt l k)
      = ((l.filter fun p => decide (0 ≤ p.2 ∧ p.2 < (n : Int))).map (·.1)).sum := by
  induction l with
  | nil => simp [segAt_nil]
  | cons p l ih =>
    simp only [segAt_cons, Finset.sum_add_distrib, ih, sum_ite_id, List.filter_cons]
    by_cases h : 0 ≤ p.2 ∧ p.2 < (n : Int)
    · simp [h]
    · simp [h]

end sums

/-! ## `Spring.assemble` -/
section assemble
variable {K : Type} [CommRing K]

theorem doForce_tfPos_vel (p : V3 K) (f : Force K) : (Tf.doForce (tfPos p) f).vel = f.vel := by
  simp only [Tf.doForce, tfPos, rotate_one]

theorem worldForce_vel (a : Tf K) (f : Force K) : (Spring.worldForce a f).vel = rotate f.vel a.rot := by
  simp only [Spring.worldForce, Tf.doForce, tfRot]

/-- parent index of link `i` as the model reads it -/
def parentOf (parents : List Int) (i : Nat) : Int := parents.getD i (-1)

/-- `0 ≤ parent < n` -/
def inRange (n : Nat) (p : Int) : Prop := 0 ≤ p ∧ p < (n : Int)
instance (n : Nat) (p : Int) : Decidable (inRange n p) := by unfold inRange; infer_instance

/-- **Total force of the assembly, for any joint-frame force.**  Summing `xf_i.vel` over all links
leaves exactly the world-oriented child forces of the links whose parent index is *not* a link
(the rows `segment_sum` drops): every force applied to a child is applied, negated, to its parent. -/
theorem assemble_total_force (parents : List Int) (a_p a_c x_i : List (Tf K)) (jf : List (Force K)) :
    ((Spring.assemble parents a_p a_c x_i jf).map (·.vel)).sum
      = ∑ i ∈ Finset.range parents.length,
          if inRange parents.length (parentOf parents i) then 0
          else rotate (nth jf i).vel (nth a_p i).rot := by
  unfold Spring.assemble
  simp only []
  set n := parents.length with hn
  rw [tab_map, sum_tab]
  -- the parent side, summed
  have hseg : ∀ i, i < n →
      (nth (segmentSum (tab n fun i => Tf.doForce
          (tfPos ((nth a_p i).pos - (takeWrap x_i (parents.getD i (-1))).pos))
          (Spring.worldForce (nth a_p i) (nth jf i))) parents n) i).vel
        = segAt (tab n fun i => (rotate (nth jf i).vel (nth a_p i).rot, parentOf parents i)) i := by
    intro i hi
    rw [nth_segmentSum_eq _ _ hi, segAt_force_vel, zip_tab n _ hn.symm, tab_map]
    congr 1
    apply tab_congr
    intro k hk
    simp only [doForce_tfPos_vel, worldForce_vel, parentOf, nth]
    congr 1
    rw [List.getD_eq_getElem?_getD, List.getD_eq_getElem?_getD, List.getElem?_eq_getElem (by omega)]
    rfl
  have hsum : (∑ i ∈ Finset.range n, (Tf.doForce (tfPos ((nth a_c i).pos - (nth x_i i).pos))
        (Spring.worldForce (nth a_p i) (nth jf i))
      - nth (segmentSum (tab n fun i => Tf.doForce
          (tfPos ((nth a_p i).pos - (takeWrap x_i (parents.getD i (-1))).pos))
          (Spring.worldForce (nth a_p i) (nth jf i))) parents n) i).vel)
      = ∑ i ∈ Finset.range n, (rotate (nth jf i).vel (nth a_p i).rot
          - segAt (tab n fun i => (rotate (nth jf i).vel (nth a_p i).rot, parentOf parents i)) i) := by
    apply Finset.sum_congr rfl
    intro i hi
    rw [Force.sub_def]
    simp only [doForce_tfPos_vel, worldForce_vel, hseg i (Finset.mem_range.mp hi)]
  rw [hsum, Finset.sum_sub_distrib, sum_segAt, sum_filter_tab, ← Finset.sum_sub_distrib]
  apply Finset.sum_congr rfl
  intro i _
  by_cases h : inRange n (parentOf parents i)
  · have h' : (0 ≤ parentOf parents i ∧ parentOf parents i < (n : Int)) := h
    simp [h, h']
  · have h' : ¬ (0 ≤ parentOf parents i ∧ parentOf parents i < (n : Int)) := h
    simp [h, h']

/-- the joint-frame force of a free link is zero (`_free`) -/
theorem jointForces_free {α : Type} [Zero α] [One α] [Add α] [Sub α] [Mul α] [Neg α] [Div α]
    [LT α] [DecidableLT α] [LE α] [DecidableLE α] [OfScientific α] [HasSqrt α] [HasTrig α]
    (s : Sys α) (j : List (Tf α)) (jd : List (Motion α)) (tau : List α) {i : Nat}
    (hi : i < s.numLinks) (hfree : s.types[i]? = some .free) :
    nth (Spring.jointForces s j jd tau) i = ⟨0, 0⟩ := by
  unfold Spring.jointForces
  rw [nth_tab _ hi]
  have hl := Kin.linkSlices_length s.types ([] : List α) tau s.dofs
  have ht := Kin.linkSlices_typ s.types ([] : List α) tau s.dofs
  have hi' : i < (Kin.linkSlices s.types ([] : List α) tau s.dofs).length := by
    rw [hl]; exact hi
  simp only [List.getElem?_eq_getElem hi']
  have : (Kin.linkSlices s.types ([] : List α) tau s.dofs)[i].typ = .free := by
    have h1 : ((Kin.linkSlices s.types ([] : List α) tau s.dofs).map (·.typ))[i]? = some .free := by
      rw [ht]; exact hfree
    rw [List.getElem?_map, List.getElem?_eq_getElem hi'] at h1
    simpa using h1
  simp only [Spring.jointForce, this]

theorem posJointForces_free {α : Type} [Zero α] [One α] [Add α] [Sub α] [Mul α] [Neg α]
    (s : Sys α) (jd : List (Motion α)) (tau : List α) {i : Nat}
    (hi : i < s.numLinks) (hfree : s.types[i]? = some .free) :
    nth (Positional.jointForces s jd tau) i = ⟨0, 0⟩ := by
  unfold Positional.jointForces
  rw [nth_tab _ hi]
  have hl := Kin.linkSlices_length s.types ([] : List α) tau s.dofs
  have ht := Kin.linkSlices_typ s.types ([] : List α) tau s.dofs
  have hi' : i < (Kin.linkSlices s.types ([] : List α) tau s.dofs).length := by
    rw [hl]; exact hi
  simp only [List.getElem?_eq_getElem hi']
  have : (Kin.linkSlices s.types ([] : List α) tau s.dofs)[i].typ = .free := by
    have h1 : ((Kin.linkSlices s.types ([] : List α) tau s.dofs).map (·.typ))[i]? = some .free := by
      rw [ht]; exact hfree
    rw [List.getElem?_map, List.getElem?_eq_getElem hi'] at h1
    simpa using h1
  simp only [this]

end assemble

/-! ## contact impulses between two bodies -/
section spread
variable {K : Type} [Field K] [HasF32 K]

/-- componentwise division -/
def vdiv (v : V3 K) (d : K) : V3 K := ⟨v.x / d, v.y / d, v.z / d⟩

theorem vdiv_zero (d : K) : vdiv (0 : V3 K) d = 0 := by
  simp only [vdiv, v3_zero_x, v3_zero_y, v3_zero_z, zero_div]; rfl
theorem vdiv_add_neg (v : V3 K) (d : K) : vdiv v d + vdiv (-v) d = 0 := by
  simp only [vdiv, V3.neg_def, V3.add_def, neg_div, add_neg_cancel]; rfl
theorem smul_vdiv (v : V3 K) {m : K} (hm : m ≠ 0) : V3.smul m (vdiv v m) = v := by
  cases v; simp only [vdiv, V3.smul]; congr 1 <;> field_simp

theorem segAt_zip_replicate {M : Type} [AddCommMonoid M] (V : List M) (a : Int) (i : Nat) :
    ∀ k, V.length ≤ k → segAt (V.zip (List.replicate k a)) i = if a = (i : Int) then V.sum else 0 := by
  induction V with
  | nil => intro k _; simp [segAt_nil]
  | cons v V ih =>
    intro k hk
    obtain ⟨k', rfl⟩ : ∃ k', k = k' + 1 := ⟨k - 1, by simp at hk; omega⟩
    simp only [List.replicate_succ, List.zip_cons_cons, segAt_cons, List.sum_cons]
    rw [ih k' (by simp at hk; omega)]
    by_cases h : a = (i : Int)
    · simp [h]
    · simp [h]

/-- entry `i` of the segment sum of `(V, W)` scattered to the two ids `(a, b)` -/
theorem segAt_two {M : Type} [AddCommMonoid M] (V W : List M) (a b : Int) (k i : Nat)
    (hV : V.length = k) (hW : W.length = k) :
    segAt ((V ++ W).zip (List.replicate k a ++ List.replicate k b)) i
      = (if a = (i : Int) then V.sum else 0) + (if b = (i : Int) then W.sum else 0) := by
  rw [List.zip_append (by simp [hV]), segAt_append, segAt_zip_replicate V a i k (by omega),
    segAt_zip_replicate W b i k (by omega)]

theorem sum_map_neg (V : List (V3 K)) : (V.map fun v => -v).sum = -V.sum := by
  induction V with
  | nil => simp
  | cons v V ih => simp only [List.map_cons, List.sum_cons, ih, neg_add]

theorem force_neg_vel (p : Force K) : (-p).vel = -p.vel := rfl

/-- `link_idx` columns of a contact list all of whose rows are between links `a` and `b` -/
theorem ids_two_body (cs : List (Contact K)) (a b : Int)
    (h : ∀ c ∈ cs, c.link1 = a ∧ c.link2 = b) :
    cs.map (·.link1) = List.replicate cs.length a ∧ cs.map (·.link2) = List.replicate cs.length b := by
  constructor
  · rw [List.eq_replicate_iff]; refine ⟨by simp, ?_⟩
    intro x hx; obtain ⟨c, hc, rfl⟩ := List.mem_map.mp hx; exact (h c hc).1
  · rw [List.eq_replicate_iff]; refine ⟨by simp, ?_⟩
    intro x hx; obtain ⟨c, hc, rfl⟩ := List.mem_map.mp hx; exact (h c hc).2

/-- row `i` of `spreadImpulses` when all contacts are between the same two links -/
theorem spread_row (n : Nat) (xiAt : Int → Tf K) (cs : List (Contact K)) (ps : List (Force K))
    (isC : List K) (a b : Int) (h : ∀ c ∈ cs, c.link1 = a ∧ c.link2 = b)
    (hps : ps.length = cs.length) (hc : isC.length = cs.length) {i : Nat} (hi : i < n) :
    (nth (Spring.spreadImpulses n xiAt cs ps isC) i).vel
      = vdiv ((if a = (i : Int) then (ps.map (·.vel)).sum else 0)
              + (if b = (i : Int) then -(ps.map (·.vel)).sum else 0))
          (HasF32.f32 ((if a = (i : Int) then isC.sum else 0) + (if b = (i : Int) then isC.sum else 0)
            + 1e-8)) := by
  obtain ⟨h1, h2⟩ := ids_two_body cs a b h
  unfold Spring.spreadImpulses
  simp only []
  rw [nth_tab _ hi]
  simp only [vdiv]
  have hcnt : nthS (segmentSum (isC ++ isC) (cs.map (·.link1) ++ cs.map (·.link2)) n) i
      = (if a = (i : Int) then isC.sum else 0) + (if b = (i : Int) then isC.sum else 0) := by
    rw [nthS_segmentSum_eq _ _ hi, h1, h2, segAt_two isC isC a b cs.length i hc hc]
  have hvel : (nth (segmentSum (List.zipWith
        (fun (ip : Int × V3 K) p => Tf.doForce (tfPos (ip.2 - (xiAt ip.1).pos)) p)
        ((cs.map (·.link1) ++ cs.map (·.link2)).zip (cs.map (·.pos) ++ cs.map (·.pos)))
        (ps ++ ps.map fun p => -p)) (cs.map (·.link1) ++ cs.map (·.link2)) n) i).vel
      = (if a = (i : Int) then (ps.map (·.vel)).sum else 0)
        + (if b = (i : Int) then -(ps.map (·.vel)).sum else 0) := by
    rw [nth_segmentSum_eq _ _ hi, segAt_force_vel]
    have hmap : ((List.zipWith
        (fun (ip : Int × V3 K) p => Tf.doForce (tfPos (ip.2 - (xiAt ip.1).pos)) p)
        ((cs.map (·.link1) ++ cs.map (·.link2)).zip (cs.map (·.pos) ++ cs.map (·.pos)))
        (ps ++ ps.map fun p => -p)).zip (cs.map (·.link1) ++ cs.map (·.link2))).map
          (fun p => (p.1.vel, p.2))
        = ((ps.map (·.vel)) ++ (ps.map (·.vel)).map (fun v => -v)).zip
            (List.replicate cs.length a ++ List.replicate cs.length b) := by
      rw [h1, h2]
      apply List.ext_getElem
      · simp [hps]
      · intro m hm1 hm2
        simp only [List.getElem_map, List.getElem_zip, List.getElem_zipWith, doForce_tfPos_vel]
        congr 1
        simp only [List.length_zip, List.length_append, List.length_map, List.length_replicate,
          hps] at hm2
        by_cases hlt : m < ps.length
        · rw [List.getElem_append_left hlt, List.getElem_append_left (by simpa using hlt)]
          simp
        · rw [List.getElem_append_right (by omega), List.getElem_append_right (by simp; omega)]
          simp [force_neg_vel]
    rw [hmap, segAt_two _ _ a b cs.length i (by simp [hps]) (by simp [hps]), sum_map_neg]
  rw [hcnt, hvel]

/-- **Two-body contacts conserve the total impulse.**  For any list of contacts all between the
same two links `a`, `b` (both links of the system), any impulses `ps` and any counters `isC`, the
per-link impulses produced by the shared tail of `spring.collisions.resolve` and
`positional.collisions.resolve_velocity` sum to zero: the averaging divides both sides by the
same number. -/
theorem spread_two_body (n : Nat) (xiAt : Int → Tf K) (cs : List (Contact K)) (ps : List (Force K))
    (isC : List K) (a b : Nat) (ha : a < n) (hb : b < n)
    (h : ∀ c ∈ cs, c.link1 = (a : Int) ∧ c.link2 = (b : Int))
    (hps : ps.length = cs.length) (hc : isC.length = cs.length) :
    (∑ i ∈ Finset.range n, (nth (Spring.spreadImpulses n xiAt cs ps isC) i).vel) = 0 := by
  have hrow := fun i (hi : i < n) => spread_row n xiAt cs ps isC (a : Int) (b : Int) h hps hc hi
  by_cases hab : a = b
  · subst hab
    apply Finset.sum_eq_zero
    intro i hi
    rw [hrow i (Finset.mem_range.mp hi)]
    by_cases hai : (a : Int) = (i : Int)
    · simp only [hai, if_true, add_neg_cancel, vdiv_zero]
    · simp only [hai, if_false, add_zero, vdiv_zero]
  · rw [Finset.sum_eq_add a b hab]
    · rw [hrow a ha, hrow b hb]
      have h1 : ¬ ((b : Int) = (a : Int)) := by intro hh; exact hab (by exact_mod_cast hh.symm)
      have h2 : ¬ ((a : Int) = (b : Int)) := by intro hh; exact hab (by exact_mod_cast hh)
      simp only [if_true, h1, h2, if_false, add_zero, zero_add]
      exact vdiv_add_neg _ _
    · intro c hc' hne
      rw [hrow c (Finset.mem_range.mp hc')]
      have h1 : ¬ ((a : Int) = (c : Int)) := by intro hh; exact hne.1 (by exact_mod_cast hh.symm)
      have h2 : ¬ ((b : Int) = (c : Int)) := by intro hh; exact hne.2 (by exact_mod_cast hh.symm)
      simp only [h1, h2, if_false, add_zero, vdiv_zero]
    · intro hna; exact absurd (Finset.mem_range.mpr ha) hna
    · intro hnb; exact absurd (Finset.mem_range.mpr hb) hnb

end spread

/-! ## momentum -/
section momentum
variable {K : Type} [Field K]

/-- total linear momentum `Σ_i m_i · xd_i.vel` (the property's observation) -/
def momentum (mass : List K) (xd : List (Motion K)) : V3 K :=
  ∑ i ∈ Finset.range mass.length, V3.smul (nthS mass i) (nth xd i).vel

/-- total mass -/
def totalMass (mass : List K) : K := ∑ i ∈ Finset.range mass.length, nthS mass i

/-- the algebra of one velocity update: damping factor `c`, acceleration `g + f_i/m_i`, extra
delta-velocity `w_i` -/
theorem momentum_update (n : Nat) (m : Nat → K) (v f w : Nat → V3 K) (g : V3 K) (dt : K)
    (hm : ∀ i, i < n → m i ≠ 0) :
    (∑ i ∈ Finset.range n, V3.smul (m i) (V3.smul 1 (v i + V3.smul dt (g + vdiv (f i) (m i))) + w i))
      = (∑ i ∈ Finset.range n, V3.smul (m i) (v i))
        + V3.smul ((∑ i ∈ Finset.range n, m i) * dt) g
        + V3.smul dt (∑ i ∈ Finset.range n, f i)
        + ∑ i ∈ Finset.range n, V3.smul (m i) (w i) := by
  rw [Finset.sum_mul, sum_smul', smul_sum', ← Finset.sum_add_distrib, ← Finset.sum_add_distrib,
    ← Finset.sum_add_distrib]
  apply Finset.sum_congr rfl
  intro i hi
  have h := hm i (Finset.mem_range.mp hi)
  apply V3.ext' <;> simp only [V3.smul, V3.add_def, vdiv] <;> field_simp <;> ring

end momentum

/-! ## the spring step -/
section springStep
variable {K : Type} [Field K] [LinearOrder K] [IsStrictOrderedRing K]
  [HasSqrt K] [HasTrig K] [HasExp K] [HasPow K] [HasF32 K]

/-- structural hypotheses of the momentum theorems: a forest (`-1 ≤ parent i < i`) all of whose
roots are free links -/
structure FreeRooted (s : Sys K) : Prop where
  hlen : s.parents.length = s.numLinks
  hpar : ∀ i, i < s.numLinks → -1 ≤ parentOf s.parents i ∧ parentOf s.parents i < (i : Int)
  hroot : ∀ i, i < s.numLinks → parentOf s.parents i = -1 → s.types[i]? = some .free

/-- all contacts are between the same two links of the system (or there is none) -/
def TwoBody (n : Nat) (cs : List (Contact K)) : Prop :=
  cs = [] ∨ ∃ a b : Nat, a < n ∧ b < n ∧ ∀ c ∈ cs, c.link1 = (a : Int) ∧ c.link2 = (b : Int)

theorem sum_nth_eq {β M : Type} [Inhabited β] [AddCommMonoid M] (l : List β) (g : β → M) {n : Nat}
    (h : l.length = n) : (∑ i ∈ Finset.range n, g (nth l i)) = (l.map g).sum := by
  conv_rhs => rw [eq_tab_of_length h, tab_map, sum_tab]

theorem not_inRange_root {s : Sys K} (h : FreeRooted s) {i : Nat} (hi : i < s.numLinks)
    (hn : ¬ inRange s.parents.length (parentOf s.parents i)) : parentOf s.parents i = -1 := by
  obtain ⟨h1, h2⟩ := h.hpar i hi
  unfold inRange at hn
  rw [h.hlen] at hn
  have hi' : (i : Int) < (s.numLinks : Int) := by exact_mod_cast hi
  generalize parentOf s.parents i = p at *
  by_contra hne
  exact hn ⟨by omega, by omega⟩

/-- **the internal joint forces of a free-rooted system sum to zero**, for any joint-frame forces
that vanish on the free roots (here: the spring joint forces, for any actuator torque `tau`) -/
theorem resolve_sum_zero (s : Sys K) (h : FreeRooted s) (st : Spring.State K) (tau : List K) :
    (∑ i ∈ Finset.range s.numLinks, (nth (Spring.resolve s st tau) i).vel) = 0 := by
  have hlen : (Spring.resolve s st tau).length = s.numLinks := by
    unfold Spring.resolve Spring.assemble; simp only [tab_length]; exact h.hlen
  rw [sum_nth_eq _ (fun f : Force K => f.vel) hlen]
  unfold Spring.resolve
  rw [assemble_total_force, h.hlen]
  apply Finset.sum_eq_zero
  intro i hi
  have hi' := Finset.mem_range.mp hi
  by_cases hr : inRange s.numLinks (parentOf s.parents i)
  · rw [if_pos hr]
  · rw [if_neg hr]
    have hroot := not_inRange_root h hi' (by rw [h.hlen]; exact hr)
    rw [jointForces_free s st.j st.jd tau hi' (h.hroot i hi' hroot)]
    exact rotate_zero _

theorem accUpdate_sum_zero (s : Sys K) (h : FreeRooted s) (st : Positional.State K) (tau : List K) :
    (∑ i ∈ Finset.range s.numLinks, (nth (Positional.accelerationUpdate s st tau) i).vel) = 0 := by
  have hlen : (Positional.accelerationUpdate s st tau).length = s.numLinks := by
    unfold Positional.accelerationUpdate Spring.assemble; simp only [tab_length]; exact h.hlen
  rw [sum_nth_eq _ (fun f : Force K => f.vel) hlen]
  unfold Positional.accelerationUpdate
  rw [assemble_total_force, h.hlen]
  apply Finset.sum_eq_zero
  intro i hi
  have hi' := Finset.mem_range.mp hi
  by_cases hr : inRange s.numLinks (parentOf s.parents i)
  · rw [if_pos hr]
  · rw [if_neg hr]
    have hroot := not_inRange_root h hi' (by rw [h.hlen]; exact hr)
    rw [posJointForces_free s st.jd tau hi' (h.hroot i hi' hroot)]
    exact rotate_zero _

/-- the velocity change of `spring.collisions.resolve`, weighted by the masses, sums to zero for
two-body contact lists -/
theorem collide_momentum (s : Sys K) (st : Spring.State K) (cs : List (Contact K))
    (hcs : TwoBody s.numLinks cs) (hm : ∀ i, i < s.numLinks → nthS st.mass i ≠ 0) :
    (∑ i ∈ Finset.range s.numLinks, V3.smul (nthS st.mass i) (nth (Spring.collide s st cs) i).vel) = 0 := by
  unfold Spring.collide
  simp only []
  by_cases he : cs.isEmpty = true
  · rw [if_pos he]
    apply Finset.sum_eq_zero
    intro i hi
    rw [nth_tab _ (Finset.mem_range.mp hi)]
    exact smul_zero' _
  · rw [if_neg he]
    rcases hcs with rfl | ⟨a, b, ha, hb, hab⟩
    · simp at he
    · rw [← spread_two_body s.numLinks (takeWrap st.x_i) cs ((cs.map (Spring.impulse s st)).map (·.1))
        ((cs.map (Spring.impulse s st)).map fun p => if p.2 then 1 else 0) a b ha hb hab (by simp) (by simp)]
      apply Finset.sum_congr rfl
      intro i hi
      have hi' := Finset.mem_range.mp hi
      rw [nth_tab _ hi']
      exact smul_vdiv _ (hm i hi')

/-- the state whose velocities `collisions.resolve` reads inside `pipeline.step` -/
def springMid (s : Sys K) (st : Spring.State K) (act : List K) : Spring.State K :=
  let st0 : Spring.State K := { st with i_inv := Com.invInertia s st.x }
  { st0 with xd_i := (Spring.accelerate s st0.i_inv st0.mass st0.xd_i
      (Spring.resolve s st0 (toTau s act st0.q st0.qd))) }

theorem spring_step_xd_i (inv : List (Tf K) → List (Motion K) → List K × List K)
    (cf : List (Tf K) → List (Contact K)) (s : Sys K) (st : Spring.State K) (act : List K) :
    (Spring.step inv cf s st act).xd_i
      = (Spring.integrate s st.x_i (springMid s st act).xd_i
          (Spring.collide s (springMid s st act) (cf st.x))).2 := rfl

theorem spring_step_mass (inv : List (Tf K) → List (Motion K) → List K × List K)
    (cf : List (Tf K) → List (Contact K)) (s : Sys K) (st : Spring.State K) (act : List K) :
    (Spring.step inv cf s st act).mass = st.mass := rfl

/-- **one spring step**: `P' = P + (Σ m_i)·dt·g` -/
theorem spring_step_momentum (inv : List (Tf K) → List (Motion K) → List K × List K)
    (cf : List (Tf K) → List (Contact K)) (s : Sys K) (st : Spring.State K) (act : List K)
    (h : FreeRooted s) (hlen : st.mass.length = s.numLinks)
    (hm : ∀ i, i < s.numLinks → nthS st.mass i ≠ 0)
    (hdamp : HasExp.exp (s.velDamping * s.dt) = (1 : K))
    (hcs : TwoBody s.numLinks (cf st.x)) :
    momentum (Spring.step inv cf s st act).mass (Spring.step inv cf s st act).xd_i
      = momentum st.mass st.xd_i + V3.smul (totalMass st.mass * s.dt) s.gravity := by
  unfold momentum totalMass
  rw [spring_step_mass, spring_step_xd_i, hlen]
  have hrow : ∀ i, i < s.numLinks →
      (nth (Spring.integrate s st.x_i (springMid s st act).xd_i
          (Spring.collide s (springMid s st act) (cf st.x))).2 i).vel
        = V3.smul 1 ((nth st.xd_i i).vel + V3.smul s.dt (s.gravity
            + vdiv (nth (Spring.resolve s { st with i_inv := Com.invInertia s st.x }
                (toTau s act st.q st.qd)) i).vel (nthS st.mass i)))
          + (nth (Spring.collide s (springMid s st act) (cf st.x)) i).vel := by
    intro i hi
    simp only [Spring.integrate, nth_tab _ hi, Spring.integrateLink, hdamp, springMid,
      Spring.accelerate, Motion.add_def]
    rfl
  rw [Finset.sum_congr rfl (fun i hi => by rw [hrow i (Finset.mem_range.mp hi)])]
  rw [momentum_update s.numLinks (fun i => nthS st.mass i) _ _ _ s.gravity s.dt hm]
  rw [resolve_sum_zero s h, smul_zero']
  have hc := collide_momentum s (springMid s st act) (cf st.x) hcs hm
  simp only [springMid] at hc ⊢
  rw [hc]
  simp

end springStep

end Brax.C04L
