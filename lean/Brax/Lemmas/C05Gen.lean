import Brax.Lemmas.C02FullM
import Brax.Lemmas.C05Spring
import Brax.Lemmas.ScanSpec
/-!
# C05, generalized pipeline: one constraint-free `generalized.pipeline.step` commutes with a rigid
transform of the scene

`g : Tf ℝ` with `g.rot.IsUnit` is the rigid transform.  The generalized pipeline works in joint
coordinates; for a system all of whose roots are free `g` acts on

* the coordinates of a free root: `pos ↦ g.pos + R_g pos`, `rot ↦ g.rot ⊗ rot`, linear velocity
  `↦ R_g v`, angular velocity (body frame) unchanged — `KinEquiv.xformIn`;
  everything else in `q`, `qd` is unchanged; gravity is rotated (`C05L.gSys`);
* a per-dof vector (`qd`, forces, `qdd`): the three translational entries of every free root are
  rotated as a vector, all other entries are unchanged — `pRow` (one link), `pFlat` (flat vector);
* the CoM-frame quantities of `transform_com`: `root_com ↦ g ∘ ·`; `cinr` ↦ the rotated inertia
  (stated extensionally: `IRel`); `cd`, `cdofd` rows `↦ rotM g ·`; `cdof` rows `↦ rotM g ·` except the
  three translational rows of a free root, which are the fixed world axes `(0, e_k)` in both scenes
  (`RowsRel`) — that is why the translational entries of per-dof vectors rotate.
-/
set_option linter.unusedSectionVars false
set_option linter.unusedSimpArgs false
set_option linter.unusedVariables false
namespace Brax.C05G
open Brax Kin KinPos KinEquiv Gd

/-! ## 0. algebra -/

/-- rotate a world force by `g` -/
abbrev rotF (g : Tf ℝ) (f : Force ℝ) : Force ℝ := C05L.rotF g f

/-- the action of `g` on a point -/
def gP (g : Tf ℝ) (p : V3 ℝ) : V3 ℝ := g.pos + rotate p g.rot

theorem doTf_pos (g t : Tf ℝ) : (Tf.doTf g t).pos = gP g t.pos := rfl
theorem doTf_rot (g t : Tf ℝ) : (Tf.doTf g t).rot = quatMul g.rot t.rot := rfl

theorem gP_sub (g : Tf ℝ) (a b : V3 ℝ) : gP g a - gP g b = rotate (a - b) g.rot := by
  rw [rotate_sub]
  simp only [gP, V3.add_def, V3.sub_def]
  apply V3.ext' <;> simp only <;> ring

theorem rotM_mzero (g : Tf ℝ) : rotM g Motion.zero = Motion.zero := by
  simp only [rotM, Motion.zero, rotate_zero]

theorem rotM_madd (g : Tf ℝ) (a b : Motion ℝ) : rotM g (a + b) = rotM g a + rotM g b := by
  simp only [rotM, Motion.add_def, rotate_add]

theorem rotM_mulr (g : Tf ℝ) (c : Motion ℝ) (x : ℝ) : mulr (rotM g c) x = rotM g (mulr c x) := by
  simp only [mulr, rotM, rotate, V3.dot, V3.cross, Q4.vec]
  congr 1 <;> congr 1 <;> ring

theorem sumM_map_rotM (g : Tf ℝ) (l : List (Motion ℝ)) : sumM (l.map (rotM g)) = rotM g (sumM l) := by
  induction l with
  | nil => simp only [List.map_nil, sumM, rotM_mzero]
  | cons a l ih => simp only [List.map_cons, sumM, ih, rotM_madd]

theorem rotM_crossM (g : Tf ℝ) (hg : g.rot.IsUnit) (a b : Motion ℝ) :
    Motion.crossM (rotM g a) (rotM g b) = rotM g (Motion.crossM a b) := by
  simp only [Motion.crossM, rotM, rotate_cross_unit _ _ hg, rotate_add]

theorem rotF_crossF (g : Tf ℝ) (hg : g.rot.IsUnit) (a : Motion ℝ) (f : Force ℝ) :
    Motion.crossF (rotM g a) (rotF g f) = rotF g (Motion.crossF a f) := by
  simp only [Motion.crossF, rotM, rotF, C05L.rotF, rotate_cross_unit _ _ hg, rotate_add]

theorem dotF_rot (g : Tf ℝ) (hg : g.rot.IsUnit) (c : Motion ℝ) (f : Force ℝ) :
    Motion.dotF (rotM g c) (rotF g f) = Motion.dotF c f := by
  simp only [Motion.dotF, rotM, rotF, C05L.rotF, rotate_dot_unit _ _ hg]

theorem rotF_fadd (g : Tf ℝ) (a b : Force ℝ) : rotF g (a + b) = rotF g a + rotF g b := by
  simp only [rotF, C05L.rotF, Force.add_def, rotate_add]

theorem rotF_Fadd (g : Tf ℝ) (a b : Force ℝ) : rotF g (Force.add a b) = Force.add (rotF g a) (rotF g b) :=
  rotF_fadd g a b

/-- the rotated inertia, stated extensionally: `I' (R m) = R (I m)` for every motion `m` -/
def IRel (g : Tf ℝ) (I I' : Inertia ℝ) : Prop :=
  ∀ m : Motion ℝ, Inertia.mul I' (rotM g m) = rotF g (Inertia.mul I m)

theorem inertiaMul_add (a b : Inertia ℝ) (m : Motion ℝ) :
    Inertia.mul (inertiaAdd a b) m = Inertia.mul a m + Inertia.mul b m := by
  simp only [Inertia.mul, inertiaAdd, M3.mulVec, M3.add, V3.dot, V3.cross, V3.smul, V3.add_def,
    V3.sub_def, Force.add_def]
  congr 1 <;> congr 1 <;> ring

theorem IRel.add {g : Tf ℝ} {a b a' b' : Inertia ℝ} (ha : IRel g a a') (hb : IRel g b b') :
    IRel g (inertiaAdd a b) (inertiaAdd a' b') := by
  intro m
  rw [inertiaMul_add, inertiaMul_add, ha m, hb m, rotF_fadd]

theorem linkFrc_equiv (g : Tf ℝ) (hg : g.rot.IsUnit) {I I' : Inertia ℝ} (hI : IRel g I I')
    (cdd cd : Motion ℝ) :
    linkFrc I' (rotM g cdd) (rotM g cd) = rotF g (linkFrc I cdd cd) := by
  simp only [linkFrc, hI cdd, hI cd, rotF_crossF g hg, rotF_fadd]

theorem mxRaw_equiv (g : Tf ℝ) (hg : g.rot.IsUnit) {I I' : Inertia ℝ} (hI : IRel g I I')
    (ci cj : Motion ℝ) : mxRaw I' (rotM g ci) (rotM g cj) = mxRaw I ci cj := by
  simp only [mxRaw, hI ci, dotF_rot g hg]

/-! ### the 3×3 matrix of a quaternion, through `rotate` -/

theorem q3_mulVec (q : Q4 ℝ) (h : Q4.normSq q ≠ 0) (v : V3 ℝ) :
    M3.mulVec (quatTo3x3 q) v = V3.smul (1 / Q4.normSq q) (rotate v q) := by
  simp only [quatTo3x3, rotate, M3.mulVec, V3.dot, V3.cross, Q4.vec, V3.smul, Q4.normSq] at h ⊢
  set d := q.w * q.w + q.x * q.x + q.y * q.y + q.z * q.z with hd
  clear_value d
  congr 1 <;> field_simp <;> rw [hd] <;> ring

theorem q3t_mulVec (q : Q4 ℝ) (h : Q4.normSq q ≠ 0) (v : V3 ℝ) :
    M3.mulVec (quatTo3x3 q).transpose v = V3.smul (1 / Q4.normSq q) (rotate v (quatInv q)) := by
  simp only [quatTo3x3, rotate, M3.mulVec, M3.transpose, V3.dot, V3.cross, Q4.vec, V3.smul, Q4.normSq,
    quatInv] at h ⊢
  set d := q.w * q.w + q.x * q.x + q.y * q.y + q.z * q.z with hd
  clear_value d
  congr 1 <;> field_simp <;> rw [hd] <;> ring

theorem mulVec_mul (A B : M3 ℝ) (v : V3 ℝ) : M3.mulVec (M3.mul A B) v = M3.mulVec A (M3.mulVec B v) := by
  simp only [M3.mulVec, M3.mul, M3.col0, M3.col1, M3.col2, V3.dot]
  congr 1 <;> ring

theorem mulVec_add (A B : M3 ℝ) (v : V3 ℝ) : M3.mulVec (M3.add A B) v = M3.mulVec A v + M3.mulVec B v := by
  simp only [M3.mulVec, M3.add, V3.dot, V3.add_def]
  congr 1 <;> ring

/-- the parallel-axis matrix `h hᵀ` of `Transform.do(Inertia)` acts as `|p|² v − (p·v) p` -/
theorem mulVec_hh (p v : V3 ℝ) (m : ℝ) :
    M3.mulVec (M3.smul m (M3.mul
        (⟨V3.cross p ⟨-1, 0, 0⟩, V3.cross p ⟨0, -1, 0⟩, V3.cross p ⟨0, 0, -1⟩⟩ : M3 ℝ)
        (⟨V3.cross p ⟨-1, 0, 0⟩, V3.cross p ⟨0, -1, 0⟩, V3.cross p ⟨0, 0, -1⟩⟩ : M3 ℝ).transpose)) v
      = V3.smul m (V3.smul (V3.dot p p) v - V3.smul (V3.dot p v) p) := by
  simp only [M3.mulVec, M3.smul, M3.mul, M3.transpose, M3.col0, M3.col1, M3.col2, V3.dot, V3.cross,
    V3.smul, V3.sub_def]
  congr 1 <;> ring

/-- closed form of `Inertia.mul` of a moved inertia, through `rotate` only -/
theorem inertiaMul_doInertia (t : Tf ℝ) (it : Inertia ℝ) (h : Q4.normSq t.rot ≠ 0) (m : Motion ℝ) :
    Inertia.mul (Tf.doInertia t it) m
      = ⟨V3.smul (1 / Q4.normSq t.rot) (rotate (M3.mulVec it.i
            (V3.smul (1 / Q4.normSq t.rot) (rotate m.ang (quatInv t.rot)))) t.rot)
          + V3.smul it.mass (V3.smul (V3.dot t.pos t.pos) m.ang - V3.smul (V3.dot t.pos m.ang) t.pos)
          + V3.cross (V3.smul it.mass t.pos) m.vel,
         V3.smul it.mass m.vel - V3.cross (V3.smul it.mass t.pos) m.ang⟩ := by
  simp only [Inertia.mul, Tf.doInertia, mulVec_add, mulVec_mul, mulVec_hh, q3_mulVec _ h, q3t_mulVec _ h]

theorem mulVec_smul_right (A : M3 ℝ) (c : ℝ) (v : V3 ℝ) :
    M3.mulVec A (V3.smul c v) = V3.smul c (M3.mulVec A v) := by
  simp only [M3.mulVec, V3.smul, V3.dot]
  congr 1 <;> ring

theorem smul_dot_rot (g : Tf ℝ) (hg : g.rot.IsUnit) (a b c : V3 ℝ) :
    V3.smul (V3.dot (rotate a g.rot) (rotate b g.rot)) (rotate c g.rot)
      = rotate (V3.smul (V3.dot a b) c) g.rot := by
  rw [rotate_dot_unit _ _ hg, rotate_smul]

/-- **`cinr` is equivariant**: the CoM-frame inertia of the transformed scene is the rotated one -/
theorem cinrLink_equiv (g : Tf ℝ) (hg : g.rot.IsUnit) (xi : Tf ℝ) (com : V3 ℝ) (it : Inertia ℝ)
    (h : Q4.normSq xi.rot ≠ 0) :
    IRel g (cinrLink xi com it) (cinrLink (Tf.doTf g xi) (gP g com) it) := by
  intro m
  have hn : Q4.normSq (quatMul g.rot xi.rot) = Q4.normSq xi.rot := by
    rw [normSq_quatMul, hg, one_mul]
  have h' : Q4.normSq (quatMul g.rot xi.rot) ≠ 0 := by rw [hn]; exact h
  unfold cinrLink
  rw [inertiaMul_doInertia ⟨xi.pos - com, xi.rot⟩ it h,
    inertiaMul_doInertia ⟨(Tf.doTf g xi).pos - gP g com, (Tf.doTf g xi).rot⟩ it h']
  simp only [doTf_pos, doTf_rot, gP_sub, hn]
  generalize xi.pos - com = d
  simp only [rotM, rotF, C05L.rotF, C05L.quatInv_quatMul, rotate_quatMul, rotate_inv_rotate_unit _ hg,
    rotate_add, rotate_sub, rotate_smul, ← rotate_cross_unit _ _ hg, rotate_dot_unit _ _ hg]

/-! ## 1. per-link coordinates, per-dof vectors, dof rows -/

/-- the action on the per-dof entries of one link: the three translational entries of a free link
are rotated as a vector -/
noncomputable def pRow (g : Tf ℝ) (t : LinkType) (xs : List ℝ) : List ℝ :=
  match t, xs with
  | .free, [a, b, c, d, e, f] =>
    [(rotate ⟨a, b, c⟩ g.rot).x, (rotate ⟨a, b, c⟩ g.rot).y, (rotate ⟨a, b, c⟩ g.rot).z, d, e, f]
  | _, _ => xs

/-- the action on the `q` entries of one link: a free link's pose is composed with `g` -/
noncomputable def xq (g : Tf ℝ) (t : LinkType) (q : List ℝ) : List ℝ :=
  match t, q with
  | .free, [p0, p1, p2, r0, r1, r2, r3] =>
    let x := Tf.doTf g ⟨⟨p0, p1, p2⟩, ⟨r0, r1, r2, r3⟩⟩
    [x.pos.x, x.pos.y, x.pos.z, x.rot.w, x.rot.x, x.rot.y, x.rot.z]
  | _, _ => q

theorem pRow_nonfree (g : Tf ℝ) {t : LinkType} (h : t ≠ .free) (xs : List ℝ) : pRow g t xs = xs := by
  unfold pRow
  split
  · exact absurd rfl h
  · rfl

theorem xq_nonfree (g : Tf ℝ) {t : LinkType} (h : t ≠ .free) (xs : List ℝ) : xq g t xs = xs := by
  unfold xq
  split
  · exact absurd rfl h
  · rfl

theorem pRow_length (g : Tf ℝ) (t : LinkType) (xs : List ℝ) : (pRow g t xs).length = xs.length := by
  unfold pRow
  split <;> rfl

theorem length6 {γ : Type} (l : List γ) (h : l.length = 6) : ∃ a b c d e f, l = [a, b, c, d, e, f] := by
  match l, h with
  | [a, b, c, d, e, f], _ => exact ⟨a, b, c, d, e, f, rfl⟩

theorem length7 {γ : Type} (l : List γ) (h : l.length = 7) : ∃ a b c d e f k, l = [a, b, c, d, e, f, k] := by
  match l, h with
  | [a, b, c, d, e, f, k], _ => exact ⟨a, b, c, d, e, f, k, rfl⟩

/-- a free link carries 7 + 6 coordinates -/
def Shape (l : LinkIn ℝ) : Prop := l.typ = .free → l.q.length = 7 ∧ l.qd.length = 6

theorem xformIn_typ (g : Tf ℝ) (l : LinkIn ℝ) : (xformIn g l).typ = l.typ := by
  unfold xformIn; split <;> rfl
theorem xformIn_dofs (g : Tf ℝ) (l : LinkIn ℝ) : (xformIn g l).dofs = l.dofs := by
  unfold xformIn; split <;> rfl

/-- `xformIn` through its components -/
theorem xformIn_eq (g : Tf ℝ) (l : LinkIn ℝ) (h : Shape l) :
    xformIn g l = ⟨l.typ, xq g l.typ l.q, pRow g l.typ l.qd, l.dofs⟩ := by
  by_cases hf : l.typ = .free
  · obtain ⟨h7, h6⟩ := h hf
    obtain ⟨p0, p1, p2, r0, r1, r2, r3, hq⟩ := length7 _ h7
    obtain ⟨v0, v1, v2, w0, w1, w2, hqd⟩ := length6 _ h6
    obtain ⟨t, q, qd, ds⟩ := l
    simp only at hf hq hqd
    subst hf hq hqd
    rfl
  · rw [xformIn_nonfree g l hf, xq_nonfree g hf, pRow_nonfree g hf]

/-- the fixed translational dof rows of a free joint -/
def Ex : Motion ℝ := ⟨V3.zero, ⟨1, 0, 0⟩⟩
def Ey : Motion ℝ := ⟨V3.zero, ⟨0, 1, 0⟩⟩
def Ez : Motion ℝ := ⟨V3.zero, ⟨0, 0, 1⟩⟩

/-- the `cdof` rows of one link in the two scenes: rotated, except the translational rows of a free
link, which are the world axes in both -/
def RowsRel (g : Tf ℝ) (t : LinkType) (rows rows' : List (Motion ℝ)) : Prop :=
  (t = .free → ∃ a0 a1 a2, rows = [Ex, Ey, Ez, a0, a1, a2]
      ∧ rows' = [Ex, Ey, Ez, rotM g a0, rotM g a1, rotM g a2])
  ∧ (t ≠ .free → rows' = rows.map (rotM g))

/-- the `cdofd` rows of one link in the two scenes: rotated; zero on the translational rows of a free link -/
def DRel (g : Tf ℝ) (t : LinkType) (d d' : List (Motion ℝ)) : Prop :=
  (t = .free → ∃ b0 b1 b2, d = [Motion.zero, Motion.zero, Motion.zero, b0, b1, b2]
      ∧ d' = [Motion.zero, Motion.zero, Motion.zero, rotM g b0, rotM g b1, rotM g b2])
  ∧ (t ≠ .free → d' = d.map (rotM g))

/-- one `cdof` row: world rotation by the joint frame, shift to the centre of mass -/
noncomputable def rowF (fr : Bool) (j : Tf ℝ) (c : V3 ℝ) (m : Motion ℝ) : Motion ℝ :=
  Tf.doMotion ⟨c - j.pos, Q4.one⟩ (cdofWorld fr j.rot m)

theorem cdofLink_eq (l : LinkIn ℝ) (j : Tf ℝ) (c : V3 ℝ) :
    cdofLink l j c = (cdofLocal l).map (rowF (l.typ == .free) j c) := rfl

theorem doMotion_pos_one (p : V3 ℝ) (m : Motion ℝ) :
    Tf.doMotion ⟨p, Q4.one⟩ m = ⟨m.ang, m.vel - V3.cross p m.ang⟩ := by
  simp only [Tf.doMotion, C05L.quatInv_one, rotate_one]

theorem rowF_false (g : Tf ℝ) (hg : g.rot.IsUnit) (j : Tf ℝ) (c : V3 ℝ) (m : Motion ℝ) :
    rowF false (Tf.doTf g j) (gP g c) m = rotM g (rowF false j c m) := by
  simp only [rowF, doMotion_pos_one, cdofWorld, doTf_pos, doTf_rot, gP_sub, rotM, rotate_quatMul,
    rotate_sub, ← rotate_cross_unit _ _ hg, Bool.false_eq_true, if_false]

theorem rowF_true_ang (g : Tf ℝ) (hg : g.rot.IsUnit) (j : Tf ℝ) (c : V3 ℝ) (a : V3 ℝ) :
    rowF true (Tf.doTf g j) (gP g c) ⟨a, V3.zero⟩ = rotM g (rowF true j c ⟨a, V3.zero⟩) := by
  simp only [rowF, doMotion_pos_one, cdofWorld, doTf_pos, doTf_rot, gP_sub, rotM, rotate_quatMul,
    rotate_sub, ← rotate_cross_unit _ _ hg, if_true, rotate_zero]

theorem rowF_true_lin (j : Tf ℝ) (c : V3 ℝ) (v : V3 ℝ) :
    rowF true j c ⟨V3.zero, v⟩ = ⟨V3.zero, v⟩ := by
  simp only [rowF, doMotion_pos_one, cdofWorld, if_true, rotate_zero]
  congr 1
  simp only [V3.cross, V3.zero, V3.sub_def]
  apply V3.ext' <;> simp

theorem cdofLocal_xformIn (g : Tf ℝ) (l : LinkIn ℝ) : cdofLocal (xformIn g l) = cdofLocal l := by
  by_cases hf : l.typ = .free
  · unfold cdofLocal
    rw [xformIn_typ, xformIn_dofs, hf]
  · rw [xformIn_nonfree g l hf]

/-- **`cdof` rows of one link are equivariant** -/
theorem cdofLink_equiv (g : Tf ℝ) (hg : g.rot.IsUnit) (l : LinkIn ℝ) (j : Tf ℝ) (c : V3 ℝ)
    (hb : l.typ = .free → l.dofs.map (·.motion) = freeBasis) :
    RowsRel g l.typ (cdofLink l j c) (cdofLink (xformIn g l) (Tf.doTf g j) (gP g c)) := by
  rw [cdofLink_eq, cdofLink_eq, cdofLocal_xformIn, xformIn_typ]
  constructor
  · intro hf
    have hloc : cdofLocal l = freeBasis := by unfold cdofLocal; rw [hf]; exact hb hf
    have hbt : (l.typ == LinkType.free) = true := by rw [hf]; rfl
    rw [hloc, hbt]
    refine ⟨rowF true j c ⟨⟨1, 0, 0⟩, V3.zero⟩, rowF true j c ⟨⟨0, 1, 0⟩, V3.zero⟩,
      rowF true j c ⟨⟨0, 0, 1⟩, V3.zero⟩, ?_, ?_⟩
    · simp only [freeBasis, List.map_cons, List.map_nil, rowF_true_lin, Ex, Ey, Ez]
    · simp only [freeBasis, List.map_cons, List.map_nil, rowF_true_lin, rowF_true_ang g hg, Ex, Ey, Ez]
  · intro hf
    have hbf : (l.typ == LinkType.free) = false := by
      cases ht : l.typ <;> first | exact absurd ht hf | rfl
    rw [hbf, List.map_map]
    apply List.map_congr_left
    intro m _
    exact rowF_false g hg j c m

theorem zipWith_mulr_map (g : Tf ℝ) (rows : List (Motion ℝ)) (qd : List ℝ) :
    List.zipWith mulr (rows.map (rotM g)) qd = (List.zipWith mulr rows qd).map (rotM g) := by
  induction rows generalizing qd with
  | nil => simp
  | cons r rows ih =>
    cases qd with
    | nil => simp
    | cons x qd => simp only [List.map_cons, List.zipWith_cons_cons, ih, rotM_mulr]

theorem pRow_free6 (g : Tf ℝ) (a b c d e f : ℝ) :
    pRow g .free [a, b, c, d, e, f]
      = [(rotate ⟨a, b, c⟩ g.rot).x, (rotate ⟨a, b, c⟩ g.rot).y, (rotate ⟨a, b, c⟩ g.rot).z, d, e, f] := rfl

/-- `Σ cdof·qd` of one link rotates -/
theorem sumM_rows_equiv (g : Tf ℝ) (t : LinkType) (rows rows' : List (Motion ℝ)) (qd : List ℝ)
    (h : RowsRel g t rows rows') (hlen : t = .free → qd.length = 6) :
    sumM (List.zipWith mulr rows' (pRow g t qd)) = rotM g (sumM (List.zipWith mulr rows qd)) := by
  by_cases hf : t = .free
  · obtain ⟨a0, a1, a2, hr, hr'⟩ := h.1 hf
    obtain ⟨v0, v1, v2, w0, w1, w2, hqd⟩ := length6 _ (hlen hf)
    subst hf hr hr' hqd
    simp only [pRow_free6, List.zipWith_cons_cons, List.zipWith_nil_right, sumM, Ex, Ey, Ez, mulr, rotM,
      Motion.add_def, Motion.zero, V3.add_def, V3.zero, rotate, V3.dot, V3.cross, Q4.vec]
    congr 1 <;> congr 1 <;> ring
  · rw [h.2 hf, pRow_nonfree g hf, zipWith_mulr_map, sumM_map_rotM]

/-- `Σ cdofd·qd` of one link rotates -/
theorem sumM_drows_equiv (g : Tf ℝ) (t : LinkType) (d d' : List (Motion ℝ)) (qd : List ℝ)
    (h : DRel g t d d') (hlen : t = .free → qd.length = 6) :
    sumM (List.zipWith mulr d' (pRow g t qd)) = rotM g (sumM (List.zipWith mulr d qd)) := by
  by_cases hf : t = .free
  · obtain ⟨b0, b1, b2, hr, hr'⟩ := h.1 hf
    obtain ⟨v0, v1, v2, w0, w1, w2, hqd⟩ := length6 _ (hlen hf)
    subst hf hr hr' hqd
    simp only [pRow_free6, List.zipWith_cons_cons, List.zipWith_nil_right, sumM, mulr, rotM,
      Motion.add_def, Motion.zero, V3.add_def, V3.zero, rotate, V3.dot, V3.cross, Q4.vec]
    congr 1 <;> congr 1 <;> ring
  · rw [h.2 hf, pRow_nonfree g hf, zipWith_mulr_map, sumM_map_rotM]

/-- projections `cdof · f` of one link: invariant, except that the translational entries of a free link
rotate as a vector -/
theorem proj_rows_equiv (g : Tf ℝ) (hg : g.rot.IsUnit) (t : LinkType) (rows rows' : List (Motion ℝ))
    (f : Force ℝ) (h : RowsRel g t rows rows') :
    rows'.map (fun c => Motion.dotF c (rotF g f)) = pRow g t (rows.map fun c => Motion.dotF c f) := by
  by_cases hf : t = .free
  · obtain ⟨a0, a1, a2, hr, hr'⟩ := h.1 hf
    subst hf hr hr'
    simp only [List.map_cons, List.map_nil, pRow_free6, dotF_rot g hg]
    simp only [Ex, Ey, Ez, Motion.dotF, rotF, C05L.rotF, rotate, V3.dot, V3.cross, Q4.vec, V3.zero]
    refine List.cons_eq_cons.mpr ⟨by ring, List.cons_eq_cons.mpr ⟨by ring, List.cons_eq_cons.mpr ⟨by ring, rfl⟩⟩⟩
  · rw [h.2 hf, pRow_nonfree g hf, List.map_map]
    apply List.map_congr_left
    intro c _
    exact dotF_rot g hg c f

theorem cdofdStack_equiv (g : Tf ℝ) (hg : g.rot.IsUnit) (cd : Motion ℝ) (cs : List (Motion ℝ × Motion ℝ)) :
    cdofdStack (rotM g cd) (cs.map fun p => (rotM g p.1, rotM g p.2))
      = (cdofdStack cd cs).map (rotM g) := by
  induction cs generalizing cd with
  | nil => rfl
  | cons p cs ih =>
    simp only [List.map_cons, cdofdStack, rotM_crossM g hg, ← rotM_madd, ih]

theorem zip_map_rotM (g : Tf ℝ) (a b : List (Motion ℝ)) :
    (a.map (rotM g)).zip (b.map (rotM g)) = (a.zip b).map fun p => (rotM g p.1, rotM g p.2) := by
  induction a generalizing b with
  | nil => simp
  | cons x a ih =>
    cases b with
    | nil => simp
    | cons y b => simp only [List.map_cons, List.zip_cons_cons, ih]

/-- **`cdofd` rows of one link are equivariant** -/
theorem cdofdLink_equiv (g : Tf ℝ) (hg : g.rot.IsUnit) (t : LinkType) (cdP : Motion ℝ)
    (rows rows' : List (Motion ℝ)) (qd : List ℝ) (h : RowsRel g t rows rows')
    (hlen : t = .free → qd.length = 6) :
    DRel g t (cdofdLink t cdP rows (List.zipWith mulr rows qd))
      (cdofdLink t (rotM g cdP) rows' (List.zipWith mulr rows' (pRow g t qd))) := by
  constructor
  · intro hf
    obtain ⟨a0, a1, a2, hr, hr'⟩ := h.1 hf
    obtain ⟨v0, v1, v2, w0, w1, w2, hqd⟩ := length6 _ (hlen hf)
    subst hf hr hr' hqd
    refine ⟨Motion.crossM (sumM [mulr Ex v0, mulr Ey v1, mulr Ez v2]) a0,
      Motion.crossM (sumM [mulr Ex v0, mulr Ey v1, mulr Ez v2]) a1,
      Motion.crossM (sumM [mulr Ex v0, mulr Ey v1, mulr Ez v2]) a2, ?_, ?_⟩
    · simp [cdofdLink, List.range, List.range.loop]
    · have hcd : sumM [mulr Ex (rotate ⟨v0, v1, v2⟩ g.rot).x, mulr Ey (rotate ⟨v0, v1, v2⟩ g.rot).y,
            mulr Ez (rotate ⟨v0, v1, v2⟩ g.rot).z]
          = rotM g (sumM [mulr Ex v0, mulr Ey v1, mulr Ez v2]) := by
        simp only [sumM, Ex, Ey, Ez, mulr, rotM, Motion.add_def, Motion.zero, V3.add_def, V3.zero, rotate,
          V3.dot, V3.cross, Q4.vec]
        congr 1 <;> congr 1 <;> ring
      simp [cdofdLink, List.range, List.range.loop, pRow_free6, hcd, rotM_crossM g hg]
  · intro hf
    have hs : ∀ (cd : Motion ℝ) (a b : List (Motion ℝ)), cdofdLink t cd a b = cdofdStack cd (a.zip b) := by
      intro cd a b
      cases t <;> first | exact absurd rfl hf | rfl
    rw [hs, hs, h.2 hf, pRow_nonfree g hf, zipWith_mulr_map, zip_map_rotM, cdofdStack_equiv g hg]

/-! ## 2. list bookkeeping -/

theorem forall₂_of_getElem {β γ : Type} {R : β → γ → Prop} {l : List β} {l' : List γ}
    (hlen : l.length = l'.length)
    (h : ∀ i (h1 : i < l.length) (h2 : i < l'.length), R l[i] l'[i]) : List.Forall₂ R l l' := by
  induction l generalizing l' with
  | nil =>
    cases l' with
    | nil => exact List.Forall₂.nil
    | cons b l' => simp at hlen
  | cons a l ih =>
    cases l' with
    | nil => simp at hlen
    | cons b l' =>
      refine List.Forall₂.cons (h 0 (by simp) (by simp)) (ih (by simpa using hlen) ?_)
      intro i h1 h2
      exact h (i + 1) (by simpa using h1) (by simpa using h2)

/-- the argument relation `scanFwd_rel` asks for, from an index-wise statement -/
theorem zipS {γ γ' : Type} (S : Int → γ → γ' → Prop) (ps : List Int) (as : List γ) (bs : List γ')
    (hl : as.length = bs.length)
    (h : ∀ i (h0 : i < ps.length) (h1 : i < as.length) (h2 : i < bs.length), S ps[i] as[i] bs[i]) :
    List.Forall₂ (fun (x : Int × γ) (y : Int × γ') => x.1 = y.1 ∧ S x.1 x.2 y.2)
      (ps.zip as) (ps.zip bs) := by
  apply forall₂_of_getElem (by simp [hl])
  intro i h1 h2
  simp only [List.length_zip] at h1 h2
  simp only [List.getElem_zip, true_and]
  exact h i (by omega) (by omega) (by omega)

theorem forall₂_eq_map {β γ : Type} (F : β → γ) {l : List β} {l' : List γ}
    (h : List.Forall₂ (fun a b => b = F a) l l') : l' = l.map F := by
  induction h with
  | nil => rfl
  | cons hab _ ih => rw [List.map_cons, ← hab, ih]

theorem takeParent_map {β γ : Type} (xs : List β) (F : β → γ) (d : β) (p : Int) :
    takeParent (xs.map F) (F d) p = F (takeParent xs d p) := by
  unfold takeParent
  simp only [List.length_map]
  generalize (p % ((xs.length : Int) + 1)).toNat = i
  have : xs.map F ++ [F d] = (xs ++ [d]).map F := by simp
  rw [this, List.getD_eq_getElem?_getD, List.getD_eq_getElem?_getD, List.getElem?_map]
  cases (xs ++ [d])[i]? <;> rfl

theorem getElem_eq_getD {β : Type} (l : List β) (d : β) (i : Nat) (h : i < l.length) : l[i] = l.getD i d := by
  rw [List.getD_eq_getElem?_getD, List.getElem?_eq_getElem h]; rfl

/-! ### `root_com` -/

theorem segSum_affine (g : Tf ℝ) : ∀ (mass : List ℝ) (xi : List (Tf ℝ)) (ids : List Nat) (k : Nat),
    mass.length = xi.length →
    segSum V3.zero V3.add (List.zipWith (fun m (t : Tf ℝ) => V3.smul m t.pos) mass (xi.map (Tf.doTf g))) ids k
      = V3.smul (segSum 0 (· + ·) mass ids k) g.pos
        + rotate (segSum V3.zero V3.add (List.zipWith (fun m (t : Tf ℝ) => V3.smul m t.pos) mass xi) ids k) g.rot := by
  intro mass
  induction mass with
  | nil =>
    intro xi ids k _
    simp only [segSum, List.zipWith_nil_left, List.zip_nil_left, List.filter_nil, List.foldr_nil, rotate_zero]
    simp only [V3.smul, V3.zero, V3.add_def]
    apply V3.ext' <;> simp
  | cons m ms ih =>
    intro xi ids k hlen
    cases xi with
    | nil => simp at hlen
    | cons t ts =>
      cases ids with
      | nil =>
        simp only [segSum, List.zip_nil_right, List.filter_nil, List.foldr_nil, rotate_zero]
        simp only [V3.smul, V3.zero, V3.add_def]
        apply V3.ext' <;> simp
      | cons i is =>
        have ih' := ih ts is k (by simpa using hlen)
        simp only [segSum] at ih' ⊢
        simp only [List.map_cons, List.zipWith_cons_cons, List.zip_cons_cons, List.filter_cons]
        by_cases hik : (i == k) = true
        · simp only [hik, if_true, List.foldr_cons, ih']
          simp only [V3.add, V3.smul, doTf_pos, gP, V3.add_def, rotate, V3.dot, V3.cross, Q4.vec]
          apply V3.ext' <;> simp only <;> ring
        · simp only [hik, if_false]
          exact ih'

/-- **`root_com` is equivariant** (total mass of every tree nonzero) -/
theorem rootCom_equiv (g : Tf ℝ) (ps : List Int) (mass : List ℝ) (xi : List (Tf ℝ))
    (hlen : mass.length = xi.length)
    (hm : ∀ r ∈ rootIdx ps, segSum 0 (· + ·) mass (rootIdx ps) r ≠ 0) :
    rootCom ps mass (xi.map (Tf.doTf g)) = (rootCom ps mass xi).map (gP g) := by
  unfold rootCom
  simp only [List.map_map]
  apply List.map_congr_left
  intro r hr
  have h0 := hm r hr
  simp only [Function.comp, segSum_affine g mass xi (rootIdx ps) r hlen]
  generalize segSum 0 (· + ·) mass (rootIdx ps) r = sm at h0
  generalize segSum V3.zero V3.add (List.zipWith (fun m (t : Tf ℝ) => V3.smul m t.pos) mass xi) (rootIdx ps) r = sx
  simp only [gP, V3.smul, V3.add_def, rotate, V3.dot, V3.cross, Q4.vec]
  apply V3.ext' <;> simp only <;> field_simp

/-! ## 3. `transform_com` -/
section tc
variable (s : Sys ℝ) (x : List (Tf ℝ)) (ins : List (LinkIn ℝ))

/-- the stages of `dynamics.transform_com`, as functions of the link poses and the per-link inputs -/
noncomputable def tcXi : List (Tf ℝ) :=
  List.zipWith (fun (t : Tf ℝ) (lk : LinkP ℝ) => Tf.doTf t lk.inertia.tf) x s.links
noncomputable def tcCom : List (V3 ℝ) := rootCom s.parents (s.links.map (·.inertia.mass)) (tcXi s x)
noncomputable def tcCinr : List (Inertia ℝ) :=
  List.zipWith (fun (tc : Tf ℝ × V3 ℝ) (lk : LinkP ℝ) => cinrLink tc.1 tc.2 lk.inertia)
    ((tcXi s x).zip (tcCom s x)) s.links
noncomputable def tcCdof : List (List (Motion ℝ)) :=
  List.zipWith (fun (l : LinkIn ℝ) (jc : Tf ℝ × V3 ℝ) => cdofLink l jc.1 jc.2) ins
    ((jointFrames s x).zip (tcCom s x))
noncomputable def tcCdofQd : List (List (Motion ℝ)) :=
  List.zipWith (fun cs (l : LinkIn ℝ) => List.zipWith mulr cs l.qd) (tcCdof s x ins) ins
noncomputable def tcCd : List (Motion ℝ) := scanFwd cdStep s.parents (tcCdofQd s x ins)
noncomputable def tcCdofd : List (List (Motion ℝ)) :=
  List.zipWith (fun (lp : LinkIn ℝ × Int) (cc : List (Motion ℝ) × List (Motion ℝ)) =>
      cdofdLink lp.1.typ (takeParent (tcCd s x ins) Motion.zero lp.2) cc.1 cc.2)
    (ins.zip (parentIdx s.types s.parents)) ((tcCdof s x ins).zip (tcCdofQd s x ins))

theorem transformCom_eq (q qd : List ℝ) :
    transformCom s x q qd
      = ⟨tcCom s x, tcCinr s x, tcCdof s x (linkSlices s.types q qd s.dofs),
         tcCd s x (linkSlices s.types q qd s.dofs), tcCdofd s x (linkSlices s.types q qd s.dofs)⟩ := rfl

/-- what the equivariance of `transform_com` needs of the system, the per-link inputs and the link poses -/
structure GenOK : Prop where
  parents : s.parents.length = s.types.length
  links : s.links.length = s.types.length
  insLen : ins.length = s.types.length
  xLen : x.length = s.types.length
  typ : ∀ i (h : i < ins.length) (h' : i < s.types.length), ins[i].typ = s.types[i]
  par : ∀ i (h : i < s.parents.length), -1 ≤ s.parents[i] ∧ s.parents[i] < (i : Int)
  rootFree : ∀ i (h : i < s.parents.length) (h' : i < s.types.length), s.parents[i] < 0 → s.types[i] = .free
  shape : ∀ l ∈ ins, Shape l
  basis : ∀ l ∈ ins, l.typ = .free → l.dofs.map (·.motion) = freeBasis
  mass : ∀ r ∈ rootIdx s.parents,
    segSum 0 (· + ·) (s.links.map (·.inertia.mass)) (rootIdx s.parents) r ≠ 0
  xiRot : ∀ t ∈ tcXi s x, Q4.normSq t.rot ≠ 0

/-- relation between the `transform_com` outputs of the two scenes -/
structure ComRel (g : Tf ℝ) (ts : List LinkType) (c c' : ComState ℝ) : Prop where
  lcinr : c.cinr.length = ts.length
  lcinr' : c'.cinr.length = ts.length
  lcdof : c.cdof.length = ts.length
  lcdof' : c'.cdof.length = ts.length
  lcd : c.cd.length = ts.length
  lcdofd : c.cdofd.length = ts.length
  lcdofd' : c'.cdofd.length = ts.length
  com : c'.rootCom = c.rootCom.map (gP g)
  cinr : List.Forall₂ (IRel g) c.cinr c'.cinr
  cdof : ∀ i (h : i < ts.length) (h1 : i < c.cdof.length) (h2 : i < c'.cdof.length),
    RowsRel g ts[i] c.cdof[i] c'.cdof[i]
  cd : c'.cd = c.cd.map (rotM g)
  cdofd : ∀ i (h : i < ts.length) (h1 : i < c.cdofd.length) (h2 : i < c'.cdofd.length),
    DRel g ts[i] c.cdofd[i] c'.cdofd[i]

variable {s x ins}

theorem tcXi_equiv (g : Tf ℝ) : tcXi s (x.map (Tf.doTf g)) = (tcXi s x).map (Tf.doTf g) := by
  unfold tcXi
  generalize s.links = lks
  induction x generalizing lks with
  | nil => simp
  | cons t x ih =>
    cases lks with
    | nil => simp
    | cons lk lks => simp only [List.map_cons, List.zipWith_cons_cons, ih, Tf.doTf_assoc]

theorem tcCom_equiv (g : Tf ℝ) (h : GenOK s x ins) :
    tcCom s (x.map (Tf.doTf g)) = (tcCom s x).map (gP g) := by
  unfold tcCom
  rw [tcXi_equiv]
  apply rootCom_equiv g _ _ _ _ h.mass
  simp [tcXi, h.xLen, h.links]

theorem parentIdx_get (h : GenOK s x ins) (i : Nat) (hi : i < s.types.length) :
    ∃ hp : i < (parentIdx s.types s.parents).length,
      (parentIdx s.types s.parents)[i] = (if s.types[i] == .free then (i : Int) else s.parents[i]'(by rw [h.parents]; exact hi))
      ∧ 0 ≤ (parentIdx s.types s.parents)[i] ∧ (parentIdx s.types s.parents)[i] < (s.types.length : Int) := by
  have hp : i < (parentIdx s.types s.parents).length := by rw [parentIdx_length _ _ h.parents]; exact hi
  have hi' : i < s.parents.length := by rw [h.parents]; exact hi
  have h1 := parentIdx_getElem? s.types s.parents i hi hi'
  rw [List.getElem?_eq_getElem hp] at h1
  have h2 : (parentIdx s.types s.parents)[i] = (if s.types[i] == .free then (i : Int) else s.parents[i]) := by
    simpa using h1
  refine ⟨hp, h2, ?_⟩
  rw [h2]
  by_cases hf : s.types[i] = .free
  · have : (s.types[i] == LinkType.free) = true := by rw [hf]; rfl
    rw [this, if_pos rfl]; omega
  · have : (s.types[i] == LinkType.free) = false := by
      cases ht : s.types[i] <;> first | exact absurd ht hf | rfl
    rw [this]
    simp only [Bool.false_eq_true, if_false]
    have hpar := h.par i hi'
    have hnr : ¬ s.parents[i] < 0 := fun hneg => hf (h.rootFree i hi' hi hneg)
    omega

theorem jointFrames_equiv (g : Tf ℝ) (h : GenOK s x ins) :
    jointFrames s (x.map (Tf.doTf g)) = (jointFrames s x).map (Tf.doTf g) := by
  apply List.ext_getElem
  · simp [jointFrames]
  · intro i h1 h2
    have hi : i < s.types.length := by
      rw [jointFrames_length s _ h.parents h.links] at h1; exact h1
    obtain ⟨hp, _, h0, hlt⟩ := parentIdx_get h i hi
    simp only [jointFrames, List.getElem_map, List.getElem_zip]
    rw [C05L.takeParent_map_lt x (Tf.doTf g) Tf.id Tf.id _ h0 (by rw [h.xLen]; exact hlt)]
    simp only [Tf.doTf_assoc]

theorem tc_lengths (h : GenOK s x ins) :
    (tcXi s x).length = s.types.length ∧ (tcCom s x).length = s.types.length
    ∧ (tcCinr s x).length = s.types.length ∧ (jointFrames s x).length = s.types.length
    ∧ (tcCdof s x ins).length = s.types.length ∧ (tcCdofQd s x ins).length = s.types.length
    ∧ (tcCd s x ins).length = s.types.length ∧ (tcCdofd s x ins).length = s.types.length := by
  have h1 : (tcXi s x).length = s.types.length := by simp [tcXi, h.xLen, h.links]
  have h2 : (tcCom s x).length = s.types.length := by simp [tcCom, rootCom_length, h.parents]
  have h3 : (tcCinr s x).length = s.types.length := by simp [tcCinr, h1, h2, h.links]
  have h4 := jointFrames_length s x h.parents h.links
  have h5 : (tcCdof s x ins).length = s.types.length := by simp [tcCdof, h4, h2, h.insLen]
  have h6 : (tcCdofQd s x ins).length = s.types.length := by simp [tcCdofQd, h5, h.insLen]
  have h7 : (tcCd s x ins).length = s.types.length := by
    simp [tcCd, scanFwd_length, h6, h.parents]
  have h8 : (tcCdofd s x ins).length = s.types.length := by
    simp [tcCdofd, h5, h6, h.insLen, parentIdx_length _ _ h.parents]
  exact ⟨h1, h2, h3, h4, h5, h6, h7, h8⟩

/-- the hypotheses are invariant under the transform -/
theorem GenOK.xform (g : Tf ℝ) (hg : g.rot.IsUnit) (h : GenOK s x ins) :
    GenOK s (x.map (Tf.doTf g)) (ins.map (xformIn g)) where
  parents := h.parents
  links := h.links
  insLen := by simp [h.insLen]
  xLen := by simp [h.xLen]
  typ := by
    intro i h1 h2
    simp only [List.getElem_map, xformIn_typ]
    exact h.typ i (by simpa using h1) h2
  par := h.par
  rootFree := h.rootFree
  shape := by
    intro l hl
    obtain ⟨l0, hl0, rfl⟩ := List.mem_map.mp hl
    intro hf
    rw [xformIn_typ] at hf
    rw [xformIn_eq g l0 (h.shape l0 hl0)]
    obtain ⟨h7, h6⟩ := h.shape l0 hl0 hf
    obtain ⟨p0, p1, p2, r0, r1, r2, r3, hq⟩ := length7 _ h7
    simp only [hf, hq, pRow_length, h6, and_true]
    rfl
  basis := by
    intro l hl
    obtain ⟨l0, hl0, rfl⟩ := List.mem_map.mp hl
    rw [xformIn_typ, xformIn_dofs]
    exact h.basis l0 hl0
  mass := h.mass
  xiRot := by
    intro t ht
    rw [tcXi_equiv] at ht
    obtain ⟨t0, ht0, rfl⟩ := List.mem_map.mp ht
    rw [doTf_rot, normSq_quatMul, hg, one_mul]
    exact h.xiRot t0 ht0

section parts
variable (g : Tf ℝ) (hg : g.rot.IsUnit) (h : GenOK s x ins)
include hg h

theorem tcCdof_equiv (i : Nat) (hi : i < s.types.length) (h1 : i < (tcCdof s x ins).length)
    (h2 : i < (tcCdof s (x.map (Tf.doTf g)) (ins.map (xformIn g))).length) :
    RowsRel g s.types[i] (tcCdof s x ins)[i] (tcCdof s (x.map (Tf.doTf g)) (ins.map (xformIn g)))[i] := by
  have hii : i < ins.length := by rw [h.insLen]; exact hi
  have e1 : (tcCdof s x ins)[i] = cdofLink ins[i] ((jointFrames s x)[i]'(by
        rw [jointFrames_length s x h.parents h.links]; exact hi)) ((tcCom s x)[i]'(by
        rw [(tc_lengths h).2.1]; exact hi)) := by
    simp only [tcCdof, List.getElem_zipWith, List.getElem_zip]
  have e2 : (tcCdof s (x.map (Tf.doTf g)) (ins.map (xformIn g)))[i]
      = cdofLink (xformIn g ins[i]) (Tf.doTf g ((jointFrames s x)[i]'(by
        rw [jointFrames_length s x h.parents h.links]; exact hi))) (gP g ((tcCom s x)[i]'(by
        rw [(tc_lengths h).2.1]; exact hi))) := by
    simp only [tcCdof, List.getElem_zipWith, List.getElem_zip, List.getElem_map, tcCom_equiv g h,
      jointFrames_equiv g h]
  rw [e1, e2, ← h.typ i hii hi]
  exact cdofLink_equiv g hg ins[i] _ _ (h.basis _ (List.getElem_mem hii))

theorem tcCdofQd_get (i : Nat) (hii : i < ins.length) (h1 : i < (tcCdofQd s x ins).length)
    (h2 : i < (tcCdofQd s (x.map (Tf.doTf g)) (ins.map (xformIn g))).length)
    (h3 : i < (tcCdof s x ins).length)
    (h4 : i < (tcCdof s (x.map (Tf.doTf g)) (ins.map (xformIn g))).length) :
    (tcCdofQd s (x.map (Tf.doTf g)) (ins.map (xformIn g)))[i]
        = List.zipWith mulr (tcCdof s (x.map (Tf.doTf g)) (ins.map (xformIn g)))[i]
            (pRow g ins[i].typ ins[i].qd)
      ∧ (tcCdofQd s x ins)[i] = List.zipWith mulr (tcCdof s x ins)[i] ins[i].qd := by
  have hqd : (xformIn g ins[i]).qd = pRow g ins[i].typ ins[i].qd := by
    rw [xformIn_eq g _ (h.shape _ (List.getElem_mem hii))]
  constructor
  · simp only [tcCdofQd, List.getElem_zipWith, List.getElem_map, hqd]
  · simp only [tcCdofQd, List.getElem_zipWith]

theorem tcCd_equiv : tcCd s (x.map (Tf.doTf g)) (ins.map (xformIn g)) = (tcCd s x ins).map (rotM g) := by
  have h' := h.xform g hg
  obtain ⟨l1, l2, l3, l4, l5, l6, l7, l8⟩ := tc_lengths h
  obtain ⟨l1', l2', l3', l4', l5', l6', l7', l8'⟩ := tc_lengths h'
  apply forall₂_eq_map
  unfold tcCd
  apply scanFwd_rel (fun a b => b = rotM g a) (fun _ a b => sumM b = rotM g (sumM a))
  · intro p par par' a b hpar hS _
    unfold cdStep
    rw [hS, rotM_madd]
    cases hpar with
    | none => simp only [Option.getD_none, rotM_mzero]
    | some hab => simp only [Option.getD_some, hab]
  · apply zipS (fun _ a b => sumM b = rotM g (sumM a)) _ _ _ (l6.trans l6'.symm)
    intro i h0 h1 h2
    have hi : i < s.types.length := by rw [← l6]; exact h1
    have hii : i < ins.length := by rw [h.insLen]; exact hi
    obtain ⟨e1, e2⟩ := tcCdofQd_get g hg h i hii h1 h2 (by rw [l5]; exact hi) (by rw [l5']; exact hi)
    rw [e1, e2]
    apply sumM_rows_equiv g ins[i].typ _ _ _ _ (fun hf => (h.shape _ (List.getElem_mem hii) hf).2)
    rw [h.typ i hii hi]
    exact tcCdof_equiv g hg h i hi _ _

theorem tcCdofd_equiv (i : Nat) (hi : i < s.types.length) (h1 : i < (tcCdofd s x ins).length)
    (h2 : i < (tcCdofd s (x.map (Tf.doTf g)) (ins.map (xformIn g))).length) :
    DRel g s.types[i] (tcCdofd s x ins)[i] (tcCdofd s (x.map (Tf.doTf g)) (ins.map (xformIn g)))[i] := by
  have h' := h.xform g hg
  obtain ⟨l1, l2, l3, l4, l5, l6, l7, l8⟩ := tc_lengths h
  obtain ⟨l1', l2', l3', l4', l5', l6', l7', l8'⟩ := tc_lengths h'
  have hii : i < ins.length := by rw [h.insLen]; exact hi
  obtain ⟨hp, _, _, _⟩ := parentIdx_get h i hi
  obtain ⟨e1, e2⟩ := tcCdofQd_get g hg h i hii (by rw [l6]; exact hi) (by rw [l6']; exact hi)
    (by rw [l5]; exact hi) (by rw [l5']; exact hi)
  have f1 : (tcCdofd s x ins)[i] = cdofdLink ins[i].typ
      (takeParent (tcCd s x ins) Motion.zero (parentIdx s.types s.parents)[i])
      ((tcCdof s x ins)[i]'(by rw [l5]; exact hi))
      (List.zipWith mulr ((tcCdof s x ins)[i]'(by rw [l5]; exact hi)) ins[i].qd) := by
    simp only [tcCdofd, List.getElem_zipWith, List.getElem_zip, e2]
  have f2 : (tcCdofd s (x.map (Tf.doTf g)) (ins.map (xformIn g)))[i] = cdofdLink ins[i].typ
      (rotM g (takeParent (tcCd s x ins) Motion.zero (parentIdx s.types s.parents)[i]))
      ((tcCdof s (x.map (Tf.doTf g)) (ins.map (xformIn g)))[i]'(by rw [l5']; exact hi))
      (List.zipWith mulr ((tcCdof s (x.map (Tf.doTf g)) (ins.map (xformIn g)))[i]'(by rw [l5']; exact hi))
        (pRow g ins[i].typ ins[i].qd)) := by
    have ht : takeParent ((tcCd s x ins).map (rotM g)) Motion.zero (parentIdx s.types s.parents)[i]
        = rotM g (takeParent (tcCd s x ins) Motion.zero (parentIdx s.types s.parents)[i]) := by
      have := takeParent_map (tcCd s x ins) (rotM g) Motion.zero (parentIdx s.types s.parents)[i]
      rwa [rotM_mzero] at this
    have hL : tcCdofd s (x.map (Tf.doTf g)) (ins.map (xformIn g))
        = List.zipWith (fun (lp : LinkIn ℝ × Int) (cc : List (Motion ℝ) × List (Motion ℝ)) =>
            cdofdLink lp.1.typ (takeParent ((tcCd s x ins).map (rotM g)) Motion.zero lp.2) cc.1 cc.2)
          ((ins.map (xformIn g)).zip (parentIdx s.types s.parents))
          ((tcCdof s (x.map (Tf.doTf g)) (ins.map (xformIn g))).zip
            (tcCdofQd s (x.map (Tf.doTf g)) (ins.map (xformIn g)))) := by
      unfold tcCdofd; rw [tcCd_equiv g hg h]
    rw [getElem_congr_coll hL]
    simp only [List.getElem_zipWith, List.getElem_zip, List.getElem_map, xformIn_typ, e1, ht]
  rw [f1, f2, ← h.typ i hii hi]
  apply cdofdLink_equiv g hg ins[i].typ _ _ _ _ _ (fun hf => (h.shape _ (List.getElem_mem hii) hf).2)
  rw [h.typ i hii hi]
  exact tcCdof_equiv g hg h i hi _ _

theorem tcCinr_equiv : List.Forall₂ (IRel g) (tcCinr s x) (tcCinr s (x.map (Tf.doTf g))) := by
  have h' := h.xform g hg
  apply forall₂_of_getElem (by rw [(tc_lengths h).2.2.1, (tc_lengths h').2.2.1])
  intro i h1 h2
  simp only [tcCinr, List.getElem_zipWith, List.getElem_zip, tcCom_equiv g h, tcXi_equiv, List.getElem_map]
  apply cinrLink_equiv g hg
  exact h.xiRot _ (List.getElem_mem _)

/-- **`transform_com` is equivariant** -/
theorem transformCom_equiv :
    ComRel g s.types
      ⟨tcCom s x, tcCinr s x, tcCdof s x ins, tcCd s x ins, tcCdofd s x ins⟩
      ⟨tcCom s (x.map (Tf.doTf g)), tcCinr s (x.map (Tf.doTf g)),
       tcCdof s (x.map (Tf.doTf g)) (ins.map (xformIn g)),
       tcCd s (x.map (Tf.doTf g)) (ins.map (xformIn g)),
       tcCdofd s (x.map (Tf.doTf g)) (ins.map (xformIn g))⟩ := by
  have h' := h.xform g hg
  obtain ⟨l1, l2, l3, l4, l5, l6, l7, l8⟩ := tc_lengths h
  obtain ⟨l1', l2', l3', l4', l5', l6', l7', l8'⟩ := tc_lengths h'
  exact ⟨l3, l3', l5, l5', l7, l8, l8', tcCom_equiv g h, tcCinr_equiv g hg h,
    fun i hi h1 h2 => tcCdof_equiv g hg h i hi h1 h2, tcCd_equiv g hg h,
    fun i hi h1 h2 => tcCdofd_equiv g hg h i hi h1 h2⟩

end parts

end tc

/-! ## 4. the bias force (`dynamics.inverse`, recursive Newton–Euler) -/

/-- the action on a nested per-dof vector -/
noncomputable def pNest (g : Tf ℝ) (ts : List LinkType) (v : List (List ℝ)) : List (List ℝ) :=
  List.zipWith (pRow g) ts v

theorem pNest_length (g : Tf ℝ) (ts : List LinkType) (v : List (List ℝ)) :
    (pNest g ts v).length = min ts.length v.length := by simp [pNest]

theorem pNest_getElem (g : Tf ℝ) (ts : List LinkType) (v : List (List ℝ)) (i : Nat)
    (h : i < (pNest g ts v).length) :
    (pNest g ts v)[i] = pRow g (ts[i]'(by rw [pNest_length] at h; omega)) (v[i]'(by rw [pNest_length] at h; omega)) := by
  simp [pNest]

section inv
variable (g : Tf ℝ) (hg : g.rot.IsUnit) (ts : List LinkType) (ps : List Int) (grav : V3 ℝ)
  (c c' : ComState ℝ) (qdN : List (List ℝ))

/-- the intermediate stages of `dynamics.inverse` -/
noncomputable def invU (c : ComState ℝ) (qdN : List (List ℝ)) : List (List (Motion ℝ)) :=
  List.zipWith (fun cs qs => List.zipWith mulr cs qs) c.cdofd qdN
noncomputable def invCdd (c : ComState ℝ) (qdN : List (List ℝ)) : List (Motion ℝ) :=
  scanFwd (cddStep grav) ps (invU c qdN)
noncomputable def invFlat (c : ComState ℝ) (qdN : List (List ℝ)) : List (Force ℝ) :=
  List.zipWith (fun (ic : Inertia ℝ × Motion ℝ) (cd : Motion ℝ) => linkFrc ic.1 ic.2 cd)
    (c.cinr.zip (invCdd ps grav c qdN)) c.cd
noncomputable def invCfrc (c : ComState ℝ) (qdN : List (List ℝ)) : List (Force ℝ) :=
  revAcc Force.add ps (invFlat ps grav c qdN)

theorem inverse_eq : inverse ps grav c qdN
    = List.zipWith (fun cs (f : Force ℝ) => cs.map fun c => Motion.dotF c f) c.cdof (invCfrc ps grav c qdN) := rfl

variable (hrel : ComRel g ts c c') (hps : ps.length = ts.length) (hq : qdN.length = ts.length)
  (h6 : ∀ i (h1 : i < ts.length) (h2 : i < qdN.length), ts[i] = .free → qdN[i].length = 6)
include hg hrel hps hq h6

theorem invCdd_equiv :
    invCdd ps (rotate grav g.rot) c' (pNest g ts qdN) = (invCdd ps grav c qdN).map (rotM g) := by
  apply forall₂_eq_map
  unfold invCdd
  apply scanFwd_rel (fun a b => b = rotM g a) (fun _ a b => sumM b = rotM g (sumM a))
  · intro p par par' a b hpar hS _
    unfold cddStep
    rw [hS, rotM_madd]
    cases hpar with
    | none => simp only [Option.getD_none, rotM, rotate_neg, rotate_zero]
    | some hab => simp only [Option.getD_some, hab]
  · have hl : (invU c qdN).length = (invU c' (pNest g ts qdN)).length := by
      simp [invU, pNest, hrel.lcdofd, hrel.lcdofd', hq]
    apply zipS (fun _ a b => sumM b = rotM g (sumM a)) _ _ _ hl
    intro i h0 h1 h2
    have hi : i < ts.length := by rw [← hps]; exact h0
    have hiq : i < qdN.length := by rw [hq]; exact hi
    simp only [invU, pNest, List.getElem_zipWith]
    exact sumM_drows_equiv g ts[i] _ _ _ (hrel.cdofd i hi _ _) (h6 i hi hiq)

theorem invCdd_length : (invCdd ps grav c qdN).length = ts.length := by
  simp [invCdd, invU, scanFwd_length, hps, hrel.lcdofd, hq]

theorem invCfrc_equiv :
    List.Forall₂ (fun a b => b = rotF g a) (invCfrc ps grav c qdN)
      (invCfrc ps (rotate grav g.rot) c' (pNest g ts qdN)) := by
  unfold invCfrc
  apply revAcc_forall₂ _ _ _ (fun x y x' y' hx hy => by rw [hx, hy, rotF_Fadd])
  have hcd := invCdd_equiv g hg ts ps grav c c' qdN hrel hps hq h6
  have hl := invCdd_length g hg ts ps grav c c' qdN hrel hps hq h6
  have hlc := List.Forall₂.length_eq hrel.cinr
  apply forall₂_of_getElem
  · simp only [invFlat, hcd, hrel.cd, List.length_zipWith, List.length_zip, List.length_map, hlc]
  · intro i h1 h2
    simp only [invFlat, List.getElem_zipWith, List.getElem_zip, hcd, hrel.cd, List.getElem_map]
    exact linkFrc_equiv g hg (forall₂_getElem hrel.cinr i _ _) _ _

/-- **the bias force is equivariant** -/
theorem inverse_equiv :
    inverse ps (rotate grav g.rot) c' (pNest g ts qdN) = pNest g ts (inverse ps grav c qdN) := by
  have hf := invCfrc_equiv g hg ts ps grav c c' qdN hrel hps hq h6
  have hfl := List.Forall₂.length_eq hf
  rw [inverse_eq, inverse_eq]
  have hlen : (invCfrc ps grav c qdN).length = ts.length := by
    have hlc := List.Forall₂.length_eq hrel.cinr
    simp [invCfrc, revAcc_length, invFlat, invCdd_length g hg ts ps grav c c' qdN hrel hps hq h6,
      hrel.lcinr, hrel.lcd]
  apply List.ext_getElem
  · rw [pNest_length]
    simp only [List.length_zipWith]
    rw [← hfl, hlen, hrel.lcdof, hrel.lcdof']
    simp
  · intro i h1 h2
    have hi : i < ts.length := by
      rw [pNest_length] at h2; omega
    rw [pNest_getElem]
    simp only [List.getElem_zipWith]
    rw [forall₂_getElem hf i (by rw [hlen]; exact hi) (by rw [← hfl, hlen]; exact hi)]
    exact proj_rows_equiv g hg ts[i] _ _ _ (hrel.cdof i hi _ _)

end inv

/-! ## 5. flat vectors: the action on `qd`-shaped and `q`-shaped arrays -/

/-- the action on a flat per-dof vector (`qd`, forces, `qdd`) -/
noncomputable def pFlat (g : Tf ℝ) : List LinkType → List ℝ → List ℝ
  | [], v => v
  | t :: ts, v => pRow g t (v.take t.qdWidth) ++ pFlat g ts (v.drop t.qdWidth)

/-- the action on a flat `q` -/
noncomputable def xqFlat (g : Tf ℝ) : List LinkType → List ℝ → List ℝ
  | [], q => q
  | t :: ts, q => xq g t (q.take t.qWidth) ++ xqFlat g ts (q.drop t.qWidth)

theorem xq_length (g : Tf ℝ) (t : LinkType) (xs : List ℝ) : (xq g t xs).length = xs.length := by
  unfold xq
  split <;> rfl

theorem pFlat_length (g : Tf ℝ) (ts : List LinkType) (v : List ℝ) : (pFlat g ts v).length = v.length := by
  induction ts generalizing v with
  | nil => rfl
  | cons t ts ih =>
    simp only [pFlat, List.length_append, pRow_length, ih, List.length_take, List.length_drop]
    omega

theorem pRow_of_length_ne (g : Tf ℝ) (t : LinkType) (xs : List ℝ) (h : xs.length ≠ 6) : pRow g t xs = xs := by
  unfold pRow
  split
  · simp at h
  · rfl

theorem pRow_lin (g : Tf ℝ) (t : LinkType) (α β : ℝ) (x y : List ℝ) (h : x.length = y.length) :
    pRow g t (List.zipWith (fun a b => α * a + β * b) x y)
      = List.zipWith (fun a b => α * a + β * b) (pRow g t x) (pRow g t y) := by
  by_cases hf : t = .free
  · by_cases h6 : x.length = 6
    · obtain ⟨a0, a1, a2, a3, a4, a5, rfl⟩ := length6 _ h6
      obtain ⟨b0, b1, b2, b3, b4, b5, rfl⟩ := length6 _ (h ▸ h6)
      subst hf
      simp only [List.zipWith_cons_cons, List.zipWith_nil_right, pRow_free6, rotate, V3.dot, V3.cross, Q4.vec]
      refine List.cons_eq_cons.mpr ⟨by ring, List.cons_eq_cons.mpr ⟨by ring, List.cons_eq_cons.mpr ⟨by ring, rfl⟩⟩⟩
    · rw [pRow_of_length_ne g t x h6, pRow_of_length_ne g t y (h ▸ h6), pRow_of_length_ne]
      simp [← h, h6]
  · rw [pRow_nonfree g hf, pRow_nonfree g hf, pRow_nonfree g hf]

theorem pFlat_lin (g : Tf ℝ) (α β : ℝ) (ts : List LinkType) (u v : List ℝ) (h : u.length = v.length) :
    pFlat g ts (List.zipWith (fun a b => α * a + β * b) u v)
      = List.zipWith (fun a b => α * a + β * b) (pFlat g ts u) (pFlat g ts v) := by
  induction ts generalizing u v with
  | nil => rfl
  | cons t ts ih =>
    simp only [pFlat, List.take_zipWith, List.drop_zipWith]
    rw [pRow_lin g t α β _ _ (by simp [h]), ih _ _ (by simp [h]), List.zipWith_append]
    simp [pRow_length, h]

theorem pFlat_add (g : Tf ℝ) (ts : List LinkType) (u v : List ℝ) (h : u.length = v.length) :
    pFlat g ts (List.zipWith (· + ·) u v) = List.zipWith (· + ·) (pFlat g ts u) (pFlat g ts v) := by
  have e : (fun a b : ℝ => a + b) = fun a b => 1 * a + 1 * b := by funext a b; ring
  show pFlat g ts (List.zipWith (fun a b => a + b) u v) = List.zipWith (fun a b => a + b) _ _
  rw [e]
  exact pFlat_lin g 1 1 ts u v h

theorem pFlat_sub (g : Tf ℝ) (ts : List LinkType) (u v : List ℝ) (h : u.length = v.length) :
    pFlat g ts (List.zipWith (fun a b => a - b) u v) = List.zipWith (fun a b => a - b) (pFlat g ts u) (pFlat g ts v) := by
  have e : (fun a b : ℝ => a - b) = fun a b => 1 * a + (-1) * b := by funext a b; ring
  rw [e]
  exact pFlat_lin g 1 (-1) ts u v h

theorem pFlat_axpy (g : Tf ℝ) (dt : ℝ) (ts : List LinkType) (u v : List ℝ) (h : u.length = v.length) :
    pFlat g ts (List.zipWith (fun a b => a + b * dt) u v)
      = List.zipWith (fun a b => a + b * dt) (pFlat g ts u) (pFlat g ts v) := by
  have e : (fun a b : ℝ => a + b * dt) = fun a b => 1 * a + dt * b := by funext a b; ring
  rw [e]
  exact pFlat_lin g 1 dt ts u v h

/-- nested rows with the full widths -/
def ChunksQd (ts : List LinkType) (N : List (List ℝ)) : Prop :=
  List.Forall₂ (fun (t : LinkType) (r : List ℝ) => r.length = t.qdWidth) ts N
def ChunksQ (ts : List LinkType) (N : List (List ℝ)) : Prop :=
  List.Forall₂ (fun (t : LinkType) (r : List ℝ) => r.length = t.qWidth) ts N

theorem pFlat_flatten (g : Tf ℝ) {ts : List LinkType} {N : List (List ℝ)} (h : ChunksQd ts N) :
    pFlat g ts N.flatten = (pNest g ts N).flatten := by
  induction h with
  | nil => rfl
  | @cons t r ts N hr _ ih =>
    simp only [pFlat, pNest, List.flatten_cons, List.zipWith_cons_cons]
    rw [List.take_left' hr, List.drop_left' hr, ih]
    rfl

theorem xqFlat_flatten (g : Tf ℝ) {ts : List LinkType} {N : List (List ℝ)} (h : ChunksQ ts N) :
    xqFlat g ts N.flatten = (List.zipWith (xq g) ts N).flatten := by
  induction h with
  | nil => rfl
  | @cons t r ts N hr _ ih =>
    simp only [xqFlat, List.flatten_cons, List.zipWith_cons_cons]
    rw [List.take_left' hr, List.drop_left' hr, ih]

/-- the slices of the transformed flat coordinates are the transformed slices -/
theorem linkSlices_xform (g : Tf ℝ) : ∀ (ts : List LinkType) (q qd : List ℝ) (ds : List (DofP ℝ)),
    (ts.map LinkType.qWidth).sum ≤ q.length → (ts.map LinkType.qdWidth).sum ≤ qd.length →
    linkSlices ts (xqFlat g ts q) (pFlat g ts qd) ds = (linkSlices ts q qd ds).map (xformIn g)
  | [], _, _, _, _, _ => rfl
  | t :: ts, q, qd, ds, hq, hqd => by
    simp only [List.map_cons, List.sum_cons] at hq hqd
    have h1 : (xq g t (q.take t.qWidth)).length = t.qWidth := by
      rw [xq_length, List.length_take]; omega
    have h2 : (pRow g t (qd.take t.qdWidth)).length = t.qdWidth := by
      rw [pRow_length, List.length_take]; omega
    simp only [linkSlices, xqFlat, pFlat, List.map_cons]
    rw [List.take_left' h1, List.take_left' h2, List.drop_left' h1, List.drop_left' h2,
      linkSlices_xform g ts _ _ _ (by rw [List.length_drop]; omega) (by rw [List.length_drop]; omega)]
    congr 1
    rw [xformIn_eq]
    intro hf
    simp only at hf
    subst hf
    simp only [List.length_take]
    exact ⟨by have : LinkType.free.qWidth = 7 := rfl; omega, by have : LinkType.free.qdWidth = 6 := rfl; omega⟩

/-- full slices: every link gets all its coordinates -/
theorem linkSlices_full : ∀ (ts : List LinkType) (q qd : List ℝ) (ds : List (DofP ℝ)),
    (ts.map LinkType.qWidth).sum ≤ q.length → (ts.map LinkType.qdWidth).sum ≤ qd.length →
    (ts.map LinkType.qdWidth).sum ≤ ds.length →
    List.Forall₂ (fun (t : LinkType) (l : LinkIn ℝ) => l.typ = t ∧ l.q.length = t.qWidth
      ∧ l.qd.length = t.qdWidth ∧ l.dofs.length = t.qdWidth) ts (linkSlices ts q qd ds)
  | [], _, _, _, _, _, _ => List.Forall₂.nil
  | t :: ts, q, qd, ds, hq, hqd, hds => by
    simp only [List.map_cons, List.sum_cons] at hq hqd hds
    refine List.Forall₂.cons ⟨rfl, ?_, ?_, ?_⟩
      (linkSlices_full ts _ _ _ (by rw [List.length_drop]; omega) (by rw [List.length_drop]; omega)
        (by rw [List.length_drop]; omega))
    · simp only [List.length_take]; omega
    · simp only [List.length_take]; omega
    · simp only [List.length_take]; omega

/-! ## 6. passive force, actuator force, integrator, per link -/

/-- the three translational dofs of a free link share their damping and armature (MJCF gives one scalar
per joint; distinct values would be a world-axis-aligned, hence frame-dependent, damper) -/
def IsoFree (l : LinkIn ℝ) : Prop :=
  l.typ = .free → ∃ d0 d1 d2 d3 d4 d5, l.dofs = [d0, d1, d2, d3, d4, d5]
    ∧ d0.damping = d1.damping ∧ d1.damping = d2.damping
    ∧ d0.armature = d1.armature ∧ d1.armature = d2.armature

/-- **`_passive` of one link is equivariant** -/
theorem passiveLink_equiv (g : Tf ℝ) (l : LinkIn ℝ) (hs : Shape l) (hi : IsoFree l) :
    passiveLink (xformIn g l) = pRow g l.typ (passiveLink l) := by
  by_cases hf : l.typ = .free
  · obtain ⟨h7, h6⟩ := hs hf
    obtain ⟨p0, p1, p2, r0, r1, r2, r3, hq⟩ := length7 _ h7
    obtain ⟨v0, v1, v2, w0, w1, w2, hqd⟩ := length6 _ h6
    obtain ⟨d0, d1, d2, d3, d4, d5, hd, e1, e2, _, _⟩ := hi hf
    rw [xformIn_eq g l hs]
    obtain ⟨t, q, qd, ds⟩ := l
    simp only at hf hq hqd hd
    subst hf hq hqd hd
    simp only [passiveLink, pRow_free6, List.map_cons, List.map_nil, List.zip_cons_cons, List.zip_nil_right,
      List.zipWith_cons_cons, List.zipWith_nil_right]
    rw [← e2, ← e1]
    simp only [rotate, V3.dot, V3.cross, Q4.vec]
    refine List.cons_eq_cons.mpr ⟨by ring, List.cons_eq_cons.mpr ⟨by ring, List.cons_eq_cons.mpr ⟨by ring, rfl⟩⟩⟩
  · rw [xformIn_nonfree g l hf, pRow_nonfree g hf]

/-- the coordinates actuators read agree in the two scenes (a rigid transform changes only the
coordinates of free roots; actuators drive hinge/slide dofs) -/
def ActAgreeG (acts : List (ActP ℝ)) (q qd q' qd' : List ℝ) : Prop :=
  ∀ a ∈ acts, gather q' a.qId = gather q a.qId ∧ gather qd' a.qdId = gather qd a.qdId

theorem toTau_congrG (nv : Nat) (acts : List (ActP ℝ)) (u q qd q' qd' : List ℝ)
    (h : ActAgreeG acts q qd q' qd') : toTau nv acts u q' qd' = toTau nv acts u q qd := by
  unfold toTau
  generalize List.replicate nv (0 : ℝ) = init
  induction acts generalizing u init with
  | nil => rfl
  | cons a acts ih =>
    cases u with
    | nil => rfl
    | cons x u =>
      simp only [List.zip_cons_cons, List.foldl_cons]
      rw [(h a (by simp)).1, (h a (by simp)).2]
      exact ih u (fun b hb => h b (by simp [hb])) _

theorem toTau_length (nv : Nat) (acts : List (ActP ℝ)) (u q qd : List ℝ) :
    (toTau nv acts u q qd).length = nv := by
  unfold toTau
  rw [foldl_addAt_length (acts.zip u) (fun au => au.1.qdId) _ (List.replicate nv 0)]
  simp

/-- **the free-joint quaternion integration is equivariant** (the `1e-8` guard acts on the body-frame
angular velocity, which the transform does not change) -/
theorem integrateQFree_equiv (g : Tf ℝ) (hg : g.rot.IsUnit) (dt p0 p1 p2 r0 r1 r2 r3 v0 v1 v2 w0 w1 w2 : ℝ) :
    integrateQFree dt (xq g .free [p0, p1, p2, r0, r1, r2, r3]) (pRow g .free [v0, v1, v2, w0, w1, w2])
      = xq g .free (integrateQFree dt [p0, p1, p2, r0, r1, r2, r3] [v0, v1, v2, w0, w1, w2]) := by
  have eta : ∀ q : Q4 ℝ, (⟨q.w, q.x, q.y, q.z⟩ : Q4 ℝ) = q := fun _ => rfl
  simp only [xq, pRow_free6, integrateQFree, doTf_rot, eta, quatMul_assoc]
  generalize quatMul (⟨r0, r1, r2, r3⟩ : Q4 ℝ) (quatRotAxis _ _) = rn
  have hn : (quatMul g.rot rn).w * (quatMul g.rot rn).w + (quatMul g.rot rn).x * (quatMul g.rot rn).x
      + (quatMul g.rot rn).y * (quatMul g.rot rn).y + (quatMul g.rot rn).z * (quatMul g.rot rn).z
      = rn.w * rn.w + rn.x * rn.x + rn.y * rn.y + rn.z * rn.z := by
    have h1 := normSq_quatMul g.rot rn
    have h2 : Q4.normSq g.rot = 1 := hg
    simp only [Q4.normSq] at h1 h2
    rw [h1, h2, one_mul]
  rw [hn]
  generalize HasSqrt.sqrt (rn.w * rn.w + rn.x * rn.x + rn.y * rn.y + rn.z * rn.z) = n
  have hq := C05L.quatMul_div g.rot rn n
  have hw := congrArg Q4.w hq
  have hx := congrArg Q4.x hq
  have hy := congrArg Q4.y hq
  have hz := congrArg Q4.z hq
  simp only at hw hx hy hz
  rw [hw, hx, hy, hz]
  simp only [Tf.doTf, V3.add_def, rotate, V3.dot, V3.cross, Q4.vec]
  refine List.cons_eq_cons.mpr ⟨by ring, List.cons_eq_cons.mpr ⟨by ring, List.cons_eq_cons.mpr ⟨by ring, rfl⟩⟩⟩

/-- **`q_fn` of one link is equivariant** -/
theorem integrateQLink_equiv (g : Tf ℝ) (hg : g.rot.IsUnit) (dt : ℝ) (l : LinkIn ℝ) (hs : Shape l) :
    integrateQLink dt (xformIn g l) = xq g l.typ (integrateQLink dt l) := by
  by_cases hf : l.typ = .free
  · obtain ⟨h7, h6⟩ := hs hf
    obtain ⟨p0, p1, p2, r0, r1, r2, r3, hq⟩ := length7 _ h7
    obtain ⟨v0, v1, v2, w0, w1, w2, hqd⟩ := length6 _ h6
    rw [xformIn_eq g l hs]
    obtain ⟨t, q, qd, ds⟩ := l
    simp only at hf hq hqd
    subst hf hq hqd
    exact integrateQFree_equiv g hg dt p0 p1 p2 r0 r1 r2 r3 v0 v1 v2 w0 w1 w2
  · rw [xformIn_nonfree g l hf, xq_nonfree g hf]

/-! ## 7. the whole step -/

/-- the state arrays have the sizes of the system -/
structure Full (s : Sys ℝ) (q qd : List ℝ) : Prop where
  hq : q.length = s.nq
  hqd : qd.length = s.nv
  hds : s.dofs.length = s.nv

theorem map_pRow (g : Tf ℝ) (F : LinkIn ℝ → List ℝ) {ts : List LinkType} {ins : List (LinkIn ℝ)}
    {P : LinkType → LinkIn ℝ → Prop} (hP : ∀ t l, P t l → l.typ = t) (h : List.Forall₂ P ts ins) :
    ins.map (fun l => pRow g l.typ (F l)) = pNest g ts (ins.map F) := by
  induction h with
  | nil => rfl
  | @cons t l ts ins htl _ ih =>
    simp only [List.map_cons, pNest, List.zipWith_cons_cons, hP t l htl]
    exact congrArg _ ih

theorem map_xq (g : Tf ℝ) (F : LinkIn ℝ → List ℝ) {ts : List LinkType} {ins : List (LinkIn ℝ)}
    {P : LinkType → LinkIn ℝ → Prop} (hP : ∀ t l, P t l → l.typ = t) (h : List.Forall₂ P ts ins) :
    ins.map (fun l => xq g l.typ (F l)) = List.zipWith (xq g) ts (ins.map F) := by
  induction h with
  | nil => rfl
  | @cons t l ts ins htl _ ih =>
    simp only [List.map_cons, List.zipWith_cons_cons, hP t l htl]
    exact congrArg _ ih

theorem chunks_map {ts : List LinkType} {ins : List (LinkIn ℝ)} {P : LinkType → LinkIn ℝ → Prop}
    (F : LinkIn ℝ → List ℝ) (w : LinkType → Nat) (hP : ∀ t l, P t l → (F l).length = w t)
    (h : List.Forall₂ P ts ins) :
    List.Forall₂ (fun (t : LinkType) (r : List ℝ) => r.length = w t) ts (ins.map F) := by
  induction h with
  | nil => exact List.Forall₂.nil
  | @cons t l ts ins htl _ ih => exact List.Forall₂.cons (hP t l htl) ih

theorem chunks_flatten_length {ts : List LinkType} {N : List (List ℝ)} (h : ChunksQd ts N) :
    N.flatten.length = (ts.map LinkType.qdWidth).sum := by
  induction h with
  | nil => rfl
  | @cons t r ts N hr _ ih => simp only [List.flatten_cons, List.length_append, List.map_cons, List.sum_cons, hr, ih]

section step
variable (g : Tf ℝ) (hg : g.rot.IsUnit) (s : Sys ℝ) (q qd : List ℝ)

/-- the hypotheses of the step theorem on the system and the state -/
structure StepOK : Prop where
  full : Full s q qd
  ok : GenOK s ((Kin.forward s q qd).map (·.1)) (linkSlices s.types q qd s.dofs)
  iso : ∀ l ∈ linkSlices s.types q qd s.dofs, IsoFree l
  fw : (Kin.forward s (xqFlat g s.types q) (pFlat g s.types qd)).map (·.1)
        = ((Kin.forward s q qd).map (·.1)).map (Tf.doTf g)

variable (h : StepOK g s q qd)
include hg h

theorem slices_xform :
    linkSlices s.types (xqFlat g s.types q) (pFlat g s.types qd) s.dofs
      = (linkSlices s.types q qd s.dofs).map (xformIn g) :=
  linkSlices_xform g s.types q qd s.dofs (by rw [h.full.hq]; exact le_refl _)
    (by rw [h.full.hqd]; exact le_refl _)

theorem slices_full :
    List.Forall₂ (fun (t : LinkType) (l : LinkIn ℝ) => l.typ = t ∧ l.q.length = t.qWidth
      ∧ l.qd.length = t.qdWidth ∧ l.dofs.length = t.qdWidth) s.types (linkSlices s.types q qd s.dofs) :=
  linkSlices_full s.types q qd s.dofs (by rw [h.full.hq]; exact le_refl _)
    (by rw [h.full.hqd]; exact le_refl _) (by rw [h.full.hds]; exact le_refl _)

/-- **the CoM-frame quantities `pipeline.init` computes are equivariant** -/
theorem dynInit_com_equiv :
    ComRel g s.types (dynInit s q qd).com
      (dynInit (C05L.gSys g s) (xqFlat g s.types q) (pFlat g s.types qd)).com := by
  have e1 : (dynInit (C05L.gSys g s) (xqFlat g s.types q) (pFlat g s.types qd)).com
      = ⟨tcCom s ((Kin.forward s (xqFlat g s.types q) (pFlat g s.types qd)).map (·.1)),
         tcCinr s ((Kin.forward s (xqFlat g s.types q) (pFlat g s.types qd)).map (·.1)),
         tcCdof s ((Kin.forward s (xqFlat g s.types q) (pFlat g s.types qd)).map (·.1))
           (linkSlices s.types (xqFlat g s.types q) (pFlat g s.types qd) s.dofs),
         tcCd s ((Kin.forward s (xqFlat g s.types q) (pFlat g s.types qd)).map (·.1))
           (linkSlices s.types (xqFlat g s.types q) (pFlat g s.types qd) s.dofs),
         tcCdofd s ((Kin.forward s (xqFlat g s.types q) (pFlat g s.types qd)).map (·.1))
           (linkSlices s.types (xqFlat g s.types q) (pFlat g s.types qd) s.dofs)⟩ := rfl
  rw [e1, h.fw, slices_xform g hg s q qd h]
  exact transformCom_equiv g hg h.ok

theorem qdN_equiv :
    (linkSlices s.types (xqFlat g s.types q) (pFlat g s.types qd) s.dofs).map (·.qd)
      = pNest g s.types ((linkSlices s.types q qd s.dofs).map (·.qd)) := by
  rw [slices_xform g hg s q qd h, List.map_map,
    ← map_pRow g (fun l => l.qd) (fun t l hl => hl.1) (slices_full g hg s q qd h)]
  apply List.map_congr_left
  intro l hl
  simp only [Function.comp, xformIn_eq g l (h.ok.shape l hl)]

theorem cdof_chunks : List.Forall₂ (fun (t : LinkType) (r : List (Motion ℝ)) => r.length = t.qdWidth)
    s.types (dynInit s q qd).com.cdof := by
  have hf := slices_full g hg s q qd h
  have hl := (tc_lengths h.ok).2.2.2.2.1
  apply forall₂_of_getElem
  · exact hl.symm
  · intro i h1 h2
    have hii : i < (linkSlices s.types q qd s.dofs).length := by rw [h.ok.insLen]; exact h1
    have hrow := forall₂_getElem hf i h1 hii
    show ((tcCdof s _ (linkSlices s.types q qd s.dofs))[i]'h2).length = _
    simp only [tcCdof, List.getElem_zipWith]
    rw [cdofLink_length, hrow.2.2.2]
    intro hnf
    rw [hrow.2.1, hrow.2.2.2]
    have ht := hrow.1
    cases hti : s.types[i] <;> first | (rw [hti] at ht; exact absurd ht hnf) | rfl

/-- **the bias force of `pipeline.step` is equivariant** -/
theorem bias_equiv :
    biasFlat (C05L.gSys g s) (dynInit (C05L.gSys g s) (xqFlat g s.types q) (pFlat g s.types qd))
        (xqFlat g s.types q) (pFlat g s.types qd)
      = pFlat g s.types (biasFlat s (dynInit s q qd) q qd) := by
  have hrel := dynInit_com_equiv g hg s q qd h
  have hf := slices_full g hg s q qd h
  have hqn : ((linkSlices s.types q qd s.dofs).map (·.qd)).length = s.types.length := by
    rw [List.length_map, h.ok.insLen]
  have h6 : ∀ i (h1 : i < s.types.length) (h2 : i < ((linkSlices s.types q qd s.dofs).map (·.qd)).length),
      s.types[i] = .free → (((linkSlices s.types q qd s.dofs).map (fun l : LinkIn ℝ => l.qd))[i]).length = 6 := by
    intro i h1 h2 hfree
    have hii : i < (linkSlices s.types q qd s.dofs).length := by rw [h.ok.insLen]; exact h1
    have hrow := forall₂_getElem hf i h1 hii
    simp only [List.getElem_map]
    rw [hrow.2.2.1, hfree]; rfl
  have hinv := inverse_equiv g hg s.types s.parents s.gravity _ _ _ hrel h.ok.parents hqn h6
  have hcf : (invCfrc s.parents s.gravity (dynInit s q qd).com ((linkSlices s.types q qd s.dofs).map (·.qd))).length
      = s.types.length := by
    have hlc := invCdd_length g hg s.types s.parents s.gravity _ _ _ hrel h.ok.parents hqn h6
    simp [invCfrc, revAcc_length, invFlat, hlc, hrel.lcinr, hrel.lcd]
  have hch : ChunksQd s.types (inverse s.parents s.gravity (dynInit s q qd).com
      ((linkSlices s.types q qd s.dofs).map (·.qd))) := by
    have hc := cdof_chunks g hg s q qd h
    rw [inverse_eq]
    apply forall₂_of_getElem
    · simp [hrel.lcdof, hcf]
    · intro i h1 h2
      simp only [List.getElem_zipWith, List.length_map]
      exact forall₂_getElem hc i h1 (by rw [hrel.lcdof]; exact h1)
  show (inverse s.parents (rotate s.gravity g.rot) _
      ((linkSlices s.types (xqFlat g s.types q) (pFlat g s.types qd) s.dofs).map (·.qd))).flatten
    = pFlat g s.types (inverse s.parents s.gravity (dynInit s q qd).com
        ((linkSlices s.types q qd s.dofs).map (·.qd))).flatten
  rw [qdN_equiv g hg s q qd h, hinv, pFlat_flatten g hch]

/-- **`_passive` of the whole system is equivariant** -/
theorem passive_equiv :
    passiveFlat (C05L.gSys g s) (xqFlat g s.types q) (pFlat g s.types qd)
      = pFlat g s.types (passiveFlat s q qd) := by
  have hf := slices_full g hg s q qd h
  show ((linkSlices s.types (xqFlat g s.types q) (pFlat g s.types qd) s.dofs).map passiveLink).flatten
    = pFlat g s.types ((linkSlices s.types q qd s.dofs).map passiveLink).flatten
  have hch : ChunksQd s.types ((linkSlices s.types q qd s.dofs).map passiveLink) := by
    apply chunks_map passiveLink LinkType.qdWidth _ hf
    intro t l hl
    obtain ⟨ht, hq, hqd, hd⟩ := hl
    unfold passiveLink
    cases hti : l.typ <;> simp [hq, hqd, hd, ← ht, hti, LinkType.qWidth, LinkType.qdWidth]
  rw [slices_xform g hg s q qd h, List.map_map, pFlat_flatten g hch,
    ← map_pRow g passiveLink (fun t l hl => hl.1) hf]
  congr 1
  apply List.map_congr_left
  intro l hl
  exact passiveLink_equiv g l (h.ok.shape l hl) (h.iso l hl)

theorem passive_length : (passiveFlat s q qd).length = s.nv := by
  have hf := slices_full g hg s q qd h
  have hch : ChunksQd s.types ((linkSlices s.types q qd s.dofs).map passiveLink) := by
    apply chunks_map passiveLink LinkType.qdWidth _ hf
    intro t l hl
    obtain ⟨ht, hq, hqd, hd⟩ := hl
    unfold passiveLink
    cases hti : l.typ <;> simp [hq, hqd, hd, ← ht, hti, LinkType.qWidth, LinkType.qdWidth]
  exact chunks_flatten_length hch

theorem bias_length : (biasFlat s (dynInit s q qd) q qd).length = s.nv := by
  have hrel := dynInit_com_equiv g hg s q qd h
  have hf := slices_full g hg s q qd h
  have hqn : ((linkSlices s.types q qd s.dofs).map (·.qd)).length = s.types.length := by
    rw [List.length_map, h.ok.insLen]
  have h6 : ∀ i (h1 : i < s.types.length) (h2 : i < ((linkSlices s.types q qd s.dofs).map (·.qd)).length),
      s.types[i] = .free → (((linkSlices s.types q qd s.dofs).map (fun l : LinkIn ℝ => l.qd))[i]).length = 6 := by
    intro i h1 h2 hfree
    have hii : i < (linkSlices s.types q qd s.dofs).length := by rw [h.ok.insLen]; exact h1
    have hrow := forall₂_getElem hf i h1 hii
    simp only [List.getElem_map]
    rw [hrow.2.2.1, hfree]; rfl
  have hcf : (invCfrc s.parents s.gravity (dynInit s q qd).com ((linkSlices s.types q qd s.dofs).map (·.qd))).length
      = s.types.length := by
    have hlc := invCdd_length g hg s.types s.parents s.gravity _ _ _ hrel h.ok.parents hqn h6
    simp [invCfrc, revAcc_length, invFlat, hlc, hrel.lcinr, hrel.lcd]
  have hch : ChunksQd s.types (inverse s.parents s.gravity (dynInit s q qd).com
      ((linkSlices s.types q qd s.dofs).map (·.qd))) := by
    have hc := cdof_chunks g hg s q qd h
    rw [inverse_eq]
    apply forall₂_of_getElem
    · simp [hrel.lcdof, hcf]
    · intro i h1 h2
      simp only [List.getElem_zipWith, List.length_map]
      exact forall₂_getElem hc i h1 (by rw [hrel.lcdof]; exact h1)
  exact chunks_flatten_length hch

/-- **the total smooth joint force `qf_smooth` is equivariant** -/
theorem qfSmooth_equiv (act : List ℝ)
    (hact : ActAgreeG s.acts q qd (xqFlat g s.types q) (pFlat g s.types qd))
    (htau : pFlat g s.types (toTau s.nv s.acts act q qd) = toTau s.nv s.acts act q qd) :
    qfSmooth (C05L.gSys g s) (dynInit (C05L.gSys g s) (xqFlat g s.types q) (pFlat g s.types qd))
        (xqFlat g s.types q) (pFlat g s.types qd) act
      = pFlat g s.types (qfSmooth s (dynInit s q qd) q qd act) := by
  unfold qfSmooth Gd.forward
  rw [passive_equiv g hg s q qd h, bias_equiv g hg s q qd h]
  have e : toTau (C05L.gSys g s).nv (C05L.gSys g s).acts act (xqFlat g s.types q) (pFlat g s.types qd)
      = pFlat g s.types (toTau s.nv s.acts act q qd) := by
    rw [htau]; exact toTau_congrG s.nv s.acts act q qd _ _ hact
  rw [e]
  have l1 := passive_length g hg s q qd h
  have l2 := bias_length g hg s q qd h
  have l3 := toTau_length s.nv s.acts act q qd
  rw [← pFlat_sub g s.types _ _ (l1.trans l2.symm)]
  exact (pFlat_add g s.types _ _ (by simp [l1, l2, l3])).symm

theorem qfSmooth_length (act : List ℝ) : (qfSmooth s (dynInit s q qd) q qd act).length = s.nv := by
  have l1 := passive_length g hg s q qd h
  have l2 := bias_length g hg s q qd h
  have l3 := toTau_length s.nv s.acts act q qd
  simp [qfSmooth, Gd.forward, l1, l2, l3]

end step

/-- slices of full arrays have the shape `xformIn` expects -/
theorem linkSlices_shape : ∀ (ts : List LinkType) (q qd : List ℝ) (ds : List (DofP ℝ)),
    (ts.map LinkType.qWidth).sum ≤ q.length → (ts.map LinkType.qdWidth).sum ≤ qd.length →
    List.Forall₂ (fun (t : LinkType) (l : LinkIn ℝ) => l.typ = t ∧ l.q.length = t.qWidth
      ∧ l.qd.length = t.qdWidth) ts (linkSlices ts q qd ds)
  | [], _, _, _, _, _ => List.Forall₂.nil
  | t :: ts, q, qd, ds, hq, hqd => by
    simp only [List.map_cons, List.sum_cons] at hq hqd
    refine List.Forall₂.cons ⟨rfl, ?_, ?_⟩
      (linkSlices_shape ts _ _ _ (by rw [List.length_drop]; omega) (by rw [List.length_drop]; omega))
    · simp only [List.length_take]; omega
    · simp only [List.length_take]; omega

theorem integrateQLink_length (dt : ℝ) (t : LinkType) (l : LinkIn ℝ)
    (hl : l.typ = t ∧ l.q.length = t.qWidth ∧ l.qd.length = t.qdWidth) :
    (integrateQLink dt l).length = t.qWidth := by
  obtain ⟨ht, hq, hqd⟩ := hl
  unfold integrateQLink
  cases hti : l.typ with
  | free =>
    rw [hti] at ht; subst ht
    obtain ⟨p0, p1, p2, r0, r1, r2, r3, e1⟩ := length7 _ hq
    obtain ⟨v0, v1, v2, w0, w1, w2, e2⟩ := length6 _ hqd
    simp only [e1, e2, integrateQFree]
    rfl
  | one | two | three =>
    all_goals
      simp only [List.length_zipWith, hq, hqd, ← ht, hti, LinkType.qWidth, LinkType.qdWidth]
      rfl

/-- **the position update of the integrator is equivariant** -/
theorem integrateQ_equiv (g : Tf ℝ) (hg : g.rot.IsUnit) (dt : ℝ) (ts : List LinkType) (q qd : List ℝ)
    (ds : List (DofP ℝ)) (hq : (ts.map LinkType.qWidth).sum ≤ q.length)
    (hqd : (ts.map LinkType.qdWidth).sum ≤ qd.length) :
    ((linkSlices ts (xqFlat g ts q) (pFlat g ts qd) ds).map (integrateQLink dt)).flatten
      = xqFlat g ts ((linkSlices ts q qd ds).map (integrateQLink dt)).flatten := by
  have hs := linkSlices_shape ts q qd ds hq hqd
  have hch : ChunksQ ts ((linkSlices ts q qd ds).map (integrateQLink dt)) :=
    chunks_map (integrateQLink dt) LinkType.qWidth (fun t l hl => integrateQLink_length dt t l hl) hs
  rw [linkSlices_xform g ts q qd ds hq hqd, List.map_map, xqFlat_flatten g hch,
    ← map_xq g (integrateQLink dt) (fun t l hl => hl.1) hs]
  congr 1
  apply List.map_congr_left
  intro l hl
  simp only [Function.comp]
  apply integrateQLink_equiv g hg dt l
  intro hf
  obtain ⟨i, hi, rfl⟩ := List.mem_iff_getElem.mp hl
  have hrow := forall₂_getElem hs i (by rw [← linkSlices_length ts q qd ds]; exact hi) hi
  rw [hrow.2.1, hrow.2.2, ← hrow.1, hf]
  exact ⟨rfl, rfl⟩

/-- **`integrator.integrate` is equivariant**, given that the linear solve is
(`hsolve`; see `solve_equiv_of_exact`) -/
theorem integrate_equiv (g : Tf ℝ) (hg : g.rot.IsUnit) (solve : List (List ℝ) → List ℝ → List ℝ)
    (s : Sys ℝ) (M M' : List (List ℝ)) (q qd f c : List ℝ) (hfull : Full s q qd)
    (hf : f.length = s.nv) (hc : c.length = s.nv)
    (hlen : (solve (dampedMatrix M (s.dofs.map (·.damping)) s.dt) (List.zipWith (· + ·) f c)).length = s.nv)
    (hsolve : solve (dampedMatrix M' (s.dofs.map (·.damping)) s.dt) (pFlat g s.types (List.zipWith (· + ·) f c))
      = pFlat g s.types (solve (dampedMatrix M (s.dofs.map (·.damping)) s.dt) (List.zipWith (· + ·) f c))) :
    integrate solve (C05L.gSys g s) M' (xqFlat g s.types q) (pFlat g s.types qd)
        (pFlat g s.types f) (pFlat g s.types c)
      = (xqFlat g s.types (integrate solve s M q qd f c).1,
         pFlat g s.types (integrate solve s M q qd f c).2.1,
         pFlat g s.types (integrate solve s M q qd f c).2.2) := by
  have hb : List.zipWith (· + ·) (pFlat g s.types f) (pFlat g s.types c)
      = pFlat g s.types (List.zipWith (· + ·) f c) := (pFlat_add g s.types f c (hf.trans hc.symm)).symm
  set qdd := solve (dampedMatrix M (s.dofs.map (·.damping)) s.dt) (List.zipWith (· + ·) f c) with hqdd
  have e3 : (integrate solve (C05L.gSys g s) M' (xqFlat g s.types q) (pFlat g s.types qd)
      (pFlat g s.types f) (pFlat g s.types c)).2.2 = pFlat g s.types qdd := by
    show solve (dampedMatrix M' (s.dofs.map (·.damping)) s.dt)
      (List.zipWith (· + ·) (pFlat g s.types f) (pFlat g s.types c)) = _
    rw [hb, hsolve]
  have e2 : (integrate solve (C05L.gSys g s) M' (xqFlat g s.types q) (pFlat g s.types qd)
      (pFlat g s.types f) (pFlat g s.types c)).2.1
      = pFlat g s.types (List.zipWith (fun v a => v + a * s.dt) qd qdd) := by
    show List.zipWith (fun v a => v + a * s.dt) (pFlat g s.types qd)
      (integrate solve (C05L.gSys g s) M' (xqFlat g s.types q) (pFlat g s.types qd)
        (pFlat g s.types f) (pFlat g s.types c)).2.2 = _
    rw [e3]
    exact (pFlat_axpy g s.dt s.types qd qdd (hfull.hqd.trans hlen.symm)).symm
  have e1 : (integrate solve (C05L.gSys g s) M' (xqFlat g s.types q) (pFlat g s.types qd)
      (pFlat g s.types f) (pFlat g s.types c)).1
      = xqFlat g s.types ((linkSlices s.types q (List.zipWith (fun v a => v + a * s.dt) qd qdd) s.dofs).map
          (integrateQLink s.dt)).flatten := by
    show ((linkSlices s.types (xqFlat g s.types q)
      (integrate solve (C05L.gSys g s) M' (xqFlat g s.types q) (pFlat g s.types qd)
        (pFlat g s.types f) (pFlat g s.types c)).2.1 s.dofs).map (integrateQLink s.dt)).flatten = _
    rw [e2]
    apply integrateQ_equiv g hg
    · rw [hfull.hq]; exact le_refl _
    · simp only [List.length_zipWith, hfull.hqd, hlen, min_self]; exact le_refl _
  exact Prod.ext e1 (Prod.ext e2 e3)

/-- an exact, unique linear solve is equivariant as soon as the damped mass matrices of the two scenes
are related by the orthogonal change of basis `pFlat` -/
theorem solve_equiv_of_exact (g : Tf ℝ) (ts : List LinkType) (solve : List (List ℝ) → List ℝ → List ℝ)
    (D D' : List (List ℝ)) (b : List ℝ) (nv : Nat)
    (hmass : ∀ y : List ℝ, y.length = nv → matVec D' (pFlat g ts y) = pFlat g ts (matVec D y))
    (hex : matVec D (solve D b) = b) (hlen : (solve D b).length = nv)
    (huniq : ∀ y : List ℝ, y.length = nv → matVec D' y = pFlat g ts b → solve D' (pFlat g ts b) = y) :
    solve D' (pFlat g ts b) = pFlat g ts (solve D b) := by
  apply huniq _ (by rw [pFlat_length, hlen])
  rw [hmass _ hlen, hex]

/-- **one constraint-free `generalized.pipeline.step` commutes with the rigid transform `g`**, given that
the linear solve does (`hsolve`) -/
theorem step_equiv_core (g : Tf ℝ) (hg : g.rot.IsUnit) (solve : List (List ℝ) → List ℝ → List ℝ)
    (s : Sys ℝ) (q qd act qfc : List ℝ) (h : StepOK g s q qd)
    (hact : ActAgreeG s.acts q qd (xqFlat g s.types q) (pFlat g s.types qd))
    (htau : pFlat g s.types (toTau s.nv s.acts act q qd) = toTau s.nv s.acts act q qd)
    (hqfc : qfc.length = s.nv)
    (hlen : (solve (dampedMatrix (dynInit s q qd).massMx (s.dofs.map (·.damping)) s.dt)
        (List.zipWith (· + ·) (qfSmooth s (dynInit s q qd) q qd act) qfc)).length = s.nv)
    (hsolve : solve (dampedMatrix (dynInit (C05L.gSys g s) (xqFlat g s.types q) (pFlat g s.types qd)).massMx
          (s.dofs.map (·.damping)) s.dt)
        (pFlat g s.types (List.zipWith (· + ·) (qfSmooth s (dynInit s q qd) q qd act) qfc))
      = pFlat g s.types (solve (dampedMatrix (dynInit s q qd).massMx (s.dofs.map (·.damping)) s.dt)
          (List.zipWith (· + ·) (qfSmooth s (dynInit s q qd) q qd act) qfc))) :
    Gd.step solve (C05L.gSys g s) (dynInit (C05L.gSys g s) (xqFlat g s.types q) (pFlat g s.types qd))
        (xqFlat g s.types q) (pFlat g s.types qd) act (pFlat g s.types qfc)
      = ((xqFlat g s.types (Gd.step solve s (dynInit s q qd) q qd act qfc).1.1,
          pFlat g s.types (Gd.step solve s (dynInit s q qd) q qd act qfc).1.2.1,
          pFlat g s.types (Gd.step solve s (dynInit s q qd) q qd act qfc).1.2.2),
         dynInit (C05L.gSys g s) (xqFlat g s.types (Gd.step solve s (dynInit s q qd) q qd act qfc).1.1)
          (pFlat g s.types (Gd.step solve s (dynInit s q qd) q qd act qfc).1.2.1)) := by
  have hi := integrate_equiv g hg solve s (dynInit s q qd).massMx
    (dynInit (C05L.gSys g s) (xqFlat g s.types q) (pFlat g s.types qd)).massMx q qd
    (qfSmooth s (dynInit s q qd) q qd act) qfc h.full (qfSmooth_length g hg s q qd h act) hqfc hlen hsolve
  have e : (Gd.step solve (C05L.gSys g s) (dynInit (C05L.gSys g s) (xqFlat g s.types q) (pFlat g s.types qd))
        (xqFlat g s.types q) (pFlat g s.types qd) act (pFlat g s.types qfc)).1
      = (xqFlat g s.types (Gd.step solve s (dynInit s q qd) q qd act qfc).1.1,
          pFlat g s.types (Gd.step solve s (dynInit s q qd) q qd act qfc).1.2.1,
          pFlat g s.types (Gd.step solve s (dynInit s q qd) q qd act qfc).1.2.2) := by
    show integrate solve (C05L.gSys g s) _ _ _ (qfSmooth (C05L.gSys g s) _ _ _ act) _ = _
    rw [qfSmooth_equiv g hg s q qd h act hact htau]
    exact hi
  refine Prod.ext e ?_
  show dynInit (C05L.gSys g s) (Gd.step solve (C05L.gSys g s) _ _ _ act _).1.1
      (Gd.step solve (C05L.gSys g s) _ _ _ act _).1.2.1 = _
  rw [e]

/-! ### discharging the hypotheses from `LinkOK` (what `mjcf.load_model` produces) -/

theorem forward_unit (s : Sys ℝ) (q qd : List ℝ)
    (hok : ∀ x ∈ s.parents.zip (s.links.zip (linkSlices s.types q qd s.dofs)), LinkOK x.1 x.2.1 x.2.2) :
    ∀ t ∈ (Kin.forward s q qd).map (·.1), t.rot.IsUnit := by
  intro t ht
  rw [forward_eq_forwardIns] at ht
  unfold forwardIns at ht
  rw [List.map_map] at ht
  obtain ⟨x, hx, rfl⟩ := List.mem_map.mp ht
  have hu := forwardRaw_unit s.parents _ hok x hx
  simp only [Function.comp, normalize4_unit hu]
  exact hu

/-- `GenOK` for the poses `kinematics.forward` computes -/
theorem GenOK.of_linkOK (s : Sys ℝ) (q qd : List ℝ)
    (hps : s.parents.length = s.types.length) (hlk : s.links.length = s.types.length)
    (hpar : ∀ i (h : i < s.parents.length), -1 ≤ s.parents[i] ∧ s.parents[i] < (i : Int))
    (hroot : ∀ i (h : i < s.parents.length) (h' : i < s.types.length), s.parents[i] < 0 → s.types[i] = .free)
    (hok : ∀ x ∈ s.parents.zip (s.links.zip (linkSlices s.types q qd s.dofs)), LinkOK x.1 x.2.1 x.2.2)
    (hbasis : ∀ l ∈ linkSlices s.types q qd s.dofs, l.typ = .free → l.dofs.map (·.motion) = freeBasis)
    (hmass : ∀ r ∈ rootIdx s.parents,
      segSum 0 (· + ·) (s.links.map (·.inertia.mass)) (rootIdx s.parents) r ≠ 0)
    (hirot : ∀ lk ∈ s.links, Q4.normSq lk.inertia.tf.rot ≠ 0) :
    GenOK s ((Kin.forward s q qd).map (·.1)) (linkSlices s.types q qd s.dofs) where
  parents := hps
  links := hlk
  insLen := linkSlices_length _ _ _ _
  xLen := by rw [List.length_map]; exact Gd.forward_length s q qd hps hlk
  typ := by
    intro i h1 h2
    have := linkSlices_typ s.types q qd s.dofs
    have e : ((linkSlices s.types q qd s.dofs).map (·.typ))[i]'(by simpa using h1) = s.types[i] := by
      simp only [this]
    simpa using e
  par := hpar
  rootFree := hroot
  shape := by
    intro l hl hf
    obtain ⟨i, hi, rfl⟩ := List.mem_iff_getElem.mp hl
    have hi' : i < s.types.length := by rw [← linkSlices_length s.types q qd s.dofs]; exact hi
    have hmem : (s.parents[i]'(by rw [hps]; exact hi'), s.links[i]'(by rw [hlk]; exact hi'),
        (linkSlices s.types q qd s.dofs)[i]) ∈ s.parents.zip (s.links.zip (linkSlices s.types q qd s.dofs)) := by
      rw [List.mem_iff_getElem]
      exact ⟨i, by simp [hps, hlk, linkSlices_length, hi'], by simp⟩
    obtain ⟨_, _, _, h6, p0, p1, p2, r0, r1, r2, r3, hq7, _⟩ := (hok _ hmem).free hf
    exact ⟨by rw [hq7]; rfl, h6⟩
  basis := hbasis
  mass := hmass
  xiRot := by
    intro t ht
    unfold tcXi at ht
    obtain ⟨i, hi, rfl⟩ := List.mem_iff_getElem.mp ht
    have hi' := hi
    rw [List.length_zipWith] at hi'
    have hix : i < ((Kin.forward s q qd).map (fun x => x.1)).length := by omega
    have hil : i < s.links.length := by omega
    simp only [List.getElem_zipWith, doTf_rot, normSq_quatMul]
    have hu : Q4.normSq (((Kin.forward s q qd).map (fun x : Tf ℝ × Motion ℝ => x.1))[i]'hix).rot = 1 :=
      forward_unit s q qd hok _ (List.getElem_mem hix)
    rw [hu, one_mul]
    exact hirot _ (List.getElem_mem hil)

/-- `StepOK` from the kinematic well-formedness `LinkOK` (what `forward_equivariant` assumes), the
standard free-joint dof rows, nonzero tree masses, nonzero inertial-frame quaternions and isotropic
free-joint damping/armature; `fw` is `forward_equivariant` -/
theorem StepOK.of_linkOK (g : Tf ℝ) (s : Sys ℝ) (q qd : List ℝ) (hfull : Full s q qd)
    (hps : s.parents.length = s.types.length) (hlk : s.links.length = s.types.length)
    (hpar : ∀ i (h : i < s.parents.length), -1 ≤ s.parents[i] ∧ s.parents[i] < (i : Int))
    (hok : ∀ x ∈ s.parents.zip (s.links.zip (linkSlices s.types q qd s.dofs)),
      LinkOK x.1 x.2.1 x.2.2 ∧ (x.1 < 0 → x.2.2.typ = .free))
    (hbasis : ∀ l ∈ linkSlices s.types q qd s.dofs, l.typ = .free → l.dofs.map (·.motion) = freeBasis)
    (hmass : ∀ r ∈ rootIdx s.parents,
      segSum 0 (· + ·) (s.links.map (·.inertia.mass)) (rootIdx s.parents) r ≠ 0)
    (hirot : ∀ lk ∈ s.links, Q4.normSq lk.inertia.tf.rot ≠ 0)
    (hiso : ∀ l ∈ linkSlices s.types q qd s.dofs, IsoFree l)
    (fw : (Kin.forward s (xqFlat g s.types q) (pFlat g s.types qd)).map (·.1)
        = ((Kin.forward s q qd).map (·.1)).map (Tf.doTf g)) :
    StepOK g s q qd where
  full := hfull
  ok := by
    refine GenOK.of_linkOK s q qd hps hlk hpar ?_ (fun x hx => (hok x hx).1) hbasis hmass hirot
    intro i h1 h2 hneg
    have hi : i < (linkSlices s.types q qd s.dofs).length := by rw [linkSlices_length]; exact h2
    have hmem : (s.parents[i], s.links[i]'(by rw [hlk]; exact h2),
        (linkSlices s.types q qd s.dofs)[i]) ∈ s.parents.zip (s.links.zip (linkSlices s.types q qd s.dofs)) := by
      rw [List.mem_iff_getElem]
      exact ⟨i, by simp [hps, hlk, linkSlices_length, h2], by simp⟩
    have ht := (hok _ hmem).2 hneg
    have := linkSlices_typ s.types q qd s.dofs
    have e : ((linkSlices s.types q qd s.dofs).map (·.typ))[i]'(by simpa using hi) = s.types[i] := by
      simp only [this]
    rw [← e]
    simpa using ht
  iso := hiso
  fw := fw

/-- a per-dof vector that vanishes on the translational dofs of every free link is fixed by `pFlat`
(in particular the actuator force when no actuator pushes on a free root's translation) -/
def LinZero : List LinkType → List ℝ → Prop
  | [], _ => True
  | t :: ts, v => (t = .free → v.getD 0 0 = 0 ∧ v.getD 1 0 = 0 ∧ v.getD 2 0 = 0)
      ∧ LinZero ts (v.drop t.qdWidth)

theorem pFlat_of_linZero (g : Tf ℝ) : ∀ (ts : List LinkType) (v : List ℝ), LinZero ts v → pFlat g ts v = v
  | [], _, _ => rfl
  | t :: ts, v, h => by
    obtain ⟨h0, hrest⟩ := h
    simp only [pFlat]
    rw [pFlat_of_linZero g ts _ hrest]
    have hrow : pRow g t (v.take t.qdWidth) = v.take t.qdWidth := by
      by_cases hf : t = .free
      · by_cases h6 : (v.take t.qdWidth).length = 6
        · obtain ⟨a, b, c, d, e, f, hv⟩ := length6 _ h6
          obtain ⟨e0, e1, e2⟩ := h0 hf
          have ha : a = 0 := by
            have : (v.take t.qdWidth).getD 0 0 = v.getD 0 0 := by
              subst hf; simp [List.getD_eq_getElem?_getD, List.getElem?_take, LinkType.qdWidth]
            rw [hv, e0] at this; simpa using this
          have hb : b = 0 := by
            have : (v.take t.qdWidth).getD 1 0 = v.getD 1 0 := by
              subst hf; simp [List.getD_eq_getElem?_getD, List.getElem?_take, LinkType.qdWidth]
            rw [hv, e1] at this; simpa using this
          have hc : c = 0 := by
            have : (v.take t.qdWidth).getD 2 0 = v.getD 2 0 := by
              subst hf; simp [List.getD_eq_getElem?_getD, List.getElem?_take, LinkType.qdWidth]
            rw [hv, e2] at this; simpa using this
          rw [hv, hf, pRow_free6, ha, hb, hc]
          have hz : rotate (⟨0, 0, 0⟩ : V3 ℝ) g.rot = ⟨0, 0, 0⟩ := rotate_zero g.rot
          rw [hz]
        · exact pRow_of_length_ne g t _ h6
      · exact pRow_nonfree g hf _
    rw [hrow, List.take_append_drop]

/-! ## 8. the mass matrix: `mass.matrix · y`, row by row, as projections of forces -/
section massrep

/-- `Σ_{i<n} f i` for forces -/
def frsum : Nat → (Nat → Force ℝ) → Force ℝ
  | 0, _ => Force.zero
  | n + 1, f => frsum n f + f n

theorem dotF_fadd (c : Motion ℝ) (a b : Force ℝ) :
    Motion.dotF c (a + b) = Motion.dotF c a + Motion.dotF c b := by
  simp only [Motion.dotF, Force.add_def, V3.dot, V3.add_def]; ring

theorem dotF_frsum (c : Motion ℝ) (n : Nat) (f : Nat → Force ℝ) :
    Motion.dotF c (frsum n f) = rsum n (fun a => Motion.dotF c (f a)) := by
  induction n with
  | zero => simp only [frsum, rsum, dotF_zero]
  | succ n ih => simp only [frsum, rsum, dotF_fadd, ih]

theorem rotF_fzero (g : Tf ℝ) : rotF g Force.zero = Force.zero := by
  simp only [rotF, C05L.rotF, Force.zero, rotate_zero]

theorem rotF_frsum (g : Tf ℝ) (n : Nat) (f : Nat → Force ℝ) :
    rotF g (frsum n f) = frsum n (fun a => rotF g (f a)) := by
  induction n with
  | zero => simp only [frsum, rotF_fzero]
  | succ n ih => simp only [frsum, rotF_fadd, ih]

/-- links `l`, `a` lie on one root-to-leaf path -/
def relB (ps : List Int) (l a : Nat) : Bool :=
  if a ≤ l then (ancs ps l).contains a else (ancs ps a).contains l

/-- the force that the dofs of link `a`, moving with `Y`, contribute to the rows of link `l` -/
noncomputable def Fla (ps : List Int) (C : List (Inertia ℝ)) (cdof : List (List (Motion ℝ)))
    (Y : Nat → Nat → ℝ) (l a : Nat) : Force ℝ :=
  if relB ps l a then Inertia.mul (C.getD (max l a) dI) (Ulink cdof Y a) else Force.zero

noncomputable def Phi (ps : List Int) (C : List (Inertia ℝ)) (cdof : List (List (Motion ℝ)))
    (Y : Nat → Nat → ℝ) (n l : Nat) : Force ℝ :=
  frsum n fun a => Fla ps C cdof Y l a

theorem bil_eq_dotF (I : Inertia ℝ) (a b : Motion ℝ) : bil I a b = Motion.dotF a (Inertia.mul I b) := rfl

/-- one block of one row of `mass.matrix · y` (composite inertias symmetric) -/
theorem rowBlock_eq (ps : List Int) (C : List (Inertia ℝ)) (cdof : List (List (Motion ℝ)))
    (Y : Nat → Nat → ℝ) (hC : ∀ k, SymmI (C.getD k dI)) (l r a : Nat) :
    rsum (wAt cdof a) (fun s => massOff ps C cdof l r a s * Y a s)
      = Motion.dotF (cAt cdof l r) (Fla ps C cdof Y l a) := by
  rcases Nat.lt_trichotomy a l with hal | hal | hal
  · have hrel : relB ps l a = (ancs ps l).contains a := by simp [relB, Nat.le_of_lt hal]
    have hmax : max l a = l := Nat.max_eq_left (Nat.le_of_lt hal)
    unfold Fla
    rw [hrel, hmax]
    by_cases hc : (ancs ps l).contains a = true
    · rw [if_pos hc, ← bil_eq_dotF, bil_symm (hC l)]
      unfold Ulink
      rw [bil_mrsum_left]
      apply rsum_congr; intro s _
      rw [massOff_lt ps C cdof l r a s hal, if_pos hc, bil_mulr_left]; ring
    · rw [if_neg hc, dotF_zero]
      have : ∀ s, s < wAt cdof a → massOff ps C cdof l r a s * Y a s = 0 := by
        intro s _
        rw [massOff_lt ps C cdof l r a s hal, if_neg hc]; ring
      rw [rsum_congr this, rsum_zero]
  · subst hal
    have hm : (ancs ps a).contains a = true := by
      rw [List.contains_iff_mem]; exact self_mem_ancs ps a
    have hrel : relB ps a a = true := by simp only [relB, Nat.le_refl, if_true, hm]
    unfold Fla
    rw [hrel, if_pos rfl, Nat.max_self, ← bil_eq_dotF]
    unfold Ulink
    rw [bil_mrsum_right]
    apply rsum_congr; intro s _
    rw [massOff_diag ps C cdof a r s (hC a), bil_mulr_right]; ring
  · have hrel : relB ps l a = (ancs ps a).contains l := by simp [relB, Nat.not_le.mpr hal]
    have hmax : max l a = a := Nat.max_eq_right (Nat.le_of_lt hal)
    unfold Fla
    rw [hrel, hmax]
    by_cases hc : (ancs ps a).contains l = true
    · rw [if_pos hc, ← bil_eq_dotF]
      unfold Ulink
      rw [bil_mrsum_right]
      apply rsum_congr; intro s _
      rw [massOff_symm, massOff_lt ps C cdof a s l r hal, if_pos hc, bil_mulr_right]; ring
    · rw [if_neg hc, dotF_zero]
      have : ∀ s, s < wAt cdof a → massOff ps C cdof l r a s * Y a s = 0 := by
        intro s _
        rw [massOff_symm, massOff_lt ps C cdof a s l r hal, if_neg hc]; ring
      rw [rsum_congr this, rsum_zero]

/-- one entry of `mass.matrix · y` -/
theorem row_eq (ps : List Int) (C : List (Inertia ℝ)) (cdof : List (List (Motion ℝ)))
    (arm : List (List ℝ)) (Y : Nat → Nat → ℝ) (hC : ∀ k, SymmI (C.getD k dI)) (n l r : Nat)
    (hl : l < n) (hr : r < wAt cdof l) :
    nsum n (wAt cdof) (fun a s => massEntry ps C cdof arm l r a s * Y a s)
      = Motion.dotF (cAt cdof l r) (Phi ps C cdof Y n l) + armAt arm l r * Y l r := by
  have h1 : nsum n (wAt cdof) (fun a s => massEntry ps C cdof arm l r a s * Y a s)
      = nsum n (wAt cdof) (fun a s => massOff ps C cdof l r a s * Y a s)
        + nsum n (wAt cdof) (fun a s => if a = l ∧ s = r then armAt arm l r * Y a s else 0) := by
    rw [← nsum_add]
    apply nsum_congr; intro a s _ _
    rw [massEntry_eq]
    split <;> ring
  rw [h1, nsum_single n (wAt cdof) l r hl hr (fun a s => armAt arm l r * Y a s)]
  congr 1
  unfold nsum Phi
  rw [dotF_frsum]
  apply rsum_congr; intro a _
  exact rowBlock_eq ps C cdof Y hC l r a

theorem dofIdx_map {β : Type} (n : Nat) (w : Nat → Nat) (f : Nat × Nat → β) :
    (dofIdx n w).map f
      = ((List.range n).map fun l => (List.range (w l)).map fun r => f (l, r)).flatten := by
  unfold dofIdx
  rw [List.flatMap_def, List.map_flatten, List.map_map]
  congr 1
  apply List.map_congr_left
  intro l _
  simp only [Function.comp, List.map_map]
  rfl

theorem list_eq_range_map {β : Type} (xs : List β) (d : β) :
    xs = (List.range xs.length).map fun r => xs.getD r d := by
  apply List.ext_getElem
  · simp
  · intro i h1 h2
    simp only [List.getElem_map, List.getElem_range]
    exact getElem_eq_getD xs d i h1

theorem nested_eq_range_map (N : List (List ℝ)) (w : Nat → Nat)
    (hw : ∀ l, l < N.length → (N.getD l []).length = w l) :
    N = (List.range N.length).map fun l => (List.range (w l)).map fun r => (N.getD l []).getD r 0 := by
  apply List.ext_getElem
  · simp
  · intro i h1 h2
    simp only [List.getElem_map, List.getElem_range]
    rw [← hw i h1, ← getElem_eq_getD N [] i h1]
    exact list_eq_range_map N[i] 0

/-- **`mass.matrix · y`, row by row**: entry `(l, r)` is the projection of the force `Φ_l` on the dof row
`cdof_{l,r}`, plus `armature · y` -/
theorem matVec_massMatrix (ps : List Int) (cinr : List (Inertia ℝ)) (cdof : List (List (Motion ℝ)))
    (arm : List (List ℝ)) (N : List (List ℝ)) (hsym : ∀ x ∈ cinr, SymmI x)
    (hN : N.length = cdof.length) (hw : ∀ l, l < N.length → (N.getD l []).length = wAt cdof l) :
    matVec (massMatrix ps cinr cdof arm) N.flatten
      = ((List.range cdof.length).map fun l => (List.range (wAt cdof l)).map fun r =>
          Motion.dotF (cAt cdof l r)
              (Phi ps (crb ps cinr) cdof (fun a s => (N.getD a []).getD s 0) cdof.length l)
            + armAt arm l r * (N.getD l []).getD r 0).flatten := by
  have hM : massMatrix ps cinr cdof arm
      = (dofIdx cdof.length (wAt cdof)).map fun lr => (dofIdx cdof.length (wAt cdof)).map fun as =>
          massEntry ps (crb ps cinr) cdof arm lr.1 lr.2 as.1 as.2 := rfl
  have hflat : N.flatten = (dofIdx cdof.length (wAt cdof)).map
      fun lr => (N.getD lr.1 []).getD lr.2 0 := by
    rw [dofIdx_map, ← hN]
    exact congrArg List.flatten (nested_eq_range_map N (wAt cdof) hw)
  rw [hM, hflat]
  unfold matVec
  rw [List.map_map, ← dofIdx_map (f := fun lr => Motion.dotF (cAt cdof lr.1 lr.2)
      (Phi ps (crb ps cinr) cdof (fun a s => (N.getD a []).getD s 0) cdof.length lr.1)
    + armAt arm lr.1 lr.2 * (N.getD lr.1 []).getD lr.2 0)]
  apply List.map_congr_left
  intro lr hlr
  obtain ⟨l, r⟩ := lr
  obtain ⟨hl, hr⟩ := (mem_dofIdx _ _ l r).mp hlr
  simp only [Function.comp]
  rw [dot_map_map cdof.length (wAt cdof) (fun as => massEntry ps (crb ps cinr) cdof arm l r as.1 as.2)
    (fun lr => (N.getD lr.1 []).getD lr.2 0)]
  exact row_eq ps (crb ps cinr) cdof arm (fun a s => (N.getD a []).getD s 0)
    (crb_symm ps cinr hsym) cdof.length l r hl hr

end massrep

/-! ### … and its equivariance -/
section massequiv

theorem mrsum_shift (n : Nat) (f : Nat → Motion ℝ) :
    mrsum (n + 1) f = f 0 + mrsum n (fun i => f (i + 1)) := by
  induction n with
  | zero => simp only [mrsum, zero_madd, madd_zero]
  | succ n ih =>
    show mrsum (n + 1) f + f (n + 1) = f 0 + (mrsum n (fun i => f (i + 1)) + f (n + 1))
    rw [ih, madd_assoc]

theorem mrsum_eq_sumM : ∀ (rows : List (Motion ℝ)) (xs : List ℝ), xs.length = rows.length →
    mrsum rows.length (fun r => mulr (rows.getD r Motion.zero) (xs.getD r 0))
      = sumM (List.zipWith mulr rows xs)
  | [], _, _ => rfl
  | c :: cs, [], h => by simp at h
  | c :: cs, x :: xs, h => by
    simp only [List.length_cons, mrsum_shift, List.getD_cons_zero, List.getD_cons_succ,
      List.zipWith_cons_cons, sumM]
    rw [mrsum_eq_sumM cs xs (by simpa using h)]

theorem frsum_congr {n : Nat} {f f' : Nat → Force ℝ} (h : ∀ a, a < n → f a = f' a) :
    frsum n f = frsum n f' := by
  induction n with
  | zero => rfl
  | succ n ih =>
    simp only [frsum]
    rw [ih (fun a ha => h a (Nat.lt_succ_of_lt ha)), h n (Nat.lt_succ_self n)]

theorem irel_dI (g : Tf ℝ) : IRel g (dI : Inertia ℝ) dI := by
  intro m
  simp only [Inertia.mul, dI, Tf.id, M3.zero, M3.mulVec, V3.dot, V3.zero, V3.cross, V3.smul, rotF,
    C05L.rotF, rotM, V3.add_def, V3.sub_def, rotate, Q4.vec]
  congr 1 <;> congr 1 <;> ring

theorem forall₂_getD {β γ : Type} {Rel : β → γ → Prop} {l : List β} {l' : List γ} {d : β} {d' : γ}
    (h : List.Forall₂ Rel l l') (hd : Rel d d') (k : Nat) : Rel (l.getD k d) (l'.getD k d') := by
  rw [List.getD_eq_getElem?_getD, List.getD_eq_getElem?_getD]
  have hopt := getElem?_optRel h k
  revert hopt
  generalize l[k]? = o
  generalize l'[k]? = o'
  intro hopt
  cases hopt with
  | none => exact hd
  | some hab => exact hab

/-- isotropic per-dof scalars (armature, damping) of one link -/
def IsoRow (t : LinkType) (cs : List ℝ) : Prop :=
  t = .free → ∃ c0 c1 c2 c3 c4 c5, cs = [c0, c1, c2, c3, c4, c5] ∧ c0 = c1 ∧ c1 = c2

theorem pRow_scale (g : Tf ℝ) (t : LinkType) (cs xs : List ℝ) (hiso : IsoRow t cs)
    (hlen : cs.length = xs.length) :
    List.zipWith (fun c x => c * x) cs (pRow g t xs) = pRow g t (List.zipWith (fun c x => c * x) cs xs) := by
  by_cases hf : t = .free
  · obtain ⟨c0, c1, c2, c3, c4, c5, hcs, e1, e2⟩ := hiso hf
    have h6 : xs.length = 6 := by rw [← hlen, hcs]; rfl
    obtain ⟨x0, x1, x2, x3, x4, x5, hxs⟩ := length6 _ h6
    subst hf hcs hxs e1 e2
    simp only [pRow_free6, List.zipWith_cons_cons, List.zipWith_nil_right, rotate, V3.dot, V3.cross, Q4.vec]
    refine List.cons_eq_cons.mpr ⟨by ring, List.cons_eq_cons.mpr ⟨by ring, List.cons_eq_cons.mpr ⟨by ring, rfl⟩⟩⟩
  · rw [pRow_nonfree g hf, pRow_nonfree g hf]

/-- a row of `mass.matrix · y` in list form -/
theorem massRow_list (rows : List (Motion ℝ)) (as xs : List ℝ) (Φ : Force ℝ)
    (h1 : as.length = rows.length) (h2 : xs.length = rows.length) :
    ((List.range rows.length).map fun r =>
        Motion.dotF (rows.getD r Motion.zero) Φ + as.getD r 0 * xs.getD r 0)
      = List.zipWith (fun a b => 1 * a + 1 * b) (rows.map fun c => Motion.dotF c Φ)
          (List.zipWith (fun c x => c * x) as xs) := by
  apply List.ext_getElem
  · simp [h1, h2]
  · intro i hi1 hi2
    have hi : i < rows.length := by simpa using hi1
    simp only [List.getElem_map, List.getElem_range, List.getElem_zipWith]
    rw [← getElem_eq_getD rows Motion.zero i hi, ← getElem_eq_getD as 0 i (by omega),
      ← getElem_eq_getD xs 0 i (by omega)]
    ring

variable (g : Tf ℝ) (hg : g.rot.IsUnit) (ts : List LinkType) (ps : List Int)
  (cinr cinr' : List (Inertia ℝ)) (cdof cdof' : List (List (Motion ℝ))) (arm N : List (List ℝ))

/-- hypotheses of the mass-matrix equivariance -/
structure MassOK : Prop where
  hcinr : List.Forall₂ (IRel g) cinr cinr'
  hsym : ∀ x ∈ cinr, SymmI x
  hsym' : ∀ x ∈ cinr', SymmI x
  hlen : cdof.length = ts.length
  hlen' : cdof'.length = ts.length
  hrows : ∀ i (h : i < ts.length) (h1 : i < cdof.length) (h2 : i < cdof'.length),
    RowsRel g ts[i] cdof[i] cdof'[i]
  hchunk : List.Forall₂ (fun (t : LinkType) (r : List (Motion ℝ)) => r.length = t.qdWidth) ts cdof
  harm : List.Forall₂ (fun (t : LinkType) (a : List ℝ) => a.length = t.qdWidth ∧ IsoRow t a) ts arm

variable (h : MassOK g ts cinr cinr' cdof cdof' arm) (hN : ChunksQd ts N)
include hg h hN

theorem rowsRel_length (i : Nat) (hi : i < ts.length) :
    (cdof'[i]'(by rw [h.hlen']; exact hi)).length = (cdof[i]'(by rw [h.hlen]; exact hi)).length := by
  have hr := h.hrows i hi (by rw [h.hlen]; exact hi) (by rw [h.hlen']; exact hi)
  by_cases hf : ts[i] = .free
  · obtain ⟨a0, a1, a2, e1, e2⟩ := hr.1 hf
    rw [e1, e2]; rfl
  · rw [hr.2 hf, List.length_map]

theorem wAt_eq (l : Nat) : wAt cdof' l = wAt cdof l := by
  unfold wAt
  by_cases hl : l < ts.length
  · rw [← getElem_eq_getD cdof' [] l (by rw [h.hlen']; exact hl),
      ← getElem_eq_getD cdof [] l (by rw [h.hlen]; exact hl)]
    exact rowsRel_length g hg ts cinr cinr' cdof cdof' arm N h hN l hl
  · rw [List.getD_eq_getElem?_getD, List.getD_eq_getElem?_getD,
      List.getElem?_eq_none (by rw [h.hlen']; omega), List.getElem?_eq_none (by rw [h.hlen]; omega)]

theorem N_row (l : Nat) (hl : l < ts.length) :
    ∃ (h1 : l < N.length) (h2 : l < cdof.length), N[l].length = cdof[l].length
      ∧ (pNest g ts N).getD l [] = pRow g ts[l] N[l] ∧ N.getD l [] = N[l] := by
  have hNl : N.length = ts.length := (List.Forall₂.length_eq hN).symm
  have h1 : l < N.length := by rw [hNl]; exact hl
  have h2 : l < cdof.length := by rw [h.hlen]; exact hl
  refine ⟨h1, h2, ?_, ?_, (getElem_eq_getD N [] l h1).symm⟩
  · rw [forall₂_getElem hN l hl h1, forall₂_getElem h.hchunk l hl h2]
  · have hp : l < (pNest g ts N).length := by rw [pNest_length, hNl, min_self]; exact hl
    rw [← getElem_eq_getD _ [] l hp, pNest_getElem]

theorem Ulink_equiv (a : Nat) (ha : a < ts.length) :
    Ulink cdof' (fun a s => ((pNest g ts N).getD a []).getD s 0) a
      = rotM g (Ulink cdof (fun a s => (N.getD a []).getD s 0) a) := by
  obtain ⟨h1, h2, hlenN, hp, hn⟩ := N_row g hg ts cinr cinr' cdof cdof' arm N h hN a ha
  have h2' : a < cdof'.length := by rw [h.hlen']; exact ha
  have hw := rowsRel_length g hg ts cinr cinr' cdof cdof' arm N h hN a ha
  unfold Ulink
  simp only [hp, hn]
  unfold wAt cAt
  rw [← getElem_eq_getD cdof' [] a h2', ← getElem_eq_getD cdof [] a h2]
  rw [mrsum_eq_sumM cdof'[a] (pRow g ts[a] N[a]) (by rw [pRow_length, hlenN, hw]),
    mrsum_eq_sumM cdof[a] N[a] hlenN]
  apply sumM_rows_equiv g ts[a] _ _ _ (h.hrows a ha h2 h2')
  intro hf
  rw [forall₂_getElem hN a ha h1, hf]; rfl

theorem crb_irel (k : Nat) : IRel g ((crb ps cinr).getD k dI) ((crb ps cinr').getD k dI) := by
  apply forall₂_getD _ (irel_dI g)
  unfold crb
  exact revAcc_forall₂ _ _ _ (fun x y x' y' hx hy => IRel.add hx hy) ps cinr cinr' h.hcinr

theorem Phi_equiv (l : Nat) :
    Phi ps (crb ps cinr') cdof' (fun a s => ((pNest g ts N).getD a []).getD s 0) ts.length l
      = rotF g (Phi ps (crb ps cinr) cdof (fun a s => (N.getD a []).getD s 0) ts.length l) := by
  unfold Phi
  rw [rotF_frsum]
  apply frsum_congr
  intro a ha
  unfold Fla
  rw [Ulink_equiv g hg ts cinr cinr' cdof cdof' arm N h hN a ha]
  by_cases hrel : relB ps l a = true
  · rw [if_pos hrel, if_pos hrel]
    exact crb_irel g hg ts ps cinr cinr' cdof cdof' arm N h hN _ _
  · rw [if_neg hrel, if_neg hrel, rotF_fzero]

/-- **`mass.matrix · y` is equivariant**: `M' (P y) = P (M y)` -/
theorem massMatrix_equiv :
    matVec (massMatrix ps cinr' cdof' arm) (pFlat g ts N.flatten)
      = pFlat g ts (matVec (massMatrix ps cinr cdof arm) N.flatten) := by
  have hNl : N.length = ts.length := (List.Forall₂.length_eq hN).symm
  have hN' : ChunksQd ts (pNest g ts N) := by
    apply forall₂_of_getElem (by rw [pNest_length, hNl, min_self])
    intro i h1 h2
    rw [pNest_getElem, pRow_length]
    exact forall₂_getElem hN i h1 (by rw [hNl]; exact h1)
  have hw : ∀ l, l < N.length → (N.getD l []).length = wAt cdof l := by
    intro l hl
    obtain ⟨h1, h2, e, _, hn⟩ := N_row g hg ts cinr cinr' cdof cdof' arm N h hN l (by rw [← hNl]; exact hl)
    rw [hn, e]; unfold wAt; rw [← getElem_eq_getD cdof [] l h2]
  have hw' : ∀ l, l < (pNest g ts N).length → ((pNest g ts N).getD l []).length = wAt cdof' l := by
    intro l hl
    have hl' : l < ts.length := by rw [pNest_length, hNl, min_self] at hl; exact hl
    obtain ⟨h1, h2, e, hp, _⟩ := N_row g hg ts cinr cinr' cdof cdof' arm N h hN l hl'
    rw [hp, pRow_length, e, wAt_eq g hg ts cinr cinr' cdof cdof' arm N h hN l]
    unfold wAt; rw [← getElem_eq_getD cdof [] l h2]
  rw [pFlat_flatten g hN,
    matVec_massMatrix ps cinr' cdof' arm (pNest g ts N) h.hsym'
      (by rw [pNest_length, hNl, min_self, h.hlen']) hw',
    matVec_massMatrix ps cinr cdof arm N h.hsym (by rw [hNl, h.hlen]) hw]
  -- the nested rows of the two products
  have hrowsEq : ((List.range cdof'.length).map fun l => (List.range (wAt cdof' l)).map fun r =>
        Motion.dotF (cAt cdof' l r)
            (Phi ps (crb ps cinr') cdof' (fun a s => ((pNest g ts N).getD a []).getD s 0) cdof'.length l)
          + armAt arm l r * ((pNest g ts N).getD l []).getD r 0)
      = pNest g ts ((List.range cdof.length).map fun l => (List.range (wAt cdof l)).map fun r =>
        Motion.dotF (cAt cdof l r)
            (Phi ps (crb ps cinr) cdof (fun a s => (N.getD a []).getD s 0) cdof.length l)
          + armAt arm l r * (N.getD l []).getD r 0) := by
    apply List.ext_getElem
    · rw [pNest_length]; simp [h.hlen, h.hlen']
    · intro l h1 h2
      have hl : l < ts.length := by simpa [h.hlen'] using h1
      obtain ⟨hn1, hc1, e, hp, hn⟩ := N_row g hg ts cinr cinr' cdof cdof' arm N h hN l hl
      have hc1' : l < cdof'.length := by rw [h.hlen']; exact hl
      have hal : l < arm.length := by rw [← List.Forall₂.length_eq h.harm]; exact hl
      obtain ⟨harmlen, harmiso⟩ := forall₂_getElem h.harm l hl hal
      have hcl := forall₂_getElem h.hchunk l hl hc1
      have hw1 := rowsRel_length g hg ts cinr cinr' cdof cdof' arm N h hN l hl
      rw [pNest_getElem]
      simp only [List.getElem_map, List.getElem_range, h.hlen, h.hlen']
      rw [Phi_equiv g hg ts ps cinr cinr' cdof cdof' arm N h hN l, hp, hn]
      unfold wAt cAt armAt
      rw [← getElem_eq_getD cdof' [] l hc1', ← getElem_eq_getD cdof [] l hc1,
        ← getElem_eq_getD arm [] l hal]
      rw [massRow_list cdof'[l] arm[l] (pRow g ts[l] N[l]) _ (by rw [harmlen, hw1, hcl])
          (by rw [pRow_length, e, hw1]),
        massRow_list cdof[l] arm[l] N[l] _ (by rw [harmlen, hcl]) e,
        pRow_lin g ts[l] 1 1 _ _ (by simp [harmlen, hcl, e]),
        proj_rows_equiv g hg ts[l] _ _ _ (h.hrows l hl hc1 hc1'),
        pRow_scale g ts[l] arm[l] N[l] harmiso (by rw [harmlen, e, hcl])]
  rw [hrowsEq]
  refine (pFlat_flatten g ?_).symm
  apply forall₂_of_getElem (by simp [h.hlen])
  intro l h1 h2
  simp only [List.getElem_map, List.getElem_range, List.length_map, List.length_range]
  unfold wAt
  rw [← getElem_eq_getD cdof [] l (by rw [h.hlen]; exact h1)]
  exact forall₂_getElem h.hchunk l h1 (by rw [h.hlen]; exact h1)

end massequiv

/-! ### implicit damping: `mass_mx + diag(damping)·dt` -/
section damped

theorem dot_nil_right (a : List ℝ) : dot a [] = 0 := by
  unfold dot; simp

theorem dot_cons (x b : ℝ) (a y : List ℝ) : dot (x :: a) (b :: y) = x * b + dot a y := by
  unfold dot; simp

/-- bumping entry `i` of a row by `c` adds `c · y_i` to the dot product -/
theorem dot_bump (c : ℝ) (i : Nat) : ∀ (row y : List ℝ) (k : Nat),
    dot ((row.zip (List.range' k row.length)).map (fun xj => if xj.2 = i then xj.1 + c else xj.1)) y
      = dot row y + (if k ≤ i ∧ i - k < row.length then c * y.getD (i - k) 0 else 0)
  | [], y, k => by simp [dot]
  | x :: row, [], k => by simp [dot_nil_right]
  | x :: row, b :: y, k => by
    simp only [List.length_cons, List.range'_succ, List.zip_cons_cons, List.map_cons, dot_cons,
      dot_bump c i row y (k + 1)]
    by_cases h1 : k = i
    · subst h1
      simp
      ring
    · by_cases h2 : k < i
      · have e : i - k = (i - (k + 1)) + 1 := by omega
        have c1 : (k + 1 ≤ i ∧ i - (k + 1) < row.length) ↔ (k ≤ i ∧ i - k < row.length + 1) := by omega
        simp only [h1, if_false, e, List.getD_cons_succ]
        by_cases h3 : k + 1 ≤ i ∧ i - (k + 1) < row.length
        · have h3' : k ≤ i ∧ i - (k + 1) + 1 < row.length + 1 := by omega
          rw [if_pos h3, if_pos h3']; ring
        · have h3' : ¬ (k ≤ i ∧ i - (k + 1) + 1 < row.length + 1) := by omega
          rw [if_neg h3, if_neg h3']; ring
      · have h3 : ¬ (k + 1 ≤ i ∧ i - (k + 1) < row.length) := by omega
        have h3' : ¬ (k ≤ i ∧ i - k < row.length + 1) := by omega
        simp only [h1, if_false]
        rw [if_neg h3, if_neg h3']; ring

/-- `(mass_mx + diag(damping)·dt) · y = mass_mx · y + damping·dt·y` for a square matrix -/
theorem matVec_damped (M : List (List ℝ)) (d y : List ℝ) (dt : ℝ) (n : Nat) (hM : M.length = n)
    (hrow : ∀ r ∈ M, r.length = n) (hd : d.length = n) (hy : y.length = n) :
    matVec (dampedMatrix M d dt) y
      = List.zipWith (fun a b => 1 * a + 1 * b) (matVec M y)
          (List.zipWith (fun c x => c * x) (d.map (· * dt)) y) := by
  unfold matVec dampedMatrix
  rw [List.map_map]
  apply List.ext_getElem
  · simp [hM, hd, hy]
  · intro i h1 h2
    have hi : i < n := by simpa [hM] using h1
    have hiM : i < M.length := by rw [hM]; exact hi
    simp only [List.getElem_map, List.getElem_zip, List.getElem_range, Function.comp,
      List.getElem_zipWith]
    have hr := hrow M[i] (List.getElem_mem hiM)
    have := dot_bump (d.getD i 0 * dt) i M[i] y 0
    rw [← List.range_eq_range'] at this
    rw [this, if_pos (by omega)]
    simp only [Nat.sub_zero]
    rw [← getElem_eq_getD d 0 i (by omega), ← getElem_eq_getD y 0 i (by omega)]
    ring

/-- isotropic per-dof scalars of a flat per-dof array -/
def IsoFlat : List LinkType → List ℝ → Prop
  | [], _ => True
  | t :: ts, v => IsoRow t (v.take t.qdWidth) ∧ IsoFlat ts (v.drop t.qdWidth)

theorem pFlat_scale (g : Tf ℝ) : ∀ (ts : List LinkType) (cs xs : List ℝ), IsoFlat ts cs →
    cs.length = xs.length →
    List.zipWith (fun c x => c * x) cs (pFlat g ts xs) = pFlat g ts (List.zipWith (fun c x => c * x) cs xs)
  | [], _, _, _, _ => rfl
  | t :: ts, cs, xs, hiso, hlen => by
    obtain ⟨h0, hrest⟩ := hiso
    have hl : (cs.take t.qdWidth).length = (xs.take t.qdWidth).length := by simp [hlen]
    simp only [pFlat, List.take_zipWith, List.drop_zipWith]
    rw [← pRow_scale g t _ _ h0 hl, ← pFlat_scale g ts _ _ hrest (by simp [hlen])]
    conv_lhs => rw [← List.take_append_drop t.qdWidth cs]
    rw [List.zipWith_append (by rw [pRow_length]; exact hl)]

theorem isoFlat_of_slices (F : DofP ℝ → ℝ) : ∀ (ts : List LinkType) (q qd : List ℝ) (ds : List (DofP ℝ)),
    (∀ l ∈ linkSlices ts q qd ds, IsoRow l.typ (l.dofs.map F)) → IsoFlat ts (ds.map F)
  | [], _, _, _, _ => trivial
  | t :: ts, q, qd, ds, h => by
    refine ⟨?_, ?_⟩
    · have := h ⟨t, q.take t.qWidth, qd.take t.qdWidth, ds.take t.qdWidth⟩ (by simp [linkSlices])
      simpa [List.map_take] using this
    · rw [← List.map_drop]
      exact isoFlat_of_slices F ts (q.drop t.qWidth) (qd.drop t.qdWidth) _
        (fun l hl => h l (by simp [linkSlices, hl]))

theorem isoRow_of_isoFree_damping (l : LinkIn ℝ) (h : IsoFree l) (dt : ℝ) :
    IsoRow l.typ (l.dofs.map fun d => d.damping * dt) := by
  intro hf
  obtain ⟨d0, d1, d2, d3, d4, d5, hd, e1, e2, _, _⟩ := h hf
  exact ⟨_, _, _, _, _, _, by rw [hd]; rfl, by show d0.damping * dt = d1.damping * dt; rw [e1],
    by show d1.damping * dt = d2.damping * dt; rw [e2]⟩

theorem isoRow_of_isoFree_armature (l : LinkIn ℝ) (h : IsoFree l) :
    IsoRow l.typ (l.dofs.map (·.armature)) := by
  intro hf
  obtain ⟨d0, d1, d2, d3, d4, d5, hd, _, _, e1, e2⟩ := h hf
  exact ⟨_, _, _, _, _, _, by rw [hd]; rfl, e1, e2⟩

/-- split a flat per-dof vector into per-link chunks -/
def chunkQd : List LinkType → List ℝ → List (List ℝ)
  | [], _ => []
  | t :: ts, v => v.take t.qdWidth :: chunkQd ts (v.drop t.qdWidth)

theorem chunkQd_spec : ∀ (ts : List LinkType) (v : List ℝ), v.length = (ts.map LinkType.qdWidth).sum →
    (chunkQd ts v).flatten = v ∧ ChunksQd ts (chunkQd ts v)
  | [], v, h => by
    simp only [List.map_nil, List.sum_nil, List.length_eq_zero_iff] at h
    subst h
    exact ⟨rfl, List.Forall₂.nil⟩
  | t :: ts, v, h => by
    simp only [List.map_cons, List.sum_cons] at h
    obtain ⟨h1, h2⟩ := chunkQd_spec ts (v.drop t.qdWidth) (by rw [List.length_drop]; omega)
    refine ⟨?_, List.Forall₂.cons (by rw [List.length_take]; omega) h2⟩
    simp only [chunkQd, List.flatten_cons, h1, List.take_append_drop]

end damped

/-! ## 9. the damped mass matrix of `pipeline.step`, and the full step theorem -/
section full

theorem flatten_eq_dofIdx_map (cdof : List (List (Motion ℝ))) (N : List (List ℝ))
    (hN : N.length = cdof.length) (hw : ∀ l, l < N.length → (N.getD l []).length = wAt cdof l) :
    N.flatten = (dofIdx cdof.length (wAt cdof)).map fun lr => (N.getD lr.1 []).getD lr.2 0 := by
  rw [dofIdx_map, ← hN]
  exact congrArg List.flatten (nested_eq_range_map N (wAt cdof) hw)

theorem massMatrix_shape (ps : List Int) (cinr : List (Inertia ℝ)) (cdof : List (List (Motion ℝ)))
    (arm : List (List ℝ)) :
    (massMatrix ps cinr cdof arm).length = (dofIdx cdof.length (wAt cdof)).length
    ∧ ∀ r ∈ massMatrix ps cinr cdof arm, r.length = (dofIdx cdof.length (wAt cdof)).length := by
  have hM : massMatrix ps cinr cdof arm
      = (dofIdx cdof.length (wAt cdof)).map fun lr => (dofIdx cdof.length (wAt cdof)).map fun as =>
          massEntry ps (crb ps cinr) cdof arm lr.1 lr.2 as.1 as.2 := rfl
  rw [hM]
  refine ⟨by simp, ?_⟩
  intro r hr
  obtain ⟨lr, _, rfl⟩ := List.mem_map.mp hr
  simp

variable (g : Tf ℝ) (hg : g.rot.IsUnit) (s : Sys ℝ) (q qd : List ℝ) (h : StepOK g s q qd)
  (hsymI : ∀ lk ∈ s.links, SymmI lk.inertia)
include hg h hsymI

/-- the armature rows `pipeline.init` slices are the same in the two scenes -/
theorem arm_eq :
    (nested (C05L.gSys g s) (xqFlat g s.types q) (pFlat g s.types qd)).map (fun l => l.dofs.map (·.armature))
      = (nested s q qd).map (fun l => l.dofs.map (·.armature)) := by
  show (linkSlices s.types (xqFlat g s.types q) (pFlat g s.types qd) s.dofs).map _
    = (linkSlices s.types q qd s.dofs).map _
  rw [slices_xform g hg s q qd h, List.map_map]
  apply List.map_congr_left
  intro l _
  simp only [Function.comp, xformIn_dofs]

theorem massOK :
    MassOK g s.types (dynInit s q qd).com.cinr
      (dynInit (C05L.gSys g s) (xqFlat g s.types q) (pFlat g s.types qd)).com.cinr
      (dynInit s q qd).com.cdof
      (dynInit (C05L.gSys g s) (xqFlat g s.types q) (pFlat g s.types qd)).com.cdof
      ((nested s q qd).map (fun l => l.dofs.map (·.armature))) := by
  have hrel := dynInit_com_equiv g hg s q qd h
  have hf := slices_full g hg s q qd h
  refine ⟨hrel.cinr, ?_, ?_, hrel.lcdof, hrel.lcdof', hrel.cdof, cdof_chunks g hg s q qd h, ?_⟩
  · intro I hI
    obtain ⟨xi, c, lk, hlk, rfl⟩ := transformCom_cinr_mem s _ q qd I hI
    exact cinrLink_symm xi c lk.inertia (hsymI lk hlk)
  · intro I hI
    obtain ⟨xi, c, lk, hlk, rfl⟩ := transformCom_cinr_mem (C05L.gSys g s) _ _ _ I hI
    exact cinrLink_symm xi c lk.inertia (hsymI lk hlk)
  · show List.Forall₂ _ s.types ((linkSlices s.types q qd s.dofs).map _)
    apply forall₂_of_getElem (by rw [List.length_map, h.ok.insLen])
    intro i h1 h2
    have hii : i < (linkSlices s.types q qd s.dofs).length := by simpa using h2
    have hrow := forall₂_getElem hf i h1 hii
    simp only [List.getElem_map, List.length_map]
    refine ⟨hrow.2.2.2, ?_⟩
    rw [← hrow.1]
    exact isoRow_of_isoFree_armature _ (h.iso _ (List.getElem_mem hii))

/-- **the damped mass matrix is equivariant**: `(M' + D dt) (P y) = P ((M + D dt) y)` — the mass matrix of
the transformed scene is `P M Pᵀ` with `P = pFlat g` orthogonal -/
theorem dampedMass_equiv (y : List ℝ) (hy : y.length = s.nv) :
    matVec (dampedMatrix (dynInit (C05L.gSys g s) (xqFlat g s.types q) (pFlat g s.types qd)).massMx
        (s.dofs.map (·.damping)) s.dt) (pFlat g s.types y)
      = pFlat g s.types (matVec (dampedMatrix (dynInit s q qd).massMx (s.dofs.map (·.damping)) s.dt) y) := by
  have hmk := massOK g hg s q qd h hsymI
  obtain ⟨hflat, hN⟩ := chunkQd_spec s.types y hy
  set N := chunkQd s.types y with hNdef
  have hNl : N.length = s.types.length := (List.Forall₂.length_eq hN).symm
  have hM : (dynInit s q qd).massMx = massMatrix s.parents (dynInit s q qd).com.cinr
      (dynInit s q qd).com.cdof ((nested s q qd).map (fun l => l.dofs.map (·.armature))) := rfl
  have hM' : (dynInit (C05L.gSys g s) (xqFlat g s.types q) (pFlat g s.types qd)).massMx
      = massMatrix s.parents (dynInit (C05L.gSys g s) (xqFlat g s.types q) (pFlat g s.types qd)).com.cinr
          (dynInit (C05L.gSys g s) (xqFlat g s.types q) (pFlat g s.types qd)).com.cdof
          ((nested s q qd).map (fun l => l.dofs.map (·.armature))) := by
    rw [← arm_eq g hg s q qd h hsymI]; rfl
  have hME := massMatrix_equiv g hg s.types s.parents _ _ _ _ _ N hmk hN
  rw [hflat] at hME
  -- shapes
  have hw : ∀ l, l < N.length → (N.getD l []).length = wAt (dynInit s q qd).com.cdof l := by
    intro l hl
    obtain ⟨h1, h2, e, _, hn⟩ := N_row g hg s.types _ _ _ _ _ N hmk hN l (by rw [← hNl]; exact hl)
    rw [hn, e]; unfold wAt; rw [← getElem_eq_getD _ [] l h2]
  have hidx : (dofIdx (dynInit s q qd).com.cdof.length (wAt (dynInit s q qd).com.cdof)).length = s.nv := by
    have := congrArg List.length (flatten_eq_dofIdx_map (dynInit s q qd).com.cdof N (by rw [hNl, hmk.hlen]) hw)
    rw [hflat, List.length_map] at this
    rw [← this, hy]
  have hidx' : (dofIdx (dynInit (C05L.gSys g s) (xqFlat g s.types q) (pFlat g s.types qd)).com.cdof.length
      (wAt (dynInit (C05L.gSys g s) (xqFlat g s.types q) (pFlat g s.types qd)).com.cdof)).length = s.nv := by
    have hwe : wAt (dynInit (C05L.gSys g s) (xqFlat g s.types q) (pFlat g s.types qd)).com.cdof
        = wAt (dynInit s q qd).com.cdof := funext fun l => wAt_eq g hg s.types _ _ _ _ _ N hmk hN l
    rw [← hidx, hmk.hlen', hmk.hlen, hwe]
  have hsh := massMatrix_shape s.parents (dynInit s q qd).com.cinr (dynInit s q qd).com.cdof
    ((nested s q qd).map (fun l => l.dofs.map (·.armature)))
  have hsh' := massMatrix_shape s.parents
    (dynInit (C05L.gSys g s) (xqFlat g s.types q) (pFlat g s.types qd)).com.cinr
    (dynInit (C05L.gSys g s) (xqFlat g s.types q) (pFlat g s.types qd)).com.cdof
    ((nested s q qd).map (fun l => l.dofs.map (·.armature)))
  have hdl : (s.dofs.map (·.damping)).length = s.nv := by rw [List.length_map, h.full.hds]
  have hiso : IsoFlat s.types ((s.dofs.map (·.damping)).map (· * s.dt)) := by
    have e : (s.dofs.map (·.damping)).map (· * s.dt) = s.dofs.map (fun d => d.damping * s.dt) := by
      rw [List.map_map]; rfl
    rw [e]
    exact isoFlat_of_slices (fun d => d.damping * s.dt) s.types q qd s.dofs
      (fun l hl => isoRow_of_isoFree_damping l (h.iso l hl) s.dt)
  rw [hM, hM',
    matVec_damped _ _ _ s.dt s.nv (hsh'.1.trans hidx') (fun r hr => (hsh'.2 r hr).trans hidx') hdl
      (by rw [pFlat_length, hy]),
    matVec_damped _ _ _ s.dt s.nv (hsh.1.trans hidx) (fun r hr => (hsh.2 r hr).trans hidx) hdl hy,
    hME, pFlat_scale g s.types _ _ hiso (by rw [List.length_map, hdl, hy])]
  refine (pFlat_lin g 1 1 s.types _ _ ?_).symm
  simp only [matVec, List.length_map, List.length_zipWith, hsh.1, hidx, hy, h.full.hds, min_self]

/-- **C05, generalized pipeline: one constraint-free `pipeline.step` commutes with the rigid transform
`g`**, for an exact linear solve with a unique solution -/
theorem step_equiv_full (solve : List (List ℝ) → List ℝ → List ℝ) (act qfc : List ℝ)
    (hact : ActAgreeG s.acts q qd (xqFlat g s.types q) (pFlat g s.types qd))
    (htau : pFlat g s.types (toTau s.nv s.acts act q qd) = toTau s.nv s.acts act q qd)
    (hqfc : qfc.length = s.nv)
    (hex : matVec (dampedMatrix (dynInit s q qd).massMx (s.dofs.map (·.damping)) s.dt)
        (solve (dampedMatrix (dynInit s q qd).massMx (s.dofs.map (·.damping)) s.dt)
          (List.zipWith (· + ·) (qfSmooth s (dynInit s q qd) q qd act) qfc))
      = List.zipWith (· + ·) (qfSmooth s (dynInit s q qd) q qd act) qfc)
    (hlen : (solve (dampedMatrix (dynInit s q qd).massMx (s.dofs.map (·.damping)) s.dt)
        (List.zipWith (· + ·) (qfSmooth s (dynInit s q qd) q qd act) qfc)).length = s.nv)
    (huniq : ∀ y : List ℝ, y.length = s.nv →
      matVec (dampedMatrix (dynInit (C05L.gSys g s) (xqFlat g s.types q) (pFlat g s.types qd)).massMx
          (s.dofs.map (·.damping)) s.dt) y
        = pFlat g s.types (List.zipWith (· + ·) (qfSmooth s (dynInit s q qd) q qd act) qfc) →
      solve (dampedMatrix (dynInit (C05L.gSys g s) (xqFlat g s.types q) (pFlat g s.types qd)).massMx
          (s.dofs.map (·.damping)) s.dt)
        (pFlat g s.types (List.zipWith (· + ·) (qfSmooth s (dynInit s q qd) q qd act) qfc)) = y) :
    Gd.step solve (C05L.gSys g s) (dynInit (C05L.gSys g s) (xqFlat g s.types q) (pFlat g s.types qd))
        (xqFlat g s.types q) (pFlat g s.types qd) act (pFlat g s.types qfc)
      = ((xqFlat g s.types (Gd.step solve s (dynInit s q qd) q qd act qfc).1.1,
          pFlat g s.types (Gd.step solve s (dynInit s q qd) q qd act qfc).1.2.1,
          pFlat g s.types (Gd.step solve s (dynInit s q qd) q qd act qfc).1.2.2),
         dynInit (C05L.gSys g s) (xqFlat g s.types (Gd.step solve s (dynInit s q qd) q qd act qfc).1.1)
          (pFlat g s.types (Gd.step solve s (dynInit s q qd) q qd act qfc).1.2.1)) :=
  step_equiv_core g hg solve s q qd act qfc h hact htau hqfc hlen
    (solve_equiv_of_exact g s.types solve _ _ _ s.nv
      (fun y hy => dampedMass_equiv g hg s q qd h hsymI y hy) hex hlen huniq)

end full

end Brax.C05G
