import Brax.Model.C19
import Brax.Spec.C19
import Mathlib.Tactic.Ring
import Mathlib.Algebra.BigOperators.Intervals
import Mathlib.Algebra.BigOperators.Ring.Finset
/-!
# C19 — helper lemmas (commutative ring): the reverse scan computes the defining sums

Property theorems are in `Brax/Props/C19.lean`; here only the structural facts they use.
-/
namespace Brax.C19
open Spec
variable {R : Type} [CommRing R]

/-! ## the defining sum -/

theorem sumL_map_mul (c : R) (xs : List R) : sumL (xs.map (c * ·)) = c * sumL xs := by
  induction xs with
  | nil => simp [sumL]
  | cons x xs ih => simp only [List.map_cons, sumL, ih]; ring

theorem gaeSum_nil (cs : List R) : gaeSum cs [] = 0 := by
  simp [gaeSum, sumL]

/-- Horner step of the defining sum: `Σ_i (Π_{j<i} c_j) d_i = d_0 + c_0 · Σ_i (Π_{1≤j<i+1} c_j) d_{i+1}` -/
theorem gaeSum_cons (c d : R) (cs ds : List R) :
    gaeSum (c :: cs) (d :: ds) = d + c * gaeSum cs ds := by
  unfold gaeSum
  rw [← sumL_map_mul]
  simp only [List.length_cons, List.range_succ_eq_map, List.zipWith_cons_cons, List.take_zero, prodL,
    sumL, List.zipWith_map_left, List.take_succ_cons, List.map_zipWith, one_mul]
  congr 3
  funext i x
  ring

theorem vsMinusV_nil (cs : List R) : vsMinusV cs [] = [] := by
  simp [vsMinusV]

theorem vsMinusV_cons (c d : R) (cs ds : List R) :
    vsMinusV (c :: cs) (d :: ds) = gaeSum (c :: cs) (d :: ds) :: vsMinusV cs ds := by
  simp [vsMinusV, List.range_succ_eq_map, Function.comp_def]

theorem length_vsMinusV (cs ds : List R) : (vsMinusV cs ds).length = ds.length := by
  simp [vsMinusV]

theorem getElem_vsMinusV (cs ds : List R) (t : Nat) (h : t < (vsMinusV cs ds).length) :
    (vsMinusV cs ds)[t] = gaeSum (cs.drop t) (ds.drop t) := by
  simp [vsMinusV]

/-- the sum started at the head is the head of the list of all sums (`0` for the empty list) -/
theorem gaeSum_eq_headD (cs ds : List R) (h : cs.length = ds.length) :
    gaeSum cs ds = (vsMinusV cs ds).headD 0 := by
  cases cs <;> cases ds <;> simp_all [vsMinusV_cons, gaeSum_nil, vsMinusV_nil]

/-- a zero factor cuts the sum: nothing behind it contributes -/
theorem gaeSum_append_zero (cs₁ cs₂ ds ds₂ : List R) (h : ds.length = cs₁.length + 1) :
    gaeSum (cs₁ ++ 0 :: cs₂) (ds ++ ds₂) = gaeSum (cs₁ ++ [0]) ds := by
  induction cs₁ generalizing ds with
  | nil =>
    match ds, h with
    | [d], _ => simp only [List.nil_append, List.cons_append, gaeSum_cons]; ring
  | cons c cs₁ ih =>
    match ds, h with
    | d :: ds, h =>
      simp only [List.length_cons, Nat.add_right_cancel_iff] at h
      simp only [List.cons_append, gaeSum_cons, ih ds h]

theorem vsMinusV_append_zero (cs₁ cs₂ ds ds₂ : List R) (h : ds.length = cs₁.length + 1) :
    vsMinusV (cs₁ ++ 0 :: cs₂) (ds ++ ds₂) = vsMinusV (cs₁ ++ [0]) ds ++ vsMinusV cs₂ ds₂ := by
  induction cs₁ generalizing ds with
  | nil =>
    match ds, h with
    | [d], _ =>
      simp only [List.nil_append, List.cons_append, vsMinusV_cons, gaeSum_cons, vsMinusV_nil,
        gaeSum_nil, List.cons.injEq, and_true]
      ring
  | cons c cs₁ ih =>
    match ds, h with
    | d :: ds, h =>
      simp only [List.length_cons, Nat.add_right_cancel_iff] at h
      have hs := gaeSum_append_zero cs₁ cs₂ ds ds₂ h
      simp only [List.cons_append, vsMinusV_cons, gaeSum_cons, ih ds h, hs]

/-- all factors zero (`λ = 0`): every sum is its first term -/
theorem vsMinusV_coefs_zero (disc : R) (trunc term ds : List R)
    (h1 : term.length = trunc.length) (h2 : ds.length = trunc.length) :
    vsMinusV (coefs 0 disc trunc term) ds = ds := by
  induction trunc generalizing term ds with
  | nil => cases ds <;> simp_all [vsMinusV_nil]
  | cons tr trs ih =>
    match term, ds, h1, h2 with
    | te :: tes, d :: ds, h1, h2 =>
      simp only [List.length_cons, Nat.add_right_cancel_iff] at h1 h2
      have := ih tes ds h1 h2
      simp only [coefs, List.zipWith_cons_cons, vsMinusV_cons, gaeSum_cons, coef] at this ⊢
      rw [this]
      congr 1
      ring

theorem coefs_append (lam disc : R) (tr₁ tr₂ te₁ te₂ : List R) (h : te₁.length = tr₁.length) :
    coefs lam disc (tr₁ ++ tr₂) (te₁ ++ te₂) = coefs lam disc tr₁ te₁ ++ coefs lam disc tr₂ te₂ := by
  simp only [coefs]
  exact List.zipWith_append h.symm

theorem length_coefs (lam disc : R) (trunc term : List R) (h : term.length = trunc.length) :
    (coefs lam disc trunc term).length = trunc.length := by
  simp [coefs, h]

/-! ## the implementation's pieces -/

/-- the reverse scan of the implementation computes the defining sums (Horner) -/
theorem scanRev_eq (lam disc : R) (trunc term ds : List R)
    (h1 : term.length = trunc.length) (h2 : ds.length = trunc.length) :
    scanRev lam disc 0 (trunc.map fun tr => 1 - tr) ds term
      = (gaeSum (coefs lam disc trunc term) ds, vsMinusV (coefs lam disc trunc term) ds) := by
  induction trunc generalizing term ds with
  | nil =>
    cases term <;> cases ds <;> simp_all [scanRev, gaeSum_nil, vsMinusV_nil]
  | cons tr trs ih =>
    match term, ds, h1, h2 with
    | te :: tes, d :: ds, h1, h2 =>
      simp only [List.length_cons, Nat.add_right_cancel_iff] at h1 h2
      simp only [List.map_cons, scanRev, ih tes ds h1 h2, coefs, List.zipWith_cons_cons,
        vsMinusV_cons, gaeSum_cons, coef, Prod.mk.injEq, List.cons.injEq, and_true]
      constructor <;> ring

/-- the vectorised TD-error expression against `concatenate([next[1:], [b]])` is the TD error
against "the next entry, or `b` at the last step" -/
theorem tdErr_shiftIn (disc : R) (trunc term rew val nxt : List R) (b : R)
    (h1 : term.length = trunc.length) (h2 : rew.length = trunc.length)
    (h3 : val.length = trunc.length) (h4 : nxt.length = trunc.length) :
    tdErr disc term rew (shiftIn nxt b) val (trunc.map fun tr => 1 - tr)
      = tdNext disc trunc term rew val nxt b := by
  induction trunc generalizing term rew val nxt with
  | nil => simp [tdErr, tdNext]
  | cons tr trs ih =>
    match term, rew, val, nxt, h1, h2, h3, h4 with
    | te :: tes, r :: rs, v :: vs, n :: ns, h1, h2, h3, h4 =>
      simp only [List.length_cons, Nat.add_right_cancel_iff] at h1 h2 h3 h4
      have := ih tes rs vs ns h1 h2 h3 h4
      cases ns with
      | nil =>
        cases trs <;> simp_all [tdErr, tdNext, shiftIn, delta]
      | cons n' ns' =>
        simp only [tdErr, shiftIn, List.tail_cons, List.cons_append, List.map_cons,
          List.zipWith_cons_cons, tdNext, delta] at this ⊢
        rw [this]

theorem tdNext_cons (disc : R) (tr te r v n : R) (trs tes rs vs ns : List R) (b : R) :
    tdNext disc (tr :: trs) (te :: tes) (r :: rs) (v :: vs) (n :: ns) b
      = delta disc tr te r v (ns.headD b) :: tdNext disc trs tes rs vs ns b := by
  cases ns <;> simp [tdNext]

theorem length_tdNext (disc : R) (trunc term rew val nxt : List R) (b : R)
    (h1 : term.length = trunc.length) (h2 : rew.length = trunc.length)
    (h3 : val.length = trunc.length) (h4 : nxt.length = trunc.length) :
    (tdNext disc trunc term rew val nxt b).length = trunc.length := by
  induction trunc generalizing term rew val nxt with
  | nil => simp [tdNext]
  | cons tr trs ih =>
    match term, rew, val, nxt, h1, h2, h3, h4 with
    | te :: tes, r :: rs, v :: vs, n :: ns, h1, h2, h3, h4 =>
      simp only [List.length_cons, Nat.add_right_cancel_iff] at h1 h2 h3 h4
      simp [tdNext_cons, ih tes rs vs ns h1 h2 h3 h4]

/-- entry `k` of the TD errors: the next quantity is entry `k+1` of `nxt ++ [b]` -/
theorem getElem_tdNext (disc : R) (trunc term rew val nxt : List R) (b : R) (k : Nat)
    (h0 : k < trunc.length) (h1 : k < term.length) (h2 : k < rew.length) (h3 : k < val.length)
    (h4 : k + 1 < (nxt ++ [b]).length)
    (hk : k < (tdNext disc trunc term rew val nxt b).length) :
    (tdNext disc trunc term rew val nxt b)[k]
      = delta disc trunc[k] term[k] rew[k] val[k] (nxt ++ [b])[k + 1] := by
  induction trunc generalizing term rew val nxt k with
  | nil => simp at h0
  | cons tr trs ih =>
    match term, rew, val, nxt, h1, h2, h3, h4 with
    | te :: tes, r :: rs, v :: vs, [], h1, h2, h3, h4 => simp at h4
    | te :: tes, r :: rs, v :: vs, n :: ns, h1, h2, h3, h4 =>
      cases k with
      | zero => cases ns <;> simp [tdNext_cons]
      | succ k =>
        simp only [tdNext_cons, List.getElem_cons_succ, List.cons_append]
        simp only [List.length_cons, Nat.add_lt_add_iff_right, List.cons_append] at h0 h1 h2 h3 h4
        exact ih tes rs vs ns k h0 h1 h2 h3 (by simpa using h4) _

/-- TD errors of a concatenation whose first part ends with a terminated or truncated step:
the first part's errors do not see the second part (nor its bootstrap) -/
theorem tdNext_append (disc : R) (tr₁ te₁ r₁ v₁ N tr₂ te₂ r₂ v₂ n₂ : List R) (tr te r v b b₀ : R)
    (h1 : te₁.length = tr₁.length) (h2 : r₁.length = tr₁.length) (h3 : v₁.length = tr₁.length)
    (h4 : N.length = tr₁.length + 1) (hend : te = 1 ∨ tr = 1) :
    tdNext disc (tr₁ ++ tr :: tr₂) (te₁ ++ te :: te₂) (r₁ ++ r :: r₂) (v₁ ++ v :: v₂) (N ++ n₂) b
      = tdNext disc (tr₁ ++ [tr]) (te₁ ++ [te]) (r₁ ++ [r]) (v₁ ++ [v]) N b₀
        ++ tdNext disc tr₂ te₂ r₂ v₂ n₂ b := by
  induction tr₁ generalizing te₁ r₁ v₁ N with
  | nil =>
    match te₁, r₁, v₁, N, h1, h2, h3, h4 with
    | [], [], [], [n], _, _, _, _ =>
      simp only [List.nil_append, List.cons_append, tdNext_cons, tdNext, List.headD_nil,
        List.cons.injEq, and_true]
      rcases hend with h | h <;> subst h <;> simp only [delta] <;> ring
  | cons p tr₁ ih =>
    match te₁, r₁, v₁, N, h1, h2, h3, h4 with
    | q :: te₁, s :: r₁, w :: v₁, n :: n' :: N, h1, h2, h3, h4 =>
      simp only [List.length_cons, Nat.add_right_cancel_iff] at h1 h2 h3 h4
      have := ih te₁ r₁ v₁ (n' :: N) h1 h2 h3 (by simpa using h4)
      simp only [List.cons_append, tdNext_cons, List.headD_cons] at this ⊢
      rw [this]

/-- the list form of the defining sum is the textbook `Σ_{k=t}^{T-1} (Π_{j=t}^{k-1} c_j) d_k` -/
theorem gaeSum_drop_eq_sum (cs ds : List R) (h : cs.length = ds.length) (t : Nat) (ht : t ≤ ds.length) :
    gaeSum (cs.drop t) (ds.drop t)
      = ∑ k ∈ Finset.Ico t ds.length, (∏ j ∈ Finset.Ico t k, cs.getD j 0) * ds.getD k 0 := by
  obtain ⟨n, hn⟩ : ∃ n, n = ds.length - t := ⟨_, rfl⟩
  induction n generalizing t with
  | zero =>
    have : t = ds.length := by omega
    subst this
    simp [gaeSum_nil]
  | succ n ih =>
    have ht' : t < ds.length := by omega
    have hc : t < cs.length := by omega
    rw [List.drop_eq_getElem_cons ht', List.drop_eq_getElem_cons hc, gaeSum_cons,
      ih (t + 1) (by omega) (by omega), Finset.sum_eq_sum_Ico_succ_bot ht', Finset.mul_sum]
    simp only [Finset.Ico_self, Finset.prod_empty, one_mul]
    congr 1
    · simp [List.getD_eq_getElem?_getD, ht']
    · apply Finset.sum_congr rfl
      intro k hk
      have hk' : t < k := by simp at hk; omega
      rw [Finset.prod_eq_prod_Ico_succ_bot hk']
      simp [List.getD_eq_getElem?_getD, hc]
      ring

omit [CommRing R] in
/-- with the convention `x_T = b`: entry `t+1` of `xs ++ [b]` is the head of the suffix, or `b` -/
theorem getElem_append_singleton_succ (xs : List R) (b : R) (t : Nat) (h : t + 1 < (xs ++ [b]).length) :
    (xs ++ [b])[t + 1] = (xs.drop (t + 1)).headD b := by
  by_cases h' : t + 1 < xs.length
  · rw [List.getElem_append_left h', List.drop_eq_getElem_cons h']; rfl
  · have : t + 1 = xs.length := by simp at h; omega
    simp [this]

/-- head of the list of returns-to-go -/
theorem headD_returns (rs : List R) (b : R) :
    ((List.range rs.length).map fun t => sumL (rs.drop t) + b).headD b = sumL rs + b := by
  cases rs with
  | nil => simp [sumL]
  | cons r rs => simp [List.range_succ_eq_map]

theorem length_deltas (disc : R) (T : Nat) (trunc term rew val : List R) (b : R)
    (h : WF T trunc term rew val) : (deltas disc trunc term rew val b).length = T := by
  obtain ⟨h0, h1, h2, h3⟩ := h
  subst h0
  exact length_tdNext disc trunc term rew val val b h1 h2 h3 h3

/-! ## ring homomorphisms commute with the pieces of the implementation -/

section RingHom
variable {S : Type} [CommRing S]

theorem tdErr_map (f : R →+* S) (disc : R) (term rew next val mask : List R) :
    (tdErr disc term rew next val mask).map f
      = tdErr (f disc) (term.map f) (rew.map f) (next.map f) (val.map f) (mask.map f) := by
  induction term generalizing rew next val mask with
  | nil => simp [tdErr]
  | cons te tes ih =>
    match rew, next, val, mask with
    | [], _, _, _ => simp [tdErr]
    | _ :: _, [], _, _ => simp [tdErr]
    | _ :: _, _ :: _, [], _ => simp [tdErr]
    | _ :: _, _ :: _, _ :: _, [] => simp [tdErr]
    | r :: rs, n :: ns, v :: vs, m :: ms =>
      have := ih rs ns vs ms
      simp only [tdErr, List.map_cons, List.zipWith_cons_cons, map_mul, map_sub, map_add, map_one,
        List.cons.injEq, true_and] at this ⊢
      exact this

theorem scanRev_map (f : R →+* S) (lam disc acc0 : R) (mask ds term : List R) :
    f (scanRev lam disc acc0 mask ds term).1
        = (scanRev (f lam) (f disc) (f acc0) (mask.map f) (ds.map f) (term.map f)).1
    ∧ (scanRev lam disc acc0 mask ds term).2.map f
        = (scanRev (f lam) (f disc) (f acc0) (mask.map f) (ds.map f) (term.map f)).2 := by
  induction mask generalizing ds term with
  | nil => simp [scanRev]
  | cons m ms ih =>
    match ds, term with
    | [], _ => simp [scanRev]
    | _ :: _, [] => simp [scanRev]
    | d :: ds, te :: tes =>
      have := ih ds tes
      simp only [scanRev, List.map_cons, map_add, map_mul, map_sub, map_one, this.1, ← this.2,
        and_self]

end RingHom

end Brax.C19
